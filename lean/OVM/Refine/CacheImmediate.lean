import OVM.Refine.CacheGC
/-
  The CLOSURE versions `delete_cell/face/edge/vertex` (Kernel/Delete.lean `deleteCell … deleteVertex`,
  TopologyKernel.cc:608-740) in IMMEDIATE (`deferred = false`), index-shifting (`fast = false`) mode keep
  `ImmInv` = `WF` (lengths, ranges, cache invariant) + C01's `oneCell` + "nothing is flagged deleted".
  CacheGC.lean proves each `delete_*_core` under the hypothesis that no stored definition of the level above
  uses the victim; here that hypothesis is ESTABLISHED by the closure:
    * the incidence queries `incident_cells/faces/edges` are complete (`incident*_complete`; both the
      cache-guided and the linear-scan branch) and stay inside the slot range (`incident*_lt`);
    * their result is a `std::set`, iterated in reverse: a strictly descending victim list (`Desc`), so erasing a
      victim renumbers only slots above the remaining victims (`immInv_foldCells/Faces/Edges`: every surviving
      definition is an old definition at an index outside the victim list; "no cell uses a victim face" survives
      the renumbering of the cells by `corr2`, because `corr1 x z = y < x` forces `z = y`);
    * `immInv_deleteCell/Face/Edge/Vertex` chain the loops (`imm_cellsGone`, `imm_facesGone`).
  Everything lives in the namespace `OVM.Kernel.Shift`: CacheFastClosure.lean states the analogous result for
  immediate FAST mode under the same short names (`ImmInv`, `immInv_delete*`, `tetImm`) in `OVM.Kernel`.
-/
namespace OVM
namespace Kernel
open ScanDel
namespace Shift

/-- what immediate, index-shifting mode maintains: nothing is flagged (flags only arise in deferred mode and
    `enable_deferred_deletion(false)` collects them first) -/
structure ImmInv (k : Kernel) : Prop where
  deferred : k.deferred = false
  fast : k.fast = false
  wf : WF k
  one : k.oneCell = true
  cells : CellsLive k
  faces : FacesLive k
  edges : EdgesLive k

/-! ## the four cores in immediate index-shifting mode: fields after the step -/

theorem imm_cellCore_cells {k : Kernel} (hi : ImmInv k) (h : Nat) : (k.deleteCellCore h).cells = k.cells.eraseIdx h := by
  rw [deleteCellCore_shift_eq h hi.deferred hi.fast, eraseCell_cells, unlinkCell_cells]
theorem imm_cellCore_faces {k : Kernel} (hi : ImmInv k) (h : Nat) : (k.deleteCellCore h).faces = k.faces := by
  rw [deleteCellCore_shift_eq h hi.deferred hi.fast, eraseCell_faces, unlinkCell_faces]
theorem imm_cellCore_edges {k : Kernel} (hi : ImmInv k) (h : Nat) : (k.deleteCellCore h).edges = k.edges := by
  rw [deleteCellCore_shift_eq h hi.deferred hi.fast, eraseCell_edges, unlinkCell_edges]
theorem imm_cellCore_nV {k : Kernel} (hi : ImmInv k) (h : Nat) : (k.deleteCellCore h).nV = k.nV := by
  rw [deleteCellCore_shift_eq h hi.deferred hi.fast, eraseCell_nV, unlinkCell_nV]
theorem imm_cellCore_cDel {k : Kernel} (hi : ImmInv k) (h : Nat) : (k.deleteCellCore h).cDel = k.cDel.eraseIdx h := by
  rw [deleteCellCore_shift_eq h hi.deferred hi.fast, eraseCell_cDel, unlinkCell_cDel]
theorem imm_cellCore_fDel {k : Kernel} (hi : ImmInv k) (h : Nat) : (k.deleteCellCore h).fDel = k.fDel := by
  rw [deleteCellCore_shift_eq h hi.deferred hi.fast, eraseCell_fDel, unlinkCell_fDel]
theorem imm_cellCore_eDel {k : Kernel} (hi : ImmInv k) (h : Nat) : (k.deleteCellCore h).eDel = k.eDel := by
  rw [deleteCellCore_shift_eq h hi.deferred hi.fast, eraseCell_eDel, unlinkCell_eDel]
theorem imm_cellCore_cellAt {k : Kernel} (hi : ImmInv k) (h c : Nat) : (k.deleteCellCore h).cellAt c = k.cellAt (up h c) := by
  unfold cellAt; rw [imm_cellCore_cells hi, getD_eraseIdx]
theorem imm_cellCore_nC {k : Kernel} (hi : ImmInv k) {h : Nat} (hh : h < k.nC) : (k.deleteCellCore h).nC = k.nC - 1 := by
  unfold nC at *; rw [imm_cellCore_cells hi, List.length_eraseIdx, if_pos hh]

theorem immInv_deleteCellCore {k : Kernel} {h : Nat} (hi : ImmInv k) (hh : h < k.nC) : ImmInv (k.deleteCellCore h) := by
  have hw := wf_deleteCellCore_shift hi.deferred hi.fast hh hi.wf hi.one
  refine ⟨by simpa using hi.deferred, by simpa using hi.fast, hw.1, hw.2, ?_, ?_, ?_⟩
  · intro c hc
    rw [imm_cellCore_nC hi hh] at hc
    unfold cDeleted
    rw [imm_cellCore_cDel hi, getD_eraseIdx]
    exact hi.cells _ ((up_lt h c _ hh).mpr hc)
  · exact facesLive_of_eq (by rw [imm_cellCore_faces hi]) (imm_cellCore_fDel hi h) hi.faces
  · exact edgesLive_of_eq (by rw [imm_cellCore_edges hi]) (imm_cellCore_eDel hi h) hi.edges

theorem immInv_deleteCell {k : Kernel} {c : Nat} (hi : ImmInv k) (hc : c < k.nC) : ImmInv (k.deleteCell c) :=
  immInv_deleteCellCore hi hc

/-- the face core: every stored cell is renumbered, the face slot disappears -/
theorem imm_faceCore {k : Kernel} {h : Nat} (hi : ImmInv k) (hh : h < k.nF)
    (hun : ∀ c ∈ k.cells, ∀ a ∈ c, eOf a ≠ h) :
    ImmInv (k.deleteFaceCore h) ∧ (k.deleteFaceCore h).cells = k.cells.map (·.map (corr2 (2 * h + 1))) ∧
    (k.deleteFaceCore h).faces = k.faces.eraseIdx h ∧ (k.deleteFaceCore h).edges = k.edges ∧
    (k.deleteFaceCore h).nV = k.nV := by
  have hw := wf_deleteFaceCore_shift hi.deferred hi.fast hh hi.wf hi.one hi.cells hun
  have heq := deleteFaceCore_shift_eq (k := k) h hi.deferred hi.fast
  have hw3 := wf_unlinkMarkFace h hi.wf
  have ok : EraseFaceOK ({ k.unlinkFace h with fDel := k.fDel.set h true } : Kernel) h :=
    ⟨by simpa using hi.fast, by unfold nF at *; simpa using hh,
     by unfold fDeleted; exact getD_set_true _ _ (by rw [hi.wf.len.fDel]; exact hh),
     oneCell_of_same (k := k) (by simp) (by simp) (by simp) hi.one,
     cellsLive_of_eq (k := k) (by simp) (by simp) hi.cells, by simpa using hun⟩
  have e := eraseFace_congr_fDel (k.unlinkFace h) h (k.fDel.set h true) (by rw [unlinkFace_fDel, k4_eraseIdx_set_same])
  have hcells : (k.deleteFaceCore h).cells = k.cells.map (·.map (corr2 (2 * h + 1))) := by
    rw [heq, ← e, eraseFace_cells ok.fast hw3 ok.one ok.cellsLive ok.unref]
    simp
  have hfaces : (k.deleteFaceCore h).faces = k.faces.eraseIdx h := by
    rw [heq, eraseFace_faces, unlinkFace_faces]
  have hfDel : (k.deleteFaceCore h).fDel = k.fDel.eraseIdx h := by
    rw [heq, eraseFace_fDel, unlinkFace_fDel]
  have hedges : (k.deleteFaceCore h).edges = k.edges := by rw [heq, eraseFace_edges, unlinkFace_edges]
  refine ⟨⟨by simpa using hi.deferred, by simpa using hi.fast, hw.1, hw.2, ?_, ?_, ?_⟩, hcells, hfaces, hedges, ?_⟩
  · exact cellsLive_of_eq (by rw [hcells, List.length_map]) (by rw [heq, eraseFace_cDel, unlinkFace_cDel]) hi.cells
  · intro f hf
    have hn : (k.deleteFaceCore h).nF = k.nF - 1 := by unfold nF at *; rw [hfaces, List.length_eraseIdx, if_pos hh]
    rw [hn] at hf
    unfold fDeleted
    rw [hfDel, getD_eraseIdx]
    exact hi.faces _ ((up_lt h f _ hh).mpr hf)
  · exact edgesLive_of_eq (by rw [hedges]) (by rw [heq, eraseFace_eDel, unlinkFace_eDel]) hi.edges
  · rw [heq, eraseFace_nV, unlinkFace_nV]

/-- the edge core: every stored face is renumbered, the edge slot disappears -/
theorem imm_edgeCore {k : Kernel} {h : Nat} (hi : ImmInv k) (hh : h < k.nE)
    (hun : ∀ c ∈ k.faces, ∀ a ∈ c, eOf a ≠ h) :
    ImmInv (k.deleteEdgeCore h) ∧ (k.deleteEdgeCore h).faces = k.faces.map (·.map (corr2 (2 * h + 1))) ∧
    (k.deleteEdgeCore h).edges = k.edges.eraseIdx h ∧ (k.deleteEdgeCore h).nV = k.nV := by
  have hw := wf_deleteEdgeCore_shift hi.deferred hi.fast hh hi.wf hi.one hi.faces hun
  have heq := deleteEdgeCore_shift_eq (k := k) h hi.deferred hi.fast
  have hw3 := wf_unlinkMarkEdge h hi.wf
  have ok : EraseEdgeOK ({ k.unlinkEdge h with eDel := k.eDel.set h true } : Kernel) h :=
    ⟨by simpa using hi.fast, by unfold nE at *; simpa using hh,
     by unfold eDeleted; exact getD_set_true _ _ (by rw [hi.wf.len.eDel]; exact hh),
     facesLive_of_eq (k := k) (by simp) (by simp) hi.faces, by simpa using hun⟩
  have e := eraseEdge_flag_irrelevant (k.unlinkEdge h) h true
  rw [unlinkEdge_eDel] at e
  have hfaces : (k.deleteEdgeCore h).faces = k.faces.map (·.map (corr2 (2 * h + 1))) := by
    rw [heq, ← e, eraseEdge_faces hw3 ok]
    simp
  have hedges : (k.deleteEdgeCore h).edges = k.edges.eraseIdx h := by rw [heq, eraseEdge_edges, unlinkEdge_edges]
  have heDel : (k.deleteEdgeCore h).eDel = k.eDel.eraseIdx h := by rw [heq, eraseEdge_eDel, unlinkEdge_eDel]
  refine ⟨⟨by simpa using hi.deferred, by simpa using hi.fast, hw.1, hw.2, ?_, ?_, ?_⟩, hfaces, hedges, ?_⟩
  · exact cellsLive_of_eq (by rw [heq, eraseEdge_cells, unlinkEdge_cells]) (by rw [heq, eraseEdge_cDel, unlinkEdge_cDel]) hi.cells
  · exact facesLive_of_eq (by rw [hfaces, List.length_map]) (by rw [heq, eraseEdge_fDel, unlinkEdge_fDel]) hi.faces
  · intro f hf
    have hn : (k.deleteEdgeCore h).nE = k.nE - 1 := by unfold nE at *; rw [hedges, List.length_eraseIdx, if_pos hh]
    rw [hn] at hf
    unfold eDeleted
    rw [heDel, getD_eraseIdx]
    exact hi.edges _ ((up_lt h f _ hh).mpr hf)
  · rw [heq, eraseEdge_nV, unlinkEdge_nV]

/-- the vertex core -/
theorem imm_vertexCore {k : Kernel} {h : Nat} (hi : ImmInv k) (hh : h < k.nV)
    (hun : ∀ e ∈ k.edges, e.1 ≠ h ∧ e.2 ≠ h) : ImmInv (k.deleteVertexCore h) := by
  have hw := wf_deleteVertexCore_shift hi.deferred hi.fast hh hi.wf hi.one hi.edges hun
  have heq := deleteVertexCore_shift_eq (k := k) h hi.deferred hi.fast
  refine ⟨by simpa using hi.deferred, by simpa using hi.fast, hw.1, hw.2, ?_, ?_, ?_⟩
  · exact cellsLive_of_eq (by rw [heq, eraseVertex_cells]) (by rw [heq, eraseVertex_cDel]) hi.cells
  · exact facesLive_of_eq (by rw [heq, eraseVertex_faces]) (by rw [heq, eraseVertex_fDel]) hi.faces
  · exact edgesLive_of_eq (by rw [heq, eraseVertex_edges hi.wf ⟨hh, hi.edges, hun⟩, List.length_map])
      (by rw [heq, eraseVertex_eDel]) hi.edges


/-! ## the incidence queries of the closure versions are complete (and stay inside the slot range) -/

theorem k4c_liveC {k : Kernel} (hl : CellsLive k) {c : Nat} (hc : c < k.nC) : k.liveC c = true := by
  unfold liveC; simp [hc, hl c hc]
theorem k4c_liveF {k : Kernel} (hl : FacesLive k) {c : Nat} (hc : c < k.nF) : k.liveF c = true := by
  unfold liveF; simp [hc, hl c hc]
theorem k4c_liveE {k : Kernel} (hl : EdgesLive k) {c : Nat} (hc : c < k.nE) : k.liveE c = true := by
  unfold liveE; simp [hc, hl c hc]
theorem k4c_liveC_lt {k : Kernel} {c : Nat} (h : k.liveC c = true) : c < k.nC := by
  unfold liveC at h; simp at h; exact h.1
theorem k4c_liveF_lt {k : Kernel} {c : Nat} (h : k.liveF c = true) : c < k.nF := by
  unfold liveF at h; simp at h; exact h.1
theorem k4c_liveE_lt {k : Kernel} {c : Nat} (h : k.liveE c = true) : c < k.nE := by
  unfold liveE at h; simp at h; exact h.1

theorem k4c_half_cases (a f : Nat) (h : eOf a = f) : a = 2 * f ∨ a = 2 * f + 1 := by unfold eOf at h; omega

/-- every cell that uses a face of `fs` is found by `incident_cells(fs)` (cc:875-915) -/
theorem incidentCells_complete {k : Kernel} (hw : WF k) (h1 : k.oneCell = true) (hl : CellsLive k)
    {fs : List Nat} {c a : Nat} (hc : c < k.nC) (ha : a ∈ k.cellAt c) (hf : eOf a ∈ fs) : c ∈ k.incidentCells fs := by
  have hlc := k4c_liveC hl hc
  unfold incidentCells
  split
  · rename_i hb
    rw [k4_mem_toSet, List.mem_flatMap]
    refine ⟨eOf a, hf, ?_⟩
    have hanHF : a < k.nHF := hw.range.cells _ (cellAt_mem_cells hc) a ha
    have hco : k.cellOf a = some c := by rw [(hw.cache.f hb).2 a hanHF]; exact sCellOf_of_mem h1 hanHF hlc ha
    rw [List.mem_filterMap]
    refine ⟨some c, ?_, rfl⟩
    rcases k4c_half_cases a _ rfl with e | e
    · have : heOf (eOf a) 0 = a := by unfold heOf; omega
      rw [this, hco]; simp
    · have : heOf (eOf a) 1 = a := by unfold heOf; omega
      rw [this, hco]; simp
  · rw [k4_mem_toSet, List.mem_flatMap]
    refine ⟨eOf a, hf, ?_⟩
    rw [List.mem_filter, mem_liveCells]
    refine ⟨hlc, ?_⟩
    rw [List.any_eq_true]
    exact ⟨a, ha, by simp⟩

theorem incidentCells_lt {k : Kernel} (hw : WF k) {fs : List Nat} {c : Nat} (hm : c ∈ k.incidentCells fs) : c < k.nC := by
  unfold incidentCells at hm
  split at hm
  · rename_i hb
    rw [k4_mem_toSet, List.mem_flatMap] at hm
    obtain ⟨f, _, hm⟩ := hm
    rw [List.mem_filterMap] at hm
    obtain ⟨o, ho, rfl⟩ := hm
    simp only [List.mem_cons, List.not_mem_nil, or_false] at ho
    rcases ho with ho | ho
    · exact k4c_liveC_lt (cellOf_some_live hw.cache.f hb ho.symm).2.1
    · exact k4c_liveC_lt (cellOf_some_live hw.cache.f hb ho.symm).2.1
  · rw [k4_mem_toSet, List.mem_flatMap] at hm
    obtain ⟨f, _, hm⟩ := hm
    exact k4c_liveC_lt ((mem_liveCells k c).mp (List.mem_filter.mp hm).1)

/-- every face that uses an edge of `es` is found by `incident_faces(es)` (cc:831-870) -/
theorem incidentFaces_complete {k : Kernel} (hw : WF k) (hl : FacesLive k)
    {es : List Nat} {f a : Nat} (hf : f < k.nF) (ha : a ∈ k.faceAt f) (he : eOf a ∈ es) : f ∈ k.incidentFaces es := by
  have hlf := k4c_liveF hl hf
  unfold incidentFaces
  split
  · rename_i hb
    rw [k4_mem_toSet, List.mem_flatMap]
    refine ⟨eOf a, he, ?_⟩
    have hanHE : a < k.nHE := hw.range.faces _ (faceAt_mem_faces hf) a ha
    have h0 : heOf (eOf a) 0 = 2 * eOf a := by unfold heOf; omega
    have h0lt : 2 * eOf a < k.nHE := by unfold nHE eOf at *; omega
    rw [h0, List.mem_map]
    have hp := (hw.cache.e hb).2 _ h0lt
    rcases k4c_half_cases a _ rfl with e | e
    · refine ⟨2 * f, ?_, by unfold eOf; omega⟩
      apply hp.mem_iff.mpr
      rw [mem_sHfsOfHe]
      refine ⟨by rw [show eOf (2 * f) = f by unfold eOf; omega]; exact hlf, ?_⟩
      rw [hfHes_two_mul, ← e]; exact ha
    · refine ⟨2 * f + 1, ?_, by unfold eOf; omega⟩
      apply hp.mem_iff.mpr
      rw [mem_sHfsOfHe]
      refine ⟨by rw [show eOf (2 * f + 1) = f by unfold eOf; omega]; exact hlf, ?_⟩
      rw [hfHes_two_mul_succ]
      unfold oppFace
      simp only [List.mem_map, List.mem_reverse]
      exact ⟨a, ha, by rw [e, opp_two_mul_succ]; unfold eOf; omega⟩
  · rw [k4_mem_toSet, List.mem_flatMap]
    refine ⟨eOf a, he, ?_⟩
    rw [List.mem_filter, mem_liveFaces]
    refine ⟨hlf, ?_⟩
    rw [List.any_eq_true]
    exact ⟨a, ha, by simp⟩

theorem incidentFaces_lt {k : Kernel} (hw : WF k) {es : List Nat} {f : Nat} (hm : f ∈ k.incidentFaces es) : f < k.nF := by
  unfold incidentFaces at hm
  split at hm
  · rename_i hb
    rw [k4_mem_toSet, List.mem_flatMap] at hm
    obtain ⟨e, _, hm⟩ := hm
    obtain ⟨x, hx, rfl⟩ := List.mem_map.mp hm
    obtain ⟨hlen, hs⟩ := hw.cache.e hb
    rcases Nat.lt_or_ge (heOf e 0) k.nHE with hy | hy
    · exact k4c_liveF_lt ((mem_sHfsOfHe k _ x).mp ((hs _ hy).mem_iff.mp hx)).1
    · unfold hfsOf at hx; rw [getD_of_ge _ _ _ (by rw [hlen]; exact hy)] at hx; cases hx
  · rw [k4_mem_toSet, List.mem_flatMap] at hm
    obtain ⟨e, _, hm⟩ := hm
    exact k4c_liveF_lt ((mem_liveFaces k f).mp (List.mem_filter.mp hm).1)

/-- every edge that touches a vertex of `vs` is found by `incident_edges(vs)` (cc:793-826) -/
theorem incidentEdges_complete {k : Kernel} (hw : WF k) (hl : EdgesLive k)
    {vs : List Nat} {e v : Nat} (he : e < k.nE) (hv : v ∈ vs) (ht : (k.edgeAt e).1 = v ∨ (k.edgeAt e).2 = v) :
    e ∈ k.incidentEdges vs := by
  have hle := k4c_liveE hl he
  unfold incidentEdges
  split
  · rename_i hb
    rw [k4_mem_toSet, List.mem_flatMap]
    refine ⟨v, hv, ?_⟩
    have hr := hw.range.edges _ (k4_edgeAt_mem he)
    have hvlt : v < k.nV := by rcases ht with e1 | e1 <;> (rw [← e1]; first | exact hr.1 | exact hr.2)
    have hm := mem_outOf_of_from hw hb hle hvlt
    rw [List.mem_map]
    rcases ht with e1 | e1
    · exact ⟨2 * e, hm.1 e1, by unfold eOf; omega⟩
    · exact ⟨2 * e + 1, hm.2 e1, by unfold eOf; omega⟩
  · rw [k4_mem_toSet, List.mem_flatMap]
    refine ⟨v, hv, ?_⟩
    rw [List.mem_filter, mem_liveEdges]
    refine ⟨hle, ?_⟩
    rcases ht with e1 | e1 <;> simp [e1]

theorem incidentEdges_lt {k : Kernel} (hw : WF k) {vs : List Nat} {e : Nat} (hm : e ∈ k.incidentEdges vs) : e < k.nE := by
  unfold incidentEdges at hm
  split at hm
  · rename_i hb
    rw [k4_mem_toSet, List.mem_flatMap] at hm
    obtain ⟨v, _, hm⟩ := hm
    obtain ⟨x, hx, rfl⟩ := List.mem_map.mp hm
    obtain ⟨hlen, hs⟩ := hw.cache.v hb
    rcases Nat.lt_or_ge v k.nV with hy | hy
    · exact k4c_liveE_lt (mem_sOut ((hs _ hy).mem_iff.mp hx)).2
    · unfold outOf at hx; rw [getD_of_ge _ _ _ (by rw [hlen]; exact hy)] at hx; cases hx
  · rw [k4_mem_toSet, List.mem_flatMap] at hm
    obtain ⟨v, _, hm⟩ := hm
    exact k4c_liveE_lt ((mem_liveEdges k e).mp (List.mem_filter.mp hm).1)

/-! ### the victim lists are strictly ascending, so their reversals strictly descending -/

theorem k4c_sortedLT_toSet (l : List Nat) : SortedLT (toSet l) := by
  unfold toSet
  have : ∀ (l s : List Nat), SortedLT s → SortedLT (l.foldl (fun s x => insertSorted x s) s) := by
    intro l
    induction l with
    | nil => intro s hs; exact hs
    | cons a t ih => intro s hs; exact ih _ (k4_sortedLT_insertSorted a s hs)
  exact this l [] (by simp [SortedLT])

theorem k4c_pairwise_of_sortedLT (l : List Nat) (h : SortedLT l) : l.Pairwise (· < ·) := by
  induction l with
  | nil => exact List.Pairwise.nil
  | cons a t ih =>
    have ht : SortedLT t := by
      cases t with
      | nil => trivial
      | cons b t' => exact h.2
    have iht := ih ht
    refine List.Pairwise.cons ?_ iht
    intro x hx
    cases t with
    | nil => cases hx
    | cons b t' =>
      rcases List.mem_cons.mp hx with rfl | hx
      · exact h.1
      · exact Nat.lt_trans h.1 (List.rel_of_pairwise_cons iht hx)

/-- strictly descending -/
def Desc (l : List Nat) : Prop := l.Pairwise (fun a b => b < a)

theorem desc_toSet_reverse (l : List Nat) : Desc (toSet l).reverse := by
  unfold Desc
  rw [List.pairwise_reverse]
  exact k4c_pairwise_of_sortedLT _ (k4c_sortedLT_toSet l)

theorem desc_incidentCells (k : Kernel) (fs : List Nat) : Desc (k.incidentCells fs).reverse := by
  unfold incidentCells; split <;> exact desc_toSet_reverse _
theorem desc_incidentFaces (k : Kernel) (fs : List Nat) : Desc (k.incidentFaces fs).reverse := by
  unfold incidentFaces; split <;> exact desc_toSet_reverse _
theorem desc_incidentEdges (k : Kernel) (fs : List Nat) : Desc (k.incidentEdges fs).reverse := by
  unfold incidentEdges; split <;> exact desc_toSet_reverse _

/-! ## deleting a strictly descending list of victims: the slots above a victim are renumbered, the
    remaining victims (all smaller) keep their handles -/

theorem k4c_up_not_mem {x j : Nat} {t : List Nat} (ht : ∀ y ∈ t, y < x) (hj : j ∉ t) : up x j ∉ t := by
  intro hm
  have hlt := ht _ hm
  have : up x j = j := by
    unfold up at hlt ⊢
    by_cases h : j < x
    · simp [h]
    · simp only [h, if_false] at hlt; omega
  rw [this] at hm; exact hj hm

theorem k4c_corr1_not_mem {x z : Nat} {t : List Nat} (ht : ∀ y ∈ t, y < x) (hz : z ∉ t) : corr1 x z ∉ t := by
  intro hm
  have hlt := ht _ hm
  have : corr1 x z = z := by
    unfold corr1 at hlt ⊢
    by_cases h : z > x
    · simp only [h, if_true] at hlt; omega
    · simp [h]
  rw [this] at hm; exact hz hm

/-- the cell loop of `delete_face/edge/vertex` (cc:633-636 etc.) -/
theorem immInv_foldCells (L : List Nat) (hd : Desc L) : ∀ k : Kernel, ImmInv k → (∀ x ∈ L, x < k.nC) →
    ImmInv (L.foldl deleteCellCore k) ∧ (L.foldl deleteCellCore k).faces = k.faces ∧
    (L.foldl deleteCellCore k).edges = k.edges ∧ (L.foldl deleteCellCore k).nV = k.nV ∧
    ∀ j', j' < (L.foldl deleteCellCore k).nC → ∃ j, j < k.nC ∧ j ∉ L ∧ (L.foldl deleteCellCore k).cellAt j' = k.cellAt j := by
  induction L with
  | nil => intro k hi _; exact ⟨hi, rfl, rfl, rfl, fun j' hj' => ⟨j', hj', by simp, rfl⟩⟩
  | cons x t ih =>
    intro k hi hlt
    have hx : x < k.nC := hlt x (by simp)
    have htx : ∀ y ∈ t, y < x := fun y hy => List.rel_of_pairwise_cons hd hy
    have hi1 := immInv_deleteCellCore hi hx
    have hn1 := imm_cellCore_nC hi hx
    obtain ⟨a1, a2, a3, a4, a5⟩ := ih (List.Pairwise.of_cons hd) (k.deleteCellCore x) hi1
      (fun y hy => by rw [hn1]; have := htx y hy; omega)
    simp only [List.foldl_cons]
    refine ⟨a1, by rw [a2, imm_cellCore_faces hi], by rw [a3, imm_cellCore_edges hi], by rw [a4, imm_cellCore_nV hi], ?_⟩
    intro j' hj'
    obtain ⟨j, hj, hjt, e⟩ := a5 j' hj'
    rw [hn1] at hj
    refine ⟨up x j, (up_lt x j _ hx).mpr hj, ?_, by rw [e, imm_cellCore_cellAt hi]⟩
    intro hm
    rcases List.mem_cons.mp hm with e1 | e1
    · exact up_ne x j e1
    · exact k4c_up_not_mem htx hjt e1

theorem k4c_faceAt_eraseIdx (k k' : Kernel) (h : Nat) (e : k'.faces = k.faces.eraseIdx h) (j : Nat) :
    k'.faceAt j = k.faceAt (up h j) := by unfold faceAt; rw [e, getD_eraseIdx]
theorem k4c_edgeAt_eraseIdx (k k' : Kernel) (h : Nat) (e : k'.edges = k.edges.eraseIdx h) (j : Nat) :
    k'.edgeAt j = k.edgeAt (up h j) := by unfold edgeAt; rw [e, getD_eraseIdx]

/-- the face loop of `delete_edge/vertex`: given that no stored cell uses any of the victims -/
theorem immInv_foldFaces (L : List Nat) (hd : Desc L) : ∀ k : Kernel, ImmInv k → (∀ x ∈ L, x < k.nF) →
    (∀ c ∈ k.cells, ∀ a ∈ c, eOf a ∉ L) →
    ImmInv (L.foldl deleteFaceCore k) ∧ (L.foldl deleteFaceCore k).edges = k.edges ∧
    (L.foldl deleteFaceCore k).nV = k.nV ∧
    ∀ j', j' < (L.foldl deleteFaceCore k).nF → ∃ j, j < k.nF ∧ j ∉ L ∧ (L.foldl deleteFaceCore k).faceAt j' = k.faceAt j := by
  induction L with
  | nil => intro k hi _ _; exact ⟨hi, rfl, rfl, fun j' hj' => ⟨j', hj', by simp, rfl⟩⟩
  | cons x t ih =>
    intro k hi hlt hun
    have hx : x < k.nF := hlt x (by simp)
    have htx : ∀ y ∈ t, y < x := fun y hy => List.rel_of_pairwise_cons hd hy
    have hunx : ∀ c ∈ k.cells, ∀ a ∈ c, eOf a ≠ x := fun c hc a ha e => hun c hc a ha (by rw [e]; simp)
    obtain ⟨hi1, hcells, hfaces, hedges, hnV⟩ := imm_faceCore hi hx hunx
    have hn1 : (k.deleteFaceCore x).nF = k.nF - 1 := by unfold nF at *; rw [hfaces, List.length_eraseIdx, if_pos hx]
    obtain ⟨a1, a3, a4, a5⟩ := ih (List.Pairwise.of_cons hd) (k.deleteFaceCore x) hi1
      (fun y hy => by rw [hn1]; have := htx y hy; omega)
      (by
        intro c1 hc1 a1 ha1
        rw [hcells] at hc1
        obtain ⟨c0, hc0, rfl⟩ := List.mem_map.mp hc1
        obtain ⟨a0, ha0, rfl⟩ := List.mem_map.mp ha1
        rw [eOf_corr2 x a0 (hunx c0 hc0 a0 ha0)]
        exact k4c_corr1_not_mem htx (fun hm => hun c0 hc0 a0 ha0 (List.mem_cons_of_mem _ hm)))
    simp only [List.foldl_cons]
    refine ⟨a1, by rw [a3, hedges], by rw [a4, hnV], ?_⟩
    intro j' hj'
    obtain ⟨j, hj, hjt, e⟩ := a5 j' hj'
    rw [hn1] at hj
    refine ⟨up x j, (up_lt x j _ hx).mpr hj, ?_, by rw [e, k4c_faceAt_eraseIdx k _ x hfaces]⟩
    intro hm
    rcases List.mem_cons.mp hm with e1 | e1
    · exact up_ne x j e1
    · exact k4c_up_not_mem htx hjt e1

/-- the edge loop of `delete_vertex`: given that no stored face uses any of the victims -/
theorem immInv_foldEdges (L : List Nat) (hd : Desc L) : ∀ k : Kernel, ImmInv k → (∀ x ∈ L, x < k.nE) →
    (∀ c ∈ k.faces, ∀ a ∈ c, eOf a ∉ L) →
    ImmInv (L.foldl deleteEdgeCore k) ∧ (L.foldl deleteEdgeCore k).nV = k.nV ∧
    ∀ j', j' < (L.foldl deleteEdgeCore k).nE → ∃ j, j < k.nE ∧ j ∉ L ∧ (L.foldl deleteEdgeCore k).edgeAt j' = k.edgeAt j := by
  induction L with
  | nil => intro k hi _ _; exact ⟨hi, rfl, fun j' hj' => ⟨j', hj', by simp, rfl⟩⟩
  | cons x t ih =>
    intro k hi hlt hun
    have hx : x < k.nE := hlt x (by simp)
    have htx : ∀ y ∈ t, y < x := fun y hy => List.rel_of_pairwise_cons hd hy
    have hunx : ∀ c ∈ k.faces, ∀ a ∈ c, eOf a ≠ x := fun c hc a ha e => hun c hc a ha (by rw [e]; simp)
    obtain ⟨hi1, hfaces, hedges, hnV⟩ := imm_edgeCore hi hx hunx
    have hn1 : (k.deleteEdgeCore x).nE = k.nE - 1 := by unfold nE at *; rw [hedges, List.length_eraseIdx, if_pos hx]
    obtain ⟨a1, a4, a5⟩ := ih (List.Pairwise.of_cons hd) (k.deleteEdgeCore x) hi1
      (fun y hy => by rw [hn1]; have := htx y hy; omega)
      (by
        intro c1 hc1 a1 ha1
        rw [hfaces] at hc1
        obtain ⟨c0, hc0, rfl⟩ := List.mem_map.mp hc1
        obtain ⟨a0, ha0, rfl⟩ := List.mem_map.mp ha1
        rw [eOf_corr2 x a0 (hunx c0 hc0 a0 ha0)]
        exact k4c_corr1_not_mem htx (fun hm => hun c0 hc0 a0 ha0 (List.mem_cons_of_mem _ hm)))
    simp only [List.foldl_cons]
    refine ⟨a1, by rw [a4, hnV], ?_⟩
    intro j' hj'
    obtain ⟨j, hj, hjt, e⟩ := a5 j' hj'
    rw [hn1] at hj
    refine ⟨up x j, (up_lt x j _ hx).mpr hj, ?_, by rw [e, k4c_edgeAt_eraseIdx k _ x hedges]⟩
    intro hm
    rcases List.mem_cons.mp hm with e1 | e1
    · exact up_ne x j e1
    · exact k4c_up_not_mem htx hjt e1

/-! ## the closure versions -/

theorem k4c_cells_index {k : Kernel} {c : List Nat} (hc : c ∈ k.cells) : ∃ j, j < k.nC ∧ k.cellAt j = c := by
  obtain ⟨i, hi, rfl⟩ := List.getElem_of_mem hc
  refine ⟨i, hi, ?_⟩
  unfold cellAt; rw [List.getD_eq_getElem?_getD, List.getElem?_eq_getElem hi]; rfl
theorem k4c_faces_index {k : Kernel} {c : List Nat} (hc : c ∈ k.faces) : ∃ j, j < k.nF ∧ k.faceAt j = c := by
  obtain ⟨i, hi, rfl⟩ := List.getElem_of_mem hc
  refine ⟨i, hi, ?_⟩
  unfold faceAt; rw [List.getD_eq_getElem?_getD, List.getElem?_eq_getElem hi]; rfl
theorem k4c_edges_index {k : Kernel} {c : Nat × Nat} (hc : c ∈ k.edges) : ∃ j, j < k.nE ∧ k.edgeAt j = c := by
  obtain ⟨i, hi, rfl⟩ := List.getElem_of_mem hc
  refine ⟨i, hi, ?_⟩
  unfold edgeAt; rw [List.getD_eq_getElem?_getD, List.getElem?_eq_getElem hi]; rfl

/-- after the cell loop over `incident_cells(fs)` no stored cell uses a face of `fs` -/
theorem imm_cellsGone {k : Kernel} (hi : ImmInv k) (fs : List Nat) :
    ImmInv ((k.incidentCells fs).reverse.foldl deleteCellCore k) ∧
    ((k.incidentCells fs).reverse.foldl deleteCellCore k).faces = k.faces ∧
    ((k.incidentCells fs).reverse.foldl deleteCellCore k).edges = k.edges ∧
    ((k.incidentCells fs).reverse.foldl deleteCellCore k).nV = k.nV ∧
    ∀ c ∈ ((k.incidentCells fs).reverse.foldl deleteCellCore k).cells, ∀ a ∈ c, eOf a ∉ fs := by
  obtain ⟨a1, a2, a3, a4, a5⟩ := immInv_foldCells _ (desc_incidentCells k fs) k hi
    (fun x hx => incidentCells_lt hi.wf (List.mem_reverse.mp hx))
  refine ⟨a1, a2, a3, a4, ?_⟩
  intro c hc a ha hm
  obtain ⟨j', hj', rfl⟩ := k4c_cells_index hc
  obtain ⟨j, hj, hjL, e⟩ := a5 j' hj'
  rw [e] at ha
  exact hjL (List.mem_reverse.mpr (incidentCells_complete hi.wf hi.one hi.cells hj ha hm))

theorem immInv_deleteFace {k : Kernel} {f : Nat} (hi : ImmInv k) (hf : f < k.nF) : ImmInv (k.deleteFace f) := by
  unfold deleteFace
  obtain ⟨a1, a2, _, _, a5⟩ := imm_cellsGone hi [f]
  exact (imm_faceCore a1 (by unfold nF at *; rw [a2]; exact hf)
    (fun c hc a ha e => a5 c hc a ha (by rw [e]; simp))).1

/-- after the cell loop and the face loop over `incident_faces(es)` no stored face uses an edge of `es` -/
theorem imm_facesGone {k : Kernel} (hi : ImmInv k) (es : List Nat) :
    ImmInv ((k.incidentFaces es).reverse.foldl deleteFaceCore
      ((k.incidentCells (k.incidentFaces es)).reverse.foldl deleteCellCore k)) ∧
    ((k.incidentFaces es).reverse.foldl deleteFaceCore
      ((k.incidentCells (k.incidentFaces es)).reverse.foldl deleteCellCore k)).edges = k.edges ∧
    ((k.incidentFaces es).reverse.foldl deleteFaceCore
      ((k.incidentCells (k.incidentFaces es)).reverse.foldl deleteCellCore k)).nV = k.nV ∧
    ∀ c ∈ ((k.incidentFaces es).reverse.foldl deleteFaceCore
      ((k.incidentCells (k.incidentFaces es)).reverse.foldl deleteCellCore k)).faces, ∀ a ∈ c, eOf a ∉ es := by
  obtain ⟨a1, a2, a3, a4, a5⟩ := imm_cellsGone hi (k.incidentFaces es)
  generalize (k.incidentCells (k.incidentFaces es)).reverse.foldl deleteCellCore k = k1 at a1 a2 a3 a4 a5
  obtain ⟨b1, b3, b4, b5⟩ := immInv_foldFaces _ (desc_incidentFaces k es) k1 a1
    (fun x hx => by unfold nF; rw [a2]; exact incidentFaces_lt hi.wf (List.mem_reverse.mp hx))
    (fun c hc a ha hm => a5 c hc a ha (List.mem_reverse.mp hm))
  refine ⟨b1, by rw [b3, a3], by rw [b4, a4], ?_⟩
  intro c hc a ha hm
  obtain ⟨j', hj', rfl⟩ := k4c_faces_index hc
  obtain ⟨j, hj, hjL, e⟩ := b5 j' hj'
  rw [e] at ha
  have hfa : k1.faceAt j = k.faceAt j := by unfold faceAt; rw [a2]
  rw [hfa] at ha
  have hj0 : j < k.nF := by unfold nF at *; rw [← a2]; exact hj
  exact hjL (List.mem_reverse.mpr (incidentFaces_complete hi.wf hi.faces hj0 ha hm))

theorem immInv_deleteEdge {k : Kernel} {e : Nat} (hi : ImmInv k) (he : e < k.nE) : ImmInv (k.deleteEdge e) := by
  unfold deleteEdge
  obtain ⟨a1, a2, _, a5⟩ := imm_facesGone hi [e]
  exact (imm_edgeCore a1 (by unfold nE at *; rw [a2]; exact he)
    (fun c hc a ha e1 => a5 c hc a ha (by rw [e1]; simp))).1

theorem immInv_deleteVertex {k : Kernel} {v : Nat} (hi : ImmInv k) (hv : v < k.nV) : ImmInv (k.deleteVertex v) := by
  unfold deleteVertex
  obtain ⟨a1, a2, a4, a5⟩ := imm_facesGone hi (k.incidentEdges [v])
  simp only []
  generalize (k.incidentFaces (k.incidentEdges [v])).reverse.foldl deleteFaceCore
      ((k.incidentCells (k.incidentFaces (k.incidentEdges [v]))).reverse.foldl deleteCellCore k) = k2 at a1 a2 a4 a5
  obtain ⟨b1, b4, b5⟩ := immInv_foldEdges _ (desc_incidentEdges k [v]) k2 a1
    (fun x hx => by unfold nE; rw [a2]; exact incidentEdges_lt hi.wf (List.mem_reverse.mp hx))
    (fun c hc a ha hm => a5 c hc a ha (List.mem_reverse.mp hm))
  refine imm_vertexCore b1 (by rw [b4, a4]; exact hv) ?_
  intro p hp
  obtain ⟨j', hj', rfl⟩ := k4c_edges_index hp
  obtain ⟨j, hj, hjL, e⟩ := b5 j' hj'
  rw [e]
  have hea : k2.edgeAt j = k.edgeAt j := by unfold edgeAt; rw [a2]
  have hj0 : j < k.nE := by unfold nE at *; rw [← a2]; exact hj
  rw [hea]
  constructor
  · intro e1
    exact hjL (List.mem_reverse.mpr (incidentEdges_complete hi.wf hi.edges hj0 (by simp) (Or.inl e1)))
  · intro e1
    exact hjL (List.mem_reverse.mpr (incidentEdges_complete hi.wf hi.edges hj0 (by simp) (Or.inr e1)))

/-- the entity itself is gone: one slot fewer at its level (the levels below are untouched) -/
theorem imm_deleteFace_nF {k : Kernel} {f : Nat} (hi : ImmInv k) (hf : f < k.nF) : (k.deleteFace f).nF = k.nF - 1 := by
  unfold deleteFace
  obtain ⟨a1, a2, _, _, a5⟩ := imm_cellsGone hi [f]
  have hf1 : f < ((k.incidentCells [f]).reverse.foldl deleteCellCore k).nF := by unfold nF at *; rw [a2]; exact hf
  have := (imm_faceCore a1 hf1 (fun c hc a ha e => a5 c hc a ha (by rw [e]; simp))).2.2.1
  simp only []
  unfold nF at *
  rw [this, List.length_eraseIdx, if_pos hf1, a2]

theorem imm_deleteEdge_nE {k : Kernel} {e : Nat} (hi : ImmInv k) (he : e < k.nE) : (k.deleteEdge e).nE = k.nE - 1 := by
  unfold deleteEdge
  obtain ⟨a1, a2, _, a5⟩ := imm_facesGone hi [e]
  simp only []
  generalize (k.incidentFaces [e]).reverse.foldl deleteFaceCore
      ((k.incidentCells (k.incidentFaces [e])).reverse.foldl deleteCellCore k) = k2 at a1 a2 a5
  have he1 : e < k2.nE := by unfold nE at *; rw [a2]; exact he
  have := (imm_edgeCore a1 he1 (fun c hc a ha e1 => a5 c hc a ha (by rw [e1]; simp))).2.2.1
  unfold nE at *
  rw [this, List.length_eraseIdx, if_pos he1, a2]

theorem imm_deleteVertex_nV {k : Kernel} {v : Nat} (hi : ImmInv k) : (k.deleteVertex v).nV = k.nV - 1 := by
  unfold deleteVertex
  obtain ⟨a1, a2, a4, a5⟩ := imm_facesGone hi (k.incidentEdges [v])
  simp only []
  generalize (k.incidentFaces (k.incidentEdges [v])).reverse.foldl deleteFaceCore
      ((k.incidentCells (k.incidentFaces (k.incidentEdges [v]))).reverse.foldl deleteCellCore k) = k2 at a1 a2 a4 a5
  obtain ⟨b1, b4, _⟩ := immInv_foldEdges _ (desc_incidentEdges k [v]) k2 a1
    (fun x hx => by unfold nE; rw [a2]; exact incidentEdges_lt hi.wf (List.mem_reverse.mp hx))
    (fun c hc a ha hm => a5 c hc a ha (List.mem_reverse.mp hm))
  rw [deleteVertexCore_shift_eq v b1.deferred b1.fast, eraseVertex_nV, b4, a4]

/-! ## non-vacuity: the tetrahedron of CacheDelete.lean in immediate index-shifting mode -/

/-- `tetK` (one tetrahedron, all bottom-up incidences enabled) after `enable_deferred_deletion(false)`,
    `enable_fast_deletion(false)` -/
def tetImm : Kernel := { tetK with deferred := false, fast := false }

theorem immInv_tetImm : ImmInv tetImm := by
  refine ⟨rfl, rfl, ?_, by decide, ?_, ?_, ?_⟩
  · exact wf_of_fans_perm (k := tetK) (k' := tetImm) rfl rfl rfl rfl rfl rfl rfl rfl rfl rfl rfl rfl rfl rfl rfl
      (fun _ => List.Perm.refl _) wf_tetK
  · unfold CellsLive; decide
  · unfold FacesLive; decide
  · unfold EdgesLive; decide

/-- the hypotheses of the five theorems are satisfiable, so their conclusions hold for real states -/
example : ImmInv (tetImm.deleteCell 0) := immInv_deleteCell immInv_tetImm (by decide)
example : ImmInv (tetImm.deleteFace 2) := immInv_deleteFace immInv_tetImm (by decide)
example : ImmInv (tetImm.deleteEdge 1) := immInv_deleteEdge immInv_tetImm (by decide)
example : ImmInv (tetImm.deleteVertex 0) := immInv_deleteVertex immInv_tetImm (by decide)
/-- … and can be chained (the invariant is inductive): two vertices of the tetrahedron deleted one after the other -/
example : ImmInv ((tetImm.deleteVertex 0).deleteVertex 1) :=
  immInv_deleteVertex (immInv_deleteVertex immInv_tetImm (by decide))
    (by rw [imm_deleteVertex_nV immInv_tetImm]; decide)

/-! TESTs (`decide` on the concrete tetrahedron, not proofs): the closure really removes what it should and
    the executable form of the cache invariant holds afterwards -/
set_option maxRecDepth 8000 in
example : (tetImm.deleteVertex 0).cacheInvB = true ∧ (tetImm.deleteVertex 0).nV = 3 ∧
    (tetImm.deleteVertex 0).edges = [(0, 1), (2, 0), (2, 1)] ∧ (tetImm.deleteVertex 0).faces = [[3, 4, 1]] ∧
    (tetImm.deleteVertex 0).cells = [] := by decide
set_option maxRecDepth 8000 in
example : (tetImm.deleteEdge 1).cacheInvB = true ∧ (tetImm.deleteEdge 1).nE = 5 ∧ (tetImm.deleteEdge 1).nF = 2 ∧
    (tetImm.deleteEdge 1).nC = 0 := by decide
set_option maxRecDepth 8000 in
example : (tetImm.deleteFace 2).cacheInvB = true ∧ (tetImm.deleteFace 2).nF = 3 ∧ (tetImm.deleteFace 2).nC = 0 ∧
    (tetImm.deleteFace 2).nE = 6 := by decide
/-- TEST that the "unreferenced" hypothesis of the face core is a real precondition: erasing face 0 of the
    tetrahedron while its cell is still there leaves the cell with three (renumbered) halffaces -/
example : (tetImm.deleteFaceCore 0).cells = [[1, 3, 5]] := by decide

/-- the same tetrahedron with all three bottom-up incidences switched off: the closure versions then use
    the linear-scan branches of `incident_edges/faces/cells` and of the fix-up loops -/
def tetImmScan : Kernel :=
  { tetImm with vBU := false, eBU := false, fBU := false, outHes := [], incHfs := [], incCell := [] }

set_option maxRecDepth 4000 in
theorem immInv_tetImmScan : ImmInv tetImmScan := by
  refine ⟨rfl, rfl, ⟨?_, ?_, ⟨?_, ?_, ?_⟩⟩, by decide, ?_, ?_, ?_⟩
  · constructor <;> (try unfold ColsLen) <;> decide
  · constructor <;> decide
  · unfold CacheInvV; decide
  · unfold CacheInvE; decide
  · unfold CacheInvF; decide
  · unfold CellsLive; decide
  · unfold FacesLive; decide
  · unfold EdgesLive; decide

example : ImmInv (tetImmScan.deleteVertex 3) := immInv_deleteVertex immInv_tetImmScan (by decide)
/-- TEST (`decide`): both branches compute the same closure on the tetrahedron -/
example : (tetImmScan.deleteVertex 0).edges = (tetImm.deleteVertex 0).edges ∧
    (tetImmScan.deleteVertex 0).faces = (tetImm.deleteVertex 0).faces ∧
    (tetImmScan.deleteVertex 0).cells = (tetImm.deleteVertex 0).cells ∧ (tetImmScan.deleteVertex 0).nV = 3 := by decide

end Shift
end Kernel
end OVM

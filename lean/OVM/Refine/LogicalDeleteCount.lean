import OVM.Refine.LogicalDeleteList
import OVM.Refine.LogicalCount
/-
  C04 — the pending-deletion counters count the flags (`CountInv`: `n_deleted_* = #flagged`), along deletion histories:
  every `delete_*` of a live entity in either mode, `collect_garbage`, `enable_deferred_deletion`, hence every list of
  deletion requests (`runDef`) followed or not by a collection.  Consequence: `n_logical_*` is the number of live
  entities (`nLive`), without the truncation of the subtraction hiding anything.
  (`delete_*` of an already flagged entity — excluded by the C++ `assert(!is_deleted(_h))` — WOULD break it: the deferred
  cores bump the counter unconditionally; that is why the victim must be live.)
  Not done here: the other operations of the driver vocabulary (`add_*`, `set_*`, `swap_*`, the bottom-up switches,
  `clear`); they do not touch the counters and only append unflagged slots / permute flags.
-/
namespace OVM
namespace Kernel
namespace Logical
open ScanDel Global

/-- number of flags set -/
def cnt (l : List Bool) : Nat := l.count true

/-- the pending-deletion counters are the numbers of flagged entities -/
structure CountInv (k : Kernel) : Prop where
  v : k.nDelV = cnt k.vDel
  e : k.nDelE = cnt k.eDel
  f : k.nDelF = cnt k.fDel
  c : k.nDelC = cnt k.cDel

theorem cnt_of_noFlag {l : List Bool} (h : NoFlag l) : cnt l = 0 := by
  unfold cnt
  rw [List.count_eq_zero]
  intro hm
  have := h true hm
  cases this

theorem cnt_set : ∀ (l : List Bool) (i : Nat), i < l.length → l.getD i false = false → cnt (l.set i true) = cnt l + 1
  | [], i, h, _ => by simp at h
  | b :: t, 0, _, h0 => by
    have hb : b = false := by simpa using h0
    subst hb; simp [cnt]
  | b :: t, i + 1, h, h0 => by
    have := cnt_set t i (by simpa using h) (by simpa using h0)
    unfold cnt at this ⊢
    simp only [List.set_cons_succ, List.count_cons]
    omega

theorem cnt_fold : ∀ (L : List Nat) (l : List Bool), L.Nodup → (∀ x ∈ L, x < l.length ∧ l.getD x false = false) →
    cnt (L.foldl (fun l h => l.set h true) l) = cnt l + L.length := by
  intro L
  induction L with
  | nil => intro l _ _; rfl
  | cons x t ih =>
    intro l hn hl
    have hc := List.pairwise_cons.mp hn
    obtain ⟨hx1, hx2⟩ := hl x (by simp)
    rw [List.foldl_cons, ih (l.set x true) hc.2, cnt_set l x hx1 hx2, List.length_cons]
    · omega
    · intro y hy
      obtain ⟨hy1, hy2⟩ := hl y (by simp [hy])
      have hne : x ≠ y := hc.1 y hy
      refine ⟨by simpa using hy1, ?_⟩
      rw [List.getD_eq_getElem?_getD, List.getElem?_set_ne hne, ← List.getD_eq_getElem?_getD]
      exact hy2

/-- flagging duplicate-free lists of unflagged slots keeps the counters exact -/
theorem countInv_flagged {k k' : Kernel} {cs fs es vs : List Nat} (h : Flagged k k' cs fs es vs)
    (nc : cs.Nodup) (lc : ∀ x ∈ cs, x < k.cDel.length ∧ k.cDel.getD x false = false)
    (nf : fs.Nodup) (lf : ∀ x ∈ fs, x < k.fDel.length ∧ k.fDel.getD x false = false)
    (ne : es.Nodup) (le : ∀ x ∈ es, x < k.eDel.length ∧ k.eDel.getD x false = false)
    (nv : vs.Nodup) (lv : ∀ x ∈ vs, x < k.vDel.length ∧ k.vDel.getD x false = false)
    (ci : CountInv k) : CountInv k' := by
  refine ⟨?_, ?_, ?_, ?_⟩
  · rw [h.nDelV, h.vDel, cnt_fold vs _ nv lv, ci.v]
  · rw [h.nDelE, h.eDel, cnt_fold es _ ne le, ci.e]
  · rw [h.nDelF, h.fDel, cnt_fold fs _ nf lf, ci.f]
  · rw [h.nDelC, h.cDel, cnt_fold cs _ nc lc, ci.c]

theorem countInv_of_noFlag {k : Kernel} (n1 : NoFlag k.cDel) (n2 : NoFlag k.fDel) (n3 : NoFlag k.eDel) (n4 : NoFlag k.vDel)
    (zv : k.nDelV = 0) (ze : k.nDelE = 0) (zf : k.nDelF = 0) (zc : k.nDelC = 0) : CountInv k :=
  ⟨by rw [zv, cnt_of_noFlag n4], by rw [ze, cnt_of_noFlag n3], by rw [zf, cnt_of_noFlag n2], by rw [zc, cnt_of_noFlag n1]⟩

theorem nodup_rev {l : List Nat} (h : l.Nodup) : l.reverse.Nodup :=
  List.pairwise_reverse.mpr (List.Pairwise.imp (fun hab => Ne.symm hab) h)

/-- the closure lists as the arguments of `countInv_flagged` -/
theorem lists_flag_args {k : Kernel} {S : Rem} {Lv Le Lf Lc : List Nat} (hw : WF k) (hL : Lists k S Lv Le Lf Lc) :
    (Lc.reverse.Nodup ∧ ∀ x ∈ Lc.reverse, x < k.cDel.length ∧ k.cDel.getD x false = false) ∧
    (Lf.reverse.Nodup ∧ ∀ x ∈ Lf.reverse, x < k.fDel.length ∧ k.fDel.getD x false = false) ∧
    (Le.reverse.Nodup ∧ ∀ x ∈ Le.reverse, x < k.eDel.length ∧ k.eDel.getD x false = false) ∧
    (Lv.reverse.Nodup ∧ ∀ x ∈ Lv.reverse, x < k.vDel.length ∧ k.vDel.getD x false = false) := by
  refine ⟨⟨nodup_rev hL.nc, fun x hx => ?_⟩, ⟨nodup_rev hL.nf, fun x hx => ?_⟩,
    ⟨nodup_rev hL.ne, fun x hx => ?_⟩, ⟨nodup_rev hL.nv, fun x hx => ?_⟩⟩
  · have := (hL.mc x).mp (List.mem_reverse.mp hx)
    exact ⟨by rw [hw.len.cDel]; exact this.1, this.2.1⟩
  · have := (hL.mf x).mp (List.mem_reverse.mp hx)
    exact ⟨by rw [hw.len.fDel]; exact this.1, this.2.1⟩
  · have := (hL.me x).mp (List.mem_reverse.mp hx)
    exact ⟨by rw [hw.len.eDel]; exact this.1, this.2.1⟩
  · have := (hL.mv x).mp (List.mem_reverse.mp hx)
    exact ⟨by rw [hw.len.vDel]; exact this.1, this.2.1⟩

/-- **deferred `delete_*` of a live entity keeps the counters exact** -/
theorem Req.countInv_def {k : Kernel} (hi : GInv k) (hd : k.deferred = true) {d : Req} (hl : d.live k = true)
    (ci : CountInv k) : CountInv (d.apply k) := by
  cases d with
  | cell x =>
    obtain ⟨⟨a1, a2⟩, ⟨b1, b2⟩, ⟨c1, c2⟩, ⟨d1, d2⟩⟩ := lists_flag_args hi.wf (lists_cloC hl)
    exact countInv_flagged (flagged_deleteCell k x hd) a1 a2 b1 b2 c1 c2 d1 d2 ci
  | face x =>
    obtain ⟨⟨a1, a2⟩, ⟨b1, b2⟩, ⟨c1, c2⟩, ⟨d1, d2⟩⟩ := lists_flag_args hi.wf (lists_cloF hi.wf hi.one hl)
    exact countInv_flagged (flagged_deleteFace k x hd) a1 a2 b1 b2 c1 c2 d1 d2 ci
  | edge x =>
    obtain ⟨⟨a1, a2⟩, ⟨b1, b2⟩, ⟨c1, c2⟩, ⟨d1, d2⟩⟩ := lists_flag_args hi.wf (lists_cloE hi.wf hi.one hl)
    exact countInv_flagged (flagged_deleteEdge k x hd) a1 a2 b1 b2 c1 c2 d1 d2 ci
  | vertex x =>
    obtain ⟨⟨a1, a2⟩, ⟨b1, b2⟩, ⟨c1, c2⟩, ⟨d1, d2⟩⟩ := lists_flag_args hi.wf (lists_cloV hi.wf hi.one hl)
    exact countInv_flagged (flagged_deleteVertex k x hd) a1 a2 b1 b2 c1 c2 d1 d2 ci

theorem Req.pend_imm {k : Kernel} (hd : k.deferred = false) (d : Req) : Pend (d.apply k) = Pend k := by
  cases d with
  | cell x => exact (pend_delete_imm k x hd).1
  | face x => exact (pend_delete_imm k x hd).2.1
  | edge x => exact (pend_delete_imm k x hd).2.2.1
  | vertex x => exact (pend_delete_imm k x hd).2.2.2

/-- **immediate `delete_*` keeps the counters exact** (all zero, nothing flagged) -/
theorem Req.countInv_imm {k : Kernel} (hi : GInv k) (hd : k.deferred = false) {d : Req} (hl : d.live k = true)
    (ci : CountInv k) : CountInv (d.apply k) := by
  have hp := Req.pend_imm hd d
  have hd' : (d.apply k).deferred = false := (congrArg (·.1) hp).trans hd
  obtain ⟨a1, a2, a3, a4⟩ := hi.noFlag_of_immediate hd
  obtain ⟨b1, b2, b3, b4⟩ := (Req.ginv hi hl).noFlag_of_immediate hd'
  unfold Pend at hp
  simp only [Prod.mk.injEq] at hp
  obtain ⟨_, p1, p2, p3, p4⟩ := hp
  have n1 := hi.noFlag_of_immediate hd
  have n2 := (Req.ginv hi hl).noFlag_of_immediate hd'
  refine ⟨?_, ?_, ?_, ?_⟩
  · rw [p1, ci.v, cnt_of_noFlag n1.2.2.2, cnt_of_noFlag n2.2.2.2]
  · rw [p2, ci.e, cnt_of_noFlag n1.2.2.1, cnt_of_noFlag n2.2.2.1]
  · rw [p3, ci.f, cnt_of_noFlag n1.2.1, cnt_of_noFlag n2.2.1]
  · rw [p4, ci.c, cnt_of_noFlag n1.1, cnt_of_noFlag n2.1]

/-- `delete_*` of a live entity, any mode -/
theorem Req.countInv {k : Kernel} (hi : GInv k) {d : Req} (hl : d.live k = true) (ci : CountInv k) :
    CountInv (d.apply k) := by
  by_cases hd : k.deferred = true
  · exact Req.countInv_def hi hd hl ci
  · exact Req.countInv_imm hi (by simpa using hd) hl ci

theorem needsGC_false_iff {k : Kernel} (h : k.needsGC = false) :
    k.nDelV = 0 ∧ k.nDelE = 0 ∧ k.nDelF = 0 ∧ k.nDelC = 0 := by
  unfold needsGC at h
  simp only [Bool.or_eq_false_iff, decide_eq_false_iff_not, Nat.not_lt, Nat.le_zero_eq] at h
  exact ⟨h.1.1.1, h.1.1.2, h.1.2, h.2⟩

/-- **`collect_garbage` leaves the counters exact** (zero, nothing flagged, when it runs); `hz` is
    `collectGarbage_modes` (Props/C04.lean): nothing is pending after a collection -/
theorem countInv_collectGarbage {k : Kernel} (hi : GInv k) (hz : k.deferred = true → k.collectGarbage.needsGC = false)
    (ci : CountInv k) : CountInv k.collectGarbage := by
  by_cases h : k.deferred = true ∧ k.needsGC = true
  · obtain ⟨_, _, n1, n2, n3, n4⟩ := gc_noFlag hi h.1 h.2
    obtain ⟨z1, z2, z3, z4⟩ := needsGC_false_iff (hz h.1)
    exact countInv_of_noFlag n1 n2 n3 n4 z1 z2 z3 z4
  · rw [collectGarbage_id h]; exact ci

theorem countInv_enableDeferred {k : Kernel} (hi : GInv k) (hz : k.deferred = true → k.collectGarbage.needsGC = false)
    (b : Bool) (ci : CountInv k) : CountInv (k.enableDeferred b) := by
  unfold enableDeferred
  simp only []
  split
  · have := countInv_collectGarbage hi hz ci
    exact ⟨this.v, this.e, this.f, this.c⟩
  · exact ⟨ci.v, ci.e, ci.f, ci.c⟩

/-- the counters along a list of deletion requests (any mode; a request whose entity is not live is skipped) -/
theorem countInv_runDef (ds : List Req) : ∀ {k : Kernel}, GInv k → CountInv k → CountInv (runDef k ds) ∧ GInv (runDef k ds) := by
  induction ds with
  | nil => intro k hi ci; exact ⟨ci, hi⟩
  | cons d t ih =>
    intro k hi ci
    by_cases hl : d.live k = true
    · have e : runDef k (d :: t) = runDef (d.apply k) t := by simp [runDef, hl]
      rw [e]; exact ih (Req.ginv hi hl) (Req.countInv hi hl ci)
    · have e : runDef k (d :: t) = runDef k t := by simp [runDef, hl]
      rw [e]; exact ih hi ci

/-! ### what the counters mean: `n_logical_*` is the number of live entities -/

theorem nLive_add_cnt (l : List Bool) : nLive l.length l + cnt l = l.length := by
  induction l with
  | nil => rfl
  | cons b t ih =>
    unfold nLive liveList cnt at *
    have e : (List.filter ((fun x => !(b :: t).getD x false) ∘ Nat.succ) (List.range t.length)) =
        List.filter (fun x => !t.getD x false) (List.range t.length) := by
      apply List.filter_congr
      intro x _
      simp
    rw [List.length_cons, List.range_succ_eq_map, List.filter_cons, List.filter_map, e]
    cases b
    · simp only [List.getD_cons_zero, Bool.not_false, if_true, List.length_cons, List.length_map, List.count_cons,
        Bool.false_eq_true, beq_iff_eq, if_false, Nat.add_zero]
      omega
    · simp only [List.getD_cons_zero, Bool.not_true, Bool.false_eq_true, if_false, List.length_map, List.count_cons,
        beq_self_eq_true, if_true]
      omega

theorem nLog_eq_nLive {k : Kernel} (hw : WF k) (ci : CountInv k) :
    k.nLogV = nLive k.nV k.vDel ∧ k.nLogE = nLive k.edges.length k.eDel ∧ k.nLogF = nLive k.faces.length k.fDel ∧
    k.nLogC = nLive k.cells.length k.cDel := by
  have hv := nLive_add_cnt k.vDel
  have he := nLive_add_cnt k.eDel
  have hf := nLive_add_cnt k.fDel
  have hc := nLive_add_cnt k.cDel
  rw [hw.len.vDel] at hv
  rw [hw.len.eDel] at he
  rw [hw.len.fDel] at hf
  rw [hw.len.cDel] at hc
  unfold nLogV nLogE nLogF nLogC
  unfold Kernel.nE at he ⊢
  unfold Kernel.nF at hf ⊢
  unfold Kernel.nC at hc ⊢
  rw [ci.v, ci.e, ci.f, ci.c]
  omega

end Logical
end Kernel
end OVM

import OVM.Refine.CacheFastDelete
/-
  The four `delete_*` operations (upward closure + cores) in IMMEDIATE FAST mode keep
  `ImmInv = deferred off ∧ fast on ∧ WF ∧ oneCell ∧ no deletion flag set`.
  Shape of the argument (Kernel/Delete.lean `deleteFace/deleteEdge/deleteVertex`; cc:621-739):
    * the incident sets gathered up front are EXACT under `ImmInv` (`incident*_spec`): every stored
      cell/face/edge that names a member one level down is in the set;
    * they are `std::set`s iterated in reverse: strictly descending handles, so the swap-with-last
      of one core never moves an entity that is still to be deleted (`k3_track`);
    * each stage leaves nothing that names a member of the next stage's list (`cellStage`,
      `faceStage`, `edgeStage`) — exactly the precondition of the fast cores of CacheFastDelete.lean.
  `oneCell_pop`: C01's precondition survives popping the last cell slot, so deletions chain.
-/
namespace OVM
namespace Kernel
open ScanDel

/-! ### `oneCell` when the live set shrinks or the last cell slot is popped -/
theorem k3_oneCell_mono {k k' : Kernel} (hf : k'.faces.length ≤ k.faces.length) (hc : k'.cells = k.cells)
    (hd : k'.cDel = k.cDel) (h : k.oneCell = true) : k'.oneCell = true := by
  unfold oneCell at *
  simp only [List.all_eq_true, List.mem_range, decide_eq_true_eq] at *
  intro x hx
  have hx' : x < k.nHF := by unfold nHF at *; omega
  refine Nat.le_trans (Nat.le_of_eq ?_) (h x hx')
  unfold liveCells nC cDeleted cellAt
  rw [hc, hd]

/-- `oneCell` survives erasing the last cell slot (so that immediate deletions chain) -/
theorem oneCell_pop {k k' : Kernel} (hpos : 0 < k.nC) (hf : k'.faces.length ≤ k.faces.length)
    (hc : k'.cells = k.cells.eraseIdx (k.nC - 1)) (hd : k'.cDel = k.cDel.eraseIdx (k.nC - 1))
    (h : k.oneCell = true) : k'.oneCell = true := by
  unfold oneCell at *
  simp only [List.all_eq_true, List.mem_range, decide_eq_true_eq] at *
  intro x hx
  have hx' : x < k.nHF := by unfold nHF at *; omega
  refine Nat.le_trans ?_ (h x hx')
  have hn : k'.nC = k.nC - 1 := by unfold nC at *; rw [hc, List.length_eraseIdx]; split <;> omega
  have h1 : k'.liveCells = k.liveCells.filter (· != k.nC - 1) := by
    unfold liveCells cDeleted
    rw [hn, hd]; exact k3_liveIdx_pop k.nC k.cDel hpos
  rw [h1]
  have h2 : (k.liveCells.filter (· != k.nC - 1)).map (fun c => (k'.cellAt c).count x) =
      (k.liveCells.filter (· != k.nC - 1)).map (fun c => (k.cellAt c).count x) := by
    apply List.map_congr_left
    intro c hc'
    have hlt : c < k.nC - 1 := k3_mem_filter_ne_last (fun y hy => by
      unfold liveCells at hy; exact List.mem_range.mp (List.mem_filter.mp hy).1) hc'
    unfold cellAt; rw [hc, k3_getD_eraseIdx_lt _ _ _ _ hlt]
  rw [h2]
  unfold liveCells
  rw [List.filter_filter]
  apply sum_map_filter_mono
  intro c _ hp
  simp only [Bool.and_eq_true] at hp
  exact hp.2

/-! ### the invariant of immediate fast mode -/
structure ImmInv (k : Kernel) : Prop where
  imm : k.deferred = false
  fast : k.fast = true
  wf : WF k
  one : k.oneCell = true
  nfC : NoFlag k.cDel
  nfF : NoFlag k.fDel
  nfE : NoFlag k.eDel

theorem k3_getD_swapAt_pop {α} (l : List α) (h i : Nat) (d : α) (hh : h < l.length) (hi : i < l.length - 1) :
    ((swapAt l h (l.length - 1)).eraseIdx (l.length - 1)).getD i d =
      if i = h then l.getD (l.length - 1) d else l.getD i d := by
  rw [k3_getD_eraseIdx_lt _ _ _ _ hi, getD_swapAt _ _ _ _ _ hh (by omega)]
  unfold relabelId
  by_cases e : i = h
  · simp [e]
  · have : i ≠ l.length - 1 := by omega
    simp [e, this]

theorem swapCell_cells_eq (k : Kernel) (a b : Nat) : (k.swapCell a b).cells = swapAt k.cells a b := by
  unfold swapCell; split
  · rename_i h; rw [beq_iff_eq.mp h, swapAt_self]
  · rfl
theorem swapCell_cDel_eq (k : Kernel) (a b : Nat) : (k.swapCell a b).cDel = swapAt k.cDel a b := by
  unfold swapCell; split
  · rename_i h; rw [beq_iff_eq.mp h, swapAt_self]
  · rfl
theorem swapFace_faces_eq (k : Kernel) (a b : Nat) : (k.swapFace a b).faces = swapAt k.faces a b := by
  unfold swapFace; split
  · rename_i h; rw [beq_iff_eq.mp h, swapAt_self]
  · rfl
theorem swapFace_fDel_eq (k : Kernel) (a b : Nat) : (k.swapFace a b).fDel = swapAt k.fDel a b := by
  unfold swapFace; split
  · rename_i h; rw [beq_iff_eq.mp h, swapAt_self]
  · rfl
theorem swapEdge_edges_eq (k : Kernel) (a b : Nat) : (k.swapEdge a b).edges = swapAt k.edges a b := by
  unfold swapEdge; split
  · rename_i h; rw [beq_iff_eq.mp h, swapAt_self]
  · rfl
theorem swapEdge_eDel_eq (k : Kernel) (a b : Nat) : (k.swapEdge a b).eDel = swapAt k.eDel a b := by
  unfold swapEdge; split
  · rename_i h; rw [beq_iff_eq.mp h, swapAt_self]
  · rfl

/-- one immediate fast `delete_cell_core`: the invariant, and what the cell array looks like after -/
theorem immInv_deleteCellCore {k : Kernel} (hi : ImmInv k) {h : Nat} (hh : h < k.nC) :
    ImmInv (k.deleteCellCore h) ∧ (k.deleteCellCore h).nC = k.nC - 1 ∧
    (∀ i, i < k.nC - 1 → (k.deleteCellCore h).cellAt i = if i = h then k.cellAt (k.nC - 1) else k.cellAt i) ∧
    (k.deleteCellCore h).faces = k.faces ∧ (k.deleteCellCore h).edges = k.edges ∧
    (k.deleteCellCore h).nV = k.nV := by
  have hwf := wf_deleteCellCore_fast h hi.imm hi.fast hh hi.wf hi.one
  rw [deleteCellCore_fast_eq h hi.imm hi.fast] at hwf ⊢
  have hcells : (((k.swapCell h (k.nC - 1)).unlinkCell (k.nC - 1)).eraseCell (k.nC - 1)).cells =
      (swapAt k.cells h (k.nC - 1)).eraseIdx (k.nC - 1) := by simp [swapCell_cells_eq]
  have hcDel : (((k.swapCell h (k.nC - 1)).unlinkCell (k.nC - 1)).eraseCell (k.nC - 1)).cDel =
      (swapAt k.cDel h (k.nC - 1)).eraseIdx (k.nC - 1) := by simp [swapCell_cDel_eq]
  have hfaces : (((k.swapCell h (k.nC - 1)).unlinkCell (k.nC - 1)).eraseCell (k.nC - 1)).faces = k.faces := by
    simp [swapCell_faces]
  have hlast : k.nC - 1 < k.nC := by omega
  have hn1 : (k.swapCell h (k.nC - 1)).nC = k.nC := by unfold nC; rw [swapCell_cells_eq]; simp
  refine ⟨⟨by simpa using hi.imm, by simpa using hi.fast, hwf, ?_, ?_, ?_, ?_⟩, ?_, ?_, hfaces, ?_, ?_⟩
  · have h11 := oneCell_swapCell hh hlast hi.wf.len.cDel hi.one
    apply oneCell_pop (k := k.swapCell h (k.nC - 1)) (by rw [hn1]; omega) (by rw [hfaces, swapCell_faces]; exact Nat.le_refl _)
      (by rw [hn1]; simp) (by rw [hn1]; simp) h11
  · rw [hcDel]; exact (hi.nfC.swapAt _ _).eraseIdx _
  · simpa [swapCell_fDel] using hi.nfF
  · simpa [swapCell_eDel] using hi.nfE
  · unfold nC at *; rw [hcells]; simp [List.length_eraseIdx]; omega
  · intro i hi'
    unfold cellAt nC at *
    rw [hcells]
    exact k3_getD_swapAt_pop k.cells h i [] hh hi'
  · simp [swapCell_edges]
  · simp


/-! ### with no flagged entity one level up, a swap relabels EVERY stored definition -/
theorem k3_relabelHalf_self (a x : Nat) : relabelHalf a a x = x := by
  unfold relabelHalf; simp only [beq_iff_eq]; split
  · omega
  · rfl

theorem k3_map_relabelHalf_self (a : Nat) (l : List Nat) : l.map (relabelHalf a a) = l := by
  induction l with
  | nil => rfl
  | cons x t ih => simp only [List.map_cons, ih, k3_relabelHalf_self]

theorem swapFace_cells_all {k : Kernel} {a b : Nat} (ha : a < k.nF) (hb : b < k.nF) (hF : CacheInvF k)
    (h1 : k.fBU = true → k.oneCell = true) (hlive : k.fBU = true → NoFlag k.cDel) :
    ∀ c ∈ (k.swapFace a b).cells, ∃ c0 ∈ k.cells, c = c0.map (relabelHalf a b) := by
  by_cases hab : a = b
  · subst hab
    intro c hc
    exact ⟨c, by simpa [swapFace] using hc, (k3_map_relabelHalf_self a c).symm⟩
  intro c hc
  obtain ⟨i, hi, rfl⟩ := k3_mem_getD [] hc
  rw [swapFace_cells_length] at hi
  have hlc : k.fBU = true → k.liveC i = true := by
    intro hbu; unfold liveC cDeleted nC; rw [(hlive hbu).getD i]; simp [hi]
  have hrel := swapFace_cellAt_live hab ha hb hF h1 hlc
  unfold cellAt at hrel
  exact ⟨k.cells.getD i [], cellAt_mem_cells (k := k) hi, hrel⟩

theorem swapEdge_faces_all {k : Kernel} {a b : Nat} (ha : a < k.nE) (hb : b < k.nE) (hE : CacheInvE k)
    (hlive : k.eBU = true → NoFlag k.fDel) :
    ∀ f ∈ (k.swapEdge a b).faces, ∃ f0 ∈ k.faces, f = f0.map (relabelHalf a b) := by
  by_cases hab : a = b
  · subst hab
    intro c hc
    exact ⟨c, by simpa [swapEdge] using hc, (k3_map_relabelHalf_self a c).symm⟩
  intro f hf
  obtain ⟨i, hi, rfl⟩ := k3_mem_getD [] hf
  rw [swapEdge_faces_length] at hi
  have hlf : k.eBU = true → k.liveF i = true := by
    intro hbu; unfold liveF fDeleted nF; rw [(hlive hbu).getD i]; simp [hi]
  have hrel := swapEdge_faceAt_live hab ha hb hE hlf
  unfold faceAt at hrel
  exact ⟨k.faces.getD i [], faceAt_mem_faces (k := k) hi, hrel⟩

/-- one immediate fast `delete_face_core` -/
theorem immInv_deleteFaceCore {k : Kernel} (hi : ImmInv k) {h : Nat} (hh : h < k.nF)
    (hno : ∀ c ∈ k.cells, ∀ x ∈ c, x / 2 ≠ h) :
    ImmInv (k.deleteFaceCore h) ∧ (k.deleteFaceCore h).nF = k.nF - 1 ∧
    (∀ i, i < k.nF - 1 → (k.deleteFaceCore h).faceAt i = if i = h then k.faceAt (k.nF - 1) else k.faceAt i) ∧
    (∀ c ∈ (k.deleteFaceCore h).cells, ∃ c0 ∈ k.cells, c = c0.map (relabelHalf h (k.nF - 1))) ∧
    (k.deleteFaceCore h).edges = k.edges ∧ (k.deleteFaceCore h).nV = k.nV := by
  have hwf := wf_deleteFaceCore_fast h hi.imm hi.fast hh hi.wf (fun _ => hi.one) (fun _ => hi.nfC) hno
  rw [deleteFaceCore_fast_eq h hi.imm hi.fast] at hwf ⊢
  have hlast : k.nF - 1 < k.nF := by omega
  have hufast : ((k.swapFace h (k.nF - 1)).unlinkFace (k.nF - 1)).fast = true := by simpa using hi.fast
  have hfaces : (((k.swapFace h (k.nF - 1)).unlinkFace (k.nF - 1)).eraseFace (k.nF - 1)).faces =
      (swapAt k.faces h (k.nF - 1)).eraseIdx (k.nF - 1) := by simp [swapFace_faces_eq]
  have hfDel : (((k.swapFace h (k.nF - 1)).unlinkFace (k.nF - 1)).eraseFace (k.nF - 1)).fDel =
      (swapAt k.fDel h (k.nF - 1)).eraseIdx (k.nF - 1) := by simp [swapFace_fDel_eq]
  have hcells : (((k.swapFace h (k.nF - 1)).unlinkFace (k.nF - 1)).eraseFace (k.nF - 1)).cells =
      (k.swapFace h (k.nF - 1)).cells := by rw [eraseFace_cells_fast _ _ hufast]; simp
  refine ⟨⟨by simpa using hi.imm, by simpa using hi.fast, hwf, ?_, ?_, ?_, ?_⟩, ?_, ?_, ?_, ?_, ?_⟩
  · have h11 := oneCell_swapFace hh hlast hi.wf.cache.f hi.one
    exact k3_oneCell_mono (k := k.swapFace h (k.nF - 1))
      (by rw [hfaces, swapFace_faces_eq]; simp [List.length_eraseIdx]; split <;> omega) hcells (by simp) h11
  · simpa [swapFace_cDel] using hi.nfC
  · rw [hfDel]; exact (hi.nfF.swapAt _ _).eraseIdx _
  · simpa [swapFace_eDel] using hi.nfE
  · unfold nF at *; rw [hfaces]; simp [List.length_eraseIdx]; omega
  · intro i hi'
    unfold faceAt nF at *
    rw [hfaces]
    exact k3_getD_swapAt_pop k.faces h i [] hh hi'
  · rw [hcells]
    exact swapFace_cells_all hh hlast hi.wf.cache.f (fun _ => hi.one) (fun _ => hi.nfC)
  · simp [swapFace_edges]
  · simp

/-- one immediate fast `delete_edge_core` -/
theorem immInv_deleteEdgeCore {k : Kernel} (hi : ImmInv k) {h : Nat} (hh : h < k.nE)
    (hno : ∀ f ∈ k.faces, ∀ x ∈ f, x / 2 ≠ h) :
    ImmInv (k.deleteEdgeCore h) ∧ (k.deleteEdgeCore h).nE = k.nE - 1 ∧
    (∀ i, i < k.nE - 1 → (k.deleteEdgeCore h).edgeAt i = if i = h then k.edgeAt (k.nE - 1) else k.edgeAt i) ∧
    (∀ f ∈ (k.deleteEdgeCore h).faces, ∃ f0 ∈ k.faces, f = f0.map (relabelHalf h (k.nE - 1))) ∧
    (k.deleteEdgeCore h).nV = k.nV := by
  have hwf := wf_deleteEdgeCore_fast h hi.imm hi.fast hh hi.wf (fun _ => hi.nfF) hno
  rw [deleteEdgeCore_fast_eq h hi.imm hi.fast] at hwf ⊢
  have hlast : k.nE - 1 < k.nE := by omega
  have hufast : ((k.swapEdge h (k.nE - 1)).unlinkEdge (k.nE - 1)).fast = true := by simpa using hi.fast
  have hedges : (((k.swapEdge h (k.nE - 1)).unlinkEdge (k.nE - 1)).eraseEdge (k.nE - 1)).edges =
      (swapAt k.edges h (k.nE - 1)).eraseIdx (k.nE - 1) := by simp [swapEdge_edges_eq]
  have heDel : (((k.swapEdge h (k.nE - 1)).unlinkEdge (k.nE - 1)).eraseEdge (k.nE - 1)).eDel =
      (swapAt k.eDel h (k.nE - 1)).eraseIdx (k.nE - 1) := by simp [swapEdge_eDel_eq]
  have hfaces : (((k.swapEdge h (k.nE - 1)).unlinkEdge (k.nE - 1)).eraseEdge (k.nE - 1)).faces =
      (k.swapEdge h (k.nE - 1)).faces := by rw [eraseEdge_faces_fast _ _ hufast]; simp
  refine ⟨⟨by simpa using hi.imm, by simpa using hi.fast, hwf, ?_, ?_, ?_, ?_⟩, ?_, ?_, ?_, ?_⟩
  · exact k3_oneCell_mono (k := k) (by rw [hfaces, swapEdge_faces_length]; exact Nat.le_refl _)
      (by simp [swapEdge_cells]) (by simp [swapEdge_cDel]) hi.one
  · simpa [swapEdge_cDel] using hi.nfC
  · simpa [swapEdge_fDel] using hi.nfF
  · rw [heDel]; exact (hi.nfE.swapAt _ _).eraseIdx _
  · unfold nE at *; rw [hedges]; simp [List.length_eraseIdx]; omega
  · intro i hi'
    unfold edgeAt nE at *
    rw [hedges]
    exact k3_getD_swapAt_pop k.edges h i (0, 0) hh hi'
  · rw [hfaces]
    exact swapEdge_faces_all hh hlast hi.wf.cache.e (fun _ => hi.nfF)
  · simp

/-- one immediate fast `delete_vertex_core` -/
theorem immInv_deleteVertexCore {k : Kernel} (hi : ImmInv k) {h : Nat} (hh : h < k.nV)
    (hno : ∀ e ∈ k.edges, e.1 ≠ h ∧ e.2 ≠ h) : ImmInv (k.deleteVertexCore h) := by
  have hwf := wf_deleteVertexCore_fast h hi.imm hi.fast hh hi.wf (fun _ => hi.nfE) hno
  rw [deleteVertexCore_fast_eq h hi.imm hi.fast] at hwf ⊢
  refine ⟨by simpa using hi.imm, by simpa using hi.fast, hwf, ?_, ?_, ?_, ?_⟩
  · exact k3_oneCell_mono (k := k) (by simp) (by simp) (by simp [swapVertex_cDel]) hi.one
  · simpa [swapVertex_cDel] using hi.nfC
  · simpa [swapVertex_fDel] using hi.nfF
  · simpa [swapVertex_eDel] using hi.nfE

/-! ### `std::set` contents: strictly ascending, so the reverse iteration is strictly descending -/
theorem k3_mem_insertSorted (x y : Nat) (l : List Nat) : y ∈ insertSorted x l ↔ y = x ∨ y ∈ l := by
  induction l with
  | nil => simp [insertSorted]
  | cons a t ih =>
    unfold insertSorted
    split
    · simp
    · split
      · rename_i h1 h2; subst h2; simp
      · simp only [List.mem_cons, ih]
        constructor
        · rintro (h | h | h)
          · exact Or.inr (Or.inl h)
          · exact Or.inl h
          · exact Or.inr (Or.inr h)
        · rintro (h | h | h)
          · exact Or.inr (Or.inl h)
          · exact Or.inl h
          · exact Or.inr (Or.inr h)

theorem k3_pairwise_insertSorted (x : Nat) (l : List Nat) (h : l.Pairwise (· < ·)) :
    (insertSorted x l).Pairwise (· < ·) := by
  induction l with
  | nil => simp [insertSorted]
  | cons a t ih =>
    have hc := List.pairwise_cons.mp h
    unfold insertSorted
    split
    · rename_i hxa
      refine List.pairwise_cons.mpr ⟨?_, h⟩
      intro y hy
      rcases List.mem_cons.mp hy with rfl | hy
      · exact hxa
      · exact Nat.lt_trans hxa (hc.1 y hy)
    · split
      · exact h
      · rename_i h1 h2
        refine List.pairwise_cons.mpr ⟨?_, ih hc.2⟩
        intro y hy
        rcases (k3_mem_insertSorted x y t).mp hy with rfl | hy
        · omega
        · exact hc.1 y hy

theorem k3_toSet_aux (l acc : List Nat) (hacc : acc.Pairwise (· < ·)) :
    (l.foldl (fun s x => insertSorted x s) acc).Pairwise (· < ·) ∧
    ∀ y, y ∈ l.foldl (fun s x => insertSorted x s) acc ↔ y ∈ acc ∨ y ∈ l := by
  induction l generalizing acc with
  | nil => exact ⟨hacc, fun y => by simp⟩
  | cons a t ih =>
    simp only [List.foldl_cons]
    obtain ⟨h1, h2⟩ := ih _ (k3_pairwise_insertSorted a acc hacc)
    refine ⟨h1, fun y => ?_⟩
    rw [h2, k3_mem_insertSorted, List.mem_cons]
    constructor
    · rintro ((h | h) | h)
      · exact Or.inr (Or.inl h)
      · exact Or.inl h
      · exact Or.inr (Or.inr h)
    · rintro (h | h | h)
      · exact Or.inl (Or.inr h)
      · exact Or.inl (Or.inl h)
      · exact Or.inr h

theorem k3_mem_toSet (y : Nat) (l : List Nat) : y ∈ toSet l ↔ y ∈ l := by
  unfold toSet; rw [(k3_toSet_aux l [] List.Pairwise.nil).2]; simp

theorem k3_toSet_desc (l : List Nat) : (toSet l).reverse.Pairwise (· > ·) := by
  rw [List.pairwise_reverse]
  exact (k3_toSet_aux l [] List.Pairwise.nil).1

/-! ### the three deletion stages of a closure, in descending handle order -/
theorem k3_relabelId_off {a b g : Nat} (h1 : g ≠ a) (h2 : g ≠ b) : relabelId a b g = g := by
  unfold relabelId; simp [h1, h2]

/-- after "move the last slot into slot `h`, drop the last slot": what is still to be deleted -/
theorem k3_track {P : Nat → Prop} {h n : Nat} {t : List Nat} (hp : (h :: t).Pairwise (· > ·)) (hh : h < n)
    (htr : ∀ i, i < n → P i → i ∈ h :: t) (i : Nat) (hi : i < n - 1)
    (hP : if i = h then P (n - 1) else P i) : i ∈ t := by
  have hc := List.pairwise_cons.mp hp
  by_cases e : i = h
  · rw [if_pos e] at hP
    rcases List.mem_cons.mp (htr (n - 1) (by omega) hP) with e2 | e2
    · omega
    · have := hc.1 _ e2; omega
  · rw [if_neg e] at hP
    rcases List.mem_cons.mp (htr i (by omega) hP) with e2 | e2
    · exact absurd e2 e
    · exact e2

theorem k3_lt_of_desc {h n : Nat} {t : List Nat} (hp : (h :: t).Pairwise (· > ·)) (hh : h < n) :
    ∀ c ∈ t, c < n - 1 := by
  intro c hc
  have := (List.pairwise_cons.mp hp).1 c hc
  omega

theorem cellStage (Q : List Nat → Prop) : ∀ (L : List Nat) (k : Kernel), ImmInv k → L.Pairwise (· > ·) →
    (∀ c ∈ L, c < k.nC) → (∀ i, i < k.nC → Q (k.cellAt i) → i ∈ L) →
    ImmInv (L.foldl deleteCellCore k) ∧ (∀ c ∈ (L.foldl deleteCellCore k).cells, ¬ Q c) ∧
    (L.foldl deleteCellCore k).faces = k.faces ∧ (L.foldl deleteCellCore k).edges = k.edges ∧
    (L.foldl deleteCellCore k).nV = k.nV := by
  intro L
  induction L with
  | nil =>
    intro k hi _ _ htr
    refine ⟨hi, ?_, rfl, rfl, rfl⟩
    intro c hc hq
    obtain ⟨i, hil, rfl⟩ := k3_mem_getD [] hc
    cases htr i hil hq
  | cons h t ih =>
    intro k hi hp hlt htr
    simp only [List.foldl_cons]
    have hh : h < k.nC := hlt h (by simp)
    obtain ⟨s1, s2, s3, s4, s5, s6⟩ := immInv_deleteCellCore hi hh
    have := ih (k.deleteCellCore h) s1 (List.pairwise_cons.mp hp).2
      (by rw [s2]; exact k3_lt_of_desc hp hh)
      (by
        intro i hil hq
        rw [s2] at hil
        rw [s3 i hil] at hq
        exact k3_track (P := fun i => Q (k.cellAt i)) hp hh htr i hil (by split <;> simp_all))
    obtain ⟨r1, r2, r3, r4, r5⟩ := this
    exact ⟨r1, r2, r3.trans s4, r4.trans s5, r5.trans s6⟩

theorem faceStage (Q : List Nat → Prop) : ∀ (L : List Nat) (k : Kernel), ImmInv k → L.Pairwise (· > ·) →
    (∀ f ∈ L, f < k.nF) → (∀ c ∈ k.cells, ∀ x ∈ c, x / 2 ∉ L) → (∀ i, i < k.nF → Q (k.faceAt i) → i ∈ L) →
    ImmInv (L.foldl deleteFaceCore k) ∧ (∀ f ∈ (L.foldl deleteFaceCore k).faces, ¬ Q f) ∧
    (L.foldl deleteFaceCore k).edges = k.edges ∧ (L.foldl deleteFaceCore k).nV = k.nV := by
  intro L
  induction L with
  | nil =>
    intro k hi _ _ _ htr
    refine ⟨hi, ?_, rfl, rfl⟩
    intro c hc hq
    obtain ⟨i, hil, rfl⟩ := k3_mem_getD [] hc
    cases htr i hil hq
  | cons h t ih =>
    intro k hi hp hlt hno htr
    simp only [List.foldl_cons]
    have hh : h < k.nF := hlt h (by simp)
    have hc := List.pairwise_cons.mp hp
    obtain ⟨s1, s2, s3, s4, s5, s6⟩ := immInv_deleteFaceCore hi hh
      (fun c hc x hx e => hno c hc x hx (by rw [e]; simp))
    have := ih (k.deleteFaceCore h) s1 hc.2
      (by rw [s2]; exact k3_lt_of_desc hp hh)
      (by
        intro c hcm x hx hxt
        obtain ⟨c0, hc0, rfl⟩ := s4 c hcm
        rw [k3_mem_map_relabelHalf] at hx
        have h1 := hno c0 hc0 _ hx
        rw [k3_relabelHalf_div] at h1
        have hg := hc.1 _ hxt
        rw [k3_relabelId_off (by omega) (by omega)] at h1
        exact h1 (List.mem_cons_of_mem _ hxt))
      (by
        intro i hil hq
        rw [s2] at hil
        rw [s3 i hil] at hq
        exact k3_track (P := fun i => Q (k.faceAt i)) hp hh htr i hil (by split <;> simp_all))
    obtain ⟨r1, r2, r3, r4⟩ := this
    exact ⟨r1, r2, r3.trans s5, r4.trans s6⟩

theorem edgeStage (R : Nat × Nat → Prop) : ∀ (L : List Nat) (k : Kernel), ImmInv k → L.Pairwise (· > ·) →
    (∀ e ∈ L, e < k.nE) → (∀ f ∈ k.faces, ∀ x ∈ f, x / 2 ∉ L) → (∀ i, i < k.nE → R (k.edgeAt i) → i ∈ L) →
    ImmInv (L.foldl deleteEdgeCore k) ∧ (∀ e ∈ (L.foldl deleteEdgeCore k).edges, ¬ R e) ∧
    (L.foldl deleteEdgeCore k).nV = k.nV := by
  intro L
  induction L with
  | nil =>
    intro k hi _ _ _ htr
    refine ⟨hi, ?_, rfl⟩
    intro c hc hq
    obtain ⟨i, hil, rfl⟩ := k3_mem_getD (0, 0) hc
    cases htr i hil hq
  | cons h t ih =>
    intro k hi hp hlt hno htr
    simp only [List.foldl_cons]
    have hh : h < k.nE := hlt h (by simp)
    have hc := List.pairwise_cons.mp hp
    obtain ⟨s1, s2, s3, s4, s5⟩ := immInv_deleteEdgeCore hi hh
      (fun c hc x hx e => hno c hc x hx (by rw [e]; simp))
    have := ih (k.deleteEdgeCore h) s1 hc.2
      (by rw [s2]; exact k3_lt_of_desc hp hh)
      (by
        intro c hcm x hx hxt
        obtain ⟨c0, hc0, rfl⟩ := s4 c hcm
        rw [k3_mem_map_relabelHalf] at hx
        have h1 := hno c0 hc0 _ hx
        rw [k3_relabelHalf_div] at h1
        have hg := hc.1 _ hxt
        rw [k3_relabelId_off (by omega) (by omega)] at h1
        exact h1 (List.mem_cons_of_mem _ hxt))
      (by
        intro i hil hq
        rw [s2] at hil
        rw [s3 i hil] at hq
        exact k3_track (P := fun i => R (k.edgeAt i)) hp hh htr i hil (by split <;> simp_all))
    obtain ⟨r1, r2, r3⟩ := this
    exact ⟨r1, r2, r3.trans s5⟩

/-! ### the incident sets gathered by the closures are exact (no flags, exact caches) -/
theorem k3_live_of_noflag {l : List Bool} (h : NoFlag l) (i : Nat) : (!l.getD i false) = true := by
  rw [h.getD i]; rfl

theorem incidentCells_spec {k : Kernel} (hi : ImmInv k) (fs : List Nat) :
    (∀ c ∈ k.incidentCells fs, c < k.nC) ∧
    (∀ i, i < k.nC → (∃ x ∈ k.cellAt i, x / 2 ∈ fs) → i ∈ k.incidentCells fs) := by
  have hliveC : ∀ i, i < k.nC → k.liveC i = true := by
    intro i hil; unfold liveC cDeleted; rw [hi.nfC.getD i]; simp [hil]
  unfold incidentCells
  by_cases hb : k.fBU = true
  · simp only [hb, if_true]
    obtain ⟨hlen, hslots⟩ := hi.wf.cache.f hb
    constructor
    · intro c hc
      rw [k3_mem_toSet] at hc
      simp only [List.mem_flatMap, List.mem_filterMap, List.mem_cons, List.not_mem_nil, or_false, id] at hc
      obtain ⟨f, _, o, ho, rfl⟩ := hc
      rcases ho with ho | ho
      · exact liveC_lt (cellOf_some_live hi.wf.cache.f hb ho.symm).2.1
      · exact liveC_lt (cellOf_some_live hi.wf.cache.f hb ho.symm).2.1
    · intro i hil ⟨x, hx, hxf⟩
      rw [k3_mem_toSet]
      simp only [List.mem_flatMap, List.mem_filterMap, List.mem_cons, List.not_mem_nil, or_false, id]
      refine ⟨x / 2, hxf, some i, ?_, rfl⟩
      have hxlt : x < k.nHF := hi.wf.range.cells _ (cellAt_mem_cells hil) x hx
      have hs := sCellOf_of_mem hi.one hxlt (hliveC i hil) hx
      rw [← hslots x hxlt] at hs
      have hcase : x = 2 * (x / 2) ∨ x = 2 * (x / 2) + 1 := by omega
      unfold heOf
      rcases hcase with e | e
      · left; rw [Nat.add_zero, ← e]; exact hs.symm
      · right; rw [← e]; exact hs.symm
  · simp only [hb, Bool.false_eq_true, if_false]
    constructor
    · intro c hc
      rw [k3_mem_toSet] at hc
      simp only [List.mem_flatMap, List.mem_filter] at hc
      obtain ⟨f, _, hc, _⟩ := hc
      exact liveC_lt ((mem_liveCells k c).mp hc)
    · intro i hil ⟨x, hx, hxf⟩
      rw [k3_mem_toSet]
      simp only [List.mem_flatMap, List.mem_filter]
      refine ⟨x / 2, hxf, (mem_liveCells k i).mpr (hliveC i hil), ?_⟩
      rw [List.any_eq_true]
      exact ⟨x, hx, by unfold eOf; simp⟩

theorem incidentFaces_spec {k : Kernel} (hi : ImmInv k) (es : List Nat) (hes : ∀ e ∈ es, e < k.nE) :
    (∀ f ∈ k.incidentFaces es, f < k.nF) ∧
    (∀ i, i < k.nF → (∃ x ∈ k.faceAt i, x / 2 ∈ es) → i ∈ k.incidentFaces es) := by
  have hliveF : ∀ i, i < k.nF → k.liveF i = true := by
    intro i hil; unfold liveF fDeleted; rw [hi.nfF.getD i]; simp [hil]
  unfold incidentFaces
  by_cases hb : k.eBU = true
  · simp only [hb, if_true]
    obtain ⟨hlen, hperm⟩ := hi.wf.cache.e hb
    constructor
    · intro f hf
      rw [k3_mem_toSet] at hf
      simp only [List.mem_flatMap, List.mem_map] at hf
      obtain ⟨e, he, y, hy, rfl⟩ := hf
      have h2e : heOf e 0 < k.nHE := by have := hes e he; unfold heOf nHE nE at *; omega
      exact liveF_lt ((mem_sHfsOfHe k _ _).mp ((hperm _ h2e).mem_iff.mp hy)).1
    · intro i hil ⟨x, hx, hxe⟩
      rw [k3_mem_toSet]
      simp only [List.mem_flatMap, List.mem_map]
      refine ⟨x / 2, hxe, ?_⟩
      by_cases hex : ∃ y ∈ k.hfsOf (2 * (x / 2)), y / 2 = i
      · obtain ⟨y, hy, rfl⟩ := hex
        exact ⟨y, by unfold heOf; exact hy, rfl⟩
      · exfalso
        have := k3_face_off_edge hi.wf.cache.e hb (hes _ hxe) (hliveF i hil)
          (fun y hy e => hex ⟨y, hy, e⟩)
        exact this x hx rfl
  · simp only [hb, Bool.false_eq_true, if_false]
    constructor
    · intro c hc
      rw [k3_mem_toSet] at hc
      simp only [List.mem_flatMap, List.mem_filter] at hc
      obtain ⟨f, _, hc, _⟩ := hc
      exact liveF_lt ((mem_liveFaces k c).mp hc)
    · intro i hil ⟨x, hx, hxf⟩
      rw [k3_mem_toSet]
      simp only [List.mem_flatMap, List.mem_filter]
      refine ⟨x / 2, hxf, (mem_liveFaces k i).mpr (hliveF i hil), ?_⟩
      rw [List.any_eq_true]
      exact ⟨x, hx, by unfold eOf; simp⟩

theorem incidentEdges_spec {k : Kernel} (hi : ImmInv k) {v : Nat} (hv : v < k.nV) :
    (∀ e ∈ k.incidentEdges [v], e < k.nE) ∧
    (∀ i, i < k.nE → ((k.edgeAt i).1 = v ∨ (k.edgeAt i).2 = v) → i ∈ k.incidentEdges [v]) := by
  have hliveE : ∀ i, i < k.nE → k.liveE i = true := by
    intro i hil; unfold liveE eDeleted; rw [hi.nfE.getD i]; simp [hil]
  unfold incidentEdges
  by_cases hb : k.vBU = true
  · simp only [hb, if_true]
    obtain ⟨hlen, hperm⟩ := hi.wf.cache.v hb
    constructor
    · intro e he
      rw [k3_mem_toSet] at he
      simp only [List.flatMap_cons, List.flatMap_nil, List.append_nil, List.mem_map] at he
      obtain ⟨y, hy, rfl⟩ := he
      have := ((mem_sOut_iff k v y).mp ((hperm v hv).mem_iff.mp hy)).1
      unfold liveE at this; simp at this; exact this.1
    · intro i hil hend
      rw [k3_mem_toSet]
      simp only [List.flatMap_cons, List.flatMap_nil, List.append_nil, List.mem_map]
      rcases hend with e | e
      · refine ⟨2 * i, (hperm v hv).mem_iff.mpr ((mem_sOut_iff k v _).mpr ⟨?_, ?_⟩), by unfold eOf; omega⟩
        · unfold eOf; rw [show 2 * i / 2 = i by omega]; exact hliveE i hil
        · rw [fromV_even]; exact e
      · refine ⟨2 * i + 1, (hperm v hv).mem_iff.mpr ((mem_sOut_iff k v _).mpr ⟨?_, ?_⟩), by unfold eOf; omega⟩
        · unfold eOf; rw [show (2 * i + 1) / 2 = i by omega]; exact hliveE i hil
        · rw [fromV_odd']; exact e
  · simp only [hb, Bool.false_eq_true, if_false]
    constructor
    · intro c hc
      rw [k3_mem_toSet] at hc
      simp only [List.flatMap_cons, List.flatMap_nil, List.append_nil, List.mem_filter] at hc
      have := (mem_liveEdges k c).mp hc.1
      unfold liveE at this; simp at this; exact this.1
    · intro i hil hend
      rw [k3_mem_toSet]
      simp only [List.flatMap_cons, List.flatMap_nil, List.append_nil, List.mem_filter]
      refine ⟨(mem_liveEdges k i).mpr (hliveE i hil), ?_⟩
      rcases hend with e | e <;> simp [e]

theorem incidentCells_desc (k : Kernel) (fs : List Nat) : (k.incidentCells fs).reverse.Pairwise (· > ·) := by
  unfold incidentCells; split <;> exact k3_toSet_desc _
theorem incidentFaces_desc (k : Kernel) (es : List Nat) : (k.incidentFaces es).reverse.Pairwise (· > ·) := by
  unfold incidentFaces; split <;> exact k3_toSet_desc _
theorem incidentEdges_desc (k : Kernel) (vs : List Nat) : (k.incidentEdges vs).reverse.Pairwise (· > ·) := by
  unfold incidentEdges; split <;> exact k3_toSet_desc _

/-! ### the four `delete_*` operations in immediate fast mode -/

/-- **immediate fast `delete_cell` keeps `ImmInv`** (`WF ∧ oneCell ∧` no flags) — `c < n_cells`: cc:1362 -/
theorem immInv_deleteCell {k : Kernel} (hi : ImmInv k) {c : Nat} (hc : c < k.nC) : ImmInv (k.deleteCell c) :=
  (immInv_deleteCellCore hi hc).1

/-- **immediate fast `delete_face` keeps `ImmInv`**: the incident cells (exactly the cells using the
    face) go first, in descending handle order so that the swap-with-last never moves a cell still
    to be deleted; then no cell names the face and `delete_face_core` applies -/
theorem immInv_deleteFace {k : Kernel} (hi : ImmInv k) {f : Nat} (hf : f < k.nF) : ImmInv (k.deleteFace f) := by
  unfold deleteFace
  obtain ⟨c1, c2⟩ := incidentCells_spec hi [f]
  obtain ⟨r1, r2, r3, _, _⟩ := cellStage (fun c => ∃ x ∈ c, x / 2 ∈ [f]) (k.incidentCells [f]).reverse k hi
    (incidentCells_desc k _) (by simpa using c1) (by intro i hil hq; simpa using c2 i hil hq)
  refine (immInv_deleteFaceCore r1 (by unfold nF at *; rw [r3]; exact hf) ?_).1
  intro c hc x hx e
  exact r2 c hc ⟨x, hx, by simp [e]⟩

/-- **immediate fast `delete_edge` keeps `ImmInv`** -/
theorem immInv_deleteEdge {k : Kernel} (hi : ImmInv k) {e : Nat} (he : e < k.nE) : ImmInv (k.deleteEdge e) := by
  unfold deleteEdge
  obtain ⟨f1, f2⟩ := incidentFaces_spec hi [e] (by simpa using he)
  obtain ⟨c1, c2⟩ := incidentCells_spec hi (k.incidentFaces [e])
  obtain ⟨r1, r2, r3, r4, _⟩ := cellStage (fun c => ∃ x ∈ c, x / 2 ∈ k.incidentFaces [e])
    (k.incidentCells (k.incidentFaces [e])).reverse k hi
    (incidentCells_desc k _) (by simpa using c1) (by intro i hil hq; simpa using c2 i hil hq)
  obtain ⟨s1, s2, s3, _⟩ := faceStage (fun f => ∃ x ∈ f, x / 2 ∈ [e]) (k.incidentFaces [e]).reverse _ r1
    (incidentFaces_desc k _) (by unfold nF at *; rw [r3]; simpa using f1)
    (by intro c hc x hx hm; exact r2 c hc ⟨x, hx, by simpa using hm⟩)
    (by
      intro i hil hq
      unfold nF faceAt at *
      rw [r3] at hil hq
      simpa using f2 i hil hq)
  refine (immInv_deleteEdgeCore s1 (by unfold nE at *; rw [s3, r4]; exact he) ?_).1
  intro f hf x hx e'
  exact s2 f hf ⟨x, hx, by simp [e']⟩

/-- **immediate fast `delete_vertex` keeps `ImmInv`**: cells, faces, edges of the upward closure go
    first (each stage in descending handle order), which establishes "no stored edge has the vertex as
    an endpoint", the precondition of fast `delete_vertex_core` -/
theorem immInv_deleteVertex {k : Kernel} (hi : ImmInv k) {v : Nat} (hv : v < k.nV) : ImmInv (k.deleteVertex v) := by
  unfold deleteVertex
  obtain ⟨e1, e2⟩ := incidentEdges_spec hi hv
  obtain ⟨f1, f2⟩ := incidentFaces_spec hi (k.incidentEdges [v]) e1
  obtain ⟨c1, c2⟩ := incidentCells_spec hi (k.incidentFaces (k.incidentEdges [v]))
  obtain ⟨r1, r2, r3, r4, r5⟩ := cellStage (fun c => ∃ x ∈ c, x / 2 ∈ k.incidentFaces (k.incidentEdges [v]))
    (k.incidentCells (k.incidentFaces (k.incidentEdges [v]))).reverse k hi
    (incidentCells_desc k _) (by simpa using c1) (by intro i hil hq; simpa using c2 i hil hq)
  obtain ⟨s1, s2, s3, s4⟩ := faceStage (fun f => ∃ x ∈ f, x / 2 ∈ k.incidentEdges [v])
    (k.incidentFaces (k.incidentEdges [v])).reverse _ r1
    (incidentFaces_desc k _) (by unfold nF at *; rw [r3]; simpa using f1)
    (by intro c hc x hx hm; exact r2 c hc ⟨x, hx, by simpa using hm⟩)
    (by
      intro i hil hq
      unfold nF faceAt at *
      rw [r3] at hil hq
      simpa using f2 i hil hq)
  obtain ⟨t1, t2, t3⟩ := edgeStage (fun e => e.1 = v ∨ e.2 = v) (k.incidentEdges [v]).reverse _ s1
    (incidentEdges_desc k _) (by unfold nE at *; rw [s3, r4]; simpa using e1)
    (by intro f hf x hx hm; exact s2 f hf ⟨x, hx, by simpa using hm⟩)
    (by
      intro i hil hq
      unfold nE edgeAt at *
      rw [s3, r4] at hil hq
      simpa using e2 i hil hq)
  refine immInv_deleteVertexCore t1 (by rw [t3, s4, r5]; exact hv) ?_
  intro e he
  have := t2 e he
  exact ⟨fun h => this (Or.inl h), fun h => this (Or.inr h)⟩

/-! ### non-vacuity: the tetrahedron of `CacheDelete` in immediate fast mode -/
def tetImm : Kernel := { tetK with deferred := false }

set_option maxRecDepth 4000 in
theorem immInv_tetImm : ImmInv tetImm := by
  refine ⟨rfl, rfl, ⟨?_, ?_, ⟨?_, ?_, ?_⟩⟩, by decide, ?_, ?_, ?_⟩
  · constructor <;> (try unfold ColsLen) <;> decide
  · constructor <;> decide
  · unfold CacheInvV; decide
  · unfold CacheInvE; decide
  · unfold CacheInvF; decide
  · unfold NoFlag; decide
  · unfold NoFlag; decide
  · unfold NoFlag; decide

example : ImmInv (tetImm.deleteVertex 0) ∧ (tetImm.deleteVertex 0).nV = 3 ∧
    (tetImm.deleteVertex 0).edges = [(0, 2), (1, 2), (0, 1)] ∧ (tetImm.deleteVertex 0).faces = [[5, 0, 3]] ∧
    (tetImm.deleteVertex 0).cells = [] :=
  ⟨immInv_deleteVertex immInv_tetImm (by decide), by decide⟩
example : ImmInv (tetImm.deleteEdge 5) ∧ (tetImm.deleteEdge 5).nF = 2 :=
  ⟨immInv_deleteEdge immInv_tetImm (by decide), by decide⟩
example : ImmInv (tetImm.deleteFace 1) ∧ (tetImm.deleteFace 1).cells = [] :=
  ⟨immInv_deleteFace immInv_tetImm (by decide), by decide⟩

end Kernel
end OVM

import OVM.Refine.LogicalGC
/-
  C02, the counters: how many live entities a logical-mesh relation leaves (`KindOK.card`: a bijection between the
  survivors and the live slots of the target), and the kernel's own bookkeeping (`n_*`, pending-deletion counters,
  hence `n_logical_*`, `needs_garbage_collection`, `genus`) along the four deletions in every mode.
-/
namespace OVM
namespace Kernel
namespace Logical
open ScanDel Global

/-! ### counting live slots -/

/-- the live slots of a kind, ascending -/
def liveList (n : Nat) (del : List Bool) : List Nat := (List.range n).filter (fun x => !(del.getD x false))
/-- number of live slots -/
def nLive (n : Nat) (del : List Bool) : Nat := (liveList n del).length

theorem mem_liveList {n : Nat} {del : List Bool} {x : Nat} : x ∈ liveList n del ↔ (x < n ∧ del.getD x false = false) := by
  unfold liveList; simp

theorem nodup_liveList (n : Nat) (del : List Bool) : (liveList n del).Nodup :=
  List.Pairwise.filter _ List.nodup_range

theorem len_filter_split {α} (p : α → Bool) (l : List α) :
    (l.filter p).length + (l.filter (fun x => !p x)).length = l.length := by
  induction l with
  | nil => rfl
  | cons a t ih =>
    by_cases h : p a = true
    · simp [h]; omega
    · have h' : p a = false := by simpa using h
      simp [h']; omega

theorem nodup_map_of_inj_on {l : List Nat} (f : Nat → Nat) (hn : l.Nodup) (hinj : ∀ a ∈ l, ∀ b ∈ l, f a = f b → a = b) :
    (l.map f).Nodup := by
  induction l with
  | nil => exact List.Pairwise.nil
  | cons a t ih =>
    rw [List.map_cons]
    have hc := List.pairwise_cons.mp hn
    refine List.pairwise_cons.mpr ⟨?_, ih hc.2 (fun x hx y hy => hinj x (by simp [hx]) y (by simp [hy]))⟩
    intro y hy e
    obtain ⟨b, hb, rfl⟩ := List.mem_map.mp hy
    have := hinj a (by simp) b (by simp [hb]) e
    exact hc.1 b hb this

/-- **counting through a logical-mesh relation**: if `L` lists (without repetition) the live slots of the kind that
    are removed, the target has `|L|` fewer live slots -/
theorem KindOK.card {n n' : Nat} {del del' : List Bool} {S : Nat → Prop} {ρ : Nat → Nat} {cs cs' : List Col}
    (h : KindOK n del S n' del' ρ cs cs') (L : List Nat) (hL : L.Nodup)
    (hm : ∀ x, x ∈ L ↔ (x < n ∧ del.getD x false = false ∧ S x)) : nLive n' del' + L.length = nLive n del := by
  have hsplit := len_filter_split (fun x => L.contains x) (liveList n del)
  have h1 : ((liveList n del).filter (fun x => L.contains x)).length = L.length := by
    apply List.Perm.length_eq
    rw [List.perm_ext_iff_of_nodup (List.Pairwise.filter _ (nodup_liveList n del)) hL]
    intro a
    simp only [List.mem_filter, mem_liveList, List.contains_eq_mem, decide_eq_true_eq]
    constructor
    · intro x; exact x.2
    · intro x; exact ⟨⟨((hm a).mp x).1, ((hm a).mp x).2.1⟩, x⟩
  have hA : ∀ x, x ∈ (liveList n del).filter (fun x => !L.contains x) ↔ Surv n del S x := by
    intro x
    simp only [List.mem_filter, mem_liveList, List.contains_eq_mem, Bool.not_eq_true', decide_eq_false_iff_not]
    unfold Surv
    constructor
    · rintro ⟨⟨a, b⟩, c⟩; exact ⟨a, b, fun s => c ((hm x).mpr ⟨a, b, s⟩)⟩
    · rintro ⟨a, b, c⟩; exact ⟨⟨a, b⟩, fun s => c ((hm x).mp s).2.2⟩
  have h2 : (((liveList n del).filter (fun x => !L.contains x)).map ρ).length = nLive n' del' := by
    apply List.Perm.length_eq
    rw [List.perm_ext_iff_of_nodup
      (nodup_map_of_inj_on ρ (List.Pairwise.filter _ (nodup_liveList n del))
        (fun a ha b hb e => h.inj a b ((hA a).mp ha) ((hA b).mp hb) e)) (nodup_liveList n' del')]
    intro y
    rw [List.mem_map, mem_liveList]
    constructor
    · rintro ⟨x, hx, rfl⟩; exact h.into x ((hA x).mp hx)
    · rintro ⟨y1, y2⟩
      obtain ⟨x, hx, e⟩ := h.onto y y1 y2
      exact ⟨x, (hA x).mpr hx, e⟩
  rw [List.length_map] at h2
  unfold nLive at *
  omega

theorem nLive_of_noFlag {n : Nat} {del : List Bool} (h : NoFlag del) : nLive n del = n := by
  unfold nLive liveList
  rw [List.filter_eq_self.mpr (fun x _ => by rw [h.getD x]; rfl), List.length_range]


/-! ### the kernel's bookkeeping -/

/-- the deferred flag and the four pending-deletion counters -/
def Pend (k : Kernel) : Bool × Nat × Nat × Nat × Nat := (k.deferred, k.nDelV, k.nDelE, k.nDelF, k.nDelC)
/-- the four slot counts -/
def Sizes (k : Kernel) : Nat × Nat × Nat × Nat := (k.nV, k.edges.length, k.faces.length, k.cells.length)

theorem pend_core_imm (k : Kernel) (i : Nat) (hd : k.deferred = false) :
    Pend (k.deleteCellCore i) = Pend k ∧ Pend (k.deleteFaceCore i) = Pend k ∧
    Pend (k.deleteEdgeCore i) = Pend k ∧ Pend (k.deleteVertexCore i) = Pend k := by
  unfold Pend
  simp [deleteCellCore_nDelV_imm k i hd, deleteCellCore_nDelE_imm k i hd, deleteCellCore_nDelF_imm k i hd,
    deleteCellCore_nDelC_imm k i hd, deleteFaceCore_nDelV_imm k i hd, deleteFaceCore_nDelE_imm k i hd,
    deleteFaceCore_nDelF_imm k i hd, deleteFaceCore_nDelC_imm k i hd, deleteEdgeCore_nDelV_imm k i hd,
    deleteEdgeCore_nDelE_imm k i hd, deleteEdgeCore_nDelF_imm k i hd, deleteEdgeCore_nDelC_imm k i hd,
    deleteVertexCore_nDelV_imm k i hd, deleteVertexCore_nDelE_imm k i hd, deleteVertexCore_nDelF_imm k i hd,
    deleteVertexCore_nDelC_imm k i hd]

theorem pend_fold_imm (core : Kernel → Nat → Kernel) (hc : ∀ k i, k.deferred = false → Pend (core k i) = Pend k) :
    ∀ (L : List Nat) (k : Kernel), k.deferred = false → Pend (L.foldl core k) = Pend k := by
  intro L
  induction L with
  | nil => intro k _; rfl
  | cons x t ih =>
    intro k hd
    have h1 := hc k x hd
    have hd1 : (core k x).deferred = false := (congrArg (·.1) h1).trans hd
    exact (ih _ hd1).trans h1

/-- immediate mode: no `delete_*` touches a pending-deletion counter -/
theorem pend_delete_imm (k : Kernel) (x : Nat) (hd : k.deferred = false) :
    Pend (k.deleteCell x) = Pend k ∧ Pend (k.deleteFace x) = Pend k ∧ Pend (k.deleteEdge x) = Pend k ∧
    Pend (k.deleteVertex x) = Pend k := by
  have fc := pend_fold_imm deleteCellCore (fun k i h => (pend_core_imm k i h).1)
  have ff := pend_fold_imm deleteFaceCore (fun k i h => (pend_core_imm k i h).2.1)
  have fe := pend_fold_imm deleteEdgeCore (fun k i h => (pend_core_imm k i h).2.2.1)
  have dd : ∀ {a b : Kernel}, Pend a = Pend b → b.deferred = false → a.deferred = false :=
    fun h hb => (congrArg (·.1) h).trans hb
  refine ⟨(pend_core_imm k x hd).1, ?_, ?_, ?_⟩
  · unfold deleteFace
    have h1 := fc (k.incidentCells [x]).reverse k hd
    exact ((pend_core_imm _ x (dd h1 hd)).2.1).trans h1
  · unfold deleteEdge
    have h1 := fc (k.incidentCells (k.incidentFaces [x])).reverse k hd
    have h2 := ff (k.incidentFaces [x]).reverse _ (dd h1 hd)
    exact ((pend_core_imm _ x (dd (h2.trans h1) hd)).2.2.1).trans (h2.trans h1)
  · unfold deleteVertex
    have h1 := fc (k.incidentCells (k.incidentFaces (k.incidentEdges [x]))).reverse k hd
    have h2 := ff (k.incidentFaces (k.incidentEdges [x])).reverse _ (dd h1 hd)
    have h3 := fe (k.incidentEdges [x]).reverse _ (dd (h2.trans h1) hd)
    exact ((pend_core_imm _ x (dd (h3.trans (h2.trans h1)) hd)).2.2.2).trans (h3.trans (h2.trans h1))

/-- deferred mode: every core keeps the slot counts and bumps its own counter -/
theorem cnt_core_def (k : Kernel) (i : Nat) (hd : k.deferred = true) :
    (Sizes (k.deleteCellCore i) = Sizes k ∧ Pend (k.deleteCellCore i) = (true, k.nDelV, k.nDelE, k.nDelF, k.nDelC + 1)) ∧
    (Sizes (k.deleteFaceCore i) = Sizes k ∧ Pend (k.deleteFaceCore i) = (true, k.nDelV, k.nDelE, k.nDelF + 1, k.nDelC)) ∧
    (Sizes (k.deleteEdgeCore i) = Sizes k ∧ Pend (k.deleteEdgeCore i) = (true, k.nDelV, k.nDelE + 1, k.nDelF, k.nDelC)) ∧
    (Sizes (k.deleteVertexCore i) = Sizes k ∧ Pend (k.deleteVertexCore i) = (true, k.nDelV + 1, k.nDelE, k.nDelF, k.nDelC)) := by
  rw [deleteCellCore_deferred_eq i hd, deleteFaceCore_deferred_eq i hd, deleteEdgeCore_deferred_eq i hd,
    deleteVertexCore_deferred_eq i hd]
  unfold Sizes Pend
  simp [flagCell, flagFace, flagEdge, flagVertex, hd]

theorem cnt_fold_def (core : Kernel → Nat → Kernel) (bump : Nat → Nat × Nat × Nat × Nat → Nat × Nat × Nat × Nat)
    (hb0 : ∀ c, bump 0 c = c) (hbs : ∀ n c, bump (n + 1) c = bump n (bump 1 c))
    (hc : ∀ k i, k.deferred = true → Sizes (core k i) = Sizes k ∧
      Pend (core k i) = (true, bump 1 (k.nDelV, k.nDelE, k.nDelF, k.nDelC))) :
    ∀ (L : List Nat) (k : Kernel), k.deferred = true → Sizes (L.foldl core k) = Sizes k ∧
      Pend (L.foldl core k) = (true, bump L.length (k.nDelV, k.nDelE, k.nDelF, k.nDelC)) := by
  intro L
  induction L with
  | nil => intro k hd; exact ⟨rfl, by unfold Pend; simp only [List.foldl_nil, List.length_nil]; rw [hb0, hd]⟩
  | cons x t ih =>
    intro k hd
    obtain ⟨a1, a2⟩ := hc k x hd
    have hd1 : (core k x).deferred = true := congrArg (·.1) a2
    obtain ⟨b1, b2⟩ := ih _ hd1
    refine ⟨b1.trans a1, ?_⟩
    rw [List.foldl_cons, b2, List.length_cons, hbs]
    have : ((core k x).nDelV, (core k x).nDelE, (core k x).nDelF, (core k x).nDelC) =
        bump 1 (k.nDelV, k.nDelE, k.nDelF, k.nDelC) := congrArg (·.2) a2
    rw [this]

def bumpC (n : Nat) (c : Nat × Nat × Nat × Nat) : Nat × Nat × Nat × Nat := (c.1, c.2.1, c.2.2.1, c.2.2.2 + n)
def bumpF (n : Nat) (c : Nat × Nat × Nat × Nat) : Nat × Nat × Nat × Nat := (c.1, c.2.1, c.2.2.1 + n, c.2.2.2)
def bumpE (n : Nat) (c : Nat × Nat × Nat × Nat) : Nat × Nat × Nat × Nat := (c.1, c.2.1 + n, c.2.2.1, c.2.2.2)

/-- deferred mode: the counters after the four `delete_*` — the slot counts are unchanged and each counter grows by the
    number of entities of its kind in the closure lists -/
theorem cnt_delete_def (k : Kernel) (x : Nat) (hd : k.deferred = true) :
    (Sizes (k.deleteCell x) = Sizes k ∧ Pend (k.deleteCell x) = (true, k.nDelV, k.nDelE, k.nDelF, k.nDelC + 1)) ∧
    (Sizes (k.deleteFace x) = Sizes k ∧ Pend (k.deleteFace x) =
      (true, k.nDelV, k.nDelE, k.nDelF + 1, k.nDelC + (k.incidentCells [x]).length)) ∧
    (Sizes (k.deleteEdge x) = Sizes k ∧ Pend (k.deleteEdge x) =
      (true, k.nDelV, k.nDelE + 1, k.nDelF + (k.incidentFaces [x]).length,
        k.nDelC + (k.incidentCells (k.incidentFaces [x])).length)) ∧
    (Sizes (k.deleteVertex x) = Sizes k ∧ Pend (k.deleteVertex x) =
      (true, k.nDelV + 1, k.nDelE + (k.incidentEdges [x]).length,
        k.nDelF + (k.incidentFaces (k.incidentEdges [x])).length,
        k.nDelC + (k.incidentCells (k.incidentFaces (k.incidentEdges [x]))).length)) := by
  have fc := cnt_fold_def deleteCellCore bumpC (fun _ => rfl) (fun n c => by simp [bumpC]; omega)
    (fun k i h => (cnt_core_def k i h).1)
  have ff := cnt_fold_def deleteFaceCore bumpF (fun _ => rfl) (fun n c => by simp [bumpF]; omega)
    (fun k i h => (cnt_core_def k i h).2.1)
  have fe := cnt_fold_def deleteEdgeCore bumpE (fun _ => rfl) (fun n c => by simp [bumpE]; omega)
    (fun k i h => (cnt_core_def k i h).2.2.1)
  have dd : ∀ {a : Kernel} {c : Nat × Nat × Nat × Nat}, Pend a = (true, c) → a.deferred = true ∧
      (a.nDelV, a.nDelE, a.nDelF, a.nDelC) = c := fun h => ⟨congrArg (·.1) h, congrArg (·.2) h⟩
  refine ⟨(cnt_core_def k x hd).1, ?_, ?_, ?_⟩
  · unfold deleteFace
    obtain ⟨a1, a2⟩ := fc (k.incidentCells [x]).reverse k hd
    obtain ⟨d1, e1⟩ := dd a2
    obtain ⟨b1, b2⟩ := (cnt_core_def _ x d1).2.1
    refine ⟨b1.trans a1, ?_⟩
    simp only [bumpC, Prod.mk.injEq, List.length_reverse] at e1
    rw [b2, e1.1, e1.2.1, e1.2.2.1, e1.2.2.2]
  · unfold deleteEdge
    obtain ⟨a1, a2⟩ := fc (k.incidentCells (k.incidentFaces [x])).reverse k hd
    obtain ⟨d1, e1⟩ := dd a2
    obtain ⟨a3, a4⟩ := ff (k.incidentFaces [x]).reverse _ d1
    obtain ⟨d2, e2⟩ := dd a4
    obtain ⟨b1, b2⟩ := (cnt_core_def _ x d2).2.2.1
    refine ⟨b1.trans (a3.trans a1), ?_⟩
    simp only [bumpC, bumpF, Prod.mk.injEq, List.length_reverse] at e1 e2
    rw [b2, e2.1, e2.2.1, e2.2.2.1, e2.2.2.2, e1.1, e1.2.1, e1.2.2.1, e1.2.2.2]
  · unfold deleteVertex
    obtain ⟨a1, a2⟩ := fc (k.incidentCells (k.incidentFaces (k.incidentEdges [x]))).reverse k hd
    obtain ⟨d1, e1⟩ := dd a2
    obtain ⟨a3, a4⟩ := ff (k.incidentFaces (k.incidentEdges [x])).reverse _ d1
    obtain ⟨d2, e2⟩ := dd a4
    obtain ⟨a5, a6⟩ := fe (k.incidentEdges [x]).reverse _ d2
    obtain ⟨d3, e3⟩ := dd a6
    obtain ⟨b1, b2⟩ := (cnt_core_def _ x d3).2.2.2
    refine ⟨b1.trans (a5.trans (a3.trans a1)), ?_⟩
    simp only [bumpC, bumpF, bumpE, Prod.mk.injEq, List.length_reverse] at e1 e2 e3
    rw [b2, e3.1, e3.2.1, e3.2.2.1, e3.2.2.2, e2.1, e2.2.1, e2.2.2.1, e2.2.2.2, e1.1, e1.2.1, e1.2.2.1, e1.2.2.2]

/-! ### counters along a deletion, every mode -/

/-- the closure lists of a deletion: per kind, a duplicate-free list of exactly the live slots that are removed -/
structure Lists (k : Kernel) (S : Rem) (Lv Le Lf Lc : List Nat) : Prop where
  nv : Lv.Nodup
  mv : ∀ x, x ∈ Lv ↔ (x < k.nV ∧ k.vDel.getD x false = false ∧ S.v x)
  ne : Le.Nodup
  me : ∀ x, x ∈ Le ↔ (x < k.edges.length ∧ k.eDel.getD x false = false ∧ S.e x)
  nf : Lf.Nodup
  mf : ∀ x, x ∈ Lf ↔ (x < k.faces.length ∧ k.fDel.getD x false = false ∧ S.f x)
  nc : Lc.Nodup
  mc : ∀ x, x ∈ Lc ↔ (x < k.cells.length ∧ k.cDel.getD x false = false ∧ S.c x)

/-- how the kernel's own bookkeeping moves: deferred (slot counts kept, every counter grows by the length of its
    closure list) or immediate (counters kept; nothing flagged before or after) -/
def ModeCounts (k k' : Kernel) (Lv Le Lf Lc : List Nat) : Prop :=
  (Sizes k' = Sizes k ∧
    Pend k' = (true, k.nDelV + Lv.length, k.nDelE + Le.length, k.nDelF + Lf.length, k.nDelC + Lc.length)) ∨
  (Pend k' = Pend k ∧ (NoFlag k.vDel ∧ NoFlag k.eDel ∧ NoFlag k.fDel ∧ NoFlag k.cDel) ∧
    (NoFlag k'.vDel ∧ NoFlag k'.eDel ∧ NoFlag k'.fDel ∧ NoFlag k'.cDel))

/-- **the number of live entities of every kind, and `n_logical_*`, drop by exactly the closure sizes** -/
theorem counters_generic {k k' : Kernel} {ρ : Ren} {S : Rem} {Lv Le Lf Lc : List Nat} (h : LogMinus k k' ρ S)
    (hL : Lists k S Lv Le Lf Lc) (hm : ModeCounts k k' Lv Le Lf Lc) :
    (nLive k'.nV k'.vDel + Lv.length = nLive k.nV k.vDel ∧
     nLive k'.edges.length k'.eDel + Le.length = nLive k.edges.length k.eDel ∧
     nLive k'.faces.length k'.fDel + Lf.length = nLive k.faces.length k.fDel ∧
     nLive k'.cells.length k'.cDel + Lc.length = nLive k.cells.length k.cDel) ∧
    (k'.nLogV = k.nLogV - Lv.length ∧ k'.nLogE = k.nLogE - Le.length ∧ k'.nLogF = k.nLogF - Lf.length ∧
     k'.nLogC = k.nLogC - Lc.length) := by
  have cv := h.v.card Lv hL.nv hL.mv
  have ce := h.e.card Le hL.ne hL.me
  have cf := h.f.card Lf hL.nf hL.mf
  have cc := h.c.card Lc hL.nc hL.mc
  refine ⟨⟨cv, ce, cf, cc⟩, ?_⟩
  unfold nLogV nLogE nLogF nLogC Kernel.nE Kernel.nF Kernel.nC
  rcases hm with ⟨hs, hp⟩ | ⟨hp, ⟨a1, a2, a3, a4⟩, ⟨b1, b2, b3, b4⟩⟩
  · unfold Sizes Pend at *
    simp only [Prod.mk.injEq] at hs hp
    obtain ⟨s1, s2, s3, s4⟩ := hs
    obtain ⟨_, p1, p2, p3, p4⟩ := hp
    rw [s1, s2, s3, s4, p1, p2, p3, p4]
    omega
  · unfold Pend at hp
    simp only [Prod.mk.injEq] at hp
    obtain ⟨_, p1, p2, p3, p4⟩ := hp
    rw [nLive_of_noFlag a1, nLive_of_noFlag b1] at cv
    rw [nLive_of_noFlag a2, nLive_of_noFlag b2] at ce
    rw [nLive_of_noFlag a3, nLive_of_noFlag b3] at cf
    rw [nLive_of_noFlag a4, nLive_of_noFlag b4] at cc
    rw [p1, p2, p3, p4]
    omega

theorem needsGC_of_pend {k k' : Kernel} (h : Pend k' = Pend k) : k'.needsGC = k.needsGC := by
  unfold Pend at h; simp only [Prod.mk.injEq] at h
  unfold needsGC; rw [h.2.1, h.2.2.1, h.2.2.2.1, h.2.2.2.2]

theorem incidentEdges_nodup (k : Kernel) (vs : List Nat) : (k.incidentEdges vs).Nodup := by
  unfold incidentEdges; split <;> exact k4_toSet_nodup _
theorem incidentFaces_nodup (k : Kernel) (es : List Nat) : (k.incidentFaces es).Nodup := by
  unfold incidentFaces; split <;> exact k4_toSet_nodup _
theorem incidentCells_nodup (k : Kernel) (fs : List Nat) : (k.incidentCells fs).Nodup := by
  unfold incidentCells; split <;> exact k4_toSet_nodup _

theorem nodup_single (x : Nat) : [x].Nodup := List.pairwise_singleton _ _
theorem nodup_nil : ([] : List Nat).Nodup := List.Pairwise.nil

theorem mem_nil_none (n : Nat) (del : List Bool) (x : Nat) :
    x ∈ ([] : List Nat) ↔ (x < n ∧ del.getD x false = false ∧ none x) := by
  simp [none]

theorem lists_cloC {k : Kernel} {c : Nat} (hc : k.liveC c = true) : Lists k (cloC c) [] [] [] [c] := by
  have h := liveC_iff.mp hc
  refine ⟨nodup_nil, mem_nil_none _ _, nodup_nil, mem_nil_none _ _, nodup_nil, mem_nil_none _ _, nodup_single c, ?_⟩
  intro x; simp only [List.mem_singleton, cloC]
  constructor
  · intro e; subst e; exact ⟨h.1, h.2, rfl⟩
  · intro e; exact e.2.2

theorem lists_cloF {k : Kernel} {f : Nat} (hw : WF k) (h1 : k.oneCell = true) (hf : k.liveF f = true) :
    Lists k (cloF k f) [] [] [f] (k.incidentCells [f]) := by
  have h := liveF_iff.mp hf
  refine ⟨nodup_nil, mem_nil_none _ _, nodup_nil, mem_nil_none _ _, nodup_single f, ?_, incidentCells_nodup k _, ?_⟩
  · intro x; simp only [List.mem_singleton, cloF]
    constructor
    · intro e; subst e; exact ⟨h.1, h.2, rfl⟩
    · intro e; exact e.2.2
  · intro x
    rw [mem_cells_iff hw h1 [f] (· = f) (single_iff hf) x, liveC_iff]
    simp only [cloF, and_assoc]

theorem lists_cloE {k : Kernel} {e : Nat} (hw : WF k) (h1 : k.oneCell = true) (he : k.liveE e = true) :
    Lists k (cloE k e) [] [e] (k.incidentFaces [e]) (k.incidentCells (k.incidentFaces [e])) := by
  have h := liveE_iff.mp he
  have mf := mem_faces_iff hw [e] (· = e) (single_iff he)
  refine ⟨nodup_nil, mem_nil_none _ _, nodup_single e, ?_, incidentFaces_nodup k _, ?_, incidentCells_nodup k _, ?_⟩
  · intro x; simp only [List.mem_singleton, cloE]
    constructor
    · intro e'; subst e'; exact ⟨h.1, h.2, rfl⟩
    · intro e'; exact e'.2.2
  · intro x; rw [mf x, liveF_iff]; simp only [cloE, and_assoc]
  · intro x; rw [mem_cells_iff hw h1 _ _ mf x, liveC_iff]; simp only [cloE, and_assoc]

theorem lists_cloV {k : Kernel} {v : Nat} (hw : WF k) (h1 : k.oneCell = true) (hv : k.liveV v = true) :
    Lists k (cloV k v) [v] (k.incidentEdges [v]) (k.incidentFaces (k.incidentEdges [v]))
      (k.incidentCells (k.incidentFaces (k.incidentEdges [v]))) := by
  have h : v < k.nV ∧ k.vDel.getD v false = false := by
    unfold liveV vDeleted at hv; simpa using hv
  have me := mem_edges_iff hw v
  have mf := mem_faces_iff hw _ _ me
  refine ⟨nodup_single v, ?_, incidentEdges_nodup k _, ?_, incidentFaces_nodup k _, ?_, incidentCells_nodup k _, ?_⟩
  · intro x; simp only [List.mem_singleton, cloV]
    constructor
    · intro e'; subst e'; exact ⟨h.1, h.2, rfl⟩
    · intro e'; exact e'.2.2
  · intro x; rw [me x, liveE_iff]; simp only [cloV, and_assoc]
  · intro x; rw [mf x, liveF_iff]; simp only [cloV, and_assoc]
  · intro x; rw [mem_cells_iff hw h1 _ _ mf x, liveC_iff]; simp only [cloV, and_assoc]

/-- the two cases of `ModeCounts` from the invariant, for a deletion `k' = del k` -/
theorem modeCounts_of {k k' : Kernel} {Lv Le Lf Lc : List Nat} (hi : GInv k) (hi' : GInv k')
    (hdef : k.deferred = true → Sizes k' = Sizes k ∧
      Pend k' = (true, k.nDelV + Lv.length, k.nDelE + Le.length, k.nDelF + Lf.length, k.nDelC + Lc.length))
    (himm : k.deferred = false → Pend k' = Pend k) : ModeCounts k k' Lv Le Lf Lc := by
  by_cases hd : k.deferred = true
  · exact Or.inl (hdef hd)
  · have hd' : k.deferred = false := by simpa using hd
    have hp := himm hd'
    have hd2 : k'.deferred = false := (congrArg (·.1) hp).trans hd'
    obtain ⟨a1, a2, a3, a4⟩ := hi.noFlag_of_immediate hd'
    obtain ⟨b1, b2, b3, b4⟩ := hi'.noFlag_of_immediate hd2
    exact Or.inr ⟨hp, ⟨a4, a3, a2, a1⟩, ⟨b4, b3, b2, b1⟩⟩

/-- what the bookkeeping functions say after a deletion with closure lists `Lv Le Lf Lc` -/
def CountsOK (k k' : Kernel) (Lv Le Lf Lc : List Nat) : Prop :=
  (nLive k'.nV k'.vDel + Lv.length = nLive k.nV k.vDel ∧
   nLive k'.edges.length k'.eDel + Le.length = nLive k.edges.length k.eDel ∧
   nLive k'.faces.length k'.fDel + Lf.length = nLive k.faces.length k.fDel ∧
   nLive k'.cells.length k'.cDel + Lc.length = nLive k.cells.length k.cDel) ∧
  (k'.nLogV = k.nLogV - Lv.length ∧ k'.nLogE = k.nLogE - Le.length ∧ k'.nLogF = k.nLogF - Lf.length ∧
   k'.nLogC = k.nLogC - Lc.length) ∧
  (k.deferred = true → k'.needsGC = true) ∧ (k.deferred = false → k'.needsGC = k.needsGC)

theorem needsGC_of_def {k' : Kernel} {a b c d : Nat} (h : Pend k' = (true, a, b, c, d)) (hp : a + b + c + d > 0) :
    k'.needsGC = true := by
  unfold Pend at h; simp only [Prod.mk.injEq] at h
  unfold needsGC; rw [h.2.1, h.2.2.1, h.2.2.2.1, h.2.2.2.2]
  simp only [Bool.or_eq_true, decide_eq_true_eq]
  omega

/-- **counters of `delete_cell`** (a live cell), all four modes -/
theorem deleteCell_counters {k : Kernel} {c : Nat} (hi : GInv k) (hc : k.liveC c = true) :
    Lists k (cloC c) [] [] [] [c] ∧ CountsOK k (k.deleteCell c) [] [] [] [c] := by
  have hlt : c < k.nC := (liveC_iff.mp hc).1
  have hL := lists_cloC hc
  obtain ⟨ρ, _, s⟩ := deleteCell_logical hi hlt
  have hm := modeCounts_of (Lv := []) (Le := []) (Lf := []) (Lc := [c]) hi (ginv_deleteCell hlt hi)
    (fun hd => (cnt_delete_def k c hd).1) (fun hd => (pend_delete_imm k c hd).1)
  obtain ⟨g1, g2⟩ := counters_generic s hL hm
  exact ⟨hL, g1, g2, fun hd => needsGC_of_def (cnt_delete_def k c hd).1.2 (by omega),
    fun hd => needsGC_of_pend (pend_delete_imm k c hd).1⟩

/-- **counters of `delete_face`** (a live face), all four modes -/
theorem deleteFace_counters {k : Kernel} {f : Nat} (hi : GInv k) (hf : k.liveF f = true) :
    Lists k (cloF k f) [] [] [f] (k.incidentCells [f]) ∧ CountsOK k (k.deleteFace f) [] [] [f] (k.incidentCells [f]) := by
  have hlt : f < k.nF := (liveF_iff.mp hf).1
  have hL := lists_cloF hi.wf hi.one hf
  obtain ⟨ρ, _, s⟩ := deleteFace_logical hi hf
  have hm := modeCounts_of (Lv := []) (Le := []) (Lf := [f]) (Lc := k.incidentCells [f]) hi (ginv_deleteFace hlt hi)
    (fun hd => (cnt_delete_def k f hd).2.1) (fun hd => (pend_delete_imm k f hd).2.1)
  obtain ⟨g1, g2⟩ := counters_generic s hL hm
  exact ⟨hL, g1, g2, fun hd => needsGC_of_def (cnt_delete_def k f hd).2.1.2 (by omega),
    fun hd => needsGC_of_pend (pend_delete_imm k f hd).2.1⟩

/-- **counters of `delete_edge`** (a live edge), all four modes -/
theorem deleteEdge_counters {k : Kernel} {e : Nat} (hi : GInv k) (he : k.liveE e = true) :
    Lists k (cloE k e) [] [e] (k.incidentFaces [e]) (k.incidentCells (k.incidentFaces [e])) ∧
    CountsOK k (k.deleteEdge e) [] [e] (k.incidentFaces [e]) (k.incidentCells (k.incidentFaces [e])) := by
  have hlt : e < k.nE := (liveE_iff.mp he).1
  have hL := lists_cloE hi.wf hi.one he
  obtain ⟨ρ, _, s⟩ := deleteEdge_logical hi he
  have hm := modeCounts_of (Lv := []) (Le := [e]) (Lf := k.incidentFaces [e])
    (Lc := k.incidentCells (k.incidentFaces [e])) hi (ginv_deleteEdge hlt hi)
    (fun hd => (cnt_delete_def k e hd).2.2.1) (fun hd => (pend_delete_imm k e hd).2.2.1)
  obtain ⟨g1, g2⟩ := counters_generic s hL hm
  exact ⟨hL, g1, g2, fun hd => needsGC_of_def (cnt_delete_def k e hd).2.2.1.2 (by omega),
    fun hd => needsGC_of_pend (pend_delete_imm k e hd).2.2.1⟩

/-- **counters of `delete_vertex`** (a live vertex), all four modes -/
theorem deleteVertex_counters {k : Kernel} {v : Nat} (hi : GInv k) (hv : k.liveV v = true) :
    Lists k (cloV k v) [v] (k.incidentEdges [v]) (k.incidentFaces (k.incidentEdges [v]))
      (k.incidentCells (k.incidentFaces (k.incidentEdges [v]))) ∧
    CountsOK k (k.deleteVertex v) [v] (k.incidentEdges [v]) (k.incidentFaces (k.incidentEdges [v]))
      (k.incidentCells (k.incidentFaces (k.incidentEdges [v]))) := by
  have hlt : v < k.nV := liveV_lt hv
  have hL := lists_cloV hi.wf hi.one hv
  obtain ⟨ρ, _, s⟩ := deleteVertex_logical hi hlt
  have hm := modeCounts_of (Lv := [v]) (Le := k.incidentEdges [v]) (Lf := k.incidentFaces (k.incidentEdges [v]))
    (Lc := k.incidentCells (k.incidentFaces (k.incidentEdges [v]))) hi (ginv_deleteVertex hlt hi)
    (fun hd => (cnt_delete_def k v hd).2.2.2) (fun hd => (pend_delete_imm k v hd).2.2.2)
  obtain ⟨g1, g2⟩ := counters_generic s hL hm
  exact ⟨hL, g1, g2, fun hd => needsGC_of_def (cnt_delete_def k v hd).2.2.2.2 (by omega),
    fun hd => needsGC_of_pend (pend_delete_imm k v hd).2.2.2⟩

/-- `genus()` is, in every state, the stated function of the four logical counts (C++ `int` arithmetic) -/
theorem genus_formula (k : Kernel) :
    k.genus = (let g : Int := 1 - ((k.nLogV : Int) - k.nLogE + k.nLogF - k.nLogC); if g.tmod 2 = 0 then g.tdiv 2 else -1) := rfl
end Logical
end Kernel
end OVM

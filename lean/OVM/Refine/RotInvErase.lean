import OVM.Refine.RotInvStep
/-
  RotInv, part 7 (builder R1): the ERASE stages of the immediate `delete_*_core` (slot removed, handles above it
  shifted down; in fast mode the slot is the last one and nothing shifts), stated on the fields of the two states
  so that one lemma serves the index-shifting and the fast variant; and a sweep of `reorder` over arbitrary edges.
  The renamings are the up-shifts `up h` (cells), `up2 h` (halffaces, halfedges) of K4
  (OVM/Refine/CacheEraseLemmas.lean): total and injective, read from the state AFTER the erase (`A`) into the
  state BEFORE it (`G`).
-/
namespace OVM
namespace Kernel
namespace Rot
open Fan CellCheck ScanDel

/-- a sweep of `reorder` over ANY list of edges keeps the invariant -/
theorem rotInv_foldl_reorder {k : Kernel} (es : List Nat) (hw : WF k) (hi : RotInv k) : RotInv (es.foldl reorder k) := by
  intro hbe hbf e hs h2
  have hwB := wf_foldl_reorder es k hw
  have hok := slotsOK_of_wf hwB hbe e h2
  by_cases hm : e ∈ es
  · exact foldl_reorder_ordered_post es k e hm hs hok
  · obtain ⟨b1, b2, _, b4⟩ := foldl_reorder_elsewhere e es k hm
    rw [b1]; rw [b2] at hs; rw [b4] at h2
    exact hi (by simpa using hbe) (by simpa using hbf) e hs h2

/-- transfer against the direction of the renaming: the NEW state `A` is read into the OLD state `B` -/
theorem rotInv_transfer_rev {A B : Kernel} (hbu : A.eBU = true → A.fBU = true → B.eBU = true ∧ B.fBU = true)
    (h : A.eBU = true → A.fBU = true → ∀ eA, 2 ≤ (A.hfsOf (heOf eA 0)).length →
      ∃ ιE ιF ιC S eB, EmbAt A B ιE ιF ιC S eA eB) (hi : RotInv B) : RotInv A := by
  intro hae haf eA hs h2
  obtain ⟨ιE, ιF, ιC, S, eB, hemb⟩ := h hae haf eA h2
  obtain ⟨hbe, hbf⟩ := hbu hae haf
  have hlen : (B.hfsOf (heOf eB 0)).length = (A.hfsOf (heOf eA 0)).length := by rw [hemb.slot0, List.length_map]
  exact (hemb.fanOrdered (by omega)).mp (hi hbe hbf eB (hemb.singleFanU.mpr hs) (by rw [hlen]; exact h2))

theorem up_inj' (h : Nat) : ∀ a b, up h a = up h b → a = b := fun a b e => up_inj h a b e
theorem up2_inj' (h : Nat) : ∀ a b, up2 h a = up2 h b → a = b := fun a b e => up2_inj h a b e

theorem up2_heOf (h e s : Nat) (hs : s < 2) : up2 h (heOf e s) = heOf (up h e) s := by
  unfold up2 up heOf; split <;> split <;> omega

/-! ### a cell slot is erased -/
theorem rotInv_eraseC_abs {G A : Kernel} (h : Nat) (hwA : WF A) (hcA : Closed A) (hwG : WF G)
    (hbe : A.eBU = G.eBU) (hbf : A.fBU = G.fBU) (hfaces : A.faces = G.faces)
    (hcells : ∀ c, A.cellAt c = G.cellAt (up h c))
    (hcellOf : A.fBU = true → ∀ x, G.cellOf x = (A.cellOf x).map (up h))
    (hinc : A.incHfs = G.incHfs) (hi : RotInv G) : RotInv A := by
  apply rotInv_transfer_rev (B := G) ?_ ?_ hi
  · intro h1 h2; exact ⟨hbe ▸ h1, hbf ▸ h2⟩
  · intro hae haf e _
    refine ⟨id, id, up h, fun x => A.liveF (eOf x) = true, e, ?_⟩
    exact {
      injE := fun _ _ h => h
      injF := fun _ _ h => h
      injC := up_inj' h
      oppE := fun _ => rfl
      oppF := fun _ => rfl
      mates := fun x c _ hcx y hy => mates_live hwA hcA hcx y hy
      hes := fun x _ => by rw [List.map_id]; unfold hfHes faceAt; rw [hfaces]; rfl
      cells := fun x c _ _ => by rw [List.map_id, hcells]
      cellOf := fun x _ => hcellOf haf x
      sCellOf := fun x _ => sCellOf_of_cf (ιF := id) (cf_of_wf hwA haf) (cf_of_wf hwG (hbf ▸ haf)) (hcellOf haf x)
      he0 := rfl
      slot0 := by rw [List.map_id]; unfold hfsOf; rw [hinc]
      slot1 := by rw [List.map_id]; unfold hfsOf; rw [hinc]
      memS := fun x hx => by
        have := (mem_slot hwA hae hx).1
        exact ⟨this, by rw [liveF_opp]; exact this⟩ }

/-! ### a face slot is erased -/
theorem rotInv_eraseF_abs {G A : Kernel} (h : Nat) (hwA : WF A) (hcA : Closed A) (hwG : WF G)
    (hbe : A.eBU = G.eBU) (hbf : A.fBU = G.fBU)
    (hhes : ∀ x, A.hfHes x = G.hfHes (up2 h x))
    (hcells : ∀ c, A.liveC c = true → G.cellAt c = (A.cellAt c).map (up2 h))
    (hcellOf : A.fBU = true → ∀ x, A.cellOf x = G.cellOf (up2 h x))
    (hslot : A.eBU = true → ∀ y, G.hfsOf y = (A.hfsOf y).map (up2 h)) (hi : RotInv G) : RotInv A := by
  apply rotInv_transfer_rev (B := G) ?_ ?_ hi
  · intro h1 h2; exact ⟨hbe ▸ h1, hbf ▸ h2⟩
  · intro hae haf e _
    have hco : ∀ x, G.cellOf (up2 h x) = (A.cellOf x).map id := by
      intro x; rw [Option.map_id, id, hcellOf haf]
    refine ⟨id, up2 h, id, fun x => A.liveF (eOf x) = true, e, ?_⟩
    exact {
      injE := fun _ _ h => h
      injF := up2_inj' h
      injC := fun _ _ h => h
      oppE := fun _ => rfl
      oppF := up2_opp h
      mates := fun x c _ hcx y hy => mates_live hwA hcA hcx y hy
      hes := fun x _ => by rw [List.map_id, hhes]
      cells := fun x c _ hcx => by rw [id, hcells c (Kernel.sCellOf_some hcx).1]
      cellOf := fun x _ => hco x
      sCellOf := fun x _ => sCellOf_of_cf (cf_of_wf hwA haf) (cf_of_wf hwG (hbf ▸ haf)) (hco x)
      he0 := rfl
      slot0 := hslot hae _
      slot1 := hslot hae _
      memS := fun x hx => by
        have := (mem_slot hwA hae hx).1
        exact ⟨this, by rw [liveF_opp]; exact this⟩ }

/-! ### an edge slot is erased -/
theorem rotInv_eraseE_abs {G A : Kernel} (h : Nat) (hwA : WF A) (hcA : Closed A)
    (hbe : A.eBU = G.eBU) (hbf : A.fBU = G.fBU)
    (hhes : ∀ x, A.liveF (eOf x) = true → G.hfHes x = (A.hfHes x).map (up2 h))
    (hcells : A.cells = G.cells) (hcDel : A.cDel = G.cDel) (hincC : A.incCell = G.incCell)
    (hslot : A.eBU = true → ∀ y, A.hfsOf y = G.hfsOf (up2 h y)) (hi : RotInv G) : RotInv A := by
  apply rotInv_transfer_rev (B := G) ?_ ?_ hi
  · intro h1 h2; exact ⟨hbe ▸ h1, hbf ▸ h2⟩
  · intro hae haf e _
    have hco : ∀ x, G.cellOf x = (A.cellOf x).map id := by
      intro x; rw [Option.map_id, id]; unfold cellOf; rw [hincC]
    refine ⟨up2 h, id, id, fun x => A.liveF (eOf x) = true, up h e, ?_⟩
    exact {
      injE := up2_inj' h
      injF := fun _ _ h => h
      injC := fun _ _ h => h
      oppE := up2_opp h
      oppF := fun _ => rfl
      mates := fun x c _ hcx y hy => mates_live hwA hcA hcx y hy
      hes := fun x hx => hhes x hx
      cells := fun x c _ _ => by rw [List.map_id, id]; unfold cellAt; rw [hcells]
      cellOf := fun x _ => hco x
      sCellOf := fun x _ => by
        rw [Option.map_id, id]; exact (sCellOf_of_eq hcells hcDel x).symm
      he0 := up2_heOf h e 0 (by omega)
      slot0 := by rw [List.map_id, ← up2_heOf h e 0 (by omega)]; exact (hslot hae _).symm
      slot1 := by rw [List.map_id, ← up2_heOf h e 1 (by omega)]; exact (hslot hae _).symm
      memS := fun x hx => by
        have := (mem_slot hwA hae hx).1
        exact ⟨this, by rw [liveF_opp]; exact this⟩ }

end Rot
end Kernel
end OVM

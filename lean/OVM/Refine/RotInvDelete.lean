import OVM.Refine.RotInvSwap
/-
  RotInv, part 5 (builder R1): the unlink stages of `delete_cell_core` and `delete_face_core` (they clear the
  links and call `reorder_incident_halffaces` on the affected edges, TopologyKernel.cc:1241, 1391-1392) followed by
  setting the deleted flag — i.e. the deferred-mode cores — and the deferred closure deletions `delete_*`.
  `delete_edge_core` / `delete_vertex_core` in deferred mode touch nothing a fan reads.
-/
namespace OVM
namespace Kernel
namespace Rot
open Fan CellCheck ScanDel

/-! ### `reorder` does not look at the flag of a cell nothing is linked to -/

theorem walkFwd_congr {k k' : Kernel} (hB : ∀ x, k'.hfOnBoundaryOrDeleted x = k.hfOnBoundaryOrDeleted x)
    (hA : ∀ x y, k'.adjHalffaceInCell x y = k.adjHalffaceInCell x y) (heh start n fuel cur : Nat) (acc : List Nat) :
    k'.walkFwd heh start n fuel cur acc = k.walkFwd heh start n fuel cur acc := by
  induction fuel generalizing cur acc with
  | zero => rfl
  | succ fuel ih =>
    unfold walkFwd
    simp only []
    rw [hB, hA]
    split
    · rfl
    · split
      · rfl
      · split
        · rfl
        · split
          · rfl
          · exact ih _ _

theorem walkBwd_congr {k k' : Kernel} (hB : ∀ x, k'.hfOnBoundaryOrDeleted x = k.hfOnBoundaryOrDeleted x)
    (hA : ∀ x y, k'.adjHalffaceInCell x y = k.adjHalffaceInCell x y) (hehOpp n fuel cur : Nat) (acc : List Nat) :
    k'.walkBwd hehOpp n fuel cur acc = k.walkBwd hehOpp n fuel cur acc := by
  induction fuel generalizing cur acc with
  | zero => rfl
  | succ fuel ih =>
    unfold walkBwd
    simp only []
    rw [hB, hA]
    split
    · rfl
    · split
      · rfl
      · split
        · rfl
        · exact ih _ _

theorem reorder_flagCell {k : Kernel} (h e : Nat) (hno : ∀ x, k.cellOf x ≠ some h) :
    (k.flagCell h).reorder e = (k.reorder e).flagCell h := by
  have hB : ∀ x, (k.flagCell h).hfOnBoundaryOrDeleted x = k.hfOnBoundaryOrDeleted x := by
    intro x
    unfold hfOnBoundaryOrDeleted
    have : (k.flagCell h).cellOf x = k.cellOf x := rfl
    rw [this]
    cases hc : k.cellOf x with
    | none => rfl
    | some c =>
      simp only
      have hne : h ≠ c := fun e' => hno x (by rw [hc, e'])
      unfold cDeleted
      rw [flagCell_cDel, ScanDel.getD_set, if_neg (fun hh => hne hh.1)]
  have hA : ∀ x y, (k.flagCell h).adjHalffaceInCell x y = k.adjHalffaceInCell x y := fun _ _ => rfl
  have hL : (k.flagCell h).reorderList e = k.reorderList e := by
    unfold reorderList
    simp only [walkFwd_congr hB hA, walkBwd_congr hB hA]
    rfl
  unfold reorder
  rw [hL]
  split <;> rfl

theorem foldl_reorder_flagCell (h : Nat) (es : List Nat) : ∀ (k : Kernel), (∀ x, k.cellOf x ≠ some h) →
    es.foldl reorder (k.flagCell h) = (es.foldl reorder k).flagCell h := by
  induction es with
  | nil => intro k _; rfl
  | cons e t ih =>
    intro k hno
    simp only [List.foldl_cons]
    rw [reorder_flagCell h e hno]
    exact ih _ (fun x => by unfold cellOf; rw [reorder_incCell]; exact hno x)

/-! ### `delete_cell_core`, unlink stage + flag -/

theorem mem_unlinkEdges (k : Kernel) (h e : Nat) :
    e ∈ toSet (((k.cellAt h).flatMap k.hfHes).map eOf) ↔ ∃ x ∈ k.cellAt h, ∃ he ∈ k.hfHes x, eOf he = e := by
  rw [k4_mem_toSet, List.mem_map]
  constructor
  · rintro ⟨he, hm, rfl⟩
    obtain ⟨x, hx, hh⟩ := List.mem_flatMap.mp hm
    exact ⟨x, hx, he, hh, rfl⟩
  · rintro ⟨x, hx, he, hh, rfl⟩
    exact ⟨he, List.mem_flatMap.mpr ⟨x, hx, hh⟩, rfl⟩

/-- **unlinking and flagging a cell keeps the invariant** (the deferred `delete_cell_core`; also the first half of
    the immediate one, with the flag as a ghost).  The edges of the cell are re-ordered after the links are
    cleared: each of them that is a single fan afterwards — typically an open chain now — is in rotational order;
    around every other edge nothing the fan reads changes. -/
theorem rotInv_unlinkFlagCell {k : Kernel} (h : Nat) (hw : WF k) (h1 : k.oneCell = true) (hc : Closed k)
    (hwB : WF ((k.unlinkCell h).flagCell h)) (hi : RotInv k) : RotInv ((k.unlinkCell h).flagCell h) := by
  intro hbe hbf e hs h2
  have hbe' : k.eBU = true := by simpa using hbe
  have hbf' : k.fBU = true := by simpa using hbf
  have hok := slotsOK_of_wf hwB hbe e h2
  -- the state with the links cleared
  let k1 : Kernel := { k with incCell := (k.cellAt h).foldl (fun ic hf => if ic.getD hf none == some h then ic.set hf none else ic) k.incCell }
  have hU : k.unlinkCell h = (toSet (((k.cellAt h).flatMap k.hfHes).map eOf)).foldl reorder k1 := by
    unfold unlinkCell; rw [if_pos hbf']
    show (if k1.eBU = true then (toSet (((k.cellAt h).flatMap k.hfHes).map eOf)).foldl reorder k1 else k1) = _
    rw [if_pos (show k1.eBU = true from hbe')]
  have hcell1 : ∀ x, k1.cellOf x = if x ∈ k.cellAt h ∧ k.cellOf x = some h then none else k.cellOf x := by
    intro x
    have := unlinkCell_cellOf k h x hbf'
    rw [hU] at this
    unfold cellOf at this ⊢
    rw [foldl_reorder_incCell] at this
    exact this
  have hno : ∀ x, k1.cellOf x ≠ some h := by
    intro x hx
    rw [hcell1] at hx
    split at hx
    · cases hx
    · rename_i hn
      have := cf_of_wf hw hbf' x
      rw [hx] at this
      exact hn ⟨(Kernel.sCellOf_some this.symm).2, hx⟩
  rw [hU, ← foldl_reorder_flagCell h _ k1 hno] at hs h2 hok ⊢
  by_cases hm : e ∈ toSet (((k.cellAt h).flatMap k.hfHes).map eOf)
  · exact foldl_reorder_ordered_post _ _ e hm hs hok
  · obtain ⟨b1, b2, _, b4⟩ := foldl_reorder_elsewhere e _ (k1.flagCell h) hm
    rw [b1]; rw [b2] at hs; rw [b4] at h2
    have hslot : ∀ y, (k1.flagCell h).hfsOf y = k.hfsOf y := fun _ => rfl
    -- halffaces around `e` are not halffaces of the cell
    have hnot : ∀ x, heOf e 0 ∈ k.hfHes x → x ∉ k.cellAt h := by
      intro x hx hxm
      exact hm ((mem_unlinkEdges k h e).mpr ⟨x, hxm, _, hx, by unfold eOf heOf; omega⟩)
    have hnot' : ∀ x, heOf e 0 ∈ k.hfHes x → opp x ∉ k.cellAt h := by
      intro x hx hxm
      refine hm ((mem_unlinkEdges k h e).mpr ⟨opp x, hxm, opp (heOf e 0), (mem_hfHes_opp k x _).mpr hx, ?_⟩)
      rw [eOf_opp]; unfold eOf heOf; omega
    have hlenC := hw.len.cDel
    have hemb : EmbAt k (k1.flagCell h) id id id
        (fun x => k.liveF (eOf x) = true ∧ (k.liveC h = true → x ∉ k.cellAt h)) e e := by
      apply embAt_id e
      · intro x c hx hcx y hy
        refine ⟨mates_live hw hc hcx y hy, fun hl hyh => ?_⟩
        have hylt : y < k.nHF := by
          have := liveF_lt (mates_live hw hc hcx y hy); unfold nHF nF eOf at *; omega
        have := oneCell_unique h1 hylt (Kernel.sCellOf_some hcx).1 hl hy hyh
        subst this
        exact hx.2 hl (Kernel.sCellOf_some hcx).2
      · intro x _; rfl
      · intro x c _ _; rfl
      · intro x hx
        show k1.cellOf x = k.cellOf x
        rw [hcell1, if_neg]
        rintro ⟨hxm, hxc⟩
        have := cf_of_wf hw hbf' x
        rw [hxc] at this
        exact hx.2 (Kernel.sCellOf_some this.symm).1 hxm
      · intro x hx
        have hxlt : x < k.nHF := by have := liveF_lt hx.1; unfold nHF nF eOf at *; omega
        have hlive : ∀ c, (k1.flagCell h).liveC c = (k.liveC c && (c != h)) := fun c => liveC_flagCell k1 h c hlenC
        have hcellAt : ∀ c, (k1.flagCell h).cellAt c = k.cellAt c := fun _ => rfl
        cases hsc : k.sCellOf x with
        | none =>
          rw [sCellOf_none_iff] at hsc ⊢
          intro c hl
          rw [hlive] at hl
          rw [hcellAt]
          exact hsc c (by simp at hl; exact hl.1)
        | some c =>
          obtain ⟨hcl, hxc⟩ := Kernel.sCellOf_some hsc
          have hch : c ≠ h := fun e' => hx.2 (e' ▸ hcl) (e' ▸ hxc)
          apply sCellOf_of_unique
          · rw [hlive, hcl]; simp [hch]
          · rw [hcellAt]; exact hxc
          · intro c' hl' hm'
            rw [hlive] at hl'; rw [hcellAt] at hm'
            exact oneCell_unique h1 hxlt (by simp at hl'; exact hl'.1) hcl hm' hxc
      · exact hslot _
      · exact hslot _
      · intro x hx
        obtain ⟨hl, hhe⟩ := mem_slot hw hbe' hx
        exact ⟨⟨hl, fun _ => hnot x hhe⟩, by rw [liveF_opp]; exact hl, fun _ => hnot' x hhe⟩
    rw [hslot] at h2
    exact (hemb.fanOrdered (by omega)).mpr (hi hbe' hbf' e (hemb.singleFanU.mp hs) h2)

/-! ### `delete_face_core`, unlink stage + flag -/

/-- two states agree on everything the fan predicates at `e` read -/
structure SameAt (k k' : Kernel) (e : Nat) : Prop where
  defs : SameDefs k k'
  s0 : k'.hfsOf (heOf e 0) = k.hfsOf (heOf e 0)
  s1 : k'.hfsOf (heOf e 1) = k.hfsOf (heOf e 1)
  len : k'.incHfs.length = k.incHfs.length

theorem SameAt.refl (k : Kernel) (e : Nat) : SameAt k k e := ⟨⟨rfl, rfl, rfl, rfl⟩, rfl, rfl, rfl⟩

theorem SameAt.trans {k k' k'' : Kernel} {e : Nat} (a : SameAt k k' e) (b : SameAt k' k'' e) : SameAt k k'' e :=
  ⟨⟨b.defs.cells.trans a.defs.cells, b.defs.faces.trans a.defs.faces, b.defs.cDel.trans a.defs.cDel,
    b.defs.incCell.trans a.defs.incCell⟩, b.s0.trans a.s0, b.s1.trans a.s1, b.len.trans a.len⟩

theorem SameAt.iffs {k k' : Kernel} {e : Nat} (a : SameAt k k' e) :
    (FanOrdered k' e ↔ FanOrdered k e) ∧ (SingleFanU k' e ↔ SingleFanU k e) ∧ (SlotsOK k' e ↔ SlotsOK k e) := by
  refine ⟨a.defs.fanOrdered e a.s0 a.s1, SingleFanU.congr a.defs e (by rw [a.s0]), ?_⟩
  unfold SlotsOK; rw [a.s0, a.s1, a.len]

theorem sameAt_reorder (k : Kernel) (e e' : Nat) (hne : e ≠ e') : SameAt k (k.reorder e') e :=
  ⟨reorder_sameDefs k e',
   reorder_other_slots k e' _ (heOf_ne_of_ne hne 0 0 (by omega) (by omega)) (heOf_ne_of_ne hne 0 1 (by omega) (by omega)),
   reorder_other_slots k e' _ (heOf_ne_of_ne hne 1 0 (by omega) (by omega)) (heOf_ne_of_ne hne 1 1 (by omega) (by omega)),
   reorder_incHfs_length k e'⟩

/-- the slot surgery of one step of `delete_face_core`'s loop -/
def unlinkSlots (h : Nat) (k : Kernel) (he : Nat) : Kernel :=
  { k with incHfs := (k.incHfs.modify he (removeAll · (heOf h 0))).modify (opp he) (removeAll · (heOf h 1)) }

theorem unlinkFaceStep_eq (h : Nat) (k : Kernel) (he : Nat) :
    unlinkFaceStep h k he = if k.fBU then (unlinkSlots h k he).reorder (eOf he) else unlinkSlots h k he := rfl

theorem sameAt_unlinkSlots (h : Nat) (k : Kernel) (he e : Nat) (hne : eOf he ≠ e) : SameAt k (unlinkSlots h k he) e := by
  have n1 : ∀ s, s < 2 → he ≠ heOf e s := by intro s hs e1; apply hne; rw [e1]; unfold eOf heOf; omega
  have n2 : ∀ s, s < 2 → opp he ≠ heOf e s := by
    intro s hs e1; apply hne; rw [← eOf_opp, e1]; unfold eOf heOf; omega
  refine ⟨⟨rfl, rfl, rfl, rfl⟩, ?_, ?_, by simp [unlinkSlots]⟩
  · unfold hfsOf unlinkSlots
    simp only [ScanDel.getD_modify]
    rw [if_neg (fun hh => n2 0 (by omega) hh.1), if_neg (fun hh => n1 0 (by omega) hh.1)]
  · unfold hfsOf unlinkSlots
    simp only [ScanDel.getD_modify]
    rw [if_neg (fun hh => n2 1 (by omega) hh.1), if_neg (fun hh => n1 1 (by omega) hh.1)]

theorem sameAt_unlinkFaceStep (h : Nat) (k : Kernel) (he e : Nat) (hne : eOf he ≠ e) :
    SameAt k (unlinkFaceStep h k he) e := by
  rw [unlinkFaceStep_eq]
  split
  · exact (sameAt_unlinkSlots h k he e hne).trans (sameAt_reorder _ e _ (fun e1 => hne e1.symm))
  · exact sameAt_unlinkSlots h k he e hne

theorem unlinkFaceStep_fBU (h : Nat) (k : Kernel) (he : Nat) : (unlinkFaceStep h k he).fBU = k.fBU := by
  rw [unlinkFaceStep_eq]; split
  · rw [reorder_fBU]; rfl
  · rfl

theorem sameAt_foldl_unlinkFaceStep (h e : Nat) : ∀ (t : List Nat) (k : Kernel), e ∉ t.map eOf →
    SameAt k (t.foldl (unlinkFaceStep h) k) e := by
  intro t
  induction t with
  | nil => intro k _; exact SameAt.refl k e
  | cons a t ih =>
    intro k hn
    simp only [List.foldl_cons]
    simp only [List.map_cons, List.mem_cons, not_or] at hn
    exact (sameAt_unlinkFaceStep h k a e (fun e1 => hn.1 e1.symm)).trans (ih _ hn.2)

/-- the loop of `delete_face_core` over the halfedges of the face, post-state form: an edge of the face that is a
    single fan AFTER the loop is in rotational order (the last step that touches the edge ends with `reorder`) -/
theorem unlinkFace_ordered_post (h e : Nat) : ∀ (hes : List Nat) (k : Kernel), k.fBU = true → e ∈ hes.map eOf →
    SingleFanU (hes.foldl (unlinkFaceStep h) k) e → SlotsOK (hes.foldl (unlinkFaceStep h) k) e →
    FanOrdered (hes.foldl (unlinkFaceStep h) k) e := by
  intro hes
  induction hes with
  | nil => intro k _ hm; cases hm
  | cons a t ih =>
    intro k hb hm hs hok
    simp only [List.foldl_cons] at hs hok ⊢
    by_cases ht : e ∈ t.map eOf
    · exact ih _ (by rw [unlinkFaceStep_fBU]; exact hb) ht hs hok
    · have ha : eOf a = e := by
        simp only [List.map_cons, List.mem_cons] at hm
        rcases hm with hm | hm
        · exact hm.symm
        · exact absurd hm ht
      obtain ⟨c1, c2, c3⟩ := (sameAt_foldl_unlinkFaceStep h e t (unlinkFaceStep h k a) ht).iffs
      rw [c1]; rw [c2] at hs; rw [c3] at hok
      rw [unlinkFaceStep_eq, if_pos hb, ha] at hs hok ⊢
      exact reorder_ordered_post _ e hs hok

/-- **unlinking and flagging a face keeps the invariant** (the deferred `delete_face_core`).  The halffaces are
    removed from the slots of the halfedges of the face and each such edge is re-ordered; no definition, cell flag
    or face-cache entry changes. -/
theorem rotInv_unlinkFlagFace {k : Kernel} (h : Nat) (hwB : WF ((k.unlinkFace h).flagFace h)) (hi : RotInv k) :
    RotInv ((k.unlinkFace h).flagFace h) := by
  intro hbe hbf e hs h2
  have hbe' : k.eBU = true := by simpa using hbe
  have hbf' : k.fBU = true := by simpa using hbf
  have hok := slotsOK_of_wf hwB hbe e h2
  have hU : k.unlinkFace h = (k.faceAt h).foldl (unlinkFaceStep h) k := by unfold unlinkFace; rw [if_pos hbe']
  have hfl : SameAt (k.unlinkFace h) ((k.unlinkFace h).flagFace h) e := ⟨⟨rfl, rfl, rfl, rfl⟩, rfl, rfl, rfl⟩
  obtain ⟨d1, d2, d3⟩ := hfl.iffs
  rw [d1]; rw [d2] at hs; rw [d3] at hok
  have h2' : 2 ≤ ((k.unlinkFace h).hfsOf (heOf e 0)).length := h2
  rw [hU] at hs hok h2' ⊢
  by_cases hm : e ∈ (k.faceAt h).map eOf
  · exact unlinkFace_ordered_post h e _ k hbf' hm hs hok
  · have hsame := sameAt_foldl_unlinkFaceStep h e _ k hm
    obtain ⟨c1, c2, _⟩ := hsame.iffs
    rw [c1]; rw [c2] at hs; rw [hsame.s0] at h2'
    exact hi hbe' hbf' e hs h2'

/-! ### the four deferred cores and the deferred closure deletions -/

theorem rotInv_deleteCellCore_deferred {k : Kernel} (h : Nat) (hd : k.deferred = true) (hw : WF k)
    (h1 : k.oneCell = true) (hc : Closed k) (hi : RotInv k) : RotInv (k.deleteCellCore h) := by
  have hwB := wf_deleteCellCore_deferred h hd hw h1
  rw [deleteCellCore_deferred_eq h hd] at hwB ⊢
  exact rotInv_unlinkFlagCell h hw h1 hc hwB hi

theorem rotInv_deleteFaceCore_deferred {k : Kernel} (h : Nat) (hd : k.deferred = true) (hw : WF k)
    (hi : RotInv k) : RotInv (k.deleteFaceCore h) := by
  have hwB := wf_deleteFaceCore_deferred h hd hw
  rw [deleteFaceCore_deferred_eq h hd] at hwB ⊢
  exact rotInv_unlinkFlagFace h hwB hi

theorem rotInv_deleteEdgeCore_deferred {k : Kernel} (h : Nat) (hd : k.deferred = true)
    (hi : RotInv k) : RotInv (k.deleteEdgeCore h) := by
  rw [deleteEdgeCore_deferred_eq h hd]
  apply rotInv_of_same (A := k) _ _ _ hi
  · unfold flagEdge unlinkEdge; intro h1 h2; split at h1 <;> split at h2 <;> exact ⟨h1, h2⟩
  · unfold flagEdge unlinkEdge; split <;> exact ⟨rfl, rfl, rfl, rfl⟩
  · intro y; unfold flagEdge unlinkEdge; split <;> rfl

theorem rotInv_deleteVertexCore_deferred {k : Kernel} (h : Nat) (hd : k.deferred = true)
    (hi : RotInv k) : RotInv (k.deleteVertexCore h) := by
  rw [deleteVertexCore_deferred_eq h hd]
  exact rotInv_of_same (A := k) (fun h1 h2 => ⟨h1, h2⟩) ⟨rfl, rfl, rfl, rfl⟩ (fun _ => rfl) hi

theorem foldl_inv {P : Kernel → Prop} (core : Kernel → Nat → Kernel) (hstep : ∀ k h, P k → P (core k h))
    (xs : List Nat) (k : Kernel) (hi : P k) : P (xs.foldl core k) := by
  induction xs generalizing k with
  | nil => exact hi
  | cons x t ih => simp only [List.foldl_cons]; exact ih _ (hstep k x hi)

/-- what the cell loop of a deferred closure deletion carries -/
def DRotC (k : Kernel) : Prop := DefInv k ∧ Closed k ∧ RotInv k
/-- what the face and edge loops carry -/
def DRot (k : Kernel) : Prop := DefInv k ∧ RotInv k

theorem dRotC_deleteCellCore (k : Kernel) (h : Nat) (hi : DRotC k) : DRotC (k.deleteCellCore h) :=
  ⟨defInv_deleteCellCore h hi.1, closed_deleteCell_deferred hi.1.1 hi.1.2.1 hi.2.1 h,
   rotInv_deleteCellCore_deferred h hi.1.1 hi.1.2.1 hi.1.2.2 hi.2.1 hi.2.2⟩

theorem dRot_deleteFaceCore (k : Kernel) (h : Nat) (hi : DRot k) : DRot (k.deleteFaceCore h) :=
  ⟨defInv_deleteFaceCore h hi.1, rotInv_deleteFaceCore_deferred h hi.1.1 hi.1.2.1 hi.2⟩

theorem dRot_deleteEdgeCore (k : Kernel) (h : Nat) (hi : DRot k) : DRot (k.deleteEdgeCore h) :=
  ⟨defInv_deleteEdgeCore h hi.1, rotInv_deleteEdgeCore_deferred h hi.1.1 hi.2⟩

theorem dRot_of_C {k : Kernel} (hi : DRotC k) : DRot k := ⟨hi.1, hi.2.2⟩

/-- **deferred `delete_cell` / `delete_face` / `delete_edge` / `delete_vertex` keep the invariant** -/
theorem rotInv_deleteCell_deferred {k : Kernel} (c : Nat) (hi : DRotC k) : RotInv (k.deleteCell c) :=
  (dRotC_deleteCellCore k c hi).2.2

theorem rotInv_deleteFace_deferred {k : Kernel} (f : Nat) (hi : DRotC k) : RotInv (k.deleteFace f) := by
  unfold deleteFace
  exact (dRot_deleteFaceCore _ f (dRot_of_C (foldl_inv _ dRotC_deleteCellCore _ _ hi))).2

theorem rotInv_deleteEdge_deferred {k : Kernel} (e : Nat) (hi : DRotC k) : RotInv (k.deleteEdge e) := by
  unfold deleteEdge
  exact (dRot_deleteEdgeCore _ e (foldl_inv _ dRot_deleteFaceCore _ _
    (dRot_of_C (foldl_inv _ dRotC_deleteCellCore _ _ hi)))).2

theorem rotInv_deleteVertex_deferred {k : Kernel} (v : Nat) (hi : DRotC k) : RotInv (k.deleteVertex v) := by
  unfold deleteVertex
  have := foldl_inv _ dRot_deleteEdgeCore (k.incidentEdges [v]).reverse _ (foldl_inv _ dRot_deleteFaceCore
    (k.incidentFaces (k.incidentEdges [v])).reverse _
    (dRot_of_C (foldl_inv _ dRotC_deleteCellCore (k.incidentCells (k.incidentFaces (k.incidentEdges [v]))).reverse _ hi)))
  exact rotInv_deleteVertexCore_deferred v this.1.1 this.2

end Rot
end Kernel
end OVM

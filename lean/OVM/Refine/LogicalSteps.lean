import OVM.Refine.Logical
/-
  C02 / C04 — the elementary steps of every deletion mode as logical-mesh relations (`LogMinus`, Logical.lean):
  flag one slot, erase one slot (renaming one level up), exchange two slots.
-/
namespace OVM
namespace Kernel
namespace Logical
open ScanDel

/-! ### list facts -/

theorem getElem?_eraseIdx_corr1 {α} (l : List α) (h x : Nat) (hx : x ≠ h) : (l.eraseIdx h)[corr1 h x]? = l[x]? := by
  rw [List.getElem?_eraseIdx]
  unfold corr1
  rcases Nat.lt_or_gt_of_ne hx with h1 | h1
  · have : ¬ x > h := by omega
    simp [this, h1]
  · have h2 : ¬ x - 1 < h := by omega
    simp only [h1, if_true, h2, if_false]
    congr 1; omega

theorem getD_eraseIdx_corr1 {α} (l : List α) (h x : Nat) (d : α) (hx : x ≠ h) :
    (l.eraseIdx h).getD (corr1 h x) d = l.getD x d := by
  rw [List.getD_eq_getElem?_getD, List.getD_eq_getElem?_getD, getElem?_eraseIdx_corr1 l h x hx]

theorem getElem?_erasePair_corr2 {α} (l : List α) (h y : Nat) (hy : y / 2 ≠ h) :
    ((l.eraseIdx (2 * h + 1)).eraseIdx (2 * h))[corr2 (2 * h + 1) y]? = l[y]? := by
  rw [List.getElem?_eraseIdx]
  unfold corr2
  rcases Nat.lt_or_gt_of_ne hy with h1 | h1
  · have a1 : ¬ y > 2 * h + 1 := by omega
    have a2 : y < 2 * h := by omega
    have a3 : y < 2 * h + 1 := by omega
    rw [if_neg a1, if_pos a2, List.getElem?_eraseIdx, if_pos a3]
  · have a1 : y > 2 * h + 1 := by omega
    have a2 : ¬ y - 2 < 2 * h := by omega
    have a3 : ¬ y - 2 + 1 < 2 * h + 1 := by omega
    rw [if_pos a1, if_neg a2, List.getElem?_eraseIdx, if_neg a3]
    congr 1; omega

theorem relabelId_invol (a b x : Nat) : relabelId a b (relabelId a b x) = x := by
  unfold relabelId
  by_cases h1 : x = a
  · subst h1; by_cases h2 : b = x <;> simp [h2]
  · by_cases h2 : x = b
    · subst h2; simp [h1]
    · simp [h1, h2]

theorem relabelId_lt {a b x n : Nat} (ha : a < n) (hb : b < n) (hx : x < n) : relabelId a b x < n := by
  unfold relabelId; split
  · exact hb
  · split
    · exact ha
    · exact hx

theorem getElem?_swapAt_relabelId {α} (l : List α) (a b x : Nat) (ha : a < l.length) (hb : b < l.length) :
    (swapAt l a b)[relabelId a b x]? = l[x]? := by
  rw [getElem?_swapAt l a b _ ha hb]
  unfold relabelId
  by_cases h1 : x = a
  · subst h1; simp
  · by_cases h2 : x = b
    · subst h2
      have : ¬ a = x := fun e => h1 e.symm
      simp [h1, this]
    · simp [h1, h2]

theorem swapPair_get {α} (l : List α) (a b n : Nat) (ha : 2 * a + 1 < l.length) (hb : 2 * b + 1 < l.length) :
    (swapAt (swapAt l (2 * a) (2 * b)) (2 * a + 1) (2 * b + 1))[n]? =
      if n = 2 * b + 1 then l[2 * a + 1]? else if n = 2 * a + 1 then l[2 * b + 1]? else
      if n = 2 * b then l[2 * a]? else if n = 2 * a then l[2 * b]? else l[n]? := by
  rw [getElem?_swapAt _ _ _ _ (by simp; omega) (by simp; omega),
    getElem?_swapAt l _ _ _ (by omega) (by omega), getElem?_swapAt l _ _ _ (by omega) (by omega),
    getElem?_swapAt l _ _ _ (by omega) (by omega)]
  have c1 : ¬ 2 * a + 1 = 2 * b := by omega
  have c2 : ¬ 2 * a + 1 = 2 * a := by omega
  have c3 : ¬ 2 * b + 1 = 2 * b := by omega
  have c4 : ¬ 2 * b + 1 = 2 * a := by omega
  simp only [c1, c2, c3, c4, if_false]

theorem getElem?_swapPair_relabelHalf {α} (l : List α) (a b y : Nat) (ha : 2 * a + 1 < l.length)
    (hb : 2 * b + 1 < l.length) :
    (swapAt (swapAt l (2 * a) (2 * b)) (2 * a + 1) (2 * b + 1))[relabelHalf a b y]? = l[y]? := by
  rw [swapPair_get l a b _ ha hb]
  have hrel : relabelHalf a b y = 2 * relabelId a b (y / 2) + y % 2 := by rw [← half_relabelId]; rfl
  rw [hrel]
  by_cases h1 : y / 2 = a
  · have hr : relabelId a b (y / 2) = b := by simp [relabelId, h1]
    rw [hr]
    rcases Nat.mod_two_eq_zero_or_one y with h0 | h0 <;> rw [h0]
    · rw [if_neg (by omega), if_neg (by omega), if_pos (by omega)]; congr 1; omega
    · rw [if_pos (by omega)]; congr 1; omega
  · by_cases h2 : y / 2 = b
    · have hr : relabelId a b (y / 2) = a := by
        have : ¬ b = a := fun e => h1 (h2.trans e)
        simp [relabelId, h2, this]
      rw [hr]
      rcases Nat.mod_two_eq_zero_or_one y with h0 | h0 <;> rw [h0]
      · rw [if_neg (by omega), if_neg (by omega), if_neg (by omega), if_pos (by omega)]; congr 1; omega
      · rw [if_neg (by omega), if_pos (by omega)]; congr 1; omega
    · have hr : relabelId a b (y / 2) = y / 2 := by simp [relabelId, h1, h2]
      rw [hr, if_neg (by omega), if_neg (by omega), if_neg (by omega), if_neg (by omega)]; congr 1; omega

/-! ### one kind: identity with a smaller target, erase, swap, flag -/

/-- erase slot `h` of a kind; `ρ` agrees with the index shift `corr1 h` on the other slots -/
theorem KindOK.erase {n n' : Nat} {del del' : List Bool} {cs cs' : List Col} {h : Nat} {ρ : Nat → Nat}
    (hh : h < n) (hn : n' = n - 1) (hd : del' = del.eraseIdx h) (hc : cs' = cs.map (·.erase h))
    (hρ : ∀ x, x < n → x ≠ h → ρ x = corr1 h x) : KindOK n del (· = h) n' del' ρ cs cs' := by
  subst hn hd hc
  refine ⟨?_, ?_, ?_, ?_⟩
  · intro x ⟨h1, h2, h3⟩
    rw [hρ x h1 h3]
    exact ⟨corr1_lt h x n hh h3 h1, by rw [getD_eraseIdx_corr1 _ _ _ _ h3]; exact h2⟩
  · intro x y ⟨x1, _, x3⟩ ⟨y1, _, y3⟩ e
    rw [hρ x x1 x3, hρ y y1 y3] at e
    rw [← up_corr1 h x x3, ← up_corr1 h y y3, e]
  · intro y h1 h2
    refine ⟨up h y, ⟨(up_lt h y n hh).mpr h1, ?_, up_ne h y⟩, ?_⟩
    · rw [getD_eraseIdx] at h2; exact h2
    · rw [hρ _ ((up_lt h y n hh).mpr h1) (up_ne h y), corr1_up]
  · apply ColsFollow.map
    intro c _
    refine ⟨rfl, rfl, ?_⟩
    intro x ⟨h1, _, h3⟩
    rw [hρ x h1 h3]
    exact getElem?_eraseIdx_corr1 c.vals h x h3

theorem HalfOK.erase {n : Nat} {del : List Bool} {cs cs' : List Col} {h : Nat} {ρ : Nat → Nat}
    (hc : cs' = cs.map (fun c => (c.erase (2 * h + 1)).erase (2 * h)))
    (hρ : ∀ x, x < n → x ≠ h → ρ x = corr1 h x) : HalfOK n del (· = h) ρ cs cs' := by
  subst hc
  apply ColsFollow.map
  intro c _
  refine ⟨rfl, rfl, ?_⟩
  intro y ⟨h1, _, h3⟩
  have : half ρ y = corr2 (2 * h + 1) y := by
    rw [← half_corr1 h y h3]; unfold half; rw [hρ _ h1 h3]
  rw [this]
  exact getElem?_erasePair_corr2 c.vals h y h3

/-- exchange slots `a` and `b` of a kind -/
theorem KindOK.swap {n n' : Nat} {del del' : List Bool} {cs cs' : List Col} {a b : Nat}
    (ha : a < n) (hb : b < n) (hl : del.length = n) (hcl : ∀ c ∈ cs, c.vals.length = n)
    (hn : n' = n) (hd : del' = swapAt del a b) (hc : cs' = cs.map (·.swap a b)) :
    KindOK n del none n' del' (relabelId a b) cs cs' := by
  subst hn hd hc
  have hget : ∀ x, (swapAt del a b).getD (relabelId a b x) false = del.getD x false := by
    intro x
    rw [List.getD_eq_getElem?_getD, List.getD_eq_getElem?_getD,
      getElem?_swapAt_relabelId del a b x (by omega) (by omega)]
  refine ⟨?_, ?_, ?_, ?_⟩
  · intro x ⟨h1, h2, _⟩
    exact ⟨relabelId_lt ha hb h1, by rw [hget]; exact h2⟩
  · intro x y _ _ e
    rw [← relabelId_invol a b x, ← relabelId_invol a b y, e]
  · intro y h1 h2
    refine ⟨relabelId a b y, ⟨relabelId_lt ha hb h1, ?_, fun f => f⟩, relabelId_invol a b y⟩
    rw [← hget, relabelId_invol]; exact h2
  · apply ColsFollow.map
    intro c hcm
    refine ⟨rfl, rfl, ?_⟩
    intro x _
    have := hcl c hcm
    exact getElem?_swapAt_relabelId c.vals a b x (by omega) (by omega)

theorem HalfOK.swap {n : Nat} {del : List Bool} {cs cs' : List Col} {a b : Nat}
    (ha : a < n) (hb : b < n) (hcl : ∀ c ∈ cs, c.vals.length = 2 * n)
    (hc : cs' = cs.map (fun c => (c.swap (2 * a) (2 * b)).swap (2 * a + 1) (2 * b + 1))) :
    HalfOK n del none (relabelId a b) cs cs' := by
  subst hc
  apply ColsFollow.map
  intro c hcm
  refine ⟨rfl, rfl, ?_⟩
  intro y _
  have := hcl c hcm
  rw [half_relabelId]
  exact getElem?_swapPair_relabelHalf c.vals a b y (by omega) (by omega)

/-- flag slot `h` of a kind -/
theorem KindOK.flag {n n' : Nat} {del del' : List Bool} {cs cs' : List Col} {h : Nat} (hh : h < del.length)
    (hn : n' = n) (hd : del' = del.set h true) (hc : cs' = cs) : KindOK n del (· = h) n' del' id cs cs' := by
  subst hn hd hc
  have hget : ∀ x, x ≠ h → (del.set h true).getD x false = del.getD x false := by
    intro x hx
    rw [List.getD_eq_getElem?_getD, List.getD_eq_getElem?_getD, List.getElem?_set_ne (Ne.symm hx)]
  refine ⟨?_, fun _ _ _ _ e => e, ?_, ColsFollow.refl _ _⟩
  · intro x ⟨h1, h2, h3⟩
    exact ⟨h1, by rw [id, hget x h3]; exact h2⟩
  · intro y h1 h2
    have hy : y ≠ h := by
      intro e
      subst e
      rw [List.getD_eq_getElem?_getD] at h2
      simp [hh] at h2
    exact ⟨y, ⟨h1, by rw [← hget y hy]; exact h2, hy⟩, rfl⟩

/-! ### kernel steps -/

theorem liveC_of_surv {k : Kernel} {S : Rem} {x : Nat} (h : SurvC k S x) : k.liveC x = true := by
  have h1 := h.1; have h2 := h.2.1
  unfold liveC cDeleted Kernel.nC; rw [h2]; simpa using h1
theorem liveF_of_surv {k : Kernel} {S : Rem} {x : Nat} (h : SurvF k S x) : k.liveF x = true := by
  have h1 := h.1; have h2 := h.2.1
  unfold liveF fDeleted Kernel.nF; rw [h2]; simpa using h1
theorem liveE_of_surv {k : Kernel} {S : Rem} {x : Nat} (h : SurvE k S x) : k.liveE x = true := by
  have h1 := h.1; have h2 := h.2.1
  unfold liveE eDeleted Kernel.nE; rw [h2]; simpa using h1

/-- a step that renumbers nothing and changes no definition array and no column -/
theorem of_id {a a' : Kernel} {S : Rem} (he : a'.edges = a.edges) (hf : a'.faces = a.faces) (hc : a'.cells = a.cells)
    (hp : a'.props = a.props)
    (kv : KindOK a.nV a.vDel S.v a'.nV a'.vDel id a.props.v a'.props.v)
    (ke : KindOK a.edges.length a.eDel S.e a'.edges.length a'.eDel id a.props.e a'.props.e)
    (kf : KindOK a.faces.length a.fDel S.f a'.faces.length a'.fDel id a.props.f a'.props.f)
    (kc : KindOK a.cells.length a.cDel S.c a'.cells.length a'.cDel id a.props.c a'.props.c) :
    LogMinus a a' Ren.id S := by
  refine ⟨kv, ke, kf, kc, HalfOK.id_of_eq (by rw [hp]), HalfOK.id_of_eq (by rw [hp]), ?_, ?_, ?_, by rw [hp]⟩
  · intro x _; unfold edgeAt; rw [he]; rfl
  · intro x _; unfold faceAt; rw [hf]; show _ = List.map (half id) _; rw [half_id]; simp [Ren.id]
  · intro x _; unfold cellAt; rw [hc]; show _ = List.map (half id) _; rw [half_id]; simp [Ren.id]

/-- flag one cell / face / edge / vertex (deferred `delete_*_core`; the un-linking touches caches only) -/
theorem of_flagC {a a' : Kernel} {h : Nat} (hh : h < a.cDel.length) (nV : a'.nV = a.nV) (he : a'.edges = a.edges)
    (hf : a'.faces = a.faces) (hc : a'.cells = a.cells) (vd : a'.vDel = a.vDel) (ed : a'.eDel = a.eDel)
    (fd : a'.fDel = a.fDel) (cd : a'.cDel = a.cDel.set h true) (hp : a'.props = a.props) :
    LogMinus a a' Ren.id ⟨none, none, none, (· = h)⟩ :=
  of_id he hf hc hp (KindOK.id_of_eq nV vd (by rw [hp])) (KindOK.id_of_eq (by rw [he]) ed (by rw [hp]))
    (KindOK.id_of_eq (by rw [hf]) fd (by rw [hp])) (KindOK.flag hh (by rw [hc]) cd (by rw [hp]))

theorem of_flagF {a a' : Kernel} {h : Nat} (hh : h < a.fDel.length) (nV : a'.nV = a.nV) (he : a'.edges = a.edges)
    (hf : a'.faces = a.faces) (hc : a'.cells = a.cells) (vd : a'.vDel = a.vDel) (ed : a'.eDel = a.eDel)
    (fd : a'.fDel = a.fDel.set h true) (cd : a'.cDel = a.cDel) (hp : a'.props = a.props) :
    LogMinus a a' Ren.id ⟨none, none, (· = h), none⟩ :=
  of_id he hf hc hp (KindOK.id_of_eq nV vd (by rw [hp])) (KindOK.id_of_eq (by rw [he]) ed (by rw [hp]))
    (KindOK.flag hh (by rw [hf]) fd (by rw [hp])) (KindOK.id_of_eq (by rw [hc]) cd (by rw [hp]))

theorem of_flagE {a a' : Kernel} {h : Nat} (hh : h < a.eDel.length) (nV : a'.nV = a.nV) (he : a'.edges = a.edges)
    (hf : a'.faces = a.faces) (hc : a'.cells = a.cells) (vd : a'.vDel = a.vDel) (ed : a'.eDel = a.eDel.set h true)
    (fd : a'.fDel = a.fDel) (cd : a'.cDel = a.cDel) (hp : a'.props = a.props) :
    LogMinus a a' Ren.id ⟨none, (· = h), none, none⟩ :=
  of_id he hf hc hp (KindOK.id_of_eq nV vd (by rw [hp])) (KindOK.flag hh (by rw [he]) ed (by rw [hp]))
    (KindOK.id_of_eq (by rw [hf]) fd (by rw [hp])) (KindOK.id_of_eq (by rw [hc]) cd (by rw [hp]))

theorem of_flagV {a a' : Kernel} {h : Nat} (hh : h < a.vDel.length) (nV : a'.nV = a.nV) (he : a'.edges = a.edges)
    (hf : a'.faces = a.faces) (hc : a'.cells = a.cells) (vd : a'.vDel = a.vDel.set h true) (ed : a'.eDel = a.eDel)
    (fd : a'.fDel = a.fDel) (cd : a'.cDel = a.cDel) (hp : a'.props = a.props) :
    LogMinus a a' Ren.id ⟨(· = h), none, none, none⟩ :=
  of_id he hf hc hp (KindOK.flag hh nV vd (by rw [hp])) (KindOK.id_of_eq (by rw [he]) ed (by rw [hp]))
    (KindOK.id_of_eq (by rw [hf]) fd (by rw [hp])) (KindOK.id_of_eq (by rw [hc]) cd (by rw [hp]))

/-- erase cell slot `h` (`Global.EraseC`): nothing is stored above cells -/
theorem of_eraseC {a a' : Kernel} {h : Nat} {ρc : Nat → Nat} (p : Global.EraseC a a' h) (hh : h < a.cells.length)
    (hρ : ∀ x, x < a.cells.length → x ≠ h → ρc x = corr1 h x) :
    LogMinus a a' ⟨id, id, id, ρc⟩ ⟨none, none, none, (· = h)⟩ := by
  refine ⟨KindOK.id_of_eq p.nV p.vDel (by rw [p.props]; rfl), KindOK.id_of_eq (by rw [p.edges]) p.eDel (by rw [p.props]; rfl),
    KindOK.id_of_eq (by rw [p.faces]) p.fDel (by rw [p.props]; rfl),
    KindOK.erase hh (by rw [p.cells, List.length_eraseIdx, if_pos hh]) p.cDel (by rw [p.props]; rfl) hρ,
    HalfOK.id_of_eq (by rw [p.props]; rfl), HalfOK.id_of_eq (by rw [p.props]; rfl), ?_, ?_, ?_, by rw [p.props]; rfl⟩
  · intro x _; unfold edgeAt; rw [p.edges]; rfl
  · intro x _; unfold faceAt; rw [p.faces]; show _ = List.map (half id) _; rw [half_id]; simp
  · intro x ⟨h1, _, h3⟩
    show a'.cellAt (ρc x) = (a.cellAt x).map (half id)
    rw [half_id, List.map_id, hρ x h1 h3]; unfold cellAt; rw [p.cells, getD_eraseIdx_corr1 _ _ _ _ h3]

/-- erase face slot `h` (`Global.EraseF`); `hg`: the renaming of the live cell definitions is `half ρf` -/
theorem of_eraseF {a a' : Kernel} {h : Nat} {g : List Nat → List Nat} {ρf : Nat → Nat} (p : Global.EraseF a a' h g)
    (hh : h < a.faces.length) (hρ : ∀ x, x < a.faces.length → x ≠ h → ρf x = corr1 h x)
    (hg : ∀ c, a.liveC c = true → g (a.cellAt c) = (a.cellAt c).map (half ρf)) :
    LogMinus a a' ⟨id, id, ρf, id⟩ ⟨none, none, (· = h), none⟩ := by
  refine ⟨KindOK.id_of_eq p.nV p.vDel (by rw [p.props]; rfl), KindOK.id_of_eq (by rw [p.edges]) p.eDel (by rw [p.props]; rfl),
    KindOK.erase hh (by rw [p.faces, List.length_eraseIdx, if_pos hh]) p.fDel (by rw [p.props]; rfl) hρ,
    KindOK.id_of_eq p.nC p.cDel (by rw [p.props]; rfl),
    HalfOK.id_of_eq (by rw [p.props]; rfl), HalfOK.erase (by rw [p.props]; rfl) hρ, ?_, ?_, ?_, by rw [p.props]; rfl⟩
  · intro x _; unfold edgeAt; rw [p.edges]; rfl
  · intro x ⟨h1, _, h3⟩
    show a'.faceAt (ρf x) = (a.faceAt x).map (half id)
    rw [half_id, List.map_id, hρ x h1 h3]; unfold faceAt; rw [p.faces, getD_eraseIdx_corr1 _ _ _ _ h3]
  · intro x hx
    have hl := liveC_of_surv hx
    show a'.cellAt x = _
    rw [p.cellAt x hl, hg x hl]

/-- erase edge slot `h` (`Global.EraseE`) -/
theorem of_eraseE {a a' : Kernel} {h : Nat} {g : List Nat → List Nat} {ρe : Nat → Nat} (p : Global.EraseE a a' h g)
    (hh : h < a.edges.length) (hρ : ∀ x, x < a.edges.length → x ≠ h → ρe x = corr1 h x)
    (hg : ∀ f, a.liveF f = true → g (a.faceAt f) = (a.faceAt f).map (half ρe)) :
    LogMinus a a' ⟨id, ρe, id, id⟩ ⟨none, (· = h), none, none⟩ := by
  refine ⟨KindOK.id_of_eq p.nV p.vDel (by rw [p.props]; rfl),
    KindOK.erase hh (by rw [p.edges, List.length_eraseIdx, if_pos hh]) p.eDel (by rw [p.props]; rfl) hρ,
    KindOK.id_of_eq p.nF p.fDel (by rw [p.props]; rfl), KindOK.id_of_eq (by rw [p.cells]) p.cDel (by rw [p.props]; rfl),
    HalfOK.erase (by rw [p.props]; rfl) hρ, HalfOK.id_of_eq (by rw [p.props]; rfl), ?_, ?_, ?_, by rw [p.props]; rfl⟩
  · intro x ⟨h1, _, h3⟩
    show a'.edgeAt (ρe x) = _
    rw [hρ x h1 h3]; unfold edgeAt; rw [p.edges, getD_eraseIdx_corr1 _ _ _ _ h3]; rfl
  · intro x hx
    have hl := liveF_of_surv hx
    show a'.faceAt x = _
    rw [p.faceAt x hl, hg x hl]
  · intro x _; unfold cellAt; rw [p.cells]; show _ = List.map (half id) _; rw [half_id]; simp

/-- erase vertex slot `h` (`Global.EraseV`) -/
theorem of_eraseV {a a' : Kernel} {h : Nat} {g : Nat × Nat → Nat × Nat} {ρv : Nat → Nat} (p : Global.EraseV a a' h g)
    (hh : h < a.nV) (hρ : ∀ x, x < a.nV → x ≠ h → ρv x = corr1 h x)
    (hg : ∀ e, a.liveE e = true → g (a.edgeAt e) = (ρv (a.edgeAt e).1, ρv (a.edgeAt e).2)) :
    LogMinus a a' ⟨ρv, id, id, id⟩ ⟨(· = h), none, none, none⟩ := by
  refine ⟨KindOK.erase hh p.nV p.vDel (by rw [p.props]; rfl) hρ, KindOK.id_of_eq p.nE p.eDel (by rw [p.props]; rfl),
    KindOK.id_of_eq (by rw [p.faces]) p.fDel (by rw [p.props]; rfl), KindOK.id_of_eq (by rw [p.cells]) p.cDel (by rw [p.props]; rfl),
    HalfOK.id_of_eq (by rw [p.props]; rfl), HalfOK.id_of_eq (by rw [p.props]; rfl), ?_, ?_, ?_, by rw [p.props]; rfl⟩
  · intro x hx
    have hl := liveE_of_surv hx
    show a'.edgeAt x = _
    rw [p.edgeAt x hl, hg x hl]
  · intro x _; unfold faceAt; rw [p.faces]; show _ = List.map (half id) _; rw [half_id]; simp
  · intro x _; unfold cellAt; rw [p.cells]; show _ = List.map (half id) _; rw [half_id]; simp

/-- `swap_cell_indices a b` (cache-guided or not) is a relabeling of the logical mesh -/
theorem of_swapC {k : Kernel} {a b : Nat} (ha : a < k.nC) (hb : b < k.nC) (hab : a ≠ b) (hw : WF k) :
    LogIso k (k.swapCell a b) ⟨id, id, id, relabelId a b⟩ := by
  have e := swapCell_eq_spec (a := a) (b := b) hab hw
  have e1 : (k.swapCell a b).cells = swapAt k.cells a b := (congrArg Kernel.cells e).trans rfl
  have e2 : (k.swapCell a b).cDel = swapAt k.cDel a b := (congrArg Kernel.cDel e).trans rfl
  have e3 : (k.swapCell a b).props = swapCProps k.props a b := (congrArg Kernel.props e).trans rfl
  have e4 : (k.swapCell a b).nV = k.nV := (congrArg Kernel.nV e).trans rfl
  refine ⟨KindOK.id_of_eq e4 (swapCell_vDel k a b) (by rw [e3]; rfl),
    KindOK.id_of_eq (by rw [swapCell_edges]) (swapCell_eDel k a b) (by rw [e3]; rfl),
    KindOK.id_of_eq (by rw [swapCell_faces]) (swapCell_fDel k a b) (by rw [e3]; rfl),
    KindOK.swap ha hb hw.len.cDel hw.len.pc (by rw [e1, length_swapAt]) e2 (by rw [e3]; rfl),
    HalfOK.id_of_eq (by rw [e3]; rfl), HalfOK.id_of_eq (by rw [e3]; rfl), ?_, ?_, ?_, by rw [e3]; rfl⟩
  · intro x _; unfold edgeAt; rw [swapCell_edges]; rfl
  · intro x _; unfold faceAt; rw [swapCell_faces]; show _ = List.map (half id) _; rw [half_id]; simp
  · intro x _
    show (k.swapCell a b).cellAt (relabelId a b x) = (k.cellAt x).map (half id)
    rw [half_id, List.map_id]; unfold cellAt
    rw [e1, List.getD_eq_getElem?_getD, List.getD_eq_getElem?_getD,
      getElem?_swapAt_relabelId _ _ _ _ (by unfold Kernel.nC at ha; exact ha) (by unfold Kernel.nC at hb; exact hb)]

/-- `swap_face_indices a b` is a relabeling of the logical mesh (flagged cells may keep stale names: they are not
    part of it) -/
theorem of_swapF {k : Kernel} {a b : Nat} (ha : a < k.nF) (hb : b < k.nF) (hab : a ≠ b) (hw : WF k)
    (h1 : k.oneCell = true) : LogIso k (k.swapFace a b) ⟨id, id, relabelId a b, id⟩ := by
  obtain ⟨e, elen, ecell⟩ := swapFace_eq_spec_live ha hb hab hw (fun _ => h1)
  have e1 : (k.swapFace a b).faces = swapAt k.faces a b := (congrArg Kernel.faces e).trans rfl
  have e2 : (k.swapFace a b).fDel = swapAt k.fDel a b := (congrArg Kernel.fDel e).trans rfl
  have e3 : (k.swapFace a b).props = swapFProps k.props a b := (congrArg Kernel.props e).trans rfl
  have e4 : (k.swapFace a b).nV = k.nV := (congrArg Kernel.nV e).trans rfl
  refine ⟨KindOK.id_of_eq e4 (swapFace_vDel k a b) (by rw [e3]; rfl),
    KindOK.id_of_eq (by rw [swapFace_edges]) (swapFace_eDel k a b) (by rw [e3]; rfl),
    KindOK.swap ha hb hw.len.fDel hw.len.pf (by rw [e1, length_swapAt]) e2 (by rw [e3]; rfl),
    KindOK.id_of_eq elen (swapFace_cDel k a b) (by rw [e3]; rfl),
    HalfOK.id_of_eq (by rw [e3]; rfl), HalfOK.swap ha hb hw.len.phf (by rw [e3]; rfl), ?_, ?_, ?_, by rw [e3]; rfl⟩
  · intro x _; unfold edgeAt; rw [swapFace_edges]; rfl
  · intro x _
    show (k.swapFace a b).faceAt (relabelId a b x) = (k.faceAt x).map (half id)
    rw [half_id, List.map_id]; unfold faceAt
    rw [e1, List.getD_eq_getElem?_getD, List.getD_eq_getElem?_getD,
      getElem?_swapAt_relabelId _ _ _ _ (by unfold Kernel.nF at ha; exact ha) (by unfold Kernel.nF at hb; exact hb)]
  · intro x hx
    show (k.swapFace a b).cellAt x = (k.cellAt x).map (half (relabelId a b))
    rw [ecell x (fun _ => liveC_of_surv hx)]
    unfold relabelFaceSpec cellAt
    simp only []
    rw [k3_getD_map _ _ _ rfl]
    congr 1; funext y; exact (half_relabelId a b y).symm

/-- `swap_edge_indices a b` is a relabeling of the logical mesh -/
theorem of_swapE {k : Kernel} {a b : Nat} (ha : a < k.nE) (hb : b < k.nE) (hab : a ≠ b) (hw : WF k) :
    LogIso k (k.swapEdge a b) ⟨id, relabelId a b, id, id⟩ := by
  obtain ⟨e, elen, eface⟩ := swapEdge_eq_spec_live ha hb hab hw
  have e1 : (k.swapEdge a b).edges = swapAt k.edges a b := (congrArg Kernel.edges e).trans rfl
  have e2 : (k.swapEdge a b).eDel = swapAt k.eDel a b := (congrArg Kernel.eDel e).trans rfl
  have e3 : (k.swapEdge a b).props = swapEProps k.props a b := (congrArg Kernel.props e).trans rfl
  have e4 : (k.swapEdge a b).nV = k.nV := (congrArg Kernel.nV e).trans rfl
  refine ⟨KindOK.id_of_eq e4 (swapEdge_vDel k a b) (by rw [e3]; rfl),
    KindOK.swap ha hb hw.len.eDel hw.len.pe (by rw [e1, length_swapAt]) e2 (by rw [e3]; rfl),
    KindOK.id_of_eq elen (swapEdge_fDel k a b) (by rw [e3]; rfl),
    KindOK.id_of_eq (by rw [swapEdge_cells]) (swapEdge_cDel k a b) (by rw [e3]; rfl),
    HalfOK.swap ha hb hw.len.phe (by rw [e3]; rfl), HalfOK.id_of_eq (by rw [e3]; rfl), ?_, ?_, ?_, by rw [e3]; rfl⟩
  · intro x _
    show (k.swapEdge a b).edgeAt (relabelId a b x) = _
    unfold edgeAt
    rw [e1, List.getD_eq_getElem?_getD, List.getD_eq_getElem?_getD,
      getElem?_swapAt_relabelId _ _ _ _ (by unfold Kernel.nE at ha; exact ha) (by unfold Kernel.nE at hb; exact hb)]
    rfl
  · intro x hx
    show (k.swapEdge a b).faceAt x = (k.faceAt x).map (half (relabelId a b))
    rw [eface x (fun _ => liveF_of_surv hx)]
    unfold relabelEdgeSpec faceAt
    simp only []
    rw [k3_getD_map _ _ _ rfl]
    congr 1; funext y; exact (half_relabelId a b y).symm
  · intro x _; unfold cellAt; rw [swapEdge_cells]; show _ = List.map (half id) _; rw [half_id]; simp

/-- `swap_vertex_indices a b` is a relabeling of the logical mesh -/
theorem of_swapV {k : Kernel} {a b : Nat} (ha : a < k.nV) (hb : b < k.nV) (hab : a ≠ b) (hw : WF k) :
    LogIso k (k.swapVertex a b) ⟨relabelId a b, id, id, id⟩ := by
  obtain ⟨e, elen, eedge⟩ := swapVertex_eq_spec_live ha hb hab hw
  have e2 : (k.swapVertex a b).vDel = swapAt k.vDel a b := (congrArg Kernel.vDel e).trans rfl
  have e3 : (k.swapVertex a b).props = swapVProps k.props a b := (congrArg Kernel.props e).trans rfl
  have e4 : (k.swapVertex a b).nV = k.nV := (congrArg Kernel.nV e).trans rfl
  have e5 : (k.swapVertex a b).faces = k.faces := (congrArg Kernel.faces e).trans rfl
  have e6 : (k.swapVertex a b).cells = k.cells := (congrArg Kernel.cells e).trans rfl
  refine ⟨KindOK.swap ha hb hw.len.vDel hw.len.pv e4 e2 (by rw [e3]; rfl),
    KindOK.id_of_eq elen (swapVertex_eDel k a b) (by rw [e3]; rfl),
    KindOK.id_of_eq (by rw [e5]) (swapVertex_fDel k a b) (by rw [e3]; rfl),
    KindOK.id_of_eq (by rw [e6]) (swapVertex_cDel k a b) (by rw [e3]; rfl),
    HalfOK.id_of_eq (by rw [e3]; rfl), HalfOK.id_of_eq (by rw [e3]; rfl), ?_, ?_, ?_, by rw [e3]; rfl⟩
  · intro x hx
    show (k.swapVertex a b).edgeAt x = _
    rw [eedge x hx.1 (fun _ => liveE_of_surv hx)]
    unfold relabelVertexSpec edgeAt
    have hx1 : x < k.edges.length := hx.1
    simp [List.getD_eq_getElem?_getD, List.getElem?_eq_getElem hx1, relabelEdgeV]
  · intro x _; unfold faceAt; rw [e5]; show _ = List.map (half id) _; rw [half_id]; simp
  · intro x _; unfold cellAt; rw [e6]; show _ = List.map (half id) _; rw [half_id]; simp

end Logical
end Kernel
end OVM

import OVM.Refine.GlobalQueries
import OVM.Props.C08
/-
  vertex → cells needs more than `GInv`: with an unchecked `add_face` a stored face need not be a closed loop, and
  a cell whose halfface touches a vertex only with the END of a halfedge is not found through
  `outgoing halfedges → halffaces → incident cell`.  `FaceCyc`: in every live face each halfedge is followed and
  preceded by a halfedge of the face (what `add_face` with topology check and `add_face(vertices)` establish:
  `C08.ClosedLoop`).  Under `GInv ∧ FaceCyc`: `qVC = sVC`.
-/
namespace OVM
namespace Kernel
namespace Global
open ScanDel

/-- every live face is cyclically connected: each of its halfedges ends where another one starts and starts
    where another one ends -/
def FaceCyc (k : Kernel) : Prop :=
  ∀ f, k.liveF f = true → ∀ x ∈ k.faceAt f,
    (∃ y ∈ k.faceAt f, k.fromV y = k.toV x) ∧ (∃ z ∈ k.faceAt f, k.toV z = k.fromV x)

theorem getD_mem0 {l : List Nat} {i : Nat} (h : i < l.length) : l.getD i 0 ∈ l := by
  rw [List.getD_eq_getElem?_getD, List.getElem?_eq_getElem h]; exact List.getElem_mem h

/-- a closed loop (what the topology check of `add_face` accepts, Props/C11 `faceLoopOk_iff`) is cyclically connected -/
theorem cyc_of_closedLoop {k : Kernel} {hes : List Nat} (hc : Props.C08.ClosedLoop k hes) :
    ∀ x ∈ hes, (∃ y ∈ hes, k.fromV y = k.toV x) ∧ (∃ z ∈ hes, k.toV z = k.fromV x) := by
  obtain ⟨hne, hcl⟩ := hc
  intro x hx
  obtain ⟨i, hi, rfl⟩ := List.getElem_of_mem hx
  have hpos : 0 < hes.length := by omega
  have hxi : hes[i] = hes.getD i 0 := by rw [List.getD_eq_getElem?_getD, List.getElem?_eq_getElem hi]; rfl
  constructor
  · refine ⟨hes.getD ((i + 1) % hes.length) 0, getD_mem0 (Nat.mod_lt _ hpos), ?_⟩
    rw [hxi]; exact (hcl i hi).symm
  · -- predecessor index
    refine ⟨hes.getD ((i + hes.length - 1) % hes.length) 0, getD_mem0 (Nat.mod_lt _ hpos), ?_⟩
    have := hcl ((i + hes.length - 1) % hes.length) (Nat.mod_lt _ hpos)
    rw [this, hxi]
    congr 2
    by_cases h0 : i = 0
    · subst h0
      rw [Nat.zero_add, Nat.mod_eq_of_lt (by omega : hes.length - 1 < hes.length),
        show hes.length - 1 + 1 = hes.length by omega, Nat.mod_self]
    · have e1 : (i + hes.length - 1) % hes.length = i - 1 := by
        rw [show i + hes.length - 1 = (i - 1) + hes.length by omega, Nat.add_mod_right, Nat.mod_eq_of_lt (by omega)]
      rw [e1, show i - 1 + 1 = i by omega, Nat.mod_eq_of_lt hi]

theorem liveE_of_face {k : Kernel} (hw : WF k) (hc : Closed k) {f x : Nat} (hl : k.liveF f = true)
    (hx : x ∈ k.faceAt f) : k.liveE (eOf x) = true := by
  have hd := hc.e f hl x hx
  have := hw.range.faces _ (faceAt_mem_faces (liveF_lt hl)) x hx
  unfold Kernel.liveE; rw [hd]
  have : eOf x < k.nE := by unfold Kernel.nHE Kernel.nE eOf at *; omega
  simp [this]

/-- under `FaceCyc` a live face that touches `v` has, on EACH of its two halffaces, a live halfedge leaving `v` -/
theorem touches_iff_out {k : Kernel} (hw : WF k) (hc : Closed k) (hy : FaceCyc k) {hf : Nat}
    (hl : k.liveF (eOf hf) = true) (v : Nat) :
    k.faceTouchesV (eOf hf) v = true ↔ ∃ h, h ∈ k.sOut v ∧ h ∈ k.hfHes hf := by
  constructor
  · intro ht
    unfold faceTouchesV at ht
    rw [List.any_eq_true] at ht
    obtain ⟨x, hx, hp⟩ := ht
    simp only [Bool.or_eq_true, beq_iff_eq] at hp
    -- a halfedge of the face starting at v, and one ending at v
    have hstart : ∃ y ∈ k.faceAt (eOf hf), k.fromV y = v := by
      rcases hp with hp | hp
      · exact ⟨x, hx, hp⟩
      · obtain ⟨y, hy1, hy2⟩ := (hy _ hl x hx).1; exact ⟨y, hy1, by rw [hy2, hp]⟩
    have hend : ∃ z ∈ k.faceAt (eOf hf), k.toV z = v := by
      rcases hp with hp | hp
      · obtain ⟨z, hz1, hz2⟩ := (hy _ hl x hx).2; exact ⟨z, hz1, by rw [hz2, hp]⟩
      · exact ⟨x, hx, hp⟩
    rcases half_cases hf with e | e
    · obtain ⟨y, hy1, hy2⟩ := hstart
      exact ⟨y, (mem_sOut_iff k v y).mpr ⟨liveE_of_face hw hc hl hy1, hy2⟩, (mem_hfHes_iff k hf y).mpr (Or.inl ⟨e, hy1⟩)⟩
    · obtain ⟨z, hz1, hz2⟩ := hend
      refine ⟨opp z, (mem_sOut_iff k v _).mpr ⟨by rw [eOf_opp]; exact liveE_of_face hw hc hl hz1, by rw [Lookup.fromV_opp]; exact hz2⟩,
        (mem_hfHes_iff k hf _).mpr (Or.inr ⟨e, by rw [opp_opp]; exact hz1⟩)⟩
  · rintro ⟨h, hs, hm⟩
    apply (faceTouchesV_iff hw hc hl v).mpr
    rcases (mem_hfHes_iff k hf h).mp hm with ⟨_, m⟩ | ⟨_, m⟩
    · exact ⟨h, hs, Or.inl m⟩
    · exact ⟨h, hs, Or.inr m⟩

/-- **vertex → cells**: the ascending list of the live cells with a live halfface touching the vertex -/
theorem qVC_exact {k : Kernel} (hw : WF k) (h1 : k.oneCell = true) (hc : Closed k) (hy : FaceCyc k)
    (hv : k.vBU = true) (he : k.eBU = true) (hb : k.fBU = true) {v : Nat} (hlt : v < k.nV) : k.qVC v = k.sVC v := by
  unfold qVC sVC fullBU
  simp only [hv, he, hb, Bool.and_self, if_true]
  apply sortUniq_eq_of_mem ((liveCells_pairwise k).filter _)
  intro c
  rw [List.mem_filterMap, List.mem_filter, mem_liveCells, List.any_eq_true]
  have hperm := (hw.cache.v hv).2 v hlt
  have hlt' : ∀ h, h ∈ k.sOut v → h < k.nHE := fun h hm => by
    have hl := (mem_sOut hm).2
    unfold Kernel.liveE at hl; simp at hl
    have := hl.1; unfold Kernel.nHE Kernel.nE eOf at *; omega
  constructor
  · rintro ⟨hf, hm, hco⟩
    rw [List.mem_flatMap] at hm
    obtain ⟨h, hh, hhf⟩ := hm
    have hs := hperm.mem_iff.mp hh
    obtain ⟨hlf, hmem⟩ := (mem_hfsOf_iff hw he (hlt' h hs) hf).mp hhf
    have hx : hf < k.nHF := by have := liveF_lt hlf; unfold Kernel.nHF Kernel.nF eOf at *; omega
    obtain ⟨hl, hin⟩ := (cellOf_eq_some_iff hw h1 hb hx c).mp hco
    exact ⟨hl, hf, hin, by simp only [Bool.and_eq_true]; exact ⟨hlf, (touches_iff_out hw hc hy hlf v).mpr ⟨h, hs, hmem⟩⟩⟩
  · rintro ⟨hl, hf, hin, hp⟩
    simp only [Bool.and_eq_true] at hp
    obtain ⟨h, hs, hmem⟩ := (touches_iff_out hw hc hy hp.1 v).mp hp.2
    have hx : hf < k.nHF := hw.range.cells _ (cellAt_mem_cells (liveC_lt hl)) hf hin
    exact ⟨hf, List.mem_flatMap.mpr ⟨h, hperm.mem_iff.mpr hs, (mem_hfsOf_iff hw he (hlt' h hs) hf).mpr ⟨hp.1, hmem⟩⟩,
      (cellOf_eq_some_iff hw h1 hb hx c).mpr ⟨hl, hin⟩⟩

end Global
end Kernel
end OVM

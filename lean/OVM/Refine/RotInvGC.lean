import OVM.Refine.RotInvEraseInst
/-
  RotInv, part 9 (builder R1): `collect_garbage`.  Each sweep step un-flags the entity and calls the immediate
  core on it (fast mode: after swapping it to the last slot).  The unlink stage finds nothing to unlink and only
  re-runs `reorder` on the edges of the dead entity; the erase stage removes a slot nothing refers to.
-/
namespace OVM
namespace Kernel
namespace Rot
open Fan CellCheck ScanDel

/-! ### `reorder` does not see the flag of a cell that nothing is linked to (general form) -/
def modC (k : Kernel) (D : List Bool) (n : Nat) : Kernel := { k with cDel := D, nDelC := n }

theorem reorder_modC {k : Kernel} (D : List Bool) (n e : Nat)
    (hno : ∀ x c, k.cellOf x = some c → D.getD c false = k.cDel.getD c false) :
    (modC k D n).reorder e = modC (k.reorder e) D n := by
  have hB : ∀ x, (modC k D n).hfOnBoundaryOrDeleted x = k.hfOnBoundaryOrDeleted x := by
    intro x
    unfold hfOnBoundaryOrDeleted
    have : (modC k D n).cellOf x = k.cellOf x := rfl
    rw [this]
    cases hc : k.cellOf x with
    | none => rfl
    | some c => exact hno x c hc
  have hA : ∀ x y, (modC k D n).adjHalffaceInCell x y = k.adjHalffaceInCell x y := fun _ _ => rfl
  have hL : (modC k D n).reorderList e = k.reorderList e := by
    unfold reorderList
    simp only [walkFwd_congr hB hA, walkBwd_congr hB hA]
    rfl
  unfold reorder
  rw [hL]
  split <;> rfl

theorem foldl_reorder_modC (D : List Bool) (n : Nat) (es : List Nat) : ∀ (k : Kernel),
    (∀ x c, k.cellOf x = some c → D.getD c false = k.cDel.getD c false) →
    es.foldl reorder (modC k D n) = modC (es.foldl reorder k) D n := by
  induction es with
  | nil => intro k _; rfl
  | cons e t ih =>
    intro k hno
    simp only [List.foldl_cons]
    rw [reorder_modC D n e hno]
    exact ih _ (fun x c hc => by
      have : (k.reorder e).cellOf x = k.cellOf x := by unfold cellOf; rw [reorder_incCell]
      rw [reorder_cDel]; exact hno x c (this ▸ hc))

/-! ### cells: un-flag, unlink, erase a FLAGGED cell -/
theorem rotInv_popDeadCell {K : Kernel} {h : Nat} (hdead : K.cDeleted h = true)
    (hmode : K.fast = true → h = K.nC - 1) (hw : WF K)
    (hwB : WF (((unflagC K h).unlinkCell h).eraseCell h)) (hcB : Closed (((unflagC K h).unlinkCell h).eraseCell h))
    (hi : RotInv K) : RotInv (((unflagC K h).unlinkCell h).eraseCell h) := by
  by_cases hf : K.fBU = true
  · by_cases he : K.eBU = true
    · have hn : ∀ x, K.incCell.getD x none ≠ some h := by
        intro x hx
        have := (cellOf_some_live hw.cache.f hf (x := x) (c := h) hx).2.1
        unfold liveC at this; simp [hdead] at this
      have hU : ((unflagC K h).unlinkCell h).eraseCell h =
          ((toSet (((K.cellAt h).flatMap K.hfHes).map eOf)).foldl reorder K).eraseCell h := by
        have h1 : (unflagC K h).unlinkCell h =
            modC ((toSet (((K.cellAt h).flatMap K.hfHes).map eOf)).foldl reorder K) (K.cDel.set h false) K.nDelC := by
          unfold unlinkCell
          rw [if_pos (show (unflagC K h).fBU = true from hf)]
          simp only []
          rw [show (unflagC K h).incCell = K.incCell from rfl, clearCell_noop h _ _ hn]
          rw [if_pos (show (unflagC K h).eBU = true from he)]
          show (toSet (((K.cellAt h).flatMap K.hfHes).map eOf)).foldl reorder (modC K (K.cDel.set h false) K.nDelC) = _
          exact foldl_reorder_modC (K.cDel.set h false) K.nDelC _ K (fun x c hc => by
            have hne : h ≠ c := fun e' => hn x (by unfold cellOf at hc; rw [hc, e'])
            rw [ScanDel.getD_set, if_neg (fun hh => hne hh.1)])
        rw [h1]
        generalize hX : (toSet (((K.cellAt h).flatMap K.hfHes).map eOf)).foldl reorder K = X
        have e1 : X.nDelC = K.nDelC := by rw [← hX]; simp
        have e2 : X.cDel = K.cDel := by rw [← hX]; simp
        rw [← e1, ← e2]
        exact eraseCell_flag_irrelevant X h false
      rw [hU] at hwB hcB ⊢
      refine rotInv_eraseCell_dead ?_ ?_ (wf_foldl_reorder _ K hw) hwB hcB (rotInv_foldl_reorder _ hw hi)
      · unfold cDeleted at *; rw [foldl_reorder_cDel]; exact hdead
      · intro hfa
        have : K.fast = true := by simpa using hfa
        unfold nC; rw [foldl_reorder_cells]; exact hmode this
    · exact rotInv_off (Or.inl (by simpa [unflagC] using he))
  · exact rotInv_off (Or.inr (by simpa [unflagC] using hf))

/-! ### faces: un-flag, unlink, erase a FLAGGED face -/
def modF (k : Kernel) (D : List Bool) (n : Nat) : Kernel := { k with fDel := D, nDelF := n }

theorem reorder_modF (k : Kernel) (D : List Bool) (n e : Nat) : (modF k D n).reorder e = modF (k.reorder e) D n := by
  have hL : (modF k D n).reorderList e = k.reorderList e := by
    unfold reorderList
    simp only [walkFwd_congr (k := k) (k' := modF k D n) (fun _ => rfl) (fun _ _ => rfl),
      walkBwd_congr (k := k) (k' := modF k D n) (fun _ => rfl) (fun _ _ => rfl)]
    rfl
  unfold reorder
  rw [hL]
  split <;> rfl

theorem foldl_reorder_modF (D : List Bool) (n : Nat) (es : List Nat) (k : Kernel) :
    es.foldl reorder (modF k D n) = modF (es.foldl reorder k) D n := by
  induction es generalizing k with
  | nil => rfl
  | cons e t ih => simp only [List.foldl_cons]; rw [reorder_modF, ih]

/-- removing from the slots halffaces that are in no slot does nothing -/
theorem unlinkSlots_noop (h : Nat) (X : Kernel) (he : Nat) (hab : ∀ y x, x ∈ X.hfsOf y → eOf x ≠ h) :
    unlinkSlots h X he = X := by
  have hno : ∀ s, s < 2 → ∀ a ∈ X.incHfs, removeAll a (heOf h s) = a := by
    intro s hs a ha
    apply removeAll_noop
    intro hm
    obtain ⟨y, hy, rfl⟩ := List.getElem_of_mem ha
    have : heOf h s ∈ X.hfsOf y := by
      unfold hfsOf; rw [List.getD_eq_getElem?_getD, List.getElem?_eq_getElem hy]; exact hm
    exact hab y _ this (by unfold eOf heOf; omega)
  unfold unlinkSlots
  rw [k4_modify_noop _ _ _ (hno 0 (by omega)), k4_modify_noop _ _ _ (hno 1 (by omega))]

/-- `unlinkFace` of a face whose halffaces are in no fan: the fans of its edges are re-ordered, nothing else -/
theorem unlinkFace_absent (h : Nat) : ∀ (l : List Nat) (X : Kernel), X.fBU = true → SlotMirror X →
    (∀ y x, x ∈ X.hfsOf y → eOf x ≠ h) → l.foldl (unlinkFaceStep h) X = (l.map eOf).foldl reorder X := by
  intro l
  induction l with
  | nil => intro X _ _ _; rfl
  | cons he t ih =>
    intro X hb hm hab
    simp only [List.foldl_cons, List.map_cons]
    have hstep : unlinkFaceStep h X he = X.reorder (eOf he) := by
      rw [unlinkFaceStep_eq, if_pos hb, unlinkSlots_noop h X he hab]
    rw [hstep]
    obtain ⟨hm1, hp1⟩ := slotMirror_reorder hm (eOf he)
    exact ih _ (by rw [reorder_fBU]; exact hb) hm1 (fun y x hx => hab y x ((hp1 y).mem_iff.mp hx))

theorem rotInv_popDeadFace {K : Kernel} {h : Nat} (hh : h < K.nF) (hdead : K.fDeleted h = true)
    (hmode : K.fast = true → h = K.nF - 1) (hw : WF K) (h1 : K.oneCell = true)
    (hcl : ∀ c, c < K.nC → K.cDeleted c = false) (hun : ∀ c ∈ K.cells, ∀ a ∈ c, eOf a ≠ h)
    (hwB : WF (((unflagF K h).unlinkFace h).eraseFace h)) (hcB : Closed (((unflagF K h).unlinkFace h).eraseFace h))
    (hi : RotInv K) : RotInv (((unflagF K h).unlinkFace h).eraseFace h) := by
  by_cases hf : K.fBU = true
  · by_cases he : K.eBU = true
    · have hab : ∀ y x, x ∈ K.hfsOf y → eOf x ≠ h := by
        intro y x hx e
        have := (mem_slot hw he hx).1
        rw [e] at this; unfold liveF at this; simp [hdead] at this
      have hU : ((unflagF K h).unlinkFace h).eraseFace h = (((K.faceAt h).map eOf).foldl reorder K).eraseFace h := by
        have h1 : (unflagF K h).unlinkFace h = modF (((K.faceAt h).map eOf).foldl reorder K) (K.fDel.set h false) K.nDelF := by
          unfold unlinkFace
          rw [if_pos (show (unflagF K h).eBU = true from he)]
          rw [unlinkFace_absent h _ (unflagF K h) hf (slotMirror_of_eq (k := K) rfl (slotMirror_of_cacheInvE hw.cache.e he)) hab]
          exact foldl_reorder_modF (K.fDel.set h false) K.nDelF _ K
        rw [h1]
        generalize hX : ((K.faceAt h).map eOf).foldl reorder K = X
        have e1 : X.nDelF = K.nDelF := by rw [← hX]; simp
        have e2 : X.fDel = K.fDel := by rw [← hX]; simp
        rw [← e1, ← e2]
        exact eraseFace_flag_irrelevant X h false
      rw [hU] at hwB hcB ⊢
      refine rotInv_eraseFace_dead ?_ ?_ ?_ (wf_foldl_reorder _ K hw) ?_ ?_ ?_ hwB hcB (rotInv_foldl_reorder _ hw hi)
      · unfold nF; rw [foldl_reorder_faces]; exact hh
      · unfold fDeleted at *; rw [foldl_reorder_fDel]; exact hdead
      · intro hfa
        have : K.fast = true := by simpa using hfa
        unfold nF; rw [foldl_reorder_faces]; exact hmode this
      · exact (oneCell_congr K _ (by simp) (by simp) (by simp)).trans h1
      · intro c hc
        unfold cDeleted nC at *; rw [foldl_reorder_cDel]; rw [foldl_reorder_cells] at hc; exact hcl c hc
      · rw [foldl_reorder_cells]; exact hun
    · exact rotInv_off (Or.inl (by simpa [unflagF] using he))
  · exact rotInv_off (Or.inr (by simpa [unflagF] using hf))

/-! ### edges: un-flag, unlink, erase a FLAGGED edge -/
theorem rotInv_popDeadEdge {K : Kernel} {h : Nat} (hh : h < K.nE) (hdead : K.eDeleted h = true)
    (hmode : K.fast = true → h = K.nE - 1) (hw : WF K)
    (hfl : ∀ f, f < K.nF → K.fDeleted f = false) (hun : ∀ f ∈ K.faces, ∀ a ∈ f, eOf a ≠ h)
    (hwB : WF (((unflagE K h).unlinkEdge h).eraseEdge h)) (hcB : Closed (((unflagE K h).unlinkEdge h).eraseEdge h))
    (hi : RotInv K) : RotInv (((unflagE K h).unlinkEdge h).eraseEdge h) := by
  have hn : (unflagE K h).vBU = true → ∀ l ∈ (unflagE K h).outHes, ∀ x ∈ l, eOf x ≠ h := by
    intro hb l hl x hx e
    have hb' : K.vBU = true := hb
    obtain ⟨hlen, hs⟩ := hw.cache.v hb'
    obtain ⟨v, hv, rfl⟩ := List.getElem_of_mem hl
    have hv' : v < K.nV := by rw [← hlen]; exact hv
    have hv2 : v < K.outHes.length := hv
    have hx' : x ∈ K.outOf v := by
      unfold outOf; rw [List.getD_eq_getElem?_getD, List.getElem?_eq_getElem hv2]; exact hx
    have := (mem_sOut ((hs v hv').mem_iff.mp hx')).2
    rw [e] at this; unfold liveE at this; simp [hdead] at this
  have hU : ((unflagE K h).unlinkEdge h).eraseEdge h = K.eraseEdge h := by
    rw [unlinkEdge_unlinked (k := unflagE K h) h hn]
    exact eraseEdge_flag_irrelevant K h false
  rw [hU] at hwB hcB ⊢
  exact rotInv_eraseEdge_dead hh hdead hmode hw hfl hun hwB hcB hi

end Rot
end Kernel
end OVM

import OVM.Refine.LogicalRead
/-
  C04 — a LIST of deletions: "deferred deletions, then `collect_garbage`" = "the same deletions performed immediately".

  The two runs name entities differently from the second call on: in deferred mode handles are stable (nothing moves
  until `collect_garbage`), in immediate mode every deletion renumbers.  A request list `ds : List Req` is therefore
  written in the handles of the START state `k0`; a *tracked run* (`TrackedRun`) carries, next to the current state,
  the renumbering `σ` from `k0`'s handles to the current ones and the set `R` of `k0`'s entities removed so far; the
  request `d` is executed as `d.map σ` (its handle read through `σ`), skipped when its entity is already gone
  (`d.inRem R`: removed by the cascade of an earlier request; `delete_*` asserts `!is_deleted(_h)`,
  TopologyKernel.cc:629/681/724/755) or was never live in `k0`.  Every executed step exhibits a renumbering `ρ` of
  that one deletion (`LogMinus cur (delete cur) ρ (closure of the victim in cur)` — the relation
  `deletion_removes_exactly_the_closure` proves for the real renumbering of every mode); the theorems hold for EVERY
  such choice.

    `tracked_spec`      any tracked run ends in the logical mesh of `k0` minus `R ∪ cloSet k0 ds`, where `cloSet` is the
                        union of the upward closures — computed in `k0` — of the requested live entities
                        (the key step: `clo_transport`, the closure of a survivor read through `σ` in the current state
                        is the image of its closure in `k0`)
    `runDef`            the deferred run as a function (a request whose entity is flagged already is skipped);
                        `runDef_tracked`: it is a tracked run with `σ = id` throughout
    `tracked_exists`    from a `GInv` state a tracked run never gets stuck (any mode)
    `deferred_list_gc_eq_immediate`   the theorem
    `cloSet_iff_closure`  `cloSet` = upward closure of the requested set (closure of a union = union of closures)
-/
namespace OVM
namespace Kernel
namespace Logical
open ScanDel Global

/-! ### requests -/

/-- a deletion request: kind and handle -/
inductive Req where
  | cell (h : Nat)
  | face (h : Nat)
  | edge (h : Nat)
  | vertex (h : Nat)
deriving Repr, DecidableEq

namespace Req

/-- the requested entity exists and is not flagged deleted -/
def live (k : Kernel) : Req → Bool
  | cell h => k.liveC h
  | face h => k.liveF h
  | edge h => k.liveE h
  | vertex h => k.liveV h

/-- `delete_cell/face/edge/vertex` -/
def apply (k : Kernel) : Req → Kernel
  | cell h => k.deleteCell h
  | face h => k.deleteFace h
  | edge h => k.deleteEdge h
  | vertex h => k.deleteVertex h

/-- the upward closure of the requested entity, from the definitions of the live entities of `k` -/
def clo (k : Kernel) : Req → Rem
  | cell h => cloC h
  | face h => cloF k h
  | edge h => cloE k h
  | vertex h => cloV k h

/-- the request with its handle read through a renumbering -/
def map (σ : Ren) : Req → Req
  | cell h => cell (σ.c h)
  | face h => face (σ.f h)
  | edge h => edge (σ.e h)
  | vertex h => vertex (σ.v h)

/-- the requested entity belongs to the removed set -/
def inRem (R : Rem) : Req → Prop
  | cell h => R.c h
  | face h => R.f h
  | edge h => R.e h
  | vertex h => R.v h

/-- the requested entity is a survivor: live and not removed -/
def surv (k : Kernel) (R : Rem) : Req → Prop
  | cell h => SurvC k R h
  | face h => SurvF k R h
  | edge h => SurvE k R h
  | vertex h => SurvV k R h

theorem map_id (d : Req) : d.map Ren.id = d := by cases d <;> rfl

theorem surv_of_live {k : Kernel} {R : Rem} {d : Req} (hl : d.live k = true) (hr : ¬ d.inRem R) : d.surv k R := by
  cases d with
  | cell h => exact ⟨(liveC_iff.mp hl).1, (liveC_iff.mp hl).2, hr⟩
  | face h => exact ⟨(liveF_iff.mp hl).1, (liveF_iff.mp hl).2, hr⟩
  | edge h => exact ⟨(liveE_iff.mp hl).1, (liveE_iff.mp hl).2, hr⟩
  | vertex h => exact ⟨(liveV_iff.mp hl).1, (liveV_iff.mp hl).2, hr⟩

theorem live_of_surv {k : Kernel} {R : Rem} {d : Req} (h : d.surv k R) : d.live k = true ∧ ¬ d.inRem R := by
  cases d with
  | cell x => exact ⟨liveC_iff.mpr ⟨h.1, h.2.1⟩, h.2.2⟩
  | face x => exact ⟨liveF_iff.mpr ⟨h.1, h.2.1⟩, h.2.2⟩
  | edge x => exact ⟨liveE_iff.mpr ⟨h.1, h.2.1⟩, h.2.2⟩
  | vertex x => exact ⟨liveV_iff.mpr ⟨h.1, h.2.1⟩, h.2.2⟩

/-- a survivor, read through the renumbering, is live in the target -/
theorem live_map {k0 k : Kernel} {σ : Ren} {R : Rem} (s : LogMinus k0 k σ R) {d : Req} (h : d.surv k0 R) :
    (d.map σ).live k = true := by
  cases d with
  | cell x => exact liveC_iff.mpr (s.c.into x h)
  | face x => exact liveF_iff.mpr (s.f.into x h)
  | edge x => exact liveE_iff.mpr (s.e.into x h)
  | vertex x => exact liveV_iff.mpr (s.v.into x h)

/-- a live entity of the target is the image of a survivor -/
theorem surv_of_live_id {k0 k : Kernel} {R : Rem} (s : LogMinus k0 k Ren.id R) {d : Req} (h : d.live k = true) :
    d.surv k0 R := by
  cases d with
  | cell x =>
    obtain ⟨y, hy, e⟩ := s.c.onto x (liveC_iff.mp h).1 (liveC_iff.mp h).2
    have e' : y = x := e
    subst e'; exact hy
  | face x =>
    obtain ⟨y, hy, e⟩ := s.f.onto x (liveF_iff.mp h).1 (liveF_iff.mp h).2
    have e' : y = x := e
    subst e'; exact hy
  | edge x =>
    obtain ⟨y, hy, e⟩ := s.e.onto x (liveE_iff.mp h).1 (liveE_iff.mp h).2
    have e' : y = x := e
    subst e'; exact hy
  | vertex x =>
    obtain ⟨y, hy, e⟩ := s.v.onto x (liveV_iff.mp h).1 (liveV_iff.mp h).2
    have e' : y = x := e
    subst e'; exact hy

/-- **one `delete_*`, all four modes**: removes exactly the closure (builder L1's `delete*_logical`) -/
theorem logical {k : Kernel} (hi : GInv k) {d : Req} (hl : d.live k = true) :
    ∃ ρ, ModeShape k ρ ∧ LogMinus k (d.apply k) ρ (d.clo k) := by
  cases d with
  | cell x => exact deleteCell_logical hi (liveC_iff.mp hl).1
  | face x => exact deleteFace_logical hi hl
  | edge x => exact deleteEdge_logical hi hl
  | vertex x => exact deleteVertex_logical hi (liveV_iff.mp hl).1

theorem ginv {k : Kernel} (hi : GInv k) {d : Req} (hl : d.live k = true) : GInv (d.apply k) := by
  cases d with
  | cell x => exact ginv_deleteCell (liveC_iff.mp hl).1 hi
  | face x => exact ginv_deleteFace (liveF_iff.mp hl).1 hi
  | edge x => exact ginv_deleteEdge (liveE_iff.mp hl).1 hi
  | vertex x => exact ginv_deleteVertex (liveV_iff.mp hl).1 hi

/-- deferred mode: flags exactly the closure, moves nothing -/
theorem logical_def {k : Kernel} (hi : GInv k) (hd : k.deferred = true) {d : Req} (hl : d.live k = true) :
    LogMinus k (d.apply k) Ren.id (d.clo k) := by
  cases d with
  | cell x => exact deleteCell_def hi.wf hd (liveC_iff.mp hl).1
  | face x => exact deleteFace_def hi.wf hi.one hd hl
  | edge x => exact deleteEdge_def hi.wf hi.one hd hl
  | vertex x => exact deleteVertex_def hi.wf hi.one hd (liveV_iff.mp hl).1

theorem apply_deferred {k : Kernel} (hd : k.deferred = true) (d : Req) : (d.apply k).deferred = true := by
  cases d with
  | cell x => show (k.deleteCellCore x).deferred = true; rw [deleteCellCore_deferred]; exact hd
  | face x =>
    show (deleteFaceCore _ x).deferred = true
    rw [deleteFaceCore_deferred]; exact (defFoldC_frames _ k hd).1
  | edge x =>
    show (deleteEdgeCore _ x).deferred = true
    rw [deleteEdgeCore_deferred]
    exact (defFoldF_frames _ _ (defFoldC_frames _ k hd).1).1
  | vertex x =>
    show (deleteVertexCore _ x).deferred = true
    rw [deleteVertexCore_deferred]
    exact (defFoldE_frames _ _ (defFoldF_frames _ _ (defFoldC_frames _ k hd).1).1).1

end Req

/-! ### sets of removed entities: union, equality on the live slots, upward closedness -/

def Rem.union (A B : Rem) : Rem :=
  ⟨fun x => A.v x ∨ B.v x, fun x => A.e x ∨ B.e x, fun x => A.f x ∨ B.f x, fun x => A.c x ∨ B.c x⟩

/-- the two sets have the same live members (all a logical-mesh relation can see of a removed set) -/
structure EqLive (k : Kernel) (S S' : Rem) : Prop where
  v : ∀ x, x < k.nV → k.vDel.getD x false = false → (S.v x ↔ S'.v x)
  e : ∀ x, x < k.edges.length → k.eDel.getD x false = false → (S.e x ↔ S'.e x)
  f : ∀ x, x < k.faces.length → k.fDel.getD x false = false → (S.f x ↔ S'.f x)
  c : ∀ x, x < k.cells.length → k.cDel.getD x false = false → (S.c x ↔ S'.c x)

theorem EqLive.refl (k : Kernel) (S : Rem) : EqLive k S S :=
  ⟨fun _ _ _ => Iff.rfl, fun _ _ _ => Iff.rfl, fun _ _ _ => Iff.rfl, fun _ _ _ => Iff.rfl⟩

theorem EqLive.symm {k : Kernel} {S S' : Rem} (h : EqLive k S S') : EqLive k S' S :=
  ⟨fun x a b => (h.v x a b).symm, fun x a b => (h.e x a b).symm, fun x a b => (h.f x a b).symm,
   fun x a b => (h.c x a b).symm⟩

theorem LogMinus.congrLive {k k' : Kernel} {ρ : Ren} {S S' : Rem} (h : LogMinus k k' ρ S) (e : EqLive k S S') :
    LogMinus k k' ρ S' := h.congrS e.v e.e e.f e.c

theorem EqLive.survV {k : Kernel} {S S' : Rem} (h : EqLive k S S') (x : Nat) : SurvV k S x ↔ SurvV k S' x :=
  Surv.congr h.v x
theorem EqLive.survE {k : Kernel} {S S' : Rem} (h : EqLive k S S') (x : Nat) : SurvE k S x ↔ SurvE k S' x :=
  Surv.congr h.e x
theorem EqLive.survF {k : Kernel} {S S' : Rem} (h : EqLive k S S') (x : Nat) : SurvF k S x ↔ SurvF k S' x :=
  Surv.congr h.f x
theorem EqLive.survC {k : Kernel} {S S' : Rem} (h : EqLive k S S') (x : Nat) : SurvC k S x ↔ SurvC k S' x :=
  Surv.congr h.c x

theorem RefsSurvive.congrLive {k : Kernel} {S S' : Rem} (h : RefsSurvive k S) (e : EqLive k S S') : RefsSurvive k S' := by
  refine ⟨fun x hx => ?_, fun x hx a ha => ?_, fun x hx a ha => ?_⟩
  · have := h.e x ((e.survE x).mpr hx)
    exact ⟨(e.survV _).mp this.1, (e.survV _).mp this.2⟩
  · exact (e.survE _).mp (h.f x ((e.survF x).mpr hx) a ha)
  · exact (e.survF _).mp (h.c x ((e.survC x).mpr hx) a ha)

theorem Req.inRem_congr {k : Kernel} {S S' : Rem} (e : EqLive k S S') {d : Req} (hl : d.live k = true) :
    d.inRem S ↔ d.inRem S' := by
  cases d with
  | cell x => exact e.c x (liveC_iff.mp hl).1 (liveC_iff.mp hl).2
  | face x => exact e.f x (liveF_iff.mp hl).1 (liveF_iff.mp hl).2
  | edge x => exact e.e x (liveE_iff.mp hl).1 (liveE_iff.mp hl).2
  | vertex x => exact e.v x (liveV_iff.mp hl).1 (liveV_iff.mp hl).2

/-- upward closed: edges of removed vertices, faces of removed (live) edges, cells of removed (live) faces are removed -/
structure UpClosed (k : Kernel) (S : Rem) : Prop where
  e : ∀ x, upE k S.v x → S.e x
  f : ∀ x, upF k S.e x → S.f x
  c : ∀ x, upC k S.f x → S.c x

theorem UpClosed.refs {k : Kernel} {S : Rem} (hw : WF k) (hc : Closed k) (u : UpClosed k S) : RefsSurvive k S :=
  refs_of_up hw hc u.e u.f u.c

theorem upE_mono {k : Kernel} {A B : Nat → Prop} (h : ∀ x, A x → B x) (x : Nat) : upE k A x → upE k B x :=
  fun hx => hx.imp (h _) (h _)
theorem upF_mono {k : Kernel} {A B : Nat → Prop} (h : ∀ x, A x → B x) (x : Nat) : upF k A x → upF k B x :=
  fun ⟨a, ha, hl, hx⟩ => ⟨a, ha, hl, h _ hx⟩
theorem upC_mono {k : Kernel} {A B : Nat → Prop} (h : ∀ x, A x → B x) (x : Nat) : upC k A x → upC k B x :=
  fun ⟨a, ha, hl, hx⟩ => ⟨a, ha, hl, h _ hx⟩

theorem upClosed_none (k : Kernel) : UpClosed k Rem.none :=
  ⟨fun _ h => h.elim id id, fun _ ⟨_, _, _, h⟩ => h, fun _ ⟨_, _, _, h⟩ => h⟩

theorem upClosed_clo (k : Kernel) (d : Req) : UpClosed k (d.clo k) := by
  cases d with
  | cell x => exact ⟨fun _ h => h.elim id id, fun _ ⟨_, _, _, h⟩ => h, fun _ ⟨_, _, _, h⟩ => h.elim⟩
  | face x => exact ⟨fun _ h => h.elim id id, fun _ ⟨_, _, _, h⟩ => h.elim, fun _ h => h⟩
  | edge x => exact ⟨fun _ h => h.elim (fun x => x.elim) (fun x => x.elim), fun _ h => h, fun _ h => h⟩
  | vertex x => exact ⟨fun _ h => h, fun _ h => h, fun _ h => h⟩

theorem UpClosed.union {k : Kernel} {A B : Rem} (a : UpClosed k A) (b : UpClosed k B) : UpClosed k (A.union B) := by
  refine ⟨?_, ?_, ?_⟩
  · intro x h
    rcases h with (h | h) | (h | h)
    · exact Or.inl (a.e x (Or.inl h))
    · exact Or.inr (b.e x (Or.inl h))
    · exact Or.inl (a.e x (Or.inr h))
    · exact Or.inr (b.e x (Or.inr h))
  · rintro x ⟨y, hy, hl, h | h⟩
    · exact Or.inl (a.f x ⟨y, hy, hl, h⟩)
    · exact Or.inr (b.f x ⟨y, hy, hl, h⟩)
  · rintro x ⟨y, hy, hl, h | h⟩
    · exact Or.inl (a.c x ⟨y, hy, hl, h⟩)
    · exact Or.inr (b.c x ⟨y, hy, hl, h⟩)

/-- an upward closed set that contains the entity contains its closure -/
theorem UpClosed.clo_sub {k : Kernel} {S : Rem} (u : UpClosed k S) {d : Req} (hd : d.inRem S) :
    (∀ x, (d.clo k).v x → S.v x) ∧ (∀ x, (d.clo k).e x → S.e x) ∧ (∀ x, (d.clo k).f x → S.f x) ∧
    (∀ x, (d.clo k).c x → S.c x) := by
  cases d with
  | cell h =>
    refine ⟨fun _ f => f.elim, fun _ f => f.elim, fun _ f => f.elim, fun x e => ?_⟩
    have e' : x = h := e
    subst e'; exact hd
  | face h =>
    have hf : ∀ x, x = h → S.f x := fun x e => by subst e; exact hd
    exact ⟨fun _ f => f.elim, fun _ f => f.elim, hf, fun x hx => u.c x (upC_mono hf x hx)⟩
  | edge h =>
    have he : ∀ x, x = h → S.e x := fun x e => by subst e; exact hd
    have hf : ∀ x, upF k (· = h) x → S.f x := fun x hx => u.f x (upF_mono he x hx)
    exact ⟨fun _ f => f.elim, he, hf, fun x hx => u.c x (upC_mono hf x hx)⟩
  | vertex h =>
    have hv : ∀ x, x = h → S.v x := fun x e => by subst e; exact hd
    have he : ∀ x, upE k (· = h) x → S.e x := fun x hx => u.e x (upE_mono hv x hx)
    have hf : ∀ x, upF k (upE k (· = h)) x → S.f x := fun x hx => u.f x (upF_mono he x hx)
    exact ⟨hv, he, hf, fun x hx => u.c x (upC_mono hf x hx)⟩

/-! ### closures are carried by a logical-mesh relation -/

theorem upE_transport {k0 k : Kernel} {σ : Ren} {R : Rem} (s : LogMinus k0 k σ R) (hr : RefsSurvive k0 R)
    {V V' : Nat → Prop} (hV : ∀ y, SurvV k0 R y → (V' (σ.v y) ↔ V y)) {x : Nat} (hx : SurvE k0 R x) :
    upE k V' (σ.e x) ↔ upE k0 V x := by
  obtain ⟨h1, h2⟩ := hr.e x hx
  unfold upE
  rw [s.edge x hx]
  show (V' (σ.v (k0.edgeAt x).1) ∨ V' (σ.v (k0.edgeAt x).2)) ↔ _
  rw [hV _ h1, hV _ h2]

theorem upF_transport {k0 k : Kernel} {σ : Ren} {R : Rem} (s : LogMinus k0 k σ R) (hr : RefsSurvive k0 R)
    {E E' : Nat → Prop} (hE : ∀ y, SurvE k0 R y → (E' (σ.e y) ↔ E y)) {x : Nat} (hx : SurvF k0 R x) :
    upF k E' (σ.f x) ↔ upF k0 E x := by
  unfold upF
  rw [s.face x hx]
  constructor
  · rintro ⟨a', ha', _, he⟩
    obtain ⟨a, ha, rfl⟩ := List.mem_map.mp ha'
    have hs := hr.f x hx a ha
    rw [half_div] at he
    exact ⟨a, ha, liveE_of_surv hs, (hE _ hs).mp he⟩
  · rintro ⟨a, ha, _, he⟩
    have hs := hr.f x hx a ha
    refine ⟨half σ.e a, List.mem_map.mpr ⟨a, ha, rfl⟩, ?_, ?_⟩
    · rw [half_div]; exact liveE_iff.mpr (s.e.into _ hs)
    · rw [half_div]; exact (hE _ hs).mpr he

theorem upC_transport {k0 k : Kernel} {σ : Ren} {R : Rem} (s : LogMinus k0 k σ R) (hr : RefsSurvive k0 R)
    {F F' : Nat → Prop} (hF : ∀ y, SurvF k0 R y → (F' (σ.f y) ↔ F y)) {x : Nat} (hx : SurvC k0 R x) :
    upC k F' (σ.c x) ↔ upC k0 F x := by
  unfold upC
  rw [s.cell x hx]
  constructor
  · rintro ⟨a', ha', _, he⟩
    obtain ⟨a, ha, rfl⟩ := List.mem_map.mp ha'
    have hs := hr.c x hx a ha
    rw [half_div] at he
    exact ⟨a, ha, liveF_of_surv hs, (hF _ hs).mp he⟩
  · rintro ⟨a, ha, _, he⟩
    have hs := hr.c x hx a ha
    refine ⟨half σ.f a, List.mem_map.mpr ⟨a, ha, rfl⟩, ?_, ?_⟩
    · rw [half_div]; exact liveF_iff.mpr (s.f.into _ hs)
    · rw [half_div]; exact (hF _ hs).mpr he

theorem eq_transport {n n' : Nat} {del del' : List Bool} {S : Nat → Prop} {ρ : Nat → Nat} {cs cs' : List Col}
    (h : KindOK n del S n' del' ρ cs cs') {d : Nat} (hd : Surv n del S d) (y : Nat) (hy : Surv n del S y) :
    (ρ y = ρ d) ↔ (y = d) :=
  ⟨fun e => h.inj y d hy hd e, fun e => by rw [e]⟩

/-- **the closure of a survivor, computed in the current state at its current handle, is the image of its closure in
    the start state** (on the survivors, the only slots `σ` is meaningful on) -/
theorem clo_transport {k0 k : Kernel} {σ : Ren} {R : Rem} (s : LogMinus k0 k σ R) (hr : RefsSurvive k0 R) {d : Req}
    (hd : d.surv k0 R) :
    (∀ x, SurvV k0 R x → (((d.map σ).clo k).v (σ.v x) ↔ (d.clo k0).v x)) ∧
    (∀ x, SurvE k0 R x → (((d.map σ).clo k).e (σ.e x) ↔ (d.clo k0).e x)) ∧
    (∀ x, SurvF k0 R x → (((d.map σ).clo k).f (σ.f x) ↔ (d.clo k0).f x)) ∧
    (∀ x, SurvC k0 R x → (((d.map σ).clo k).c (σ.c x) ↔ (d.clo k0).c x)) := by
  cases d with
  | cell h =>
    exact ⟨fun _ _ => Iff.rfl, fun _ _ => Iff.rfl, fun _ _ => Iff.rfl, fun x hx => eq_transport s.c hd x hx⟩
  | face h =>
    exact ⟨fun _ _ => Iff.rfl, fun _ _ => Iff.rfl, fun x hx => eq_transport s.f hd x hx,
      fun x hx => upC_transport s hr (F := (· = h)) (F' := (· = σ.f h)) (eq_transport s.f hd) hx⟩
  | edge h =>
    have t1 := eq_transport s.e hd
    have t2 : ∀ y, SurvF k0 R y → (upF k (· = σ.e h) (σ.f y) ↔ upF k0 (· = h) y) :=
      fun y hy => upF_transport s hr (E := (· = h)) (E' := (· = σ.e h)) t1 hy
    exact ⟨fun _ _ => Iff.rfl, t1, t2, fun x hx => upC_transport s hr t2 hx⟩
  | vertex h =>
    have t0 := eq_transport s.v hd
    have t1 : ∀ y, SurvE k0 R y → (upE k (· = σ.v h) (σ.e y) ↔ upE k0 (· = h) y) :=
      fun y hy => upE_transport s hr (V := (· = h)) (V' := (· = σ.v h)) t0 hy
    have t2 : ∀ y, SurvF k0 R y → (upF k (upE k (· = σ.v h)) (σ.f y) ↔ upF k0 (upE k0 (· = h)) y) :=
      fun y hy => upF_transport s hr t1 hy
    exact ⟨t0, t1, t2, fun x hx => upC_transport s hr t2 hx⟩

/-! ### tracked runs -/

/-- **a run of deletion requests written in the handles of `k0`.**  `TrackedRun k0 cur σ R ds kf`: from the current state
    `cur` — reached from `k0` with `σ` renaming `k0`'s handles to `cur`'s and `R` the entities of `k0` removed so far — the
    requests `ds` lead to `kf`.  A request is skipped when its entity was never live in `k0` or is gone already
    (`delete_*` requires `!is_deleted(_h)`); otherwise `delete_*` is called with the handle read through `σ`, and the
    bookkeeping continues with ANY renumbering `ρ` of that deletion (one exists in every mode: `Req.logical`). -/
inductive TrackedRun (k0 : Kernel) : Kernel → Ren → Rem → List Req → Kernel → Prop
  | done (k : Kernel) (σ : Ren) (R : Rem) : TrackedRun k0 k σ R [] k
  | skip {k : Kernel} {σ : Ren} {R : Rem} {d : Req} {t : List Req} {kf : Kernel}
      (hs : d.live k0 = false ∨ d.inRem R) (rest : TrackedRun k0 k σ R t kf) : TrackedRun k0 k σ R (d :: t) kf
  | exec {k : Kernel} {σ ρ : Ren} {R : Rem} {d : Req} {t : List Req} {kf : Kernel}
      (hl : d.live k0 = true) (hr : ¬ d.inRem R)
      (step : LogMinus k ((d.map σ).apply k) ρ ((d.map σ).clo k))
      (rest : TrackedRun k0 ((d.map σ).apply k) (ρ.comp σ) (R.comp σ ((d.map σ).clo k)) t kf) :
      TrackedRun k0 k σ R (d :: t) kf

/-- the union of the upward closures, in `k`, of the requested entities that are live in `k` -/
def cloSet (k : Kernel) (ds : List Req) : Rem :=
  ⟨fun x => ∃ d ∈ ds, d.live k = true ∧ (d.clo k).v x, fun x => ∃ d ∈ ds, d.live k = true ∧ (d.clo k).e x,
   fun x => ∃ d ∈ ds, d.live k = true ∧ (d.clo k).f x, fun x => ∃ d ∈ ds, d.live k = true ∧ (d.clo k).c x⟩

theorem upClosed_cloSet (k : Kernel) (ds : List Req) : UpClosed k (cloSet k ds) := by
  refine ⟨?_, ?_, ?_⟩
  · rintro x (⟨d, hd, hl, h⟩ | ⟨d, hd, hl, h⟩)
    · exact ⟨d, hd, hl, (upClosed_clo k d).e x (Or.inl h)⟩
    · exact ⟨d, hd, hl, (upClosed_clo k d).e x (Or.inr h)⟩
  · rintro x ⟨a, ha, hla, d, hd, hl, h⟩
    exact ⟨d, hd, hl, (upClosed_clo k d).f x ⟨a, ha, hla, h⟩⟩
  · rintro x ⟨a, ha, hla, d, hd, hl, h⟩
    exact ⟨d, hd, hl, (upClosed_clo k d).c x ⟨a, ha, hla, h⟩⟩

/-! ### `cloSet` is the upward closure of the requested set -/

/-- the requested entities that are live in `k` -/
def reqSet (k : Kernel) (ds : List Req) : Rem :=
  ⟨fun x => Req.vertex x ∈ ds ∧ k.liveV x = true, fun x => Req.edge x ∈ ds ∧ k.liveE x = true,
   fun x => Req.face x ∈ ds ∧ k.liveF x = true, fun x => Req.cell x ∈ ds ∧ k.liveC x = true⟩

/-- **the upward closure of a set `Q` of entities**: an entity is removed iff it is in `Q` or incident upwards to a
    removed one — edges with a removed end vertex, faces with a halfedge of a removed (live) edge, cells with a halfface of
    a removed (live) face -/
def closure (k : Kernel) (Q : Rem) : Rem :=
  ⟨Q.v,
   fun e => Q.e e ∨ upE k Q.v e,
   fun f => Q.f f ∨ upF k (fun e => Q.e e ∨ upE k Q.v e) f,
   fun c => Q.c c ∨ upC k (fun f => Q.f f ∨ upF k (fun e => Q.e e ∨ upE k Q.v e) f) c⟩

theorem upE_congr {k : Kernel} {A B : Nat → Prop} (h : ∀ x, A x ↔ B x) (x : Nat) : upE k A x ↔ upE k B x :=
  ⟨upE_mono (fun y => (h y).mp) x, upE_mono (fun y => (h y).mpr) x⟩
theorem upF_congr {k : Kernel} {A B : Nat → Prop} (h : ∀ x, A x ↔ B x) (x : Nat) : upF k A x ↔ upF k B x :=
  ⟨upF_mono (fun y => (h y).mp) x, upF_mono (fun y => (h y).mpr) x⟩
theorem upC_congr {k : Kernel} {A B : Nat → Prop} (h : ∀ x, A x ↔ B x) (x : Nat) : upC k A x ↔ upC k B x :=
  ⟨upC_mono (fun y => (h y).mp) x, upC_mono (fun y => (h y).mpr) x⟩

theorem cloSet_v (k : Kernel) (ds : List Req) (x : Nat) : (cloSet k ds).v x ↔ (reqSet k ds).v x := by
  constructor
  · rintro ⟨d, hd, hl, h⟩
    cases d with
    | cell y => exact h.elim
    | face y => exact h.elim
    | edge y => exact h.elim
    | vertex y =>
      have e : x = y := h
      subst e; exact ⟨hd, hl⟩
  · rintro ⟨hd, hl⟩
    exact ⟨Req.vertex x, hd, hl, rfl⟩

theorem cloSet_e (k : Kernel) (ds : List Req) (x : Nat) :
    (cloSet k ds).e x ↔ ((reqSet k ds).e x ∨ upE k (cloSet k ds).v x) := by
  constructor
  · rintro ⟨d, hd, hl, h⟩
    cases d with
    | cell y => exact h.elim
    | face y => exact h.elim
    | edge y =>
      have e : x = y := h
      subst e; exact Or.inl ⟨hd, hl⟩
    | vertex y =>
      exact Or.inr (upE_mono (A := (· = y)) (fun z hz => ⟨Req.vertex y, hd, hl, hz⟩) x h)
  · rintro (⟨hd, hl⟩ | ⟨d, hd, hl, h⟩ | ⟨d, hd, hl, h⟩)
    · exact ⟨Req.edge x, hd, hl, rfl⟩
    · cases d with
      | cell y => exact h.elim
      | face y => exact h.elim
      | edge y => exact h.elim
      | vertex y => exact ⟨Req.vertex y, hd, hl, Or.inl h⟩
    · cases d with
      | cell y => exact h.elim
      | face y => exact h.elim
      | edge y => exact h.elim
      | vertex y => exact ⟨Req.vertex y, hd, hl, Or.inr h⟩

theorem cloSet_f (k : Kernel) (ds : List Req) (x : Nat) :
    (cloSet k ds).f x ↔ ((reqSet k ds).f x ∨ upF k (cloSet k ds).e x) := by
  constructor
  · rintro ⟨d, hd, hl, h⟩
    cases d with
    | cell y => exact h.elim
    | face y =>
      have e : x = y := h
      subst e; exact Or.inl ⟨hd, hl⟩
    | edge y => exact Or.inr (upF_mono (A := (· = y)) (fun z hz => ⟨Req.edge y, hd, hl, hz⟩) x h)
    | vertex y => exact Or.inr (upF_mono (A := upE k (· = y)) (fun z hz => ⟨Req.vertex y, hd, hl, hz⟩) x h)
  · rintro (⟨hd, hl⟩ | ⟨a, ha, hla, d, hd, hl, h⟩)
    · exact ⟨Req.face x, hd, hl, rfl⟩
    · cases d with
      | cell y => exact h.elim
      | face y => exact h.elim
      | edge y => exact ⟨Req.edge y, hd, hl, a, ha, hla, h⟩
      | vertex y => exact ⟨Req.vertex y, hd, hl, a, ha, hla, h⟩

theorem cloSet_c (k : Kernel) (ds : List Req) (x : Nat) :
    (cloSet k ds).c x ↔ ((reqSet k ds).c x ∨ upC k (cloSet k ds).f x) := by
  constructor
  · rintro ⟨d, hd, hl, h⟩
    cases d with
    | cell y =>
      have e : x = y := h
      subst e; exact Or.inl ⟨hd, hl⟩
    | face y => exact Or.inr (upC_mono (A := (· = y)) (fun z hz => ⟨Req.face y, hd, hl, hz⟩) x h)
    | edge y => exact Or.inr (upC_mono (A := upF k (· = y)) (fun z hz => ⟨Req.edge y, hd, hl, hz⟩) x h)
    | vertex y =>
      exact Or.inr (upC_mono (A := upF k (upE k (· = y))) (fun z hz => ⟨Req.vertex y, hd, hl, hz⟩) x h)
  · rintro (⟨hd, hl⟩ | ⟨a, ha, hla, d, hd, hl, h⟩)
    · exact ⟨Req.cell x, hd, hl, rfl⟩
    · cases d with
      | cell y => exact h.elim
      | face y => exact ⟨Req.face y, hd, hl, a, ha, hla, h⟩
      | edge y => exact ⟨Req.edge y, hd, hl, a, ha, hla, h⟩
      | vertex y => exact ⟨Req.vertex y, hd, hl, a, ha, hla, h⟩

/-- **closure of a union = union of closures**: the union of the closures of the requested live entities is the upward
    closure of the requested set -/
theorem cloSet_iff_closure (k : Kernel) (ds : List Req) :
    (∀ x, (cloSet k ds).v x ↔ (closure k (reqSet k ds)).v x) ∧ (∀ x, (cloSet k ds).e x ↔ (closure k (reqSet k ds)).e x) ∧
    (∀ x, (cloSet k ds).f x ↔ (closure k (reqSet k ds)).f x) ∧ (∀ x, (cloSet k ds).c x ↔ (closure k (reqSet k ds)).c x) := by
  have hv := cloSet_v k ds
  have he : ∀ x, (cloSet k ds).e x ↔ (closure k (reqSet k ds)).e x := fun x =>
    (cloSet_e k ds x).trans (or_congr Iff.rfl (upE_congr hv x))
  have hf : ∀ x, (cloSet k ds).f x ↔ (closure k (reqSet k ds)).f x := fun x =>
    (cloSet_f k ds x).trans (or_congr Iff.rfl (upF_congr he x))
  exact ⟨hv, he, hf, fun x => (cloSet_c k ds x).trans (or_congr Iff.rfl (upC_congr hf x))⟩

theorem eqLive_cloSet_closure (k : Kernel) (ds : List Req) : EqLive k (cloSet k ds) (closure k (reqSet k ds)) := by
  obtain ⟨a, b, c, d⟩ := cloSet_iff_closure k ds
  exact ⟨fun x _ _ => a x, fun x _ _ => b x, fun x _ _ => c x, fun x _ _ => d x⟩

theorem eqLive_union_nil (k : Kernel) (R0 : Rem) : EqLive k R0 (R0.union (cloSet k [])) := by
  constructor <;> intro x _ _ <;> simp [Rem.union, cloSet]

/-- a skipped request adds nothing -/
theorem eqLive_union_skip {k : Kernel} {R0 : Rem} (u : UpClosed k R0) {d : Req} (t : List Req)
    (hs : d.live k = false ∨ d.inRem R0) : EqLive k (R0.union (cloSet k t)) (R0.union (cloSet k (d :: t))) := by
  have key : d.live k = true → d.inRem R0 := fun hl => hs.elim (fun h => by rw [hl] at h; cases h) id
  constructor <;> intro x _ _ <;> simp only [Rem.union, cloSet, List.mem_cons, exists_eq_or_imp]
  · constructor
    · rintro (h | h)
      · exact Or.inl h
      · exact Or.inr (Or.inr h)
    · rintro (h | ⟨hl, h⟩ | h)
      · exact Or.inl h
      · exact Or.inl ((u.clo_sub (key hl)).1 x h)
      · exact Or.inr h
  · constructor
    · rintro (h | h)
      · exact Or.inl h
      · exact Or.inr (Or.inr h)
    · rintro (h | ⟨hl, h⟩ | h)
      · exact Or.inl h
      · exact Or.inl ((u.clo_sub (key hl)).2.1 x h)
      · exact Or.inr h
  · constructor
    · rintro (h | h)
      · exact Or.inl h
      · exact Or.inr (Or.inr h)
    · rintro (h | ⟨hl, h⟩ | h)
      · exact Or.inl h
      · exact Or.inl ((u.clo_sub (key hl)).2.2.1 x h)
      · exact Or.inr h
  · constructor
    · rintro (h | h)
      · exact Or.inl h
      · exact Or.inr (Or.inr h)
    · rintro (h | ⟨hl, h⟩ | h)
      · exact Or.inl h
      · exact Or.inl ((u.clo_sub (key hl)).2.2.2 x h)
      · exact Or.inr h

/-- an executed request adds its closure -/
theorem eqLive_union_exec (k : Kernel) (R0 : Rem) {d : Req} (t : List Req) (hl : d.live k = true) :
    EqLive k ((R0.union (d.clo k)).union (cloSet k t)) (R0.union (cloSet k (d :: t))) := by
  constructor <;> intro x _ _ <;> simp only [Rem.union, cloSet, List.mem_cons, exists_eq_or_imp, hl, true_and] <;>
    exact or_assoc

/-- the removed set after an executed step, on the live slots of `k0` -/
theorem eqLive_step {k0 k : Kernel} {σ : Ren} {R R0 : Rem} (s : LogMinus k0 k σ R) (hr : RefsSurvive k0 R)
    (e : EqLive k0 R R0) {d : Req} (hd : d.surv k0 R) :
    EqLive k0 (R.comp σ ((d.map σ).clo k)) (R0.union (d.clo k0)) := by
  obtain ⟨tv, te, tf, tc⟩ := clo_transport s hr hd
  constructor
  · intro x h1 h2
    show (R.v x ∨ ((d.map σ).clo k).v (σ.v x)) ↔ (R0.v x ∨ (d.clo k0).v x)
    by_cases hx : R.v x
    · simp [hx, (e.v x h1 h2).mp hx]
    · have hx0 : ¬ R0.v x := fun h => hx ((e.v x h1 h2).mpr h)
      simp only [hx, hx0, false_or]
      exact tv x ⟨h1, h2, hx⟩
  · intro x h1 h2
    show (R.e x ∨ ((d.map σ).clo k).e (σ.e x)) ↔ (R0.e x ∨ (d.clo k0).e x)
    by_cases hx : R.e x
    · simp [hx, (e.e x h1 h2).mp hx]
    · have hx0 : ¬ R0.e x := fun h => hx ((e.e x h1 h2).mpr h)
      simp only [hx, hx0, false_or]
      exact te x ⟨h1, h2, hx⟩
  · intro x h1 h2
    show (R.f x ∨ ((d.map σ).clo k).f (σ.f x)) ↔ (R0.f x ∨ (d.clo k0).f x)
    by_cases hx : R.f x
    · simp [hx, (e.f x h1 h2).mp hx]
    · have hx0 : ¬ R0.f x := fun h => hx ((e.f x h1 h2).mpr h)
      simp only [hx, hx0, false_or]
      exact tf x ⟨h1, h2, hx⟩
  · intro x h1 h2
    show (R.c x ∨ ((d.map σ).clo k).c (σ.c x)) ↔ (R0.c x ∨ (d.clo k0).c x)
    by_cases hx : R.c x
    · simp [hx, (e.c x h1 h2).mp hx]
    · have hx0 : ¬ R0.c x := fun h => hx ((e.c x h1 h2).mpr h)
      simp only [hx, hx0, false_or]
      exact tc x ⟨h1, h2, hx⟩

/-- **what a tracked run removes**: the entities removed before plus the closures, in `k0`, of the requested live
    entities — whatever the order of the requests, whatever was skipped, whatever renumberings were exhibited -/
theorem tracked_spec {k0 : Kernel} (hw : WF k0) (hc : Closed k0) {k : Kernel} {σ : Ren} {R : Rem} {ds : List Req}
    {kf : Kernel} (t : TrackedRun k0 k σ R ds kf) :
    ∀ R0, EqLive k0 R R0 → UpClosed k0 R0 → LogMinus k0 k σ R →
      ∃ σ', LogMinus k0 kf σ' (R0.union (cloSet k0 ds)) := by
  induction t with
  | done k σ R =>
    intro R0 e _ s
    exact ⟨σ, (s.congrLive e).congrLive (eqLive_union_nil k0 R0)⟩
  | @skip k σ R d t kf hs _ ih =>
    intro R0 e u s
    obtain ⟨σ', s'⟩ := ih R0 e u s
    refine ⟨σ', s'.congrLive (eqLive_union_skip u t ?_)⟩
    by_cases hl : d.live k0 = true
    · exact hs.imp id (fun h => (Req.inRem_congr e hl).mp h)
    · exact Or.inl (by simpa using hl)
  | @exec k σ ρ R d t kf hl hr step _ ih =>
    intro R0 e u s
    have hd : d.surv k0 R := Req.surv_of_live hl hr
    have refs : RefsSurvive k0 R := (u.refs hw hc).congrLive e.symm
    obtain ⟨σ', s'⟩ := ih (R0.union (d.clo k0)) (eqLive_step s refs e hd) (u.union (upClosed_clo k0 d)) (s.comp step)
    exact ⟨σ', s'.congrLive (eqLive_union_exec k0 R0 t hl)⟩

/-- from a state satisfying the global invariant a tracked run never gets stuck (any deletion mode) -/
theorem tracked_exists {k0 : Kernel} (ds : List Req) : ∀ (k : Kernel) (σ : Ren) (R : Rem), GInv k → LogMinus k0 k σ R →
    ∃ kf, TrackedRun k0 k σ R ds kf := by
  induction ds with
  | nil => intro k σ R _ _; exact ⟨k, TrackedRun.done k σ R⟩
  | cons d t ih =>
    intro k σ R hi s
    classical
    by_cases hl : d.live k0 = true
    · by_cases hr : d.inRem R
      · obtain ⟨kf, r⟩ := ih k σ R hi s
        exact ⟨kf, TrackedRun.skip (Or.inr hr) r⟩
      · have hlk := Req.live_map s (Req.surv_of_live hl hr)
        obtain ⟨ρ, _, step⟩ := Req.logical hi hlk
        obtain ⟨kf, r⟩ := ih _ _ _ (Req.ginv hi hlk) (s.comp step)
        exact ⟨kf, TrackedRun.exec hl hr step r⟩
    · obtain ⟨kf, r⟩ := ih k σ R hi s
      exact ⟨kf, TrackedRun.skip (Or.inl (by simpa using hl)) r⟩

/-! ### the deferred run -/

/-- the requests performed in the current mode with the handles as written (in deferred mode handles are stable);
    a request whose entity does not exist or is flagged deleted already is skipped -/
def runDef (k : Kernel) : List Req → Kernel
  | [] => k
  | d :: t => if d.live k = true then runDef (d.apply k) t else runDef k t

/-- the deferred run is a tracked run in which nothing is renumbered -/
theorem runDef_tracked {k0 : Kernel} (ds : List Req) : ∀ (k : Kernel) (R : Rem), GInv k → k.deferred = true →
    LogMinus k0 k Ren.id R →
    TrackedRun k0 k Ren.id R ds (runDef k ds) ∧ GInv (runDef k ds) ∧ (runDef k ds).deferred = true := by
  induction ds with
  | nil => intro k R hi hd _; exact ⟨TrackedRun.done k Ren.id R, hi, hd⟩
  | cons d t ih =>
    intro k R hi hd s
    by_cases hl : d.live k = true
    · have hsv := Req.surv_of_live_id s hl
      obtain ⟨hl0, hr⟩ := Req.live_of_surv hsv
      have step := Req.logical_def hi hd hl
      obtain ⟨r, g, dd⟩ := ih _ _ (Req.ginv hi hl) (Req.apply_deferred hd d) (s.comp step)
      have e : runDef k (d :: t) = runDef (d.apply k) t := by simp [runDef, hl]
      rw [e]
      refine ⟨TrackedRun.exec (ρ := Ren.id) hl0 hr (by rw [Req.map_id]; exact step) ?_, g, dd⟩
      rw [Req.map_id]; exact r
    · have e : runDef k (d :: t) = runDef k t := by simp [runDef, hl]
      rw [e]
      obtain ⟨r, g, dd⟩ := ih k R hi hd s
      refine ⟨TrackedRun.skip ?_ r, g, dd⟩
      classical
      by_cases hl0 : d.live k0 = true
      · by_cases hr : d.inRem R
        · exact Or.inr hr
        · have := Req.live_map s (Req.surv_of_live hl0 hr)
          rw [Req.map_id] at this
          exact absurd this hl
      · exact Or.inl (by simpa using hl0)

/-- the deferred run keeps the global invariant and stays in deferred mode -/
theorem runDef_ginv {k : Kernel} (hi : GInv k) (hd : k.deferred = true) (ds : List Req) :
    GInv (runDef k ds) ∧ (runDef k ds).deferred = true :=
  (runDef_tracked (k0 := k) ds k Rem.none hi hd (LogIso.refl k)).2

/-! ### deferred list + `collect_garbage` = immediate list -/

/-- the immediate run of the requests `ds` (written in `k`'s handles) from `k` switched to immediate deletion -/
def ImmRun (k : Kernel) (ds : List Req) (kf : Kernel) : Prop :=
  TrackedRun k ({ k with deferred := false } : Kernel) Ren.id Rem.none ds kf

theorem eqLive_none_union (k : Kernel) (S : Rem) : EqLive k (Rem.none.union S) S := by
  constructor <;> intro x _ _ <;> simp [Rem.union, Rem.none, none]

/-- **a list of deferred deletions followed by `collect_garbage` gives the same logical mesh as the same requests
    performed immediately** (handles of the immediate run read through the renumberings so far) — both are the logical
    mesh of `k` minus the upward closure of the requested set; both deletion styles, every bottom-up configuration -/
theorem deferred_list_gc_eq_immediate {k : Kernel} (hi : GInv k) (hd : k.deferred = true) (hn : k.needsGC = false)
    (ds : List Req) :
    (∃ kf, ImmRun k ds kf) ∧
    ∀ kf, ImmRun k ds kf →
      (∃ ρ, LogMinus k (runDef k ds).collectGarbage ρ (closure k (reqSet k ds))) ∧
      (∃ ρ, LogMinus k kf ρ (closure k (reqSet k ds))) ∧
      (∃ ρ, LogIso (runDef k ds).collectGarbage kf ρ) ∧ GInv (runDef k ds).collectGarbage := by
  have gI := ginv_immediate hi hn
  have s0 : LogMinus k ({ k with deferred := false } : Kernel) Ren.id Rem.none :=
    LogIso.refl_of_eq rfl rfl rfl rfl rfl rfl rfl rfl rfl
  refine ⟨tracked_exists ds _ _ _ gI s0, fun kf r => ?_⟩
  obtain ⟨rd, gd, _⟩ := runDef_tracked (k0 := k) ds k Rem.none hi hd (LogIso.refl k)
  obtain ⟨σd, sd⟩ := tracked_spec hi.wf hi.closed rd Rem.none (EqLive.refl _ _) (upClosed_none k) (LogIso.refl k)
  obtain ⟨σi, si⟩ := tracked_spec hi.wf hi.closed r Rem.none (EqLive.refl _ _) (upClosed_none k) s0
  obtain ⟨ρg, sg⟩ := collectGarbage_log gd
  have sd' := sd.comp_iso sg
  have refs : RefsSurvive k (Rem.none.union (cloSet k ds)) :=
    ((upClosed_none k).union (upClosed_cloSet k ds)).refs hi.wf hi.closed
  exact ⟨⟨_, (sd'.congrLive (eqLive_none_union k _)).congrLive (eqLive_cloSet_closure k ds)⟩,
    ⟨_, (si.congrLive (eqLive_none_union k _)).congrLive (eqLive_cloSet_closure k ds)⟩,
    LogMinus.iso_of_same sd' si refs, ginv_collectGarbage gd⟩

/-- one request: the immediate run is the immediate `delete_*` itself (with any of its renumberings) -/
theorem immRun_single {k : Kernel} {d : Req} {ρ : Ren} (hl : d.live k = true)
    (step : LogMinus ({ k with deferred := false } : Kernel) (d.apply ({ k with deferred := false } : Kernel)) ρ
      (d.clo ({ k with deferred := false } : Kernel))) :
    ImmRun k [d] (d.apply ({ k with deferred := false } : Kernel)) := by
  have r := TrackedRun.exec (k0 := k) (k := ({ k with deferred := false } : Kernel)) (σ := Ren.id) (ρ := ρ)
    (R := Rem.none) (d := d) (t := []) (kf := (d.map Ren.id).apply ({ k with deferred := false } : Kernel)) hl
    (fun h => by cases d <;> exact h) (by rw [Req.map_id]; exact step) (TrackedRun.done _ _ _)
  rw [Req.map_id] at r
  exact r

/-- the tetrahedron `tetK` switched to immediate deletion (swap-with-last style) -/
def tetFI : Kernel := { tetK with deferred := false }

/-! ### the deferred run, with the identity renumbering made explicit -/

theorem runDef_append (a b : List Req) : ∀ k : Kernel, runDef k (a ++ b) = runDef (runDef k a) b := by
  induction a with
  | nil => intro k; rfl
  | cons d t ih =>
    intro k
    by_cases hl : d.live k = true
    · simp only [List.cons_append, runDef, hl, if_true]; exact ih _
    · simp only [List.cons_append, runDef, hl, if_false]; exact ih _

/-- **the deferred run removes `R0 ∪ cloSet` and renumbers nothing** (`tracked_spec` with `σ' = id`) -/
theorem runDef_spec {k0 : Kernel} (hw : WF k0) (hc : Closed k0) (ds : List Req) :
    ∀ (k : Kernel) (R R0 : Rem), GInv k → k.deferred = true → LogMinus k0 k Ren.id R → EqLive k0 R R0 → UpClosed k0 R0 →
      LogMinus k0 (runDef k ds) Ren.id (R0.union (cloSet k0 ds)) := by
  induction ds with
  | nil =>
    intro k R R0 _ _ s e _
    exact (s.congrLive e).congrLive (eqLive_union_nil k0 R0)
  | cons d t ih =>
    intro k R R0 hi hd s e u
    by_cases hl : d.live k = true
    · have hsv := Req.surv_of_live_id s hl
      obtain ⟨hl0, _⟩ := Req.live_of_surv hsv
      have step := Req.logical_def hi hd hl
      have refs : RefsSurvive k0 R := (u.refs hw hc).congrLive e.symm
      have e' := eqLive_step s refs e hsv
      rw [Req.map_id] at e'
      have h := ih _ _ (R0.union (d.clo k0)) (Req.ginv hi hl) (Req.apply_deferred hd d) (s.comp step) e'
        (u.union (upClosed_clo k0 d))
      have er : runDef k (d :: t) = runDef (d.apply k) t := by simp [runDef, hl]
      rw [er]
      exact h.congrLive (eqLive_union_exec k0 R0 t hl0)
    · have er : runDef k (d :: t) = runDef k t := by simp [runDef, hl]
      rw [er]
      refine (ih k R R0 hi hd s e u).congrLive (eqLive_union_skip u t ?_)
      classical
      by_cases hl0 : d.live k0 = true
      · by_cases hr : d.inRem R
        · exact Or.inr ((Req.inRem_congr e hl0).mp hr)
        · have := Req.live_map s (Req.surv_of_live hl0 hr)
          rw [Req.map_id] at this
          exact absurd this hl
      · exact Or.inl (by simpa using hl0)

/-- from the state itself: the deferred run of `ds` flags exactly `cloSet k ds` and renumbers nothing -/
theorem runDef_logMinus {k : Kernel} (hi : GInv k) (hd : k.deferred = true) (ds : List Req) :
    LogMinus k (runDef k ds) Ren.id (cloSet k ds) :=
  (runDef_spec hi.wf hi.closed ds k Rem.none Rem.none hi hd (LogIso.refl k) (EqLive.refl _ _) (upClosed_none k)).congrLive
    (eqLive_none_union k _)

end Logical
end Kernel
end OVM

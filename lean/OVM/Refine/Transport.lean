import OVM.Refine.TransportLemmas
/-
  C03, transport of property values — uniformity and non-interference of the kernel model.

  For every kernel function `f` of `OVM/Kernel/{Add,Swap,Delete}.lean` this file proves
      f (k.withP p) = (f k).withP ((P_f k).apply p)        and        P_f (k.withP p) = P_f k
  where `k.withP p` is the mesh `k` with its property storages replaced by `p` and `P_f k : Progs`
  is a list of slot operations per entity kind (halfedge / halfface columns get the doubled
  edge / face list).  So
  * no function of the model reads a storage to decide anything (same mesh, same return value,
    same program whatever the storages hold): `step_withP`, `progOf_withP`;
  * every column of one kind is transformed by one and the same program: `step_props`,
    `run_props` (the whole history: `progRun`).
-/
set_option linter.unusedSimpArgs false

namespace OVM
namespace Kernel
open SlotOp

set_option hygiene false in
macro "destruct_k" k:ident : tactic => `(tactic| obtain ⟨nV, edges, faces, cells, vDel, eDel, fDel, cDel, nDelV, nDelE, nDelF, nDelC, deferred, fast, vBU, eBU, fBU, outHes, incHfs, incCell, props, fault⟩ := $k)

/-! ## construction -/
theorem addVertex_withP (k : Kernel) (p : Props) :
    (k.withP p).addVertex = ((k.addVertex).1.withP (Progs.apply { v := [.resize (k.nV + 1)] } p), k.nV) := by
  rw [← resizeV_eq]; rfl

theorem addNVertices_withP (k : Kernel) (p : Props) (n : Nat) :
    (k.withP p).addNVertices n = (k.addNVertices n).withP (Progs.apply { v := [.resize (k.nV + n)] } p) := by
  rw [← resizeV_eq]; rfl

theorem addEdgeCore_withP (k : Kernel) (p : Props) (a b : Nat) :
    (k.withP p).addEdgeCore a b = (k.addEdgeCore a b).withP (Progs.apply { e := [.resize (k.nE + 1)] } p) := by
  rw [← resizeE_eq]; destruct_k k; cases vBU <;> cases eBU <;> rfl

theorem findEdge_withP (k : Kernel) (p : Props) (a b : Nat) (d : Bool) : (k.withP p).findEdge a b d = k.findEdge a b d := rfl

/-- program of `add_edge` -/
def pAddEdge (k : Kernel) (a b : Nat) (dup : Bool) : Progs :=
  match k.findEdge a b dup with
  | some _ => {}
  | none => { e := [.resize (k.nE + 1)] }

theorem addEdge_withP (k : Kernel) (p : Props) (a b : Nat) (d : Bool) :
    (k.withP p).addEdge a b d = ((k.addEdge a b d).1.withP ((pAddEdge k a b d).apply p), (k.addEdge a b d).2) := by
  unfold addEdge pAddEdge
  rw [findEdge_withP]
  cases h : k.findEdge a b d <;> simp [addEdgeCore_withP]

theorem pAddEdge_withP (k : Kernel) (p : Props) (a b : Nat) (d : Bool) : pAddEdge (k.withP p) a b d = pAddEdge k a b d := rfl

theorem addFaceCore_withP (k : Kernel) (p : Props) (hes : List Nat) :
    (k.withP p).addFaceCore hes = (k.addFaceCore hes).withP (Progs.apply { f := [.resize (k.nF + 1)] } p) := by
  rw [← resizeF_eq]; destruct_k k; cases fBU <;> cases eBU <;> rfl

def pAddFace (k : Kernel) (hes : List Nat) (chk : Bool) : Progs :=
  if k.addFaceAccepts hes chk then { f := [.resize (k.nF + 1)] } else {}

theorem addFace_withP (k : Kernel) (p : Props) (hes : List Nat) (chk : Bool) :
    (k.withP p).addFace hes chk = ((k.addFace hes chk).1.withP ((pAddFace k hes chk).apply p), (k.addFace hes chk).2) := by
  unfold addFace pAddFace
  have : (k.withP p).addFaceAccepts hes chk = k.addFaceAccepts hes chk := rfl
  rw [this]
  split
  · simp [addFaceCore_withP]
  · simp
theorem pAddFace_withP (k : Kernel) (p : Props) (hes : List Nat) (chk : Bool) : pAddFace (k.withP p) hes chk = pAddFace k hes chk := rfl


/-- one step of the find-or-create loop of `add_face(vertices)` (the local `step` of `addFaceV`) -/
def faceVStep (st : Kernel × List Nat) (ab : Nat × Nat) : Kernel × List Nat :=
  let (k', e) := st.1.addEdge ab.1 ab.2 false
  let sw := if (k'.edgeAt e).2 == ab.1 then 1 else 0
  (k', st.2 ++ [heOf e sw])

theorem addFaceV_cons (k : Kernel) (v0 : Nat) (t : List Nat) :
    k.addFaceV (v0 :: t) =
      (((v0 :: t).zip (t ++ [v0])).foldl faceVStep (k, [])).1.addFace (((v0 :: t).zip (t ++ [v0])).foldl faceVStep (k, [])).2 false := rfl

def pFaceVFold : List (Nat × Nat) → Kernel → Progs
  | [], _ => {}
  | ab :: t, k => pAddEdge k ab.1 ab.2 false ++ pFaceVFold t (k.addEdge ab.1 ab.2 false).1

theorem faceVFold_withP (ps : List (Nat × Nat)) (k : Kernel) (p : Props) (acc : List Nat) :
    ps.foldl faceVStep (k.withP p, acc) =
      ((ps.foldl faceVStep (k, acc)).1.withP ((pFaceVFold ps k).apply p), (ps.foldl faceVStep (k, acc)).2) ∧
    pFaceVFold ps (k.withP p) = pFaceVFold ps k := by
  induction ps generalizing k p acc with
  | nil => simp [pFaceVFold]
  | cons ab t ih =>
    simp only [List.foldl_cons, pFaceVFold]
    have e1 : faceVStep (k.withP p, acc) ab =
        ((faceVStep (k, acc) ab).1.withP ((pAddEdge k ab.1 ab.2 false).apply p), (faceVStep (k, acc) ab).2) := by
      simp only [faceVStep, addEdge_withP]
      rfl
    have e2 : (faceVStep (k, acc) ab).1 = (k.addEdge ab.1 ab.2 false).1 := rfl
    rw [e1, (ih _ _ _).1, e2]
    refine ⟨?_, ?_⟩
    · rw [Progs.apply_append]; rfl
    · rw [pAddEdge_withP, addEdge_withP]; simp only; rw [(ih _ _ acc).2]

def pAddFaceV (k : Kernel) (vs : List Nat) : Progs :=
  match vs with
  | [] => {}
  | v0 :: t =>
    let r := ((v0 :: t).zip (t ++ [v0])).foldl faceVStep (k, [])
    pFaceVFold ((v0 :: t).zip (t ++ [v0])) k ++ pAddFace r.1 r.2 false

theorem addFaceV_withP (k : Kernel) (p : Props) (vs : List Nat) :
    (k.withP p).addFaceV vs = ((k.addFaceV vs).1.withP ((pAddFaceV k vs).apply p), (k.addFaceV vs).2) ∧
    pAddFaceV (k.withP p) vs = pAddFaceV k vs := by
  cases vs with
  | nil => exact ⟨by simp [pAddFaceV]; rfl, rfl⟩
  | cons v0 t =>
    have h := faceVFold_withP ((v0 :: t).zip (t ++ [v0])) k p []
    refine ⟨?_, ?_⟩
    · rw [addFaceV_cons, addFaceV_cons, h.1]
      simp only [addFace_withP, pAddFaceV, Progs.apply_append]
    · simp only [pAddFaceV, h.1, h.2, pAddFace_withP]

/-! ### `reorder_incident_halffaces` reads the caches and the definitions only -/
theorem walkFwd_withP (k : Kernel) (p : Props) (heh start n fuel cur : Nat) (acc : List Nat) :
    (k.withP p).walkFwd heh start n fuel cur acc = k.walkFwd heh start n fuel cur acc := by
  induction fuel generalizing cur acc with
  | zero => rfl
  | succ fuel ih =>
    unfold walkFwd
    simp only []
    have h1 : (k.withP p).hfOnBoundaryOrDeleted cur = k.hfOnBoundaryOrDeleted cur := rfl
    have h2 : (k.withP p).adjHalffaceInCell cur heh = k.adjHalffaceInCell cur heh := rfl
    rw [h1, h2]
    split
    · rfl
    · split
      · rfl
      · split
        · rfl
        · split
          · rfl
          · exact ih _ _

theorem walkBwd_withP (k : Kernel) (p : Props) (hehOpp n fuel cur : Nat) (acc : List Nat) :
    (k.withP p).walkBwd hehOpp n fuel cur acc = k.walkBwd hehOpp n fuel cur acc := by
  induction fuel generalizing cur acc with
  | zero => rfl
  | succ fuel ih =>
    unfold walkBwd
    simp only []
    have h1 : (k.withP p).hfOnBoundaryOrDeleted (opp cur) = k.hfOnBoundaryOrDeleted (opp cur) := rfl
    have h2 : (k.withP p).adjHalffaceInCell (opp cur) hehOpp = k.adjHalffaceInCell (opp cur) hehOpp := rfl
    rw [h1, h2]
    split
    · rfl
    · split
      · rfl
      · split
        · rfl
        · exact ih _ _

theorem reorderList_withP (k : Kernel) (p : Props) (e : Nat) : (k.withP p).reorderList e = k.reorderList e := by
  unfold reorderList
  simp only [walkFwd_withP, walkBwd_withP]
  rfl

theorem reorder_withP (k : Kernel) (p : Props) (e : Nat) : (k.withP p).reorder e = (k.reorder e).withP p := by
  unfold reorder
  rw [reorderList_withP]
  split <;> rfl

theorem reorder_withP' (k1 k2 : Kernel) (p : Props) (e : Nat) (h1 : k1 = k2.withP p) :
    k1.reorder e = (k2.reorder e).withP p := by
  subst h1; exact reorder_withP _ _ _

theorem foldl_reorder_withP (es : List Nat) (k : Kernel) (p : Props) :
    es.foldl reorder (k.withP p) = (es.foldl reorder k).withP p := by
  induction es generalizing k with
  | nil => rfl
  | cons e t ih => simp only [List.foldl_cons, reorder_withP, ih]

theorem foldl_reorder_withP' (es es' : List Nat) (k1 k2 : Kernel) (p : Props) (h1 : k1 = k2.withP p) (h2 : es = es') :
    es.foldl reorder k1 = (es'.foldl reorder k2).withP p := by
  subst h1 h2; exact foldl_reorder_withP _ _ _

theorem addCellCore_withP (k : Kernel) (p : Props) (hfs : List Nat) :
    (k.withP p).addCellCore hfs = (k.addCellCore hfs).withP (Progs.apply { c := [.resize (k.nC + 1)] } p) := by
  rw [← resizeC_eq]
  unfold addCellCore
  simp only [withP_fBU, withP_eBU]
  by_cases hf : k.fBU = true
  · by_cases he : k.eBU = true
    · simp only [hf, he, if_true]
      apply foldl_reorder_withP' <;> rfl
    · simp only [hf, he, if_true, if_false]; rfl
  · simp only [hf, if_false]; rfl

def pAddCell (k : Kernel) (hfs : List Nat) (chk : Bool) : Progs :=
  if k.addCellAccepts hfs chk then { c := [.resize (k.nC + 1)] } else {}

theorem addCell_withP (k : Kernel) (p : Props) (hfs : List Nat) (chk : Bool) :
    (k.withP p).addCell hfs chk = ((k.addCell hfs chk).1.withP ((pAddCell k hfs chk).apply p), (k.addCell hfs chk).2) := by
  unfold addCell pAddCell
  have : (k.withP p).addCellAccepts hfs chk = k.addCellAccepts hfs chk := rfl
  rw [this]
  split
  · simp [addCellCore_withP]
  · simp
theorem pAddCell_withP (k : Kernel) (p : Props) (hfs : List Nat) (chk : Bool) : pAddCell (k.withP p) hfs chk = pAddCell k hfs chk := rfl

/-! ### `set_*` never touch a storage -/
theorem setEdge_withP (k : Kernel) (p : Props) (e a b : Nat) : (k.withP p).setEdge e a b = (k.setEdge e a b).withP p := rfl
theorem setFace_withP (k : Kernel) (p : Props) (f : Nat) (hes : List Nat) : (k.withP p).setFace f hes = (k.setFace f hes).withP p := rfl
theorem setCell_withP (k : Kernel) (p : Props) (c : Nat) (hfs : List Nat) : (k.withP p).setCell c hfs = (k.setCell c hfs).withP p := rfl

/-! ## index swaps -/
theorem swapVertex_withP (k : Kernel) (p : Props) (a b : Nat) :
    (k.withP p).swapVertex a b = (k.swapVertex a b).withP (Progs.apply { v := [.swap a b] } p) := by
  unfold swapVertex
  by_cases hab : a = b
  · subst hab; simp [apply_swapV_self]
  · have : (a == b) = false := by simpa using hab
    simp only [this]; rw [← swapVProps_eq]; rfl
theorem swapEdge_withP (k : Kernel) (p : Props) (a b : Nat) :
    (k.withP p).swapEdge a b = (k.swapEdge a b).withP (Progs.apply { e := [.swap a b] } p) := by
  unfold swapEdge
  by_cases hab : a = b
  · subst hab; simp [apply_swapE_self]
  · have : (a == b) = false := by simpa using hab
    simp only [this]; rw [← swapEProps_eq]; rfl
theorem swapFace_withP (k : Kernel) (p : Props) (a b : Nat) :
    (k.withP p).swapFace a b = (k.swapFace a b).withP (Progs.apply { f := [.swap a b] } p) := by
  unfold swapFace
  by_cases hab : a = b
  · subst hab; simp [apply_swapF_self]
  · have : (a == b) = false := by simpa using hab
    simp only [this]; rw [← swapFProps_eq]; rfl
theorem swapCell_withP (k : Kernel) (p : Props) (a b : Nat) :
    (k.withP p).swapCell a b = (k.swapCell a b).withP (Progs.apply { c := [.swap a b] } p) := by
  unfold swapCell
  by_cases hab : a = b
  · subst hab; simp [apply_swapC_self]
  · have : (a == b) = false := by simpa using hab
    simp only [this]; rw [← swapCProps_eq]; rfl

/-! ## deletion stages -/
theorem unlinkCell_withP (k : Kernel) (p : Props) (h : Nat) : (k.withP p).unlinkCell h = (k.unlinkCell h).withP p := by
  unfold unlinkCell
  simp only [withP_fBU, withP_eBU]
  by_cases hf : k.fBU = true
  · by_cases he : k.eBU = true
    · simp only [hf, he, if_true]
      apply foldl_reorder_withP' <;> rfl
    · simp only [hf, he, if_true, if_false]; rfl
  · simp only [hf, if_false]; rfl

theorem flagCell_withP (k : Kernel) (p : Props) (h : Nat) : (k.withP p).flagCell h = (k.flagCell h).withP p := rfl
theorem flagFace_withP (k : Kernel) (p : Props) (h : Nat) : (k.withP p).flagFace h = (k.flagFace h).withP p := rfl
theorem flagEdge_withP (k : Kernel) (p : Props) (h : Nat) : (k.withP p).flagEdge h = (k.flagEdge h).withP p := rfl
theorem flagVertex_withP (k : Kernel) (p : Props) (h : Nat) : (k.withP p).flagVertex h = (k.flagVertex h).withP p := rfl

theorem eraseCell_withP (k : Kernel) (p : Props) (h : Nat) :
    (k.withP p).eraseCell h = (k.eraseCell h).withP (Progs.apply { c := [.erase h] } p) := by
  rw [← cellDeleted_eq]; rfl
theorem eraseFace_withP (k : Kernel) (p : Props) (h : Nat) :
    (k.withP p).eraseFace h = (k.eraseFace h).withP (Progs.apply { f := [.erase h] } p) := by
  rw [← faceDeleted_eq]; rfl
theorem eraseEdge_withP (k : Kernel) (p : Props) (h : Nat) :
    (k.withP p).eraseEdge h = (k.eraseEdge h).withP (Progs.apply { e := [.erase h] } p) := by
  rw [← edgeDeleted_eq]; rfl
theorem eraseVertex_withP (k : Kernel) (p : Props) (h : Nat) :
    (k.withP p).eraseVertex h = (k.eraseVertex h).withP (Progs.apply { v := [.erase h] } p) := by
  rw [← vertexDeleted_eq]; rfl

theorem unlinkFaceStep_withP (k : Kernel) (p : Props) (h he : Nat) :
    unlinkFaceStep h (k.withP p) he = (unlinkFaceStep h k he).withP p := by
  unfold unlinkFaceStep
  simp only [withP_fBU]
  by_cases hf : k.fBU = true
  · simp only [hf, if_true]
    apply reorder_withP'; rfl
  · simp only [hf, if_false]; rfl

theorem unlinkFace_withP (k : Kernel) (p : Props) (h : Nat) : (k.withP p).unlinkFace h = (k.unlinkFace h).withP p := by
  unfold unlinkFace
  simp only [withP_eBU]
  by_cases he : k.eBU = true
  · simp only [he, if_true]
    have key : ∀ (xs : List Nat) (k : Kernel), xs.foldl (unlinkFaceStep h) (k.withP p) = (xs.foldl (unlinkFaceStep h) k).withP p := by
      intro xs
      induction xs with
      | nil => intro k; rfl
      | cons x t ih => intro k; simp only [List.foldl_cons, unlinkFaceStep_withP, ih]
    exact key _ k
  · simp only [he]; rfl

theorem unlinkEdge_withP (k : Kernel) (p : Props) (h : Nat) : (k.withP p).unlinkEdge h = (k.unlinkEdge h).withP p := by
  unfold unlinkEdge
  simp only [withP_vBU]
  by_cases hv : k.vBU = true
  · simp only [hv, if_true]; rfl
  · simp only [hv]; rfl

/-! ## the four `delete_*_core` -/
def pDelC (k : Kernel) (h0 : Nat) : Progs :=
  if k.deferred then {} else if k.fast then { c := [.swap h0 (k.nC - 1), .erase (k.nC - 1)] } else { c := [.erase h0] }
def pDelF (k : Kernel) (h0 : Nat) : Progs :=
  if k.deferred then {} else if k.fast then { f := [.swap h0 (k.nF - 1), .erase (k.nF - 1)] } else { f := [.erase h0] }
def pDelE (k : Kernel) (h0 : Nat) : Progs :=
  if k.deferred then {} else if k.fast then { e := [.swap h0 (k.nE - 1), .erase (k.nE - 1)] } else { e := [.erase h0] }
def pDelV (k : Kernel) (h0 : Nat) : Progs :=
  if k.deferred then {} else if k.fast then { v := [.swap h0 (k.nV - 1), .erase (k.nV - 1)] } else { v := [.erase h0] }

theorem deleteCellCore_withP (k : Kernel) (p : Props) (h0 : Nat) :
    (k.withP p).deleteCellCore h0 = (k.deleteCellCore h0).withP ((pDelC k h0).apply p) := by
  unfold deleteCellCore pDelC
  cases hd : k.deferred <;> cases hf : k.fast <;>
    simp [hd, hf, swapCell_withP, unlinkCell_withP, flagCell_withP, eraseCell_withP, ← Progs.apply_append] <;> rfl

theorem deleteFaceCore_withP (k : Kernel) (p : Props) (h0 : Nat) :
    (k.withP p).deleteFaceCore h0 = (k.deleteFaceCore h0).withP ((pDelF k h0).apply p) := by
  unfold deleteFaceCore pDelF
  cases hd : k.deferred <;> cases hf : k.fast <;>
    simp [hd, hf, swapFace_withP, unlinkFace_withP, flagFace_withP, eraseFace_withP, ← Progs.apply_append] <;> rfl
theorem deleteEdgeCore_withP (k : Kernel) (p : Props) (h0 : Nat) :
    (k.withP p).deleteEdgeCore h0 = (k.deleteEdgeCore h0).withP ((pDelE k h0).apply p) := by
  unfold deleteEdgeCore pDelE
  cases hd : k.deferred <;> cases hf : k.fast <;>
    simp [hd, hf, swapEdge_withP, unlinkEdge_withP, flagEdge_withP, eraseEdge_withP, ← Progs.apply_append] <;> rfl
theorem deleteVertexCore_withP (k : Kernel) (p : Props) (h0 : Nat) :
    (k.withP p).deleteVertexCore h0 = (k.deleteVertexCore h0).withP ((pDelV k h0).apply p) := by
  unfold deleteVertexCore pDelV
  cases hd : k.deferred <;> cases hf : k.fast <;>
    simp [hd, hf, swapVertex_withP, flagVertex_withP, eraseVertex_withP, ← Progs.apply_append] <;> rfl

theorem pDelC_withP (k : Kernel) (p : Props) (h : Nat) : pDelC (k.withP p) h = pDelC k h := rfl
theorem pDelF_withP (k : Kernel) (p : Props) (h : Nat) : pDelF (k.withP p) h = pDelF k h := rfl
theorem pDelE_withP (k : Kernel) (p : Props) (h : Nat) : pDelE (k.withP p) h = pDelE k h := rfl
theorem pDelV_withP (k : Kernel) (p : Props) (h : Nat) : pDelV (k.withP p) h = pDelV k h := rfl

/-! ### folds of cores -/
/-- program of `xs.foldl core k`, given the program `pc` of one `core` call -/
def foldP (core : Kernel → Nat → Kernel) (pc : Kernel → Nat → Progs) : List Nat → Kernel → Progs
  | [], _ => {}
  | x :: t, k => pc k x ++ foldP core pc t (core k x)

theorem foldl_withP (core : Kernel → Nat → Kernel) (pc : Kernel → Nat → Progs)
    (hc : ∀ k p x, core (k.withP p) x = (core k x).withP ((pc k x).apply p))
    (hp : ∀ k p x, pc (k.withP p) x = pc k x) (xs : List Nat) (k : Kernel) (p : Props) :
    xs.foldl core (k.withP p) = (xs.foldl core k).withP ((foldP core pc xs k).apply p) ∧
    foldP core pc xs (k.withP p) = foldP core pc xs k := by
  induction xs generalizing k p with
  | nil => simp [foldP]
  | cons x t ih =>
    simp only [List.foldl_cons, foldP, hc, hp, (ih _ _).1, (ih _ _).2, Progs.apply_append, and_self]

def pDeleteCell (k : Kernel) (c : Nat) : Progs := pDelC k c
def pDeleteFace (k : Kernel) (f : Nat) : Progs :=
  let cs := k.incidentCells [f]
  foldP deleteCellCore pDelC cs.reverse k ++ pDelF (cs.reverse.foldl deleteCellCore k) f
def pDeleteEdge (k : Kernel) (e : Nat) : Progs :=
  let fs := k.incidentFaces [e]
  let cs := k.incidentCells fs
  let k1 := cs.reverse.foldl deleteCellCore k
  let k2 := fs.reverse.foldl deleteFaceCore k1
  foldP deleteCellCore pDelC cs.reverse k ++ foldP deleteFaceCore pDelF fs.reverse k1 ++ pDelE k2 e
def pDeleteVertex (k : Kernel) (v : Nat) : Progs :=
  let es := k.incidentEdges [v]
  let fs := k.incidentFaces es
  let cs := k.incidentCells fs
  let k1 := cs.reverse.foldl deleteCellCore k
  let k2 := fs.reverse.foldl deleteFaceCore k1
  let k3 := es.reverse.foldl deleteEdgeCore k2
  foldP deleteCellCore pDelC cs.reverse k ++ foldP deleteFaceCore pDelF fs.reverse k1 ++
    foldP deleteEdgeCore pDelE es.reverse k2 ++ pDelV k3 v

theorem incidentCells_withP (k : Kernel) (p : Props) (fs : List Nat) : (k.withP p).incidentCells fs = k.incidentCells fs := rfl
theorem incidentFaces_withP (k : Kernel) (p : Props) (es : List Nat) : (k.withP p).incidentFaces es = k.incidentFaces es := rfl
theorem incidentEdges_withP (k : Kernel) (p : Props) (vs : List Nat) : (k.withP p).incidentEdges vs = k.incidentEdges vs := rfl

theorem foldC_withP (xs : List Nat) (k : Kernel) (p : Props) :
    xs.foldl deleteCellCore (k.withP p) = (xs.foldl deleteCellCore k).withP ((foldP deleteCellCore pDelC xs k).apply p) :=
  (foldl_withP deleteCellCore pDelC deleteCellCore_withP pDelC_withP xs k p).1
theorem foldPC_withP (xs : List Nat) (k : Kernel) (p : Props) :
    foldP deleteCellCore pDelC xs (k.withP p) = foldP deleteCellCore pDelC xs k :=
  (foldl_withP deleteCellCore pDelC deleteCellCore_withP pDelC_withP xs k p).2
theorem foldF_withP (xs : List Nat) (k : Kernel) (p : Props) :
    xs.foldl deleteFaceCore (k.withP p) = (xs.foldl deleteFaceCore k).withP ((foldP deleteFaceCore pDelF xs k).apply p) :=
  (foldl_withP deleteFaceCore pDelF deleteFaceCore_withP pDelF_withP xs k p).1
theorem foldPF_withP (xs : List Nat) (k : Kernel) (p : Props) :
    foldP deleteFaceCore pDelF xs (k.withP p) = foldP deleteFaceCore pDelF xs k :=
  (foldl_withP deleteFaceCore pDelF deleteFaceCore_withP pDelF_withP xs k p).2
theorem foldE_withP (xs : List Nat) (k : Kernel) (p : Props) :
    xs.foldl deleteEdgeCore (k.withP p) = (xs.foldl deleteEdgeCore k).withP ((foldP deleteEdgeCore pDelE xs k).apply p) :=
  (foldl_withP deleteEdgeCore pDelE deleteEdgeCore_withP pDelE_withP xs k p).1
theorem foldPE_withP (xs : List Nat) (k : Kernel) (p : Props) :
    foldP deleteEdgeCore pDelE xs (k.withP p) = foldP deleteEdgeCore pDelE xs k :=
  (foldl_withP deleteEdgeCore pDelE deleteEdgeCore_withP pDelE_withP xs k p).2

theorem deleteFace_withP (k : Kernel) (p : Props) (f : Nat) :
    (k.withP p).deleteFace f = (k.deleteFace f).withP ((pDeleteFace k f).apply p) ∧
    pDeleteFace (k.withP p) f = pDeleteFace k f := by
  unfold deleteFace pDeleteFace
  simp only [incidentCells_withP, foldC_withP, foldPC_withP, deleteFaceCore_withP, pDelF_withP,
    Progs.apply_append, and_self]

theorem deleteEdge_withP (k : Kernel) (p : Props) (e : Nat) :
    (k.withP p).deleteEdge e = (k.deleteEdge e).withP ((pDeleteEdge k e).apply p) ∧
    pDeleteEdge (k.withP p) e = pDeleteEdge k e := by
  unfold deleteEdge pDeleteEdge
  simp only [incidentCells_withP, incidentFaces_withP, foldC_withP, foldPC_withP,
    foldF_withP, foldPF_withP, deleteEdgeCore_withP, pDelE_withP,
    Progs.apply_append, and_self]

theorem deleteVertex_withP (k : Kernel) (p : Props) (v : Nat) :
    (k.withP p).deleteVertex v = (k.deleteVertex v).withP ((pDeleteVertex k v).apply p) ∧
    pDeleteVertex (k.withP p) v = pDeleteVertex k v := by
  unfold deleteVertex pDeleteVertex
  simp only [incidentCells_withP, incidentFaces_withP, incidentEdges_withP, foldC_withP, foldPC_withP,
    foldF_withP, foldPF_withP, foldE_withP, foldPE_withP,
    deleteVertexCore_withP, pDelV_withP, Progs.apply_append, and_self]

/-! ## garbage collection -/
/-- program of one sweep over the index list `xs` -/
def sweepP (isDel : Kernel → Nat → Bool) (unflag core : Kernel → Nat → Kernel) (pc : Kernel → Nat → Progs) :
    List Nat → Kernel → Progs
  | [], _ => {}
  | i :: t, k =>
    if isDel k i then pc (unflag k i) i ++ sweepP isDel unflag core pc t (core (unflag k i) i)
    else sweepP isDel unflag core pc t k

theorem sweep_withP (isDel : Kernel → Nat → Bool) (unflag core : Kernel → Nat → Kernel) (pc : Kernel → Nat → Progs)
    (hi : ∀ k p i, isDel (k.withP p) i = isDel k i)
    (hu : ∀ k p i, unflag (k.withP p) i = (unflag k i).withP p)
    (hc : ∀ k p x, core (k.withP p) x = (core k x).withP ((pc k x).apply p))
    (hp : ∀ k p x, pc (k.withP p) x = pc k x) (xs : List Nat) (k : Kernel) (p : Props) :
    xs.foldl (fun k i => if isDel k i then core (unflag k i) i else k) (k.withP p) =
      (xs.foldl (fun k i => if isDel k i then core (unflag k i) i else k) k).withP
        ((sweepP isDel unflag core pc xs k).apply p) ∧
    sweepP isDel unflag core pc xs (k.withP p) = sweepP isDel unflag core pc xs k := by
  induction xs generalizing k p with
  | nil => simp [sweepP]
  | cons x t ih =>
    simp only [List.foldl_cons, sweepP, hi]
    by_cases h : isDel k x = true
    · simp only [h, if_true, hu, hc, hp]
      have := ih (core (unflag k x) x) ((pc (unflag k x) x).apply p)
      rw [this.1, this.2, Progs.apply_append]
      exact ⟨rfl, rfl⟩
    · simp only [h]
      exact ih k p

def pGcCells (k : Kernel) : Progs :=
  sweepP cDeleted (fun k i => { k with cDel := k.cDel.set i false }) deleteCellCore pDelC (List.range k.nC).reverse k
def pGcFaces (k : Kernel) : Progs :=
  sweepP fDeleted (fun k i => { k with fDel := k.fDel.set i false }) deleteFaceCore pDelF (List.range k.nF).reverse k
def pGcEdges (k : Kernel) : Progs :=
  sweepP eDeleted (fun k i => { k with eDel := k.eDel.set i false }) deleteEdgeCore pDelE (List.range k.nE).reverse k
def pGcVerts (k : Kernel) : Progs :=
  sweepP vDeleted (fun k i => { k with vDel := k.vDel.set i false }) deleteVertexCore pDelV (List.range k.nV).reverse k

theorem gcCells_withP' (k : Kernel) (p : Props) :
    gcCells (k.withP p) = (gcCells k).withP ((pGcCells k).apply p) ∧ pGcCells (k.withP p) = pGcCells k := by
  have h := sweep_withP cDeleted (fun k i => { k with cDel := k.cDel.set i false }) deleteCellCore pDelC
    (fun _ _ _ => rfl) (fun _ _ _ => rfl) deleteCellCore_withP pDelC_withP (List.range k.nC).reverse k p
  refine ⟨?_, h.2⟩
  unfold gcCells gcSweep pGcCells
  rw [withP_nC, h.1]; rfl
theorem gcFaces_withP' (k : Kernel) (p : Props) :
    gcFaces (k.withP p) = (gcFaces k).withP ((pGcFaces k).apply p) ∧ pGcFaces (k.withP p) = pGcFaces k := by
  have h := sweep_withP fDeleted (fun k i => { k with fDel := k.fDel.set i false }) deleteFaceCore pDelF
    (fun _ _ _ => rfl) (fun _ _ _ => rfl) deleteFaceCore_withP pDelF_withP (List.range k.nF).reverse k p
  refine ⟨?_, h.2⟩
  unfold gcFaces gcSweep pGcFaces
  rw [withP_nF, h.1]; rfl
theorem gcEdges_withP' (k : Kernel) (p : Props) :
    gcEdges (k.withP p) = (gcEdges k).withP ((pGcEdges k).apply p) ∧ pGcEdges (k.withP p) = pGcEdges k := by
  have h := sweep_withP eDeleted (fun k i => { k with eDel := k.eDel.set i false }) deleteEdgeCore pDelE
    (fun _ _ _ => rfl) (fun _ _ _ => rfl) deleteEdgeCore_withP pDelE_withP (List.range k.nE).reverse k p
  refine ⟨?_, h.2⟩
  unfold gcEdges gcSweep pGcEdges
  rw [withP_nE, h.1]; rfl
theorem gcVerts_withP' (k : Kernel) (p : Props) :
    gcVerts (k.withP p) = (gcVerts k).withP ((pGcVerts k).apply p) ∧ pGcVerts (k.withP p) = pGcVerts k := by
  have h := sweep_withP vDeleted (fun k i => { k with vDel := k.vDel.set i false }) deleteVertexCore pDelV
    (fun _ _ _ => rfl) (fun _ _ _ => rfl) deleteVertexCore_withP pDelV_withP (List.range k.nV).reverse k p
  refine ⟨?_, h.2⟩
  unfold gcVerts gcSweep pGcVerts
  rw [withP_nV, h.1]; rfl

theorem gcCells_withP (k : Kernel) (p : Props) : gcCells (k.withP p) = (gcCells k).withP ((pGcCells k).apply p) := (gcCells_withP' k p).1
theorem pGcCells_withP (k : Kernel) (p : Props) : pGcCells (k.withP p) = pGcCells k := (gcCells_withP' k p).2
theorem gcFaces_withP (k : Kernel) (p : Props) : gcFaces (k.withP p) = (gcFaces k).withP ((pGcFaces k).apply p) := (gcFaces_withP' k p).1
theorem pGcFaces_withP (k : Kernel) (p : Props) : pGcFaces (k.withP p) = pGcFaces k := (gcFaces_withP' k p).2
theorem gcEdges_withP (k : Kernel) (p : Props) : gcEdges (k.withP p) = (gcEdges k).withP ((pGcEdges k).apply p) := (gcEdges_withP' k p).1
theorem pGcEdges_withP (k : Kernel) (p : Props) : pGcEdges (k.withP p) = pGcEdges k := (gcEdges_withP' k p).2
theorem gcVerts_withP (k : Kernel) (p : Props) : gcVerts (k.withP p) = (gcVerts k).withP ((pGcVerts k).apply p) := (gcVerts_withP' k p).1
theorem pGcVerts_withP (k : Kernel) (p : Props) : pGcVerts (k.withP p) = pGcVerts k := (gcVerts_withP' k p).2

/-- the four sweeps in the order of `collect_garbage` -/
def gcAll (k : Kernel) : Kernel := gcVerts (gcEdges (gcFaces (gcCells k)))
def pGcAll (k : Kernel) : Progs :=
  pGcCells k ++ pGcFaces (gcCells k) ++ pGcEdges (gcFaces (gcCells k)) ++ pGcVerts (gcEdges (gcFaces (gcCells k)))

theorem gcAll_withP (k : Kernel) (p : Props) : gcAll (k.withP p) = (gcAll k).withP ((pGcAll k).apply p) := by
  unfold gcAll pGcAll
  rw [gcCells_withP, gcFaces_withP, gcEdges_withP, gcVerts_withP]
  simp only [Progs.apply_append]
theorem pGcAll_withP (k : Kernel) (p : Props) : pGcAll (k.withP p) = pGcAll k := by
  unfold pGcAll
  rw [gcCells_withP, gcFaces_withP, gcEdges_withP, pGcCells_withP, pGcFaces_withP, pGcEdges_withP, pGcVerts_withP]

theorem collectGarbage_eq (k : Kernel) :
    k.collectGarbage = if !k.deferred || !k.needsGC then k else { gcAll { k with deferred := false } with deferred := true } := rfl

/-- program of `collect_garbage` -/
def pCollectGarbage (k : Kernel) : Progs :=
  if !k.deferred || !k.needsGC then {} else pGcAll { k with deferred := false }

theorem collectGarbage_withP (k : Kernel) (p : Props) :
    (k.withP p).collectGarbage = k.collectGarbage.withP ((pCollectGarbage k).apply p) := by
  rw [collectGarbage_eq, collectGarbage_eq]
  unfold pCollectGarbage
  have hn : (k.withP p).needsGC = k.needsGC := rfl
  simp only [withP_deferred, hn]
  by_cases hc : (!k.deferred || !k.needsGC) = true
  · simp only [hc, if_true]; simp
  · simp only [hc]
    have e0 : ({ k.withP p with deferred := false } : Kernel) = ({ k with deferred := false } : Kernel).withP p := rfl
    rw [e0, gcAll_withP]; rfl
theorem pCollectGarbage_withP (k : Kernel) (p : Props) : pCollectGarbage (k.withP p) = pCollectGarbage k := by
  unfold pCollectGarbage
  have hn : (k.withP p).needsGC = k.needsGC := rfl
  have e0 : ({ k.withP p with deferred := false } : Kernel) = ({ k with deferred := false } : Kernel).withP p := rfl
  simp only [withP_deferred, hn, e0, pGcAll_withP]

/-! ## mode switches, incidence toggles, clear -/
def pEnableDeferred (k : Kernel) (b : Bool) : Progs := if k.deferred && !b then pCollectGarbage k else {}

theorem enableDeferred_withP (k : Kernel) (p : Props) (b : Bool) :
    (k.withP p).enableDeferred b = (k.enableDeferred b).withP ((pEnableDeferred k b).apply p) := by
  unfold enableDeferred pEnableDeferred
  simp only [withP_deferred]
  by_cases hc : (k.deferred && !b) = true
  · simp only [hc, if_true, collectGarbage_withP]; rfl
  · simp only [hc]; simp; rfl
theorem pEnableDeferred_withP (k : Kernel) (p : Props) (b : Bool) : pEnableDeferred (k.withP p) b = pEnableDeferred k b := by
  unfold pEnableDeferred; simp only [withP_deferred, pCollectGarbage_withP]

theorem enableFast_withP (k : Kernel) (p : Props) (b : Bool) : (k.withP p).enableFast b = (k.enableFast b).withP p := rfl

theorem enableVBU_withP (k : Kernel) (p : Props) (b : Bool) : (k.withP p).enableVBU b = (k.enableVBU b).withP p := by
  unfold enableVBU
  cases b
  · rfl
  · simp only [withP_vBU, if_true]
    by_cases hv : k.vBU = true
    · simp only [hv, if_true]
    · simp only [hv]; rfl

theorem reorderAll_withP (k : Kernel) (p : Props) : (k.withP p).reorderAll = k.reorderAll.withP p := by
  unfold reorderAll
  have : (k.withP p).liveEdges = k.liveEdges := rfl
  rw [this, foldl_reorder_withP]

theorem reorderAll_withP' (k1 k2 : Kernel) (p : Props) (h : k1 = k2.withP p) : k1.reorderAll = k2.reorderAll.withP p := by
  subst h; exact reorderAll_withP _ _

theorem enableEBU_of (K : Kernel) (h : K.eBU = false) (h' : K.fBU = true) :
    K.enableEBU true = { ({K with incHfs := K.computeEBU} : Kernel).reorderAll with eBU := true } := by
  unfold enableEBU
  rw [if_pos rfl, if_neg (by simp [h]), if_pos h']
theorem enableEBU_of2 (K : Kernel) (h : K.eBU = false) (h' : K.fBU = false) :
    K.enableEBU true = { ({K with incHfs := K.computeEBU} : Kernel) with eBU := true } := by
  unfold enableEBU
  rw [if_pos rfl, if_neg (by simp [h]), if_neg (by simp [h'])]

theorem enableEBU_withP (k : Kernel) (p : Props) (b : Bool) : (k.withP p).enableEBU b = (k.enableEBU b).withP p := by
  cases b
  · rfl
  · by_cases he : k.eBU = true
    · have h1 : (k.withP p).enableEBU true = k.withP p := by
        unfold enableEBU; rw [if_pos rfl, if_pos (show (k.withP p).eBU = true from he)]
      have h2 : k.enableEBU true = k := by unfold enableEBU; rw [if_pos rfl, if_pos he]
      rw [h1, h2]
    · have he' : k.eBU = false := by simpa using he
      by_cases hf : k.fBU = true
      · rw [enableEBU_of _ (show (k.withP p).eBU = false from he') (show (k.withP p).fBU = true from hf),
          enableEBU_of _ he' hf]
        rw [show ({ k.withP p with incHfs := (k.withP p).computeEBU } : Kernel) =
          ({ k with incHfs := k.computeEBU } : Kernel).withP p from rfl, reorderAll_withP]
        rfl
      · have hf' : k.fBU = false := by simpa using hf
        rw [enableEBU_of2 _ (show (k.withP p).eBU = false from he') (show (k.withP p).fBU = false from hf'),
          enableEBU_of2 _ he' hf']
        rfl

theorem enableFBU_withP (k : Kernel) (p : Props) (b : Bool) : (k.withP p).enableFBU b = (k.enableFBU b).withP p := by
  unfold enableFBU
  cases b
  · rfl
  · simp only [withP_eBU, withP_fBU, if_true]
    by_cases hf : k.fBU = true
    · simp only [hf, if_true]
    · by_cases he : k.eBU = true
      · simp only [he, hf, if_true]
        apply reorderAll_withP'; rfl
      · simp only [he, hf]; rfl

def pClear : Progs := { v := [.resize 0], e := [.resize 0], f := [.resize 0], c := [.resize 0] }

theorem clear_props_eq (p : Props) : resizeC (resizeF (resizeE (resizeV p 0) 0) 0) 0 = pClear.apply p := by
  rw [resizeC_eq, resizeF_eq, resizeE_eq, resizeV_eq, ← Progs.apply_append, ← Progs.apply_append, ← Progs.apply_append]
  rfl

theorem clear_withP (k : Kernel) (p : Props) (b : Bool) : (k.withP p).clear b = (k.clear b).withP (pClear.apply p) := by
  rw [← clear_props_eq]; rfl

/-! ## every operation -/

/-- **the slot programs of one operation**: what `op`, issued in state `k`, does to every column
    of each kind.  Depends on the topology, the flags and the modes of `k` — never on `k.props`
    (`progOf_withP`). -/
def progOf (k : Kernel) : Op → Progs
  | .addVertex => { v := [.resize (k.nV + 1)] }
  | .addNVertices n => { v := [.resize (k.nV + n)] }
  | .addEdge a b dup => pAddEdge k a b dup
  | .addFaceHe chk hes => pAddFace k hes chk
  | .addFaceV vs => pAddFaceV k vs
  | .addCell chk hfs => pAddCell k hfs chk
  | .setEdge _ _ _ => {}
  | .setFace _ _ => {}
  | .setCell _ _ => {}
  | .deleteVertex v => pDeleteVertex k v
  | .deleteEdge e => pDeleteEdge k e
  | .deleteFace f => pDeleteFace k f
  | .deleteCell c => pDelC k c
  | .swapVertex a b => { v := [.swap a b] }
  | .swapEdge a b => { e := [.swap a b] }
  | .swapFace a b => { f := [.swap a b] }
  | .swapCell a b => { c := [.swap a b] }
  | .collectGarbage => pCollectGarbage k
  | .enableDeferred b => pEnableDeferred k b
  | .enableFast _ => {}
  | .enableBU _ _ => {}
  | .clear _ => pClear

/-- **non-interference + uniformity**: running `op` on the same mesh with other storages `p`
    gives the same mesh, the same return value, and storages `(progOf k op).apply p` -/
theorem step_withP (k : Kernel) (p : Props) (op : Op) :
    (k.withP p).step op = ((k.step op).1.withP ((progOf k op).apply p), (k.step op).2) := by
  cases op with
  | addVertex => simp only [step, progOf, addVertex_withP] <;> rfl
  | addNVertices n => simp only [step, progOf, addNVertices_withP] <;> rfl
  | addEdge a b d => simp only [step, progOf, addEdge_withP] <;> rfl
  | addFaceHe c hes => simp only [step, progOf, addFace_withP] <;> rfl
  | addFaceV vs => simp only [step, progOf, (addFaceV_withP k p vs).1] <;> rfl
  | addCell c hfs => simp only [step, progOf, addCell_withP] <;> rfl
  | setEdge e a b => simp only [step, progOf, setEdge_withP, Progs.apply_nil] <;> rfl
  | setFace f hes => simp only [step, progOf, setFace_withP, Progs.apply_nil] <;> rfl
  | setCell c hfs => simp only [step, progOf, setCell_withP, Progs.apply_nil] <;> rfl
  | deleteVertex v => simp only [step, progOf, (deleteVertex_withP k p v).1]; rfl
  | deleteEdge e => simp only [step, progOf, (deleteEdge_withP k p e).1]; rfl
  | deleteFace f => simp only [step, progOf, (deleteFace_withP k p f).1]; rfl
  | deleteCell c => simp only [step, progOf, deleteCell, deleteCellCore_withP]; rfl
  | swapVertex a b => simp only [step, progOf, swapVertex_withP] <;> rfl
  | swapEdge a b => simp only [step, progOf, swapEdge_withP] <;> rfl
  | swapFace a b => simp only [step, progOf, swapFace_withP] <;> rfl
  | swapCell a b => simp only [step, progOf, swapCell_withP] <;> rfl
  | collectGarbage => simp only [step, progOf, collectGarbage_withP] <;> rfl
  | enableDeferred b => simp only [step, progOf, enableDeferred_withP] <;> rfl
  | enableFast b => simp only [step, progOf, enableFast_withP, Progs.apply_nil] <;> rfl
  | enableBU kind b =>
    simp only [step, progOf, enableVBU_withP, enableEBU_withP, enableFBU_withP, Progs.apply_nil]
    split
    · rfl
    · split <;> rfl
  | clear c => simp only [step, progOf, clear_withP] <;> rfl

theorem progOf_withP (k : Kernel) (p : Props) (op : Op) : progOf (k.withP p) op = progOf k op := by
  cases op with
  | addFaceV vs => exact (addFaceV_withP k p vs).2
  | deleteVertex v => exact (deleteVertex_withP k p v).2
  | deleteEdge e => exact (deleteEdge_withP k p e).2
  | deleteFace f => exact (deleteFace_withP k p f).2
  | collectGarbage => exact pCollectGarbage_withP k p
  | enableDeferred b => exact pEnableDeferred_withP k p b
  | _ => rfl

/-- the programs of a whole history -/
def progRun : Kernel → List Op → Progs
  | _, [] => {}
  | k, op :: t => progOf k op ++ progRun (k.step op).1 t

theorem run_withP (k : Kernel) (p : Props) (ops : List Op) :
    (k.withP p).run ops = (k.run ops).withP ((progRun k ops).apply p) ∧ progRun (k.withP p) ops = progRun k ops := by
  induction ops generalizing k p with
  | nil => simp [run, progRun]
  | cons op t ih =>
    simp only [run, List.foldl_cons, progRun, step_withP, progOf_withP]
    have := ih (k.step op).1 ((progOf k op).apply p)
    simp only [run] at this
    rw [this.1, this.2, Progs.apply_append]
    exact ⟨rfl, rfl⟩

/-- **every operation transforms all columns of a kind by one and the same slot program** -/
theorem step_props (k : Kernel) (op : Op) : (k.step op).1.props = (progOf k op).apply k.props := by
  have := congrArg (fun r => r.1.props) (step_withP k k.props op)
  simpa using this

theorem run_props (k : Kernel) (ops : List Op) : (k.run ops).props = (progRun k ops).apply k.props := by
  have := congrArg Kernel.props (run_withP k k.props ops).1
  simpa using this

end Kernel
end OVM

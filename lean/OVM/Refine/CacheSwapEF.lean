import OVM.Refine.CacheSwap
/-
  Preservation of `WF = LenInv ∧ RangeInv ∧ CacheInv` by `swap_edge_indices` and
  `swap_face_indices` (Kernel/Swap.lean; TopologyKernel.cc:1478-1735), for in-range handles, in
  every bottom-up configuration (cache-guided variant with its processed-set, or the linear scan
  used when the guiding incidence kind is off), and of C01's precondition `oneCell` by all swaps.
  The key facts, each a lemma below:
    * `relabelHalf a b` (exchange `2a+s ↔ 2b+s`) is an involution that commutes with `opp`;
    * the double slot exchange `swapAt (swapAt l 2a 2b) (2a+1) (2b+1)` read through `getD` is
      re-indexing by `relabelHalf` (`k3_getD_swapAt2`);
    * every LIVE face / cell is relabelled exactly once (`swapEdge_faceAt_live`,
      `swapFace_cellAt_live`): visited through the exact cache, or the relabeling is the identity on it.
      Definitions of flagged (deferred-deleted) faces / cells are not reachable through the caches and
      may keep the old name (DESIGN.md §4 C17) — they stay in range (`swapEdge_faces_mem`);
    * the scans after the swap are the old scans re-indexed (`swapEdge_sOut_perm`,
      `swapEdge_sHfsOfHe`, `swapFace_sHfsOfHe_perm`, `swapFace_sCellOf`).
-/
namespace OVM
namespace Kernel
open ScanDel

/-! ### the half-entity relabeling `ρ = relabelHalf a b` -/
theorem k3_relabelHalf_div (a b h : Nat) : relabelHalf a b h / 2 = relabelId a b (h / 2) := by
  unfold relabelHalf relabelId; simp only [beq_iff_eq]; split
  · omega
  · split <;> omega

theorem k3_relabelHalf_mod (a b h : Nat) : relabelHalf a b h % 2 = h % 2 := by
  unfold relabelHalf; simp only [beq_iff_eq]; split
  · omega
  · split <;> omega

theorem k3_relabelHalf_invol (a b h : Nat) : relabelHalf a b (relabelHalf a b h) = h := by
  have h1 : relabelHalf a b (relabelHalf a b h) / 2 = h / 2 := by
    rw [k3_relabelHalf_div, k3_relabelHalf_div, relabelId_invol]
  have h2 : relabelHalf a b (relabelHalf a b h) % 2 = h % 2 := by
    rw [k3_relabelHalf_mod, k3_relabelHalf_mod]
  omega

theorem k3_relabelHalf_eq_iff (a b x y : Nat) : relabelHalf a b x = y ↔ x = relabelHalf a b y := by
  constructor
  · intro h; rw [← h, k3_relabelHalf_invol]
  · intro h; rw [h, k3_relabelHalf_invol]

theorem k3_relabelHalf_even (a b e : Nat) : relabelHalf a b (2 * e) = 2 * relabelId a b e := by
  have h1 := k3_relabelHalf_div a b (2 * e)
  have h2 := k3_relabelHalf_mod a b (2 * e)
  rw [show 2 * e / 2 = e by omega] at h1
  omega

theorem k3_relabelHalf_odd (a b e : Nat) : relabelHalf a b (2 * e + 1) = 2 * relabelId a b e + 1 := by
  have h1 := k3_relabelHalf_div a b (2 * e + 1)
  have h2 := k3_relabelHalf_mod a b (2 * e + 1)
  rw [show (2 * e + 1) / 2 = e by omega] at h1
  omega

theorem k3_relabelHalf_opp (a b h : Nat) : relabelHalf a b (opp h) = opp (relabelHalf a b h) := by
  have hx : h = 2 * (h / 2) ∨ h = 2 * (h / 2) + 1 := by omega
  rcases hx with hx | hx
  · rw [hx, opp_two_mul, k3_relabelHalf_even, k3_relabelHalf_odd, opp_two_mul]
  · rw [hx, opp_two_mul_succ, k3_relabelHalf_even, k3_relabelHalf_odd, opp_two_mul_succ]

theorem k3_relabelHalf_lt {a b n h : Nat} (ha : a < n) (hb : b < n) (hh : h < 2 * n) :
    relabelHalf a b h < 2 * n := by
  have h1 := k3_relabelHalf_div a b h
  have h2 : relabelId a b (h / 2) < n := relabelId_lt ha hb (by omega)
  omega

theorem k3_relabelHalf_lt_iff {a b n h : Nat} (ha : a < n) (hb : b < n) :
    relabelHalf a b h < 2 * n ↔ h < 2 * n := by
  constructor
  · intro hh; have := k3_relabelHalf_lt ha hb hh; rwa [k3_relabelHalf_invol] at this
  · exact k3_relabelHalf_lt ha hb

theorem k3_relabelHalf_off {a b h : Nat} (h1 : h / 2 ≠ a) (h2 : h / 2 ≠ b) : relabelHalf a b h = h := by
  unfold relabelHalf; simp [h1, h2]

theorem k3_map_relabelHalf_id (a b : Nat) (l : List Nat) (h : ∀ x ∈ l, x / 2 ≠ a ∧ x / 2 ≠ b) :
    l.map (relabelHalf a b) = l := by
  induction l with
  | nil => rfl
  | cons x t ih =>
    simp only [List.map_cons]
    rw [ih (fun y hy => h y (by simp [hy])), k3_relabelHalf_off (h x (by simp)).1 (h x (by simp)).2]

theorem k3_mem_map_relabelHalf (a b x : Nat) (l : List Nat) :
    x ∈ l.map (relabelHalf a b) ↔ relabelHalf a b x ∈ l := by
  simp only [List.mem_map]
  constructor
  · rintro ⟨y, hy, rfl⟩; rwa [k3_relabelHalf_invol]
  · intro h; exact ⟨_, h, k3_relabelHalf_invol a b x⟩

theorem k3_count_map_relabelHalf (a b y : Nat) (l : List Nat) :
    (l.map (relabelHalf a b)).count y = l.count (relabelHalf a b y) := by
  induction l with
  | nil => rfl
  | cons x t ih =>
    simp only [List.map_cons, List.count_cons, ih]
    congr 1
    by_cases e : x = relabelHalf a b y
    · subst e; simp [k3_relabelHalf_invol]
    · have : relabelHalf a b x ≠ y := fun e2 => e ((k3_relabelHalf_eq_iff a b x y).mp e2)
      simp [e, this]

theorem k3_contains_map_relabelHalf (a b x : Nat) (l : List Nat) :
    (l.map (relabelHalf a b)).contains x = l.contains (relabelHalf a b x) := by
  rw [Bool.eq_iff_iff]; simp only [List.contains_iff_mem]; exact k3_mem_map_relabelHalf a b x l

theorem k3_oppFace_map_relabelHalf (a b : Nat) (l : List Nat) :
    oppFace (l.map (relabelHalf a b)) = (oppFace l).map (relabelHalf a b) := by
  unfold oppFace
  rw [← List.map_reverse, List.map_map, List.map_map]
  apply List.map_congr_left
  intro x _
  simp only [Function.comp, k3_relabelHalf_opp]

theorem k3_nodup_map_relabelHalf (a b : Nat) {l : List Nat} (h : l.Nodup) : (l.map (relabelHalf a b)).Nodup :=
  List.Pairwise.map _ (fun x y hxy e => hxy (by rw [← k3_relabelHalf_invol a b x, e, k3_relabelHalf_invol])) h

/-- the two slot exchanges `(2a ↔ 2b)`, `(2a+1 ↔ 2b+1)` read through `getD` -/
theorem k3_getD_swapAt2 {α} (l : List α) (a b n : Nat) (d : α) (ha : 2 * a + 1 < l.length)
    (hb : 2 * b + 1 < l.length) :
    (swapAt (swapAt l (2 * a) (2 * b)) (2 * a + 1) (2 * b + 1)).getD n d = l.getD (relabelHalf a b n) d := by
  rw [getD_swapAt _ _ _ _ _ (by simpa using ha) (by simpa using hb),
    getD_swapAt _ _ _ _ _ (by omega) (by omega)]
  congr 1
  unfold relabelId relabelHalf
  simp only [beq_iff_eq]
  repeat' split
  all_goals omega

theorem k3_mem_swapAt2 {α} (l : List α) (a b : Nat) (x : α) (ha : 2 * a + 1 < l.length) (hb : 2 * b + 1 < l.length) :
    x ∈ swapAt (swapAt l (2 * a) (2 * b)) (2 * a + 1) (2 * b + 1) ↔ x ∈ l := by
  rw [mem_swapAt _ _ _ _ (by simpa using ha) (by simpa using hb), mem_swapAt _ _ _ _ (by omega) (by omega)]

theorem k3_flatMap_congr {α β} {l : List α} {f g : α → List β} (h : ∀ x ∈ l, f x = g x) :
    l.flatMap f = l.flatMap g := by
  induction l with
  | nil => rfl
  | cons a t ih =>
    simp only [List.flatMap_cons]
    rw [h a (by simp), ih (fun x hx => h x (by simp [hx]))]

/-- `getD` through a fold of `modify` with a function that fixes the default -/
theorem k3_foldl_modify_getD {α} (g : α → α) (d : α) (hd : g d = d) (L : List Nat) (hn : L.Nodup) (l : List α) (x : Nat) :
    (L.foldl (fun m i => m.modify i g) l).getD x d = if x ∈ L then g (l.getD x d) else l.getD x d := by
  simp only [List.getD_eq_getElem?_getD]
  rw [foldl_modify_getElem? g L hn]
  split
  · cases l[x]? <;> simp [hd]
  · rfl

/-! ### swap_edge_indices: observers -/
theorem swapEdge_cells (k : Kernel) (a b : Nat) : (k.swapEdge a b).cells = k.cells := by unfold swapEdge; split <;> rfl
theorem swapEdge_vDel (k : Kernel) (a b : Nat) : (k.swapEdge a b).vDel = k.vDel := by unfold swapEdge; split <;> rfl
theorem swapEdge_fDel (k : Kernel) (a b : Nat) : (k.swapEdge a b).fDel = k.fDel := by unfold swapEdge; split <;> rfl
theorem swapEdge_cDel (k : Kernel) (a b : Nat) : (k.swapEdge a b).cDel = k.cDel := by unfold swapEdge; split <;> rfl
theorem swapEdge_incCell (k : Kernel) (a b : Nat) : (k.swapEdge a b).incCell = k.incCell := by unfold swapEdge; split <;> rfl
theorem swapEdge_edges_length (k : Kernel) (a b : Nat) : (k.swapEdge a b).edges.length = k.edges.length := by
  unfold swapEdge; split
  · rfl
  · simp
theorem swapEdge_faces_length (k : Kernel) (a b : Nat) : (k.swapEdge a b).faces.length = k.faces.length := by
  unfold swapEdge; split
  · rfl
  · simp only []; exact length_foldl_modify_gen _ _ _

section swapEdgeObs
variable {k : Kernel} {a b : Nat} (hab : a ≠ b) (ha : a < k.nE) (hb : b < k.nE)
include hab ha hb

theorem swapEdge_edgeAt (e : Nat) : (k.swapEdge a b).edgeAt e = k.edgeAt (relabelId a b e) := by
  have hne : (a == b) = false := by simp [hab]
  unfold edgeAt swapEdge
  simp only [hne, Bool.false_eq_true, if_false]
  exact getD_swapAt _ _ _ _ _ ha hb

theorem swapEdge_eDeleted (hl : k.eDel.length = k.nE) (e : Nat) :
    (k.swapEdge a b).eDeleted e = k.eDeleted (relabelId a b e) := by
  have hne : (a == b) = false := by simp [hab]
  unfold eDeleted swapEdge
  simp only [hne, Bool.false_eq_true, if_false]
  exact getD_swapAt _ _ _ _ _ (by rw [hl]; exact ha) (by rw [hl]; exact hb)

theorem swapEdge_liveE (hl : k.eDel.length = k.nE) (e : Nat) :
    (k.swapEdge a b).liveE e = k.liveE (relabelId a b e) := by
  unfold liveE
  rw [swapEdge_eDeleted hab ha hb hl]
  have hn : (k.swapEdge a b).nE = k.nE := swapEdge_edges_length k a b
  rw [hn]
  congr 1
  by_cases hc : e < k.nE
  · simp [hc, relabelId_lt ha hb hc]
  · have : ¬ relabelId a b e < k.nE := by
      intro h
      have := relabelId_lt ha hb h
      rw [relabelId_invol] at this; exact hc this
    simp [hc, this]

theorem swapEdge_fromV (h : Nat) : (k.swapEdge a b).fromV h = k.fromV (relabelHalf a b h) := by
  unfold fromV halfedge eOf side
  rw [swapEdge_edgeAt hab ha hb, k3_relabelHalf_div, k3_relabelHalf_mod]

end swapEdgeObs

/-- the scan of the outgoing halfedges after an edge swap: the old scan, relabelled -/
theorem swapEdge_sOut_perm {k : Kernel} {a b : Nat} (hab : a ≠ b) (ha : a < k.nE) (hb : b < k.nE)
    (hl : k.eDel.length = k.nE) (v : Nat) :
    ((k.swapEdge a b).sOut v).Perm ((k.sOut v).map (relabelHalf a b)) := by
  have hnd : ∀ (k : Kernel) v, (k.sOut v).Nodup := by
    intro k v; unfold sOut liveHes
    exact List.Pairwise.sublist List.filter_sublist (List.Pairwise.sublist List.filter_sublist List.nodup_range)
  rw [List.perm_ext_iff_of_nodup (hnd _ _) (k3_nodup_map_relabelHalf a b (hnd _ _))]
  intro x
  rw [mem_sOut_iff, k3_mem_map_relabelHalf, mem_sOut_iff, swapEdge_liveE hab ha hb hl, swapEdge_fromV hab ha hb]
  unfold eOf
  rw [k3_relabelHalf_div]

/-- the faces whose definition `swap_edge_indices` rewrites -/
def swapEdgeFaces (k : Kernel) (a b : Nat) : List Nat :=
  if k.eBU then dedupKeep (((k.hfsOf (2 * a)) ++ (k.hfsOf (2 * b))).map (· / 2))
  else (List.range k.nF).filter (fun f => (k.faceAt f).any (fun h => h / 2 == a || h / 2 == b))

theorem swapEdgeFaces_nodup (k : Kernel) (a b : Nat) : (swapEdgeFaces k a b).Nodup := by
  unfold swapEdgeFaces; split
  · exact nodup_dedupKeep _
  · exact List.Pairwise.sublist List.filter_sublist List.nodup_range

theorem swapEdge_faces_eq (k : Kernel) {a b : Nat} (hab : a ≠ b) :
    (k.swapEdge a b).faces =
      (swapEdgeFaces k a b).foldl (fun fs f => fs.modify f (·.map (relabelHalf a b))) k.faces := by
  have hne : (a == b) = false := by simp [hab]
  unfold swapEdge swapEdgeFaces
  simp only [hne, Bool.false_eq_true, if_false]

theorem swapEdge_faceAt (k : Kernel) {a b : Nat} (hab : a ≠ b) (f : Nat) :
    (k.swapEdge a b).faceAt f =
      if f ∈ swapEdgeFaces k a b then (k.faceAt f).map (relabelHalf a b) else k.faceAt f := by
  unfold faceAt
  rw [swapEdge_faces_eq k hab]
  exact k3_foldl_modify_getD _ [] rfl _ (swapEdgeFaces_nodup k a b) _ f

/-- every stored face definition is either untouched or relabelled (also the stale ones) -/
theorem swapEdge_faces_mem (k : Kernel) {a b : Nat} (hab : a ≠ b) (f : List Nat)
    (hf : f ∈ (k.swapEdge a b).faces) : ∃ f0 ∈ k.faces, f = f0 ∨ f = f0.map (relabelHalf a b) := by
  rw [swapEdge_faces_eq k hab] at hf
  exact mem_foldl_modify _ _ (swapEdgeFaces_nodup k a b) _ _ hf

theorem k3_any_parent_false {a b : Nat} {l : List Nat}
    (h : l.any (fun h => h / 2 == a || h / 2 == b) = false) : ∀ x ∈ l, x / 2 ≠ a ∧ x / 2 ≠ b := by
  intro x hx
  rw [List.any_eq_false] at h
  have := h x hx
  simpa using this

theorem k3_mem_oppFace (l : List Nat) (h : Nat) : h ∈ oppFace l ↔ opp h ∈ l := by
  unfold oppFace
  simp only [List.mem_map, List.mem_reverse]
  constructor
  · rintro ⟨x, hx, rfl⟩; rwa [ScanDel.opp_opp]
  · intro hx; exact ⟨_, hx, ScanDel.opp_opp h⟩

/-- a live face not listed around `2e` in the (exact) edge cache does not use edge `e` -/
theorem k3_face_off_edge {k : Kernel} (hE : CacheInvE k) (hb : k.eBU = true) {e f : Nat} (he : e < k.nE)
    (hf : k.liveF f = true) (hno : ∀ x ∈ k.hfsOf (2 * e), x / 2 ≠ f) : ∀ x ∈ k.faceAt f, x / 2 ≠ e := by
  obtain ⟨_, hperm⟩ := hE hb
  have h2e : 2 * e < k.nHE := by unfold nHE nE at *; omega
  intro x hx hxe
  have hcase : x = 2 * e ∨ x = 2 * e + 1 := by omega
  rcases hcase with rfl | rfl
  · have : 2 * f ∈ k.sHfsOfHe (2 * e) :=
      (mem_sHfsOfHe k _ _).mpr ⟨by unfold eOf; rw [show 2 * f / 2 = f by omega]; exact hf, by rw [hfHes_two_mul]; exact hx⟩
    exact hno _ ((hperm _ h2e).mem_iff.mpr this) (by omega)
  · have : 2 * f + 1 ∈ k.sHfsOfHe (2 * e) :=
      (mem_sHfsOfHe k _ _).mpr ⟨by unfold eOf; rw [show (2 * f + 1) / 2 = f by omega]; exact hf, by
        rw [hfHes_two_mul_succ, k3_mem_oppFace, opp_two_mul]; exact hx⟩
    exact hno _ ((hperm _ h2e).mem_iff.mpr this) (by omega)

/-- **live faces are relabelled exactly** by `swap_edge_indices`: the cache-guided variant visits
    every live face that uses one of the two edges (the edge cache is exact), the processed-set makes
    it rewrite each once, and the relabeling is the identity on every other face -/
theorem swapEdge_faceAt_live {k : Kernel} {a b : Nat} (hab : a ≠ b) (ha : a < k.nE) (hb : b < k.nE)
    (hE : CacheInvE k) {f : Nat} (hf : k.eBU = true → k.liveF f = true) :
    (k.swapEdge a b).faceAt f = (k.faceAt f).map (relabelHalf a b) := by
  rw [swapEdge_faceAt k hab]
  split
  · rfl
  · rename_i hnm
    symm
    apply k3_map_relabelHalf_id
    unfold swapEdgeFaces at hnm
    by_cases hbu : k.eBU = true
    · simp only [hbu, if_true, mem_dedupKeep, List.mem_map, List.mem_append, not_exists, not_and] at hnm
      have h1 := k3_face_off_edge hE hbu ha (hf hbu) (fun x hx e => hnm x (Or.inl hx) e)
      have h2 := k3_face_off_edge hE hbu hb (hf hbu) (fun x hx e => hnm x (Or.inr hx) e)
      exact fun x hx => ⟨h1 x hx, h2 x hx⟩
    · simp only [hbu, Bool.false_eq_true, if_false, List.mem_filter, List.mem_range, not_and, Bool.not_eq_true] at hnm
      by_cases hlt : f < k.nF
      · exact k3_any_parent_false (hnm hlt)
      · have : k.faceAt f = [] := by unfold faceAt; exact getD_of_ge _ _ _ (by unfold nF at hlt; omega)
        rw [this]; intro x hx; cases hx

theorem swapEdge_hfHes_live {k : Kernel} {a b : Nat} (hab : a ≠ b) (ha : a < k.nE) (hb : b < k.nE)
    (hE : CacheInvE k) {x : Nat} (hf : k.eBU = true → k.liveF (eOf x) = true) :
    (k.swapEdge a b).hfHes x = (k.hfHes x).map (relabelHalf a b) := by
  unfold hfHes
  rw [swapEdge_faceAt_live hab ha hb hE hf]
  split
  · rfl
  · exact k3_oppFace_map_relabelHalf a b _

/-- the scan of the halffaces around a halfedge after an edge swap: the old scan at the old name -/
theorem swapEdge_sHfsOfHe {k : Kernel} {a b : Nat} (hab : a ≠ b) (ha : a < k.nE) (hb : b < k.nE)
    (hE : CacheInvE k) (y : Nat) :
    (k.swapEdge a b).sHfsOfHe y = k.sHfsOfHe (relabelHalf a b y) := by
  unfold sHfsOfHe
  have hl : (k.swapEdge a b).liveHfs = k.liveHfs := by
    unfold liveHfs liveF nHF nF fDeleted
    rw [swapEdge_faces_length, swapEdge_fDel]
  rw [hl]
  apply k3_flatMap_congr
  intro x hx
  have hlx : k.liveF (eOf x) = true := by
    unfold liveHfs at hx; exact (List.mem_filter.mp hx).2
  rw [swapEdge_hfHes_live hab ha hb hE (fun _ => hlx), k3_count_map_relabelHalf]

/-- **`swap_edge_indices` keeps `WF`** for in-range handles (`assert`ed at cc:1640-1641), in every
    bottom-up configuration: cache-guided face fixing (edge incidences on) or linear scan (off),
    vertex-cache fixing (vertex incidences on) or none. -/
theorem wf_swapEdge {k : Kernel} {a b : Nat} (ha : a < k.nE) (hb : b < k.nE) (hw : WF k) :
    WF (k.swapEdge a b) := by
  by_cases hab : a = b
  · subst hab; simpa [swapEdge] using hw
  have hne : (a == b) = false := by simp [hab]
  have hnE : (k.swapEdge a b).nE = k.nE := swapEdge_edges_length k a b
  have hnHE : (k.swapEdge a b).nHE = k.nHE := by unfold nHE; rw [swapEdge_edges_length]
  refine ⟨lenInv_swapEdge k a b hw.len, ?_, ⟨?_, ?_, ?_⟩⟩
  · constructor
    · intro e he
      rw [swapEdge_nV]
      unfold swapEdge at he
      simp only [hne, Bool.false_eq_true, if_false] at he
      rw [mem_swapAt _ _ _ _ ha hb] at he
      exact hw.range.edges e he
    · intro f hf h hh
      rw [hnHE]
      obtain ⟨f0, hf0, e | e⟩ := swapEdge_faces_mem k hab f hf
      · rw [e] at hh; exact hw.range.faces f0 hf0 h hh
      · rw [e, k3_mem_map_relabelHalf] at hh
        have := hw.range.faces f0 hf0 _ hh
        unfold nHE at *
        exact (k3_relabelHalf_lt_iff ha hb).mp this
    · unfold nHF; rw [swapEdge_faces_length, swapEdge_cells]; exact hw.range.cells
  · -- CacheInvV
    intro hbu
    have hbu' : k.vBU = true := by simpa using hbu
    obtain ⟨hlen, hperm⟩ := hw.cache.v hbu'
    refine ⟨(lenInv_swapEdge k a b hw.len).outHes hbu, fun v hv => ?_⟩
    have hv' : v < k.nV := by simpa using hv
    refine List.Perm.trans ?_ (swapEdge_sOut_perm hab ha hb hw.len.eDel v).symm
    -- the cache slot: relabelled if `v` is an endpoint of one of the two edges, untouched otherwise
    have hout : (k.swapEdge a b).outOf v =
        if v ∈ dedupKeep [(k.edgeAt a).1, (k.edgeAt a).2, (k.edgeAt b).1, (k.edgeAt b).2]
        then (k.outOf v).map (relabelHalf a b) else k.outOf v := by
      unfold outOf swapEdge
      simp only [hne, Bool.false_eq_true, if_false, hbu', if_true]
      exact k3_foldl_modify_getD _ [] rfl _ (nodup_dedupKeep _) _ v
    have hrel : (k.swapEdge a b).outOf v = (k.outOf v).map (relabelHalf a b) := by
      rw [hout]
      split
      · rfl
      · rename_i hnm
        symm
        apply k3_map_relabelHalf_id
        simp only [mem_dedupKeep, List.mem_cons, List.not_mem_nil, or_false, not_or] at hnm
        intro x hx
        obtain ⟨_, hfv⟩ := (mem_sOut_iff k v x).mp ((hperm v hv').mem_iff.mp hx)
        have hx2 : x = 2 * (x / 2) ∨ x = 2 * (x / 2) + 1 := by omega
        constructor
        · intro e
          rcases hx2 with h2 | h2
          · rw [h2, e, fromV_even] at hfv; exact hnm.1 hfv.symm
          · rw [h2, e, fromV_odd'] at hfv; exact hnm.2.1 hfv.symm
        · intro e
          rcases hx2 with h2 | h2
          · rw [h2, e, fromV_even] at hfv; exact hnm.2.2.1 hfv.symm
          · rw [h2, e, fromV_odd'] at hfv; exact hnm.2.2.2 hfv.symm
    rw [hrel]
    exact (hperm v hv').map _
  · -- CacheInvE
    intro hbu
    have hbu' : k.eBU = true := by simpa using hbu
    obtain ⟨hlen, hperm⟩ := hw.cache.e hbu'
    refine ⟨(lenInv_swapEdge k a b hw.len).incHfs hbu, fun y hy => ?_⟩
    rw [hnHE] at hy
    have hρ : relabelHalf a b y < k.nHE := by unfold nHE nE at *; exact k3_relabelHalf_lt ha hb hy
    have hslot : (k.swapEdge a b).hfsOf y = k.hfsOf (relabelHalf a b y) := by
      unfold hfsOf swapEdge
      simp only [hne, Bool.false_eq_true, if_false, hbu', if_true]
      apply k3_getD_swapAt2 <;> (rw [hlen]; unfold nHE nE at *; omega)
    rw [hslot, swapEdge_sHfsOfHe hab ha hb hw.cache.e]
    exact hperm _ hρ
  · exact cacheInvF_of_eq (by simp) (swapEdge_incCell k a b) (swapEdge_faces_length k a b) (swapEdge_cells k a b)
      (swapEdge_cDel k a b) hw.cache.f

/-! ### swap_face_indices: observers -/
theorem swapFace_edges (k : Kernel) (a b : Nat) : (k.swapFace a b).edges = k.edges := by unfold swapFace; split <;> rfl
theorem swapFace_vDel (k : Kernel) (a b : Nat) : (k.swapFace a b).vDel = k.vDel := by unfold swapFace; split <;> rfl
theorem swapFace_eDel (k : Kernel) (a b : Nat) : (k.swapFace a b).eDel = k.eDel := by unfold swapFace; split <;> rfl
theorem swapFace_cDel (k : Kernel) (a b : Nat) : (k.swapFace a b).cDel = k.cDel := by unfold swapFace; split <;> rfl
theorem swapFace_outHes (k : Kernel) (a b : Nat) : (k.swapFace a b).outHes = k.outHes := by unfold swapFace; split <;> rfl
theorem swapFace_faces_length (k : Kernel) (a b : Nat) : (k.swapFace a b).faces.length = k.faces.length := by
  unfold swapFace; split
  · rfl
  · simp
theorem swapFace_cells_length (k : Kernel) (a b : Nat) : (k.swapFace a b).cells.length = k.cells.length := by
  unfold swapFace; split
  · rfl
  · simp only []; exact length_foldl_modify_gen _ _ _

section swapFaceObs
variable {k : Kernel} {a b : Nat} (hab : a ≠ b) (ha : a < k.nF) (hb : b < k.nF)
include hab ha hb

theorem swapFace_faceAt (f : Nat) : (k.swapFace a b).faceAt f = k.faceAt (relabelId a b f) := by
  have hne : (a == b) = false := by simp [hab]
  unfold faceAt swapFace
  simp only [hne, Bool.false_eq_true, if_false]
  exact getD_swapAt _ _ _ _ _ ha hb

theorem swapFace_fDeleted (hl : k.fDel.length = k.nF) (f : Nat) :
    (k.swapFace a b).fDeleted f = k.fDeleted (relabelId a b f) := by
  have hne : (a == b) = false := by simp [hab]
  unfold fDeleted swapFace
  simp only [hne, Bool.false_eq_true, if_false]
  exact getD_swapAt _ _ _ _ _ (by rw [hl]; exact ha) (by rw [hl]; exact hb)

theorem swapFace_liveF (hl : k.fDel.length = k.nF) (f : Nat) :
    (k.swapFace a b).liveF f = k.liveF (relabelId a b f) := by
  unfold liveF
  rw [swapFace_fDeleted hab ha hb hl]
  have hn : (k.swapFace a b).nF = k.nF := swapFace_faces_length k a b
  rw [hn]
  congr 1
  by_cases hc : f < k.nF
  · simp [hc, relabelId_lt ha hb hc]
  · have : ¬ relabelId a b f < k.nF := by
      intro h
      have := relabelId_lt ha hb h
      rw [relabelId_invol] at this; exact hc this
    simp [hc, this]

theorem swapFace_hfHes (x : Nat) : (k.swapFace a b).hfHes x = k.hfHes (relabelHalf a b x) := by
  unfold hfHes eOf side
  rw [swapFace_faceAt hab ha hb, k3_relabelHalf_div, k3_relabelHalf_mod]

end swapFaceObs

/-- the cells whose definition `swap_face_indices` rewrites -/
def swapFaceCells (k : Kernel) (a b : Nat) : List Nat :=
  if k.fBU then k.swapFaceCellsBU a b
  else (List.range k.nC).filter (fun c => (k.cellAt c).any (fun hf => hf / 2 == a || hf / 2 == b))

theorem swapFaceCells_nodup (k : Kernel) (a b : Nat) : (swapFaceCells k a b).Nodup := by
  unfold swapFaceCells swapFaceCellsBU; split
  · exact nodup_dedupKeep _
  · exact List.Pairwise.sublist List.filter_sublist List.nodup_range

theorem swapFace_cells_eq (k : Kernel) {a b : Nat} (hab : a ≠ b) :
    (k.swapFace a b).cells =
      (swapFaceCells k a b).foldl (fun cs c => cs.modify c (·.map (relabelHalf a b))) k.cells := by
  have hne : (a == b) = false := by simp [hab]
  unfold swapFace swapFaceCells
  simp only [hne, Bool.false_eq_true, if_false]

theorem swapFace_cellAt (k : Kernel) {a b : Nat} (hab : a ≠ b) (c : Nat) :
    (k.swapFace a b).cellAt c =
      if c ∈ swapFaceCells k a b then (k.cellAt c).map (relabelHalf a b) else k.cellAt c := by
  unfold cellAt
  rw [swapFace_cells_eq k hab]
  exact k3_foldl_modify_getD _ [] rfl _ (swapFaceCells_nodup k a b) _ c

theorem swapFace_cells_mem (k : Kernel) {a b : Nat} (hab : a ≠ b) (c : List Nat)
    (hc : c ∈ (k.swapFace a b).cells) : ∃ c0 ∈ k.cells, c = c0 ∨ c = c0.map (relabelHalf a b) := by
  rw [swapFace_cells_eq k hab] at hc
  exact mem_foldl_modify _ _ (swapFaceCells_nodup k a b) _ _ hc

/-- **live cells are relabelled exactly** by `swap_face_indices`.  With face incidences on, the
    cells to fix are looked up in `incident_cell_per_hf_` of the four halffaces: that finds every
    live cell using one of the two faces only if a halfface has at most one live cell (`oneCell`,
    C01's stated precondition) — the cache has room for one cell per halfface. -/
theorem swapFace_cellAt_live {k : Kernel} {a b : Nat} (hab : a ≠ b) (ha : a < k.nF) (hb : b < k.nF)
    (hF : CacheInvF k) (h1 : k.fBU = true → k.oneCell = true) {c : Nat} (hc : k.fBU = true → k.liveC c = true) :
    (k.swapFace a b).cellAt c = (k.cellAt c).map (relabelHalf a b) := by
  rw [swapFace_cellAt k hab]
  split
  · rfl
  · rename_i hnm
    symm
    apply k3_map_relabelHalf_id
    unfold swapFaceCells at hnm
    by_cases hbu : k.fBU = true
    · simp only [hbu, if_true, swapFaceCellsBU, mem_dedupKeep, List.mem_filterMap, not_exists, not_and] at hnm
      obtain ⟨_, hslots⟩ := hF hbu
      have key : ∀ x, x ∈ [2 * a, 2 * a + 1, 2 * b, 2 * b + 1] → x ∉ k.cellAt c := by
        intro x hx hm
        have hxlt : x < k.nHF := by
          simp only [List.mem_cons, List.not_mem_nil, or_false] at hx
          unfold nHF nF at *; omega
        have := sCellOf_of_mem (h1 hbu) hxlt (hc hbu) hm
        rw [← hslots x hxlt] at this
        exact hnm x hx this
      intro x hx
      constructor
      · intro e
        have : x = 2 * a ∨ x = 2 * a + 1 := by omega
        rcases this with e2 | e2 <;> exact key x (by simp [e2]) hx
      · intro e
        have : x = 2 * b ∨ x = 2 * b + 1 := by omega
        rcases this with e2 | e2 <;> exact key x (by simp [e2]) hx
    · simp only [hbu, Bool.false_eq_true, if_false, List.mem_filter, List.mem_range, not_and, Bool.not_eq_true] at hnm
      by_cases hlt : c < k.nC
      · exact k3_any_parent_false (hnm hlt)
      · have : k.cellAt c = [] := by unfold cellAt; exact getD_of_ge _ _ _ (by unfold nC at hlt; omega)
        rw [this]; intro x hx; cases hx

/-- the scan of the cell of a halfface after a face swap: the old scan at the old name -/
theorem swapFace_sCellOf {k : Kernel} {a b : Nat} (hab : a ≠ b) (ha : a < k.nF) (hb : b < k.nF)
    (hF : CacheInvF k) (h1 : k.fBU = true → k.oneCell = true) (x : Nat) :
    (k.swapFace a b).sCellOf x = k.sCellOf (relabelHalf a b x) := by
  unfold sCellOf sCellsOfHf
  have hl : (k.swapFace a b).liveCells = k.liveCells := by
    unfold liveCells nC cDeleted; rw [swapFace_cells_length, swapFace_cDel]
  rw [hl]
  congr 1
  apply List.filter_congr
  intro c hc
  have hlc : k.liveC c = true := (mem_liveCells k c).mp hc
  rw [swapFace_cellAt_live hab ha hb hF h1 (fun _ => hlc), k3_contains_map_relabelHalf]

/-- the scan of the halffaces around a halfedge after a face swap: the old scan, relabelled -/
theorem swapFace_sHfsOfHe_perm {k : Kernel} {a b : Nat} (hab : a ≠ b) (ha : a < k.nF) (hb : b < k.nF)
    (hl : k.fDel.length = k.nF) (y : Nat) :
    ((k.swapFace a b).sHfsOfHe y).Perm ((k.sHfsOfHe y).map (relabelHalf a b)) := by
  rw [sHfsOfHe_eq, sHfsOfHe_eq, List.map_flatMap]
  have hlive : (k.swapFace a b).liveFaces = (List.range k.nF).filter (fun f => (fun f => !k.fDeleted f) (relabelId a b f)) := by
    unfold liveFaces
    rw [show (k.swapFace a b).nF = k.nF from swapFace_faces_length k a b]
    apply List.filter_congr; intro f _; rw [swapFace_fDeleted hab ha hb hl]
  have hblock : ∀ f, (k.swapFace a b).hfBlock y f = (k.hfBlock y (relabelId a b f)).map (relabelHalf a b) := by
    intro f
    unfold hfBlock
    rw [swapFace_hfHes hab ha hb, swapFace_hfHes hab ha hb, k3_relabelHalf_even, k3_relabelHalf_odd]
    simp only [List.map_append, List.map_replicate, k3_relabelHalf_even, k3_relabelHalf_odd, relabelId_invol]
  rw [hlive]
  have hp := perm_filter_reindex k.nF (relabelId a b) (relabelId_invol a b)
    (fun x hx => relabelId_lt ha hb hx) (fun f => !k.fDeleted f)
  refine (hp.flatMap_right _).trans ?_
  rw [List.flatMap_map]
  unfold liveFaces
  apply List.Perm.of_eq
  apply k3_flatMap_congr
  intro f _
  rw [hblock, relabelId_invol]

/-- **`swap_face_indices` keeps `WF`** for in-range handles (`assert`ed at cc:1480-1481), in every
    bottom-up configuration.  `oneCell` (C01's precondition) is needed only when face incidences are
    on: the cache-guided variant finds the cells to fix through `incident_cell_per_hf_`, i.e. one cell
    per halfface; a second live cell on the same halfface would keep the old face name. -/
theorem wf_swapFace' {k : Kernel} {a b : Nat} (ha : a < k.nF) (hb : b < k.nF) (hw : WF k)
    (h1 : k.fBU = true → k.oneCell = true) : WF (k.swapFace a b) := by
  by_cases hab : a = b
  · subst hab; simpa [swapFace] using hw
  have hne : (a == b) = false := by simp [hab]
  have hnHF : (k.swapFace a b).nHF = k.nHF := by unfold nHF; rw [swapFace_faces_length]
  have hnHE : (k.swapFace a b).nHE = k.nHE := by unfold nHE; rw [swapFace_edges]
  refine ⟨lenInv_swapFace k a b hw.len, ?_, ⟨?_, ?_, ?_⟩⟩
  · constructor
    · rw [swapFace_edges, swapFace_nV]; exact hw.range.edges
    · intro f hf
      rw [hnHE]
      unfold swapFace at hf
      simp only [hne, Bool.false_eq_true, if_false] at hf
      rw [mem_swapAt _ _ _ _ ha hb] at hf
      exact hw.range.faces f hf
    · intro c hc x hx
      rw [hnHF]
      obtain ⟨c0, hc0, e | e⟩ := swapFace_cells_mem k hab c hc
      · rw [e] at hx; exact hw.range.cells c0 hc0 x hx
      · rw [e, k3_mem_map_relabelHalf] at hx
        have := hw.range.cells c0 hc0 _ hx
        unfold nHF at *
        exact (k3_relabelHalf_lt_iff ha hb).mp this
  · exact cacheInvV_of_eq (by simp) (swapFace_outHes k a b) (by simp) (swapFace_edges k a b) (swapFace_eDel k a b) hw.cache.v
  · -- CacheInvE
    intro hbu
    have hbu' : k.eBU = true := by simpa using hbu
    obtain ⟨hlen, hperm⟩ := hw.cache.e hbu'
    refine ⟨(lenInv_swapFace k a b hw.len).incHfs hbu, fun y hy => ?_⟩
    rw [hnHE] at hy
    refine List.Perm.trans ?_ (swapFace_sHfsOfHe_perm hab ha hb hw.len.fDel y).symm
    have hslot : (k.swapFace a b).hfsOf y =
        if y ∈ dedupKeep ([2 * a, 2 * a + 1, 2 * b, 2 * b + 1].flatMap k.hfHes)
        then (k.hfsOf y).map (relabelHalf a b) else k.hfsOf y := by
      unfold hfsOf swapFace
      simp only [hne, Bool.false_eq_true, if_false, hbu', if_true]
      exact k3_foldl_modify_getD _ [] rfl _ (nodup_dedupKeep _) _ y
    have hrel : (k.swapFace a b).hfsOf y = (k.hfsOf y).map (relabelHalf a b) := by
      rw [hslot]
      split
      · rfl
      · rename_i hnm
        symm
        apply k3_map_relabelHalf_id
        simp only [mem_dedupKeep, List.mem_flatMap, not_exists, not_and] at hnm
        intro x hx
        obtain ⟨_, hyx⟩ := (mem_sHfsOfHe k y x).mp ((hperm y hy).mem_iff.mp hx)
        constructor
        · intro e
          have : x = 2 * a ∨ x = 2 * a + 1 := by omega
          rcases this with e2 | e2 <;> exact hnm x (by simp [e2]) hyx
        · intro e
          have : x = 2 * b ∨ x = 2 * b + 1 := by omega
          rcases this with e2 | e2 <;> exact hnm x (by simp [e2]) hyx
    rw [hrel]
    exact (hperm y hy).map _
  · -- CacheInvF
    intro hbu
    have hbu' : k.fBU = true := by simpa using hbu
    obtain ⟨hlen, hslots⟩ := hw.cache.f hbu'
    refine ⟨(lenInv_swapFace k a b hw.len).incCell hbu, fun x hx => ?_⟩
    rw [hnHF] at hx
    have hρ : relabelHalf a b x < k.nHF := by unfold nHF nF at *; exact k3_relabelHalf_lt ha hb hx
    have hslot : (k.swapFace a b).cellOf x = k.cellOf (relabelHalf a b x) := by
      unfold cellOf swapFace
      simp only [hne, Bool.false_eq_true, if_false, hbu', if_true]
      apply k3_getD_swapAt2 <;> (rw [hlen]; unfold nHF nF at *; omega)
    rw [hslot, swapFace_sCellOf hab ha hb hw.cache.f h1]
    exact hslots _ hρ

theorem wf_swapFace {k : Kernel} {a b : Nat} (ha : a < k.nF) (hb : b < k.nF) (hw : WF k)
    (h1 : k.oneCell = true) : WF (k.swapFace a b) := wf_swapFace' ha hb hw (fun _ => h1)

/-! ### C01's precondition `oneCell` under the swaps -/
theorem k3_oneCell_of_cells_eq {k k' : Kernel} (hf : k'.faces.length = k.faces.length) (hc : k'.cells = k.cells)
    (hd : k'.cDel = k.cDel) (h : k.oneCell = true) : k'.oneCell = true :=
  oneCell_of_sub hf hc (fun c hc' => by unfold cDeleted at *; rw [← hd]; exact hc') h

theorem oneCell_swapVertex {k : Kernel} (a b : Nat) (h1 : k.oneCell = true) : (k.swapVertex a b).oneCell = true :=
  k3_oneCell_of_cells_eq (by simp) (by simp) (swapVertex_cDel k a b) h1

theorem oneCell_swapEdge {k : Kernel} (a b : Nat) (h1 : k.oneCell = true) : (k.swapEdge a b).oneCell = true :=
  k3_oneCell_of_cells_eq (swapEdge_faces_length k a b) (swapEdge_cells k a b) (swapEdge_cDel k a b) h1

/-- `swap_face_indices` keeps `oneCell`: every live cell is relabelled, so the number of live cells
    on a halfface is the old number at the old name (needs the exact face cache when it guides the swap) -/
theorem oneCell_swapFace {k : Kernel} {a b : Nat} (ha : a < k.nF) (hb : b < k.nF) (hF : CacheInvF k)
    (h1 : k.oneCell = true) : (k.swapFace a b).oneCell = true := by
  by_cases hab : a = b
  · subst hab; simpa [swapFace] using h1
  have h1' := h1
  unfold oneCell at h1 ⊢
  simp only [List.all_eq_true, List.mem_range, decide_eq_true_eq] at h1 ⊢
  intro x hx
  have hx' : x < k.nHF := by unfold nHF at *; rwa [swapFace_faces_length] at hx
  have hρ : relabelHalf a b x < k.nHF := by unfold nHF nF at *; exact k3_relabelHalf_lt ha hb hx'
  refine Nat.le_trans (Nat.le_of_eq ?_) (h1 _ hρ)
  have hl : (k.swapFace a b).liveCells = k.liveCells := by
    unfold liveCells nC cDeleted; rw [swapFace_cells_length, swapFace_cDel]
  rw [hl]
  congr 1
  apply List.map_congr_left
  intro c hc
  have hlc : k.liveC c = true := (mem_liveCells k c).mp hc
  rw [swapFace_cellAt_live hab ha hb hF (fun _ => h1') (fun _ => hlc), k3_count_map_relabelHalf]

/-- test (not a proof): `oneCell` cannot be dropped from `wf_swapFace` when face incidences are on.
    Two live cells on halfface 0: the cache names the first; the swap renames only that one. -/
example :
    let k : Kernel := { nV := 2, edges := [(0, 1)], eDel := [false], vDel := [false, false],
                        faces := [[0], [1]], fDel := [false, false], cells := [[0], [0]], cDel := [false, false],
                        outHes := [[0], [1]], incHfs := [[0, 3], [1, 2]], incCell := [some 0, none, none, none] }
    k.cacheInvB = true ∧ k.oneCell = false ∧ (k.swapFace 0 1).cacheInvB = false := by decide

/-- non-vacuity: the tetrahedron of `CacheDelete`, edges 0 and 5 / faces 0 and 3 exchanged -/
example : WF (tetK.swapEdge 0 5) ∧ (tetK.swapEdge 0 5).faces = [[10, 2, 4], [6, 8, 11], [9, 0, 3], [5, 1, 7]] :=
  ⟨wf_swapEdge (by decide) (by decide) wf_tetK, by decide⟩
example : WF (tetK.swapFace 0 3) ∧ (tetK.swapFace 0 3).cells = [[7, 3, 5, 1]] ∧ (tetK.swapFace 0 3).oneCell = true :=
  ⟨wf_swapFace (by decide) (by decide) wf_tetK (by decide), by decide,
   oneCell_swapFace (by decide) (by decide) wf_tetK.cache.f (by decide)⟩

end Kernel
end OVM

import OVM.Spec.Incidence
import OVM.Kernel.Query
import OVM.Kernel.Frames
/-
  The cache invariant `CacheInv` in `Prop` form (DESIGN.md §3): every enabled bottom-up cache
  equals, slot by slot, the brute-force scan over the definitions of the not-deleted entities
  (as a multiset for the two list-valued caches — their order is C09's subject).
-/
namespace OVM
namespace Kernel

def CacheInvV (k : Kernel) : Prop :=
  k.vBU = true → k.outHes.length = k.nV ∧ ∀ v, v < k.nV → (k.outOf v).Perm (k.sOut v)
def CacheInvE (k : Kernel) : Prop :=
  k.eBU = true → k.incHfs.length = k.nHE ∧ ∀ h, h < k.nHE → (k.hfsOf h).Perm (k.sHfsOfHe h)
def CacheInvF (k : Kernel) : Prop :=
  k.fBU = true → k.incCell.length = k.nHF ∧ ∀ hf, hf < k.nHF → k.cellOf hf = k.sCellOf hf

structure CacheInv (k : Kernel) : Prop where
  v : CacheInvV k
  e : CacheInvE k
  f : CacheInvF k

/-- every column of a tracker has `n` slots -/
def ColsLen (cs : List Col) (n : Nat) : Prop := ∀ c ∈ cs, c.vals.length = n

/-- array lengths agree with the counts (the `WF` length part): flag arrays, enabled caches
    and every property column have exactly one slot per entity slot -/
structure LenInv (k : Kernel) : Prop where
  vDel : k.vDel.length = k.nV
  eDel : k.eDel.length = k.nE
  fDel : k.fDel.length = k.nF
  cDel : k.cDel.length = k.nC
  outHes : k.vBU = true → k.outHes.length = k.nV
  incHfs : k.eBU = true → k.incHfs.length = k.nHE
  incCell : k.fBU = true → k.incCell.length = k.nHF
  pv : ColsLen k.props.v k.nV
  pe : ColsLen k.props.e k.nE
  phe : ColsLen k.props.he k.nHE
  pf : ColsLen k.props.f k.nF
  phf : ColsLen k.props.hf k.nHF
  pc : ColsLen k.props.c k.nC

theorem cacheInv_empty : CacheInv ({} : Kernel) := by
  refine ⟨?_, ?_, ?_⟩
  · intro _; exact ⟨rfl, fun v hv => absurd hv (by simp [nV])⟩
  · intro _; exact ⟨rfl, fun v hv => absurd hv (by simp [nHE])⟩
  · intro _; exact ⟨rfl, fun v hv => absurd hv (by simp [nHF])⟩

theorem lenInv_empty : LenInv ({} : Kernel) := by
  constructor <;> simp [nE, nF, nC, nHE, nHF, ColsLen]

end Kernel
end OVM

import OVM.Refine.LogicalDelete
import OVM.Refine.LogicalRead
/-
  C17 on reachable states (`Global.GInv`): each of the four index swaps is a pure relabeling.

  * the relabeling specifications of OVM/Refine/CacheSwapSpec.lean are involutions on EVERY state
    (`relabel*Spec_involutive`);
  * what the cache-guided variants do to a FLAGGED entity one level up: nothing — its stored definition is left exactly as
    it was (`swapEdge_faceAt_flagged`, `swapFace_cellAt_flagged`, `swapVertex_edgeAt_flagged`), whereas the
    specification (and the linear-scan variant) renames inside it.  This is the ONLY deviation from the specification
    (`swap*_eq_spec_live`: every other field of the record is the specification's, the definition array agrees at every
    live index), and it concerns definitions that no query reports (C01: deleted entities never appear) and that
    `collect_garbage` erases without reading them.
  * consequently **`swap a b ∘ swap a b = id` on the WHOLE record, flags or not** (`swap*_twice`): live entities one level
    up are renamed twice, flagged ones are touched by neither call.
  Proof-only file.
-/
namespace OVM
namespace Kernel
namespace Global
open ScanDel

/-! ### the specifications are involutions (every state, every pair of handles) -/

theorem col_swap_swap (c : Col) (i j : Nat) : (c.swap i j).swap i j = c := by
  simp [Col.swap, swapAt_swapAt]

/-- two disjoint slot exchanges commute, so exchanging (2a,2b) then (2a+1,2b+1) twice is the identity -/
theorem swapAt_pair_invol {α} (l : List α) (a b : Nat) :
    swapAt (swapAt (swapAt (swapAt l (2 * a) (2 * b)) (2 * a + 1) (2 * b + 1)) (2 * a) (2 * b)) (2 * a + 1) (2 * b + 1) = l := by
  by_cases h1 : 2 * a + 1 < l.length
  · by_cases h2 : 2 * b + 1 < l.length
    · apply List.ext_getElem?
      intro n
      have ha : 2 * a < l.length := by omega
      have hb : 2 * b < l.length := by omega
      simp only [getElem?_swapAt, length_swapAt, ha, hb, h1, h2]
      by_cases e1 : n = 2 * b + 1 <;> by_cases e2 : n = 2 * a + 1 <;> by_cases e3 : n = 2 * b <;> by_cases e4 : n = 2 * a <;>
        simp_all <;> (try omega) <;> (try (split <;> simp_all <;> omega))
    · have hn : ∀ (m : List α), m.length = l.length → swapAt m (2 * a + 1) (2 * b + 1) = m := by
        intro m hm
        have : m[2 * b + 1]? = none := List.getElem?_eq_none (by omega)
        unfold swapAt; rw [this]; split <;> simp_all
      rw [hn _ (by simp), hn _ (by simp), swapAt_swapAt]
  · have hn : ∀ (m : List α), m.length = l.length → swapAt m (2 * a + 1) (2 * b + 1) = m := by
      intro m hm
      have : m[2 * a + 1]? = none := List.getElem?_eq_none (by omega)
      unfold swapAt; rw [this]
    rw [hn _ (by simp), hn _ (by simp), swapAt_swapAt]

theorem swapVProps_invol (p : Props) (a b : Nat) : swapVProps (swapVProps p a b) a b = p := by
  simp [swapVProps, List.map_map, Function.comp_def, col_swap_swap]
theorem swapCProps_invol (p : Props) (a b : Nat) : swapCProps (swapCProps p a b) a b = p := by
  simp [swapCProps, List.map_map, Function.comp_def, col_swap_swap]
theorem swapEProps_invol (p : Props) (a b : Nat) : swapEProps (swapEProps p a b) a b = p := by
  simp only [swapEProps, List.map_map, Function.comp_def, col_swap_swap]
  have : ∀ c : Col, (((c.swap (2 * a) (2 * b)).swap (2 * a + 1) (2 * b + 1)).swap (2 * a) (2 * b)).swap (2 * a + 1) (2 * b + 1) = c := by
    intro c; simp [Col.swap, swapAt_pair_invol]
  simp [this]
theorem swapFProps_invol (p : Props) (a b : Nat) : swapFProps (swapFProps p a b) a b = p := by
  simp only [swapFProps, List.map_map, Function.comp_def, col_swap_swap]
  have : ∀ c : Col, (((c.swap (2 * a) (2 * b)).swap (2 * a + 1) (2 * b + 1)).swap (2 * a) (2 * b)).swap (2 * a + 1) (2 * b + 1) = c := by
    intro c; simp [Col.swap, swapAt_pair_invol]
  simp [this]

theorem map_map_relabelHalf (a b : Nat) (l : List (List Nat)) :
    (l.map (·.map (relabelHalf a b))).map (·.map (relabelHalf a b)) = l := by
  simp [List.map_map, Function.comp_def, k3_relabelHalf_invol]

theorem relabelEdgeV_invol (a b : Nat) (e : Nat × Nat) : relabelEdgeV a b (relabelEdgeV a b e) = e := by
  simp [relabelEdgeV, Logical.relabelId_invol]

theorem relabelEdgeSpec_involutive (k : Kernel) (a b : Nat) : relabelEdgeSpec (relabelEdgeSpec k a b) a b = k := by
  unfold relabelEdgeSpec
  simp only [map_map_relabelHalf, swapAt_swapAt, swapEProps_invol, swapAt_pair_invol]
  cases k with | mk nV edges faces cells vDel eDel fDel cDel nDelV nDelE nDelF nDelC deferred fast vBU eBU fBU outHes incHfs incCell props fault =>
  cases vBU <;> cases eBU <;> simp [Function.comp_def, k3_relabelHalf_invol, swapAt_pair_invol]

theorem relabelFaceSpec_involutive (k : Kernel) (a b : Nat) : relabelFaceSpec (relabelFaceSpec k a b) a b = k := by
  unfold relabelFaceSpec
  simp only [map_map_relabelHalf, swapAt_swapAt, swapFProps_invol, swapAt_pair_invol]
  cases k with | mk nV edges faces cells vDel eDel fDel cDel nDelV nDelE nDelF nDelC deferred fast vBU eBU fBU outHes incHfs incCell props fault =>
  cases eBU <;> cases fBU <;> simp [Function.comp_def, k3_relabelHalf_invol, swapAt_pair_invol]

theorem relabelVertexSpec_involutive (k : Kernel) (a b : Nat) : relabelVertexSpec (relabelVertexSpec k a b) a b = k := by
  unfold relabelVertexSpec
  simp only [swapAt_swapAt, swapVProps_invol, List.map_map, Function.comp_def, relabelEdgeV_invol, List.map_id']
  cases k with | mk nV edges faces cells vDel eDel fDel cDel nDelV nDelE nDelF nDelC deferred fast vBU eBU fBU outHes incHfs incCell props fault =>
  cases vBU <;> simp [swapAt_swapAt]

theorem relabelCellSpec_involutive (k : Kernel) (a b : Nat) : relabelCellSpec (relabelCellSpec k a b) a b = k := by
  unfold relabelCellSpec
  simp only [swapAt_swapAt, swapCProps_invol]
  cases k with | mk nV edges faces cells vDel eDel fDel cDel nDelV nDelE nDelF nDelC deferred fast vBU eBU fBU outHes incHfs incCell props fault =>
  cases fBU <;> simp [List.map_map, Function.comp_def, Logical.relabelId_invol]

/-! ### what a cache-guided swap does to a FLAGGED entity one level up: nothing -/

/-- edge cache on: a face that is not live (flagged, deferred deletion pending) is not visited by
    `swap_edge_indices` — its stored halfedge list keeps the OLD names -/
theorem swapEdge_faceAt_flagged {k : Kernel} {a b : Nat} (hab : a ≠ b) (ha : a < k.nE) (hb : b < k.nE)
    (hE : CacheInvE k) (hbu : k.eBU = true) {f : Nat} (hf : k.liveF f = false) :
    (k.swapEdge a b).faceAt f = k.faceAt f := by
  rw [swapEdge_faceAt k hab]
  split
  · rename_i hm
    exfalso
    unfold swapEdgeFaces at hm
    simp only [hbu, if_true, mem_dedupKeep, List.mem_map, List.mem_append] at hm
    obtain ⟨x, hx, rfl⟩ := hm
    obtain ⟨_, hperm⟩ := hE hbu
    have key : ∀ e, e < k.nE → x ∈ k.hfsOf (2 * e) → k.liveF (x / 2) = true := by
      intro e he hx
      have := (hperm (2 * e) (by unfold nHE nE at *; omega)).mem_iff.mp hx
      exact ((mem_sHfsOfHe k _ _).mp this).1
    rcases hx with hx | hx
    · rw [key a ha hx] at hf; cases hf
    · rw [key b hb hx] at hf; cases hf
  · rfl

/-- face cache on: a cell that is not live is not visited by `swap_face_indices` -/
theorem swapFace_cellAt_flagged {k : Kernel} {a b : Nat} (hab : a ≠ b) (hF : CacheInvF k) (hbu : k.fBU = true) {c : Nat}
    (hc : k.liveC c = false) : (k.swapFace a b).cellAt c = k.cellAt c := by
  rw [swapFace_cellAt k hab]
  split
  · rename_i hm
    exfalso
    unfold swapFaceCells swapFaceCellsBU at hm
    simp only [hbu, if_true, mem_dedupKeep, List.mem_filterMap] at hm
    obtain ⟨x, _, hx⟩ := hm
    rw [(cellOf_some_live hF hbu hx).2.1] at hc; cases hc
  · rfl

/-- vertex cache on: an edge that is not live is not visited by `swap_vertex_indices` -/
theorem swapVertex_edgeAt_flagged {k : Kernel} {a b : Nat} (hab : a ≠ b) (ha : a < k.nV) (hb : b < k.nV)
    (hV : CacheInvV k) (hbu : k.vBU = true) {e : Nat} (he : k.liveE e = false) :
    (k.swapVertex a b).edgeAt e = k.edgeAt e := by
  have hne : (a == b) = false := by simp [hab]
  obtain ⟨_, hperm⟩ := hV hbu
  unfold edgeAt swapVertex
  simp only [hne, Bool.false_eq_true, if_false, hbu, if_true]
  rw [List.getD_eq_getElem?_getD, foldl_modify_getElem? _ _ (nodup_dedupKeep _), List.getD_eq_getElem?_getD]
  split
  · rename_i hm
    exfalso
    simp only [mem_dedupKeep, List.mem_map, List.mem_append] at hm
    obtain ⟨x, hx, rfl⟩ := hm
    have key : ∀ v, v < k.nV → x ∈ k.outOf v → k.liveE (x / 2) = true := by
      intro v hv hx
      exact ((mem_sOut_iff k v x).mp ((hperm v hv).mem_iff.mp hx)).1
    rcases hx with hx | hx
    · rw [key a ha hx] at he; cases he
    · rw [key b hb hx] at he; cases he
  · rfl

/-! ### swapping twice restores the exact state — flags or not -/

/-- **`swap_edge_indices(a,b)` twice is the identity on the whole record** (definitions, flags, counters, caches
    including their order, all property columns), on every well-formed state, for valid handles, in every bottom-up
    configuration and with any number of pending deletions -/
theorem swapEdge_twice {k : Kernel} {a b : Nat} (ha : a < k.nE) (hb : b < k.nE) (hw : WF k) :
    (k.swapEdge a b).swapEdge a b = k := by
  by_cases hab : a = b
  · subst hab; rw [swapEdge_self, swapEdge_self]
  have hw1 := wf_swapEdge ha hb hw
  have ha1 : a < (k.swapEdge a b).nE := by unfold nE; rw [swapEdge_edges_length]; exact ha
  have hb1 : b < (k.swapEdge a b).nE := by unfold nE; rw [swapEdge_edges_length]; exact hb
  obtain ⟨e1, l1, _⟩ := swapEdge_eq_spec_live ha hb hab hw
  obtain ⟨e2, l2, _⟩ := swapEdge_eq_spec_live ha1 hb1 hab hw1
  have hlive : ∀ f, (k.swapEdge a b).liveF f = k.liveF f := by
    intro f; unfold liveF nF fDeleted; rw [swapEdge_faces_length, swapEdge_fDel]
  have hF : ((k.swapEdge a b).swapEdge a b).faces = k.faces := by
    apply k3_ext_getD []
    · rw [l2, l1]
    · intro f _
      show ((k.swapEdge a b).swapEdge a b).faceAt f = k.faceAt f
      by_cases hl : k.eBU = true → k.liveF f = true
      · rw [swapEdge_faceAt_live hab ha1 hb1 hw1.cache.e (fun h => by rw [hlive]; exact hl (by simpa using h)),
          swapEdge_faceAt_live hab ha hb hw.cache.e hl, List.map_map]
        simp [Function.comp_def, k3_relabelHalf_invol]
      · have hbu : k.eBU = true := Classical.byContradiction (fun h => hl (fun h' => absurd h' h))
        have hnl : k.liveF f = false := by
          cases h : k.liveF f with
          | false => rfl
          | true => exact absurd (fun _ => h) hl
        rw [swapEdge_faceAt_flagged hab ha1 hb1 hw1.cache.e (by simpa using hbu) (by rw [hlive]; exact hnl),
          swapEdge_faceAt_flagged hab ha hb hw.cache.e hbu hnl]
  have s2 : (k.swapEdge a b).swapEdge a b = { relabelEdgeSpec (k.swapEdge a b) a b with faces := k.faces } :=
    e2.trans (by rw [hF])
  have s1 := congrArg (fun X => ({ relabelEdgeSpec X a b with faces := k.faces } : Kernel)) e1
  have s0 : ({ relabelEdgeSpec { relabelEdgeSpec k a b with faces := (k.swapEdge a b).faces } a b with faces := k.faces } : Kernel) =
      { relabelEdgeSpec (relabelEdgeSpec k a b) a b with faces := k.faces } := rfl
  rw [s2]
  refine (s1.trans s0).trans ?_
  rw [relabelEdgeSpec_involutive]

/-- **`swap_face_indices(a,b)` twice is the identity on the whole record** (`oneCell`, C01's precondition, where the
    face cache guides) -/
theorem swapFace_twice {k : Kernel} {a b : Nat} (ha : a < k.nF) (hb : b < k.nF) (hw : WF k) (h1 : k.oneCell = true) :
    (k.swapFace a b).swapFace a b = k := by
  by_cases hab : a = b
  · subst hab; rw [swapFace_self, swapFace_self]
  have hw1 := wf_swapFace ha hb hw h1
  have h11 := oneCell_swapFace ha hb hw.cache.f h1
  have ha1 : a < (k.swapFace a b).nF := by unfold nF; rw [swapFace_faces_length]; exact ha
  have hb1 : b < (k.swapFace a b).nF := by unfold nF; rw [swapFace_faces_length]; exact hb
  obtain ⟨e1, l1, _⟩ := swapFace_eq_spec_live ha hb hab hw (fun _ => h1)
  obtain ⟨e2, l2, _⟩ := swapFace_eq_spec_live ha1 hb1 hab hw1 (fun _ => h11)
  have hlive : ∀ c, (k.swapFace a b).liveC c = k.liveC c := by
    intro c; unfold liveC nC cDeleted; rw [swapFace_cells_length, swapFace_cDel]
  have hC : ((k.swapFace a b).swapFace a b).cells = k.cells := by
    apply k3_ext_getD []
    · rw [l2, l1]
    · intro c _
      show ((k.swapFace a b).swapFace a b).cellAt c = k.cellAt c
      by_cases hl : k.fBU = true → k.liveC c = true
      · rw [swapFace_cellAt_live hab ha1 hb1 hw1.cache.f (fun _ => h11) (fun h => by rw [hlive]; exact hl (by simpa using h)),
          swapFace_cellAt_live hab ha hb hw.cache.f (fun _ => h1) hl, List.map_map]
        simp [Function.comp_def, k3_relabelHalf_invol]
      · have hbu : k.fBU = true := Classical.byContradiction (fun h => hl (fun h' => absurd h' h))
        have hnl : k.liveC c = false := by
          cases h : k.liveC c with
          | false => rfl
          | true => exact absurd (fun _ => h) hl
        rw [swapFace_cellAt_flagged hab hw1.cache.f (by simpa using hbu) (by rw [hlive]; exact hnl),
          swapFace_cellAt_flagged hab hw.cache.f hbu hnl]
  have s2 : (k.swapFace a b).swapFace a b = { relabelFaceSpec (k.swapFace a b) a b with cells := k.cells } :=
    e2.trans (by rw [hC])
  have s1 := congrArg (fun X => ({ relabelFaceSpec X a b with cells := k.cells } : Kernel)) e1
  have s0 : ({ relabelFaceSpec { relabelFaceSpec k a b with cells := (k.swapFace a b).cells } a b with cells := k.cells } : Kernel) =
      { relabelFaceSpec (relabelFaceSpec k a b) a b with cells := k.cells } := rfl
  rw [s2]
  refine (s1.trans s0).trans ?_
  rw [relabelFaceSpec_involutive]

/-- **`swap_vertex_indices(a,b)` twice is the identity on the whole record** -/
theorem swapVertex_twice {k : Kernel} {a b : Nat} (ha : a < k.nV) (hb : b < k.nV) (hw : WF k) :
    (k.swapVertex a b).swapVertex a b = k := by
  by_cases hab : a = b
  · subst hab; rw [swapVertex_self, swapVertex_self]
  have hw1 := wf_swapVertex ha hb hw
  have ha1 : a < (k.swapVertex a b).nV := by simpa using ha
  have hb1 : b < (k.swapVertex a b).nV := by simpa using hb
  obtain ⟨e1, l1, _⟩ := swapVertex_eq_spec_live ha hb hab hw
  obtain ⟨e2, l2, _⟩ := swapVertex_eq_spec_live ha1 hb1 hab hw1
  have hlive : ∀ e, (k.swapVertex a b).liveE e = k.liveE e := by
    intro e; unfold liveE nE eDeleted; rw [swapVertex_edges_length, swapVertex_eDel]
  have hE : ((k.swapVertex a b).swapVertex a b).edges = k.edges := by
    apply k3_ext_getD (0, 0)
    · rw [l2, l1]
    · intro e he
      rw [l2, l1] at he
      show ((k.swapVertex a b).swapVertex a b).edgeAt e = k.edgeAt e
      by_cases hl : k.vBU = true → k.liveE e = true
      · rw [swapVertex_edgeAt_live hab ha1 hb1 hw1.cache.v (by rw [l1]; exact he)
            (fun h => by rw [hlive]; exact hl (by simpa using h)),
          swapVertex_edgeAt_live hab ha hb hw.cache.v he hl, relabelEdgeV_invol]
      · have hbu : k.vBU = true := Classical.byContradiction (fun h => hl (fun h' => absurd h' h))
        have hnl : k.liveE e = false := by
          cases h : k.liveE e with
          | false => rfl
          | true => exact absurd (fun _ => h) hl
        rw [swapVertex_edgeAt_flagged hab ha1 hb1 hw1.cache.v (by simpa using hbu) (by rw [hlive]; exact hnl),
          swapVertex_edgeAt_flagged hab ha hb hw.cache.v hbu hnl]
  have s2 : (k.swapVertex a b).swapVertex a b = { relabelVertexSpec (k.swapVertex a b) a b with edges := k.edges } :=
    e2.trans (by rw [hE])
  have s1 := congrArg (fun X => ({ relabelVertexSpec X a b with edges := k.edges } : Kernel)) e1
  have s0 : ({ relabelVertexSpec { relabelVertexSpec k a b with edges := (k.swapVertex a b).edges } a b with edges := k.edges } : Kernel) =
      { relabelVertexSpec (relabelVertexSpec k a b) a b with edges := k.edges } := rfl
  rw [s2]
  refine (s1.trans s0).trans ?_
  rw [relabelVertexSpec_involutive]

/-- **`swap_cell_indices(a,b)` twice is the identity on the whole record** -/
theorem swapCell_twice {k : Kernel} {a b : Nat} (ha : a < k.nC) (hb : b < k.nC) (hw : WF k) (h1 : k.oneCell = true) :
    (k.swapCell a b).swapCell a b = k := by
  by_cases hab : a = b
  · subst hab; rw [swapCell_self, swapCell_self]
  rw [swapCell_eq_spec hab (wf_swapCell ha hb hw h1), swapCell_eq_spec hab hw, relabelCellSpec_involutive]

end Global
end Kernel
end OVM

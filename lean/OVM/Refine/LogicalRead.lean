import OVM.Refine.LogicalCount
/-
  C02 / C04 — `LogMinus` (OVM/Refine/Logical.lean) spelled out in elementary terms (`Carried`): who is live afterwards,
  what the surviving definitions are, what every property column holds — in terms of `liveV/E/F/C`, `edgeAt/faceAt/cellAt`
  and `getElem?` on the columns only.
-/
namespace OVM
namespace Kernel
namespace Logical
open ScanDel Global

theorem ColsFollow.get {P : Nat → Prop} {ρ : Nat → Nat} {cs cs' : List Col} (h : ColsFollow P ρ cs cs') (i : Nat) (c : Col)
    (hc : cs[i]? = some c) :
    ∃ c', cs'[i]? = some c' ∧ c'.key = c.key ∧ c'.dflt = c.dflt ∧ ∀ x, P x → c'.vals[ρ x]? = c.vals[x]? := by
  induction cs generalizing cs' i with
  | nil => simp at hc
  | cons a t ih =>
    cases cs' with
    | nil => exact h.elim
    | cons a' t' =>
      cases i with
      | zero =>
        simp only [List.getElem?_cons_zero, Option.some.injEq] at hc
        subst hc
        exact ⟨a', by simp, h.1.1, h.1.2.1, h.1.2.2⟩
      | succ j =>
        simp only [List.getElem?_cons_succ] at hc ⊢
        exact ih h.2 j hc

theorem ColsFollow.length {P : Nat → Prop} {ρ : Nat → Nat} {cs cs' : List Col} (h : ColsFollow P ρ cs cs') :
    cs'.length = cs.length := by
  induction cs generalizing cs' with
  | nil => cases cs' with
    | nil => rfl
    | cons _ _ => exact h.elim
  | cons a t ih => cases cs' with
    | nil => exact h.elim
    | cons a' t' => simp [ih h.2]

theorem liveV_iff {k : Kernel} {z : Nat} : k.liveV z = true ↔ (z < k.nV ∧ k.vDel.getD z false = false) := by
  unfold liveV vDeleted; simp

/-- a column of kind `κ` of `k'` read through `ρ` on the slots `P` of the same column of `k` -/
def ColCarried (cs cs' : List Col) (P : Nat → Prop) (ρ : Nat → Nat) : Prop :=
  cs'.length = cs.length ∧ ∀ (i : Nat) (c : Col), cs[i]? = some c → ∃ c' : Col, cs'[i]? = some c' ∧ c'.key = c.key ∧ c'.dflt = c.dflt ∧
    ∀ x, P x → c'.vals[ρ x]? = c.vals[x]?

/-- **the logical mesh of `k'` is that of `k` minus `S`, renumbered by `ρ` — in elementary terms** -/
structure Carried (k k' : Kernel) (ρ : Ren) (S : Rem) : Prop where
  /-- the live entities afterwards are exactly the images of the live entities outside `S` -/
  liveV : ∀ y, k'.liveV y = true ↔ ∃ x, k.liveV x = true ∧ ¬ S.v x ∧ ρ.v x = y
  liveE : ∀ y, k'.liveE y = true ↔ ∃ x, k.liveE x = true ∧ ¬ S.e x ∧ ρ.e x = y
  liveF : ∀ y, k'.liveF y = true ↔ ∃ x, k.liveF x = true ∧ ¬ S.f x ∧ ρ.f x = y
  liveC : ∀ y, k'.liveC y = true ↔ ∃ x, k.liveC x = true ∧ ¬ S.c x ∧ ρ.c x = y
  /-- no two survivors get the same handle -/
  injV : ∀ x x', k.liveV x = true → ¬ S.v x → k.liveV x' = true → ¬ S.v x' → ρ.v x = ρ.v x' → x = x'
  injE : ∀ x x', k.liveE x = true → ¬ S.e x → k.liveE x' = true → ¬ S.e x' → ρ.e x = ρ.e x' → x = x'
  injF : ∀ x x', k.liveF x = true → ¬ S.f x → k.liveF x' = true → ¬ S.f x' → ρ.f x = ρ.f x' → x = x'
  injC : ∀ x x', k.liveC x = true → ¬ S.c x → k.liveC x' = true → ¬ S.c x' → ρ.c x = ρ.c x' → x = x'
  /-- every survivor keeps its definition, in the new names -/
  edge : ∀ e, k.liveE e = true → ¬ S.e e → k'.edgeAt (ρ.e e) = (ρ.v (k.edgeAt e).1, ρ.v (k.edgeAt e).2)
  face : ∀ f, k.liveF f = true → ¬ S.f f → k'.faceAt (ρ.f f) = (k.faceAt f).map (fun h => 2 * ρ.e (h / 2) + h % 2)
  cell : ∀ c, k.liveC c = true → ¬ S.c c → k'.cellAt (ρ.c c) = (k.cellAt c).map (fun h => 2 * ρ.f (h / 2) + h % 2)
  /-- every property column of every kind follows the same renumbering (half-entity columns: both sides of the parent) -/
  colV : ColCarried k.props.v k'.props.v (fun x => k.liveV x = true ∧ ¬ S.v x) ρ.v
  colE : ColCarried k.props.e k'.props.e (fun x => k.liveE x = true ∧ ¬ S.e x) ρ.e
  colF : ColCarried k.props.f k'.props.f (fun x => k.liveF x = true ∧ ¬ S.f x) ρ.f
  colC : ColCarried k.props.c k'.props.c (fun x => k.liveC x = true ∧ ¬ S.c x) ρ.c
  colHE : ColCarried k.props.he k'.props.he (fun y => k.liveE (y / 2) = true ∧ ¬ S.e (y / 2)) (fun y => 2 * ρ.e (y / 2) + y % 2)
  colHF : ColCarried k.props.hf k'.props.hf (fun y => k.liveF (y / 2) = true ∧ ¬ S.f (y / 2)) (fun y => 2 * ρ.f (y / 2) + y % 2)
  mesh : k'.props.m = k.props.m

theorem kind_live {n n' : Nat} {del del' : List Bool} {S : Nat → Prop} {ρ : Nat → Nat} {cs cs' : List Col}
    (h : KindOK n del S n' del' ρ cs cs') (y : Nat) :
    (y < n' ∧ del'.getD y false = false) ↔ ∃ x, (x < n ∧ del.getD x false = false) ∧ ¬ S x ∧ ρ x = y := by
  constructor
  · rintro ⟨a, b⟩
    obtain ⟨x, hx, e⟩ := h.onto y a b
    exact ⟨x, ⟨hx.1, hx.2.1⟩, hx.2.2, e⟩
  · rintro ⟨x, ⟨a, b⟩, c, rfl⟩
    exact h.into x ⟨a, b, c⟩

theorem colCarried_of {P Q : Nat → Prop} {ρ : Nat → Nat} {cs cs' : List Col} (h : ColsFollow P ρ cs cs')
    (hq : ∀ x, Q x → P x) : ColCarried cs cs' Q ρ :=
  ⟨h.length, fun i c hc => by
    obtain ⟨c', a, b, d, e⟩ := h.get i c hc
    exact ⟨c', a, b, d, fun x hx => e x (hq x hx)⟩⟩

/-- `LogMinus` unfolded -/
theorem carried_of_logMinus {k k' : Kernel} {ρ : Ren} {S : Rem} (h : LogMinus k k' ρ S) : Carried k k' ρ S := by
  refine ⟨?_, ?_, ?_, ?_, ?_, ?_, ?_, ?_, ?_, ?_, ?_, ?_, ?_, ?_, ?_, ?_, ?_, h.m⟩
  · intro y; rw [liveV_iff]; simp only [liveV_iff]; exact kind_live h.v y
  · intro y; rw [liveE_iff]; simp only [liveE_iff]; exact kind_live h.e y
  · intro y; rw [liveF_iff]; simp only [liveF_iff]; exact kind_live h.f y
  · intro y; rw [liveC_iff]; simp only [liveC_iff]; exact kind_live h.c y
  · intro x x' a b c d e
    exact h.v.inj x x' ⟨(liveV_iff.mp a).1, (liveV_iff.mp a).2, b⟩ ⟨(liveV_iff.mp c).1, (liveV_iff.mp c).2, d⟩ e
  · intro x x' a b c d e
    exact h.e.inj x x' ⟨(liveE_iff.mp a).1, (liveE_iff.mp a).2, b⟩ ⟨(liveE_iff.mp c).1, (liveE_iff.mp c).2, d⟩ e
  · intro x x' a b c d e
    exact h.f.inj x x' ⟨(liveF_iff.mp a).1, (liveF_iff.mp a).2, b⟩ ⟨(liveF_iff.mp c).1, (liveF_iff.mp c).2, d⟩ e
  · intro x x' a b c d e
    exact h.c.inj x x' ⟨(liveC_iff.mp a).1, (liveC_iff.mp a).2, b⟩ ⟨(liveC_iff.mp c).1, (liveC_iff.mp c).2, d⟩ e
  · intro e a b; exact h.edge e ⟨(liveE_iff.mp a).1, (liveE_iff.mp a).2, b⟩
  · intro f a b; exact h.face f ⟨(liveF_iff.mp a).1, (liveF_iff.mp a).2, b⟩
  · intro c a b; exact h.cell c ⟨(liveC_iff.mp a).1, (liveC_iff.mp a).2, b⟩
  · exact colCarried_of h.v.cols (fun x hx => ⟨(liveV_iff.mp hx.1).1, (liveV_iff.mp hx.1).2, hx.2⟩)
  · exact colCarried_of h.e.cols (fun x hx => ⟨(liveE_iff.mp hx.1).1, (liveE_iff.mp hx.1).2, hx.2⟩)
  · exact colCarried_of h.f.cols (fun x hx => ⟨(liveF_iff.mp hx.1).1, (liveF_iff.mp hx.1).2, hx.2⟩)
  · exact colCarried_of h.c.cols (fun x hx => ⟨(liveC_iff.mp hx.1).1, (liveC_iff.mp hx.1).2, hx.2⟩)
  · exact colCarried_of h.he (fun x hx => ⟨(liveE_iff.mp hx.1).1, (liveE_iff.mp hx.1).2, hx.2⟩)
  · exact colCarried_of h.hf (fun x hx => ⟨(liveF_iff.mp hx.1).1, (liveF_iff.mp hx.1).2, hx.2⟩)

/-- the tetrahedron with all caches enabled (deferred, swap-with-last) satisfies the global invariant -/
theorem ginv_tetK : GInv tetK :=
  ginv_of_noFlag wf_tetK (by decide) (by unfold NoFlag; decide) (by unfold NoFlag; decide) (by unfold NoFlag; decide)
    (by unfold NoFlag; decide)

end Logical
end Kernel
end OVM

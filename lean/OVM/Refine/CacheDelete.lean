import OVM.Refine.ScanDel
import OVM.Refine.Len
/-
  Preservation of `WF = LenInv ∧ RangeInv ∧ CacheInv` by deletion.
  Part A (this file, complete): deferred mode (`k.deferred = true`), where `delete_X_core` is
  `unlinkX` (remove the victim from the caches) followed by `flagX` (set the deleted flag, bump the
  counter); nothing is erased, so `RangeInv` is untouched and the scans simply lose the victim.
  Immediate deletion (Part C) builds on the swaps and is at the end of OVM/Refine/CacheSwap.lean.
  What the model does (Kernel/Delete.lean), deferred mode:
    deleteCell c   = flagCell (unlinkCell k c) c
    deleteFace f   = deleteFaceCore after deleting `incidentCells [f]` (descending handles)
    deleteEdge e   = deleteEdgeCore after the cells of the faces of e, then the faces of e
    deleteVertex v = deleteVertexCore (= flagVertex) after cells, faces, edges of the closure.
-/
namespace OVM
namespace Kernel
open ScanDel

/-! ### the scans and the invariants depend on few fields -/
theorem sOut_of_eq {k k' : Kernel} (he : k'.edges = k.edges) (hd : k'.eDel = k.eDel) (v : Nat) :
    k'.sOut v = k.sOut v := by
  unfold sOut liveHes liveE fromV halfedge edgeAt eDeleted nHE nE; rw [he, hd]
theorem sHfsOfHe_of_eq {k k' : Kernel} (hf : k'.faces = k.faces) (hd : k'.fDel = k.fDel) (h : Nat) :
    k'.sHfsOfHe h = k.sHfsOfHe h := by
  unfold sHfsOfHe liveHfs liveF hfHes faceAt fDeleted nHF nF; rw [hf, hd]
theorem sCellOf_of_eq {k k' : Kernel} (hc : k'.cells = k.cells) (hd : k'.cDel = k.cDel) (hf : Nat) :
    k'.sCellOf hf = k.sCellOf hf := by
  unfold sCellOf sCellsOfHf liveCells cellAt cDeleted nC; rw [hc, hd]

theorem cacheInvV_of_eq {k k' : Kernel} (hb : k'.vBU = k.vBU) (ho : k'.outHes = k.outHes) (hn : k'.nV = k.nV)
    (he : k'.edges = k.edges) (hd : k'.eDel = k.eDel) (h : CacheInvV k) : CacheInvV k' := by
  intro hb'; rw [hb] at hb'
  have := h hb'
  refine ⟨by rw [ho, hn]; exact this.1, fun v hv => ?_⟩
  rw [sOut_of_eq he hd]; unfold outOf; rw [ho]; exact this.2 v (hn ▸ hv)

theorem cacheInvE_of_eq {k k' : Kernel} (hb : k'.eBU = k.eBU) (hi : k'.incHfs = k.incHfs)
    (he : k'.edges.length = k.edges.length) (hf : k'.faces = k.faces) (hd : k'.fDel = k.fDel)
    (h : CacheInvE k) : CacheInvE k' := by
  intro hb'; rw [hb] at hb'
  have := h hb'
  have hn : k'.nHE = k.nHE := by unfold nHE; rw [he]
  refine ⟨by rw [hi, hn]; exact this.1, fun v hv => ?_⟩
  rw [sHfsOfHe_of_eq hf hd]; unfold hfsOf; rw [hi]; exact this.2 v (hn ▸ hv)

theorem cacheInvF_of_eq {k k' : Kernel} (hb : k'.fBU = k.fBU) (hi : k'.incCell = k.incCell)
    (hf : k'.faces.length = k.faces.length) (hc : k'.cells = k.cells) (hd : k'.cDel = k.cDel)
    (h : CacheInvF k) : CacheInvF k' := by
  intro hb'; rw [hb] at hb'
  have := h hb'
  have hn : k'.nHF = k.nHF := by unfold nHF; rw [hf]
  refine ⟨by rw [hi, hn]; exact this.1, fun v hv => ?_⟩
  rw [sCellOf_of_eq hc hd]; unfold cellOf; rw [hi]; exact this.2 v (hn ▸ hv)

theorem rangeInv_of_eq {k k' : Kernel} (hn : k'.nV = k.nV) (he : k'.edges = k.edges) (hf : k'.faces = k.faces)
    (hc : k'.cells = k.cells) (h : RangeInv k) : RangeInv k' := by
  constructor
  · rw [he, hn]; exact h.edges
  · unfold nHE; rw [hf, he]; exact h.faces
  · unfold nHF; rw [hc, hf]; exact h.cells

/-! ### vertices: `delete_vertex_core` in deferred mode only sets the flag; no scan looks at it -/
theorem wf_flagVertex {k : Kernel} (h : Nat) (hw : WF k) : WF (k.flagVertex h) :=
  ⟨lenInv_flagVertex k h hw.len,
   rangeInv_of_eq (by simp) (by simp) (by simp) (by simp) hw.range,
   ⟨cacheInvV_of_eq (by simp) (by simp) (by simp) (by simp) (by simp) hw.cache.v,
    cacheInvE_of_eq (by simp) (by simp) (by simp) (by simp) (by simp) hw.cache.e,
    cacheInvF_of_eq (by simp) (by simp) (by simp) (by simp) (by simp) hw.cache.f⟩⟩

/-! ### edges -/
theorem eOf_bne (x h : Nat) : (eOf x != h) = (x != 2 * h && x != 2 * h + 1) := by
  unfold eOf
  by_cases e : x / 2 = h
  · have : x = 2 * h ∨ x = 2 * h + 1 := by omega
    rcases this with e1 | e1
    · simp [e, e1]
    · have : (2 * h + 1) / 2 = h := by omega
      simp [e1, this]
  · have h1 : x ≠ 2 * h := by omega
    have h2 : x ≠ 2 * h + 1 := by omega
    have : (x / 2 != h) = true := by simp [e]
    rw [this]; simp [h1, h2]

theorem liveEdges_flag (k : Kernel) (h : Nat) (hl : k.eDel.length = k.nE) :
    (List.range k.nE).filter (fun e => !((k.eDel.set h true).getD e false)) = k.liveEdges.filter (· != h) := by
  unfold liveEdges
  rw [List.filter_filter]
  apply List.filter_congr
  intro e he
  have he' : e < k.eDel.length := by rw [hl]; exact List.mem_range.mp he
  unfold eDeleted
  rw [getD_set]
  by_cases hh : h = e
  · subst hh; simp [he']
  · have : e ≠ h := fun x => hh x.symm
    simp [hh, this]

theorem outBlock_eOf (k : Kernel) (v e : Nat) : ∀ y ∈ k.outBlock v e, eOf y = e := by
  intro y hy
  unfold outBlock at hy
  simp only [List.mem_filter, List.mem_cons, List.not_mem_nil, or_false] at hy
  unfold eOf; rcases hy.1 with h | h <;> omega

theorem mem_sOut {k : Kernel} {v x : Nat} (h : x ∈ k.sOut v) : k.fromV x = v ∧ k.liveE (eOf x) = true := by
  unfold sOut liveHes at h
  simp only [List.mem_filter, List.mem_range, beq_iff_eq] at h
  exact ⟨h.2, h.1.2⟩

theorem fromV_even (k : Kernel) (e : Nat) : k.fromV (2 * e) = (k.edgeAt e).1 := by
  unfold fromV halfedge eOf side
  have e1 : 2 * e / 2 = e := by omega
  have e2 : 2 * e % 2 = 0 := by omega
  simp [e1, e2]
theorem fromV_odd' (k : Kernel) (e : Nat) : k.fromV (2 * e + 1) = (k.edgeAt e).2 := by
  unfold fromV halfedge eOf side
  have e1 : (2 * e + 1) / 2 = e := by omega
  have e2 : (2 * e + 1) % 2 = 1 := by omega
  simp [e1, e2]

/-- `delete_edge_core`, deferred: the vertex cache loses exactly the two halfedges of the edge -/
theorem cacheInvV_unlinkFlagEdge {k : Kernel} (h : Nat) (hl : k.eDel.length = k.nE) (hV : CacheInvV k) :
    CacheInvV ((k.unlinkEdge h).flagEdge h) := by
  intro hb
  have hb' : k.vBU = true := by simpa using hb
  obtain ⟨hlen, hperm⟩ := hV hb'
  have hlen' : ((k.unlinkEdge h).flagEdge h).outHes.length = k.outHes.length := by
    simp only [flagEdge_outHes]; unfold unlinkEdge; simp [hb']
  refine ⟨by rw [hlen']; simpa using hlen, fun v hv => ?_⟩
  have hv' : v < k.nV := by simpa using hv
  -- the scan after flagging
  have hs : ((k.unlinkEdge h).flagEdge h).sOut v = (k.sOut v).filter (fun x => eOf x != h) := by
    rw [sOut_eq, sOut_eq]
    have h1 : ((k.unlinkEdge h).flagEdge h).liveEdges = k.liveEdges.filter (· != h) := by
      unfold liveEdges eDeleted nE
      simp only [flagEdge_edges, unlinkEdge_edges, flagEdge_eDel, unlinkEdge_eDel]
      exact liveEdges_flag k h hl
    have h2 : ((k.unlinkEdge h).flagEdge h).outBlock v = k.outBlock v := by
      funext e; unfold outBlock fromV halfedge edgeAt; simp
    rw [h1, h2]
    exact (filter_flatMap_key k.liveEdges (k.outBlock v) eOf (· != h) (outBlock_eOf k v)).symm
  rw [hs]
  -- the cache after unlinking
  have hc : ((k.unlinkEdge h).flagEdge h).outOf v = (k.outOf v).filter (fun x => eOf x != h) := by
    unfold outOf
    simp only [flagEdge_outHes]
    unfold unlinkEdge
    simp only [hb', if_true]
    rw [getD_modify, getD_modify]
    simp only [List.length_modify]
    have hvl : v < k.outHes.length := by rw [hlen]; exact hv'
    have key : ∀ x ∈ k.outHes.getD v [], (x = 2 * h → (k.edgeAt h).1 = v) ∧ (x = 2 * h + 1 → (k.edgeAt h).2 = v) := by
      intro x hx
      have := mem_sOut ((hperm v hv').mem_iff.mp hx)
      constructor
      · intro e; rw [e, fromV_even] at this; exact this.1
      · intro e; rw [e, fromV_odd'] at this; exact this.1
    unfold removeAll heOf
    simp only [Nat.add_zero]
    by_cases ha : (k.edgeAt h).1 = v <;> by_cases hb2 : (k.edgeAt h).2 = v
    · simp only [ha, hb2, hvl, and_self, if_true, List.filter_filter]
      apply List.filter_congr; intro x _
      rw [eOf_bne, Bool.and_comm]
    · simp only [ha, hb2, hvl, and_self, if_true, false_and, if_false]
      apply List.filter_congr; intro x hx
      have e2 : x ≠ 2 * h + 1 := fun e2 => hb2 ((key x hx).2 e2)
      rw [eOf_bne]; simp [e2]
    · simp only [ha, hb2, hvl, and_self, if_true, false_and, if_false]
      apply List.filter_congr; intro x hx
      have e1 : x ≠ 2 * h := fun e1 => ha ((key x hx).1 e1)
      rw [eOf_bne]; simp [e1]
    · simp only [ha, hb2, false_and, if_false]
      symm; apply List.filter_eq_self.mpr; intro x hx
      have e1 : x ≠ 2 * h := fun e1 => ha ((key x hx).1 e1)
      have e2 : x ≠ 2 * h + 1 := fun e2 => hb2 ((key x hx).2 e2)
      rw [eOf_bne]; simp [e1, e2]
  rw [hc]
  exact (hperm v hv').filter _


theorem deleteEdgeCore_deferred_eq {k : Kernel} (h : Nat) (hd : k.deferred = true) :
    k.deleteEdgeCore h = (k.unlinkEdge h).flagEdge h := by
  unfold deleteEdgeCore; simp [hd]

theorem wf_deleteEdgeCore_deferred {k : Kernel} (h : Nat) (hd : k.deferred = true) (hw : WF k) :
    WF (k.deleteEdgeCore h) := by
  refine ⟨lenInv_deleteEdgeCore k h hw.len, ?_, ?_⟩
  · rw [deleteEdgeCore_deferred_eq h hd]
    exact rangeInv_of_eq (by simp) (by simp) (by simp) (by simp) hw.range
  · rw [deleteEdgeCore_deferred_eq h hd]
    exact ⟨cacheInvV_unlinkFlagEdge h hw.len.eDel hw.cache.v,
      cacheInvE_of_eq (by simp) (by simp) (by simp) (by simp) (by simp) hw.cache.e,
      cacheInvF_of_eq (by simp) (by simp) (by simp) (by simp) (by simp) hw.cache.f⟩

/-! ### cells -/
/-- the face cache after `delete_cell_core` cleared the links of cell `h` -/
theorem clearCell_getD (h : Nat) (hfs : List Nat) (ic : List (Option Nat)) (x : Nat) :
    (hfs.foldl (fun ic hf => if ic.getD hf none == some h then ic.set hf none else ic) ic).getD x none =
      if x ∈ hfs ∧ ic.getD x none = some h then none else ic.getD x none := by
  induction hfs generalizing ic with
  | nil => simp only [List.foldl_nil, List.not_mem_nil, false_and, if_false]
  | cons a t ih =>
    simp only [List.foldl_cons]
    rw [ih]
    by_cases hc : ic.getD a none = some h
    · have hc' : (ic.getD a none == some h) = true := beq_iff_eq.mpr hc
      rw [if_pos hc']
      by_cases hax : a = x
      · subst hax
        have hl : a < ic.length := by
          rcases Nat.lt_or_ge a ic.length with h1 | h1
          · exact h1
          · rw [getD_of_ge _ _ _ h1] at hc; cases hc
        have hv : (ic.set a none).getD a none = none := by rw [getD_set, if_pos ⟨rfl, hl⟩]
        rw [hv]
        have e2 : (if a ∈ a :: t ∧ ic.getD a none = some h then (none : Option Nat) else ic.getD a none) = none :=
          if_pos ⟨List.mem_cons_self, hc⟩
        rw [e2]
        split <;> rfl
      · have h1 : ¬ (a = x ∧ a < ic.length) := fun h => hax h.1
        have hv : (ic.set a none).getD x none = ic.getD x none := by rw [getD_set, if_neg h1]
        rw [hv]
        have hxa : x ≠ a := fun e => hax e.symm
        simp only [List.mem_cons, hxa, false_or]
    · have hc' : ¬ (ic.getD a none == some h) = true := fun e => hc (beq_iff_eq.mp e)
      rw [if_neg hc']
      by_cases hxa : x = a
      · subst hxa
        have h1 : ¬ (x ∈ t ∧ ic.getD x none = some h) := fun e => hc e.2
        have h2 : ¬ (x ∈ x :: t ∧ ic.getD x none = some h) := fun e => hc e.2
        rw [if_neg h1, if_neg h2]
      · simp only [List.mem_cons, hxa, false_or]

theorem unlinkCell_cellOf (k : Kernel) (h x : Nat) (hb : k.fBU = true) :
    (k.unlinkCell h).cellOf x = if x ∈ k.cellAt h ∧ k.cellOf x = some h then none else k.cellOf x := by
  unfold cellOf unlinkCell
  simp only [hb, if_true]
  split
  · rw [foldl_reorder_incCell]; exact clearCell_getD h _ _ x
  · exact clearCell_getD h _ _ x

theorem sCellOf_none_iff (k : Kernel) (x : Nat) :
    k.sCellOf x = none ↔ ∀ c, k.liveC c = true → x ∉ k.cellAt c := by
  unfold sCellOf sCellsOfHf
  rw [List.head?_eq_none_iff, List.filter_eq_nil_iff]
  simp only [mem_liveCells, List.contains_iff_mem]

theorem liveC_flagCell (k : Kernel) (h c : Nat) (hl : k.cDel.length = k.nC) :
    (k.flagCell h).liveC c = (k.liveC c && (c != h)) := by
  unfold liveC cDeleted nC
  simp only [flagCell_cells, flagCell_cDel, getD_set]
  by_cases hh : h = c
  · subst hh
    by_cases hc : h < k.cells.length
    · have : h < k.cDel.length := by rw [hl]; exact hc
      simp [this]
    · simp [hc]
  · have : c ≠ h := fun x => hh x.symm
    simp [hh, this]


theorem cellAt_of_eq {k k' : Kernel} (h : k'.cells = k.cells) (x : Nat) : k'.cellAt x = k.cellAt x := by
  unfold cellAt; rw [h]

namespace ScanDel
theorem sum_map_filter_mono (l : List Nat) (g : Nat → Nat) (p q : Nat → Bool) (h : ∀ x ∈ l, p x = true → q x = true) :
    ((l.filter p).map g).sum ≤ ((l.filter q).map g).sum := by
  induction l with
  | nil => simp
  | cons a t ih =>
    have ih' := ih (fun x hx => h x (by simp [hx]))
    simp only [List.filter_cons]
    by_cases hp : p a = true
    · have hq := h a (by simp) hp
      simp only [hp, hq, if_true, List.map_cons, List.sum_cons]; omega
    · simp only [hp, Bool.false_eq_true, if_false]
      split
      · simp only [List.map_cons, List.sum_cons]; omega
      · exact ih'
end ScanDel

/-- fewer live cells, same definitions: C01's precondition is kept -/
theorem oneCell_of_sub {k k' : Kernel} (hf : k'.faces.length = k.faces.length) (hc : k'.cells = k.cells)
    (hsub : ∀ c, k'.cDeleted c = false → k.cDeleted c = false) (h : k.oneCell = true) : k'.oneCell = true := by
  unfold oneCell at *
  simp only [List.all_eq_true, List.mem_range, decide_eq_true_eq] at *
  intro hf' hlt
  have hlt' : hf' < k.nHF := by unfold nHF at *; rw [← hf]; exact hlt
  refine Nat.le_trans ?_ (h hf' hlt')
  unfold liveCells nC
  rw [hc]
  have : (fun c => (k'.cellAt c).count hf') = (fun c => (k.cellAt c).count hf') := by
    funext c; rw [cellAt_of_eq hc]
  rw [this]
  apply sum_map_filter_mono
  intro c _ hp
  have := hsub c (by simpa using hp)
  simp [this]

theorem deleteCellCore_deferred_eq {k : Kernel} (h : Nat) (hd : k.deferred = true) :
    k.deleteCellCore h = (k.unlinkCell h).flagCell h := by
  unfold deleteCellCore; simp [hd]

theorem cDeleted_flagCell (k : Kernel) (h c : Nat) (hn : (k.flagCell h).cDeleted c = false) : k.cDeleted c = false := by
  unfold cDeleted at *
  simp only [flagCell_cDel, getD_set] at hn
  split at hn
  · cases hn
  · exact hn

theorem oneCell_deleteCellCore_deferred {k : Kernel} (h : Nat) (hd : k.deferred = true) (h1 : k.oneCell = true) :
    (k.deleteCellCore h).oneCell = true := by
  rw [deleteCellCore_deferred_eq h hd]
  apply oneCell_of_sub (k := k) (by simp) (by simp) _ h1
  intro c hc
  have := cDeleted_flagCell (k.unlinkCell h) h c hc
  unfold cDeleted at *; simpa using this

/-- `delete_cell_core`, deferred: every halfface linked to the cell is unlinked, every other link
    stays and is still the (unique) live cell of its halfface.  Needs C01's precondition `oneCell`:
    with two live cells on one halfface the cache holds the one linked last and deleting it leaves
    `none` although the other cell is still there (TopologyKernel.cc:1385-1388 only clears). -/
theorem cacheInvF_deleteCellCore_deferred {k : Kernel} (h : Nat) (hd : k.deferred = true) (hw : WF k)
    (h1 : k.oneCell = true) : CacheInvF (k.deleteCellCore h) := by
  have h1' := oneCell_deleteCellCore_deferred h hd h1
  rw [deleteCellCore_deferred_eq h hd] at h1' ⊢
  intro hb
  have hb' : k.fBU = true := by simpa using hb
  have hF := hw.cache.f
  obtain ⟨hlen, hslots⟩ := hF hb'
  have hnHF : ((k.unlinkCell h).flagCell h).nHF = k.nHF := by unfold nHF; simp
  refine ⟨by rw [hnHF, flagCell_incCell, unlinkCell_incCell_length]; exact hlen, fun x hx => ?_⟩
  rw [hnHF] at hx
  have hco : ((k.unlinkCell h).flagCell h).cellOf x =
      if x ∈ k.cellAt h ∧ k.cellOf x = some h then none else k.cellOf x := by
    rw [← unlinkCell_cellOf k h x hb']; unfold cellOf; simp
  have hca : ∀ c, ((k.unlinkCell h).flagCell h).cellAt c = k.cellAt c := fun c => cellAt_of_eq (by simp) c
  have hlive : ∀ c, ((k.unlinkCell h).flagCell h).liveC c = (k.liveC c && (c != h)) := by
    intro c
    rw [liveC_flagCell _ h c (by simpa [nC] using hw.len.cDel)]
    unfold liveC cDeleted nC; simp
  rw [hco]
  cases hc : k.cellOf x with
  | none =>
    simp only [reduceCtorEq, and_false, if_false]
    symm
    rw [sCellOf_none_iff]
    intro c hlc
    rw [hlive] at hlc
    rw [hca]
    have hn : k.sCellOf x = none := by rw [← hslots x hx]; exact hc
    exact (sCellOf_none_iff k x).mp hn c (by simp at hlc; exact hlc.1)
  | some c =>
    obtain ⟨_, hlc, hxc⟩ := cellOf_some_live hF hb' hc
    by_cases hch : c = h
    · subst hch
      simp only [hxc, true_and, if_true]
      symm
      rw [sCellOf_none_iff]
      intro c' hlc' hm
      rw [hlive] at hlc'
      rw [hca] at hm
      simp only [Bool.and_eq_true, bne_iff_ne, ne_eq] at hlc'
      exact hlc'.2 (oneCell_unique h1 hx hlc'.1 hlc hm hxc)
    · have : ¬ (x ∈ k.cellAt h ∧ some c = some h) := fun e => hch (Option.some.inj e.2)
      rw [if_neg this]
      symm
      apply sCellOf_of_mem h1' (by rw [hnHF]; exact hx)
      · rw [hlive]; simp [hlc, hch]
      · rw [hca]; exact hxc


theorem hfsOf_of_eq {k k' : Kernel} (h : k'.incHfs = k.incHfs) (y : Nat) : k'.hfsOf y = k.hfsOf y := by
  unfold hfsOf; rw [h]
theorem slotMirror_of_eq {k k' : Kernel} (h : k'.incHfs = k.incHfs) (hm : SlotMirror k) : SlotMirror k' := by
  intro y; rw [hfsOf_of_eq h, hfsOf_of_eq h]; exact hm y

/-- unlinking a cell only permutes the halfedge → halfface slots (the re-ordering of the fans) -/
theorem unlinkCell_hfsOf_perm {k : Kernel} (h : Nat) (hm : SlotMirror k) (y : Nat) :
    ((k.unlinkCell h).hfsOf y).Perm (k.hfsOf y) := by
  unfold unlinkCell
  split
  · simp only []
    generalize (k.cellAt h).foldl _ k.incCell = ic
    split
    · have hm1 : SlotMirror { k with incCell := ic } := slotMirror_of_eq rfl hm
      exact (slotMirror_foldl_reorder hm1 _).2 y
    · exact List.Perm.refl _
  · exact List.Perm.refl _

theorem cacheInvE_deleteCellCore_deferred {k : Kernel} (h : Nat) (hd : k.deferred = true) (hw : WF k) :
    CacheInvE (k.deleteCellCore h) := by
  rw [deleteCellCore_deferred_eq h hd]
  intro hb
  have hb' : k.eBU = true := by simpa using hb
  obtain ⟨hlen, hs⟩ := hw.cache.e hb'
  have hn : ((k.unlinkCell h).flagCell h).nHE = k.nHE := by unfold nHE; simp
  refine ⟨by rw [hn, flagCell_incHfs, unlinkCell_incHfs_length]; exact hlen, fun y hy => ?_⟩
  rw [hn] at hy
  rw [sHfsOfHe_of_eq (k := k) (by simp) (by simp)]
  have : ((k.unlinkCell h).flagCell h).hfsOf y = (k.unlinkCell h).hfsOf y := by unfold hfsOf; simp
  rw [this]
  exact (unlinkCell_hfsOf_perm h (slotMirror_of_cacheInvE hw.cache.e hb') y).trans (hs y hy)

/-- **deferred `delete_cell` keeps the well-formedness invariant** (given C01's `oneCell`) -/
theorem wf_deleteCellCore_deferred {k : Kernel} (h : Nat) (hd : k.deferred = true) (hw : WF k)
    (h1 : k.oneCell = true) : WF (k.deleteCellCore h) := by
  refine ⟨lenInv_deleteCellCore k h hw.len, ?_, ⟨?_, cacheInvE_deleteCellCore_deferred h hd hw,
    cacheInvF_deleteCellCore_deferred h hd hw h1⟩⟩
  · rw [deleteCellCore_deferred_eq h hd]
    exact rangeInv_of_eq (by simp) (by simp) (by simp) (by simp) hw.range
  · rw [deleteCellCore_deferred_eq h hd]
    exact cacheInvV_of_eq (by simp) (by simp) (by simp) (by simp) (by simp) hw.cache.v


/-! ### faces -/
namespace ScanDel
theorem opp_beq (a b : Nat) : (opp a == b) = (a == opp b) := by
  by_cases h : opp a = b
  · subst h; simp [opp_opp]
  · have : a ≠ opp b := fun e => h (by rw [e, opp_opp])
    rw [beq_eq_false_iff_ne.mpr h, beq_eq_false_iff_ne.mpr this]
theorem opp_two_mul (f : Nat) : opp (2 * f) = 2 * f + 1 := by unfold opp; rw [xor_one_eq]; simp
theorem opp_two_mul_succ (f : Nat) : opp (2 * f + 1) = 2 * f := by unfold opp; rw [xor_one_eq]; simp

theorem modify_removeAll_getD (l : List (List Nat)) (i j x : Nat) :
    (l.modify i (removeAll · x)).getD j [] = if i = j then removeAll (l.getD j []) x else l.getD j [] := by
  rw [getD_modify]
  by_cases h : i = j
  · subst h
    by_cases h2 : i < l.length
    · simp [h2]
    · rw [getD_of_ge _ _ _ (Nat.le_of_not_lt h2)]; simp [h2, removeAll]
  · simp [h]
end ScanDel

/-- what one step of the unlink loop removes from slot `y` -/
def unlinkQ (h he y x : Nat) : Bool := !(y == he && x == 2 * h) && !(y == opp he && x == 2 * h + 1)

theorem unlinkQ_opp (h he y x : Nat) : unlinkQ h he (opp y) (opp x) = unlinkQ h he y x := by
  unfold unlinkQ
  rw [opp_beq y he, opp_beq y (opp he), opp_opp, opp_beq x (2 * h), opp_beq x (2 * h + 1), opp_two_mul, opp_two_mul_succ]
  rw [Bool.and_comm]

theorem unlinkQ_off (h he y x : Nat) (hx : eOf x ≠ h) : unlinkQ h he y x = true := by
  unfold unlinkQ eOf at *
  have h1 : x ≠ 2 * h := by omega
  have h2 : x ≠ 2 * h + 1 := by omega
  simp [h1, h2]

/-- the pure removal of one step of the unlink loop -/
def unlinkInc (h he : Nat) (inc : List (List Nat)) : List (List Nat) :=
  (inc.modify he (removeAll · (heOf h 0))).modify (opp he) (removeAll · (heOf h 1))

theorem unlinkInc_getD (h he : Nat) (inc : List (List Nat)) (y : Nat) :
    (unlinkInc h he inc).getD y [] = (inc.getD y []).filter (unlinkQ h he y) := by
  have hne : he ≠ opp he := fun e => opp_ne he e.symm
  unfold unlinkInc
  rw [modify_removeAll_getD, modify_removeAll_getD]
  unfold removeAll unlinkQ heOf
  simp only [Nat.add_zero]
  by_cases e1 : opp he = y
  · have e2 : he ≠ y := fun e => hne (e.trans e1.symm)
    have e3 : (y == he) = false := by simp [Ne.symm e2]
    simp only [e1, if_true, e2, if_false, e3, Bool.false_and, Bool.not_false, Bool.true_and, beq_self_eq_true]
    apply List.filter_congr; intro x _; simp [bne]
  · have e4 : (y == opp he) = false := by simp [Ne.symm e1]
    simp only [e1, if_false, e4, Bool.false_and, Bool.not_false, Bool.and_true]
    by_cases e2 : he = y
    · simp only [e2, if_true, beq_self_eq_true, Bool.true_and]
      apply List.filter_congr; intro x _; simp [bne]
    · have e3 : (y == he) = false := by simp [Ne.symm e2]
      simp only [e2, if_false, e3, Bool.false_and, Bool.not_false]
      symm; apply List.filter_eq_self.mpr; intro _ _; rfl

/-- one step of `delete_face_core`'s unlink loop: slot `he` loses halfface `2h`, slot `opp he`
    loses `2h+1`, then (face incidences on) the fan of the edge is re-ordered -/
theorem unlinkFaceStep_slots (h : Nat) (k : Kernel) (he : Nat) (hm : SlotMirror k) :
    SlotMirror (unlinkFaceStep h k he) ∧
    ∀ y, ((unlinkFaceStep h k he).hfsOf y).Perm ((k.hfsOf y).filter (unlinkQ h he y)) := by
  have hpure : ∀ y, ({ k with incHfs := unlinkInc h he k.incHfs } : Kernel).hfsOf y =
      (k.hfsOf y).filter (unlinkQ h he y) := fun y => unlinkInc_getD h he k.incHfs y
  have hmir1 : SlotMirror ({ k with incHfs := unlinkInc h he k.incHfs } : Kernel) := by
    intro y
    rw [hpure, hpure]
    have := (hm y).filter (unlinkQ h he (opp y))
    rw [List.filter_map] at this
    have e : (unlinkQ h he (opp y) ∘ opp) = unlinkQ h he y := by
      funext x; simp only [Function.comp]; exact unlinkQ_opp h he y x
    rw [e] at this
    exact this
  have hdef : unlinkFaceStep h k he =
      if k.fBU then ({ k with incHfs := unlinkInc h he k.incHfs } : Kernel).reorder (eOf he)
      else { k with incHfs := unlinkInc h he k.incHfs } := rfl
  rw [hdef]
  split
  · have := slotMirror_reorder hmir1 (eOf he)
    exact ⟨this.1, fun y => (this.2 y).trans (by rw [hpure])⟩
  · exact ⟨hmir1, fun y => by rw [hpure]⟩

/-- the slots of `kj` are those of `k0` minus some entries that belong to face `h` -/
def SlotSub (h : Nat) (k0 kj : Kernel) : Prop :=
  ∀ y, ∃ P : Nat → Bool, (∀ x, eOf x ≠ h → P x = true) ∧ (kj.hfsOf y).Perm ((k0.hfsOf y).filter P)

theorem unlinkFace_fold (h : Nat) (k0 : Kernel) :
    ∀ (l : List Nat) (kj : Kernel), SlotMirror kj → SlotSub h k0 kj →
      SlotMirror (l.foldl (unlinkFaceStep h) kj) ∧ SlotSub h k0 (l.foldl (unlinkFaceStep h) kj) ∧
      (∀ he ∈ l, 2 * h ∉ (l.foldl (unlinkFaceStep h) kj).hfsOf he ∧
                 2 * h + 1 ∉ (l.foldl (unlinkFaceStep h) kj).hfsOf (opp he)) ∧
      (∀ y x, x ∈ (l.foldl (unlinkFaceStep h) kj).hfsOf y → x ∈ kj.hfsOf y) := by
  intro l
  induction l with
  | nil => intro kj hm hs; exact ⟨hm, hs, by simp, fun _ _ hx => hx⟩
  | cons he t ih =>
    intro kj hm hs
    simp only [List.foldl_cons]
    obtain ⟨hm1, hp1⟩ := unlinkFaceStep_slots h kj he hm
    have hs1 : SlotSub h k0 (unlinkFaceStep h kj he) := by
      intro y
      obtain ⟨P, hP, hperm⟩ := hs y
      refine ⟨fun x => unlinkQ h he y x && P x, ?_, ?_⟩
      · intro x hx; simp [unlinkQ_off h he y x hx, hP x hx]
      · have := (hp1 y).trans (hperm.filter _)
        rwa [List.filter_filter] at this
    obtain ⟨a1, a2, a3, a4⟩ := ih _ hm1 hs1
    refine ⟨a1, a2, ?_, ?_⟩
    · intro he' hhe'
      rcases List.mem_cons.mp hhe' with e | e
      · subst e
        constructor
        · intro hx
          have := (hp1 he').mem_iff.mp (a4 _ _ hx)
          simp [unlinkQ] at this
        · intro hx
          have := (hp1 (opp he')).mem_iff.mp (a4 _ _ hx)
          simp [unlinkQ] at this
      · exact a3 he' e
    · intro y x hx
      have := (hp1 y).mem_iff.mp (a4 y x hx)
      exact (List.mem_filter.mp this).1

theorem hfBlock_eOf (k : Kernel) (y f : Nat) : ∀ x ∈ k.hfBlock y f, eOf x = f := by
  intro x hx
  unfold hfBlock at hx
  simp only [List.mem_append, List.mem_replicate] at hx
  unfold eOf; rcases hx with h | h <;> omega

theorem liveFaces_flag (k : Kernel) (h : Nat) (hl : k.fDel.length = k.nF) :
    (List.range k.nF).filter (fun e => !((k.fDel.set h true).getD e false)) = k.liveFaces.filter (· != h) := by
  unfold liveFaces
  rw [List.filter_filter]
  apply List.filter_congr
  intro e he
  have he' : e < k.fDel.length := by rw [hl]; exact List.mem_range.mp he
  unfold fDeleted
  rw [getD_set]
  by_cases hh : h = e
  · subst hh; simp [he']
  · have : e ≠ h := fun x => hh x.symm
    simp [hh, this]

theorem deleteFaceCore_deferred_eq {k : Kernel} (h : Nat) (hd : k.deferred = true) :
    k.deleteFaceCore h = (k.unlinkFace h).flagFace h := by
  unfold deleteFaceCore; simp [hd]

/-- `delete_face_core`, deferred: every slot loses exactly the two halffaces of the face -/
theorem cacheInvE_deleteFaceCore_deferred {k : Kernel} (h : Nat) (hd : k.deferred = true) (hw : WF k) :
    CacheInvE (k.deleteFaceCore h) := by
  rw [deleteFaceCore_deferred_eq h hd]
  intro hb
  have hb' : k.eBU = true := by simpa using hb
  obtain ⟨hlen, hs⟩ := hw.cache.e hb'
  have hn : ((k.unlinkFace h).flagFace h).nHE = k.nHE := by unfold nHE; simp
  refine ⟨by rw [hn, flagFace_incHfs, unlinkFace_incHfs_length]; exact hlen, fun y hy => ?_⟩
  rw [hn] at hy
  -- the scan after flagging
  have hscan : ((k.unlinkFace h).flagFace h).sHfsOfHe y = (k.sHfsOfHe y).filter (fun x => eOf x != h) := by
    rw [sHfsOfHe_eq, sHfsOfHe_eq]
    have h1 : ((k.unlinkFace h).flagFace h).liveFaces = k.liveFaces.filter (· != h) := by
      unfold liveFaces fDeleted nF
      simp only [flagFace_faces, unlinkFace_faces, flagFace_fDel, unlinkFace_fDel]
      exact liveFaces_flag k h hw.len.fDel
    have h2 : ((k.unlinkFace h).flagFace h).hfBlock y = k.hfBlock y := by
      funext f; unfold hfBlock hfHes faceAt; simp
    rw [h1, h2]
    exact (filter_flatMap_key k.liveFaces (k.hfBlock y) eOf (· != h) (hfBlock_eOf k y)).symm
  rw [hscan]
  -- the cache after the unlink loop
  have hsub0 : SlotSub h k k := fun y => ⟨fun _ => true, fun _ _ => rfl, by
    rw [List.filter_eq_self.mpr (fun _ _ => rfl)]⟩
  have hfold := unlinkFace_fold h k (k.faceAt h) k (slotMirror_of_cacheInvE hw.cache.e hb') hsub0
  have hunl : k.unlinkFace h = (k.faceAt h).foldl (unlinkFaceStep h) k := by unfold unlinkFace; simp [hb']
  rw [← hunl] at hfold
  obtain ⟨_, hsub, hgone, _⟩ := hfold
  have hcache : ((k.unlinkFace h).flagFace h).hfsOf y = (k.unlinkFace h).hfsOf y := by unfold hfsOf; simp
  rw [hcache]
  obtain ⟨P, hP, hperm⟩ := hsub y
  have hPeq : (k.hfsOf y).filter P = (k.hfsOf y).filter (fun x => eOf x != h) := by
    apply List.filter_congr
    intro x hx
    by_cases hxe : eOf x = h
    · have hr : (eOf x != h) = false := by simp [hxe]
      rw [hr]
      cases hPx : P x with
      | false => rfl
      | true =>
        exfalso
        have hxm : x ∈ (k.unlinkFace h).hfsOf y := hperm.mem_iff.mpr (List.mem_filter.mpr ⟨hx, hPx⟩)
        have hyx : y ∈ k.hfHes x := ((mem_sHfsOfHe k y x).mp ((hs y hy).mem_iff.mp hx)).2
        have hcase : x = 2 * h ∨ x = 2 * h + 1 := by unfold eOf at hxe; omega
        rcases hcase with e | e
        · subst e
          rw [hfHes_two_mul] at hyx
          exact (hgone y hyx).1 hxm
        · subst e
          rw [hfHes_two_mul_succ] at hyx
          unfold oppFace at hyx
          simp only [List.mem_map, List.mem_reverse] at hyx
          obtain ⟨he, hhe, rfl⟩ := hyx
          exact (hgone he hhe).2 hxm
    · have hr : (eOf x != h) = true := by simp [hxe]
      rw [hr]; exact hP x hxe
  rw [hPeq] at hperm
  exact hperm.trans ((hs y hy).filter _)

/-- **deferred `delete_face_core` keeps the well-formedness invariant** -/
theorem wf_deleteFaceCore_deferred {k : Kernel} (h : Nat) (hd : k.deferred = true) (hw : WF k) :
    WF (k.deleteFaceCore h) := by
  refine ⟨lenInv_deleteFaceCore k h hw.len, ?_, ⟨?_, cacheInvE_deleteFaceCore_deferred h hd hw, ?_⟩⟩
  · rw [deleteFaceCore_deferred_eq h hd]
    exact rangeInv_of_eq (by simp) (by simp) (by simp) (by simp) hw.range
  · rw [deleteFaceCore_deferred_eq h hd]
    exact cacheInvV_of_eq (by simp) (by simp) (by simp) (by simp) (by simp) hw.cache.v
  · rw [deleteFaceCore_deferred_eq h hd]
    exact cacheInvF_of_eq (by simp) (by simp) (by simp) (by simp) (by simp) hw.cache.f


/-! ### the deferred-mode invariant and the four `delete_*` operations -/

/-- what deferred deletion maintains: deferred mode, `WF`, and C01's precondition `oneCell` (no
    halfface in two live cells; needed because `delete_cell_core` only *clears* the link of a
    halfface and `incident_cell_per_hf_` has room for one cell) -/
def DefInv (k : Kernel) : Prop := k.deferred = true ∧ WF k ∧ k.oneCell = true

theorem deleteVertexCore_deferred_eq {k : Kernel} (h : Nat) (hd : k.deferred = true) :
    k.deleteVertexCore h = k.flagVertex h := by
  unfold deleteVertexCore; simp [hd]

theorem defInv_deleteCellCore {k : Kernel} (h : Nat) (hi : DefInv k) : DefInv (k.deleteCellCore h) :=
  ⟨by simpa using hi.1, wf_deleteCellCore_deferred h hi.1 hi.2.1 hi.2.2,
   oneCell_deleteCellCore_deferred h hi.1 hi.2.2⟩

theorem defInv_deleteFaceCore {k : Kernel} (h : Nat) (hi : DefInv k) : DefInv (k.deleteFaceCore h) := by
  refine ⟨by simpa using hi.1, wf_deleteFaceCore_deferred h hi.1 hi.2.1, ?_⟩
  rw [deleteFaceCore_deferred_eq h hi.1]
  exact oneCell_of_sub (k := k) (by simp) (by simp) (by intro c hc; unfold cDeleted at *; simpa using hc) hi.2.2

theorem defInv_deleteEdgeCore {k : Kernel} (h : Nat) (hi : DefInv k) : DefInv (k.deleteEdgeCore h) := by
  refine ⟨by simpa using hi.1, wf_deleteEdgeCore_deferred h hi.1 hi.2.1, ?_⟩
  rw [deleteEdgeCore_deferred_eq h hi.1]
  exact oneCell_of_sub (k := k) (by simp) (by simp) (by intro c hc; unfold cDeleted at *; simpa using hc) hi.2.2

theorem defInv_deleteVertexCore {k : Kernel} (h : Nat) (hi : DefInv k) : DefInv (k.deleteVertexCore h) := by
  refine ⟨by simpa using hi.1, ?_, ?_⟩
  · rw [deleteVertexCore_deferred_eq h hi.1]; exact wf_flagVertex h hi.2.1
  · rw [deleteVertexCore_deferred_eq h hi.1]
    exact oneCell_of_sub (k := k) (by simp) (by simp) (by intro c hc; unfold cDeleted at *; simpa using hc) hi.2.2

theorem defInv_foldl (core : Kernel → Nat → Kernel) (hc : ∀ k h, DefInv k → DefInv (core k h))
    (xs : List Nat) (k : Kernel) (hi : DefInv k) : DefInv (xs.foldl core k) := by
  induction xs generalizing k with
  | nil => exact hi
  | cons x t ih => simp only [List.foldl_cons]; exact ih _ (hc k x hi)

/-- **deferred `delete_cell` / `delete_face` / `delete_edge` / `delete_vertex` keep `WF`** (and
    deferred mode and `oneCell`), for every handle — in range or not, deleted already or not.
    No fact about the upward closure is needed: each cache is compared with a scan over the live
    entities of *its own* level only. -/
theorem defInv_deleteCell {k : Kernel} (c : Nat) (hi : DefInv k) : DefInv (k.deleteCell c) :=
  defInv_deleteCellCore c hi

theorem defInv_deleteFace {k : Kernel} (f : Nat) (hi : DefInv k) : DefInv (k.deleteFace f) := by
  unfold deleteFace
  exact defInv_deleteFaceCore _ (defInv_foldl _ (fun k h => defInv_deleteCellCore h) _ _ hi)

theorem defInv_deleteEdge {k : Kernel} (e : Nat) (hi : DefInv k) : DefInv (k.deleteEdge e) := by
  unfold deleteEdge
  exact defInv_deleteEdgeCore _ (defInv_foldl _ (fun k h => defInv_deleteFaceCore h) _ _
    (defInv_foldl _ (fun k h => defInv_deleteCellCore h) _ _ hi))

theorem defInv_deleteVertex {k : Kernel} (v : Nat) (hi : DefInv k) : DefInv (k.deleteVertex v) := by
  unfold deleteVertex
  exact defInv_deleteVertexCore _ (defInv_foldl _ (fun k h => defInv_deleteEdgeCore h) _ _
    (defInv_foldl _ (fun k h => defInv_deleteFaceCore h) _ _
      (defInv_foldl _ (fun k h => defInv_deleteCellCore h) _ _ hi)))


/-! ### a concrete well-formed state: one tetrahedron, all bottom-up incidences enabled -/

/-- the state reached by `add_n_vertices(4)`, four `add_face(vertices)`, `add_cell({1,3,5,7})` -/
def tetK : Kernel :=
  { nV := 4, edges := [(0, 1), (1, 2), (2, 0), (0, 3), (3, 1), (3, 2)],
    faces := [[0, 2, 4], [6, 8, 1], [9, 10, 3], [5, 11, 7]], cells := [[1, 3, 5, 7]],
    vDel := [false, false, false, false], eDel := [false, false, false, false, false, false],
    fDel := [false, false, false, false], cDel := [false],
    outHes := [[0, 5, 6], [1, 2, 9], [3, 4, 11], [7, 8, 10]],
    incHfs := [[3, 0], [1, 2], [5, 0], [1, 4], [7, 0], [1, 6], [7, 2], [3, 6], [5, 2], [3, 4], [7, 4], [5, 6]],
    incCell := [none, some 0, none, some 0, none, some 0, none, some 0] }

set_option maxRecDepth 4000 in
theorem wf_tetK : WF tetK := by
  refine ⟨?_, ?_, ⟨?_, ?_, ?_⟩⟩
  · constructor <;> (try unfold ColsLen) <;> decide
  · constructor <;> decide
  · unfold CacheInvV; decide
  · unfold CacheInvE; decide
  · unfold CacheInvF; decide

theorem defInv_tetK : DefInv tetK := ⟨rfl, wf_tetK, by decide⟩

end Kernel
end OVM

import OVM.Refine.RotInvDelete
/-
  RotInv, part 6 (builder R1): the remaining frame operations (`add_vertex`, `add_edge`, `set_edge`, mode switches,
  `clear`) and the wrappers `add_face`, `add_face(vertices)`, `add_cell`.
-/
namespace OVM
namespace Kernel
namespace Rot
open Fan CellCheck ScanDel

/-! ### the remaining frame operations -/

theorem rotInv_addVertex {k : Kernel} (hi : RotInv k) : RotInv (k.addVertex).1 :=
  rotInv_of_same (A := k) (fun h1 h2 => ⟨h1, h2⟩) ⟨rfl, rfl, rfl, rfl⟩ (fun _ => rfl) hi

theorem rotInv_addNVertices {k : Kernel} (n : Nat) (hi : RotInv k) : RotInv (k.addNVertices n) :=
  rotInv_of_same (A := k) (fun h1 h2 => ⟨h1, h2⟩) ⟨rfl, rfl, rfl, rfl⟩ (fun _ => rfl) hi

theorem rotInv_addEdge {k : Kernel} (a b : Nat) (d : Bool) (hw : WF k) (hi : RotInv k) : RotInv (k.addEdge a b d).1 := by
  unfold addEdge; split
  · exact hi
  · obtain ⟨_, fe, ff⟩ := addEdgeCore_flags k a b
    apply rotInv_of_same (A := k) _ _ _ hi
    · intro h1 h2; rw [fe] at h1; rw [ff] at h2; exact ⟨h1, h2⟩
    · exact ⟨addEdgeCore_cells k a b, addEdgeCore_faces k a b, addEdgeCore_cDel k a b, addEdgeCore_incCell k a b⟩
    · intro y
      unfold hfsOf
      rw [addEdgeCore_incHfs]
      split
      · rename_i hb
        exact getD_resizeL_grow _ _ _ _ (by rw [hw.len.incHfs hb]; unfold nHE nE; omega)
      · rfl

theorem rotInv_setEdge {k : Kernel} (e a b : Nat) (hi : RotInv k) : RotInv (k.setEdge e a b) :=
  rotInv_of_same (A := k) (fun h1 h2 => ⟨h1, h2⟩) ⟨rfl, rfl, rfl, rfl⟩ (fun _ => rfl) hi

theorem rotInv_enableFast {k : Kernel} (b : Bool) (hi : RotInv k) : RotInv (k.enableFast b) :=
  rotInv_of_same (A := k) (fun h1 h2 => ⟨h1, h2⟩) ⟨rfl, rfl, rfl, rfl⟩ (fun _ => rfl) hi

theorem rotInv_clear {k : Kernel} (p : Bool) : RotInv (k.clear p) := by
  intro _ _ e _ h2
  have : (k.clear p).hfsOf (heOf e 0) = [] := by unfold hfsOf clear; simp
  rw [this] at h2; simp at h2

theorem rotInv_withDeferred {k : Kernel} (b : Bool) (hi : RotInv k) : RotInv { k with deferred := b } :=
  rotInv_of_same (A := k) (fun h1 h2 => ⟨h1, h2⟩) ⟨rfl, rfl, rfl, rfl⟩ (fun _ => rfl) hi

theorem rotInv_addFace {k : Kernel} (hes : List Nat) (chk : Bool) (hw : WF k) (hc : Closed k) (hi : RotInv k) :
    RotInv (k.addFace hes chk).1 := by
  unfold addFace; split
  · exact rotInv_addFaceCore hes hw hc hi
  · exact hi

theorem rotInv_addCell {k : Kernel} (hfs : List Nat) (chk : Bool) (hw : WF k) (hc : Closed k)
    (hh : ∀ hf ∈ hfs, hf < k.nHF) (hfree : HfsFree k hfs) (hi : RotInv k) : RotInv (k.addCell hfs chk).1 := by
  unfold addCell; split
  · exact rotInv_addCellCore hfs hw hc hh hfree hi
  · exact hi

/-- `add_face(vertices)`: find-or-create each edge, then the unchecked `add_face` -/
theorem rotInv_addFaceV {k : Kernel} {vs : List Nat} (hv : ∀ v ∈ vs, Global.VOk k v) (hg : Global.GInv k) (hi : RotInv k) :
    RotInv (k.addFaceV vs).1 := by
  unfold addFaceV
  cases vs with
  | nil => exact rotInv_of_same (A := k) (fun h1 h2 => ⟨h1, h2⟩) ⟨rfl, rfl, rfl, rfl⟩ (fun _ => rfl) hi
  | cons v0 t =>
    simp only
    have key : ∀ (ps : List (Nat × Nat)) (st : Kernel × List Nat), (∀ p ∈ ps, Global.VOk k p.1 ∧ Global.VOk k p.2) →
        Global.GInv st.1 → RotInv st.1 → st.1.nV = k.nV → st.1.vDel = k.vDel →
        let r := ps.foldl (fun (st : Kernel × List Nat) (ab : Nat × Nat) =>
          ((st.1.addEdge ab.1 ab.2 false).1,
           st.2 ++ [heOf (st.1.addEdge ab.1 ab.2 false).2
             (if (((st.1.addEdge ab.1 ab.2 false).1).edgeAt (st.1.addEdge ab.1 ab.2 false).2).2 == ab.1 then 1 else 0)])) st
        Global.GInv r.1 ∧ RotInv r.1 := by
      intro ps
      induction ps with
      | nil => intro st _ hw hr _ _; exact ⟨hw, hr⟩
      | cons p ps ih =>
        intro st hps hw hr hn hvd
        simp only [List.foldl_cons]
        have hp := hps p (by simp)
        have ok : ∀ v, Global.VOk k v → Global.VOk st.1 v := fun v h => ⟨by rw [hn]; exact h.1, by unfold vDeleted; rw [hvd]; exact h.2⟩
        apply ih
        · intro q hq; exact hps q (by simp [hq])
        · exact Global.ginv_addEdge false (ok _ hp.1) (ok _ hp.2) hw
        · exact rotInv_addEdge _ _ _ hw.wf hr
        · rw [addEdge_nV]; exact hn
        · rw [Global.addEdge_vDel]; exact hvd
    have hpairs : ∀ p ∈ (v0 :: t).zip ((v0 :: t).tail ++ [v0]), Global.VOk k p.1 ∧ Global.VOk k p.2 := by
      intro p hp
      have h1 := (List.of_mem_zip hp).1
      have h2 := (List.of_mem_zip hp).2
      refine ⟨hv _ h1, ?_⟩
      simp only [List.tail_cons, List.mem_append, List.mem_singleton] at h2
      rcases h2 with h2 | h2
      · exact hv _ (by simp [h2])
      · rw [h2]; exact hv _ (by simp)
    obtain ⟨hw, hr⟩ := key _ (k, []) hpairs hg hi rfl rfl
    exact rotInv_addFace _ false hw.wf hw.closed hr

end Rot
end Kernel
end OVM

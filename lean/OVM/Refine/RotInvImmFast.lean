import OVM.Refine.RotInvImmShift
/-
  RotInv, part 14 (builder R1): the closure deletions `delete_cell/face/edge/vertex` in IMMEDIATE FAST mode
  (`deferred = false`, `fast = true`): each core swaps the victim with the last slot (a relabeling), unlinks it and
  pops the last slot.  The stage inductions and side conditions are K3's (OVM/Refine/CacheFastClosure.lean).
-/
namespace OVM
namespace Kernel
namespace Rot
open Fan CellCheck ScanDel

theorem closed_of_immF {k : Kernel} (hi : ImmInv k) (hv : NoFlag k.vDel) : Closed k :=
  Global.closed_of_noFlag hi.wf.range hi.nfF hi.nfE hv

/-! ### the cores -/
theorem rv_cellCore_fast {k : Kernel} {h : Nat} (hi : ImmInv k) (hh : h < k.nC) (hr : RV k) :
    RV (k.deleteCellCore h) := by
  have hB := (immInv_deleteCellCore hi hh).1
  have hvB : NoFlag (k.deleteCellCore h).vDel := by rw [Global.deleteCellCore_vDel]; exact hr.2
  refine ⟨?_, hvB⟩
  have hcB := closed_of_immF hB hvB
  have hwB := hB.wf
  have hlast : k.nC - 1 < k.nC := by omega
  have hw1 := wf_swapCell hh hlast hi.wf hi.one
  have h11 := oneCell_swapCell hh hlast hi.wf.len.cDel hi.one
  have hn1 : (k.swapCell h (k.nC - 1)).nC = k.nC := by unfold nC; rw [swapCell_cells_eq]; simp
  have hc1 : Closed (k.swapCell h (k.nC - 1)) :=
    Global.closed_of_noFlag hw1.range (by rw [swapCell_fDel]; exact hi.nfF) (by rw [swapCell_eDel]; exact hi.nfE)
      (by rw [swapCell_vDel]; exact hr.2)
  rw [deleteCellCore_fast_eq h hi.imm hi.fast] at hwB hcB ⊢
  exact rotInv_unlinkEraseCell (K := k.swapCell h (k.nC - 1)) (fun _ => by rw [hn1]) hw1 h11 hc1 hwB hcB
    (rotInv_swapCell hh hlast hi.wf (closed_of_immF hi hr.2) hw1 hr.1)

theorem rv_faceCore_fast {k : Kernel} {h : Nat} (hi : ImmInv k) (hh : h < k.nF)
    (hno : ∀ c ∈ k.cells, ∀ x ∈ c, x / 2 ≠ h) (hr : RV k) : RV (k.deleteFaceCore h) := by
  have hB := (immInv_deleteFaceCore hi hh hno).1
  have hvB : NoFlag (k.deleteFaceCore h).vDel := by rw [Global.deleteFaceCore_vDel]; exact hr.2
  refine ⟨?_, hvB⟩
  have hcB := closed_of_immF hB hvB
  have hwB := hB.wf
  have hlast : k.nF - 1 < k.nF := by omega
  have hw1 := wf_swapFace' hh hlast hi.wf (fun _ => hi.one)
  have h11 := oneCell_swapFace hh hlast hi.wf.cache.f hi.one
  have hn1 : (k.swapFace h (k.nF - 1)).nF = k.nF := swapFace_faces_length k _ _
  have hno1 := swapFace_unused hh hlast hi.wf.cache.f (fun _ => hi.one) (fun _ => hi.nfC) hno
  have hcl1 : ∀ c, c < (k.swapFace h (k.nF - 1)).nC → (k.swapFace h (k.nF - 1)).cDeleted c = false := by
    intro c _; unfold cDeleted; rw [swapFace_cDel]; exact hi.nfC.getD c
  rw [deleteFaceCore_fast_eq h hi.imm hi.fast] at hwB hcB ⊢
  exact rotInv_unlinkEraseFace (K := k.swapFace h (k.nF - 1)) (by rw [hn1]; exact hlast) (fun _ => by rw [hn1]) hw1 h11
    hcl1 hno1 hwB hcB (rotInv_swapFace hh hlast hi.wf hi.one (closed_of_immF hi hr.2) hw1 hr.1)

theorem rv_edgeCore_fast {k : Kernel} {h : Nat} (hi : ImmInv k) (hh : h < k.nE)
    (hno : ∀ f ∈ k.faces, ∀ x ∈ f, x / 2 ≠ h) (hr : RV k) : RV (k.deleteEdgeCore h) := by
  have hB := (immInv_deleteEdgeCore hi hh hno).1
  have hvB : NoFlag (k.deleteEdgeCore h).vDel := by rw [Global.deleteEdgeCore_vDel]; exact hr.2
  refine ⟨?_, hvB⟩
  have hcB := closed_of_immF hB hvB
  have hwB := hB.wf
  have hlast : k.nE - 1 < k.nE := by omega
  have hw1 := wf_swapEdge hh hlast hi.wf
  have hn1 : (k.swapEdge h (k.nE - 1)).nE = k.nE := swapEdge_edges_length k _ _
  have hno1 := swapEdge_unused hh hlast hi.wf.cache.e (fun _ => hi.nfF) hno
  have hfl1 : ∀ f, f < (k.swapEdge h (k.nE - 1)).nF → (k.swapEdge h (k.nE - 1)).fDeleted f = false := by
    intro f _; unfold fDeleted; rw [swapEdge_fDel]; exact hi.nfF.getD f
  rw [deleteEdgeCore_fast_eq h hi.imm hi.fast] at hwB hcB ⊢
  exact rotInv_unlinkEraseEdge (K := k.swapEdge h (k.nE - 1)) (by rw [hn1]; exact hlast) (fun _ => by rw [hn1]) hw1
    hfl1 hno1 hwB hcB (rotInv_swapEdge hh hlast hi.wf (closed_of_immF hi hr.2) hw1 hr.1)

theorem rot_vertexCore_fast {k : Kernel} {h : Nat} (hi : ImmInv k) (hr : RotInv k) : RotInv (k.deleteVertexCore h) := by
  rw [deleteVertexCore_fast_eq h hi.imm hi.fast]
  exact rotInv_eraseVertex _ (rotInv_swapVertex _ _ hr)

/-! ### the stages (K3's inductions with `RV` added) -/
theorem cellStageR (Q : List Nat → Prop) : ∀ (L : List Nat) (k : Kernel), ImmInv k → L.Pairwise (· > ·) →
    (∀ c ∈ L, c < k.nC) → (∀ i, i < k.nC → Q (k.cellAt i) → i ∈ L) → RV k → RV (L.foldl deleteCellCore k) := by
  intro L
  induction L with
  | nil => intro k _ _ _ _ hr; exact hr
  | cons h t ih =>
    intro k hi hp hlt htr hr
    simp only [List.foldl_cons]
    have hh : h < k.nC := hlt h (by simp)
    obtain ⟨s1, s2, s3, _, _, _⟩ := immInv_deleteCellCore hi hh
    exact ih (k.deleteCellCore h) s1 (List.pairwise_cons.mp hp).2
      (by rw [s2]; exact k3_lt_of_desc hp hh)
      (by
        intro i hil hq
        rw [s2] at hil
        rw [s3 i hil] at hq
        exact k3_track (P := fun i => Q (k.cellAt i)) hp hh htr i hil (by split <;> simp_all))
      (rv_cellCore_fast hi hh hr)

theorem faceStageR (Q : List Nat → Prop) : ∀ (L : List Nat) (k : Kernel), ImmInv k → L.Pairwise (· > ·) →
    (∀ f ∈ L, f < k.nF) → (∀ c ∈ k.cells, ∀ x ∈ c, x / 2 ∉ L) → (∀ i, i < k.nF → Q (k.faceAt i) → i ∈ L) →
    RV k → RV (L.foldl deleteFaceCore k) := by
  intro L
  induction L with
  | nil => intro k _ _ _ _ _ hr; exact hr
  | cons h t ih =>
    intro k hi hp hlt hno htr hr
    simp only [List.foldl_cons]
    have hh : h < k.nF := hlt h (by simp)
    have hc := List.pairwise_cons.mp hp
    have hnoh : ∀ c ∈ k.cells, ∀ x ∈ c, x / 2 ≠ h := fun c hc x hx e => hno c hc x hx (by rw [e]; simp)
    obtain ⟨s1, s2, s3, s4, _, _⟩ := immInv_deleteFaceCore hi hh hnoh
    exact ih (k.deleteFaceCore h) s1 hc.2
      (by rw [s2]; exact k3_lt_of_desc hp hh)
      (by
        intro c hcm x hx hxt
        obtain ⟨c0, hc0, rfl⟩ := s4 c hcm
        rw [k3_mem_map_relabelHalf] at hx
        have h1 := hno c0 hc0 _ hx
        rw [k3_relabelHalf_div] at h1
        have hg := hc.1 _ hxt
        rw [k3_relabelId_off (by omega) (by omega)] at h1
        exact h1 (List.mem_cons_of_mem _ hxt))
      (by
        intro i hil hq
        rw [s2] at hil
        rw [s3 i hil] at hq
        exact k3_track (P := fun i => Q (k.faceAt i)) hp hh htr i hil (by split <;> simp_all))
      (rv_faceCore_fast hi hh hnoh hr)

theorem edgeStageR (R : Nat × Nat → Prop) : ∀ (L : List Nat) (k : Kernel), ImmInv k → L.Pairwise (· > ·) →
    (∀ e ∈ L, e < k.nE) → (∀ f ∈ k.faces, ∀ x ∈ f, x / 2 ∉ L) → (∀ i, i < k.nE → R (k.edgeAt i) → i ∈ L) →
    RV k → RV (L.foldl deleteEdgeCore k) := by
  intro L
  induction L with
  | nil => intro k _ _ _ _ _ hr; exact hr
  | cons h t ih =>
    intro k hi hp hlt hno htr hr
    simp only [List.foldl_cons]
    have hh : h < k.nE := hlt h (by simp)
    have hc := List.pairwise_cons.mp hp
    have hnoh : ∀ f ∈ k.faces, ∀ x ∈ f, x / 2 ≠ h := fun c hc x hx e => hno c hc x hx (by rw [e]; simp)
    obtain ⟨s1, s2, s3, s4, _⟩ := immInv_deleteEdgeCore hi hh hnoh
    exact ih (k.deleteEdgeCore h) s1 hc.2
      (by rw [s2]; exact k3_lt_of_desc hp hh)
      (by
        intro c hcm x hx hxt
        obtain ⟨c0, hc0, rfl⟩ := s4 c hcm
        rw [k3_mem_map_relabelHalf] at hx
        have h1 := hno c0 hc0 _ hx
        rw [k3_relabelHalf_div] at h1
        have hg := hc.1 _ hxt
        rw [k3_relabelId_off (by omega) (by omega)] at h1
        exact h1 (List.mem_cons_of_mem _ hxt))
      (by
        intro i hil hq
        rw [s2] at hil
        rw [s3 i hil] at hq
        exact k3_track (P := fun i => R (k.edgeAt i)) hp hh htr i hil (by split <;> simp_all))
      (rv_edgeCore_fast hi hh hnoh hr)

/-! ### the four closure deletions -/
theorem rv_deleteCell_fast {k : Kernel} (hi : ImmInv k) {c : Nat} (hc : c < k.nC) (hr : RV k) : RV (k.deleteCell c) :=
  rv_cellCore_fast hi hc hr

theorem rv_deleteFace_fast {k : Kernel} (hi : ImmInv k) {f : Nat} (hf : f < k.nF) (hr : RV k) : RV (k.deleteFace f) := by
  unfold deleteFace
  obtain ⟨c1, c2⟩ := incidentCells_spec hi [f]
  obtain ⟨r1, r2, r3, _, _⟩ := cellStage (fun c => ∃ x ∈ c, x / 2 ∈ [f]) (k.incidentCells [f]).reverse k hi
    (incidentCells_desc k _) (by simpa using c1) (by intro i hil hq; simpa using c2 i hil hq)
  have q1 := cellStageR (fun c => ∃ x ∈ c, x / 2 ∈ [f]) (k.incidentCells [f]).reverse k hi
    (incidentCells_desc k _) (by simpa using c1) (by intro i hil hq; simpa using c2 i hil hq) hr
  refine rv_faceCore_fast r1 (by unfold nF at *; rw [r3]; exact hf) ?_ q1
  intro c hc x hx e
  exact r2 c hc ⟨x, hx, by simp [e]⟩

theorem rv_deleteEdge_fast {k : Kernel} (hi : ImmInv k) {e : Nat} (he : e < k.nE) (hr : RV k) : RV (k.deleteEdge e) := by
  unfold deleteEdge
  obtain ⟨f1, f2⟩ := incidentFaces_spec hi [e] (by simpa using he)
  obtain ⟨c1, c2⟩ := incidentCells_spec hi (k.incidentFaces [e])
  obtain ⟨r1, r2, r3, r4, _⟩ := cellStage (fun c => ∃ x ∈ c, x / 2 ∈ k.incidentFaces [e])
    (k.incidentCells (k.incidentFaces [e])).reverse k hi
    (incidentCells_desc k _) (by simpa using c1) (by intro i hil hq; simpa using c2 i hil hq)
  have q1 := cellStageR (fun c => ∃ x ∈ c, x / 2 ∈ k.incidentFaces [e])
    (k.incidentCells (k.incidentFaces [e])).reverse k hi
    (incidentCells_desc k _) (by simpa using c1) (by intro i hil hq; simpa using c2 i hil hq) hr
  obtain ⟨s1, s2, s3, _⟩ := faceStage (fun f => ∃ x ∈ f, x / 2 ∈ [e]) (k.incidentFaces [e]).reverse _ r1
    (incidentFaces_desc k _) (by unfold nF at *; rw [r3]; simpa using f1)
    (by intro c hc x hx hm; exact r2 c hc ⟨x, hx, by simpa using hm⟩)
    (by
      intro i hil hq
      unfold nF faceAt at *
      rw [r3] at hil hq
      simpa using f2 i hil hq)
  have q2 := faceStageR (fun f => ∃ x ∈ f, x / 2 ∈ [e]) (k.incidentFaces [e]).reverse _ r1
    (incidentFaces_desc k _) (by unfold nF at *; rw [r3]; simpa using f1)
    (by intro c hc x hx hm; exact r2 c hc ⟨x, hx, by simpa using hm⟩)
    (by
      intro i hil hq
      unfold nF faceAt at *
      rw [r3] at hil hq
      simpa using f2 i hil hq) q1
  refine rv_edgeCore_fast s1 (by unfold nE at *; rw [s3, r4]; exact he) ?_ q2
  intro f hf x hx e'
  exact s2 f hf ⟨x, hx, by simp [e']⟩

theorem rv_deleteVertex_fast {k : Kernel} (hi : ImmInv k) {v : Nat} (hv : v < k.nV) (hr : RV k) :
    RotInv (k.deleteVertex v) := by
  unfold deleteVertex
  obtain ⟨e1, e2⟩ := incidentEdges_spec hi hv
  obtain ⟨f1, f2⟩ := incidentFaces_spec hi (k.incidentEdges [v]) e1
  obtain ⟨c1, c2⟩ := incidentCells_spec hi (k.incidentFaces (k.incidentEdges [v]))
  obtain ⟨r1, r2, r3, r4, r5⟩ := cellStage (fun c => ∃ x ∈ c, x / 2 ∈ k.incidentFaces (k.incidentEdges [v]))
    (k.incidentCells (k.incidentFaces (k.incidentEdges [v]))).reverse k hi
    (incidentCells_desc k _) (by simpa using c1) (by intro i hil hq; simpa using c2 i hil hq)
  have q1 := cellStageR (fun c => ∃ x ∈ c, x / 2 ∈ k.incidentFaces (k.incidentEdges [v]))
    (k.incidentCells (k.incidentFaces (k.incidentEdges [v]))).reverse k hi
    (incidentCells_desc k _) (by simpa using c1) (by intro i hil hq; simpa using c2 i hil hq) hr
  obtain ⟨s1, s2, s3, s4⟩ := faceStage (fun f => ∃ x ∈ f, x / 2 ∈ k.incidentEdges [v])
    (k.incidentFaces (k.incidentEdges [v])).reverse _ r1
    (incidentFaces_desc k _) (by unfold nF at *; rw [r3]; simpa using f1)
    (by intro c hc x hx hm; exact r2 c hc ⟨x, hx, by simpa using hm⟩)
    (by
      intro i hil hq
      unfold nF faceAt at *
      rw [r3] at hil hq
      simpa using f2 i hil hq)
  have q2 := faceStageR (fun f => ∃ x ∈ f, x / 2 ∈ k.incidentEdges [v])
    (k.incidentFaces (k.incidentEdges [v])).reverse _ r1
    (incidentFaces_desc k _) (by unfold nF at *; rw [r3]; simpa using f1)
    (by intro c hc x hx hm; exact r2 c hc ⟨x, hx, by simpa using hm⟩)
    (by
      intro i hil hq
      unfold nF faceAt at *
      rw [r3] at hil hq
      simpa using f2 i hil hq) q1
  obtain ⟨t1, _, _⟩ := edgeStage (fun e => e.1 = v ∨ e.2 = v) (k.incidentEdges [v]).reverse _ s1
    (incidentEdges_desc k _) (by unfold nE at *; rw [s3, r4]; simpa using e1)
    (by intro f hf x hx hm; exact s2 f hf ⟨x, hx, by simpa using hm⟩)
    (by
      intro i hil hq
      unfold nE edgeAt at *
      rw [s3, r4] at hil hq
      simpa using e2 i hil hq)
  have q3 := edgeStageR (fun e => e.1 = v ∨ e.2 = v) (k.incidentEdges [v]).reverse _ s1
    (incidentEdges_desc k _) (by unfold nE at *; rw [s3, r4]; simpa using e1)
    (by intro f hf x hx hm; exact s2 f hf ⟨x, hx, by simpa using hm⟩)
    (by
      intro i hil hq
      unfold nE edgeAt at *
      rw [s3, r4] at hil hq
      simpa using e2 i hil hq) q2
  exact rot_vertexCore_fast t1 q3.1

end Rot
end Kernel
end OVM

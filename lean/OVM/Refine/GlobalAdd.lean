import OVM.Refine.Global
/-
  `GInv` (OVM/Refine/Global.lean) is kept by the construction calls `add_vertex`, `add_n_vertices`, `add_edge`,
  `add_face` (halfedge and vertex form) and `add_cell` under `Global.OpOK`.  `WF` comes from builder K1
  (CacheAdd.lean, CacheAddCell.lean); new here: `oneCell` after `add_face` (`oneCell_grow`: the two new
  halffaces are in no cell) and after `add_cell` (`oneCell_snoc`: free, pairwise distinct halffaces), `Closed`
  (the new entity is built on not-deleted entities — the asserted preconditions), and the flag bookkeeping.
-/
namespace OVM
namespace Kernel
namespace Global
open ScanDel

theorem getD_snoc_false (l : List Bool) (x : Nat) : (l ++ [false]).getD x false = l.getD x false := by
  simp only [List.getD_eq_getElem?_getD, List.getElem?_append]
  split
  · rfl
  · rename_i h
    rw [List.getElem?_eq_none (l := l) (by omega)]
    cases hx : [false][x - l.length]? with
    | none => rfl
    | some b =>
      have := List.mem_of_getElem? hx
      simp at this; simp [this]

theorem getD_resize_false (l : List Bool) (n x : Nat) (h : l.getD x false = false) :
    (resizeL l n false).getD x false = false := by
  unfold resizeL
  simp only [List.getD_eq_getElem?_getD, List.getElem?_append, List.length_take] at h ⊢
  split
  · rename_i hlt
    rw [List.getElem?_take]
    rw [if_pos (by omega)]; exact h
  · cases hx : (List.replicate (n - l.length) false)[x - min n l.length]? with
    | none => rfl
    | some b =>
      have := List.mem_of_getElem? hx
      simp [(List.mem_replicate.mp this).2]

/-- more faces, same cells: `oneCell` is kept (the new halffaces are in no cell) -/
theorem oneCell_grow {k k' : Kernel} (hr : RangeInv k) (hc : k'.cells = k.cells) (hd : k'.cDel = k.cDel)
    (h1 : k.oneCell = true) : k'.oneCell = true := by
  have hlive : k'.liveCells = k.liveCells := by unfold liveCells nC cDeleted; rw [hc, hd]
  have hat : ∀ c, k'.cellAt c = k.cellAt c := fun c => by unfold cellAt; rw [hc]
  unfold oneCell at h1 ⊢
  simp only [List.all_eq_true, List.mem_range, decide_eq_true_eq] at h1 ⊢
  intro hf _
  rw [hlive]
  by_cases hlt : hf < k.nHF
  · have := h1 hf hlt
    simpa [hat] using this
  · have hz : ∀ c ∈ k.liveCells, (k'.cellAt c).count hf = 0 := by
      intro c hc'
      rw [hat, List.count_eq_zero]
      intro hm
      have hl := (mem_liveCells k c).mp hc'
      exact hlt (hr.cells _ (cellAt_mem_cells (liveC_lt hl)) hf hm)
    have : (k.liveCells.map (fun c => (k'.cellAt c).count hf)).sum = 0 := by
      generalize k.liveCells = L at hz
      induction L with
      | nil => rfl
      | cons a t ih =>
        simp only [List.map_cons, List.sum_cons]
        rw [hz a (List.mem_cons_self), ih (fun c hc' => hz c (List.mem_cons_of_mem _ hc'))]
    omega


theorem snoc_getD_cases {α} (l : List α) (x d : α) (e : Nat) (he : e < (l ++ [x]).length) :
    (e < l.length ∧ (l ++ [x]).getD e d = l.getD e d) ∨ (e = l.length ∧ (l ++ [x]).getD e d = x) := by
  simp only [List.length_append, List.length_singleton] at he
  by_cases h : e < l.length
  · left; exact ⟨h, by simp [List.getD_eq_getElem?_getD, List.getElem?_append, h]⟩
  · right
    have : e = l.length := by omega
    subst this
    exact ⟨rfl, by simp [List.getD_eq_getElem?_getD]⟩

theorem snoc_getD_lt {α} (l : List α) (x d : α) (e : Nat) (he : e < l.length) :
    (l ++ [x]).getD e d = l.getD e d := by
  simp [List.getD_eq_getElem?_getD, List.getElem?_append, he]

theorem liveC_of_eq {k k' : Kernel} (hc : k'.cells = k.cells) (hd : k'.cDel = k.cDel) (c : Nat) :
    k'.liveC c = k.liveC c := by unfold liveC nC cDeleted; rw [hc, hd]
theorem liveF_of_eq {k k' : Kernel} (hc : k'.faces = k.faces) (hd : k'.fDel = k.fDel) (c : Nat) :
    k'.liveF c = k.liveF c := by unfold liveF nF fDeleted; rw [hc, hd]
theorem liveE_of_eq {k k' : Kernel} (hc : k'.edges = k.edges) (hd : k'.eDel = k.eDel) (c : Nat) :
    k'.liveE c = k.liveE c := by unfold liveE nE eDeleted; rw [hc, hd]
theorem faceAt_of_eq {k k' : Kernel} (h : k'.faces = k.faces) (x : Nat) : k'.faceAt x = k.faceAt x := by
  unfold faceAt; rw [h]
theorem edgeAt_of_eq {k k' : Kernel} (h : k'.edges = k.edges) (x : Nat) : k'.edgeAt x = k.edgeAt x := by
  unfold edgeAt; rw [h]

/-! ### add_vertex / add_n_vertices -/

theorem ginv_addVertex {k : Kernel} (hi : GInv k) : GInv (k.addVertex).1 := by
  refine ⟨wf_addVertex k hi.wf, (oneCell_congr k (k.addVertex).1 rfl rfl rfl).trans hi.one, ?_, ?_⟩
  · exact closed_of_obs (k := k) (fun c h => ⟨h, rfl⟩) (fun c h => ⟨h, rfl⟩) (fun c h => ⟨h, rfl⟩)
      (fun _ h => h) (fun _ h => h)
      (fun x h => by show (k.vDel ++ [false]).getD x false = false; rw [getD_snoc_false]; exact h) hi.closed
  · exact flagInv_of_imp (k := k) rfl rfl rfl rfl rfl id id id noFlag_snoc hi.flags

theorem ginv_addNVertices {k : Kernel} (n : Nat) (hi : GInv k) : GInv (k.addNVertices n) := by
  refine ⟨wf_addNVertices k n hi.wf, (oneCell_congr k (k.addNVertices n) rfl rfl rfl).trans hi.one, ?_, ?_⟩
  · exact closed_of_obs (k := k) (fun c h => ⟨h, rfl⟩) (fun c h => ⟨h, rfl⟩) (fun c h => ⟨h, rfl⟩)
      (fun _ h => h) (fun _ h => h)
      (fun x h => getD_resize_false _ _ _ h) hi.closed
  · exact flagInv_of_imp (k := k) rfl rfl rfl rfl rfl id id id (fun h => noFlag_resize h _) hi.flags

/-! ### add_edge -/

theorem addEdgeCore_frames (k : Kernel) (a b : Nat) :
    (k.addEdgeCore a b).deferred = k.deferred ∧ (k.addEdgeCore a b).nDelC = k.nDelC ∧
    (k.addEdgeCore a b).nDelF = k.nDelF ∧ (k.addEdgeCore a b).nDelE = k.nDelE ∧
    (k.addEdgeCore a b).nDelV = k.nDelV := by
  unfold addEdgeCore; simp only; split <;> split <;> exact ⟨rfl, rfl, rfl, rfl, rfl⟩

theorem closed_addEdgeCore {k : Kernel} {a b : Nat} (ha : k.vDeleted a = false) (hb : k.vDeleted b = false)
    (hc : Closed k) : Closed (k.addEdgeCore a b) := by
  refine ⟨?_, ?_, ?_⟩
  · intro c hlc x hx
    rw [liveC_of_eq (addEdgeCore_cells k a b) (addEdgeCore_cDel k a b)] at hlc
    rw [cellAt_of_eq (addEdgeCore_cells k a b)] at hx
    have := hc.f c hlc x hx
    unfold fDeleted at *; rw [addEdgeCore_fDel]; exact this
  · intro f hlf x hx
    rw [liveF_of_eq (addEdgeCore_faces k a b) (addEdgeCore_fDel k a b)] at hlf
    rw [faceAt_of_eq (addEdgeCore_faces k a b)] at hx
    have := hc.e f hlf x hx
    unfold eDeleted at *; rw [addEdgeCore_eDel, getD_snoc_false]; exact this
  · intro e hle
    have hvd : ∀ x, (k.addEdgeCore a b).vDeleted x = k.vDeleted x := fun x => by
      unfold vDeleted; rw [addEdgeCore_vDel]
    rw [hvd, hvd]
    unfold liveE nE eDeleted at hle
    simp only [addEdgeCore_edges, addEdgeCore_eDel, Bool.and_eq_true, decide_eq_true_eq, Bool.not_eq_true',
      getD_snoc_false] at hle
    unfold edgeAt; rw [addEdgeCore_edges]
    rcases snoc_getD_cases k.edges (a, b) (0, 0) e hle.1 with ⟨h1, h2⟩ | ⟨h1, h2⟩
    · rw [h2]
      exact hc.v e (by unfold liveE nE eDeleted; rw [hle.2]; simp [h1])
    · rw [h2]; exact ⟨ha, hb⟩

theorem ginv_addEdge {k : Kernel} {a b : Nat} (d : Bool) (ha : VOk k a) (hb : VOk k b) (hi : GInv k) :
    GInv (k.addEdge a b d).1 := by
  refine ⟨wf_addEdge k a b d ha.1 hb.1 hi.wf, (oneCell_addEdge k a b d).trans hi.one, ?_, ?_⟩
  · unfold addEdge; split
    · exact hi.closed
    · exact closed_addEdgeCore ha.2 hb.2 hi.closed
  · unfold addEdge; split
    · exact hi.flags
    · obtain ⟨f1, f2, f3, f4, f5⟩ := addEdgeCore_frames k a b
      exact flagInv_of_imp f1 f2 f3 f4 f5 (fun h => by rw [addEdgeCore_cDel]; exact h)
        (fun h => by rw [addEdgeCore_fDel]; exact h) (fun h => by rw [addEdgeCore_eDel]; exact noFlag_snoc h)
        (fun h => by rw [addEdgeCore_vDel]; exact h) hi.flags

/-! ### add_face (halfedges) -/

theorem addFaceCore_frames (k : Kernel) (hes : List Nat) :
    (k.addFaceCore hes).deferred = k.deferred ∧ (k.addFaceCore hes).nDelC = k.nDelC ∧
    (k.addFaceCore hes).nDelF = k.nDelF ∧ (k.addFaceCore hes).nDelE = k.nDelE ∧
    (k.addFaceCore hes).nDelV = k.nDelV := by
  unfold addFaceCore; simp only; split <;> split <;> exact ⟨rfl, rfl, rfl, rfl, rfl⟩

theorem closed_addFaceCore {k : Kernel} {hes : List Nat} (hh : ∀ h ∈ hes, k.eDeleted (eOf h) = false)
    (hc : Closed k) : Closed (k.addFaceCore hes) := by
  refine ⟨?_, ?_, ?_⟩
  · intro c hlc x hx
    rw [liveC_of_eq (addFaceCore_cells k hes) (addFaceCore_cDel k hes)] at hlc
    rw [cellAt_of_eq (addFaceCore_cells k hes)] at hx
    have := hc.f c hlc x hx
    unfold fDeleted at *; rw [addFaceCore_fDel, getD_snoc_false]; exact this
  · intro f hlf x hx
    have hed : ∀ x, (k.addFaceCore hes).eDeleted x = k.eDeleted x := fun x => by
      unfold eDeleted; rw [addFaceCore_eDel]
    rw [hed]
    unfold liveF nF fDeleted at hlf
    simp only [addFaceCore_faces, addFaceCore_fDel, Bool.and_eq_true, decide_eq_true_eq, Bool.not_eq_true',
      getD_snoc_false] at hlf
    unfold faceAt at hx; rw [addFaceCore_faces] at hx
    rcases snoc_getD_cases k.faces hes [] f hlf.1 with ⟨h1, h2⟩ | ⟨h1, h2⟩
    · rw [h2] at hx
      exact hc.e f (by unfold liveF nF fDeleted; rw [hlf.2]; simp [h1]) x hx
    · rw [h2] at hx; exact hh x hx
  · intro e hle
    rw [liveE_of_eq (addFaceCore_edges k hes) (addFaceCore_eDel k hes)] at hle
    rw [edgeAt_of_eq (addFaceCore_edges k hes)]
    have := hc.v e hle
    unfold vDeleted at *; rw [addFaceCore_vDel]; exact this

theorem ginv_addFaceCore {k : Kernel} {hes : List Nat} (hh : ∀ h ∈ hes, HeOk k h) (hi : GInv k) :
    GInv (k.addFaceCore hes) := by
  refine ⟨wf_addFaceCore k hes (fun h hm => (hh h hm).1) hi.wf,
    oneCell_grow hi.wf.range (addFaceCore_cells k hes) (addFaceCore_cDel k hes) hi.one,
    closed_addFaceCore (fun h hm => (hh h hm).2) hi.closed, ?_⟩
  obtain ⟨f1, f2, f3, f4, f5⟩ := addFaceCore_frames k hes
  exact flagInv_of_imp f1 f2 f3 f4 f5 (fun h => by rw [addFaceCore_cDel]; exact h)
    (fun h => by rw [addFaceCore_fDel]; exact noFlag_snoc h) (fun h => by rw [addFaceCore_eDel]; exact h)
    (fun h => by rw [addFaceCore_vDel]; exact h) hi.flags

theorem ginv_addFace {k : Kernel} {hes : List Nat} (chk : Bool) (hh : ∀ h ∈ hes, HeOk k h) (hi : GInv k) :
    GInv (k.addFace hes chk).1 := by
  unfold addFace; split
  · exact ginv_addFaceCore hh hi
  · exact hi


/-! ### add_face (vertices) -/

theorem addEdge_vDel (k : Kernel) (a b : Nat) (d : Bool) : (k.addEdge a b d).1.vDel = k.vDel := by
  unfold addEdge; split <;> simp

theorem addEdge_eDeleted (k : Kernel) (a b : Nat) (d : Bool) (x : Nat) :
    (k.addEdge a b d).1.eDeleted x = k.eDeleted x := by
  unfold addEdge; split
  · rfl
  · unfold eDeleted; rw [addEdgeCore_eDel, getD_snoc_false]

/-- the edge `add_edge` returns is not deleted: the duplicate search only finds live edges (through the
    cache by `CacheInvV`, the linear scan skips deleted slots, cc:137), a new edge is live -/
theorem addEdge_result_live (k : Kernel) (a b : Nat) (d : Bool) (h : WF k) (ha : a < k.nV) :
    (k.addEdge a b d).1.eDeleted (k.addEdge a b d).2 = false := by
  rw [addEdge_eDeleted]
  unfold addEdge
  split
  · rename_i e he
    show k.eDeleted e = false
    unfold findEdge at he
    split at he
    · cases he
    · split at he
      · rename_i hv
        obtain ⟨x, hm, _, rfl⟩ := findEdgeBU_some he
        have := (mem_sOut (((h.cache.v hv).2 a ha).mem_iff.mp hm)).2
        unfold liveE at this; simp at this; exact this.2
      · unfold findEdgeScan at he
        have := List.find?_some he
        simp only [Bool.and_eq_true, Bool.not_eq_true'] at this
        exact this.1
  · show k.eDeleted k.nE = false
    unfold eDeleted; exact getD_of_ge _ _ _ (by rw [h.len.eDel]; exact Nat.le_refl _)

theorem ginv_addFaceV {k : Kernel} {vs : List Nat} (hv : ∀ v ∈ vs, VOk k v) (hi : GInv k) : GInv (k.addFaceV vs).1 := by
  unfold addFaceV
  cases vs with
  | nil =>
    exact ⟨wf_addFaceV k [] (fun _ h => by cases h) hi.wf, (oneCell_congr k _ rfl rfl rfl).trans hi.one,
      closed_of_eq (k := k) rfl rfl rfl rfl rfl rfl rfl rfl hi.closed,
      flagInv_of_eq (k := k) rfl rfl rfl rfl rfl rfl rfl rfl rfl hi.flags⟩
  | cons v0 t =>
    simp only
    have key : ∀ (ps : List (Nat × Nat)) (st : Kernel × List Nat), (∀ p ∈ ps, VOk k p.1 ∧ VOk k p.2) →
        GInv st.1 → st.1.nV = k.nV → st.1.vDel = k.vDel → (∀ x ∈ st.2, HeOk st.1 x) →
        let r := ps.foldl (fun (st : Kernel × List Nat) (ab : Nat × Nat) =>
          ((st.1.addEdge ab.1 ab.2 false).1,
           st.2 ++ [heOf (st.1.addEdge ab.1 ab.2 false).2
             (if (((st.1.addEdge ab.1 ab.2 false).1).edgeAt (st.1.addEdge ab.1 ab.2 false).2).2 == ab.1 then 1 else 0)])) st
        GInv r.1 ∧ (∀ x ∈ r.2, HeOk r.1 x) := by
      intro ps
      induction ps with
      | nil => intro st _ hw _ _ hx; exact ⟨hw, hx⟩
      | cons p ps ih =>
        intro st hps hw hn hvd hx
        simp only [List.foldl_cons]
        have hp := hps p (by simp)
        have ok : ∀ v, VOk k v → VOk st.1 v := fun v h => ⟨by rw [hn]; exact h.1, by unfold vDeleted; rw [hvd]; exact h.2⟩
        apply ih
        · intro q hq; exact hps q (by simp [hq])
        · exact ginv_addEdge false (ok _ hp.1) (ok _ hp.2) hw
        · rw [addEdge_nV]; exact hn
        · rw [addEdge_vDel]; exact hvd
        · intro x hm
          simp only [List.mem_append, List.mem_singleton] at hm
          rcases hm with hm | rfl
          · exact ⟨Nat.lt_of_lt_of_le (hx x hm).1 (addEdge_nHE_le _ _ _ _), by rw [addEdge_eDeleted]; exact (hx x hm).2⟩
          · have h1 := addEdge_result_lt st.1 p.1 p.2 false hw.wf (ok _ hp.1).1
            have h2 := addEdge_result_live st.1 p.1 p.2 false hw.wf (ok _ hp.1).1
            generalize (st.1.addEdge p.1 p.2 false).2 = e at h1 h2 ⊢
            generalize (st.1.addEdge p.1 p.2 false).1 = k1 at h1 h2 ⊢
            constructor
            · unfold heOf nHE; unfold nE at h1; split <;> omega
            · have : ∀ s, s ≤ 1 → eOf (heOf e s) = e := fun s hs => by unfold eOf heOf; omega
              split
              · rw [this 1 (Nat.le_refl _)]; exact h2
              · rw [this 0 (Nat.zero_le _)]; exact h2
    have hpairs : ∀ p ∈ (v0 :: t).zip ((v0 :: t).tail ++ [v0]), VOk k p.1 ∧ VOk k p.2 := by
      intro p hp
      have h1 := (List.of_mem_zip hp).1
      have h2 := (List.of_mem_zip hp).2
      refine ⟨hv _ h1, ?_⟩
      simp only [List.tail_cons, List.mem_append, List.mem_singleton] at h2
      rcases h2 with h2 | h2
      · exact hv _ (by simp [h2])
      · rw [h2]; exact hv _ (by simp)
    obtain ⟨hw, hx⟩ := key _ (k, []) hpairs hi rfl rfl (by intro x hx; cases hx)
    exact ginv_addFace false hx hw


/-! ### add_cell -/

theorem sum_map_zero {α} (l : List α) (g : α → Nat) (h : ∀ x ∈ l, g x = 0) : (l.map g).sum = 0 := by
  induction l with
  | nil => rfl
  | cons a t ih =>
    simp only [List.map_cons, List.sum_cons]
    rw [h a (List.mem_cons_self), ih (fun c hc => h c (List.mem_cons_of_mem _ hc))]

theorem sum_map_congr {α} (l : List α) (g g' : α → Nat) (h : ∀ x ∈ l, g x = g' x) : (l.map g).sum = (l.map g').sum := by
  induction l with
  | nil => rfl
  | cons a t ih =>
    simp only [List.map_cons, List.sum_cons]
    rw [h a (List.mem_cons_self), ih (fun c hc => h c (List.mem_cons_of_mem _ hc))]

/-- a new live cell on free, pairwise distinct halffaces keeps C01's precondition -/
theorem oneCell_snoc {k k' : Kernel} {hfs : List Nat} (hl : LenInv k) (hf : k'.faces.length = k.faces.length)
    (hc : k'.cells = k.cells ++ [hfs]) (hd : k'.cDel = k.cDel ++ [false])
    (hfree : ∀ x ∈ hfs, k.sCellOf x = none) (hn : hfs.Nodup) (h1 : k.oneCell = true) : k'.oneCell = true := by
  have hlive : k'.liveCells = k.liveCells ++ [k.nC] := by
    rw [liveCells_eq, liveCells_eq]
    have : k'.nC = k.nC + 1 := by unfold nC; rw [hc]; simp
    rw [this, hd]
    exact liveIdx_snoc _ _ hl.cDel
  have hnew : k'.cellAt k.nC = hfs := by simp [cellAt, hc, nC, List.getD_eq_getElem?_getD]
  have hold : ∀ c ∈ k.liveCells, k'.cellAt c = k.cellAt c := by
    intro c hm
    have hcl : c < k.cells.length := by rw [liveCells_eq] at hm; exact mem_liveIdx_lt hm
    simp [cellAt, hc, List.getD_eq_getElem?_getD, List.getElem?_append, hcl]
  unfold oneCell at h1 ⊢
  simp only [List.all_eq_true, List.mem_range, decide_eq_true_eq] at h1 ⊢
  intro x hx
  have hx' : x < k.nHF := by unfold nHF at *; rw [hf] at hx; exact hx
  rw [hlive, List.map_append, List.sum_append]
  simp only [List.map_cons, List.map_nil, List.sum_cons, List.sum_nil, hnew, Nat.add_zero]
  rw [sum_map_congr k.liveCells _ (fun c => (k.cellAt c).count x) (fun c hm => by rw [hold c hm])]
  by_cases hm : x ∈ hfs
  · have hz := (sCellOf_none_iff k x).mp (hfree x hm)
    rw [sum_map_zero _ _ (fun c hc' => List.count_eq_zero.mpr (hz c ((mem_liveCells k c).mp hc')))]
    rw [hn.count, if_pos hm]; exact Nat.le_refl _
  · rw [List.count_eq_zero.mpr hm]
    exact h1 x hx'

theorem addCellCore_frames (k : Kernel) (hfs : List Nat) :
    (k.addCellCore hfs).deferred = k.deferred ∧ (k.addCellCore hfs).nDelC = k.nDelC ∧
    (k.addCellCore hfs).nDelF = k.nDelF ∧ (k.addCellCore hfs).nDelE = k.nDelE ∧
    (k.addCellCore hfs).nDelV = k.nDelV := by
  unfold addCellCore; simp only; split
  · split
    · simp
    · exact ⟨rfl, rfl, rfl, rfl, rfl⟩
  · exact ⟨rfl, rfl, rfl, rfl, rfl⟩

theorem closed_addCellCore {k : Kernel} {hfs : List Nat} (hh : ∀ h ∈ hfs, k.fDeleted (eOf h) = false)
    (hc : Closed k) : Closed (k.addCellCore hfs) := by
  refine ⟨?_, ?_, ?_⟩
  · intro c hlc x hx
    have hfd : ∀ x, (k.addCellCore hfs).fDeleted x = k.fDeleted x := fun x => by
      unfold fDeleted; rw [addCellCore_fDel]
    rw [hfd]
    unfold liveC nC cDeleted at hlc
    simp only [addCellCore_cells, addCellCore_cDel, Bool.and_eq_true, decide_eq_true_eq, Bool.not_eq_true',
      getD_snoc_false] at hlc
    unfold cellAt at hx; rw [addCellCore_cells] at hx
    rcases snoc_getD_cases k.cells hfs [] c hlc.1 with ⟨h1, h2⟩ | ⟨h1, h2⟩
    · rw [h2] at hx
      exact hc.f c (by unfold liveC nC cDeleted; rw [hlc.2]; simp [h1]) x hx
    · rw [h2] at hx; exact hh x hx
  · intro f hlf x hx
    rw [liveF_of_eq (addCellCore_faces k hfs) (addCellCore_fDel k hfs)] at hlf
    rw [faceAt_of_eq (addCellCore_faces k hfs)] at hx
    have := hc.e f hlf x hx
    unfold eDeleted at *; rw [addCellCore_eDel]; exact this
  · intro e hle
    rw [liveE_of_eq (addCellCore_edges k hfs) (addCellCore_eDel k hfs)] at hle
    rw [edgeAt_of_eq (addCellCore_edges k hfs)]
    have := hc.v e hle
    unfold vDeleted at *; rw [addCellCore_vDel]; exact this

theorem ginv_addCell {k : Kernel} {hfs : List Nat} (chk : Bool) (hh : ∀ hf ∈ hfs, HfOk k hf ∧ k.sCellOf hf = none)
    (hn : hfs.Nodup) (hi : GInv k) : GInv (k.addCell hfs chk).1 := by
  unfold addCell; split
  · refine ⟨wf_addCellCore k hfs (fun h hm => (hh h hm).1.1) (fun h hm => (hh h hm).2) hi.wf,
      oneCell_snoc hi.wf.len (by rw [addCellCore_faces]) (addCellCore_cells k hfs) (addCellCore_cDel k hfs)
        (fun h hm => (hh h hm).2) hn hi.one,
      closed_addCellCore (fun h hm => (hh h hm).1.2) hi.closed, ?_⟩
    obtain ⟨f1, f2, f3, f4, f5⟩ := addCellCore_frames k hfs
    exact flagInv_of_imp f1 f2 f3 f4 f5 (fun h => by rw [addCellCore_cDel]; exact noFlag_snoc h)
      (fun h => by rw [addCellCore_fDel]; exact h) (fun h => by rw [addCellCore_eDel]; exact h)
      (fun h => by rw [addCellCore_vDel]; exact h) hi.flags
  · exact hi

end Global
end Kernel
end OVM

import OVM.Refine.CacheErase
/-
  `collect_garbage` in index-shifting (non-fast) mode keeps `WF` (and C01's `oneCell`) and leaves no flagged
  entity behind (`collected_collectGarbage`, `wf_collectGarbage`).
  Each sweep step un-flags the entity and then calls the immediate core on the un-flagged state.  There the
  entity is live for the scans but absent from the caches, so that intermediate state is NOT well-formed; the
  invariant carried through the sweeps is `WF` of the state *with the flag still set* (`GCInv`), and the step is
  "the core applied to the un-flagged state = erase stage applied to a state that equals `k` up to the order
  inside the fans" (`gcCellStep … gcVertexStep`: the unlink stage finds nothing to unlink and only re-orders
  fans), followed by the erase-stage theorems of CacheErase.lean.
  The erase stages need "nothing of the level above is flagged / uses the entity"; inside `collect_garbage` this
  comes from the order of the sweeps (cells, faces, edges, vertices) and from `Closed`: nothing live uses
  something flagged — which the closure-deleting `delete_*` of deferred mode establish.  `Closed` is a real
  precondition: see the TEST at the end of this file (an edge added onto a deferred-deleted vertex).
-/
namespace OVM
namespace Kernel
open ScanDel

/-- `k'` is `k` up to the order inside the fans (and the pending-deletion counters) -/
structure FanEq (k' k : Kernel) : Prop where
  nV : k'.nV = k.nV
  edges : k'.edges = k.edges
  faces : k'.faces = k.faces
  cells : k'.cells = k.cells
  vDel : k'.vDel = k.vDel
  eDel : k'.eDel = k.eDel
  fDel : k'.fDel = k.fDel
  cDel : k'.cDel = k.cDel
  deferred : k'.deferred = k.deferred
  fast : k'.fast = k.fast
  vBU : k'.vBU = k.vBU
  eBU : k'.eBU = k.eBU
  fBU : k'.fBU = k.fBU
  outHes : k'.outHes = k.outHes
  incCell : k'.incCell = k.incCell
  props : k'.props = k.props
  len : k'.incHfs.length = k.incHfs.length
  perm : ∀ y, (k'.hfsOf y).Perm (k.hfsOf y)

theorem FanEq.wf {k' k : Kernel} (e : FanEq k' k) (hw : WF k) : WF k' :=
  wf_of_fans_perm e.nV e.edges e.faces e.cells e.vDel e.eDel e.fDel e.cDel e.vBU e.eBU e.fBU e.outHes e.incCell
    e.props e.len e.perm hw

theorem FanEq.one {k' k : Kernel} (e : FanEq k' k) (h1 : k.oneCell = true) : k'.oneCell = true :=
  oneCell_of_same (by rw [e.faces]) e.cells e.cDel h1

theorem FanEq.of_eq {k' k : Kernel} (nV : k'.nV = k.nV) (edges : k'.edges = k.edges) (faces : k'.faces = k.faces)
    (cells : k'.cells = k.cells) (vDel : k'.vDel = k.vDel) (eDel : k'.eDel = k.eDel) (fDel : k'.fDel = k.fDel)
    (cDel : k'.cDel = k.cDel) (deferred : k'.deferred = k.deferred) (fast : k'.fast = k.fast)
    (vBU : k'.vBU = k.vBU) (eBU : k'.eBU = k.eBU) (fBU : k'.fBU = k.fBU) (outHes : k'.outHes = k.outHes)
    (incCell : k'.incCell = k.incCell) (props : k'.props = k.props) (incHfs : k'.incHfs = k.incHfs) : FanEq k' k :=
  ⟨nV, edges, faces, cells, vDel, eDel, fDel, cDel, deferred, fast, vBU, eBU, fBU, outHes, incCell, props,
    by rw [incHfs], fun y => by unfold hfsOf; rw [incHfs]⟩

/-! ### un-linking something the caches do not mention -/

theorem clearCell_noop (h : Nat) (hfs : List Nat) (ic : List (Option Nat)) (hn : ∀ x, ic.getD x none ≠ some h) :
    hfs.foldl (fun ic hf => if ic.getD hf none == some h then ic.set hf none else ic) ic = ic := by
  induction hfs with
  | nil => rfl
  | cons a t ih =>
    simp only [List.foldl_cons]
    have : (ic.getD a none == some h) = false := beq_eq_false_iff_ne.mpr (hn a)
    simp only [this, Bool.false_eq_true, if_false]
    exact ih

/-- `unlinkCell` of a cell that no cache entry points to: only fans are re-ordered -/
theorem unlinkCell_hfsOf_perm' {k : Kernel} (h : Nat) (hm : k.eBU = true → SlotMirror k) (y : Nat) :
    ((k.unlinkCell h).hfsOf y).Perm (k.hfsOf y) := by
  by_cases hb : k.eBU = true
  · exact unlinkCell_hfsOf_perm h (hm hb) y
  · unfold unlinkCell
    split
    · simp only []
      split
      · rename_i h2; exact absurd h2 hb
      · exact List.Perm.refl _
    · exact List.Perm.refl _

theorem unlinkCell_unlinked {k : Kernel} (h : Nat) (hm : k.eBU = true → SlotMirror k)
    (hn : k.fBU = true → ∀ x, k.cellOf x ≠ some h) : FanEq (k.unlinkCell h) k := by
  have hinc : (k.unlinkCell h).incCell = k.incCell := by
    unfold unlinkCell
    split
    · rename_i hb
      simp only []
      split
      · rw [foldl_reorder_incCell]; exact clearCell_noop h _ _ (hn hb)
      · exact clearCell_noop h _ _ (hn hb)
    · rfl
  exact ⟨by simp, by simp, by simp, by simp, by simp, by simp, by simp, by simp, by simp, by simp, by simp, by simp,
    by simp, by simp, hinc, by simp, unlinkCell_incHfs_length k h, unlinkCell_hfsOf_perm' h hm⟩

theorem k4_modify_noop {α} (l : List α) (i : Nat) (f : α → α) (hf : ∀ a ∈ l, f a = a) : l.modify i f = l := by
  apply List.ext_getElem?
  intro j
  rw [List.getElem?_modify]
  cases hl : l[j]? with
  | none => split <;> rfl
  | some a => split <;> simp [hf a (List.mem_of_getElem? hl)]

theorem removeAll_noop (l : List Nat) (x : Nat) (h : x ∉ l) : removeAll l x = l := by
  unfold removeAll; exact filter_ne_of_not_mem l x h

/-- `unlinkFace` of a face whose halffaces are in no fan: only fans are re-ordered -/
theorem unlinkFace_unlinked {k : Kernel} (h : Nat) (hm : k.eBU = true → SlotMirror k)
    (hn : k.eBU = true → ∀ y x, x ∈ k.hfsOf y → eOf x ≠ h) : FanEq (k.unlinkFace h) k := by
  have key : ∀ (l : List Nat) (kj : Kernel), SlotMirror kj → (∀ y x, x ∈ kj.hfsOf y → eOf x ≠ h) →
      SlotMirror (l.foldl (unlinkFaceStep h) kj) ∧ (∀ y, ((l.foldl (unlinkFaceStep h) kj).hfsOf y).Perm (kj.hfsOf y)) := by
    intro l
    induction l with
    | nil => intro kj hm _; exact ⟨hm, fun y => List.Perm.refl _⟩
    | cons he t ih =>
      intro kj hm hn
      simp only [List.foldl_cons]
      obtain ⟨hm1, hp1⟩ := unlinkFaceStep_slots h kj he hm
      have hp1' : ∀ y, ((unlinkFaceStep h kj he).hfsOf y).Perm (kj.hfsOf y) := by
        intro y
        refine (hp1 y).trans (List.Perm.of_eq ?_)
        apply List.filter_eq_self.mpr
        intro x hx
        exact unlinkQ_off h he y x (hn y x hx)
      have hn1 : ∀ y x, x ∈ (unlinkFaceStep h kj he).hfsOf y → eOf x ≠ h :=
        fun y x hx => hn y x ((hp1' y).mem_iff.mp hx)
      obtain ⟨a1, a2⟩ := ih _ hm1 hn1
      exact ⟨a1, fun y => (a2 y).trans (hp1' y)⟩
  by_cases hb : k.eBU = true
  · have hunl : k.unlinkFace h = (k.faceAt h).foldl (unlinkFaceStep h) k := by unfold unlinkFace; simp [hb]
    have := (key (k.faceAt h) k (hm hb) (hn hb)).2
    rw [← hunl] at this
    exact ⟨by simp, by simp, by simp, by simp, by simp, by simp, by simp, by simp, by simp, by simp, by simp, by simp,
      by simp, by simp, by simp, by simp, unlinkFace_incHfs_length k h, this⟩
  · have hunl : k.unlinkFace h = k := by unfold unlinkFace; simp [hb]
    rw [hunl]
    exact FanEq.of_eq rfl rfl rfl rfl rfl rfl rfl rfl rfl rfl rfl rfl rfl rfl rfl rfl rfl

/-- `unlinkEdge` of an edge whose halfedges are in no vertex slot does nothing -/
theorem unlinkEdge_unlinked {k : Kernel} (h : Nat) (hn : k.vBU = true → ∀ l ∈ k.outHes, ∀ x ∈ l, eOf x ≠ h) :
    k.unlinkEdge h = k := by
  unfold unlinkEdge
  split
  · rename_i hb
    have hn := hn hb
    have h0 : ∀ l ∈ k.outHes, removeAll l (heOf h 0) = l := by
      intro l hl; apply removeAll_noop; intro hx; have := hn l hl _ hx; unfold eOf heOf at this; omega
    have h1 : ∀ l ∈ k.outHes, removeAll l (heOf h 1) = l := by
      intro l hl; apply removeAll_noop; intro hx; have := hn l hl _ hx; unfold eOf heOf at this; omega
    rw [k4_modify_noop _ _ _ h0, k4_modify_noop _ _ _ h1]
  · rfl

/-! ### one step of a `collect_garbage` sweep: un-flag, then the immediate core -/

theorem slotMirror_cond {k : Kernel} (hw : WF k) : k.eBU = true → SlotMirror k :=
  fun hb => slotMirror_of_cacheInvE hw.cache.e hb

theorem deleteCellCore_shift_eq {k : Kernel} (h : Nat) (hd : k.deferred = false) (hf : k.fast = false) :
    k.deleteCellCore h = (k.unlinkCell h).eraseCell h := by unfold deleteCellCore; simp [hd, hf]
theorem deleteFaceCore_shift_eq {k : Kernel} (h : Nat) (hd : k.deferred = false) (hf : k.fast = false) :
    k.deleteFaceCore h = (k.unlinkFace h).eraseFace h := by unfold deleteFaceCore; simp [hd, hf]
theorem deleteEdgeCore_shift_eq {k : Kernel} (h : Nat) (hd : k.deferred = false) (hf : k.fast = false) :
    k.deleteEdgeCore h = (k.unlinkEdge h).eraseEdge h := by unfold deleteEdgeCore; simp [hd, hf]
theorem deleteVertexCore_shift_eq {k : Kernel} (h : Nat) (hd : k.deferred = false) (hf : k.fast = false) :
    k.deleteVertexCore h = k.eraseVertex h := by unfold deleteVertexCore; simp [hd, hf]

theorem eraseCell_congr_cDel (k : Kernel) (h : Nat) (d : List Bool) (hd : d.eraseIdx h = k.cDel.eraseIdx h) :
    ({ k with cDel := d } : Kernel).eraseCell h = k.eraseCell h := by unfold eraseCell; simp only [hd]
theorem eraseFace_congr_fDel (k : Kernel) (h : Nat) (d : List Bool) (hd : d.eraseIdx h = k.fDel.eraseIdx h) :
    ({ k with fDel := d } : Kernel).eraseFace h = k.eraseFace h := by
  unfold eraseFace liveCells cDeleted nC; simp only [hd]

/-- cells: the core applied to the un-flagged state erases the slot of a state that is `k` up to fan order -/
theorem gcCellStep {k : Kernel} {h : Nat} (hd : k.deferred = false) (hf : k.fast = false) (hw : WF k)
    (hdead : k.cDeleted h = true) :
    ∃ k3, FanEq k3 k ∧ ({ k with cDel := k.cDel.set h false } : Kernel).deleteCellCore h = k3.eraseCell h := by
  have hn : k.fBU = true → ∀ x, k.cellOf x ≠ some h := by
    intro hb x hx
    have := (cellOf_some_live hw.cache.f hb hx).2.1
    unfold liveC at this; simp [hdead] at this
  have e1 := unlinkCell_unlinked (k := { k with cDel := k.cDel.set h false }) h
    (fun hb => slotMirror_of_eq (k := k) rfl (slotMirror_cond hw hb)) hn
  refine ⟨{ ({ k with cDel := k.cDel.set h false } : Kernel).unlinkCell h with cDel := k.cDel }, ?_, ?_⟩
  · exact ⟨e1.nV, e1.edges, e1.faces, e1.cells, e1.vDel, e1.eDel, e1.fDel, rfl, e1.deferred, e1.fast, e1.vBU, e1.eBU,
      e1.fBU, e1.outHes, e1.incCell, e1.props, e1.len, e1.perm⟩
  · rw [deleteCellCore_shift_eq (k := { k with cDel := k.cDel.set h false }) h hd hf]
    exact (eraseCell_congr_cDel _ h k.cDel (by rw [unlinkCell_cDel, k4_eraseIdx_set_same])).symm

/-- faces -/
theorem gcFaceStep {k : Kernel} {h : Nat} (hd : k.deferred = false) (hf : k.fast = false) (hw : WF k)
    (hdead : k.fDeleted h = true) :
    ∃ k3, FanEq k3 k ∧ ({ k with fDel := k.fDel.set h false } : Kernel).deleteFaceCore h = k3.eraseFace h := by
  have hn : k.eBU = true → ∀ y x, x ∈ k.hfsOf y → eOf x ≠ h := by
    intro hb y x hx e
    obtain ⟨hl, hs⟩ := hw.cache.e hb
    rcases Nat.lt_or_ge y k.nHE with hy | hy
    · have := ((mem_sHfsOfHe k y x).mp ((hs y hy).mem_iff.mp hx)).1
      rw [e] at this; unfold liveF at this; simp [hdead] at this
    · unfold hfsOf at hx; rw [getD_of_ge _ _ _ (by rw [hl]; exact hy)] at hx; cases hx
  have e1 := unlinkFace_unlinked (k := { k with fDel := k.fDel.set h false }) h
    (fun hb => slotMirror_of_eq (k := k) rfl (slotMirror_cond hw hb)) hn
  refine ⟨{ ({ k with fDel := k.fDel.set h false } : Kernel).unlinkFace h with fDel := k.fDel }, ?_, ?_⟩
  · exact ⟨e1.nV, e1.edges, e1.faces, e1.cells, e1.vDel, e1.eDel, rfl, e1.cDel, e1.deferred, e1.fast, e1.vBU, e1.eBU,
      e1.fBU, e1.outHes, e1.incCell, e1.props, e1.len, e1.perm⟩
  · rw [deleteFaceCore_shift_eq (k := { k with fDel := k.fDel.set h false }) h hd hf]
    exact (eraseFace_congr_fDel _ h k.fDel (by rw [unlinkFace_fDel, k4_eraseIdx_set_same])).symm

/-- edges -/
theorem gcEdgeStep {k : Kernel} {h : Nat} (hd : k.deferred = false) (hf : k.fast = false) (hw : WF k)
    (hdead : k.eDeleted h = true) :
    ({ k with eDel := k.eDel.set h false } : Kernel).deleteEdgeCore h = k.eraseEdge h := by
  have hn : k.vBU = true → ∀ l ∈ k.outHes, ∀ x ∈ l, eOf x ≠ h := by
    intro hb l hl x hx e
    obtain ⟨hlen, hs⟩ := hw.cache.v hb
    obtain ⟨v, hv, rfl⟩ := List.getElem_of_mem hl
    have hv' : v < k.nV := by rw [← hlen]; exact hv
    have hx' : x ∈ k.outOf v := by
      unfold outOf; rw [List.getD_eq_getElem?_getD, List.getElem?_eq_getElem hv]; exact hx
    have := (mem_sOut ((hs v hv').mem_iff.mp hx')).2
    rw [e] at this; unfold liveE at this; simp [hdead] at this
  rw [deleteEdgeCore_shift_eq (k := { k with eDel := k.eDel.set h false }) h hd hf,
    unlinkEdge_unlinked (k := { k with eDel := k.eDel.set h false }) h hn]
  exact eraseEdge_flag_irrelevant k h false

/-- vertices -/
theorem gcVertexStep {k : Kernel} {h : Nat} (hd : k.deferred = false) (hf : k.fast = false) :
    ({ k with vDel := k.vDel.set h false } : Kernel).deleteVertexCore h = k.eraseVertex h := by
  rw [deleteVertexCore_shift_eq (k := { k with vDel := k.vDel.set h false }) h hd hf]
  exact eraseVertex_flag_irrelevant k h false

/-! ### closure consistency of the deleted flags, and what a sweep maintains -/

def CellsLive (k : Kernel) : Prop := ∀ c, c < k.nC → k.cDeleted c = false
def FacesLive (k : Kernel) : Prop := ∀ f, f < k.nF → k.fDeleted f = false
def EdgesLive (k : Kernel) : Prop := ∀ e, e < k.nE → k.eDeleted e = false
def VertsLive (k : Kernel) : Prop := ∀ v, v < k.nV → k.vDeleted v = false

/-- nothing live uses something flagged deleted (what the closure-deleting `delete_*` of deferred mode
    establish; `add_*`/`set_*` with handles of deleted entities would break it) -/
structure Closed (k : Kernel) : Prop where
  f : ∀ c, k.liveC c = true → ∀ a ∈ k.cellAt c, k.fDeleted (eOf a) = false
  e : ∀ f, k.liveF f = true → ∀ a ∈ k.faceAt f, k.eDeleted (eOf a) = false
  v : ∀ e, k.liveE e = true → k.vDeleted (k.edgeAt e).1 = false ∧ k.vDeleted (k.edgeAt e).2 = false

theorem closed_of_eq {k' k : Kernel} (hnV : k'.nV = k.nV) (he : k'.edges = k.edges) (hf : k'.faces = k.faces)
    (hc : k'.cells = k.cells) (hvd : k'.vDel = k.vDel) (hed : k'.eDel = k.eDel) (hfd : k'.fDel = k.fDel)
    (hcd : k'.cDel = k.cDel) (h : Closed k) : Closed k' := by
  have := hnV
  constructor
  · intro c hl a ha
    unfold liveC cDeleted nC cellAt fDeleted at *
    rw [hc, hcd] at hl; rw [hc] at ha; rw [hfd]; exact h.f c hl a ha
  · intro f hl a ha
    unfold liveF fDeleted nF faceAt eDeleted at *
    rw [hf, hfd] at hl; rw [hf] at ha; rw [hed]; exact h.e f hl a ha
  · intro e hl
    unfold liveE eDeleted nE edgeAt vDeleted at *
    rw [he, hed] at hl; rw [he, hvd]; exact h.v e hl

/-- the invariant carried through `collect_garbage` (immediate, index-shifting mode) -/
structure GCInv (k : Kernel) : Prop where
  deferred : k.deferred = false
  fast : k.fast = false
  wf : WF k
  one : k.oneCell = true
  closed : Closed k

theorem GCInv.of_fanEq {k' k : Kernel} (e : FanEq k' k) (hi : GCInv k) : GCInv k' :=
  ⟨e.deferred.trans hi.deferred, e.fast.trans hi.fast, e.wf hi.wf, e.one hi.one,
   closed_of_eq e.nV e.edges e.faces e.cells e.vDel e.eDel e.fDel e.cDel hi.closed⟩

section liveObs
variable (k : Kernel) (h : Nat)
theorem eraseCell_liveC (hh : h < k.nC) (c : Nat) : (k.eraseCell h).liveC c = k.liveC (up h c) := by
  unfold liveC; rw [eraseCell_nC k h hh, eraseCell_cDeleted]
  congr 1; rw [Bool.eq_iff_iff]; simp only [decide_eq_true_eq]; exact (up_lt h c _ hh).symm
theorem eraseFace_liveF (hh : h < k.nF) (c : Nat) : (k.eraseFace h).liveF c = k.liveF (up h c) := by
  unfold liveF; rw [eraseFace_nF k h hh, eraseFace_fDeleted]
  congr 1; rw [Bool.eq_iff_iff]; simp only [decide_eq_true_eq]; exact (up_lt h c _ hh).symm
theorem eraseEdge_liveE (hh : h < k.nE) (c : Nat) : (k.eraseEdge h).liveE c = k.liveE (up h c) := by
  unfold liveE; rw [eraseEdge_nE k h hh, eraseEdge_eDeleted]
  congr 1; rw [Bool.eq_iff_iff]; simp only [decide_eq_true_eq]; exact (up_lt h c _ hh).symm
theorem eraseVertex_vDeleted (v : Nat) : (k.eraseVertex h).vDeleted v = k.vDeleted (up h v) := by
  unfold vDeleted; rw [eraseVertex_vDel, getD_eraseIdx]
end liveObs

theorem gcInv_eraseCell {k : Kernel} {h : Nat} (hi : GCInv k) (hh : h < k.nC) (hd : k.cDeleted h = true) :
    GCInv (k.eraseCell h) := by
  refine ⟨by simpa using hi.deferred, by simpa using hi.fast, wf_eraseCell_dead hi.fast hh hd hi.wf,
    oneCell_eraseCell hh hi.one, ⟨?_, ?_, ?_⟩⟩
  · intro c hl a ha
    rw [eraseCell_liveC k h hh] at hl
    rw [eraseCell_cellAt] at ha
    have := hi.closed.f _ hl a ha
    unfold fDeleted at *; simpa using this
  · intro f hl a ha
    have hl' : k.liveF f = true := by unfold liveF fDeleted nF at *; simpa using hl
    have ha' : a ∈ k.faceAt f := by unfold faceAt at *; simpa using ha
    have := hi.closed.e f hl' a ha'
    unfold eDeleted at *; simpa using this
  · intro e hl
    have hl' : k.liveE e = true := by unfold liveE eDeleted nE at *; simpa using hl
    have := hi.closed.v e hl'
    unfold vDeleted edgeAt at *; simpa using this

theorem unref_of_closed_f {k : Kernel} {h : Nat} (hc : Closed k) (hl : CellsLive k) (hd : k.fDeleted h = true) :
    ∀ c ∈ k.cells, ∀ a ∈ c, eOf a ≠ h := by
  intro c hc' a ha e
  obtain ⟨i, hi, rfl⟩ := List.getElem_of_mem hc'
  have hli : k.liveC i = true := by unfold liveC; simp [show i < k.nC from hi, hl i hi]
  have hci : k.cellAt i = k.cells[i] := by
    unfold cellAt; rw [List.getD_eq_getElem?_getD, List.getElem?_eq_getElem hi]; rfl
  have := hc.f i hli a (by rw [hci]; exact ha)
  rw [e, hd] at this; cases this

theorem unref_of_closed_e {k : Kernel} {h : Nat} (hc : Closed k) (hl : FacesLive k) (hd : k.eDeleted h = true) :
    ∀ c ∈ k.faces, ∀ a ∈ c, eOf a ≠ h := by
  intro c hc' a ha e
  obtain ⟨i, hi, rfl⟩ := List.getElem_of_mem hc'
  have hli : k.liveF i = true := by unfold liveF; simp [show i < k.nF from hi, hl i hi]
  have hci : k.faceAt i = k.faces[i] := by
    unfold faceAt; rw [List.getD_eq_getElem?_getD, List.getElem?_eq_getElem hi]; rfl
  have := hc.e i hli a (by rw [hci]; exact ha)
  rw [e, hd] at this; cases this

theorem unref_of_closed_v {k : Kernel} {h : Nat} (hc : Closed k) (hl : EdgesLive k) (hd : k.vDeleted h = true) :
    ∀ e ∈ k.edges, e.1 ≠ h ∧ e.2 ≠ h := by
  intro c hc'
  obtain ⟨i, hi, rfl⟩ := List.getElem_of_mem hc'
  have hli : k.liveE i = true := by unfold liveE; simp [show i < k.nE from hi, hl i hi]
  have hci : k.edgeAt i = k.edges[i] := by
    unfold edgeAt; rw [List.getD_eq_getElem?_getD, List.getElem?_eq_getElem hi]; rfl
  have := hc.v i hli
  rw [hci] at this
  constructor
  · intro e; rw [e, hd] at this; cases this.1
  · intro e; rw [e, hd] at this; cases this.2

theorem eraseFaceOK_of_gc {k : Kernel} {h : Nat} (hi : GCInv k) (hh : h < k.nF) (hd : k.fDeleted h = true)
    (hl : CellsLive k) : EraseFaceOK k h :=
  ⟨hi.fast, hh, hd, hi.one, hl, unref_of_closed_f hi.closed hl hd⟩

theorem eraseEdgeOK_of_gc {k : Kernel} {h : Nat} (hi : GCInv k) (hh : h < k.nE) (hd : k.eDeleted h = true)
    (hl : FacesLive k) : EraseEdgeOK k h :=
  ⟨hi.fast, hh, hd, hl, unref_of_closed_e hi.closed hl hd⟩

theorem eraseVertexOK_of_gc {k : Kernel} {h : Nat} (hi : GCInv k) (hh : h < k.nV) (hd : k.vDeleted h = true)
    (hl : EdgesLive k) : EraseVertexOK k h :=
  ⟨hh, hl, unref_of_closed_v hi.closed hl hd⟩

theorem gcInv_eraseFace {k : Kernel} {h : Nat} (hi : GCInv k) (ok : EraseFaceOK k h) : GCInv (k.eraseFace h) := by
  refine ⟨by simpa using hi.deferred, by simpa using hi.fast, wf_eraseFace_dead hi.wf ok,
    oneCell_eraseFace hi.wf ok, ⟨?_, ?_, ?_⟩⟩
  · intro c hl a ha
    have hl' : k.liveC c = true := by
      unfold liveC cDeleted nC at *
      rw [eraseFace_cells ok.fast hi.wf ok.one ok.cellsLive ok.unref, List.length_map, eraseFace_cDel] at hl
      exact hl
    rw [eraseFace_cellAt hi.wf ok] at ha
    obtain ⟨a0, ha0, rfl⟩ := List.mem_map.mp ha
    have hne := cellAt_unref ok.unref c a0 ha0
    rw [eraseFace_fDeleted, eOf_corr2 h a0 hne, up_corr1 h _ hne]
    exact hi.closed.f c hl' a0 ha0
  · intro f hl a ha
    rw [eraseFace_liveF k h ok.lt] at hl
    rw [eraseFace_faceAt] at ha
    have := hi.closed.e _ hl a ha
    unfold eDeleted at *; simpa using this
  · intro e hl
    have hl' : k.liveE e = true := by unfold liveE eDeleted nE at *; simpa using hl
    have := hi.closed.v e hl'
    unfold vDeleted edgeAt at *; simpa using this

theorem gcInv_eraseEdge {k : Kernel} {h : Nat} (hi : GCInv k) (ok : EraseEdgeOK k h) : GCInv (k.eraseEdge h) := by
  refine ⟨by simpa using hi.deferred, by simpa using hi.fast, wf_eraseEdge_dead hi.wf ok,
    oneCell_eraseEdge hi.wf ok hi.one, ⟨?_, ?_, ?_⟩⟩
  · intro c hl a ha
    have hl' : k.liveC c = true := by unfold liveC cDeleted nC at *; simpa using hl
    have ha' : a ∈ k.cellAt c := by unfold cellAt at *; simpa using ha
    have := hi.closed.f c hl' a ha'
    unfold fDeleted at *; simpa using this
  · intro f hl a ha
    have hl' : k.liveF f = true := by
      unfold liveF fDeleted nF at *
      rw [eraseEdge_faces hi.wf ok, List.length_map, eraseEdge_fDel] at hl
      exact hl
    rw [eraseEdge_faceAt hi.wf ok] at ha
    obtain ⟨a0, ha0, rfl⟩ := List.mem_map.mp ha
    have hne := faceAt_unref ok.unref f a0 ha0
    rw [eraseEdge_eDeleted, eOf_corr2 h a0 hne, up_corr1 h _ hne]
    exact hi.closed.e f hl' a0 ha0
  · intro e hl
    rw [eraseEdge_liveE k h ok.lt] at hl
    rw [eraseEdge_edgeAt]
    have := hi.closed.v _ hl
    unfold vDeleted at *; simpa using this

theorem gcInv_eraseVertex {k : Kernel} {h : Nat} (hi : GCInv k) (ok : EraseVertexOK k h) : GCInv (k.eraseVertex h) := by
  have hedges := eraseVertex_edges hi.wf ok
  refine ⟨by simpa using hi.deferred, by simpa using hi.fast, wf_eraseVertex hi.wf ok,
    oneCell_eraseVertex hi.one, ⟨?_, ?_, ?_⟩⟩
  · intro c hl a ha
    have hl' : k.liveC c = true := by unfold liveC cDeleted nC at *; simpa using hl
    have ha' : a ∈ k.cellAt c := by unfold cellAt at *; simpa using ha
    have := hi.closed.f c hl' a ha'
    unfold fDeleted at *; simpa using this
  · intro f hl a ha
    have hl' : k.liveF f = true := by unfold liveF fDeleted nF at *; simpa using hl
    have ha' : a ∈ k.faceAt f := by unfold faceAt at *; simpa using ha
    have := hi.closed.e f hl' a ha'
    unfold eDeleted at *; simpa using this
  · intro e hl
    have hl' : k.liveE e = true := by
      unfold liveE eDeleted nE at *
      rw [hedges, List.length_map, eraseVertex_eDel] at hl; exact hl
    have hlt : e < k.nE := by unfold liveE at hl'; simp at hl'; exact hl'.1
    have hu := ok.unref _ (k4_edgeAt_mem hlt)
    rw [eraseVertex_edgeAt hi.wf ok, eraseVertex_vDeleted, eraseVertex_vDeleted, up_corr1 h _ hu.1, up_corr1 h _ hu.2]
    exact hi.closed.v e hl'

/-! ### the four sweeps -/

/-- induction principle for a sweep: `P k m` = "the slots `≥ m` have been handled" -/
theorem gcSweep_induct (P : Kernel → Nat → Prop) (isDel : Kernel → Nat → Bool) (unflag core : Kernel → Nat → Kernel)
    (hstep : ∀ k m, P k (m + 1) → P (if isDel k m then core (unflag k m) m else k) m)
    (n : Nat) (k : Kernel) (h : P k n) : P (gcSweep k n isDel unflag core) 0 := by
  induction n generalizing k with
  | zero => simpa [gcSweep] using h
  | succ m ih =>
    have : gcSweep k (m + 1) isDel unflag core =
        gcSweep (if isDel k m then core (unflag k m) m else k) m isDel unflag core := by
      unfold gcSweep
      rw [List.range_succ, List.reverse_append]
      simp only [List.reverse_cons, List.reverse_nil, List.nil_append, List.cons_append, List.foldl_cons]
    rw [this]
    exact ih _ (hstep k m h)

theorem fanEq_cDeleted {k' k : Kernel} (e : FanEq k' k) (c : Nat) : k'.cDeleted c = k.cDeleted c := by
  unfold cDeleted; rw [e.cDel]
theorem fanEq_fDeleted {k' k : Kernel} (e : FanEq k' k) (c : Nat) : k'.fDeleted c = k.fDeleted c := by
  unfold fDeleted; rw [e.fDel]
theorem fanEq_nC {k' k : Kernel} (e : FanEq k' k) : k'.nC = k.nC := by unfold nC; rw [e.cells]
theorem fanEq_nF {k' k : Kernel} (e : FanEq k' k) : k'.nF = k.nF := by unfold nF; rw [e.faces]

theorem cellsLive_of_eq {k' k : Kernel} (hc : k'.cells.length = k.cells.length) (hd : k'.cDel = k.cDel)
    (h : CellsLive k) : CellsLive k' := by
  intro c hc'; have := h c (by unfold nC at *; omega); unfold cDeleted at *; rw [hd]; exact this
theorem facesLive_of_eq {k' k : Kernel} (hc : k'.faces.length = k.faces.length) (hd : k'.fDel = k.fDel)
    (h : FacesLive k) : FacesLive k' := by
  intro c hc'; have := h c (by unfold nF at *; omega); unfold fDeleted at *; rw [hd]; exact this
theorem edgesLive_of_eq {k' k : Kernel} (hc : k'.edges.length = k.edges.length) (hd : k'.eDel = k.eDel)
    (h : EdgesLive k) : EdgesLive k' := by
  intro c hc'; have := h c (by unfold nE at *; omega); unfold eDeleted at *; rw [hd]; exact this

/-- the cell sweep (cc:750-757) -/
theorem gcInv_sweepCells {k : Kernel} (hi : GCInv k) :
    GCInv (gcSweep k k.nC cDeleted (fun k i => { k with cDel := k.cDel.set i false }) deleteCellCore) ∧
    CellsLive (gcSweep k k.nC cDeleted (fun k i => { k with cDel := k.cDel.set i false }) deleteCellCore) := by
  have := gcSweep_induct (fun k m => GCInv k ∧ m ≤ k.nC ∧ ∀ c, m ≤ c → c < k.nC → k.cDeleted c = false)
    cDeleted (fun k i => { k with cDel := k.cDel.set i false }) deleteCellCore ?_ k.nC k
    ⟨hi, Nat.le_refl _, fun c h1 h2 => by omega⟩
  · exact ⟨this.1, fun c hc => this.2.2 c (Nat.zero_le _) hc⟩
  · intro k m ⟨hi, hm, hl⟩
    by_cases hd : k.cDeleted m = true
    · simp only [hd, if_true]
      obtain ⟨k3, e3, heq⟩ := gcCellStep (h := m) hi.deferred hi.fast hi.wf hd
      rw [heq]
      have hi3 := GCInv.of_fanEq e3 hi
      have hm3 : m < k3.nC := by rw [fanEq_nC e3]; omega
      refine ⟨gcInv_eraseCell hi3 hm3 (by rw [fanEq_cDeleted e3]; exact hd), ?_, ?_⟩
      · rw [eraseCell_nC k3 m hm3, fanEq_nC e3]; omega
      · intro c h1 h2
        rw [eraseCell_nC k3 m hm3, fanEq_nC e3] at h2
        rw [eraseCell_cDeleted, fanEq_cDeleted e3]
        have : up m c = c + 1 := by unfold up; split <;> omega
        rw [this]; exact hl (c + 1) (by omega) (by omega)
    · simp only [hd, Bool.false_eq_true, if_false]
      refine ⟨hi, by omega, fun c h1 h2 => ?_⟩
      rcases Nat.eq_or_lt_of_le h1 with e | e
      · subst e; simpa using hd
      · exact hl c e h2

/-- the face sweep (cc:759-766), after the cell sweep -/
theorem gcInv_sweepFaces {k : Kernel} (hi : GCInv k) (hc : CellsLive k) :
    GCInv (gcSweep k k.nF fDeleted (fun k i => { k with fDel := k.fDel.set i false }) deleteFaceCore) ∧
    CellsLive (gcSweep k k.nF fDeleted (fun k i => { k with fDel := k.fDel.set i false }) deleteFaceCore) ∧
    FacesLive (gcSweep k k.nF fDeleted (fun k i => { k with fDel := k.fDel.set i false }) deleteFaceCore) := by
  have := gcSweep_induct (fun k m => GCInv k ∧ CellsLive k ∧ m ≤ k.nF ∧ ∀ c, m ≤ c → c < k.nF → k.fDeleted c = false)
    fDeleted (fun k i => { k with fDel := k.fDel.set i false }) deleteFaceCore ?_ k.nF k
    ⟨hi, hc, Nat.le_refl _, fun c h1 h2 => by omega⟩
  · exact ⟨this.1, this.2.1, fun c hc => this.2.2.2 c (Nat.zero_le _) hc⟩
  · intro k m ⟨hi, hc, hm, hl⟩
    by_cases hd : k.fDeleted m = true
    · simp only [hd, if_true]
      obtain ⟨k3, e3, heq⟩ := gcFaceStep (h := m) hi.deferred hi.fast hi.wf hd
      rw [heq]
      have hi3 := GCInv.of_fanEq e3 hi
      have hm3 : m < k3.nF := by rw [fanEq_nF e3]; omega
      have hc3 : CellsLive k3 := cellsLive_of_eq (by rw [e3.cells]) e3.cDel hc
      have ok := eraseFaceOK_of_gc hi3 hm3 (by rw [fanEq_fDeleted e3]; exact hd) hc3
      refine ⟨gcInv_eraseFace hi3 ok, ?_, ?_, ?_⟩
      · exact cellsLive_of_eq (by rw [eraseFace_cells ok.fast hi3.wf ok.one ok.cellsLive ok.unref, List.length_map])
          (by simp) hc3
      · rw [eraseFace_nF k3 m hm3, fanEq_nF e3]; omega
      · intro c h1 h2
        rw [eraseFace_nF k3 m hm3, fanEq_nF e3] at h2
        rw [eraseFace_fDeleted, fanEq_fDeleted e3]
        have : up m c = c + 1 := by unfold up; split <;> omega
        rw [this]; exact hl (c + 1) (by omega) (by omega)
    · simp only [hd, Bool.false_eq_true, if_false]
      refine ⟨hi, hc, by omega, fun c h1 h2 => ?_⟩
      rcases Nat.eq_or_lt_of_le h1 with e | e
      · subst e; simpa using hd
      · exact hl c e h2

/-- the edge sweep (cc:768-775), after the face sweep -/
theorem gcInv_sweepEdges {k : Kernel} (hi : GCInv k) (hc : CellsLive k) (hfl : FacesLive k) :
    GCInv (gcSweep k k.nE eDeleted (fun k i => { k with eDel := k.eDel.set i false }) deleteEdgeCore) ∧
    CellsLive (gcSweep k k.nE eDeleted (fun k i => { k with eDel := k.eDel.set i false }) deleteEdgeCore) ∧
    FacesLive (gcSweep k k.nE eDeleted (fun k i => { k with eDel := k.eDel.set i false }) deleteEdgeCore) ∧
    EdgesLive (gcSweep k k.nE eDeleted (fun k i => { k with eDel := k.eDel.set i false }) deleteEdgeCore) := by
  have := gcSweep_induct (fun k m => GCInv k ∧ CellsLive k ∧ FacesLive k ∧ m ≤ k.nE ∧
      ∀ c, m ≤ c → c < k.nE → k.eDeleted c = false)
    eDeleted (fun k i => { k with eDel := k.eDel.set i false }) deleteEdgeCore ?_ k.nE k
    ⟨hi, hc, hfl, Nat.le_refl _, fun c h1 h2 => by omega⟩
  · exact ⟨this.1, this.2.1, this.2.2.1, fun c hc => this.2.2.2.2 c (Nat.zero_le _) hc⟩
  · intro k m ⟨hi, hc, hfl, hm, hl⟩
    by_cases hd : k.eDeleted m = true
    · simp only [hd, if_true]
      rw [gcEdgeStep (h := m) hi.deferred hi.fast hi.wf hd]
      have hm3 : m < k.nE := by omega
      have ok := eraseEdgeOK_of_gc hi hm3 hd hfl
      refine ⟨gcInv_eraseEdge hi ok, ?_, ?_, ?_, ?_⟩
      · exact cellsLive_of_eq (by simp) (by simp) hc
      · exact facesLive_of_eq (by rw [eraseEdge_faces hi.wf ok, List.length_map]) (by simp) hfl
      · rw [eraseEdge_nE k m hm3]; omega
      · intro c h1 h2
        rw [eraseEdge_nE k m hm3] at h2
        rw [eraseEdge_eDeleted]
        have : up m c = c + 1 := by unfold up; split <;> omega
        rw [this]; exact hl (c + 1) (by omega) (by omega)
    · simp only [hd, Bool.false_eq_true, if_false]
      refine ⟨hi, hc, hfl, by omega, fun c h1 h2 => ?_⟩
      rcases Nat.eq_or_lt_of_le h1 with e | e
      · subst e; simpa using hd
      · exact hl c e h2

/-- the vertex sweep (cc:777-784), after the edge sweep -/
theorem gcInv_sweepVerts {k : Kernel} (hi : GCInv k) (hc : CellsLive k) (hfl : FacesLive k) (hel : EdgesLive k) :
    GCInv (gcSweep k k.nV vDeleted (fun k i => { k with vDel := k.vDel.set i false }) deleteVertexCore) ∧
    CellsLive (gcSweep k k.nV vDeleted (fun k i => { k with vDel := k.vDel.set i false }) deleteVertexCore) ∧
    FacesLive (gcSweep k k.nV vDeleted (fun k i => { k with vDel := k.vDel.set i false }) deleteVertexCore) ∧
    EdgesLive (gcSweep k k.nV vDeleted (fun k i => { k with vDel := k.vDel.set i false }) deleteVertexCore) ∧
    VertsLive (gcSweep k k.nV vDeleted (fun k i => { k with vDel := k.vDel.set i false }) deleteVertexCore) := by
  have := gcSweep_induct (fun k m => GCInv k ∧ CellsLive k ∧ FacesLive k ∧ EdgesLive k ∧ m ≤ k.nV ∧
      ∀ c, m ≤ c → c < k.nV → k.vDeleted c = false)
    vDeleted (fun k i => { k with vDel := k.vDel.set i false }) deleteVertexCore ?_ k.nV k
    ⟨hi, hc, hfl, hel, Nat.le_refl _, fun c h1 h2 => by omega⟩
  · exact ⟨this.1, this.2.1, this.2.2.1, this.2.2.2.1, fun c hc => this.2.2.2.2.2 c (Nat.zero_le _) hc⟩
  · intro k m ⟨hi, hc, hfl, hel, hm, hl⟩
    by_cases hd : k.vDeleted m = true
    · simp only [hd, if_true]
      rw [gcVertexStep (h := m) hi.deferred hi.fast]
      have hm3 : m < k.nV := by omega
      have ok := eraseVertexOK_of_gc hi hm3 hd hel
      refine ⟨gcInv_eraseVertex hi ok, ?_, ?_, ?_, ?_, ?_⟩
      · exact cellsLive_of_eq (by simp) (by simp) hc
      · exact facesLive_of_eq (by simp) (by simp) hfl
      · exact edgesLive_of_eq (by rw [eraseVertex_edges hi.wf ok, List.length_map]) (by simp) hel
      · rw [eraseVertex_nV]; omega
      · intro c h1 h2
        rw [eraseVertex_nV] at h2
        rw [eraseVertex_vDeleted]
        have : up m c = c + 1 := by unfold up; split <;> omega
        rw [this]; exact hl (c + 1) (by omega) (by omega)
    · simp only [hd, Bool.false_eq_true, if_false]
      refine ⟨hi, hc, hfl, hel, by omega, fun c h1 h2 => ?_⟩
      rcases Nat.eq_or_lt_of_le h1 with e | e
      · subst e; simpa using hd
      · exact hl c e h2

/-! ### `collect_garbage` -/

theorem gcInv_congr {k' k : Kernel} (hnV : k'.nV = k.nV) (he : k'.edges = k.edges) (hf : k'.faces = k.faces)
    (hc : k'.cells = k.cells) (hvd : k'.vDel = k.vDel) (hed : k'.eDel = k.eDel) (hfd : k'.fDel = k.fDel)
    (hcd : k'.cDel = k.cDel) (hdf : k'.deferred = k.deferred) (hfa : k'.fast = k.fast) (hvb : k'.vBU = k.vBU)
    (heb : k'.eBU = k.eBU) (hfb : k'.fBU = k.fBU) (ho : k'.outHes = k.outHes) (hih : k'.incHfs = k.incHfs)
    (hic : k'.incCell = k.incCell) (hp : k'.props = k.props) (hi : GCInv k) : GCInv k' :=
  GCInv.of_fanEq (FanEq.of_eq hnV he hf hc hvd hed hfd hcd hdf hfa hvb heb hfb ho hic hp hih) hi

/-- what `collect_garbage` leaves behind -/
structure Collected (k : Kernel) : Prop where
  wf : WF k
  one : k.oneCell = true
  closed : Closed k
  cells : CellsLive k
  faces : FacesLive k
  edges : EdgesLive k
  verts : VertsLive k

/-- **`collect_garbage` in index-shifting (non-fast) mode keeps `WF` and `oneCell` and leaves no flagged
    entity** (cc:743-788), provided the flags are closure-consistent (`Closed`) -/
theorem collected_collectGarbage {k : Kernel} (hd : k.deferred = true) (hg : k.needsGC = true) (hf : k.fast = false)
    (hw : WF k) (h1 : k.oneCell = true) (hc : Closed k) : Collected k.collectGarbage := by
  have hcg : k.collectGarbage =
      { gcVerts (gcEdges (gcFaces (gcCells { k with deferred := false }))) with deferred := true } := by
    unfold collectGarbage; simp [hd, hg]
  rw [hcg]
  have hk0 : GCInv ({ k with deferred := false } : Kernel) :=
    ⟨rfl, hf, wf_of_fans_perm (k := k) (k' := { k with deferred := false }) rfl rfl rfl rfl rfl rfl rfl rfl rfl rfl rfl
        rfl rfl rfl rfl (fun _ => List.Perm.refl _) hw,
     oneCell_of_same (k := k) (k' := { k with deferred := false }) rfl rfl rfl h1,
     closed_of_eq (k := k) (k' := { k with deferred := false }) rfl rfl rfl rfl rfl rfl rfl rfl hc⟩
  generalize ({ k with deferred := false } : Kernel) = k0 at hk0
  have s1 := gcInv_sweepCells hk0
  have i1 : GCInv (gcCells k0) := gcInv_congr (k := gcSweep k0 k0.nC cDeleted _ deleteCellCore) (k' := gcCells k0)
    rfl rfl rfl rfl rfl rfl rfl rfl rfl rfl rfl rfl rfl rfl rfl rfl rfl s1.1
  have c1 : CellsLive (gcCells k0) :=
    cellsLive_of_eq (k := gcSweep k0 k0.nC cDeleted _ deleteCellCore) (k' := gcCells k0) rfl rfl s1.2
  generalize gcCells k0 = k1 at i1 c1
  have s2 := gcInv_sweepFaces i1 c1
  have i2 : GCInv (gcFaces k1) := gcInv_congr (k := gcSweep k1 k1.nF fDeleted _ deleteFaceCore) (k' := gcFaces k1)
    rfl rfl rfl rfl rfl rfl rfl rfl rfl rfl rfl rfl rfl rfl rfl rfl rfl s2.1
  have c2 : CellsLive (gcFaces k1) :=
    cellsLive_of_eq (k := gcSweep k1 k1.nF fDeleted _ deleteFaceCore) (k' := gcFaces k1) rfl rfl s2.2.1
  have f2 : FacesLive (gcFaces k1) :=
    facesLive_of_eq (k := gcSweep k1 k1.nF fDeleted _ deleteFaceCore) (k' := gcFaces k1) rfl rfl s2.2.2
  generalize gcFaces k1 = k2 at i2 c2 f2
  have s3 := gcInv_sweepEdges i2 c2 f2
  have i3 : GCInv (gcEdges k2) := gcInv_congr (k := gcSweep k2 k2.nE eDeleted _ deleteEdgeCore) (k' := gcEdges k2)
    rfl rfl rfl rfl rfl rfl rfl rfl rfl rfl rfl rfl rfl rfl rfl rfl rfl s3.1
  have c3 : CellsLive (gcEdges k2) :=
    cellsLive_of_eq (k := gcSweep k2 k2.nE eDeleted _ deleteEdgeCore) (k' := gcEdges k2) rfl rfl s3.2.1
  have f3 : FacesLive (gcEdges k2) :=
    facesLive_of_eq (k := gcSweep k2 k2.nE eDeleted _ deleteEdgeCore) (k' := gcEdges k2) rfl rfl s3.2.2.1
  have e3 : EdgesLive (gcEdges k2) :=
    edgesLive_of_eq (k := gcSweep k2 k2.nE eDeleted _ deleteEdgeCore) (k' := gcEdges k2) rfl rfl s3.2.2.2
  generalize gcEdges k2 = k3 at i3 c3 f3 e3
  have s4 := gcInv_sweepVerts i3 c3 f3 e3
  generalize hk4 : gcSweep k3 k3.nV vDeleted (fun k i => { k with vDel := k.vDel.set i false }) deleteVertexCore = k4 at s4
  have hgv : gcVerts k3 = { k4 with nDelV := 0 } := by unfold gcVerts; rw [hk4]
  rw [hgv]
  exact ⟨wf_of_fans_perm (k := k4) rfl rfl rfl rfl rfl rfl rfl rfl rfl rfl rfl rfl rfl rfl rfl (fun _ => List.Perm.refl _) s4.1.wf,
    oneCell_of_same (k := k4) rfl rfl rfl s4.1.one, closed_of_eq (k := k4) rfl rfl rfl rfl rfl rfl rfl rfl s4.1.closed,
    cellsLive_of_eq (k := k4) rfl rfl s4.2.1, facesLive_of_eq (k := k4) rfl rfl s4.2.2.1,
    edgesLive_of_eq (k := k4) rfl rfl s4.2.2.2.1, fun v hv => s4.2.2.2.2 v hv⟩

/-- `collect_garbage` always keeps `WF ∧ oneCell ∧ Closed` in non-fast mode (it is the identity when
    deferred deletion is off or nothing is pending) -/
theorem wf_collectGarbage {k : Kernel} (hf : k.fast = false) (hw : WF k) (h1 : k.oneCell = true) (hc : Closed k) :
    WF k.collectGarbage ∧ k.collectGarbage.oneCell = true ∧ Closed k.collectGarbage := by
  by_cases hd : k.deferred = true
  · by_cases hg : k.needsGC = true
    · have := collected_collectGarbage hd hg hf hw h1 hc
      exact ⟨this.wf, this.one, this.closed⟩
    · have : k.collectGarbage = k := by unfold collectGarbage; simp [hg]
      rw [this]; exact ⟨hw, h1, hc⟩
  · have : k.collectGarbage = k := by unfold collectGarbage; simp [hd]
    rw [this]; exact ⟨hw, h1, hc⟩

/-! ## immediate deletion in index-shifting mode: `delete_*_core` on a (live) entity -/

theorem getD_set_true (l : List Bool) (h : Nat) (hh : h < l.length) : (l.set h true).getD h false = true := by
  rw [ScanDel.getD_set]; simp [hh]

/-- unlink + flag of a cell keeps `WF` (the deferred-mode statement of CacheDelete.lean, without the mode) -/
theorem wf_unlinkMarkCell {k : Kernel} (h : Nat) (hw : WF k) (h1 : k.oneCell = true) :
    WF ({ k.unlinkCell h with cDel := k.cDel.set h true } : Kernel) := by
  have hlenC := hw.len.cDel
  refine ⟨lenInv_of_shape (k.unlinkCell h) _ (lenInv_unlinkCell k h hw.len) rfl rfl rfl rfl rfl rfl rfl (by simp)
      rfl rfl rfl rfl rfl rfl rfl, rangeInv_of_eq (k := k) (by simp) (by simp) (by simp) (by simp) hw.range, ⟨?_, ?_, ?_⟩⟩
  · exact cacheInvV_of_eq (k := k) (by simp) (by simp) (by simp) (by simp) (by simp) hw.cache.v
  · intro hb
    have hb' : k.eBU = true := by simpa using hb
    obtain ⟨hlen, hs⟩ := hw.cache.e hb'
    have hn : ({ k.unlinkCell h with cDel := k.cDel.set h true } : Kernel).nHE = k.nHE := by unfold nHE; simp
    refine ⟨by rw [hn]; show (k.unlinkCell h).incHfs.length = _; rw [unlinkCell_incHfs_length]; exact hlen, fun y hy => ?_⟩
    rw [hn] at hy
    rw [sHfsOfHe_of_eq (k := k) (by simp) (by simp)]
    exact (unlinkCell_hfsOf_perm' h (slotMirror_cond hw) y).trans (hs y hy)
  · by_cases hbf : k.fBU = true
    · apply cacheInvF_remove_cell (k := k) h hw.cache.f h1 (by simp) (by unfold nHF; simp)
        (by show (k.unlinkCell h).incCell.length = _; exact unlinkCell_incCell_length k _)
      · intro x; exact unlinkCell_cellOf k h x hbf
      · intro c
        unfold liveC cDeleted nC
        simp only [unlinkCell_cells, ScanDel.getD_set]
        by_cases hh : h = c
        · subst hh
          by_cases hc : h < k.cells.length
          · have : h < k.cDel.length := by rw [hlenC]; exact hc
            simp [this]
          · simp [hc]
        · have : c ≠ h := fun x => hh x.symm
          simp [hh, this]
      · intro c _; exact cellAt_of_eq (by simp) c
    · intro hb; simp at hb; exact absurd hb hbf

/-- **immediate `delete_cell_core` with index shifting keeps `WF` and `oneCell`** (cc:1359-1429, non-fast) -/
theorem wf_deleteCellCore_shift {k : Kernel} {h : Nat} (hd : k.deferred = false) (hf : k.fast = false)
    (hh : h < k.nC) (hw : WF k) (h1 : k.oneCell = true) :
    WF (k.deleteCellCore h) ∧ (k.deleteCellCore h).oneCell = true := by
  rw [deleteCellCore_shift_eq h hd hf]
  constructor
  · have hw3 := wf_unlinkMarkCell h hw h1
    have := wf_eraseCell_dead (k := { k.unlinkCell h with cDel := k.cDel.set h true }) (h := h) (by simpa using hf)
      (by unfold nC at *; simpa using hh) (by unfold cDeleted; exact getD_set_true _ _ (by rw [hw.len.cDel]; exact hh)) hw3
    rwa [eraseCell_congr_cDel _ h _ (by rw [unlinkCell_cDel, k4_eraseIdx_set_same])] at this
  · exact oneCell_eraseCell (by unfold nC at *; simpa using hh) (oneCell_of_same (by simp) (by simp) (by simp) h1)

/-- unlink + flag of a face keeps `WF` (as `cacheInvE_deleteFaceCore_deferred`, without the mode) -/
theorem wf_unlinkMarkFace {k : Kernel} (h : Nat) (hw : WF k) :
    WF ({ k.unlinkFace h with fDel := k.fDel.set h true } : Kernel) := by
  refine ⟨lenInv_of_shape (k.unlinkFace h) _ (lenInv_unlinkFace k h hw.len) rfl rfl rfl rfl rfl rfl (by simp) rfl
      rfl rfl rfl rfl rfl rfl rfl, rangeInv_of_eq (k := k) (by simp) (by simp) (by simp) (by simp) hw.range, ⟨?_, ?_, ?_⟩⟩
  · exact cacheInvV_of_eq (k := k) (by simp) (by simp) (by simp) (by simp) (by simp) hw.cache.v
  · intro hb
    have hb' : k.eBU = true := by simpa using hb
    obtain ⟨hlen, hs⟩ := hw.cache.e hb'
    have hn : ({ k.unlinkFace h with fDel := k.fDel.set h true } : Kernel).nHE = k.nHE := by unfold nHE; simp
    refine ⟨by rw [hn]; show (k.unlinkFace h).incHfs.length = _; rw [unlinkFace_incHfs_length]; exact hlen, fun y hy => ?_⟩
    rw [hn] at hy
    have hscan : ({ k.unlinkFace h with fDel := k.fDel.set h true } : Kernel).sHfsOfHe y =
        (k.sHfsOfHe y).filter (fun x => eOf x != h) := by
      rw [sHfsOfHe_eq, sHfsOfHe_eq]
      have h1 : ({ k.unlinkFace h with fDel := k.fDel.set h true } : Kernel).liveFaces = k.liveFaces.filter (· != h) := by
        unfold liveFaces fDeleted nF
        simp only [unlinkFace_faces]
        exact liveFaces_flag k h hw.len.fDel
      have h2 : ({ k.unlinkFace h with fDel := k.fDel.set h true } : Kernel).hfBlock y = k.hfBlock y := by
        funext f; unfold hfBlock hfHes faceAt; simp
      rw [h1, h2]
      exact (filter_flatMap_key k.liveFaces (k.hfBlock y) eOf (· != h) (hfBlock_eOf k y)).symm
    rw [hscan]
    have hsub0 : SlotSub h k k := fun y => ⟨fun _ => true, fun _ _ => rfl, by
      rw [List.filter_eq_self.mpr (fun _ _ => rfl)]⟩
    have hfold := unlinkFace_fold h k (k.faceAt h) k (slotMirror_of_cacheInvE hw.cache.e hb') hsub0
    have hunl : k.unlinkFace h = (k.faceAt h).foldl (unlinkFaceStep h) k := by unfold unlinkFace; simp [hb']
    rw [← hunl] at hfold
    obtain ⟨_, hsub, hgone, _⟩ := hfold
    show ((k.unlinkFace h).hfsOf y).Perm _
    obtain ⟨P, hP, hperm⟩ := hsub y
    have hPeq : (k.hfsOf y).filter P = (k.hfsOf y).filter (fun x => eOf x != h) := by
      apply List.filter_congr
      intro x hx
      by_cases hxe : eOf x = h
      · have hr : (eOf x != h) = false := by simp [hxe]
        rw [hr]
        cases hPx : P x with
        | false => rfl
        | true =>
          exfalso
          have hxm : x ∈ (k.unlinkFace h).hfsOf y := hperm.mem_iff.mpr (List.mem_filter.mpr ⟨hx, hPx⟩)
          have hyx : y ∈ k.hfHes x := ((mem_sHfsOfHe k y x).mp ((hs y hy).mem_iff.mp hx)).2
          have hcase : x = 2 * h ∨ x = 2 * h + 1 := by unfold eOf at hxe; omega
          rcases hcase with e | e
          · subst e
            rw [hfHes_two_mul] at hyx
            exact (hgone y hyx).1 hxm
          · subst e
            rw [hfHes_two_mul_succ] at hyx
            unfold oppFace at hyx
            simp only [List.mem_map, List.mem_reverse] at hyx
            obtain ⟨he, hhe, rfl⟩ := hyx
            exact (hgone he hhe).2 hxm
      · have hr : (eOf x != h) = true := by simp [hxe]
        rw [hr]; exact hP x hxe
    rw [hPeq] at hperm
    exact hperm.trans ((hs y hy).filter _)
  · exact cacheInvF_of_eq (k := k) (by simp) (by simp) (by simp) (by simp) (by simp) hw.cache.f

/-- **immediate `delete_face_core` with index shifting keeps `WF` and `oneCell`** (cc:1206-1340, non-fast),
    when every cell is live and no stored cell uses the face (its upward closure is already gone) -/
theorem wf_deleteFaceCore_shift {k : Kernel} {h : Nat} (hd : k.deferred = false) (hf : k.fast = false)
    (hh : h < k.nF) (hw : WF k) (h1 : k.oneCell = true) (hcl : CellsLive k)
    (hun : ∀ c ∈ k.cells, ∀ a ∈ c, eOf a ≠ h) :
    WF (k.deleteFaceCore h) ∧ (k.deleteFaceCore h).oneCell = true := by
  rw [deleteFaceCore_shift_eq h hd hf]
  have hw3 := wf_unlinkMarkFace h hw
  have ok : EraseFaceOK ({ k.unlinkFace h with fDel := k.fDel.set h true } : Kernel) h :=
    ⟨by simpa using hf, by unfold nF at *; simpa using hh,
     by unfold fDeleted; exact getD_set_true _ _ (by rw [hw.len.fDel]; exact hh),
     oneCell_of_same (k := k) (by simp) (by simp) (by simp) h1,
     cellsLive_of_eq (k := k) (by simp) (by simp) hcl, by simpa using hun⟩
  have e := eraseFace_congr_fDel (k.unlinkFace h) h (k.fDel.set h true) (by rw [unlinkFace_fDel, k4_eraseIdx_set_same])
  rw [← e]
  exact ⟨wf_eraseFace_dead hw3 ok, oneCell_eraseFace hw3 ok⟩

/-- unlink + flag of an edge keeps `WF` -/
theorem wf_unlinkMarkEdge {k : Kernel} (h : Nat) (hw : WF k) :
    WF ({ k.unlinkEdge h with eDel := k.eDel.set h true } : Kernel) := by
  have hwf : WF ((k.unlinkEdge h).flagEdge h) :=
    ⟨lenInv_flagEdge _ h (lenInv_unlinkEdge k h hw.len),
     rangeInv_of_eq (by simp) (by simp) (by simp) (by simp) hw.range,
     ⟨cacheInvV_unlinkFlagEdge h hw.len.eDel hw.cache.v,
      cacheInvE_of_eq (by simp) (by simp) (by simp) (by simp) (by simp) hw.cache.e,
      cacheInvF_of_eq (by simp) (by simp) (by simp) (by simp) (by simp) hw.cache.f⟩⟩
  exact wf_of_fans_perm (k := (k.unlinkEdge h).flagEdge h) rfl rfl rfl rfl rfl (by simp) rfl rfl rfl rfl rfl rfl rfl rfl rfl
    (fun _ => List.Perm.refl _) hwf

/-- **immediate `delete_edge_core` with index shifting keeps `WF` and `oneCell`** (cc:1041-1183, non-fast),
    when every face is live and no stored face uses the edge -/
theorem wf_deleteEdgeCore_shift {k : Kernel} {h : Nat} (hd : k.deferred = false) (hf : k.fast = false)
    (hh : h < k.nE) (hw : WF k) (h1 : k.oneCell = true) (hfl : FacesLive k)
    (hun : ∀ c ∈ k.faces, ∀ a ∈ c, eOf a ≠ h) :
    WF (k.deleteEdgeCore h) ∧ (k.deleteEdgeCore h).oneCell = true := by
  rw [deleteEdgeCore_shift_eq h hd hf]
  have hw3 := wf_unlinkMarkEdge h hw
  have ok : EraseEdgeOK ({ k.unlinkEdge h with eDel := k.eDel.set h true } : Kernel) h :=
    ⟨by simpa using hf, by unfold nE at *; simpa using hh,
     by unfold eDeleted; exact getD_set_true _ _ (by rw [hw.len.eDel]; exact hh),
     facesLive_of_eq (k := k) (by simp) (by simp) hfl, by simpa using hun⟩
  have e := eraseEdge_flag_irrelevant (k.unlinkEdge h) h true
  rw [unlinkEdge_eDel] at e
  rw [← e]
  exact ⟨wf_eraseEdge_dead hw3 ok, oneCell_eraseEdge hw3 ok (oneCell_of_same (k := k) (by simp) (by simp) (by simp) h1)⟩

/-- **immediate `delete_vertex_core` with index shifting keeps `WF` and `oneCell`** (cc:936-1018, non-fast),
    when every edge is live and no stored edge touches the vertex -/
theorem wf_deleteVertexCore_shift {k : Kernel} {h : Nat} (hd : k.deferred = false) (hf : k.fast = false)
    (hh : h < k.nV) (hw : WF k) (h1 : k.oneCell = true) (hel : EdgesLive k)
    (hun : ∀ e ∈ k.edges, e.1 ≠ h ∧ e.2 ≠ h) :
    WF (k.deleteVertexCore h) ∧ (k.deleteVertexCore h).oneCell = true := by
  rw [deleteVertexCore_shift_eq h hd hf]
  exact ⟨wf_eraseVertex hw ⟨hh, hel, hun⟩, oneCell_eraseVertex h1⟩

/-! ### `Closed` is a real precondition of `collect_garbage` (TEST: `decide` on one concrete history)
    enable_fast_deletion(false); add_n_vertices(2); delete_vertex(1) [deferred]; add_edge(0,1) — an edge onto a
    deferred-deleted vertex, which neither the model nor add_edge (cc:113-169, only `assert`s) refuses;
    collect_garbage then renames the endpoint `1` of the live edge to `0` (cc:965-978: `VertexHandle(i-1)`) and
    drops slot 1 of `outgoing_hes_per_vertex_`: the edge becomes (0,0) but slot 0 only holds halfedge 0. -/
example :
    let k : Kernel := (((({} : Kernel).enableFast false).addNVertices 2).deleteVertex 1).addEdge 0 1 false |>.1
    k.cacheInvB = true ∧ k.oneCell = true ∧ k.collectGarbage.edges = [(0, 0)] ∧
    k.collectGarbage.outHes = [[0]] ∧ k.collectGarbage.cacheInvB = false := by decide

end Kernel
end OVM

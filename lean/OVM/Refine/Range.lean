import OVM.Refine.Inv
/-
  `RangeInv`: every stored handle designates an existing slot (the `WF` range part of DESIGN.md §3).
  Shared by the cache-invariant preservation proofs (OVM/Refine/Cache*.lean).
-/
namespace OVM
namespace Kernel

structure RangeInv (k : Kernel) : Prop where
  edges : ∀ e ∈ k.edges, e.1 < k.nV ∧ e.2 < k.nV
  faces : ∀ f ∈ k.faces, ∀ h ∈ f, h < k.nHE
  cells : ∀ c ∈ k.cells, ∀ h ∈ c, h < k.nHF

theorem rangeInv_empty : RangeInv ({} : Kernel) := by
  constructor <;> intro x hx <;> simp at hx

/-- the three invariants the refinement proofs carry together -/
structure WF (k : Kernel) : Prop where
  len : LenInv k
  range : RangeInv k
  cache : CacheInv k

theorem wf_empty : WF ({} : Kernel) := ⟨lenInv_empty, rangeInv_empty, cacheInv_empty⟩

end Kernel
end OVM

import OVM.Refine.RotInvImmFast
/-
  RotInv, part 15 (builder R1): ONE operation of the driver vocabulary (`Kernel.step`) keeps the rotational-order
  invariant, on top of the global invariant `Global.GInv` and for valid arguments `Global.OpOK` — every operation
  except `set_face` / `set_cell` (outside the property: "the code documents that they do not reorder"), in every
  deletion mode and every bottom-up configuration; histories; reachable states; and the statement for E1's
  `Fan.SingleFan` and every valence.
-/
namespace OVM
namespace Kernel
namespace Rot
open Fan CellCheck ScanDel

/-! ### edges with fewer than two cached halffaces -/

/-- the rotation successor of anything is a live halfface around the same halfedge: it is in the slot -/
theorem next_mem_slot {k : Kernel} (hw : WF k) (hc : Closed k) (hbe : k.eBU = true) {he z x : Nat}
    (h : k.sFanNext he z = some x) : x ∈ k.hfsOf he := by
  -- unfold the successor: `x = opp a` with `a` a halfface of a live cell containing `opp he`
  have hspec : ∃ c, k.liveC c = true ∧ opp x ∈ k.cellAt c ∧ opp he ∈ k.hfHes (opp x) := by
    unfold Kernel.sFanNext at h
    cases hcz : k.sCellOf z with
    | none => rw [hcz] at h; cases h
    | some c =>
      rw [hcz] at h
      simp only at h
      cases ha : k.sAdj c z he with
      | none => rw [ha] at h; cases h
      | some a =>
        rw [ha] at h
        simp only [Option.map_some, Option.some.injEq] at h
        refine ⟨c, (Kernel.sCellOf_some hcz).1, ?_⟩
        rw [← h, opp_opp]
        unfold Kernel.sAdj at ha
        split at ha
        · rename_i y hy
          injection ha with ha; subst ha
          have : y ∈ List.filter (fun x => x != z && x != opp z && (k.hfHes x).contains (opp he)) (k.cellAt c) := by
            rw [hy]; exact List.mem_singleton.mpr rfl
          have hm := List.mem_filter.mp this
          refine ⟨hm.1, ?_⟩
          have := hm.2
          simp only [Bool.and_eq_true, List.contains_iff_mem] at this
          exact this.2
        · cases ha
  obtain ⟨c, hl, hm, hhe⟩ := hspec
  have hhe' : he ∈ k.hfHes x := by
    have := (mem_hfHes_opp k (opp x) (opp he)).mpr hhe
    rwa [opp_opp, opp_opp] at this
  have hlive : k.liveF (eOf x) = true := by
    have hd := hc.f c hl _ hm
    have hr := hw.range.cells _ (cellAt_mem_cells (liveC_lt hl)) _ hm
    rw [eOf_opp] at hd
    have hr' : x < k.nHF := by unfold nHF at *; rw [← opp_lt_two_mul]; exact hr
    unfold liveF nF nHF eOf at *
    simp only [Bool.and_eq_true, decide_eq_true_eq, Bool.not_eq_true']
    exact ⟨by omega, hd⟩
  have hlt : he < k.nHE := by
    obtain ⟨h', hh', he'⟩ := he_in_face hhe'
    have := hw.range.faces _ (faceAt_mem_faces (liveF_lt hlive)) h' hh'
    unfold nHE eOf at *; omega
  exact ((hw.cache.e hbe).2 he hlt).mem_iff.mpr ((mem_sHfsOfHe k he x).mpr ⟨hlive, hhe'⟩)

/-- **an edge with at most one cached halfface is in rotational order** (no history needed: `WF` and `Closed`) -/
theorem fanOrdered_small {k : Kernel} (hw : WF k) (hc : Closed k) (hbe : k.eBU = true) (e : Nat)
    (hlen : (k.hfsOf (heOf e 0)).length < 2) : FanOrdered k e := by
  have hm := slotMirror_of_cacheInvE hw.cache.e hbe (heOf e 0)
  rw [← heOf_one] at hm
  unfold FanOrdered
  cases hl : k.hfsOf (heOf e 0) with
  | nil =>
    rw [hl] at hm
    refine ⟨fun i hi => by simp at hi, Or.inl ?_, ?_⟩
    · cases hn : k.sFanNext (heOf e 0) (([] : List Nat).getD (([] : List Nat).length - 1) 0) with
      | none => rfl
      | some y => have := next_mem_slot hw hc hbe hn; rw [hl] at this; cases this
    · have := hm.length_eq; simp at this; rw [this]; rfl
  | cons x t =>
    cases t with
    | cons y u => rw [hl] at hlen; simp at hlen; omega
    | nil =>
      rw [hl] at hm
      refine ⟨fun i hi => by simp at hi, ?_, ?_⟩
      · cases hn : k.sFanNext (heOf e 0) ([x].getD ([x].length - 1) 0) with
        | none => exact Or.inl rfl
        | some y =>
          have := next_mem_slot hw hc hbe hn
          rw [hl, List.mem_singleton] at this
          right; rw [this]; rfl
      · have hlen1 := hm.length_eq
        simp only [List.map_cons, List.map_nil, List.length_singleton] at hlen1
        cases hq : k.hfsOf (heOf e 1) with
        | nil => rw [hq] at hlen1; simp at hlen1
        | cons a r =>
          rw [hq] at hlen1 hm
          have hr : r = [] := by
            simp only [List.length_cons] at hlen1
            exact List.eq_nil_of_length_eq_zero (by omega)
          subst hr
          have : a ∈ [opp x] := hm.mem_iff.mp (List.mem_singleton.mpr rfl)
          rw [List.mem_singleton] at this
          rw [this]; rfl

/-! ### one operation -/

/-- the operations of the property: everything but `set_face` / `set_cell` -/
def RotCovered : Op → Prop
  | .setFace _ _ => False
  | .setCell _ _ => False
  | _ => True

instance (op : Op) : Decidable (RotCovered op) := by
  cases op <;> unfold RotCovered <;> exact inferInstance

theorem rotInv_delete_imm {k : Kernel} (hg : Global.GInv k) (hd : k.deferred = false) (hr : RotInv k) :
    (∀ c, c < k.nC → RotInv (k.deleteCell c)) ∧ (∀ f, f < k.nF → RotInv (k.deleteFace f)) ∧
    (∀ e, e < k.nE → RotInv (k.deleteEdge e)) ∧ (∀ v, v < k.nV → RotInv (k.deleteVertex v)) := by
  have hv := (hg.noFlag_of_immediate hd).2.2.2
  by_cases hf : k.fast = true
  · have hi := Global.immInv_of_ginv hg hd hf
    exact ⟨fun c hc => (rv_deleteCell_fast hi hc ⟨hr, hv⟩).1, fun f hf' => (rv_deleteFace_fast hi hf' ⟨hr, hv⟩).1,
      fun e he => (rv_deleteEdge_fast hi he ⟨hr, hv⟩).1, fun v hv' => rv_deleteVertex_fast hi hv' ⟨hr, hv⟩⟩
  · have hi := Global.shiftImmInv_of_ginv hg hd (by simpa using hf)
    exact ⟨fun c hc => (rv_deleteCell_shift hi hc ⟨hr, hv⟩).1, fun f hf' => (rv_deleteFace_shift hi hf' ⟨hr, hv⟩).1,
      fun e he => (rv_deleteEdge_shift hi he ⟨hr, hv⟩).1, fun v _ => rv_deleteVertex_shift hi ⟨hr, hv⟩⟩

/-- **one operation with valid arguments keeps the rotational-order invariant** (on top of `GInv`): the whole
    vocabulary except `set_face` / `set_cell`, all four deletion modes, all eight bottom-up configurations -/
theorem rotInv_step (k : Kernel) (op : Op) (hg : Global.GInv k) (hok : Global.OpOK k op) (hcov : RotCovered op)
    (hi : RotInv k) : RotInv (k.step op).1 := by
  have hg' := Global.ginv_step k op hg hok
  cases op with
  | addVertex => exact rotInv_addVertex hi
  | addNVertices n => exact rotInv_addNVertices n hi
  | addEdge a b d => exact rotInv_addEdge a b d hg.wf hi
  | addFaceHe c hes => exact rotInv_addFace hes c hg.wf hg.closed hi
  | addFaceV vs => exact rotInv_addFaceV hok hg hi
  | addCell c hfs =>
    exact rotInv_addCell hfs c hg.wf hg.closed (fun hf hm => (hok.1 hf hm).1.1) (fun hf hm => (hok.1 hf hm).2) hi
  | setEdge e a b => exact rotInv_setEdge e a b hi
  | setFace f hes => exact absurd hcov id
  | setCell c hfs => exact absurd hcov id
  | deleteVertex v =>
    by_cases hd : k.deferred = true
    · exact rotInv_deleteVertex_deferred v ⟨⟨hd, hg.wf, hg.one⟩, hg.closed, hi⟩
    · exact (rotInv_delete_imm hg (by simpa using hd) hi).2.2.2 v hok
  | deleteEdge e =>
    by_cases hd : k.deferred = true
    · exact rotInv_deleteEdge_deferred e ⟨⟨hd, hg.wf, hg.one⟩, hg.closed, hi⟩
    · exact (rotInv_delete_imm hg (by simpa using hd) hi).2.2.1 e hok
  | deleteFace f =>
    by_cases hd : k.deferred = true
    · exact rotInv_deleteFace_deferred f ⟨⟨hd, hg.wf, hg.one⟩, hg.closed, hi⟩
    · exact (rotInv_delete_imm hg (by simpa using hd) hi).2.1 f hok
  | deleteCell c =>
    by_cases hd : k.deferred = true
    · exact rotInv_deleteCell_deferred c ⟨⟨hd, hg.wf, hg.one⟩, hg.closed, hi⟩
    · exact (rotInv_delete_imm hg (by simpa using hd) hi).1 c hok
  | swapVertex a b => exact rotInv_swapVertex a b hi
  | swapEdge a b => exact rotInv_swapEdge hok.1 hok.2 hg.wf hg.closed hg'.wf hi
  | swapFace a b => exact rotInv_swapFace hok.1 hok.2 hg.wf hg.one hg.closed hg'.wf hi
  | swapCell a b => exact rotInv_swapCell hok.1 hok.2 hg.wf hg.closed hg'.wf hi
  | collectGarbage => exact rotInv_collectGarbage hg hi
  | enableDeferred b =>
    show RotInv (k.enableDeferred b)
    unfold enableDeferred
    simp only
    split
    · exact rotInv_withDeferred b (rotInv_collectGarbage hg hi)
    · exact rotInv_withDeferred b hi
  | enableFast b => exact rotInv_enableFast b hi
  | enableBU kind b =>
    simp only [step] at hg' ⊢
    split
    · exact rotInv_enableVBU b hi
    · rename_i h0
      simp only [h0] at hg'
      split
      · rename_i h1
        simp only [h1, if_true] at hg'
        exact rotInv_enableEBU b hg'.wf hg'.closed hi
      · rename_i h1
        simp only [h1] at hg'
        exact rotInv_enableFBU b hg'.wf hg'.closed hi
  | clear p => exact rotInv_clear p

/-! ### histories -/

theorem rotInv_empty : RotInv ({} : Kernel) := by
  intro _ _ e _ h2
  have : ({} : Kernel).hfsOf (heOf e 0) = [] := rfl
  rw [this] at h2; simp at h2

/-- **every history of valid calls (without `set_face` / `set_cell`) keeps the invariant** -/
theorem rotInv_run (k : Kernel) (ops : List Op) (hg : Global.GInv k) (hr : Global.HistoryOK k ops)
    (hc : ∀ op ∈ ops, RotCovered op) (hi : RotInv k) : RotInv (k.run ops) ∧ Global.GInv (k.run ops) := by
  induction ops generalizing k with
  | nil => exact ⟨hi, hg⟩
  | cons op t ih =>
    simp only [run, List.foldl_cons]
    exact ih _ (Global.ginv_step k op hg hr.1) hr.2 (fun o ho => hc o (List.mem_cons_of_mem _ ho))
      (rotInv_step k op hg hr.1 (hc op (List.mem_cons_self ..)) hi)

theorem rotInv_reachable (ops : List Op) (hr : Global.HistoryOK {} ops) (hc : ∀ op ∈ ops, RotCovered op) :
    RotInv (run {} ops) ∧ Global.GInv (run {} ops) :=
  rotInv_run {} ops Global.ginv_empty hr hc rotInv_empty

/-- **the statement for E1's predicates and every valence**: in a state satisfying the global invariant and the
    core invariant, with edge and face bottom-up incidences on, every edge that is a single fan (`Fan.SingleFan`,
    closed ring or open chain) is in rotational order (`Fan.FanOrdered`) -/
theorem fanOrdered_of_rotInv {k : Kernel} (hg : Global.GInv k) (hi : RotInv k) (hbe : k.eBU = true) (hbf : k.fBU = true)
    (e : Nat) (hs : Fan.SingleFan k e) : Fan.FanOrdered k e := by
  by_cases h2 : 2 ≤ (k.hfsOf (heOf e 0)).length
  · exact hi hbe hbf e (singleFanU_of_singleFan k e hs) h2
  · exact fanOrdered_small hg.wf hg.closed hbe e (by omega)

end Rot
end Kernel
end OVM

import OVM.Refine.CircReach
/-
  The class table of C05 (DESIGN.md Appendix E) as data: for each of the 26 `TopologyKernel` circulator classes the
  list its constructor builds (`list`, the same assignment as `Judge.circList`), the incidence kinds it tests
  (`needs`), the kind of its centre and of its targets, the brute-force incident list (`spec`) and whether the relation
  is a set (`isSet`).  `class_facts`: on every `GInv` state, for an in-range not-deleted centre with the needed kinds
  enabled, `list` is a rearrangement of `spec`, duplicate-free for the set classes, and names only live entities.
  `class_disabled`: with a needed kind off the list is empty (the constructor comes back invalid) — on ANY state.
  Also: the six entity iterators (`entity_lists`, on a state with `LenInv`) and the six boundary iterators
  (`boundary_lists`: the entity machine that also skips non-boundary items, against the brute-force `sBoundary*`).
-/
namespace OVM
namespace Kernel
namespace Global
open ScanDel

/-- entity kinds (centres and targets of circulators) -/
inductive EKind | v | e | he | f | hf | c
deriving DecidableEq, Repr

/-- in range and not flagged deleted (a half-entity is live when its entity is) -/
def EKind.live (kd : EKind) (k : Kernel) (x : Nat) : Bool :=
  match kd with
  | .v => k.liveV x | .e => k.liveE x | .he => k.liveE (eOf x)
  | .f => k.liveF x | .hf => k.liveF (eOf x) | .c => k.liveC x

/-- the handle designates a slot of the mesh (`is_valid` and below the count) -/
def EKind.inRange (kd : EKind) (k : Kernel) (x : Nat) : Bool :=
  match kd with
  | .v => decide (x < k.nV) | .e => decide (x < k.nE) | .he => decide (x < k.nHE)
  | .f => decide (x < k.nF) | .hf => decide (x < k.nHF) | .c => decide (x < k.nC)

/-- the 26 circulator classes of `TopologyKernel` (driver names of harness/iter_drv.cc) -/
inductive CircClass
  | voh | vih | vv | ve | vhf | vf | vc
  | ehf | ef | ec | hehf | hef | hec
  | fv | fhe | fe | hfv | hfhe | hfe | bhfhf
  | cv | che | ce | chf | cf | cc
deriving DecidableEq, Repr

namespace CircClass

def all : List CircClass :=
  [voh, vih, vv, ve, vhf, vf, vc, ehf, ef, ec, hehf, hef, hec, fv, fhe, fe, hfv, hfhe, hfe, bhfhf, cv, che, ce, chf, cf, cc]

/-- the list the constructor builds (OVM/Kernel/Query.lean) -/
def list (cls : CircClass) (k : Kernel) (x : Nat) : List Nat :=
  match cls with
  | voh => k.qVOH x | vih => k.qVIH x | vv => k.qVV x | ve => k.qVE x
  | vhf => k.qVHF x | vf => k.qVF x | vc => k.qVC x
  | ehf => k.qEHF x | ef => k.qEF x | ec => k.qEC x
  | hehf => k.qHEHF x | hef => k.qHEF x | hec => k.qHEC x
  | fv => k.qFV x | fhe => k.qFHE x | fe => k.qFE x
  | hfv => k.qHFV x | hfhe => k.qHFHE x | hfe => k.qHFE x
  | bhfhf => k.qBHFHF x
  | cv => k.qCV x | che => k.qCHE x | ce => k.qCE x
  | chf => k.qCHF x | cf => k.qCF x | cc => k.qCC x

/-- the bottom-up incidence kinds the constructor needs (it comes back invalid without them) -/
def needs (cls : CircClass) (k : Kernel) : Bool :=
  match cls with
  | voh | vih | vv | ve => k.vBU
  | vhf => k.vBU && k.eBU
  | vf | vc => k.vBU && k.eBU && k.fBU
  | ehf | ef | hehf | hef => k.eBU
  | ec | hec => k.eBU && k.fBU
  | cc => k.fBU
  | bhfhf => k.eBU && k.fBU
  | _ => true

def centre : CircClass → EKind
  | voh | vih | vv | ve | vhf | vf | vc => .v
  | ehf | ef | ec => .e
  | hehf | hef | hec => .he
  | fv | fhe | fe => .f
  | hfv | hfhe | hfe | bhfhf => .hf
  | cv | che | ce | chf | cf | cc => .c

def target : CircClass → EKind
  | voh | vih | fhe | hfhe | che => .he
  | vv | fv | hfv | cv => .v
  | ve | fe | hfe | ce => .e
  | vhf | ehf | hehf | bhfhf | chf => .hf
  | vf | ef | hef | cf => .f
  | vc | ec | hec | cc => .c

/-- the incident list by brute force over the stored definitions of the not-deleted entities
    (OVM/Spec/Incidence.lean; `sVCout`, `sCE`, `sCV`, `sBHFHF`: OVM/Refine/CircReach.lean); for the top-down
    views the stored definition itself -/
def spec (cls : CircClass) (k : Kernel) (x : Nat) : List Nat :=
  match cls with
  | voh => k.sOut x | vih => k.sIn x | vv => k.sVV x | ve => k.sVE x
  | vhf => k.sVHF x | vf => k.sVF x | vc => k.sVCout x
  | ehf => k.sEHF x | ef => k.sEF x | ec => k.sHEC (heOf x 0)
  | hehf => k.sHfsOfHe x | hef => k.sHEF x | hec => k.sHEC x
  | fv => (k.faceAt x).map k.fromV | fhe => k.faceAt x | fe => (k.faceAt x).map eOf
  | hfv => (k.hfHes x).map k.fromV | hfhe => k.hfHes x | hfe => (k.hfHes x).map eOf
  | bhfhf => k.sBHFHF x
  | cv => k.sCV x | che => (k.cellAt x).flatMap k.hfHes | ce => k.sCE x
  | chf => k.cellAt x | cf => (k.cellAt x).map eOf | cc => k.sCC x

/-- the classes whose relation is a set: no entry twice within a lap.  The others enumerate WITH multiplicity:
    `ve`/`vv` one entry per outgoing halfedge (loop edge / parallel edges), `hehf`/`ehf` one per occurrence of the
    (half)edge in the face, the `hf*`/`f*` views one per stored halfedge, `cf` one per stored halfface, `che` one per
    halfedge of each halfface, `bhfhf` one per shared halfedge. -/
def isSet : CircClass → Bool
  | voh | vih | vhf | vf | vc | ef | ec | hef | hec | cv | ce | chf | cc => true
  | _ => false

/-- the classes that read a bottom-up cache (the others read the stored definition of the centre) -/
def bottomUp : CircClass → Bool
  | voh | vih | vv | ve | vhf | vf | vc | ehf | ef | ec | hehf | hef | hec | cc => true
  | _ => false

/-- the centres the theorems cover: for the cache-reading classes ANY handle in range (also a deferred-deleted one:
    the list is still the brute-force incident list, which for a flagged vertex / edge is empty,
    `deleted_centre_nothing_incident`); for the classes that read the centre's own definition a not-deleted centre -/
def centreOK (cls : CircClass) (k : Kernel) (x : Nat) : Bool :=
  if cls.bottomUp then cls.centre.inRange k x else cls.centre.live k x

end CircClass

/-- a live centre is in range -/
theorem EKind.inRange_of_live {kd : EKind} {k : Kernel} {x : Nat} (h : kd.live k x = true) : kd.inRange k x = true := by
  cases kd <;> simp only [EKind.live, EKind.inRange, decide_eq_true_eq] at h ⊢
  · unfold Kernel.liveV at h; simp at h; exact h.1
  · exact liveE_lt h
  · exact liveE_he_lt h
  · exact liveF_lt h
  · exact liveF_hf_lt h
  · exact liveC_lt h

theorem centreOK_of_live (cls : CircClass) {k : Kernel} {x : Nat} (h : cls.centre.live k x = true) :
    cls.centreOK k x = true := by
  unfold CircClass.centreOK
  split
  · exact EKind.inRange_of_live h
  · exact h

/-- **every class, every `GInv` state**: for a centre with `centreOK` and the needed incidence kinds enabled, the constructor's
    list is a rearrangement of the brute-force incident list (so it has exactly its members, with its multiplicities),
    it is duplicate-free for the set classes, and every entry is a live entity -/
theorem class_facts (cls : CircClass) {k : Kernel} (hi : GInv k) {x : Nat} (hx : cls.centreOK k x = true)
    (hn : cls.needs k = true) :
    (cls.list k x).Perm (cls.spec k x) ∧ (cls.isSet = true → (cls.list k x).Nodup) ∧
    ∀ y ∈ cls.list k x, cls.target.live k y = true := by
  have hw := hi.wf
  have h1 := hi.one
  have hc := hi.closed
  cases cls <;>
    simp only [CircClass.needs, CircClass.centre, CircClass.list, CircClass.spec, CircClass.isSet, CircClass.target,
      CircClass.centreOK, CircClass.bottomUp, EKind.inRange, if_true, Bool.false_eq_true, if_false, decide_eq_true_eq,
      EKind.live, Bool.and_eq_true, forall_const, false_implies, true_and] at hn hx ⊢ <;>
    have hlt := hx
  case voh => exact circ_voh hw hn hlt
  case vih => exact circ_vih hw hn hlt
  case vv => exact circ_vv hw hc hn hlt
  case ve => exact ⟨(circ_ve hw hn hlt).1, (circ_ve hw hn hlt).2.1⟩
  case vhf => obtain ⟨e, n, l⟩ := circ_vhf hw hc hn.1 hn.2 hlt; exact ⟨e ▸ List.Perm.refl _, n, l⟩
  case vf => obtain ⟨e, n, l⟩ := circ_vf hw hc hn.1.1 hn.1.2 hn.2 hlt; exact ⟨e ▸ List.Perm.refl _, n, l⟩
  case vc => obtain ⟨e, _, n, l⟩ := circ_vc hw h1 hc hn.1.1 hn.1.2 hn.2 hlt; exact ⟨e ▸ List.Perm.refl _, n, l⟩
  case ehf => exact circ_ehf hw hn hlt
  case ef => obtain ⟨e, n, l⟩ := circ_ef hw hn hlt; exact ⟨e ▸ List.Perm.refl _, n, l⟩
  case ec => exact circ_ec hw h1 hn.1 hn.2 hlt
  case hehf => exact circ_hehf hw hn hlt
  case hef => obtain ⟨e, n, l⟩ := circ_hef hw hn hlt; exact ⟨e ▸ List.Perm.refl _, n, l⟩
  case hec => exact circ_hec hw h1 hn.1 hn.2 hlt
  case fv => obtain ⟨_, ⟨e, l, _⟩, _⟩ := circ_f hw hc hx; exact ⟨e ▸ List.Perm.refl _, l⟩
  case fhe => obtain ⟨⟨e, l⟩, _, _⟩ := circ_f hw hc hx; exact ⟨e ▸ List.Perm.refl _, l⟩
  case fe => obtain ⟨_, _, ⟨e, l, _⟩⟩ := circ_f hw hc hx; exact ⟨e ▸ List.Perm.refl _, l⟩
  case hfv => obtain ⟨_, ⟨e, l, _⟩, _⟩ := circ_hf hw hc hx; exact ⟨e ▸ List.Perm.refl _, l⟩
  case hfhe => obtain ⟨⟨e, l⟩, _, _⟩ := circ_hf hw hc hx; exact ⟨e ▸ List.Perm.refl _, l⟩
  case hfe => obtain ⟨_, _, ⟨e, l, _⟩⟩ := circ_hf hw hc hx; exact ⟨e ▸ List.Perm.refl _, l⟩
  case bhfhf =>
    obtain ⟨p, l⟩ := circ_bhfhf hw hc hn.1 hn.2 hx
    exact ⟨p, fun y hy => (l y hy).1⟩
  case cv => obtain ⟨e, n, l, _⟩ := circ_cv hw hc hx; exact ⟨e ▸ List.Perm.refl _, n, l⟩
  case che => obtain ⟨_, _, ⟨e, l⟩⟩ := circ_c_views hw h1 hc hx; exact ⟨e ▸ List.Perm.refl _, l⟩
  case ce => obtain ⟨e, n, l⟩ := circ_ce hw hc hx; exact ⟨e ▸ List.Perm.refl _, n, l⟩
  case chf => obtain ⟨⟨e, n, l⟩, _, _⟩ := circ_c_views hw h1 hc hx; exact ⟨e ▸ List.Perm.refl _, n, l⟩
  case cf => obtain ⟨_, ⟨e, l, _⟩, _⟩ := circ_c_views hw h1 hc hx; exact ⟨e ▸ List.Perm.refl _, l⟩
  case cc => obtain ⟨e, n, l⟩ := circ_cc hw h1 hn hlt; exact ⟨e ▸ List.Perm.refl _, n, l⟩

theorem sortUniq_nil : sortUniq [] = [] := rfl

/-- **a needed incidence kind is disabled ⇒ the list is empty** (the constructor tests the flag and comes back
    invalid; `bhfhf` tests the face kind and reaches the edge kind through `hehf_iter`) — on any state whatsoever -/
theorem class_disabled (cls : CircClass) (k : Kernel) (x : Nat) (hn : cls.needs k = false) : cls.list k x = [] := by
  cases cls <;> simp only [CircClass.needs, Bool.and_eq_false_iff, Bool.true_eq_false] at hn <;>
    simp only [CircClass.list]
  case voh => simp [qVOH, hn]
  case vih => simp [qVIH, qVOH, hn]
  case vv => simp [qVV, qVOH, hn]
  case ve => simp [qVE, qVOH, hn]
  case vhf =>
    unfold qVHF
    rcases hn with hn | hn
    · simp [qVE, qVOH, hn, sortUniq_nil]
    · have : ∀ e, k.qEHF e = [] := fun e => by simp [qEHF, qHEHF, hn]
      have e : k.qEHF = fun _ => [] := funext this
      rw [e, List.flatMap_eq_nil_iff.mpr (fun _ _ => rfl)]; rfl
  case vf => have : k.fullBU = false := by unfold fullBU; rcases hn with (hn | hn) | hn <;> simp [hn]
             simp [qVF, this]
  case vc => have : k.fullBU = false := by unfold fullBU; rcases hn with (hn | hn) | hn <;> simp [hn]
             simp [qVC, this]
  case ehf => simp [qEHF, qHEHF, hn]
  case ef => simp [qEF, qHEF, qHEHF, hn, sortUniq_nil]
  case ec => unfold qEC qHEC; rcases hn with hn | hn <;> simp [hn]
  case hehf => simp [qHEHF, hn]
  case hef => simp [qHEF, qHEHF, hn, sortUniq_nil]
  case hec => unfold qHEC; rcases hn with hn | hn <;> simp [hn]
  case bhfhf =>
    unfold qBHFHF
    rcases hn with hn | hn
    · simp [qHEHF, hn]
    · simp [hn]
  case cc => simp [qCC, hn]

/-! ### a deferred-deleted vertex / edge has nothing incident -/

theorem outOf_nil_of_deleted {k : Kernel} (hi : GInv k) {v : Nat} (hlt : v < k.nV) (hd : k.vDeleted v = true) :
    k.qVOH v = [] := by
  unfold qVOH
  split
  · rename_i hv
    have hp := (hi.wf.cache.v hv).2 v hlt
    have : k.sOut v = [] := by
      apply List.eq_nil_iff_forall_not_mem.mpr
      intro h hm
      obtain ⟨hf, hl⟩ := mem_sOut hm
      have := (liveV_fromV hi.wf hi.closed hl).1
      rw [hf] at this
      unfold Kernel.liveV at this; simp [hd] at this
    rw [this] at hp; exact hp.eq_nil
  · rfl

theorem hfsOf_nil_of_deleted {k : Kernel} (hi : GInv k) {h : Nat} (hlt : h < k.nHE) (hd : k.eDeleted (eOf h) = true) :
    k.qHEHF h = [] := by
  unfold qHEHF
  split
  · rename_i he
    apply List.eq_nil_iff_forall_not_mem.mpr
    intro x hm
    obtain ⟨hl, hmem⟩ := (mem_hfsOf_iff hi.wf he hlt x).mp hm
    have := liveE_of_hfHes hi.wf hi.closed hl hmem
    unfold Kernel.liveE at this; simp [hd] at this
  · rfl

/-- on a `GInv` state every vertex-, edge- and halfedge-centred circulator of a flagged (deferred-deleted, not yet
    collected) centre has an empty list: nothing live is incident to something flagged.  (Not so for `cc` on a flagged
    cell — its halffaces are still stored and their opposites may lie in live cells; nor for the top-down views, which
    read the stored definition of the flagged centre.) -/
theorem deleted_centre_nothing_incident (cls : CircClass) {k : Kernel} (hi : GInv k) {x : Nat}
    (hb : cls.bottomUp = true) (hcc : cls ≠ .cc) (hx : cls.centre.inRange k x = true) (hd : cls.centre.live k x = false) :
    cls.list k x = [] := by
  cases cls <;> simp only [CircClass.bottomUp, Bool.false_eq_true, ne_eq, not_true_eq_false, reduceCtorEq,
    not_false_eq_true, CircClass.centre, EKind.inRange, EKind.live, decide_eq_true_eq, CircClass.list] at hb hcc hx hd ⊢
  all_goals first
    | (have hdel : k.vDeleted x = true := by
         unfold Kernel.liveV at hd; simpa [hx] using hd
       have h0 := outOf_nil_of_deleted hi hx hdel
       first
         | exact h0
         | (unfold qVIH; rw [h0]; rfl)
         | (unfold qVV; rw [h0]; rfl)
         | (unfold qVE; rw [h0]; rfl)
         | (unfold qVHF qVE; rw [h0]; rfl)
         | (unfold qVF; split
            · rename_i hf; unfold qVOH at h0; unfold fullBU at hf; simp only [Bool.and_eq_true] at hf
              simp only [hf.1.1, if_true] at h0; rw [h0]; rfl
            · rfl)
         | (unfold qVC; split
            · rename_i hf; unfold qVOH at h0; unfold fullBU at hf; simp only [Bool.and_eq_true] at hf
              simp only [hf.1.1, if_true] at h0; rw [h0]; rfl
            · rfl))
    | (have hlt : heOf x 0 < k.nHE := by unfold heOf Kernel.nHE Kernel.nE at *; omega
       have hdel : k.eDeleted (eOf (heOf x 0)) = true := by
         rw [eOf_heOf0]; unfold Kernel.liveE at hd; simpa [hx] using hd
       have h0 := hfsOf_nil_of_deleted hi hlt hdel
       first
         | (unfold qEHF; rw [h0]; rfl)
         | (unfold qEF qHEF; rw [h0]; rfl)
         | (unfold qEC qHEC; split
            · rename_i hf; unfold qHEHF at h0; simp only [Bool.and_eq_true] at hf
              simp only [hf.1, if_true] at h0; rw [h0]; rfl
            · rfl))
    | (have hdel : k.eDeleted (eOf x) = true := by
         have : eOf x < k.nE := by unfold Kernel.nHE Kernel.nE eOf at *; omega
         unfold Kernel.liveE at hd; simpa [this] using hd
       have h0 := hfsOf_nil_of_deleted hi hx hdel
       first
         | exact h0
         | (unfold qHEF; rw [h0]; rfl)
         | (unfold qHEC; split
            · rename_i hf; unfold qHEHF at h0; simp only [Bool.and_eq_true] at hf
              simp only [hf.1, if_true] at h0; rw [h0]; rfl
            · rfl))

/-! ### the six entity iterators on a state with `LenInv` -/

/-- the not-deleted test of the half-entity iterators: `is_deleted(HalfEdgeHandle h)` looks at the edge -/
def halfLive (del : List Bool) (h : Nat) : Bool := liveFlag del (eOf h)

theorem range_filter_half (k : Kernel) :
    (List.range k.nHE).filter (halfLive k.eDel) = k.liveEdges.flatMap (fun e => [2 * e, 2 * e + 1]) ∧
    (List.range k.nHF).filter (halfLive k.fDel) = k.liveFaces.flatMap (fun e => [2 * e, 2 * e + 1]) := by
  constructor
  · rw [← liveHes_eq]; unfold liveHes
    apply filter_congr'
    intro h hh
    have : eOf h < k.nE := by have := List.mem_range.mp hh; unfold Kernel.nHE Kernel.nE eOf at *; omega
    unfold halfLive liveFlag Kernel.liveE Kernel.eDeleted; simp [this]
  · rw [← liveHfs_eq]; unfold liveHfs
    apply filter_congr'
    intro h hh
    have : eOf h < k.nF := by have := List.mem_range.mp hh; unfold Kernel.nHF Kernel.nF eOf at *; omega
    unfold halfLive liveFlag Kernel.liveF Kernel.fDeleted; simp [this]

/-- the entity machines (OVM/Iter/Circ.lean: skip-deleted loops from slot 0) run on the state's own flag arrays visit
    exactly the not-deleted slots, each once, ascending; by `LenInv` every slot below the count has its own flag (the
    default of `getD` is never consulted) -/
theorem entity_lists {k : Kernel} (hl : LenInv k) :
    (enumFrom k.vDel k.nV 0 = k.liveVerts ∧ enumFrom k.eDel k.nE 0 = k.liveEdges ∧
     enumFrom k.fDel k.nF 0 = k.liveFaces ∧ enumFrom k.cDel k.nC 0 = k.liveCells ∧
     enumFromP (halfLive k.eDel) k.nHE 0 = k.liveEdges.flatMap (fun e => [2 * e, 2 * e + 1]) ∧
     enumFromP (halfLive k.fDel) k.nHF 0 = k.liveFaces.flatMap (fun e => [2 * e, 2 * e + 1])) ∧
    (k.vDel.length = k.nV ∧ k.eDel.length = k.nE ∧ k.fDel.length = k.nF ∧ k.cDel.length = k.nC) := by
  refine ⟨⟨?_, ?_, ?_, ?_, ?_, ?_⟩, hl.vDel, hl.eDel, hl.fDel, hl.cDel⟩
  · rw [enumFrom_eq]; rfl
  · rw [enumFrom_eq]; rfl
  · rw [enumFrom_eq]; rfl
  · rw [enumFrom_eq]; rfl
  · rw [enumFromP_eq _ _ _ 0 rfl]; exact (range_filter_half k).1
  · rw [enumFromP_eq _ _ _ 0 rfl]; exact (range_filter_half k).2

/-! ### the six boundary iterators: the entity machine that also skips non-boundary items (BoundaryItemIter.hh) -/

theorem enumFromP_and (p q : Nat → Bool) (n : Nat) :
    enumFromP (fun i => p i && q i) n 0 = ((List.range n).filter p).filter q := by
  rw [enumFromP_eq _ _ _ 0 rfl, List.filter_filter]
  simp only [List.drop_zero]
  apply filter_congr'
  intro x _; exact Bool.and_comm _ _

/-- with the kinds `BoundaryItemIter::has_incidences` asks for, the boundary iterators visit exactly the not-deleted
    items that are boundary by the brute-force definition (OVM/Spec/Incidence.lean), each once, ascending -/
theorem boundary_lists {k : Kernel} (hw : WF k) :
    (k.vBU = true → k.eBU = true → k.fBU = true →
      enumFromP (fun v => liveFlag k.vDel v && k.qBoundaryV v) k.nV 0 = k.liveVerts.filter k.sBoundaryV) ∧
    (k.eBU = true → k.fBU = true →
      enumFromP (fun h => halfLive k.eDel h && k.qBoundaryHE h) k.nHE 0 =
        (k.liveEdges.flatMap (fun e => [2 * e, 2 * e + 1])).filter k.sBoundaryHE) ∧
    (k.eBU = true → k.fBU = true →
      enumFromP (fun e => liveFlag k.eDel e && k.qBoundaryE e) k.nE 0 = k.liveEdges.filter k.sBoundaryE) ∧
    (k.fBU = true →
      enumFromP (fun h => halfLive k.fDel h && k.qBoundaryHF h) k.nHF 0 =
        (k.liveFaces.flatMap (fun e => [2 * e, 2 * e + 1])).filter k.sBoundaryHF) ∧
    (k.fBU = true →
      enumFromP (fun f => liveFlag k.fDel f && k.qBoundaryF f) k.nF 0 = k.liveFaces.filter k.sBoundaryF) ∧
    (k.fBU = true →
      enumFromP (fun c => liveFlag k.cDel c && k.qBoundaryC c) k.nC 0 = k.liveCells.filter k.sBoundaryC) := by
  refine ⟨fun hv he hb => ?_, fun he hb => ?_, fun he hb => ?_, fun hb => ?_, fun hb => ?_, fun hb => ?_⟩
  · rw [enumFromP_and, ← qBIV_exact hw hv he hb]
    unfold qBIV fullBU; simp only [hv, he, hb, Bool.and_self, if_true]; rfl
  · have e : halfLive k.eDel = (fun h => !k.eDeleted (eOf h)) := rfl
    rw [enumFromP_and, ← (range_filter_half k).1, e, ← qBIHE_exact hw he hb]
    unfold qBIHE; simp only [he, hb, Bool.and_self, if_true]
  · rw [enumFromP_and, ← qBIE_exact hw he hb]
    unfold qBIE; simp only [he, hb, Bool.and_self, if_true]; rfl
  · have e : halfLive k.fDel = (fun h => !k.fDeleted (eOf h)) := rfl
    rw [enumFromP_and, ← (range_filter_half k).2, e, ← qBIHF_exact hw hb]
    unfold qBIHF; simp only [hb, if_true]
  · rw [enumFromP_and, ← qBIF_exact hw hb]
    unfold qBIF; simp only [hb, if_true]; rfl
  · rw [enumFromP_and, ← qBIC_exact hw hb]; rfl

end Global
end Kernel
end OVM

import OVM.Refine.Range
import OVM.Base.Bits
/-
  Lemmas about the brute-force scans of `OVM.Spec.Incidence` used by the cache-invariant
  preservation proofs (OVM/Refine/Cache*.lean): handle arithmetic, the scans in per-entity normal
  form (`sOut_flat`, `sHfsOfHe_flat`), which fields each scan reads (`*_congr`), and the fact that under
  `RangeInv` nothing refers to a handle that does not exist.
-/
namespace OVM
namespace Kernel

/-! ### handle arithmetic -/
theorem eOf_even (e : Nat) : eOf (2 * e) = e := by unfold eOf; omega
theorem eOf_odd (e : Nat) : eOf (2 * e + 1) = e := by unfold eOf; omega
theorem side_even (e : Nat) : side (2 * e) = 0 := by unfold side; omega
theorem side_odd (e : Nat) : side (2 * e + 1) = 1 := by unfold side; omega
theorem opp_opp (h : Nat) : opp (opp h) = h := xor_one_xor_one h
theorem opp_even (e : Nat) : opp (2 * e) = 2 * e + 1 := by unfold opp; rw [xor_one_eq]; split <;> omega
theorem opp_odd (e : Nat) : opp (2 * e + 1) = 2 * e := by unfold opp; rw [xor_one_eq]; split <;> omega
theorem eOf_opp (h : Nat) : eOf (opp h) = eOf h := xor_one_div h
theorem opp_lt_two_mul (h n : Nat) : opp h < 2 * n ↔ h < 2 * n := by
  unfold opp; rw [xor_one_eq]; split <;> omega
theorem opp_beq (x h : Nat) : (opp x == h) = (x == opp h) := by
  by_cases hx : opp x = h
  · have h2 : x = opp h := by rw [← hx, opp_opp]
    rw [beq_iff_eq.mpr hx, beq_iff_eq.mpr h2]
  · have h2 : x ≠ opp h := by intro hh; apply hx; rw [hh, opp_opp]
    rw [beq_eq_false_iff_ne.mpr hx, beq_eq_false_iff_ne.mpr h2]
theorem heOf_zero_eq (e : Nat) : heOf e 0 = 2 * e := rfl
theorem heOf_one_eq (e : Nat) : heOf e 1 = 2 * e + 1 := rfl

/-! ### lists -/
theorem range_two_mul (n : Nat) : List.range (2 * n) = (List.range n).flatMap (fun e => [2 * e, 2 * e + 1]) := by
  induction n with
  | zero => rfl
  | succ n ih =>
    have : 2 * (n + 1) = (2 * n + 1) + 1 := by omega
    rw [this, List.range_succ, List.range_succ, ih, List.range_succ, List.flatMap_append]
    simp

theorem flatMap_ite_filter {α β} (l : List α) (p : α → Bool) (f : α → List β) :
    l.flatMap (fun x => if p x then f x else []) = (l.filter p).flatMap f := by
  induction l with
  | nil => rfl
  | cons a t ih =>
    simp only [List.flatMap_cons, List.filter_cons]
    split <;> simp [ih]

theorem flatMap_congr' {α β} {l : List α} {f g : α → List β} (h : ∀ x ∈ l, f x = g x) :
    l.flatMap f = l.flatMap g := by
  induction l with
  | nil => rfl
  | cons a t ih =>
    simp only [List.flatMap_cons]
    rw [h a (by simp), ih (fun x hx => h x (by simp [hx]))]

theorem getD_modify {α} (l : List α) (i v : Nat) (f : α → α) (d : α) (hv : v < l.length) :
    (l.modify i f).getD v d = if i = v then f (l.getD v d) else l.getD v d := by
  simp only [List.getD_eq_getElem?_getD, List.getElem?_modify, List.getElem?_eq_getElem hv]
  split <;> simp

theorem getD_set {α} (l : List α) (i v : Nat) (a d : α) (hv : v < l.length) :
    (l.set i a).getD v d = if i = v then a else l.getD v d := by
  simp only [List.getD_eq_getElem?_getD, List.getElem?_set]
  split
  · rename_i h; subst h; simp [hv]
  · rfl

theorem getD_resizeL_grow {α} (l : List α) (n v : Nat) (d : α) (h : l.length ≤ n) :
    (resizeL l n d).getD v d = l.getD v d := by
  unfold resizeL
  rw [List.take_of_length_le h]
  simp only [List.getD_eq_getElem?_getD, List.getElem?_append]
  split
  · rfl
  · rename_i hv
    rw [List.getElem?_eq_none (by omega : l.length ≤ v), List.getElem?_replicate]
    split <;> rfl

/-- indices of the not-flagged slots -/
def liveIdx (n : Nat) (del : List Bool) : List Nat := (List.range n).filter (fun i => !del.getD i false)

theorem liveIdx_snoc (n : Nat) (del : List Bool) (h : del.length = n) :
    liveIdx (n + 1) (del ++ [false]) = liveIdx n del ++ [n] := by
  unfold liveIdx
  rw [List.range_succ, List.filter_append]
  congr 1
  · apply List.filter_congr
    intro i hi
    have : i < del.length := by simpa [h] using hi
    simp [List.getD_eq_getElem?_getD, List.getElem?_append, this]
  · simp [List.getD_eq_getElem?_getD, List.getElem?_append, h]

theorem mem_liveIdx_lt {n : Nat} {del : List Bool} {i : Nat} (h : i ∈ liveIdx n del) : i < n := by
  unfold liveIdx at h; simp only [List.mem_filter, List.mem_range] at h; exact h.1


/-! ### the scans in per-entity normal form -/
theorem liveEdges_eq (k : Kernel) : k.liveEdges = liveIdx k.nE k.eDel := rfl
theorem liveFaces_eq (k : Kernel) : k.liveFaces = liveIdx k.nF k.fDel := rfl
theorem liveCells_eq (k : Kernel) : k.liveCells = liveIdx k.nC k.cDel := rfl

/-- filtering the half-entities `0 … 2n-1` by a predicate on the full entity -/
theorem filter_halves (n : Nat) (p : Nat → Bool) :
    (List.range (2 * n)).filter (fun h => p (eOf h)) = ((List.range n).filter p).flatMap (fun e => [2 * e, 2 * e + 1]) := by
  rw [range_two_mul, List.filter_flatMap, ← flatMap_ite_filter]
  apply flatMap_congr'
  intro e _
  simp only [List.filter_cons, eOf_even, eOf_odd, List.filter_nil]
  split <;> rfl

theorem liveHes_flat (k : Kernel) : k.liveHes = k.liveEdges.flatMap (fun e => [2 * e, 2 * e + 1]) := by
  unfold liveHes nHE liveEdges
  rw [filter_halves k.edges.length (fun e => k.liveE e)]
  congr 1
  apply List.filter_congr
  intro e he
  simp only [List.mem_range] at he
  simp [liveE, nE, he]

theorem liveHfs_flat (k : Kernel) : k.liveHfs = k.liveFaces.flatMap (fun f => [2 * f, 2 * f + 1]) := by
  unfold liveHfs nHF liveFaces
  rw [filter_halves k.faces.length (fun e => k.liveF e)]
  congr 1
  apply List.filter_congr
  intro e he
  simp only [List.mem_range] at he
  simp [liveF, nF, he]

/-- what edge `e` contributes to the outgoing halfedges of `v` -/
def outC (k : Kernel) (v e : Nat) : List Nat :=
  (if (k.edgeAt e).1 == v then [2 * e] else []) ++ (if (k.edgeAt e).2 == v then [2 * e + 1] else [])

theorem fromV_even (k : Kernel) (e : Nat) : k.fromV (2 * e) = (k.edgeAt e).1 := by
  simp [fromV, halfedge, eOf_even, side_even]
theorem fromV_odd (k : Kernel) (e : Nat) : k.fromV (2 * e + 1) = (k.edgeAt e).2 := by
  simp [fromV, halfedge, eOf_odd, side_odd]

theorem sOut_flat (k : Kernel) (v : Nat) : k.sOut v = k.liveEdges.flatMap (k.outC v) := by
  unfold sOut
  rw [liveHes_flat, List.filter_flatMap]
  apply flatMap_congr'
  intro e _
  simp only [List.filter_cons, List.filter_nil, fromV_even, fromV_odd, outC]
  split <;> split <;> rfl

/-- what a face with halfedge list `hes` and handle `f` contributes to the halffaces of `h` -/
def hfC (hes : List Nat) (f h : Nat) : List Nat :=
  List.replicate (hes.count h) (2 * f) ++ List.replicate (hes.count (opp h)) (2 * f + 1)

theorem count_oppFace (l : List Nat) (h : Nat) : (oppFace l).count h = l.count (opp h) := by
  unfold oppFace
  rw [List.count_eq_countP, List.countP_map, List.countP_reverse, List.count_eq_countP]
  apply List.countP_congr
  intro x _
  simp only [Function.comp]
  rw [opp_beq]

theorem hfHes_even (k : Kernel) (f : Nat) : k.hfHes (2 * f) = k.faceAt f := by
  simp [hfHes, eOf_even, side_even]
theorem hfHes_odd (k : Kernel) (f : Nat) : k.hfHes (2 * f + 1) = oppFace (k.faceAt f) := by
  simp [hfHes, eOf_odd, side_odd]

theorem sHfsOfHe_flat (k : Kernel) (h : Nat) :
    k.sHfsOfHe h = k.liveFaces.flatMap (fun f => hfC (k.faceAt f) f h) := by
  unfold sHfsOfHe
  rw [liveHfs_flat, List.flatMap_assoc]
  apply flatMap_congr'
  intro f _
  simp [hfC, hfHes_even, hfHes_odd, count_oppFace]


/-! ### which fields each scan reads -/
theorem sOut_congr (k k' : Kernel) (he : k'.edges = k.edges) (hd : k'.eDel = k.eDel) (v : Nat) :
    k'.sOut v = k.sOut v := by
  unfold sOut liveHes nHE liveE nE eDeleted fromV halfedge edgeAt; rw [he, hd]

theorem sHfsOfHe_congr (k k' : Kernel) (hf : k'.faces = k.faces) (hd : k'.fDel = k.fDel) (h : Nat) :
    k'.sHfsOfHe h = k.sHfsOfHe h := by
  unfold sHfsOfHe liveHfs nHF liveF nF fDeleted hfHes faceAt; rw [hf, hd]

theorem sCellOf_congr (k k' : Kernel) (hc : k'.cells = k.cells) (hd : k'.cDel = k.cDel) (hf : Nat) :
    k'.sCellOf hf = k.sCellOf hf := by
  unfold sCellOf sCellsOfHf liveCells nC cDeleted cellAt; rw [hc, hd]

theorem cacheInvV_congr (k k' : Kernel) (hb : k'.vBU = k.vBU) (ho : k'.outHes = k.outHes) (hn : k'.nV = k.nV)
    (he : k'.edges = k.edges) (hd : k'.eDel = k.eDel) (h : CacheInvV k) : CacheInvV k' := by
  intro hb'
  rw [hb] at hb'
  obtain ⟨h1, h2⟩ := h hb'
  refine ⟨by rw [ho, hn]; exact h1, fun v hv => ?_⟩
  rw [sOut_congr k k' he hd]
  unfold outOf; rw [ho]
  exact h2 v (by rw [← hn]; exact hv)

theorem cacheInvE_congr (k k' : Kernel) (hb : k'.eBU = k.eBU) (ho : k'.incHfs = k.incHfs)
    (hn : k'.edges.length = k.edges.length) (hf : k'.faces = k.faces) (hd : k'.fDel = k.fDel)
    (h : CacheInvE k) : CacheInvE k' := by
  intro hb'
  rw [hb] at hb'
  obtain ⟨h1, h2⟩ := h hb'
  have hN : k'.nHE = k.nHE := by unfold nHE; rw [hn]
  refine ⟨by rw [ho, hN]; exact h1, fun v hv => ?_⟩
  rw [sHfsOfHe_congr k k' hf hd]
  unfold hfsOf; rw [ho]
  exact h2 v (by rw [← hN]; exact hv)

theorem cacheInvF_congr (k k' : Kernel) (hb : k'.fBU = k.fBU) (ho : k'.incCell = k.incCell)
    (hn : k'.faces.length = k.faces.length) (hc : k'.cells = k.cells) (hd : k'.cDel = k.cDel)
    (h : CacheInvF k) : CacheInvF k' := by
  intro hb'
  rw [hb] at hb'
  obtain ⟨h1, h2⟩ := h hb'
  have hN : k'.nHF = k.nHF := by unfold nHF; rw [hn]
  refine ⟨by rw [ho, hN]; exact h1, fun v hv => ?_⟩
  rw [sCellOf_congr k k' hc hd]
  unfold cellOf; rw [ho]
  exact h2 v (by rw [← hN]; exact hv)

theorem rangeInv_congr (k k' : Kernel) (hn : k.nV ≤ k'.nV) (he : k'.edges = k.edges) (hf : k'.faces = k.faces)
    (hc : k'.cells = k.cells) (h : RangeInv k) : RangeInv k' :=
  { edges := by
      intro e hm; rw [he] at hm
      have := h.edges e hm
      exact ⟨Nat.lt_of_lt_of_le this.1 hn, Nat.lt_of_lt_of_le this.2 hn⟩
    faces := by intro f hm; rw [hf] at hm; unfold nHE; rw [he]; exact h.faces f hm
    cells := by intro c hm; rw [hc] at hm; unfold nHF; rw [hf]; exact h.cells c hm }

/-! ### entities that nothing refers to -/
theorem edgeAt_mem (k : Kernel) (e : Nat) (he : e < k.nE) : k.edgeAt e ∈ k.edges := by
  unfold edgeAt; unfold nE at he
  rw [List.getD_eq_getElem?_getD, List.getElem?_eq_getElem he]; simp
theorem faceAt_mem (k : Kernel) (f : Nat) (hf : f < k.nF) : k.faceAt f ∈ k.faces := by
  unfold faceAt; unfold nF at hf
  rw [List.getD_eq_getElem?_getD, List.getElem?_eq_getElem hf]; simp
theorem cellAt_mem (k : Kernel) (c : Nat) (hc : c < k.nC) : k.cellAt c ∈ k.cells := by
  unfold cellAt; unfold nC at hc
  rw [List.getD_eq_getElem?_getD, List.getElem?_eq_getElem hc]; simp

theorem flatMap_eq_nil' {α β} (l : List α) (f : α → List β) (h : ∀ x ∈ l, f x = []) : l.flatMap f = [] := by
  induction l with
  | nil => rfl
  | cons a t ih => simp only [List.flatMap_cons]; rw [h a (by simp), ih (fun x hx => h x (by simp [hx]))]; rfl

/-- no edge starts at a vertex handle that does not exist -/
theorem sOut_nil_of_ge (k : Kernel) (hr : RangeInv k) (v : Nat) (hv : k.nV ≤ v) : k.sOut v = [] := by
  rw [sOut_flat]
  apply flatMap_eq_nil'
  intro e he
  have := hr.edges _ (edgeAt_mem k e (mem_liveIdx_lt he))
  have h1 : (k.edgeAt e).1 ≠ v := by omega
  have h2 : (k.edgeAt e).2 ≠ v := by omega
  simp [outC, h1, h2]

/-- no face uses a halfedge handle that does not exist -/
theorem sHfsOfHe_nil_of_ge (k : Kernel) (hr : RangeInv k) (h : Nat) (hh : k.nHE ≤ h) : k.sHfsOfHe h = [] := by
  rw [sHfsOfHe_flat]
  apply flatMap_eq_nil'
  intro f hf
  have hm := hr.faces _ (faceAt_mem k f (mem_liveIdx_lt hf))
  have h1 : (k.faceAt f).count h = 0 := by
    rw [List.count_eq_zero]; intro hc; have := hm h hc; omega
  have h2 : (k.faceAt f).count (opp h) = 0 := by
    rw [List.count_eq_zero]; intro hc; have := hm _ hc
    unfold nHE at this hh; rw [opp_lt_two_mul] at this; omega
  simp [hfC, h1, h2]

/-- no cell uses a halfface handle that does not exist -/
theorem sCellOf_none_of_ge (k : Kernel) (hr : RangeInv k) (hf : Nat) (hh : k.nHF ≤ hf) : k.sCellOf hf = none := by
  unfold sCellOf sCellsOfHf
  rw [List.head?_filter, List.find?_eq_none]
  intro c hc
  have hm := hr.cells _ (cellAt_mem k c (mem_liveIdx_lt hc))
  simp only [List.contains_iff_mem]
  intro hx; have := hm _ hx; omega

/-! ### slot views of the `modify`-loops that fill the caches -/
theorem snoc2_eq {α} (old : List α) (x y : α) (a b v : Nat) :
    (if b = v then (if a = v then old ++ [x] else old) ++ [y] else (if a = v then old ++ [x] else old)) =
      old ++ ((if a == v then [x] else []) ++ (if b == v then [y] else [])) := by
  by_cases ha : a = v <;> by_cases hb : b = v <;>
    simp only [ha, hb, if_true, if_false, beq_self_eq_true, beq_iff_eq, List.append_nil, List.nil_append,
      List.append_assoc]

theorem perm_flatMap_congr {α β} (l : List α) (f g : α → List β) (h : ∀ x ∈ l, (f x).Perm (g x)) :
    (l.flatMap f).Perm (l.flatMap g) := by
  induction l with
  | nil => exact List.Perm.refl _
  | cons a t ih =>
    simp only [List.flatMap_cons]
    exact (h a (by simp)).append (ih (fun x hx => h x (by simp [hx])))

theorem flatMap_append_perm {α β} (l : List α) (A B : α → List β) :
    (l.flatMap (fun x => A x ++ B x)).Perm (l.flatMap A ++ l.flatMap B) := by
  induction l with
  | nil => exact List.Perm.refl _
  | cons a t ih =>
    simp only [List.flatMap_cons]
    refine ((List.Perm.refl (A a ++ B a)).append ih).trans ?_
    simp only [List.append_assoc]
    refine (List.Perm.refl (A a)).append ?_
    rw [← List.append_assoc, ← List.append_assoc]
    exact List.perm_append_comm.append_right _

theorem flatMap_ite_singleton (l : List Nat) (v c : Nat) :
    l.flatMap (fun x => if x == v then [c] else []) = List.replicate (l.count v) c := by
  induction l with
  | nil => rfl
  | cons a t ih =>
    simp only [List.flatMap_cons, ih, List.count_cons]
    split <;> simp [List.replicate_succ]

/-- the slot-`v` view of one `modify … modify` step -/
theorem getD_modify2 (l : List (List Nat)) (a b v x y : Nat) (hv : v < l.length) :
    ((l.modify a (· ++ [x])).modify b (· ++ [y])).getD v [] =
      l.getD v [] ++ ((if a == v then [x] else []) ++ (if b == v then [y] else [])) := by
  rw [getD_modify _ _ _ _ _ (by simpa using hv), getD_modify _ _ _ _ _ hv]
  exact snoc2_eq _ _ _ _ _ _

/-- the loop of `add_face` / `compute_edge_bottom_up_incidences` over one face, seen at slot `v` -/
def faceLoop (f : Nat) (hes : List Nat) (inc : List (List Nat)) : List (List Nat) :=
  hes.foldl (fun inc h => (inc.modify h (· ++ [heOf f 0])).modify (opp h) (· ++ [heOf f 1])) inc

theorem faceLoop_length (f : Nat) (hes : List Nat) (inc : List (List Nat)) : (faceLoop f hes inc).length = inc.length := by
  unfold faceLoop
  induction hes generalizing inc with
  | nil => rfl
  | cons x t ih => simp only [List.foldl_cons]; rw [ih]; simp

theorem faceLoop_getD (f : Nat) (hes : List Nat) (inc : List (List Nat)) (v : Nat) (hv : v < inc.length) :
    (faceLoop f hes inc).getD v [] =
      inc.getD v [] ++ hes.flatMap (fun h => (if h == v then [2 * f] else []) ++ (if opp h == v then [2 * f + 1] else [])) := by
  unfold faceLoop
  induction hes generalizing inc with
  | nil => simp
  | cons x t ih =>
    simp only [List.foldl_cons, List.flatMap_cons]
    rw [ih _ (by simpa using hv), getD_modify2 _ _ _ _ _ _ hv, heOf_zero_eq, heOf_one_eq, List.append_assoc]

theorem faceLoop_perm (f : Nat) (hes : List Nat) (v : Nat) :
    (hes.flatMap (fun h => (if h == v then [2 * f] else []) ++ (if opp h == v then [2 * f + 1] else []))).Perm
      (hfC hes f v) := by
  refine (flatMap_append_perm hes _ _).trans ?_
  unfold hfC
  rw [flatMap_ite_singleton]
  have : (fun h => if opp h == v then [2 * f + 1] else ([] : List Nat)) = (fun h => if h == opp v then [2 * f + 1] else []) := by
    funext h; rw [opp_beq]
  rw [this, flatMap_ite_singleton]

end Kernel
end OVM

import OVM.Refine.CircReach
import OVM.Tet.ShapeTet
import OVM.Hex.Lemmas
/-
  C05 for the circulators of the specialised kernels, as far as their lists are in the model:
  * TetVertexIter (Mesh/TetrahedralMeshIterators.cc) runs over `get_cell_vertices(ch)` (`Kernel.getCellVertices`,
    OVM/Tet/Query.lean; `tvIter` is that list repeated).  On a cell with `IsTet` (kept along every admissible history of
    the tetrahedral kernel: Props/C15 `tetShape_reachable`, `tetShape_of_construction`) the list has four pairwise
    distinct entries, exactly the vertices of the cell (`tet_vertex_list`; order: Props/C15 `get_cell_vertices_cell`).
  * CellSheetCellIter (Mesh/HexahedralMeshIterators.cc:48-82) runs over `Kernel.cellSheetCells`; on a `GInv` state with
    the face kind enabled it is the brute-force `sSheetCells` (neighbours across the halffaces at positions of the other
    two axes), duplicate-free, live cells only (`sheet_cells_exact`); empty with the face kind off.
  * HexVertexIter runs over `Kernel.hexVertices`: Props/C16 `Frame.hexVertices_eq` / `hex_vertices_pattern` (eight
    distinct vertices in the documented pattern, for every stored rotation of the faces).
  * HalfFaceSheetHalfFaceIter (`Kernel.halffaceSheetHalffaces`): compared with the brute-force `sSheetHalffaces` by the
    judge on every dumped state and by `decide` on the two-cube mesh in Props/C16; no general theorem.
-/
namespace OVM
namespace Kernel
namespace Global
open ScanDel

/-! ### TetVertexIter -/

/-- on a `GInv` state with the face kind enabled every halfface of a live cell names that cell -/
theorem cellOf_of_live {k : Kernel} (hi : GInv k) (hb : k.fBU = true) {c : Nat} (hl : k.liveC c = true) :
    ∀ h ∈ k.cellAt c, k.cellOf h = some c := fun h hm =>
  (cellOf_eq_some_iff hi.wf hi.one hb (hi.wf.range.cells _ (cellAt_mem_cells (liveC_lt hl)) h hm) c).mpr ⟨hl, hm⟩

/-- the list of TetVertexIter on a tetrahedral cell: four distinct entries, exactly the cell's vertices -/
theorem tet_vertex_list {k : Kernel} (hi : GInv k) (hb : k.fBU = true) {c : Nat} (hl : k.liveC c = true)
    (ht : IsTet k c) :
    (k.getCellVertices c).length = 4 ∧ (k.getCellVertices c).Nodup ∧
    (∀ v, v ∈ k.getCellVertices c ↔ v ∈ k.cellVertSet c) ∧
    (∀ m, k.tvIter c m = Circ.rep m (k.getCellVertices c)) := by
  obtain ⟨p, q, r, s, _, hn, hT, he⟩ := getCellVertices_isTet ht (cellOf_of_live hi hb hl)
  refine ⟨by rw [he]; rfl, by rw [he]; exact hn, fun v => by rw [he]; exact (cellVertSet_mem_iff hT v).symm, fun m => rfl⟩

/-! ### CellSheetCellIter -/

theorem orth_test : ∀ d, d < 6 → ∀ o : Nat,
    (o != d && o != oppositeOrientation d) = (o / 2 != d / 2) := by
  intro d hd o
  have h6 : d = 0 ∨ d = 1 ∨ d = 2 ∨ d = 3 ∨ d = 4 ∨ d = 5 := by omega
  rcases h6 with rfl | rfl | rfl | rfl | rfl | rfl <;>
    simp only [show oppositeOrientation 0 = 1 from rfl, show oppositeOrientation 1 = 0 from rfl,
      show oppositeOrientation 2 = 3 from rfl, show oppositeOrientation 3 = 2 from rfl,
      show oppositeOrientation 4 = 5 from rfl, show oppositeOrientation 5 = 4 from rfl] <;>
    (rw [Bool.eq_iff_iff]; simp only [Bool.and_eq_true, bne_iff_ne, ne_eq]; omega)

theorem filterMap_congr_mem {α β} (l : List α) (f g : α → Option β) (h : ∀ a ∈ l, f a = g a) :
    l.filterMap f = l.filterMap g := by
  induction l with
  | nil => rfl
  | cons a t ih =>
    simp only [List.filterMap_cons]
    rw [h a (by simp), ih (fun x hx => h x (List.mem_cons_of_mem _ hx))]

theorem filterMap_zipIdx_of_pos (l : List Nat) (f : Nat → Option Nat) (g : Nat × Nat → Option Nat)
    (h : ∀ i (hi : i < l.length), g (l[i], i) = f l[i]) : l.zipIdx.filterMap g = l.filterMap f := by
  have : l.zipIdx.filterMap g = l.zipIdx.filterMap (fun p => f p.1) := by
    apply filterMap_congr_mem
    intro p hp
    obtain ⟨_, hlt, hx⟩ := List.mem_zipIdx hp
    simp only [Nat.zero_add, Nat.sub_zero] at hlt hx
    have := h p.2 hlt
    rw [← hx] at this
    exact this
  have e2 : l.filterMap f = (l.zipIdx.map Prod.fst).filterMap f := by rw [List.zipIdx_map_fst]
  rw [this, e2, List.filterMap_map]; rfl

/-- **CellSheetCellIter**: the list is the brute-force sheet neighbourhood; duplicate-free; live cells only -/
theorem sheet_cells_exact {k : Kernel} (hi : GInv k) (hb : k.fBU = true) {c : Nat} (hl : k.liveC c = true)
    {dir : Nat} (hd : dir < 6) :
    k.cellSheetCells c dir = k.sSheetCells c dir ∧ (k.cellSheetCells c dir).Nodup ∧
    ∀ x ∈ k.cellSheetCells c dir, k.liveC x = true := by
  have hn := cellAt_nodup hi.wf hi.one hl
  have e : k.cellSheetCells c dir = k.sSheetCells c dir := by
    unfold cellSheetCells sSheetCells
    simp only [hb, Bool.not_true, Bool.false_eq_true, if_false]
    congr 1
    symm
    apply filterMap_zipIdx_of_pos
    intro i hi'
    simp only [orientation_pos k c i hn hi', orth_test dir hd i]
    split
    · have hr : opp (k.cellAt c)[i] < k.nHF := by
        have := hi.wf.range.cells _ (cellAt_mem_cells (liveC_lt hl)) _ (List.getElem_mem hi')
        unfold Kernel.nHF at *; exact (opp_lt_two_mul _ _).mpr this
      exact ((hi.wf.cache.f hb).2 _ hr).symm
    · rfl
  refine ⟨e, ?_, ?_⟩
  · unfold cellSheetCells; split
    · exact List.nodup_nil
    · exact sortUniq_nodup _
  · intro x hx
    unfold cellSheetCells at hx
    simp only [hb, Bool.not_true, Bool.false_eq_true, if_false] at hx
    rw [mem_sortUniq, List.mem_filterMap] at hx
    obtain ⟨hf, hm, hco⟩ := hx
    split at hco
    · have hr : opp hf < k.nHF := by
        have := hi.wf.range.cells _ (cellAt_mem_cells (liveC_lt hl)) _ hm
        unfold Kernel.nHF at *; exact (opp_lt_two_mul _ _).mpr this
      exact ((cellOf_eq_some_iff hi.wf hi.one hb hr x).mp hco).1
    · cases hco

theorem sheet_cells_disabled (k : Kernel) (c dir : Nat) (hb : k.fBU = false) : k.cellSheetCells c dir = [] := by
  unfold cellSheetCells; simp [hb]

end Global
end Kernel
end OVM

import OVM.Refine.RotInvGC
/-
  RotInv, part 10 (builder R1): `collect_garbage` in FAST mode (the default configuration).  One flagged step =
  `swap_X_indices` with the last slot (a relabeling: OVM/Refine/RotInvSwap.lean), then un-flag + unlink + pop of the
  flagged last slot (OVM/Refine/RotInvGC.lean).  `WF`, `oneCell` and the upward closure of the stepped state are K3's
  `gcStepC/F/E/V` (OVM/Refine/CacheFastGC.lean); the sweep induction is K3's `k3_gcSweep_induct`.
-/
namespace OVM
namespace Kernel
namespace Rot
open Fan CellCheck ScanDel

theorem closed_of_up {k : Kernel} (hC : UpC k) (hF : UpF k) (hE : UpE k) : Closed k :=
  (Global.closed_iff_up k).mpr ⟨hC, hF, hE⟩

theorem upC_of_noFlag {k : Kernel} (h : NoFlag k.fDel) : UpC k := by
  intro c _ _ x _; unfold fDeleted; exact h.getD _

/-! ### one flagged step of each sweep -/

theorem rotStepC_fast {k : Kernel} (hi : FastGCInv k) {m : Nat} (hm : m < k.nC) (hdel : k.cDeleted m = true)
    (habove : ∀ j, m < j → k.cDeleted j = false) (hC : UpC k) (hF : UpF k) (hE : UpE k) (hr : RotInv k) :
    RotInv (deleteCellCore (unflagC k m) m) := by
  obtain ⟨g1, _, _, g4, g5, g6⟩ := gcStepC hi hm hdel habove hC hF hE
  have hwB := g1.wf
  have hcB := closed_of_up g4 g5 g6
  have hlC := hi.wf.len.cDel
  have hlast : k.nC - 1 < k.nC := by omega
  have e0 : deleteCellCore (unflagC k m) m =
      ((unflagC (k.swapCell m (k.nC - 1)) (k.nC - 1)).unlinkCell (k.nC - 1)).eraseCell (k.nC - 1) := by
    rw [deleteCellCore_fast_eq m (by simpa [unflagC] using hi.imm) (by simpa [unflagC] using hi.fast)]
    have : (unflagC k m).nC = k.nC := rfl
    rw [this, unflagC_swapCell k (by rw [hlC]; exact hm) (by rw [hlC]; exact hlast)]
  have hw1 := wf_swapCell hm hlast hi.wf hi.one
  have hn1 : (k.swapCell m (k.nC - 1)).nC = k.nC := by unfold nC; rw [swapCell_cells_eq]; simp
  have hdead1 : (k.swapCell m (k.nC - 1)).cDeleted (k.nC - 1) = true := by
    unfold cDeleted; rw [swapCell_cDel_eq, getD_swapAt _ _ _ _ _ (by rw [hlC]; exact hm) (by rw [hlC]; exact hlast)]
    rw [k3_relabelId_last]; exact hdel
  rw [e0] at hwB hcB ⊢
  exact rotInv_popDeadCell hdead1 (fun _ => by rw [hn1]) hw1 hwB hcB
    (rotInv_swapCell hm hlast hi.wf (closed_of_up hC hF hE) hw1 hr)

theorem rotStepF_fast {k : Kernel} (hi : FastGCInv k) {m : Nat} (hm : m < k.nF) (hdel : k.fDeleted m = true)
    (habove : ∀ j, m < j → k.fDeleted j = false) (hnfC : NoFlag k.cDel) (hC : UpC k) (hF : UpF k) (hE : UpE k)
    (hr : RotInv k) : RotInv (deleteFaceCore (unflagF k m) m) := by
  obtain ⟨g1, _, _, _, g5, g6, g7⟩ := gcStepF hi hm hdel habove hnfC hC hF hE
  have hwB := g1.wf
  have hcB := closed_of_up g5 g6 g7
  have hlF := hi.wf.len.fDel
  have hlast : k.nF - 1 < k.nF := by omega
  have e0 : deleteFaceCore (unflagF k m) m =
      ((unflagF (k.swapFace m (k.nF - 1)) (k.nF - 1)).unlinkFace (k.nF - 1)).eraseFace (k.nF - 1) := by
    rw [deleteFaceCore_fast_eq m (by simpa [unflagF] using hi.imm) (by simpa [unflagF] using hi.fast)]
    have : (unflagF k m).nF = k.nF := rfl
    rw [this, unflagF_swapFace k (by rw [hlF]; exact hm) (by rw [hlF]; exact hlast)]
  have hw1 := wf_swapFace' hm hlast hi.wf (fun _ => hi.one)
  have h11 := oneCell_swapFace hm hlast hi.wf.cache.f hi.one
  have hn1 : (k.swapFace m (k.nF - 1)).nF = k.nF := swapFace_faces_length k _ _
  have hdead1 : (k.swapFace m (k.nF - 1)).fDeleted (k.nF - 1) = true := by
    unfold fDeleted
    rw [swapFace_fDel_eq, getD_swapAt _ _ _ _ _ (by rw [hlF]; exact hm) (by rw [hlF]; exact hlast), k3_relabelId_last]
    exact hdel
  have hcref : ∀ c0 ∈ k.cells, ∀ y ∈ c0, k.fDeleted (y / 2) = false := by
    intro c0 hc0 y hy
    obtain ⟨i, hil, rfl⟩ := k3_mem_getD [] hc0
    exact hC i hil (by unfold cDeleted; exact hnfC.getD i) y hy
  have hall := swapFace_cells_all hm hlast hi.wf.cache.f (fun _ => hi.one) (fun _ => hnfC)
  have hno1 : ∀ c ∈ (k.swapFace m (k.nF - 1)).cells, ∀ x ∈ c, eOf x ≠ k.nF - 1 := by
    intro c hc x hx e
    obtain ⟨c0, hc0, rfl⟩ := hall c hc
    rw [k3_mem_map_relabelHalf] at hx
    have := hcref c0 hc0 _ hx
    have e' : x / 2 = k.nF - 1 := e
    rw [k3_relabelHalf_div, e', k3_relabelId_last, hdel] at this
    cases this
  have hcl1 : ∀ c, c < (k.swapFace m (k.nF - 1)).nC → (k.swapFace m (k.nF - 1)).cDeleted c = false := by
    intro c _; unfold cDeleted; rw [swapFace_cDel]; exact hnfC.getD c
  rw [e0] at hwB hcB ⊢
  exact rotInv_popDeadFace (by rw [hn1]; exact hlast) hdead1 (fun _ => by rw [hn1]) hw1 h11 hcl1 hno1 hwB hcB
    (rotInv_swapFace hm hlast hi.wf hi.one (closed_of_up hC hF hE) hw1 hr)

theorem rotStepE_fast {k : Kernel} (hi : FastGCInv k) {m : Nat} (hm : m < k.nE) (hdel : k.eDeleted m = true)
    (habove : ∀ j, m < j → k.eDeleted j = false) (hnfC : NoFlag k.cDel) (hnfF : NoFlag k.fDel)
    (hF : UpF k) (hE : UpE k) (hr : RotInv k) : RotInv (deleteEdgeCore (unflagE k m) m) := by
  obtain ⟨g1, _, _, _, g5, g6, g7⟩ := gcStepE hi hm hdel habove hnfC hnfF hF hE
  have hwB := g1.wf
  have hcB := closed_of_up (upC_of_noFlag g5) g6 g7
  have hlE := hi.wf.len.eDel
  have hlast : k.nE - 1 < k.nE := by omega
  have e0 : deleteEdgeCore (unflagE k m) m =
      ((unflagE (k.swapEdge m (k.nE - 1)) (k.nE - 1)).unlinkEdge (k.nE - 1)).eraseEdge (k.nE - 1) := by
    rw [deleteEdgeCore_fast_eq m (by simpa [unflagE] using hi.imm) (by simpa [unflagE] using hi.fast)]
    have : (unflagE k m).nE = k.nE := rfl
    rw [this, unflagE_swapEdge k (by rw [hlE]; exact hm) (by rw [hlE]; exact hlast)]
  have hw1 := wf_swapEdge hm hlast hi.wf
  have hn1 : (k.swapEdge m (k.nE - 1)).nE = k.nE := swapEdge_edges_length k _ _
  have hdead1 : (k.swapEdge m (k.nE - 1)).eDeleted (k.nE - 1) = true := by
    unfold eDeleted
    rw [swapEdge_eDel_eq, getD_swapAt _ _ _ _ _ (by rw [hlE]; exact hm) (by rw [hlE]; exact hlast), k3_relabelId_last]
    exact hdel
  have hfref : ∀ f0 ∈ k.faces, ∀ y ∈ f0, k.eDeleted (y / 2) = false := by
    intro f0 hf0 y hy
    obtain ⟨i, hil, rfl⟩ := k3_mem_getD [] hf0
    exact hF i hil (by unfold fDeleted; exact hnfF.getD i) y hy
  have hall := swapEdge_faces_all hm hlast hi.wf.cache.e (fun _ => hnfF)
  have hno1 : ∀ f ∈ (k.swapEdge m (k.nE - 1)).faces, ∀ x ∈ f, eOf x ≠ k.nE - 1 := by
    intro f hf x hx e
    obtain ⟨f0, hf0, rfl⟩ := hall f hf
    rw [k3_mem_map_relabelHalf] at hx
    have := hfref f0 hf0 _ hx
    have e' : x / 2 = k.nE - 1 := e
    rw [k3_relabelHalf_div, e', k3_relabelId_last, hdel] at this
    cases this
  have hfl1 : ∀ f, f < (k.swapEdge m (k.nE - 1)).nF → (k.swapEdge m (k.nE - 1)).fDeleted f = false := by
    intro f _; unfold fDeleted; rw [swapEdge_fDel]; exact hnfF.getD f
  rw [e0] at hwB hcB ⊢
  exact rotInv_popDeadEdge (by rw [hn1]; exact hlast) hdead1 (fun _ => by rw [hn1]) hw1 hfl1 hno1 hwB hcB
    (rotInv_swapEdge hm hlast hi.wf (closed_of_up (upC_of_noFlag hnfF) hF hE) hw1 hr)

theorem rotStepV_fast {k : Kernel} (hi : FastGCInv k) {m : Nat} (hm : m < k.nV) (hr : RotInv k) :
    RotInv (deleteVertexCore (unflagV k m) m) := by
  have hlV := hi.wf.len.vDel
  have hlast : k.nV - 1 < k.nV := by omega
  have e0 : deleteVertexCore (unflagV k m) m = (unflagV (k.swapVertex m (k.nV - 1)) (k.nV - 1)).eraseVertex (k.nV - 1) := by
    rw [deleteVertexCore_fast_eq m (by simpa [unflagV] using hi.imm) (by simpa [unflagV] using hi.fast)]
    have : (unflagV k m).nV = k.nV := rfl
    rw [this, unflagV_swapVertex k (by rw [hlV]; exact hm) (by rw [hlV]; exact hlast)]
  rw [e0]
  apply rotInv_eraseVertex
  exact rotInv_of_same (A := k.swapVertex m (k.nV - 1)) (fun h1 h2 => ⟨h1, h2⟩) ⟨rfl, rfl, rfl, rfl⟩ (fun _ => rfl)
    (rotInv_swapVertex _ _ hr)

/-! ### the four sweeps -/

theorem rotInv_withNDel {k : Kernel} (a b c d : Nat) (hr : RotInv k) :
    RotInv { k with nDelV := a, nDelE := b, nDelF := c, nDelC := d } :=
  rotInv_of_same (A := k) (fun h1 h2 => ⟨h1, h2⟩) ⟨rfl, rfl, rfl, rfl⟩ (fun _ => rfl) hr

theorem rotInv_gcCells_fast {k : Kernel} (hi : FastGCInv k) (hC : UpC k) (hF : UpF k) (hE : UpE k) (hr : RotInv k) :
    RotInv (gcCells k) := by
  have key := k3_gcSweep_induct
    (fun m k => (FastGCInv k ∧ m ≤ k.nC ∧ (∀ j, m ≤ j → k.cDeleted j = false) ∧ UpC k ∧ UpF k ∧ UpE k) ∧ RotInv k)
    cDeleted (fun k i => { k with cDel := k.cDel.set i false }) deleteCellCore
    (by
      intro m k ⟨⟨h1, h2, h3, h4, h5, h6⟩, hr⟩
      by_cases hd : k.cDeleted m = true
      · rw [if_pos hd]
        exact ⟨gcStepC h1 (by omega) hd (fun j hj => h3 j (by omega)) h4 h5 h6,
          rotStepC_fast h1 (by omega) hd (fun j hj => h3 j (by omega)) h4 h5 h6 hr⟩
      · rw [if_neg hd]
        refine ⟨⟨h1, by omega, ?_, h4, h5, h6⟩, hr⟩
        intro j hj
        by_cases e : j = m
        · subst e; simpa using hd
        · exact h3 j (by omega))
    k.nC k
    ⟨⟨hi, Nat.le_refl _, fun j hj => by
        unfold cDeleted; exact getD_of_ge _ _ _ (by rw [hi.wf.len.cDel]; exact hj), hC, hF, hE⟩, hr⟩
  unfold gcCells
  exact rotInv_withNDel _ _ _ 0 key.2

theorem rotInv_gcFaces_fast {k : Kernel} (hi : FastGCInv k) (hnfC : NoFlag k.cDel) (hC : UpC k) (hF : UpF k) (hE : UpE k)
    (hr : RotInv k) : RotInv (gcFaces k) := by
  have key := k3_gcSweep_induct
    (fun m k => (FastGCInv k ∧ m ≤ k.nF ∧ (∀ j, m ≤ j → k.fDeleted j = false) ∧ NoFlag k.cDel ∧ UpC k ∧ UpF k ∧ UpE k) ∧
      RotInv k)
    fDeleted (fun k i => { k with fDel := k.fDel.set i false }) deleteFaceCore
    (by
      intro m k ⟨⟨h1, h2, h3, h4, h5, h6, h7⟩, hr⟩
      by_cases hd : k.fDeleted m = true
      · rw [if_pos hd]
        exact ⟨gcStepF h1 (by omega) hd (fun j hj => h3 j (by omega)) h4 h5 h6 h7,
          rotStepF_fast h1 (by omega) hd (fun j hj => h3 j (by omega)) h4 h5 h6 h7 hr⟩
      · rw [if_neg hd]
        refine ⟨⟨h1, by omega, ?_, h4, h5, h6, h7⟩, hr⟩
        intro j hj
        by_cases e : j = m
        · subst e; simpa using hd
        · exact h3 j (by omega))
    k.nF k
    ⟨⟨hi, Nat.le_refl _, fun j hj => by
        unfold fDeleted; exact getD_of_ge _ _ _ (by rw [hi.wf.len.fDel]; exact hj), hnfC, hC, hF, hE⟩, hr⟩
  unfold gcFaces
  exact rotInv_withNDel _ _ 0 _ key.2

theorem rotInv_gcEdges_fast {k : Kernel} (hi : FastGCInv k) (hnfC : NoFlag k.cDel) (hnfF : NoFlag k.fDel)
    (hF : UpF k) (hE : UpE k) (hr : RotInv k) : RotInv (gcEdges k) := by
  have key := k3_gcSweep_induct
    (fun m k => (FastGCInv k ∧ m ≤ k.nE ∧ (∀ j, m ≤ j → k.eDeleted j = false) ∧ NoFlag k.cDel ∧ NoFlag k.fDel ∧
      UpF k ∧ UpE k) ∧ RotInv k)
    eDeleted (fun k i => { k with eDel := k.eDel.set i false }) deleteEdgeCore
    (by
      intro m k ⟨⟨h1, h2, h3, h4, h5, h6, h7⟩, hr⟩
      by_cases hd : k.eDeleted m = true
      · rw [if_pos hd]
        exact ⟨gcStepE h1 (by omega) hd (fun j hj => h3 j (by omega)) h4 h5 h6 h7,
          rotStepE_fast h1 (by omega) hd (fun j hj => h3 j (by omega)) h4 h5 h6 h7 hr⟩
      · rw [if_neg hd]
        refine ⟨⟨h1, by omega, ?_, h4, h5, h6, h7⟩, hr⟩
        intro j hj
        by_cases e : j = m
        · subst e; simpa using hd
        · exact h3 j (by omega))
    k.nE k
    ⟨⟨hi, Nat.le_refl _, fun j hj => by
        unfold eDeleted; exact getD_of_ge _ _ _ (by rw [hi.wf.len.eDel]; exact hj), hnfC, hnfF, hF, hE⟩, hr⟩
  unfold gcEdges
  exact rotInv_withNDel _ 0 _ _ key.2

theorem rotInv_gcVerts_fast {k : Kernel} (hi : FastGCInv k) (hnfC : NoFlag k.cDel) (hnfF : NoFlag k.fDel)
    (hnfE : NoFlag k.eDel) (hE : UpE k) (hr : RotInv k) : RotInv (gcVerts k) := by
  have hR : VRef k := by
    intro e he
    obtain ⟨i, hil, rfl⟩ := k3_mem_getD (0, 0) he
    exact hE i hil (by unfold eDeleted; exact hnfE.getD i)
  have key := k3_gcSweep_induct
    (fun m k => (FastGCInv k ∧ m ≤ k.nV ∧ (∀ j, m ≤ j → k.vDeleted j = false) ∧ NoFlag k.cDel ∧ NoFlag k.fDel ∧
      NoFlag k.eDel ∧ VRef k) ∧ RotInv k)
    vDeleted (fun k i => { k with vDel := k.vDel.set i false }) deleteVertexCore
    (by
      intro m k ⟨⟨h1, h2, h3, h4, h5, h6, h7⟩, hr⟩
      by_cases hd : k.vDeleted m = true
      · rw [if_pos hd]
        exact ⟨gcStepV h1 (by omega) hd (fun j hj => h3 j (by omega)) h4 h5 h6 h7, rotStepV_fast h1 (by omega) hr⟩
      · rw [if_neg hd]
        refine ⟨⟨h1, by omega, ?_, h4, h5, h6, h7⟩, hr⟩
        intro j hj
        by_cases e : j = m
        · subst e; simpa using hd
        · exact h3 j (by omega))
    k.nV k
    ⟨⟨hi, Nat.le_refl _, fun j hj => by
        unfold vDeleted; exact getD_of_ge _ _ _ (by rw [hi.wf.len.vDel]; exact hj), hnfC, hnfF, hnfE, hR⟩, hr⟩
  unfold gcVerts
  exact rotInv_withNDel 0 _ _ _ key.2

/-- **`collect_garbage` in fast mode keeps the invariant** -/
theorem rotInv_collectGarbage_fast {k : Kernel} (hf : k.fast = true) (hw : WF k) (h1 : k.oneCell = true)
    (hC : UpC k) (hF : UpF k) (hE : UpE k) (hr : RotInv k) : RotInv k.collectGarbage := by
  unfold collectGarbage
  by_cases hrun : (!k.deferred || !k.needsGC) = true
  · rw [if_pos hrun]; exact hr
  · rw [if_neg hrun]
    have hi0 : FastGCInv { k with deferred := false } :=
      ⟨rfl, hf, wf_withDeferred false hw, (oneCell_withDeferred k false).trans h1⟩
    have r0 : RotInv { k with deferred := false } := rotInv_withDeferred false hr
    obtain ⟨c1, c2, c3, c4, c5⟩ := gcCells_fast hi0 hC hF hE
    have rc := rotInv_gcCells_fast hi0 hC hF hE r0
    obtain ⟨f1, f2, f3, f4, f5⟩ := gcFaces_fast c1 c2 c3 c4 c5
    have rf := rotInv_gcFaces_fast c1 c2 c3 c4 c5 rc
    obtain ⟨e1, e2, e3, e4, e5⟩ := gcEdges_fast f1 f2 f3 f4 f5
    have re := rotInv_gcEdges_fast f1 f2 f3 f4 f5 rf
    have rv := rotInv_gcVerts_fast e1 e2 e3 e4 e5 re
    exact rotInv_withDeferred true rv

end Rot
end Kernel
end OVM

import OVM.Refine.GlobalSwap
/-
  `GInv` is kept by `delete_vertex/edge/face/cell` in all four deletion modes, by `collect_garbage` and by
  `enable_deferred_deletion`, under `Global.OpOK` (valid handle; nothing for the last two).
    deferred            — K2 `defInv_delete*` (CacheDelete.lean) + K4 `closed_delete*_deferred` (CacheClosed.lean)
                          + the counter bookkeeping `df_delete*` (new: a flagged kind has a positive counter);
    immediate, fast     — K3 `immInv_delete*` (CacheFastClosure.lean); `GInv` gives `ImmInv` because in immediate
                          mode nothing is flagged (`FlagInv`), and `ImmInv` + "no vertex flag" gives `GInv` back;
    immediate, shifting — K4 `Shift.immInv_delete*` (CacheImmediate.lean), same round trip;
    collect_garbage     — fast: K3 `collectGarbage_fast`; shifting: K4 `collected_collectGarbage`; both leave no flag.
  New frames: no `delete_cell/face/edge` touches the vertex flags in any mode; `delete_vertex` keeps "no vertex flag"
  in immediate mode.
-/
namespace OVM
namespace Kernel
namespace Global
open ScanDel

/-! ### frames of the deletion cores that hold in every mode -/

theorem deleteCellCore_vDel (k : Kernel) (h : Nat) : (k.deleteCellCore h).vDel = k.vDel := by
  unfold deleteCellCore; simp only []; (repeat' split) <;> simp [swapCell_vDel]
theorem deleteFaceCore_vDel (k : Kernel) (h : Nat) : (k.deleteFaceCore h).vDel = k.vDel := by
  unfold deleteFaceCore; simp only []; (repeat' split) <;> simp [swapFace_vDel]
theorem deleteEdgeCore_vDel (k : Kernel) (h : Nat) : (k.deleteEdgeCore h).vDel = k.vDel := by
  unfold deleteEdgeCore; simp only []; (repeat' split) <;> simp [swapEdge_vDel]

theorem noFlag_vDel_deleteVertexCore {k : Kernel} (h : Nat) (hd : k.deferred = false) (hn : NoFlag k.vDel) :
    NoFlag (k.deleteVertexCore h).vDel := by
  unfold deleteVertexCore
  simp only [hd, Bool.not_false, Bool.and_true]
  split
  · simp only [swapVertex_deferred, hd, Bool.false_eq_true, if_false, eraseVertex_vDel, swapVertex_vDel_eq]
    exact (hn.swapAt _ _).eraseIdx _
  · simp only [hd, Bool.false_eq_true, if_false, eraseVertex_vDel]
    exact hn.eraseIdx _

theorem deleteCell_vDel (k : Kernel) (c : Nat) : (k.deleteCell c).vDel = k.vDel := deleteCellCore_vDel k c

theorem deleteFace_vDel (k : Kernel) (f : Nat) : (k.deleteFace f).vDel = k.vDel := by
  unfold deleteFace
  simp only [deleteFaceCore_vDel]
  exact foldl_frame (·.vDel) deleteCellCore deleteCellCore_vDel _ k

theorem deleteEdge_vDel (k : Kernel) (e : Nat) : (k.deleteEdge e).vDel = k.vDel := by
  unfold deleteEdge
  simp only [deleteEdgeCore_vDel]
  rw [foldl_frame (·.vDel) deleteFaceCore deleteFaceCore_vDel]
  exact foldl_frame (·.vDel) deleteCellCore deleteCellCore_vDel _ k

theorem noFlag_vDel_deleteVertex {k : Kernel} (v : Nat) (hd : k.deferred = false) (hn : NoFlag k.vDel) :
    NoFlag (k.deleteVertex v).vDel := by
  unfold deleteVertex
  simp only
  apply noFlag_vDel_deleteVertexCore
  · rw [foldl_frame (·.deferred) deleteEdgeCore deleteEdgeCore_deferred,
      foldl_frame (·.deferred) deleteFaceCore deleteFaceCore_deferred,
      foldl_frame (·.deferred) deleteCellCore deleteCellCore_deferred]
    exact hd
  · rw [foldl_frame (·.vDel) deleteEdgeCore deleteEdgeCore_vDel,
      foldl_frame (·.vDel) deleteFaceCore deleteFaceCore_vDel,
      foldl_frame (·.vDel) deleteCellCore deleteCellCore_vDel]
    exact hn

/-! ### deferred deletion: the flag bookkeeping -/

/-- deferred mode with consistent bookkeeping -/
def DF (k : Kernel) : Prop := k.deferred = true ∧ FlagInv k

theorem df_deleteCellCore (k : Kernel) (h : Nat) (hi : DF k) : DF (k.deleteCellCore h) := by
  obtain ⟨hd, hf⟩ := hi
  rw [deleteCellCore_deferred_eq h hd]
  refine ⟨by simpa using hd, ⟨fun p => ?_, fun p => ?_, fun p => ?_, fun p => ?_⟩⟩
  · simp [hd] at p
  · simp only [flagCell_fDel, unlinkCell_fDel]; exact hf.f (by simpa using p)
  · simp only [flagCell_eDel, unlinkCell_eDel]; exact hf.e (by simpa using p)
  · simp only [flagCell_vDel, unlinkCell_vDel]; exact hf.v (by simpa using p)

theorem df_deleteFaceCore (k : Kernel) (h : Nat) (hi : DF k) : DF (k.deleteFaceCore h) := by
  obtain ⟨hd, hf⟩ := hi
  rw [deleteFaceCore_deferred_eq h hd]
  refine ⟨by simpa using hd, ⟨fun p => ?_, fun p => ?_, fun p => ?_, fun p => ?_⟩⟩
  · simp only [flagFace_cDel, unlinkFace_cDel]; exact hf.c (by simpa using p)
  · simp [hd] at p
  · simp only [flagFace_eDel, unlinkFace_eDel]; exact hf.e (by simpa using p)
  · simp only [flagFace_vDel, unlinkFace_vDel]; exact hf.v (by simpa using p)

theorem df_deleteEdgeCore (k : Kernel) (h : Nat) (hi : DF k) : DF (k.deleteEdgeCore h) := by
  obtain ⟨hd, hf⟩ := hi
  rw [deleteEdgeCore_deferred_eq h hd]
  refine ⟨by simpa using hd, ⟨fun p => ?_, fun p => ?_, fun p => ?_, fun p => ?_⟩⟩
  · simp only [flagEdge_cDel, unlinkEdge_cDel]; exact hf.c (by simpa using p)
  · simp only [flagEdge_fDel, unlinkEdge_fDel]; exact hf.f (by simpa using p)
  · simp [hd] at p
  · simp only [flagEdge_vDel, unlinkEdge_vDel]; exact hf.v (by simpa using p)

theorem df_deleteVertexCore (k : Kernel) (h : Nat) (hi : DF k) : DF (k.deleteVertexCore h) := by
  obtain ⟨hd, hf⟩ := hi
  rw [deleteVertexCore_deferred_eq h hd]
  refine ⟨by simpa using hd, ⟨fun p => ?_, fun p => ?_, fun p => ?_, fun p => ?_⟩⟩
  · simp only [flagVertex_cDel]; exact hf.c (by simpa using p)
  · simp only [flagVertex_fDel]; exact hf.f (by simpa using p)
  · simp only [flagVertex_eDel]; exact hf.e (by simpa using p)
  · simp [hd] at p

theorem df_foldl (core : Kernel → Nat → Kernel) (hc : ∀ k h, DF k → DF (core k h))
    (xs : List Nat) (k : Kernel) (hi : DF k) : DF (xs.foldl core k) := by
  induction xs generalizing k with
  | nil => exact hi
  | cons x t ih => simp only [List.foldl_cons]; exact ih _ (hc k x hi)

theorem df_deleteCell {k : Kernel} (c : Nat) (hi : DF k) : DF (k.deleteCell c) := df_deleteCellCore k c hi
theorem df_deleteFace {k : Kernel} (f : Nat) (hi : DF k) : DF (k.deleteFace f) := by
  unfold deleteFace
  exact df_deleteFaceCore _ _ (df_foldl _ df_deleteCellCore _ _ hi)
theorem df_deleteEdge {k : Kernel} (e : Nat) (hi : DF k) : DF (k.deleteEdge e) := by
  unfold deleteEdge
  exact df_deleteEdgeCore _ _ (df_foldl _ df_deleteFaceCore _ _ (df_foldl _ df_deleteCellCore _ _ hi))
theorem df_deleteVertex {k : Kernel} (v : Nat) (hi : DF k) : DF (k.deleteVertex v) := by
  unfold deleteVertex
  exact df_deleteVertexCore _ _ (df_foldl _ df_deleteEdgeCore _ _
    (df_foldl _ df_deleteFaceCore _ _ (df_foldl _ df_deleteCellCore _ _ hi)))

/-! ### immediate deletion: from `GInv` into K3's / K4's immediate-mode invariants and back -/

theorem immInv_of_ginv {k : Kernel} (hi : GInv k) (hd : k.deferred = false) (hf : k.fast = true) : ImmInv k :=
  have n := hi.noFlag_of_immediate hd
  ⟨hd, hf, hi.wf, hi.one, n.1, n.2.1, n.2.2.1⟩

theorem shiftImmInv_of_ginv {k : Kernel} (hi : GInv k) (hd : k.deferred = false) (hf : k.fast = false) : Shift.ImmInv k :=
  have n := hi.noFlag_of_immediate hd
  ⟨hd, hf, hi.wf, hi.one, cellsLive_of_noFlag n.1, facesLive_of_noFlag n.2.1, edgesLive_of_noFlag n.2.2.1⟩

theorem ginv_of_immInv {k : Kernel} (hi : ImmInv k) (hv : NoFlag k.vDel) : GInv k :=
  ginv_of_noFlag hi.wf hi.one hi.nfC hi.nfF hi.nfE hv

theorem ginv_of_shiftImmInv {k : Kernel} (hi : Shift.ImmInv k) (hv : NoFlag k.vDel) : GInv k :=
  ginv_of_noFlag hi.wf hi.one (noFlag_of_live hi.wf.len.cDel hi.cells) (noFlag_of_live hi.wf.len.fDel hi.faces)
    (noFlag_of_live hi.wf.len.eDel hi.edges) hv

/-! ### the four `delete_*`, every mode -/

theorem ginv_deleteCell {k : Kernel} {c : Nat} (hc : c < k.nC) (hi : GInv k) : GInv (k.deleteCell c) := by
  by_cases hd : k.deferred = true
  · have a := defInv_deleteCell c ⟨hd, hi.wf, hi.one⟩
    exact ⟨a.2.1, a.2.2, closed_deleteCell_deferred hd hi.wf hi.closed c, (df_deleteCell c ⟨hd, hi.flags⟩).2⟩
  · have hd' : k.deferred = false := by simpa using hd
    have hv : NoFlag (k.deleteCell c).vDel := by rw [deleteCell_vDel]; exact (hi.noFlag_of_immediate hd').2.2.2
    by_cases hf : k.fast = true
    · exact ginv_of_immInv (immInv_deleteCell (immInv_of_ginv hi hd' hf) hc) hv
    · exact ginv_of_shiftImmInv (Shift.immInv_deleteCell (shiftImmInv_of_ginv hi hd' (by simpa using hf)) hc) hv

theorem ginv_deleteFace {k : Kernel} {f : Nat} (hc : f < k.nF) (hi : GInv k) : GInv (k.deleteFace f) := by
  by_cases hd : k.deferred = true
  · have a := defInv_deleteFace f ⟨hd, hi.wf, hi.one⟩
    exact ⟨a.2.1, a.2.2, closed_deleteFace_deferred hd hi.wf hi.one hi.closed f, (df_deleteFace f ⟨hd, hi.flags⟩).2⟩
  · have hd' : k.deferred = false := by simpa using hd
    have hv : NoFlag (k.deleteFace f).vDel := by rw [deleteFace_vDel]; exact (hi.noFlag_of_immediate hd').2.2.2
    by_cases hf : k.fast = true
    · exact ginv_of_immInv (immInv_deleteFace (immInv_of_ginv hi hd' hf) hc) hv
    · exact ginv_of_shiftImmInv (Shift.immInv_deleteFace (shiftImmInv_of_ginv hi hd' (by simpa using hf)) hc) hv

theorem ginv_deleteEdge {k : Kernel} {e : Nat} (hc : e < k.nE) (hi : GInv k) : GInv (k.deleteEdge e) := by
  by_cases hd : k.deferred = true
  · have a := defInv_deleteEdge e ⟨hd, hi.wf, hi.one⟩
    exact ⟨a.2.1, a.2.2, closed_deleteEdge_deferred hd hi.wf hi.one hi.closed e, (df_deleteEdge e ⟨hd, hi.flags⟩).2⟩
  · have hd' : k.deferred = false := by simpa using hd
    have hv : NoFlag (k.deleteEdge e).vDel := by rw [deleteEdge_vDel]; exact (hi.noFlag_of_immediate hd').2.2.2
    by_cases hf : k.fast = true
    · exact ginv_of_immInv (immInv_deleteEdge (immInv_of_ginv hi hd' hf) hc) hv
    · exact ginv_of_shiftImmInv (Shift.immInv_deleteEdge (shiftImmInv_of_ginv hi hd' (by simpa using hf)) hc) hv

theorem ginv_deleteVertex {k : Kernel} {v : Nat} (hc : v < k.nV) (hi : GInv k) : GInv (k.deleteVertex v) := by
  by_cases hd : k.deferred = true
  · have a := defInv_deleteVertex v ⟨hd, hi.wf, hi.one⟩
    exact ⟨a.2.1, a.2.2, closed_deleteVertex_deferred hd hi.wf hi.one hi.closed v, (df_deleteVertex v ⟨hd, hi.flags⟩).2⟩
  · have hd' : k.deferred = false := by simpa using hd
    have hv : NoFlag (k.deleteVertex v).vDel := noFlag_vDel_deleteVertex v hd' (hi.noFlag_of_immediate hd').2.2.2
    by_cases hf : k.fast = true
    · exact ginv_of_immInv (immInv_deleteVertex (immInv_of_ginv hi hd' hf) hc) hv
    · exact ginv_of_shiftImmInv (Shift.immInv_deleteVertex (shiftImmInv_of_ginv hi hd' (by simpa using hf)) hc) hv

/-! ### collect_garbage and the deletion-mode switch -/

/-- `collect_garbage` when it runs: well-formed, `oneCell`, and NO flag left — in fast mode by K3's
    `collectGarbage_fast` (its `UpC/UpF/UpE` are `Closed`, `closed_iff_up`), otherwise by K4's
    `collected_collectGarbage` -/
theorem gc_noFlag {k : Kernel} (hi : GInv k) (hd : k.deferred = true) (hg : k.needsGC = true) :
    WF k.collectGarbage ∧ k.collectGarbage.oneCell = true ∧ NoFlag k.collectGarbage.cDel ∧
    NoFlag k.collectGarbage.fDel ∧ NoFlag k.collectGarbage.eDel ∧ NoFlag k.collectGarbage.vDel := by
  by_cases hf : k.fast = true
  · obtain ⟨hC, hF, hE⟩ := (closed_iff_up k).mp hi.closed
    obtain ⟨g1, g2, _, g3⟩ := collectGarbage_fast hf hi.wf hi.one hC hF hE
    obtain ⟨n1, n2, n3, n4⟩ := g3 hd hg
    exact ⟨g1, g2, n1, n2, n3, n4⟩
  · have c := collected_collectGarbage hd hg (by simpa using hf) hi.wf hi.one hi.closed
    exact ⟨c.wf, c.one, noFlag_of_live c.wf.len.cDel c.cells, noFlag_of_live c.wf.len.fDel c.faces,
      noFlag_of_live c.wf.len.eDel c.edges, noFlag_of_live c.wf.len.vDel c.verts⟩

theorem collectGarbage_id {k : Kernel} (h : ¬ (k.deferred = true ∧ k.needsGC = true)) : k.collectGarbage = k := by
  unfold collectGarbage
  rw [if_pos]
  cases hd : k.deferred <;> cases hg : k.needsGC <;> simp_all

theorem collectGarbage_deferred (k : Kernel) : k.collectGarbage.deferred = k.deferred := by
  unfold collectGarbage; split
  · rfl
  · rename_i h; simp at h; exact h.1.symm

theorem ginv_collectGarbage {k : Kernel} (hi : GInv k) : GInv k.collectGarbage := by
  by_cases h : k.deferred = true ∧ k.needsGC = true
  · obtain ⟨g1, g2, n1, n2, n3, n4⟩ := gc_noFlag hi h.1 h.2
    exact ginv_of_noFlag g1 g2 n1 n2 n3 n4
  · rw [collectGarbage_id h]; exact hi

theorem ginv_withDeferred_of_noFlag {k : Kernel} (b : Bool) (hw : WF k) (h1 : k.oneCell = true) (nc : NoFlag k.cDel)
    (nf : NoFlag k.fDel) (ne : NoFlag k.eDel) (nv : NoFlag k.vDel) : GInv { k with deferred := b } :=
  ginv_of_noFlag (k := { k with deferred := b }) (Kernel.wf_withDeferred (k := k) b hw) h1 nc nf ne nv

/-- `enable_deferred_deletion(b)` (cc:1824-1830): switching deferred deletion off collects the pending
    garbage first; if nothing is pending there is nothing flagged (`FlagInv`) -/
theorem ginv_enableDeferred {k : Kernel} (b : Bool) (hi : GInv k) : GInv (k.enableDeferred b) := by
  unfold enableDeferred
  simp only
  by_cases hsw : k.deferred = true ∧ b = false
  · obtain ⟨hd, hb⟩ := hsw
    subst hb
    simp only [hd, Bool.not_false, Bool.and_self, if_true]
    by_cases hg : k.needsGC = true
    · obtain ⟨g1, g2, n1, n2, n3, n4⟩ := gc_noFlag hi hd hg
      exact ginv_withDeferred_of_noFlag false g1 g2 n1 n2 n3 n4
    · rw [collectGarbage_id (fun h => hg h.2)]
      obtain ⟨n1, n2, n3, n4⟩ := hi.noFlag_of_noGC (by simpa using hg)
      exact ginv_withDeferred_of_noFlag false hi.wf hi.one n1 n2 n3 n4
  · have : (k.deferred && !b) = false := by
      cases hd : k.deferred <;> cases hb : b <;> simp_all
    rw [this]
    simp only [Bool.false_eq_true, if_false]
    by_cases hd : k.deferred = true
    · have hb : b = true := by cases hb : b <;> simp_all
      subst hb
      exact ⟨Kernel.wf_withDeferred (k := k) true hi.wf, hi.one,
        closed_of_eq (k := k) rfl rfl rfl rfl rfl rfl rfl rfl hi.closed,
        flagInv_of_eq (k := k) (by show true = k.deferred; rw [hd]) rfl rfl rfl rfl rfl rfl rfl rfl hi.flags⟩
    · obtain ⟨n1, n2, n3, n4⟩ := hi.noFlag_of_immediate (by simpa using hd)
      exact ginv_withDeferred_of_noFlag b hi.wf hi.one n1 n2 n3 n4

end Global
end Kernel
end OVM

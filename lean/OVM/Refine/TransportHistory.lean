import OVM.Refine.Transport
import OVM.Refine.Len
/-
  C03, transport of property values over whole histories.
  From `Refine/Transport.lean`: all columns of a kind go through one slot program (`run_props`),
  which does not depend on what the columns hold.  Here:
  * `transOf`: the per-operation transformation of a column and its naturality (it commutes with
    every renaming of the values);
  * `token_transport`: if one column holds pairwise distinct non-default tokens, every other
    column of the kind follows it — the value found next to token `t` after the history is the
    value that stood next to `t` before; slots with a fresh (default) token hold the default;
  * `half_transport`: the halfedge program is the doubled edge program, so the two values of an
    edge's halfedges travel with the edge and keep their sides.
-/
namespace OVM
open SlotOp

/-! ### generic (list level) -/

theorem getElem?_map_pick {α} (σ : List (Option Nat)) (l : List α) (d : α) (i : Nat) :
    (σ.map (pick l d))[i]? = (σ[i]?).map (pick l d) := by simp

theorem lt_of_getElem?_eq_some {α} {l : List α} {i : Nat} {x : α} (h : l[i]? = some x) : i < l.length := by
  rcases Nat.lt_or_ge i l.length with h' | h'
  · exact h'
  · rw [List.getElem?_eq_none h'] at h; cases h

/-- **token theorem (list level)**: `ids` and `cs` are two columns of equal length run through the
    same program; non-default tokens of `ids` are pairwise distinct. -/
theorem token_transport {α β} (P : List SlotOp) (ids : List α) (did : α) (cs : List β) (dc : β)
    (hl : ids.length = cs.length) (htok : TokCol ids did) :
    (runL P ids did).length = (runL P cs dc).length ∧
    TokCol (runL P ids did) did ∧
    (∀ (i j : Nat) (t : α), (runL P ids did)[i]? = some t → t ≠ did → ids[j]? = some t →
        (runL P cs dc)[i]? = cs[j]?) ∧
    (∀ (i : Nat) (t : α), (runL P ids did)[i]? = some t → t = did ∨ t ∈ ids) ∧
    (did ∉ ids → ∀ (i : Nat), (runL P ids did)[i]? = some did → (runL P cs dc)[i]? = some dc) := by
  have e1 := runL_eq_slotMap P ids did
  have e2 := runL_eq_slotMap P cs dc
  rw [← hl] at e2
  refine ⟨?_, tokCol_runL P ids did htok, ?_, ?_, ?_⟩
  · rw [e1, e2]; simp
  · intro i j t hi ht hj
    rw [e1, getElem?_map_pick] at hi
    rw [e2, getElem?_map_pick]
    cases hσ : (slotMap P ids.length)[i]? with
    | none => rw [hσ] at hi; cases hi
    | some o =>
      rw [hσ] at hi
      simp only [Option.map_some, Option.some.injEq] at hi
      cases o with
      | none => exact absurd hi.symm ht
      | some j' =>
        have hj' : j' < ids.length := slotMap_lt P _ _ (List.mem_of_getElem? hσ)
        simp only [pick, List.getD_eq_getElem?_getD, List.getElem?_eq_getElem hj', Option.getD_some] at hi
        have : ids[j']? = some t := by rw [List.getElem?_eq_getElem hj', hi]
        have hjj : j' = j := htok j' j t this hj ht
        subst hjj
        have hc : j' < cs.length := by omega
        simp [pick, List.getD_eq_getElem?_getD, List.getElem?_eq_getElem hc]
  · intro i t hi
    rcases mem_runL P ids did t (List.mem_of_getElem? hi) with h | h
    · exact Or.inr h
    · exact Or.inl h
  · intro hnot i hi
    rw [e1, getElem?_map_pick] at hi
    rw [e2, getElem?_map_pick]
    cases hσ : (slotMap P ids.length)[i]? with
    | none => rw [hσ] at hi; cases hi
    | some o =>
      rw [hσ] at hi
      simp only [Option.map_some, Option.some.injEq] at hi
      cases o with
      | none => rfl
      | some j' =>
        have hj' : j' < ids.length := slotMap_lt P _ _ (List.mem_of_getElem? hσ)
        simp only [pick, List.getD_eq_getElem?_getD, List.getElem?_eq_getElem hj', Option.getD_some] at hi
        exact absurd (hi ▸ List.getElem_mem hj') hnot

/-- **half-entity sides (list level)**: `es` runs through `P`, the half-entity column `hs` through
    the doubled program.  Every result slot `i` of the parent kind is either an old parent slot `j`
    — then the parent value and *both* half values come from `j`, side by side — or a new slot
    holding the defaults. -/
theorem half_transport {α β} (P : List SlotOp) (es : List α) (de : α) (hs : List β) (dh : β)
    (hl : hs.length = 2 * es.length) :
    (runL (dblL P) hs dh).length = 2 * (runL P es de).length ∧
    ∀ (i : Nat), i < (runL P es de).length →
      (∃ j, j < es.length ∧ (runL P es de)[i]? = es[j]? ∧
          (runL (dblL P) hs dh)[2 * i]? = hs[2 * j]? ∧ (runL (dblL P) hs dh)[2 * i + 1]? = hs[2 * j + 1]?) ∨
      ((runL P es de)[i]? = some de ∧
          (runL (dblL P) hs dh)[2 * i]? = some dh ∧ (runL (dblL P) hs dh)[2 * i + 1]? = some dh) := by
  have hev : hs.length % 2 = 0 := by omega
  have hp := pairUp_runL_dblL P hs dh hev
  have hn : (pairUp hs).length = es.length := by rw [length_pairUp]; omega
  have e1 := runL_eq_slotMap P es de
  have e2 := runL_eq_slotMap P (pairUp hs) (dh, dh)
  rw [hn] at e2
  have hlen' : (runL (dblL P) hs dh).length = 2 * (runL P es de).length := by
    have a : (pairUp (runL (dblL P) hs dh)).length = (runL P es de).length := by
      rw [hp.1, e2, e1]; simp
    rw [length_pairUp] at a
    have := hp.2
    omega
  refine ⟨hlen', ?_⟩
  intro i hi
  have h0 : 2 * i < (runL (dblL P) hs dh).length := by omega
  have h1 : 2 * i + 1 < (runL (dblL P) hs dh).length := by omega
  have hpi := getElem?_pairUp (runL (dblL P) hs dh) i
  rw [List.getElem?_eq_getElem h0, List.getElem?_eq_getElem h1] at hpi
  simp only at hpi
  rw [hp.1, e2, getElem?_map_pick] at hpi
  have hi' : i < (slotMap P es.length).length := by rw [e1] at hi; simpa using hi
  rw [List.getElem?_eq_getElem hi'] at hpi
  simp only [Option.map_some, Option.some.injEq] at hpi
  have hei : (runL P es de)[i]? = some (pick es de (slotMap P es.length)[i]) := by
    rw [e1, getElem?_map_pick, List.getElem?_eq_getElem hi']; rfl
  cases hσ : (slotMap P es.length)[i] with
  | none =>
    right
    rw [hσ] at hpi hei
    simp only [pick] at hpi hei
    refine ⟨hei, ?_, ?_⟩
    · rw [List.getElem?_eq_getElem h0]; exact congrArg some (congrArg Prod.fst hpi).symm
    · rw [List.getElem?_eq_getElem h1]; exact congrArg some (congrArg Prod.snd hpi).symm
  | some j =>
    left
    have hj : j < es.length := slotMap_lt P _ _ (hσ ▸ List.getElem_mem hi')
    rw [hσ] at hpi hei
    have hj0 : 2 * j < hs.length := by omega
    have hj1 : 2 * j + 1 < hs.length := by omega
    have hpj := getElem?_pairUp hs j
    rw [List.getElem?_eq_getElem hj0, List.getElem?_eq_getElem hj1] at hpj
    simp only at hpj
    simp only [pick, List.getD_eq_getElem?_getD, hpj, Option.getD_some] at hpi
    refine ⟨j, hj, ?_, ?_, ?_⟩
    · rw [hei]; simp [pick, List.getD_eq_getElem?_getD, List.getElem?_eq_getElem hj]
    · rw [List.getElem?_eq_getElem h0, List.getElem?_eq_getElem hj0]
      exact congrArg some (congrArg Prod.fst hpi).symm
    · rw [List.getElem?_eq_getElem h1, List.getElem?_eq_getElem hj1]
      exact congrArg some (congrArg Prod.snd hpi).symm

/-- token form: the half values follow the parent's token and keep their side -/
theorem half_token_transport {α β} (P : List SlotOp) (es : List α) (de : α) (hs : List β) (dh : β)
    (hl : hs.length = 2 * es.length) (htok : TokCol es de) :
    (∀ (i j s : Nat) (t : α), s < 2 → (runL P es de)[i]? = some t → t ≠ de → es[j]? = some t →
        (runL (dblL P) hs dh)[2 * i + s]? = hs[2 * j + s]?) ∧
    (de ∉ es → ∀ (i s : Nat), s < 2 → (runL P es de)[i]? = some de →
        (runL (dblL P) hs dh)[2 * i + s]? = some dh) := by
  have H := half_transport P es de hs dh hl
  refine ⟨?_, ?_⟩
  · intro i j s t hs2 hi ht hj
    rcases H.2 i (lt_of_getElem?_eq_some hi) with ⟨j', _, h1, h2, h3⟩ | ⟨h1, _, _⟩
    · rw [hi] at h1
      have hjj : j' = j := htok j' j t h1.symm hj ht
      subst hjj
      have : s = 0 ∨ s = 1 := by omega
      rcases this with rfl | rfl
      · exact h2
      · exact h3
    · rw [hi] at h1; exact absurd (Option.some.inj h1) ht
  · intro hnot i s hs2 hi
    rcases H.2 i (lt_of_getElem?_eq_some hi) with ⟨j', hj', h1, _, _⟩ | ⟨_, h2, h3⟩
    · rw [hi, List.getElem?_eq_getElem hj'] at h1
      exact absurd ((Option.some.inj h1) ▸ List.getElem_mem hj') hnot
    · have : s = 0 ∨ s = 1 := by omega
      rcases this with rfl | rfl
      · exact h2
      · exact h3

namespace Kernel

/-! ### (A) one operation: the transformation of a column and its naturality -/

/-- what `op`, issued in state `k`, does to the values of a column of kind `κ` with default `d` -/
def transOf (κ : Kind) (k : Kernel) (op : Op) (vals : List Int) (d : Int) : List Int :=
  runL ((progOf k op).get κ) vals d

/-- **uniformity**: every column of kind `κ` is transformed by `transOf κ k op` -/
theorem step_cols (k : Kernel) (op : Op) (κ : Kind) :
    (k.step op).1.props.get κ = (k.props.get κ).map (fun c => { c with vals := transOf κ k op c.vals c.dflt }) := by
  rw [step_props, Progs.apply_get]; rfl

/-- **naturality**: the transformation commutes with every renaming of the values -/
theorem transOf_natural (κ : Kind) (k : Kernel) (op : Op) (g : Int → Int) (vals : List Int) (d : Int) :
    transOf κ k op (vals.map g) (g d) = (transOf κ k op vals d).map g :=
  runL_map g _ vals d

/-- the transformation is the same whatever the storages of `k` hold -/
theorem transOf_withP (κ : Kind) (k : Kernel) (p : Props) (op : Op) : transOf κ (k.withP p) op = transOf κ k op := by
  unfold transOf; rw [progOf_withP]

/-- mesh columns are never touched -/
theorem step_m (k : Kernel) (op : Op) : (k.step op).1.props.m = k.props.m := by
  rw [step_props]; rfl

/-- the halfedge / halfface program is the doubled edge / face program -/
theorem progs_he (P : Progs) : P.get .he = dblL (P.get .e) := rfl
theorem progs_hf (P : Progs) : P.get .hf = dblL (P.get .f) := rfl

/-! ### (B) whole histories -/

theorem run_cols (k : Kernel) (ops : List Op) (κ : Kind) :
    (k.run ops).props.get κ = (k.props.get κ).map (·.runP ((progRun k ops).get κ)) := by
  rw [run_props, Progs.apply_get]

theorem run_m (k : Kernel) (ops : List Op) : (k.run ops).props.m = k.props.m := by
  rw [run_props]; rfl

theorem run_col_at (k : Kernel) (ops : List Op) (κ : Kind) (i : Nat) (c : Col) (h : (k.props.get κ)[i]? = some c) :
    ((k.run ops).props.get κ)[i]? = some (c.runP ((progRun k ops).get κ)) := by
  rw [run_cols]; simp [h]

/-- the slot map of a history for columns of kind `κ` with `n` slots: for every result slot the
    source slot, or `none` for a slot created (and default-filled) on the way -/
def slotsOf (κ : Kind) (k : Kernel) (ops : List Op) (n : Nat) : List (Option Nat) :=
  slotMap ((progRun k ops).get κ) n

/-- **slot-map form of the transport theorem**: one slot map serves every column of the kind -/
theorem run_col_slots (k : Kernel) (ops : List Op) (κ : Kind) (i : Nat) (c : Col) (h : (k.props.get κ)[i]? = some c) :
    ((k.run ops).props.get κ)[i]? =
      some { c with vals := (slotsOf κ k ops c.vals.length).map (pick c.vals c.dflt) } := by
  rw [run_col_at k ops κ i c h]
  simp only [Col.runP, runL_eq_slotMap, slotsOf]

/-- number of entity slots of a kind -/
def count (k : Kernel) : Kind → Nat
  | .v => k.nV | .e => k.nE | .he => k.nHE | .f => k.nF | .hf => k.nHF | .c => k.nC

theorem LenInv.cols (k : Kernel) (h : LenInv k) (κ : Kind) : ColsLen (k.props.get κ) (k.count κ) := by
  cases κ
  · exact h.pv
  · exact h.pe
  · exact h.phe
  · exact h.pf
  · exact h.phf
  · exact h.pc

end Kernel
end OVM

import OVM.Kernel.Lookup
/-
  `next_halfedge_in_halfface` / `prev_halfedge_in_halfface` (TopologyKernel.cc:2131-2171) position by position on a
  halfface whose halfedge list has no duplicates (used by Props/C08).
-/
namespace OVM
open Kernel

theorem idxOf?_getElem_nodup (l : List Nat) (hn : l.Nodup) (i : Nat) (hi : i < l.length) :
    idxOf? l l[i] = some i := by
  unfold idxOf?
  have h1 : l.findIdx (· == l[i]) = i := by
    rw [List.findIdx_eq hi]
    refine ⟨beq_self_eq_true _, ?_⟩
    intro j hj
    have hjl : j < l.length := by omega
    cases hb : (l[j] == l[i]) with
    | false => rfl
    | true =>
      have he : l[j] = l[i] := by simpa using hb
      have := (List.getElem_inj (h₀ := hjl) (h₁ := hi) hn).mp he
      omega
  simp [h1, hi]

theorem idxOf?_some {l : List Nat} {x i : Nat} (h : idxOf? l x = some i) : ∃ hi : i < l.length, l[i] = x := by
  unfold idxOf? at h
  simp only at h
  split at h
  · rename_i hlt
    simp only [Option.some.injEq] at h
    subst h
    refine ⟨hlt, ?_⟩
    have := List.findIdx_getElem (w := hlt)
    simpa using this
  · simp at h

namespace Kernel

/-- position-wise description of `next_halfedge_in_halfface` on a duplicate-free halfface -/
theorem nextHe_at (k : Kernel) (hf i : Nat) (hn : (k.hfHes hf).Nodup) (hi : i < (k.hfHes hf).length) :
    k.nextHe ((k.hfHes hf)[i]) hf = some ((k.hfHes hf)[(i + 1) % (k.hfHes hf).length]'(Nat.mod_lt _ (by omega))) := by
  unfold nextHe
  simp only [idxOf?_getElem_nodup _ hn i hi]
  by_cases h : i + 1 < (k.hfHes hf).length
  · simp [h, Nat.mod_eq_of_lt h]
  · have : i + 1 = (k.hfHes hf).length := by omega
    have hlt : ¬ (i + 1 < (k.hfHes hf).length) := h
    simp only [hlt, if_false]
    have hz : (i + 1) % (k.hfHes hf).length = 0 := by rw [this, Nat.mod_self]
    simp only [hz]
    rw [List.head?_eq_getElem?, List.getElem?_eq_getElem]

theorem prevHe_at (k : Kernel) (hf i : Nat) (hn : (k.hfHes hf).Nodup) (hi : i < (k.hfHes hf).length) :
    k.prevHe ((k.hfHes hf)[i]) hf =
      some ((k.hfHes hf)[(i + (k.hfHes hf).length - 1) % (k.hfHes hf).length]'(Nat.mod_lt _ (by omega))) := by
  unfold prevHe
  simp only [idxOf?_getElem_nodup _ hn i hi]
  by_cases h : i = 0
  · subst h
    simp only [beq_self_eq_true, if_true, Nat.zero_add]
    have hm : ((k.hfHes hf).length - 1) % (k.hfHes hf).length = (k.hfHes hf).length - 1 := Nat.mod_eq_of_lt (by omega)
    simp only [hm]
    rw [List.getLast?_eq_getElem?]
    simp
  · have hb : (i == 0) = false := by simp [h]
    have hm : (i + (k.hfHes hf).length - 1) % (k.hfHes hf).length = i - 1 := by
      have : i + (k.hfHes hf).length - 1 = (i - 1) + (k.hfHes hf).length := by omega
      rw [this, Nat.add_mod_right, Nat.mod_eq_of_lt (by omega)]
    simp only [hb, Bool.false_eq_true, if_false, hm]
    rw [List.getElem?_eq_getElem]

end Kernel
end OVM

import OVM.Refine.CacheFastClosure
/-
  `collect_garbage` in FAST mode (Kernel/Delete.lean `collectGarbage`, `gcSweep`; cc:743-788).
  Each sweep visits the indices `n-1 … 0`; a flagged index is UN-flagged and handed to the immediate
  core (swap with the last slot, unlink, pop).  Between the un-flag and the core the entity is live for
  the scans but absent from the caches, so `wf_delete*Core_fast` does not apply; instead:
    * the swaps do not read the flags (`unflagX_swapX`), so the step is "swap in the flagged state
      (`WF` kept by `wf_swap*`), then pop a FLAGGED last slot";
    * popping a flagged last slot keeps `WF` (`wf_popDeadCell/Face/Edge`): the scans never saw it, the
      caches never listed it, the unlink stage finds nothing to remove;
    * the sweep invariant: everything above the current index is un-flagged (`k3_gcSweep_induct`).
  Besides `WF ∧ oneCell` the sweeps need the upward closure of the flags (`UpC/UpF/UpE`): in fast mode
  the cores do not repair definitions one level up.
-/
namespace OVM
namespace Kernel
open ScanDel

/-! ### un-flagging: what a `collect_garbage` sweep does just before calling the immediate core -/
def unflagC (k : Kernel) (i : Nat) : Kernel := { k with cDel := k.cDel.set i false }
def unflagF (k : Kernel) (i : Nat) : Kernel := { k with fDel := k.fDel.set i false }
def unflagE (k : Kernel) (i : Nat) : Kernel := { k with eDel := k.eDel.set i false }
def unflagV (k : Kernel) (i : Nat) : Kernel := { k with vDel := k.vDel.set i false }

theorem k3_swapAt_set_left {α} (l : List α) (i j : Nat) (v : α) (hi : i < l.length) (hj : j < l.length)
    (hij : i ≠ j) : swapAt (l.set i v) i j = (swapAt l i j).set j v := by
  apply List.ext_getElem?
  intro n
  rw [getElem?_swapAt _ _ _ _ (by simpa using hi) (by simpa using hj)]
  simp only [List.getElem?_set]
  rw [getElem?_swapAt _ _ _ _ hi hj]
  by_cases h1 : n = j
  · subst h1
    simp [hi, hj]
  · have h1' : ¬ j = n := fun e => h1 e.symm
    simp only [h1, h1', if_false]
    by_cases h2 : n = i
    · subst h2
      simp [hij]
    · have : ¬ i = n := fun e => h2 e.symm
      simp [h2, this]

/-- the swaps do not read the deletion flags: swapping after un-flagging = un-flagging (at the new
    place) after swapping -/
theorem unflagC_swapCell (k : Kernel) {i j : Nat} (hi : i < k.cDel.length) (hj : j < k.cDel.length) :
    (unflagC k i).swapCell i j = unflagC (k.swapCell i j) j := by
  by_cases h : i = j
  · subst h; simp [swapCell, unflagC]
  · have hne : (i == j) = false := by simp [h]
    unfold swapCell unflagC
    simp only [hne, Bool.false_eq_true, if_false, cellAt]
    rw [k3_swapAt_set_left _ _ _ _ hi hj h]

theorem unflagF_swapFace (k : Kernel) {i j : Nat} (hi : i < k.fDel.length) (hj : j < k.fDel.length) :
    (unflagF k i).swapFace i j = unflagF (k.swapFace i j) j := by
  by_cases h : i = j
  · subst h; simp [swapFace, unflagF]
  · have hne : (i == j) = false := by simp [h]
    unfold swapFace unflagF
    simp only [hne, Bool.false_eq_true, if_false, swapFaceCellsBU, cellAt, nC]
    rw [k3_swapAt_set_left _ _ _ _ hi hj h]
    rfl

theorem unflagE_swapEdge (k : Kernel) {i j : Nat} (hi : i < k.eDel.length) (hj : j < k.eDel.length) :
    (unflagE k i).swapEdge i j = unflagE (k.swapEdge i j) j := by
  by_cases h : i = j
  · subst h; simp [swapEdge, unflagE]
  · have hne : (i == j) = false := by simp [h]
    unfold swapEdge unflagE
    simp only [hne, Bool.false_eq_true, if_false, hfsOf, faceAt, edgeAt, nF]
    rw [k3_swapAt_set_left _ _ _ _ hi hj h]

theorem unflagV_swapVertex (k : Kernel) {i j : Nat} (hi : i < k.vDel.length) (hj : j < k.vDel.length) :
    (unflagV k i).swapVertex i j = unflagV (k.swapVertex i j) j := by
  by_cases h : i = j
  · subst h; simp [swapVertex, unflagV]
  · have hne : (i == j) = false := by simp [h]
    unfold swapVertex unflagV
    simp only [hne, Bool.false_eq_true, if_false, outOf]
    rw [k3_swapAt_set_left _ _ _ _ hi hj h]

/-! ### popping a flagged (dead) last slot: the scans never saw it, the caches never listed it -/
theorem k3_liveIdx_pop_dead (n : Nat) (del : List Bool) (hn : 0 < n) (hd : del.getD (n - 1) false = true) :
    (List.range (n - 1)).filter (fun i => !(del.eraseIdx (n - 1)).getD i false) =
      (List.range n).filter (fun i => !del.getD i false) := by
  rw [k3_liveIdx_pop n del hn]
  apply List.filter_eq_self.mpr
  intro x hx
  have := (List.mem_filter.mp hx).2
  have hne : x ≠ n - 1 := by intro e; rw [e, hd] at this; cases this
  simpa using hne

theorem k3_lt_last_of_live {n : Nat} {del : List Bool} (hd : del.getD (n - 1) false = true) {x : Nat}
    (hx : x ∈ (List.range n).filter (fun i => !del.getD i false)) : x < n - 1 := by
  obtain ⟨h1, h2⟩ := List.mem_filter.mp hx
  have := List.mem_range.mp h1
  have hne : x ≠ n - 1 := by intro e; rw [e, hd] at h2; cases h2
  omega

/-- `collect_garbage`, cells, one step after the swap: un-flag + unlink + pop of a FLAGGED last cell -/
theorem wf_popDeadCell {k : Kernel} (hfast : k.fast = true) (hpos : 0 < k.nC) (hw : WF k)
    (hdead : k.cDeleted (k.nC - 1) = true) :
    WF (((unflagC k (k.nC - 1)).unlinkCell (k.nC - 1)).eraseCell (k.nC - 1)) ∧
    (k.oneCell = true → (((unflagC k (k.nC - 1)).unlinkCell (k.nC - 1)).eraseCell (k.nC - 1)).oneCell = true) := by
  have hcells : (((unflagC k (k.nC - 1)).unlinkCell (k.nC - 1)).eraseCell (k.nC - 1)).cells = k.cells.eraseIdx (k.nC - 1) := by
    simp [unflagC]
  have hcDel : (((unflagC k (k.nC - 1)).unlinkCell (k.nC - 1)).eraseCell (k.nC - 1)).cDel = k.cDel.eraseIdx (k.nC - 1) := by
    simp [unflagC, List.eraseIdx_set_eq]
  have hnC : (((unflagC k (k.nC - 1)).unlinkCell (k.nC - 1)).eraseCell (k.nC - 1)).nC = k.nC - 1 := by
    unfold nC at *; rw [hcells, List.length_eraseIdx]; split <;> omega
  have hlive : (((unflagC k (k.nC - 1)).unlinkCell (k.nC - 1)).eraseCell (k.nC - 1)).liveCells = k.liveCells := by
    unfold liveCells cDeleted; rw [hnC, hcDel]; exact k3_liveIdx_pop_dead k.nC k.cDel hpos hdead
  have hcellAt : ∀ c ∈ k.liveCells,
      (((unflagC k (k.nC - 1)).unlinkCell (k.nC - 1)).eraseCell (k.nC - 1)).cellAt c = k.cellAt c := by
    intro c hc
    unfold cellAt; rw [hcells, k3_getD_eraseIdx_lt _ _ _ _ (k3_lt_last_of_live hdead hc)]
  have hlen : LenInv (((unflagC k (k.nC - 1)).unlinkCell (k.nC - 1)).eraseCell (k.nC - 1)) :=
    lenInv_eraseCell _ _ (lenInv_unlinkCell _ _ (lenInv_unflagC k _ hw.len))
  constructor
  · refine ⟨hlen, ?_, ⟨?_, ?_, ?_⟩⟩
    · constructor
      · simpa [unflagC] using hw.range.edges
      · have := hw.range.faces; unfold nHE at *; simpa [unflagC] using this
      · unfold nHF
        intro c hc
        rw [hcells] at hc
        simp only [eraseCell_faces, unlinkCell_faces, unflagC]
        exact hw.range.cells c (List.mem_of_mem_eraseIdx hc)
    · exact cacheInvV_of_eq (by simp [unflagC]) (by simp [unflagC]) (by simp [unflagC]) (by simp [unflagC])
        (by simp [unflagC]) hw.cache.v
    · intro hb
      have hb' : k.eBU = true := by simpa [unflagC] using hb
      obtain ⟨hl, hs⟩ := hw.cache.e hb'
      have hn : (((unflagC k (k.nC - 1)).unlinkCell (k.nC - 1)).eraseCell (k.nC - 1)).nHE = k.nHE := by
        unfold nHE; simp [unflagC]
      refine ⟨hlen.incHfs hb, fun y hy => ?_⟩
      rw [hn] at hy
      rw [sHfsOfHe_of_eq (k := k) (by simp [unflagC]) (by simp [unflagC])]
      have h1 : (((unflagC k (k.nC - 1)).unlinkCell (k.nC - 1)).eraseCell (k.nC - 1)).hfsOf y =
          ((unflagC k (k.nC - 1)).unlinkCell (k.nC - 1)).hfsOf y := by unfold hfsOf; simp
      have hm : SlotMirror (unflagC k (k.nC - 1)) :=
        slotMirror_of_eq (k := k) rfl (slotMirror_of_cacheInvE hw.cache.e hb')
      rw [h1]
      exact (unlinkCell_hfsOf_perm _ hm y).trans (hs y hy)
    · intro hb
      have hb' : k.fBU = true := by simpa [unflagC] using hb
      obtain ⟨hl, hs⟩ := hw.cache.f hb'
      have hn : (((unflagC k (k.nC - 1)).unlinkCell (k.nC - 1)).eraseCell (k.nC - 1)).nHF = k.nHF := by
        unfold nHF; simp [unflagC]
      refine ⟨hlen.incCell hb, fun x hx => ?_⟩
      rw [hn] at hx
      have hco : (((unflagC k (k.nC - 1)).unlinkCell (k.nC - 1)).eraseCell (k.nC - 1)).cellOf x = k.cellOf x := by
        have e1 : (((unflagC k (k.nC - 1)).unlinkCell (k.nC - 1)).eraseCell (k.nC - 1)).cellOf x =
            ((unflagC k (k.nC - 1)).unlinkCell (k.nC - 1)).cellOf x := by
          unfold cellOf eraseCell; simp [hfast, unflagC]
        rw [e1, unlinkCell_cellOf _ _ x (by simpa [unflagC] using hb')]
        have e2 : (unflagC k (k.nC - 1)).cellOf x = k.cellOf x := rfl
        rw [e2]
        split
        · rename_i h
          have := (cellOf_some_live hw.cache.f hb' h.2).2.1
          rw [liveC_notDel this] at hdead; cases hdead
        · rfl
      rw [hco, hs x hx]
      unfold sCellOf sCellsOfHf
      rw [hlive]
      congr 1
      apply List.filter_congr
      intro c hc
      rw [hcellAt c hc]
  · intro h1
    unfold oneCell at *
    simp only [List.all_eq_true, List.mem_range, decide_eq_true_eq] at *
    intro x hx
    have hx' : x < k.nHF := by unfold nHF at *; simpa [unflagC] using hx
    refine Nat.le_trans (Nat.le_of_eq ?_) (h1 x hx')
    rw [hlive]
    congr 1
    apply List.map_congr_left
    intro c hc
    rw [hcellAt c hc]

theorem k3_removeAll_absent {l : List Nat} {x : Nat} (h : x ∉ l) : removeAll l x = l := by
  unfold removeAll
  apply List.filter_eq_self.mpr
  intro y hy
  have : y ≠ x := fun e => h (e ▸ hy)
  simpa using this

/-- `collect_garbage`, faces, one step after the swap: un-flag + unlink + pop of a FLAGGED last face
    that no stored cell uses -/
theorem wf_popDeadFace {k : Kernel} (hfast : k.fast = true) (hpos : 0 < k.nF) (hw : WF k)
    (hdead : k.fDeleted (k.nF - 1) = true) (hno : ∀ c ∈ k.cells, ∀ x ∈ c, x / 2 ≠ k.nF - 1) :
    WF (((unflagF k (k.nF - 1)).unlinkFace (k.nF - 1)).eraseFace (k.nF - 1)) := by
  have hufast : ((unflagF k (k.nF - 1)).unlinkFace (k.nF - 1)).fast = true := by simpa [unflagF] using hfast
  have hcells : (((unflagF k (k.nF - 1)).unlinkFace (k.nF - 1)).eraseFace (k.nF - 1)).cells = k.cells := by
    rw [eraseFace_cells_fast _ _ hufast]; simp [unflagF]
  have hfaces : (((unflagF k (k.nF - 1)).unlinkFace (k.nF - 1)).eraseFace (k.nF - 1)).faces = k.faces.eraseIdx (k.nF - 1) := by
    simp [unflagF]
  have hfDel : (((unflagF k (k.nF - 1)).unlinkFace (k.nF - 1)).eraseFace (k.nF - 1)).fDel = k.fDel.eraseIdx (k.nF - 1) := by
    simp [unflagF, List.eraseIdx_set_eq]
  have hnF : (((unflagF k (k.nF - 1)).unlinkFace (k.nF - 1)).eraseFace (k.nF - 1)).nF = k.nF - 1 := by
    unfold nF at *; rw [hfaces, List.length_eraseIdx]; split <;> omega
  have hnHF : (((unflagF k (k.nF - 1)).unlinkFace (k.nF - 1)).eraseFace (k.nF - 1)).nHF = 2 * (k.nF - 1) := by
    have := hnF; unfold nHF nF at *; omega
  have hlen : LenInv (((unflagF k (k.nF - 1)).unlinkFace (k.nF - 1)).eraseFace (k.nF - 1)) :=
    lenInv_eraseFace _ _ (lenInv_unlinkFace _ _ (lenInv_unflagF k _ hw.len))
  -- a flagged face is in no scan
  have hoff : ∀ y x, x ∈ k.sHfsOfHe y → (eOf x != k.nF - 1) = true := by
    intro y x hx
    have := ((mem_sHfsOfHe k y x).mp hx).1
    have hne : eOf x ≠ k.nF - 1 := by
      intro e; rw [e] at this; unfold liveF at this; rw [hdead] at this; simp at this
    simpa using hne
  refine ⟨hlen, ?_, ⟨?_, ?_, ?_⟩⟩
  · constructor
    · simpa [unflagF] using hw.range.edges
    · intro f hf
      rw [hfaces] at hf
      have := hw.range.faces f (List.mem_of_mem_eraseIdx hf)
      unfold nHE at *; simpa [unflagF] using this
    · intro c hc x hx
      rw [hcells] at hc
      rw [hnHF]
      have h1 := hw.range.cells c hc x hx
      have h2 := hno c hc x hx
      unfold nHF nF at *; omega
  · exact cacheInvV_of_eq (by simp [unflagF]) (by simp [unflagF]) (by simp [unflagF]) (by simp [unflagF])
      (by simp [unflagF]) hw.cache.v
  · intro hb
    have hb' : k.eBU = true := by simpa [unflagF] using hb
    obtain ⟨hl, hs⟩ := hw.cache.e hb'
    have hn : (((unflagF k (k.nF - 1)).unlinkFace (k.nF - 1)).eraseFace (k.nF - 1)).nHE = k.nHE := by
      unfold nHE; simp [unflagF]
    refine ⟨hlen.incHfs hb, fun y hy => ?_⟩
    rw [hn] at hy
    rw [sHfsOfHe_pop (k := k) hpos hfaces hfDel, List.filter_eq_self.mpr (hoff y)]
    have h1 : (((unflagF k (k.nF - 1)).unlinkFace (k.nF - 1)).eraseFace (k.nF - 1)).hfsOf y =
        ((unflagF k (k.nF - 1)).unlinkFace (k.nF - 1)).hfsOf y := by
      unfold hfsOf; rw [eraseFace_incHfs_fast _ _ hufast]
    rw [h1]
    have hm : SlotMirror (unflagF k (k.nF - 1)) :=
      slotMirror_of_eq (k := k) rfl (slotMirror_of_cacheInvE hw.cache.e hb')
    have hsub0 : SlotSub (k.nF - 1) (unflagF k (k.nF - 1)) (unflagF k (k.nF - 1)) :=
      fun y => ⟨fun _ => true, fun _ _ => rfl, by rw [List.filter_eq_self.mpr (fun _ _ => rfl)]⟩
    have hfold := unlinkFace_fold (k.nF - 1) (unflagF k (k.nF - 1)) ((unflagF k (k.nF - 1)).faceAt (k.nF - 1))
      (unflagF k (k.nF - 1)) hm hsub0
    have hunl : (unflagF k (k.nF - 1)).unlinkFace (k.nF - 1) =
        ((unflagF k (k.nF - 1)).faceAt (k.nF - 1)).foldl (unlinkFaceStep (k.nF - 1)) (unflagF k (k.nF - 1)) := by
      unfold unlinkFace; simp [unflagF, hb']
    rw [← hunl] at hfold
    obtain ⟨_, hsub, _, _⟩ := hfold
    obtain ⟨P, hP, hperm⟩ := hsub y
    have e2 : (unflagF k (k.nF - 1)).hfsOf y = k.hfsOf y := rfl
    rw [e2] at hperm
    have hPall : (k.hfsOf y).filter P = k.hfsOf y := by
      apply List.filter_eq_self.mpr
      intro x hx
      have := hoff y x ((hs y hy).mem_iff.mp hx)
      exact hP x (by simpa using this)
    rw [hPall] at hperm
    exact hperm.trans (hs y hy)
  · intro hb
    have hb' : k.fBU = true := by simpa [unflagF] using hb
    obtain ⟨hl, hs⟩ := hw.cache.f hb'
    refine ⟨hlen.incCell hb, fun x hx => ?_⟩
    rw [hnHF] at hx
    have hx' : x < k.nHF := by unfold nHF nF at *; omega
    rw [sCellOf_of_eq (k := k) hcells (by simp [unflagF])]
    have : (((unflagF k (k.nF - 1)).unlinkFace (k.nF - 1)).eraseFace (k.nF - 1)).cellOf x = k.cellOf x := by
      unfold cellOf
      rw [eraseFace_incCell_on _ _ (by simpa [unflagF] using hb'), unlinkFace_incCell,
        k3_getD_eraseIdx_lt _ _ _ _ hx, k3_getD_eraseIdx_lt _ _ _ _ (by omega)]
      rfl
    rw [this]
    exact hs x hx'

/-- `collect_garbage`, edges, one step after the swap: un-flag + unlink + pop of a FLAGGED last edge
    that no stored face uses -/
theorem wf_popDeadEdge {k : Kernel} (hfast : k.fast = true) (hpos : 0 < k.nE) (hw : WF k)
    (hdead : k.eDeleted (k.nE - 1) = true) (hno : ∀ f ∈ k.faces, ∀ x ∈ f, x / 2 ≠ k.nE - 1) :
    WF (((unflagE k (k.nE - 1)).unlinkEdge (k.nE - 1)).eraseEdge (k.nE - 1)) := by
  have hufast : ((unflagE k (k.nE - 1)).unlinkEdge (k.nE - 1)).fast = true := by simpa [unflagE] using hfast
  have hfaces : (((unflagE k (k.nE - 1)).unlinkEdge (k.nE - 1)).eraseEdge (k.nE - 1)).faces = k.faces := by
    rw [eraseEdge_faces_fast _ _ hufast]; simp [unflagE]
  have hedges : (((unflagE k (k.nE - 1)).unlinkEdge (k.nE - 1)).eraseEdge (k.nE - 1)).edges = k.edges.eraseIdx (k.nE - 1) := by
    simp [unflagE]
  have heDel : (((unflagE k (k.nE - 1)).unlinkEdge (k.nE - 1)).eraseEdge (k.nE - 1)).eDel = k.eDel.eraseIdx (k.nE - 1) := by
    simp [unflagE, List.eraseIdx_set_eq]
  have hnE : (((unflagE k (k.nE - 1)).unlinkEdge (k.nE - 1)).eraseEdge (k.nE - 1)).nE = k.nE - 1 := by
    unfold nE at *; rw [hedges, List.length_eraseIdx]; split <;> omega
  have hnHE : (((unflagE k (k.nE - 1)).unlinkEdge (k.nE - 1)).eraseEdge (k.nE - 1)).nHE = 2 * (k.nE - 1) := by
    have := hnE; unfold nHE nE at *; omega
  have hlen : LenInv (((unflagE k (k.nE - 1)).unlinkEdge (k.nE - 1)).eraseEdge (k.nE - 1)) :=
    lenInv_eraseEdge _ _ (lenInv_unlinkEdge _ _ (lenInv_unflagE k _ hw.len))
  have hoff : ∀ v x, x ∈ k.sOut v → (eOf x != k.nE - 1) = true := by
    intro v x hx
    have := ((mem_sOut_iff k v x).mp hx).1
    have hne : eOf x ≠ k.nE - 1 := by
      intro e; rw [e] at this; unfold liveE at this; rw [hdead] at this; simp at this
    simpa using hne
  refine ⟨hlen, ?_, ⟨?_, ?_, ?_⟩⟩
  · constructor
    · intro e he
      rw [hedges] at he
      simpa [unflagE] using hw.range.edges e (List.mem_of_mem_eraseIdx he)
    · intro f hf x hx
      rw [hfaces] at hf
      rw [hnHE]
      have h1 := hw.range.faces f hf x hx
      have h2 := hno f hf x hx
      unfold nHE nE at *; omega
    · unfold nHF; rw [hfaces]; simpa [nHF, unflagE] using hw.range.cells
  · intro hb
    have hb' : k.vBU = true := by simpa [unflagE] using hb
    obtain ⟨hl, hs⟩ := hw.cache.v hb'
    refine ⟨hlen.outHes hb, fun v hv => ?_⟩
    have hv' : v < k.nV := by simpa [unflagE] using hv
    rw [sOut_pop (k := k) hpos hedges heDel, List.filter_eq_self.mpr (hoff v)]
    have h1 : (((unflagE k (k.nE - 1)).unlinkEdge (k.nE - 1)).eraseEdge (k.nE - 1)).outOf v = k.outOf v := by
      unfold outOf
      rw [eraseEdge_outHes_fast _ _ hufast]
      unfold unlinkEdge
      have : (unflagE k (k.nE - 1)).vBU = true := hb'
      simp only [this, if_true]
      rw [modify_removeAll_getD, modify_removeAll_getD]
      have e0 : (unflagE k (k.nE - 1)).outHes = k.outHes := rfl
      rw [e0]
      have habs : ∀ z, eOf z = k.nE - 1 → z ∉ k.outHes.getD v [] := by
        intro z hz hm
        have := hoff v z ((hs v hv').mem_iff.mp hm)
        simp [hz] at this
      have a0 : heOf (k.nE - 1) 0 ∉ k.outHes.getD v [] := habs _ (by unfold heOf eOf; omega)
      have a1 : heOf (k.nE - 1) 1 ∉ k.outHes.getD v [] := habs _ (by unfold heOf eOf; omega)
      split
      · rw [k3_removeAll_absent (l := (if _ = v then _ else _))]
        · split
          · exact k3_removeAll_absent a0
          · rfl
        · split
          · rw [k3_removeAll_absent a0]; exact a1
          · exact a1
      · split
        · exact k3_removeAll_absent a0
        · rfl
    rw [h1]
    exact hs v hv'
  · intro hb
    have hb' : k.eBU = true := by simpa [unflagE] using hb
    obtain ⟨hl, hs⟩ := hw.cache.e hb'
    refine ⟨hlen.incHfs hb, fun y hy => ?_⟩
    rw [hnHE] at hy
    have hy' : y < k.nHE := by unfold nHE nE at *; omega
    rw [sHfsOfHe_of_eq (k := k) hfaces (by simp [unflagE])]
    have : (((unflagE k (k.nE - 1)).unlinkEdge (k.nE - 1)).eraseEdge (k.nE - 1)).hfsOf y = k.hfsOf y := by
      unfold hfsOf
      rw [eraseEdge_incHfs_on _ _ (by simpa [unflagE] using hb'), unlinkEdge_incHfs,
        k3_getD_eraseIdx_lt _ _ _ _ hy, k3_getD_eraseIdx_lt _ _ _ _ (by omega)]
      rfl
    rw [this]
    exact hs y hy'
  · exact cacheInvF_of_eq (by simp [unflagE]) (by simp [unflagE]) (by rw [hfaces]) (by simp [unflagE])
      (by simp [unflagE]) hw.cache.f

/-! ### the sweeps of `collect_garbage` in fast mode -/

/-- induction along one sweep: `P m k` = "indices `m-1 … 0` are still to be visited" -/
theorem k3_gcSweep_induct (P : Nat → Kernel → Prop) (isDel : Kernel → Nat → Bool) (unflag core : Kernel → Nat → Kernel)
    (step : ∀ m k, P (m + 1) k → P m (if isDel k m then core (unflag k m) m else k)) :
    ∀ n k, P n k → P 0 (gcSweep k n isDel unflag core) := by
  intro n
  induction n with
  | zero => intro k h; simpa [gcSweep] using h
  | succ n ih =>
    intro k h
    have : gcSweep k (n + 1) isDel unflag core =
        gcSweep (if isDel k n then core (unflag k n) n else k) n isDel unflag core := by
      unfold gcSweep
      rw [List.range_succ, List.reverse_append]
      simp
    rw [this]
    exact ih _ (step n k h)

theorem noFlag_of_getD {l : List Bool} (h : ∀ j, l.getD j false = false) : NoFlag l := by
  intro b hb
  obtain ⟨i, hi, rfl⟩ := List.getElem_of_mem hb
  have := h i
  rw [List.getD_eq_getElem?_getD, List.getElem?_eq_getElem hi] at this
  exact this

/-- what `collect_garbage` relies on besides `WF`: a flagged entity is used only by flagged
    entities one level up (the `delete_*` closures flag the whole upward closure; adding a new
    entity on top of a flagged one is outside the contract) -/
def UpC (k : Kernel) : Prop := ∀ c, c < k.nC → k.cDeleted c = false → ∀ x ∈ k.cellAt c, k.fDeleted (x / 2) = false
def UpF (k : Kernel) : Prop := ∀ f, f < k.nF → k.fDeleted f = false → ∀ x ∈ k.faceAt f, k.eDeleted (x / 2) = false
def UpE (k : Kernel) : Prop :=
  ∀ e, e < k.nE → k.eDeleted e = false → k.vDeleted (k.edgeAt e).1 = false ∧ k.vDeleted (k.edgeAt e).2 = false

/-- the state inside `collect_garbage` -/
structure FastGCInv (k : Kernel) : Prop where
  imm : k.deferred = false
  fast : k.fast = true
  wf : WF k
  one : k.oneCell = true

theorem k3_getD_swapAt_pop' {α} (l : List α) (h i : Nat) (d : α) (hh : h < l.length) (n : Nat) (hn : n = l.length)
    (hi : i < n - 1) :
    ((swapAt l h (n - 1)).eraseIdx (n - 1)).getD i d = if i = h then l.getD (n - 1) d else l.getD i d := by
  subst hn; exact k3_getD_swapAt_pop l h i d hh hi

/-- one flagged step of the cell sweep -/
theorem gcStepC {k : Kernel} (hi : FastGCInv k) {m : Nat} (hm : m < k.nC) (hdel : k.cDeleted m = true)
    (habove : ∀ j, m < j → k.cDeleted j = false) (hC : UpC k) (hF : UpF k) (hE : UpE k) :
    FastGCInv (deleteCellCore (unflagC k m) m) ∧ m ≤ (deleteCellCore (unflagC k m) m).nC ∧
    (∀ j, m ≤ j → (deleteCellCore (unflagC k m) m).cDeleted j = false) ∧
    UpC (deleteCellCore (unflagC k m) m) ∧ UpF (deleteCellCore (unflagC k m) m) ∧ UpE (deleteCellCore (unflagC k m) m) := by
  have hlC := hi.wf.len.cDel
  have hlast : k.nC - 1 < k.nC := by omega
  have e0 : deleteCellCore (unflagC k m) m =
      ((unflagC (k.swapCell m (k.nC - 1)) (k.nC - 1)).unlinkCell (k.nC - 1)).eraseCell (k.nC - 1) := by
    rw [deleteCellCore_fast_eq m (by simpa [unflagC] using hi.imm) (by simpa [unflagC] using hi.fast)]
    have : (unflagC k m).nC = k.nC := rfl
    rw [this, unflagC_swapCell k (by rw [hlC]; exact hm) (by rw [hlC]; exact hlast)]
  have hw1 := wf_swapCell hm hlast hi.wf hi.one
  have h11 := oneCell_swapCell hm hlast hlC hi.one
  have hn1 : (k.swapCell m (k.nC - 1)).nC = k.nC := by unfold nC; rw [swapCell_cells_eq]; simp
  have hdead1 : (k.swapCell m (k.nC - 1)).cDeleted ((k.swapCell m (k.nC - 1)).nC - 1) = true := by
    rw [hn1]; unfold cDeleted; rw [swapCell_cDel_eq, getD_swapAt _ _ _ _ _ (by rw [hlC]; exact hm) (by rw [hlC]; exact hlast)]
    have : relabelId m (k.nC - 1) (k.nC - 1) = m := by
      unfold relabelId; by_cases e : k.nC - 1 = m <;> simp [e]
    rw [this]; exact hdel
  have hpop := wf_popDeadCell (k := k.swapCell m (k.nC - 1)) (by simpa using hi.fast) (by rw [hn1]; omega) hw1 hdead1
  rw [hn1] at hpop
  rw [e0]
  have hcells : (((unflagC (k.swapCell m (k.nC - 1)) (k.nC - 1)).unlinkCell (k.nC - 1)).eraseCell (k.nC - 1)).cells =
      (swapAt k.cells m (k.nC - 1)).eraseIdx (k.nC - 1) := by simp [unflagC, swapCell_cells_eq]
  have hcDel : (((unflagC (k.swapCell m (k.nC - 1)) (k.nC - 1)).unlinkCell (k.nC - 1)).eraseCell (k.nC - 1)).cDel =
      (swapAt k.cDel m (k.nC - 1)).eraseIdx (k.nC - 1) := by simp [unflagC, swapCell_cDel_eq, List.eraseIdx_set_eq]
  have hnC : (((unflagC (k.swapCell m (k.nC - 1)) (k.nC - 1)).unlinkCell (k.nC - 1)).eraseCell (k.nC - 1)).nC = k.nC - 1 := by
    unfold nC at *; rw [hcells]; simp [List.length_eraseIdx]; omega
  have hcellAt : ∀ j, j < k.nC - 1 →
      (((unflagC (k.swapCell m (k.nC - 1)) (k.nC - 1)).unlinkCell (k.nC - 1)).eraseCell (k.nC - 1)).cellAt j =
        if j = m then k.cellAt (k.nC - 1) else k.cellAt j := by
    intro j hj; unfold cellAt; rw [hcells]; exact k3_getD_swapAt_pop' k.cells m j [] hm k.nC rfl hj
  have hcDeleted : ∀ j, j < k.nC - 1 →
      (((unflagC (k.swapCell m (k.nC - 1)) (k.nC - 1)).unlinkCell (k.nC - 1)).eraseCell (k.nC - 1)).cDeleted j =
        if j = m then k.cDeleted (k.nC - 1) else k.cDeleted j := by
    intro j hj; unfold cDeleted; rw [hcDel]
    exact k3_getD_swapAt_pop' k.cDel m j false (by rw [hlC]; exact hm) k.nC hlC.symm hj
  have hfD : ∀ f, (((unflagC (k.swapCell m (k.nC - 1)) (k.nC - 1)).unlinkCell (k.nC - 1)).eraseCell (k.nC - 1)).fDeleted f = k.fDeleted f := by
    intro f; unfold fDeleted; simp [unflagC, swapCell_fDel]
  refine ⟨⟨by simpa [unflagC] using hi.imm, by simpa [unflagC] using hi.fast, hpop.1, hpop.2 h11⟩, ?_, ?_, ?_, ?_, ?_⟩
  · rw [hnC]; omega
  · intro j hj
    by_cases hjl : j < k.nC - 1
    · rw [hcDeleted j hjl]
      split
      · exact habove _ (by omega)
      · exact habove j (by omega)
    · unfold cDeleted; rw [hcDel]
      apply getD_of_ge
      rw [List.length_eraseIdx, length_swapAt, hlC]; split <;> omega
  · intro c hc hnd x hx
    rw [hnC] at hc
    rw [hcellAt c hc] at hx
    rw [hcDeleted c hc] at hnd
    rw [hfD]
    split at hx
    · rw [if_pos ‹_›] at hnd; exact hC _ hlast hnd x hx
    · rw [if_neg ‹_›] at hnd; exact hC c (by omega) hnd x hx
  · intro f hf hnd x hx
    have e1 : (((unflagC (k.swapCell m (k.nC - 1)) (k.nC - 1)).unlinkCell (k.nC - 1)).eraseCell (k.nC - 1)).faces = k.faces := by
      simp [unflagC, swapCell_faces]
    have e2 : (((unflagC (k.swapCell m (k.nC - 1)) (k.nC - 1)).unlinkCell (k.nC - 1)).eraseCell (k.nC - 1)).eDel = k.eDel := by
      simp [unflagC, swapCell_eDel]
    unfold UpF nF faceAt fDeleted eDeleted at *
    rw [e1] at hf hx
    rw [e2]
    have : (((unflagC (k.swapCell m (k.nC - 1)) (k.nC - 1)).unlinkCell (k.nC - 1)).eraseCell (k.nC - 1)).fDel = k.fDel := by
      simp [unflagC, swapCell_fDel]
    rw [this] at hnd
    exact hF f hf hnd x hx
  · intro e he hnd
    have e1 : (((unflagC (k.swapCell m (k.nC - 1)) (k.nC - 1)).unlinkCell (k.nC - 1)).eraseCell (k.nC - 1)).edges = k.edges := by
      simp [unflagC, swapCell_edges]
    have e2 : (((unflagC (k.swapCell m (k.nC - 1)) (k.nC - 1)).unlinkCell (k.nC - 1)).eraseCell (k.nC - 1)).eDel = k.eDel := by
      simp [unflagC, swapCell_eDel]
    have e3 : (((unflagC (k.swapCell m (k.nC - 1)) (k.nC - 1)).unlinkCell (k.nC - 1)).eraseCell (k.nC - 1)).vDel = k.vDel := by
      simp [unflagC, swapCell_vDel]
    unfold UpE nE edgeAt eDeleted vDeleted at *
    rw [e1] at he ⊢
    rw [e2] at hnd
    rw [e3]
    exact hE e he hnd

theorem wf_withNDel {k : Kernel} (a b c d : Nat) (hw : WF k) :
    WF { k with nDelV := a, nDelE := b, nDelF := c, nDelC := d } :=
  ⟨lenInv_withNDelV _ a (lenInv_withNDelE _ b (lenInv_withNDelF _ c (lenInv_withNDelC k d hw.len))),
   rangeInv_of_eq (k := k) rfl rfl rfl rfl hw.range,
   ⟨cacheInvV_of_eq (k := k) rfl rfl rfl rfl rfl hw.cache.v, cacheInvE_of_eq (k := k) rfl rfl rfl rfl rfl hw.cache.e,
    cacheInvF_of_eq (k := k) rfl rfl rfl rfl rfl hw.cache.f⟩⟩

theorem fastGCInv_withNDel {k : Kernel} (a b c d : Nat) (hi : FastGCInv k) :
    FastGCInv { k with nDelV := a, nDelE := b, nDelF := c, nDelC := d } :=
  ⟨hi.imm, hi.fast, wf_withNDel a b c d hi.wf, k3_oneCell_of_cells_eq (k := k) rfl rfl rfl hi.one⟩

/-- the cell sweep of `collect_garbage` (fast mode) -/
theorem gcCells_fast {k : Kernel} (hi : FastGCInv k) (hC : UpC k) (hF : UpF k) (hE : UpE k) :
    FastGCInv (gcCells k) ∧ NoFlag (gcCells k).cDel ∧ UpC (gcCells k) ∧ UpF (gcCells k) ∧ UpE (gcCells k) := by
  have key := k3_gcSweep_induct
    (fun m k => FastGCInv k ∧ m ≤ k.nC ∧ (∀ j, m ≤ j → k.cDeleted j = false) ∧ UpC k ∧ UpF k ∧ UpE k)
    cDeleted (fun k i => { k with cDel := k.cDel.set i false }) deleteCellCore
    (by
      intro m k ⟨h1, h2, h3, h4, h5, h6⟩
      by_cases hd : k.cDeleted m = true
      · rw [if_pos hd]
        exact gcStepC h1 (by omega) hd (fun j hj => h3 j (by omega)) h4 h5 h6
      · rw [if_neg hd]
        refine ⟨h1, by omega, ?_, h4, h5, h6⟩
        intro j hj
        by_cases e : j = m
        · subst e; simpa using hd
        · exact h3 j (by omega))
    k.nC k
    ⟨hi, Nat.le_refl _, fun j hj => by
        unfold cDeleted; exact getD_of_ge _ _ _ (by rw [hi.wf.len.cDel]; exact hj), hC, hF, hE⟩
  obtain ⟨g1, _, g3, g4, g5, g6⟩ := key
  unfold gcCells
  exact ⟨fastGCInv_withNDel _ _ _ 0 g1, noFlag_of_getD (fun j => g3 j (Nat.zero_le _)), g4, g5, g6⟩

theorem k3_relabelId_last {m n : Nat} : relabelId m n n = m := by
  unfold relabelId; by_cases e : n = m <;> simp [e]

theorem k3_relabelId_fst {m n : Nat} : relabelId m n m = n := by
  unfold relabelId; simp

/-- one flagged step of the face sweep (all flagged cells are gone already) -/
theorem gcStepF {k : Kernel} (hi : FastGCInv k) {m : Nat} (hm : m < k.nF) (hdel : k.fDeleted m = true)
    (habove : ∀ j, m < j → k.fDeleted j = false) (hnfC : NoFlag k.cDel) (hC : UpC k) (hF : UpF k) (hE : UpE k) :
    FastGCInv (deleteFaceCore (unflagF k m) m) ∧ m ≤ (deleteFaceCore (unflagF k m) m).nF ∧
    (∀ j, m ≤ j → (deleteFaceCore (unflagF k m) m).fDeleted j = false) ∧
    NoFlag (deleteFaceCore (unflagF k m) m).cDel ∧
    UpC (deleteFaceCore (unflagF k m) m) ∧ UpF (deleteFaceCore (unflagF k m) m) ∧ UpE (deleteFaceCore (unflagF k m) m) := by
  have hlF := hi.wf.len.fDel
  have hlast : k.nF - 1 < k.nF := by omega
  have e0 : deleteFaceCore (unflagF k m) m =
      ((unflagF (k.swapFace m (k.nF - 1)) (k.nF - 1)).unlinkFace (k.nF - 1)).eraseFace (k.nF - 1) := by
    rw [deleteFaceCore_fast_eq m (by simpa [unflagF] using hi.imm) (by simpa [unflagF] using hi.fast)]
    have : (unflagF k m).nF = k.nF := rfl
    rw [this, unflagF_swapFace k (by rw [hlF]; exact hm) (by rw [hlF]; exact hlast)]
  have hw1 := wf_swapFace' hm hlast hi.wf (fun _ => hi.one)
  have h11 := oneCell_swapFace hm hlast hi.wf.cache.f hi.one
  have hn1 : (k.swapFace m (k.nF - 1)).nF = k.nF := swapFace_faces_length k _ _
  have hdead1 : (k.swapFace m (k.nF - 1)).fDeleted ((k.swapFace m (k.nF - 1)).nF - 1) = true := by
    rw [hn1]; unfold fDeleted
    rw [swapFace_fDel_eq, getD_swapAt _ _ _ _ _ (by rw [hlF]; exact hm) (by rw [hlF]; exact hlast), k3_relabelId_last]
    exact hdel
  -- every stored cell uses un-flagged faces only
  have hcref : ∀ c0 ∈ k.cells, ∀ y ∈ c0, k.fDeleted (y / 2) = false := by
    intro c0 hc0 y hy
    obtain ⟨i, hil, rfl⟩ := k3_mem_getD [] hc0
    exact hC i hil (by unfold cDeleted; exact hnfC.getD i) y hy
  have hall := swapFace_cells_all hm hlast hi.wf.cache.f (fun _ => hi.one) (fun _ => hnfC)
  have hno1 : ∀ c ∈ (k.swapFace m (k.nF - 1)).cells, ∀ x ∈ c, x / 2 ≠ (k.swapFace m (k.nF - 1)).nF - 1 := by
    intro c hc x hx e
    rw [hn1] at e
    obtain ⟨c0, hc0, rfl⟩ := hall c hc
    rw [k3_mem_map_relabelHalf] at hx
    have := hcref c0 hc0 _ hx
    rw [k3_relabelHalf_div, e, k3_relabelId_last, hdel] at this
    cases this
  have hpop := wf_popDeadFace (k := k.swapFace m (k.nF - 1)) (by simpa using hi.fast) (by rw [hn1]; omega) hw1 hdead1 hno1
  rw [hn1] at hpop hno1
  rw [e0]
  have hufast : ((unflagF (k.swapFace m (k.nF - 1)) (k.nF - 1)).unlinkFace (k.nF - 1)).fast = true := by
    simpa [unflagF] using hi.fast
  have hcells : (((unflagF (k.swapFace m (k.nF - 1)) (k.nF - 1)).unlinkFace (k.nF - 1)).eraseFace (k.nF - 1)).cells =
      (k.swapFace m (k.nF - 1)).cells := by rw [eraseFace_cells_fast _ _ hufast]; simp [unflagF]
  have hfaces : (((unflagF (k.swapFace m (k.nF - 1)) (k.nF - 1)).unlinkFace (k.nF - 1)).eraseFace (k.nF - 1)).faces =
      (swapAt k.faces m (k.nF - 1)).eraseIdx (k.nF - 1) := by simp [unflagF, swapFace_faces_eq]
  have hfDel : (((unflagF (k.swapFace m (k.nF - 1)) (k.nF - 1)).unlinkFace (k.nF - 1)).eraseFace (k.nF - 1)).fDel =
      (swapAt k.fDel m (k.nF - 1)).eraseIdx (k.nF - 1) := by simp [unflagF, swapFace_fDel_eq, List.eraseIdx_set_eq]
  have hcDel : (((unflagF (k.swapFace m (k.nF - 1)) (k.nF - 1)).unlinkFace (k.nF - 1)).eraseFace (k.nF - 1)).cDel = k.cDel := by
    simp [unflagF, swapFace_cDel]
  have hnF : (((unflagF (k.swapFace m (k.nF - 1)) (k.nF - 1)).unlinkFace (k.nF - 1)).eraseFace (k.nF - 1)).nF = k.nF - 1 := by
    unfold nF at *; rw [hfaces]; simp [List.length_eraseIdx]; omega
  have hfaceAt : ∀ j, j < k.nF - 1 →
      (((unflagF (k.swapFace m (k.nF - 1)) (k.nF - 1)).unlinkFace (k.nF - 1)).eraseFace (k.nF - 1)).faceAt j =
        if j = m then k.faceAt (k.nF - 1) else k.faceAt j := by
    intro j hj; unfold faceAt; rw [hfaces]; exact k3_getD_swapAt_pop' k.faces m j [] hm k.nF rfl hj
  have hfDeleted : ∀ j, j < k.nF - 1 →
      (((unflagF (k.swapFace m (k.nF - 1)) (k.nF - 1)).unlinkFace (k.nF - 1)).eraseFace (k.nF - 1)).fDeleted j =
        if j = m then k.fDeleted (k.nF - 1) else k.fDeleted j := by
    intro j hj; unfold fDeleted; rw [hfDel]
    exact k3_getD_swapAt_pop' k.fDel m j false (by rw [hlF]; exact hm) k.nF hlF.symm hj
  have hone : (((unflagF (k.swapFace m (k.nF - 1)) (k.nF - 1)).unlinkFace (k.nF - 1)).eraseFace (k.nF - 1)).oneCell = true :=
    k3_oneCell_mono (k := k.swapFace m (k.nF - 1))
      (by rw [hfaces, swapFace_faces_eq]; simp [List.length_eraseIdx]; split <;> omega) hcells
      (by rw [hcDel, swapFace_cDel]) h11
  refine ⟨⟨by simpa [unflagF] using hi.imm, by simpa [unflagF] using hi.fast, hpop, hone⟩, ?_, ?_, ?_, ?_, ?_, ?_⟩
  · rw [hnF]; omega
  · intro j hj
    by_cases hjl : j < k.nF - 1
    · rw [hfDeleted j hjl]
      split
      · exact habove _ (by omega)
      · exact habove j (by omega)
    · unfold fDeleted; rw [hfDel]
      apply getD_of_ge
      rw [List.length_eraseIdx, length_swapAt, hlF]; split <;> omega
  · rw [hcDel]; exact hnfC
  · -- UpC: the cells were relabelled together with the flags
    intro c hc _ x hx
    have hcm : (((unflagF (k.swapFace m (k.nF - 1)) (k.nF - 1)).unlinkFace (k.nF - 1)).eraseFace (k.nF - 1)).cellAt c ∈
        (k.swapFace m (k.nF - 1)).cells := by rw [← hcells]; exact cellAt_mem_cells hc
    have hne := hno1 _ hcm x hx
    have hxlt : x < (k.swapFace m (k.nF - 1)).nHF := hw1.range.cells _ hcm x hx
    obtain ⟨c0, hc0, hcc⟩ := hall _ hcm
    rw [hcc, k3_mem_map_relabelHalf] at hx
    have hfl := hcref c0 hc0 _ hx
    rw [k3_relabelHalf_div] at hfl
    have hg : x / 2 < k.nF - 1 := by unfold nHF at hxlt; rw [swapFace_faces_length] at hxlt; unfold nF at *; omega
    rw [hfDeleted _ hg]
    split
    · rename_i e; rw [e, k3_relabelId_fst] at hfl; exact hfl
    · rename_i e; rw [k3_relabelId_off e hne] at hfl; exact hfl
  · intro f hf hnd x hx
    rw [hnF] at hf
    rw [hfaceAt f hf] at hx
    rw [hfDeleted f hf] at hnd
    have : (((unflagF (k.swapFace m (k.nF - 1)) (k.nF - 1)).unlinkFace (k.nF - 1)).eraseFace (k.nF - 1)).eDeleted (x / 2) =
        k.eDeleted (x / 2) := by unfold eDeleted; simp [unflagF, swapFace_eDel]
    rw [this]
    split at hx
    · rw [if_pos ‹_›] at hnd; exact hF _ hlast hnd x hx
    · rw [if_neg ‹_›] at hnd; exact hF f (by omega) hnd x hx
  · intro e he hnd
    have e1 : (((unflagF (k.swapFace m (k.nF - 1)) (k.nF - 1)).unlinkFace (k.nF - 1)).eraseFace (k.nF - 1)).edges = k.edges := by
      simp [unflagF, swapFace_edges]
    have e2 : (((unflagF (k.swapFace m (k.nF - 1)) (k.nF - 1)).unlinkFace (k.nF - 1)).eraseFace (k.nF - 1)).eDel = k.eDel := by
      simp [unflagF, swapFace_eDel]
    have e3 : (((unflagF (k.swapFace m (k.nF - 1)) (k.nF - 1)).unlinkFace (k.nF - 1)).eraseFace (k.nF - 1)).vDel = k.vDel := by
      simp [unflagF, swapFace_vDel]
    unfold UpE nE edgeAt eDeleted vDeleted at *
    rw [e1] at he ⊢
    rw [e2] at hnd
    rw [e3]
    exact hE e he hnd

/-- the face sweep of `collect_garbage` (fast mode), after the cell sweep -/
theorem gcFaces_fast {k : Kernel} (hi : FastGCInv k) (hnfC : NoFlag k.cDel) (hC : UpC k) (hF : UpF k) (hE : UpE k) :
    FastGCInv (gcFaces k) ∧ NoFlag (gcFaces k).cDel ∧ NoFlag (gcFaces k).fDel ∧ UpF (gcFaces k) ∧ UpE (gcFaces k) := by
  have key := k3_gcSweep_induct
    (fun m k => FastGCInv k ∧ m ≤ k.nF ∧ (∀ j, m ≤ j → k.fDeleted j = false) ∧ NoFlag k.cDel ∧ UpC k ∧ UpF k ∧ UpE k)
    fDeleted (fun k i => { k with fDel := k.fDel.set i false }) deleteFaceCore
    (by
      intro m k ⟨h1, h2, h3, h4, h5, h6, h7⟩
      by_cases hd : k.fDeleted m = true
      · rw [if_pos hd]
        exact gcStepF h1 (by omega) hd (fun j hj => h3 j (by omega)) h4 h5 h6 h7
      · rw [if_neg hd]
        refine ⟨h1, by omega, ?_, h4, h5, h6, h7⟩
        intro j hj
        by_cases e : j = m
        · subst e; simpa using hd
        · exact h3 j (by omega))
    k.nF k
    ⟨hi, Nat.le_refl _, fun j hj => by
        unfold fDeleted; exact getD_of_ge _ _ _ (by rw [hi.wf.len.fDel]; exact hj), hnfC, hC, hF, hE⟩
  obtain ⟨g1, _, g3, g4, _, g6, g7⟩ := key
  unfold gcFaces
  exact ⟨fastGCInv_withNDel _ _ 0 _ g1, g4, noFlag_of_getD (fun j => g3 j (Nat.zero_le _)), g6, g7⟩

/-- one flagged step of the edge sweep (no flagged cell or face is left) -/
theorem gcStepE {k : Kernel} (hi : FastGCInv k) {m : Nat} (hm : m < k.nE) (hdel : k.eDeleted m = true)
    (habove : ∀ j, m < j → k.eDeleted j = false) (hnfC : NoFlag k.cDel) (hnfF : NoFlag k.fDel)
    (hF : UpF k) (hE : UpE k) :
    FastGCInv (deleteEdgeCore (unflagE k m) m) ∧ m ≤ (deleteEdgeCore (unflagE k m) m).nE ∧
    (∀ j, m ≤ j → (deleteEdgeCore (unflagE k m) m).eDeleted j = false) ∧
    NoFlag (deleteEdgeCore (unflagE k m) m).cDel ∧ NoFlag (deleteEdgeCore (unflagE k m) m).fDel ∧
    UpF (deleteEdgeCore (unflagE k m) m) ∧ UpE (deleteEdgeCore (unflagE k m) m) := by
  have hlE := hi.wf.len.eDel
  have hlast : k.nE - 1 < k.nE := by omega
  have e0 : deleteEdgeCore (unflagE k m) m =
      ((unflagE (k.swapEdge m (k.nE - 1)) (k.nE - 1)).unlinkEdge (k.nE - 1)).eraseEdge (k.nE - 1) := by
    rw [deleteEdgeCore_fast_eq m (by simpa [unflagE] using hi.imm) (by simpa [unflagE] using hi.fast)]
    have : (unflagE k m).nE = k.nE := rfl
    rw [this, unflagE_swapEdge k (by rw [hlE]; exact hm) (by rw [hlE]; exact hlast)]
  have hw1 := wf_swapEdge hm hlast hi.wf
  have hn1 : (k.swapEdge m (k.nE - 1)).nE = k.nE := swapEdge_edges_length k _ _
  have hdead1 : (k.swapEdge m (k.nE - 1)).eDeleted ((k.swapEdge m (k.nE - 1)).nE - 1) = true := by
    rw [hn1]; unfold eDeleted
    rw [swapEdge_eDel_eq, getD_swapAt _ _ _ _ _ (by rw [hlE]; exact hm) (by rw [hlE]; exact hlast), k3_relabelId_last]
    exact hdel
  have hfref : ∀ f0 ∈ k.faces, ∀ y ∈ f0, k.eDeleted (y / 2) = false := by
    intro f0 hf0 y hy
    obtain ⟨i, hil, rfl⟩ := k3_mem_getD [] hf0
    exact hF i hil (by unfold fDeleted; exact hnfF.getD i) y hy
  have hall := swapEdge_faces_all hm hlast hi.wf.cache.e (fun _ => hnfF)
  have hno1 : ∀ f ∈ (k.swapEdge m (k.nE - 1)).faces, ∀ x ∈ f, x / 2 ≠ (k.swapEdge m (k.nE - 1)).nE - 1 := by
    intro f hf x hx e
    rw [hn1] at e
    obtain ⟨f0, hf0, rfl⟩ := hall f hf
    rw [k3_mem_map_relabelHalf] at hx
    have := hfref f0 hf0 _ hx
    rw [k3_relabelHalf_div, e, k3_relabelId_last, hdel] at this
    cases this
  have hpop := wf_popDeadEdge (k := k.swapEdge m (k.nE - 1)) (by simpa using hi.fast) (by rw [hn1]; omega) hw1 hdead1 hno1
  rw [hn1] at hpop hno1
  rw [e0]
  have hufast : ((unflagE (k.swapEdge m (k.nE - 1)) (k.nE - 1)).unlinkEdge (k.nE - 1)).fast = true := by
    simpa [unflagE] using hi.fast
  have hfaces : (((unflagE (k.swapEdge m (k.nE - 1)) (k.nE - 1)).unlinkEdge (k.nE - 1)).eraseEdge (k.nE - 1)).faces =
      (k.swapEdge m (k.nE - 1)).faces := by rw [eraseEdge_faces_fast _ _ hufast]; simp [unflagE]
  have hedges : (((unflagE (k.swapEdge m (k.nE - 1)) (k.nE - 1)).unlinkEdge (k.nE - 1)).eraseEdge (k.nE - 1)).edges =
      (swapAt k.edges m (k.nE - 1)).eraseIdx (k.nE - 1) := by simp [unflagE, swapEdge_edges_eq]
  have heDel : (((unflagE (k.swapEdge m (k.nE - 1)) (k.nE - 1)).unlinkEdge (k.nE - 1)).eraseEdge (k.nE - 1)).eDel =
      (swapAt k.eDel m (k.nE - 1)).eraseIdx (k.nE - 1) := by simp [unflagE, swapEdge_eDel_eq, List.eraseIdx_set_eq]
  have hcDel : (((unflagE (k.swapEdge m (k.nE - 1)) (k.nE - 1)).unlinkEdge (k.nE - 1)).eraseEdge (k.nE - 1)).cDel = k.cDel := by
    simp [unflagE, swapEdge_cDel]
  have hfDel : (((unflagE (k.swapEdge m (k.nE - 1)) (k.nE - 1)).unlinkEdge (k.nE - 1)).eraseEdge (k.nE - 1)).fDel = k.fDel := by
    simp [unflagE, swapEdge_fDel]
  have hnE : (((unflagE (k.swapEdge m (k.nE - 1)) (k.nE - 1)).unlinkEdge (k.nE - 1)).eraseEdge (k.nE - 1)).nE = k.nE - 1 := by
    unfold nE at *; rw [hedges]; simp [List.length_eraseIdx]; omega
  have hedgeAt : ∀ j, j < k.nE - 1 →
      (((unflagE (k.swapEdge m (k.nE - 1)) (k.nE - 1)).unlinkEdge (k.nE - 1)).eraseEdge (k.nE - 1)).edgeAt j =
        if j = m then k.edgeAt (k.nE - 1) else k.edgeAt j := by
    intro j hj; unfold edgeAt; rw [hedges]; exact k3_getD_swapAt_pop' k.edges m j (0, 0) hm k.nE rfl hj
  have heDeleted : ∀ j, j < k.nE - 1 →
      (((unflagE (k.swapEdge m (k.nE - 1)) (k.nE - 1)).unlinkEdge (k.nE - 1)).eraseEdge (k.nE - 1)).eDeleted j =
        if j = m then k.eDeleted (k.nE - 1) else k.eDeleted j := by
    intro j hj; unfold eDeleted; rw [heDel]
    exact k3_getD_swapAt_pop' k.eDel m j false (by rw [hlE]; exact hm) k.nE hlE.symm hj
  have hone : (((unflagE (k.swapEdge m (k.nE - 1)) (k.nE - 1)).unlinkEdge (k.nE - 1)).eraseEdge (k.nE - 1)).oneCell = true :=
    k3_oneCell_mono (k := k) (by rw [hfaces, swapEdge_faces_length]; exact Nat.le_refl _)
      (by simp [unflagE, swapEdge_cells]) hcDel hi.one
  refine ⟨⟨by simpa [unflagE] using hi.imm, by simpa [unflagE] using hi.fast, hpop, hone⟩, ?_, ?_, ?_, ?_, ?_, ?_⟩
  · rw [hnE]; omega
  · intro j hj
    by_cases hjl : j < k.nE - 1
    · rw [heDeleted j hjl]
      split
      · exact habove _ (by omega)
      · exact habove j (by omega)
    · unfold eDeleted; rw [heDel]
      apply getD_of_ge
      rw [List.length_eraseIdx, length_swapAt, hlE]; split <;> omega
  · rw [hcDel]; exact hnfC
  · rw [hfDel]; exact hnfF
  · intro f hf _ x hx
    have hfm : (((unflagE (k.swapEdge m (k.nE - 1)) (k.nE - 1)).unlinkEdge (k.nE - 1)).eraseEdge (k.nE - 1)).faceAt f ∈
        (k.swapEdge m (k.nE - 1)).faces := by rw [← hfaces]; exact faceAt_mem_faces hf
    have hne := hno1 _ hfm x hx
    have hxlt : x < (k.swapEdge m (k.nE - 1)).nHE := hw1.range.faces _ hfm x hx
    obtain ⟨f0, hf0, hcc⟩ := hall _ hfm
    rw [hcc, k3_mem_map_relabelHalf] at hx
    have hfl := hfref f0 hf0 _ hx
    rw [k3_relabelHalf_div] at hfl
    have hg : x / 2 < k.nE - 1 := by unfold nHE at hxlt; rw [swapEdge_edges_length] at hxlt; unfold nE at *; omega
    rw [heDeleted _ hg]
    split
    · rename_i e; rw [e, k3_relabelId_fst] at hfl; exact hfl
    · rename_i e; rw [k3_relabelId_off e hne] at hfl; exact hfl
  · intro e he hnd
    rw [hnE] at he
    rw [hedgeAt e he]
    rw [heDeleted e he] at hnd
    have : ∀ v, (((unflagE (k.swapEdge m (k.nE - 1)) (k.nE - 1)).unlinkEdge (k.nE - 1)).eraseEdge (k.nE - 1)).vDeleted v =
        k.vDeleted v := by intro v; unfold vDeleted; simp [unflagE, swapEdge_vDel]
    rw [this, this]
    split
    · rw [if_pos ‹_›] at hnd; exact hE _ hlast hnd
    · rw [if_neg ‹_›] at hnd; exact hE e (by omega) hnd

/-- the edge sweep of `collect_garbage` (fast mode), after the cell and face sweeps -/
theorem gcEdges_fast {k : Kernel} (hi : FastGCInv k) (hnfC : NoFlag k.cDel) (hnfF : NoFlag k.fDel) (hF : UpF k) (hE : UpE k) :
    FastGCInv (gcEdges k) ∧ NoFlag (gcEdges k).cDel ∧ NoFlag (gcEdges k).fDel ∧ NoFlag (gcEdges k).eDel ∧ UpE (gcEdges k) := by
  have key := k3_gcSweep_induct
    (fun m k => FastGCInv k ∧ m ≤ k.nE ∧ (∀ j, m ≤ j → k.eDeleted j = false) ∧ NoFlag k.cDel ∧ NoFlag k.fDel ∧ UpF k ∧ UpE k)
    eDeleted (fun k i => { k with eDel := k.eDel.set i false }) deleteEdgeCore
    (by
      intro m k ⟨h1, h2, h3, h4, h5, h6, h7⟩
      by_cases hd : k.eDeleted m = true
      · rw [if_pos hd]
        exact gcStepE h1 (by omega) hd (fun j hj => h3 j (by omega)) h4 h5 h6 h7
      · rw [if_neg hd]
        refine ⟨h1, by omega, ?_, h4, h5, h6, h7⟩
        intro j hj
        by_cases e : j = m
        · subst e; simpa using hd
        · exact h3 j (by omega))
    k.nE k
    ⟨hi, Nat.le_refl _, fun j hj => by
        unfold eDeleted; exact getD_of_ge _ _ _ (by rw [hi.wf.len.eDel]; exact hj), hnfC, hnfF, hF, hE⟩
  obtain ⟨g1, _, g3, g4, g5, _, g7⟩ := key
  unfold gcEdges
  exact ⟨fastGCInv_withNDel _ 0 _ _ g1, g4, g5, noFlag_of_getD (fun j => g3 j (Nat.zero_le _)), g7⟩

theorem swapVertex_edges_all {k : Kernel} {a b : Nat} (ha : a < k.nV) (hb : b < k.nV) (hV : CacheInvV k)
    (hlive : k.vBU = true → NoFlag k.eDel) :
    ∀ e ∈ (k.swapVertex a b).edges, ∃ e0 ∈ k.edges, e = relabelEdgeV a b e0 := by
  by_cases hab : a = b
  · subst hab
    intro e he
    refine ⟨e, by simpa [swapVertex] using he, ?_⟩
    unfold relabelEdgeV relabelId
    have : ∀ x : Nat, (if (x == a) = true then a else if (x == a) = true then a else x) = x := by
      intro x; by_cases h : x = a <;> simp [h]
    rw [this, this]
  intro e he
  obtain ⟨i, hi, rfl⟩ := k3_mem_getD (0, 0) he
  rw [swapVertex_edges_length] at hi
  have hle : k.vBU = true → k.liveE i = true := by
    intro hbu; unfold liveE eDeleted nE; rw [(hlive hbu).getD i]; simp [hi]
  have hrel := swapVertex_edgeAt_live hab ha hb hV hi hle
  unfold edgeAt at hrel
  exact ⟨k.edges.getD i (0, 0), by rw [List.getD_eq_getElem?_getD, List.getElem?_eq_getElem hi]; simp, hrel⟩

theorem wf_unflagV {k : Kernel} (i : Nat) (hw : WF k) : WF (unflagV k i) :=
  ⟨lenInv_unflagV k i hw.len, rangeInv_of_eq (k := k) rfl rfl rfl rfl hw.range,
   ⟨cacheInvV_of_eq (k := k) rfl rfl rfl rfl rfl hw.cache.v, cacheInvE_of_eq (k := k) rfl rfl rfl rfl rfl hw.cache.e,
    cacheInvF_of_eq (k := k) rfl rfl rfl rfl rfl hw.cache.f⟩⟩

/-- every stored edge has un-flagged endpoints (what `UpE` says once no edge is flagged) -/
def VRef (k : Kernel) : Prop := ∀ e ∈ k.edges, k.vDeleted e.1 = false ∧ k.vDeleted e.2 = false

/-- one flagged step of the vertex sweep -/
theorem gcStepV {k : Kernel} (hi : FastGCInv k) {m : Nat} (hm : m < k.nV) (hdel : k.vDeleted m = true)
    (habove : ∀ j, m < j → k.vDeleted j = false) (hnfC : NoFlag k.cDel) (hnfF : NoFlag k.fDel)
    (hnfE : NoFlag k.eDel) (hR : VRef k) :
    FastGCInv (deleteVertexCore (unflagV k m) m) ∧ m ≤ (deleteVertexCore (unflagV k m) m).nV ∧
    (∀ j, m ≤ j → (deleteVertexCore (unflagV k m) m).vDeleted j = false) ∧
    NoFlag (deleteVertexCore (unflagV k m) m).cDel ∧ NoFlag (deleteVertexCore (unflagV k m) m).fDel ∧
    NoFlag (deleteVertexCore (unflagV k m) m).eDel ∧ VRef (deleteVertexCore (unflagV k m) m) := by
  have hlV := hi.wf.len.vDel
  have hlast : k.nV - 1 < k.nV := by omega
  have e0 : deleteVertexCore (unflagV k m) m = (unflagV (k.swapVertex m (k.nV - 1)) (k.nV - 1)).eraseVertex (k.nV - 1) := by
    rw [deleteVertexCore_fast_eq m (by simpa [unflagV] using hi.imm) (by simpa [unflagV] using hi.fast)]
    have : (unflagV k m).nV = k.nV := rfl
    rw [this, unflagV_swapVertex k (by rw [hlV]; exact hm) (by rw [hlV]; exact hlast)]
  have hw1 := wf_unflagV (k.nV - 1) (wf_swapVertex hm hlast hi.wf)
  have hno0 : ∀ e ∈ k.edges, e.1 ≠ m ∧ e.2 ≠ m := by
    intro e he
    have := hR e he
    constructor
    · intro h; rw [h, hdel] at this; cases this.1
    · intro h; rw [h, hdel] at this; cases this.2
  have hno1 := swapVertex_unused hm hlast hi.wf.cache.v (fun _ => hnfE) hno0
  have hnV1 : (unflagV (k.swapVertex m (k.nV - 1)) (k.nV - 1)).nV = k.nV := by simp [unflagV]
  have hpop := wf_eraseLastVertex (k := unflagV (k.swapVertex m (k.nV - 1)) (k.nV - 1)) (by rw [hnV1]; omega) hw1
    (by rw [hnV1]; exact hno1)
  have hedges := eraseLastVertex_edges (k := unflagV (k.swapVertex m (k.nV - 1)) (k.nV - 1)) (by rw [hnV1]; omega) hw1
    (by rw [hnV1]; exact hno1)
  rw [hnV1] at hpop hedges
  rw [e0]
  have hvDel : ((unflagV (k.swapVertex m (k.nV - 1)) (k.nV - 1)).eraseVertex (k.nV - 1)).vDel =
      (swapAt k.vDel m (k.nV - 1)).eraseIdx (k.nV - 1) := by
    have : (k.swapVertex m (k.nV - 1)).vDel = swapAt k.vDel m (k.nV - 1) := by
      unfold swapVertex; split
      · rename_i h; rw [beq_iff_eq.mp h, swapAt_self]
      · rfl
    simp [unflagV, this, List.eraseIdx_set_eq]
  have hvDeleted : ∀ j, j < k.nV - 1 →
      ((unflagV (k.swapVertex m (k.nV - 1)) (k.nV - 1)).eraseVertex (k.nV - 1)).vDeleted j =
        if j = m then k.vDeleted (k.nV - 1) else k.vDeleted j := by
    intro j hj; unfold vDeleted; rw [hvDel]
    exact k3_getD_swapAt_pop' k.vDel m j false (by rw [hlV]; exact hm) k.nV hlV.symm hj
  have hone : ((unflagV (k.swapVertex m (k.nV - 1)) (k.nV - 1)).eraseVertex (k.nV - 1)).oneCell = true :=
    k3_oneCell_mono (k := k) (by simp [unflagV]) (by simp [unflagV]) (by simp [unflagV, swapVertex_cDel]) hi.one
  refine ⟨⟨by simpa [unflagV] using hi.imm, by simpa [unflagV] using hi.fast, hpop, hone⟩, ?_, ?_, ?_, ?_, ?_, ?_⟩
  · simp [unflagV]; omega
  · intro j hj
    by_cases hjl : j < k.nV - 1
    · rw [hvDeleted j hjl]
      split
      · exact habove _ (by omega)
      · exact habove j (by omega)
    · unfold vDeleted; rw [hvDel]
      apply getD_of_ge
      rw [List.length_eraseIdx, length_swapAt, hlV]; split <;> omega
  · simpa [unflagV, swapVertex_cDel] using hnfC
  · simpa [unflagV, swapVertex_fDel] using hnfF
  · simpa [unflagV, swapVertex_eDel] using hnfE
  · intro e he
    rw [hedges] at he
    have he' : e ∈ (k.swapVertex m (k.nV - 1)).edges := he
    obtain ⟨e0', he0, rfl⟩ := swapVertex_edges_all hm hlast hi.wf.cache.v (fun _ => hnfE) e he'
    have hr := hR e0' he0
    have hrange := hi.wf.range.edges e0' he0
    have hne := hno0 e0' he0
    have key : ∀ a, a < k.nV → a ≠ m → k.vDeleted a = false →
        ((unflagV (k.swapVertex m (k.nV - 1)) (k.nV - 1)).eraseVertex (k.nV - 1)).vDeleted (relabelId m (k.nV - 1) a) = false := by
      intro a ha hna hfa
      by_cases hal : a = k.nV - 1
      · rw [hal, k3_relabelId_last, hvDeleted m (by omega), if_pos rfl, ← hal]; exact hfa
      · rw [k3_relabelId_off hna hal, hvDeleted a (by omega), if_neg hna]; exact hfa
    exact ⟨key _ hrange.1 hne.1 hr.1, key _ hrange.2 hne.2 hr.2⟩

/-- the vertex sweep of `collect_garbage` (fast mode), after the other three -/
theorem gcVerts_fast {k : Kernel} (hi : FastGCInv k) (hnfC : NoFlag k.cDel) (hnfF : NoFlag k.fDel) (hnfE : NoFlag k.eDel)
    (hE : UpE k) :
    FastGCInv (gcVerts k) ∧ NoFlag (gcVerts k).cDel ∧ NoFlag (gcVerts k).fDel ∧ NoFlag (gcVerts k).eDel ∧
    NoFlag (gcVerts k).vDel := by
  have hR : VRef k := by
    intro e he
    obtain ⟨i, hil, rfl⟩ := k3_mem_getD (0, 0) he
    exact hE i hil (by unfold eDeleted; exact hnfE.getD i)
  have key := k3_gcSweep_induct
    (fun m k => FastGCInv k ∧ m ≤ k.nV ∧ (∀ j, m ≤ j → k.vDeleted j = false) ∧ NoFlag k.cDel ∧ NoFlag k.fDel ∧
      NoFlag k.eDel ∧ VRef k)
    vDeleted (fun k i => { k with vDel := k.vDel.set i false }) deleteVertexCore
    (by
      intro m k ⟨h1, h2, h3, h4, h5, h6, h7⟩
      by_cases hd : k.vDeleted m = true
      · rw [if_pos hd]
        exact gcStepV h1 (by omega) hd (fun j hj => h3 j (by omega)) h4 h5 h6 h7
      · rw [if_neg hd]
        refine ⟨h1, by omega, ?_, h4, h5, h6, h7⟩
        intro j hj
        by_cases e : j = m
        · subst e; simpa using hd
        · exact h3 j (by omega))
    k.nV k
    ⟨hi, Nat.le_refl _, fun j hj => by
        unfold vDeleted; exact getD_of_ge _ _ _ (by rw [hi.wf.len.vDel]; exact hj), hnfC, hnfF, hnfE, hR⟩
  obtain ⟨g1, _, g3, g4, g5, g6, _⟩ := key
  unfold gcVerts
  exact ⟨fastGCInv_withNDel 0 _ _ _ g1, g4, g5, g6, noFlag_of_getD (fun j => g3 j (Nat.zero_le _))⟩

theorem wf_withDeferred {k : Kernel} (b : Bool) (hw : WF k) : WF { k with deferred := b } :=
  ⟨lenInv_withDeferred k b hw.len, rangeInv_of_eq (k := k) rfl rfl rfl rfl hw.range,
   ⟨cacheInvV_of_eq (k := k) rfl rfl rfl rfl rfl hw.cache.v, cacheInvE_of_eq (k := k) rfl rfl rfl rfl rfl hw.cache.e,
    cacheInvF_of_eq (k := k) rfl rfl rfl rfl rfl hw.cache.f⟩⟩

theorem oneCell_withDeferred (k : Kernel) (b : Bool) : ({ k with deferred := b } : Kernel).oneCell = k.oneCell := rfl

/-- **`collect_garbage` in fast mode keeps `WF` and `oneCell`, and leaves no deletion flag** — for a
    mesh whose flags are upward closed (`UpC/UpF/UpE`).  The closure is needed: in fast mode
    `delete_face_core` / `delete_edge_core` / `delete_vertex_core` do not repair the definitions one
    level up (cc:1103, 1258, 965-1000), so collecting a flagged face under a live cell would leave that
    cell with a dangling halfface handle (see the test below). -/
theorem collectGarbage_fast {k : Kernel} (hf : k.fast = true) (hw : WF k) (h1 : k.oneCell = true)
    (hC : UpC k) (hF : UpF k) (hE : UpE k) :
    WF k.collectGarbage ∧ k.collectGarbage.oneCell = true ∧ k.collectGarbage.fast = true ∧
    (k.deferred = true → k.needsGC = true →
      NoFlag k.collectGarbage.cDel ∧ NoFlag k.collectGarbage.fDel ∧ NoFlag k.collectGarbage.eDel ∧
      NoFlag k.collectGarbage.vDel) := by
  unfold collectGarbage
  by_cases hrun : (!k.deferred || !k.needsGC) = true
  · rw [if_pos hrun]
    refine ⟨hw, h1, hf, fun hd hn => ?_⟩
    simp [hd, hn] at hrun
  · rw [if_neg hrun]
    have hi0 : FastGCInv { k with deferred := false } :=
      ⟨rfl, hf, wf_withDeferred false hw, (oneCell_withDeferred k false).trans h1⟩
    obtain ⟨c1, c2, c3, c4, c5⟩ := gcCells_fast hi0 hC hF hE
    obtain ⟨f1, f2, f3, f4, f5⟩ := gcFaces_fast c1 c2 c3 c4 c5
    obtain ⟨e1, e2, e3, e4, e5⟩ := gcEdges_fast f1 f2 f3 f4 f5
    obtain ⟨v1, v2, v3, v4, v5⟩ := gcVerts_fast e1 e2 e3 e4 e5
    generalize gcVerts (gcEdges (gcFaces (gcCells { k with deferred := false }))) = kk at v1 v2 v3 v4 v5 ⊢
    exact ⟨wf_withDeferred true v1.wf, (oneCell_withDeferred kk true).trans v1.one, v1.fast,
      fun _ _ => ⟨v2, v3, v4, v5⟩⟩

/-- `enable_deferred_deletion(false)` on a fast-mode mesh with pending deletions lands in the
    immediate-mode invariant of CacheFastClosure.lean -/
theorem immInv_enableDeferred_false {k : Kernel} (hd : k.deferred = true) (hn : k.needsGC = true) (hf : k.fast = true)
    (hw : WF k) (h1 : k.oneCell = true) (hC : UpC k) (hF : UpF k) (hE : UpE k) :
    ImmInv (k.enableDeferred false) := by
  obtain ⟨g1, g2, gf, g3⟩ := collectGarbage_fast hf hw h1 hC hF hE
  obtain ⟨n1, n2, n3, _⟩ := g3 hd hn
  unfold enableDeferred
  simp only [hd, Bool.not_false, Bool.and_self, if_true]
  generalize k.collectGarbage = kk at g1 g2 gf n1 n2 n3 ⊢
  exact ⟨rfl, gf, wf_withDeferred false g1, (oneCell_withDeferred kk false).trans g2, n1, n2, n3⟩

/-! ### non-vacuity, and why the upward closure of the flags is needed -/

/-- the tetrahedron after a deferred `delete_vertex(0)` (7 flagged entities, caches unlinked): upward
    closed, so `collect_garbage` applies; a triangle is left -/
example :
    let k := tetK.deleteVertex 0
    k.needsGC = true ∧ WF k.collectGarbage ∧ k.collectGarbage.oneCell = true ∧ NoFlag k.collectGarbage.fDel ∧
    k.collectGarbage.edges = [(0, 2), (1, 2), (0, 1)] ∧ k.collectGarbage.faces = [[5, 0, 3]] := by
  have hi := defInv_deleteVertex 0 defInv_tetK
  have h := collectGarbage_fast (k := tetK.deleteVertex 0) (by decide) hi.2.1 hi.2.2
    (by unfold UpC; decide) (by unfold UpF; decide) (by unfold UpE; decide)
  exact ⟨by decide, h.1, h.2.1, (h.2.2.2 (by decide) (by decide)).2.1, by decide, by decide⟩

/-- test (not a proof): a flagged face under a LIVE cell (`UpC` violated — not reachable through the
    API within its contract: `delete_face` flags the incident cells, `add_cell` asserts
    `!is_deleted(halfface)`, cc:393).  The state is `WF`, but fast `collect_garbage` leaves the cell
    with halfface 7 of a 3-face mesh. -/
example :
    let k := tetK.deleteFaceCore 0
    k.cacheInvB = true ∧ k.collectGarbage.nF = 3 ∧ k.collectGarbage.cells = [[7, 3, 5, 1]] := by decide

end Kernel
end OVM

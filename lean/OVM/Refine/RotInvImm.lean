import OVM.Refine.RotInvGCShift
/-
  RotInv, part 12 (builder R1): the immediate `delete_*_core` on a LIVE entity, after the optional swap to the last
  slot: unlink stage (as in deferred mode; the deleted flag is a ghost here) followed by the erase stage on what is
  then a flagged, unreferenced slot.  One lemma per level serves index-shifting and fast mode.
-/
namespace OVM
namespace Kernel
namespace Rot
open Fan CellCheck ScanDel

/-- `WF` and `Closed` do not read the pending-deletion counters -/
theorem wf_congr_counters {k k' : Kernel} (hnV : k'.nV = k.nV) (he : k'.edges = k.edges) (hf : k'.faces = k.faces)
    (hc : k'.cells = k.cells) (hvd : k'.vDel = k.vDel) (hed : k'.eDel = k.eDel) (hfd : k'.fDel = k.fDel)
    (hcd : k'.cDel = k.cDel) (hvb : k'.vBU = k.vBU) (heb : k'.eBU = k.eBU) (hfb : k'.fBU = k.fBU)
    (ho : k'.outHes = k.outHes) (hih : k'.incHfs = k.incHfs) (hic : k'.incCell = k.incCell) (hp : k'.props = k.props)
    (hw : WF k) : WF k' :=
  wf_of_fans_perm hnV he hf hc hvd hed hfd hcd hvb heb hfb ho hic hp (by rw [hih])
    (fun y => by unfold hfsOf; rw [hih]) hw

/-! ### cells -/
theorem rotInv_unlinkEraseCell {K : Kernel} {h : Nat} (hmode : K.fast = true → h = K.nC - 1) (hw : WF K)
    (h1 : K.oneCell = true) (hc : Closed K) (hwB : WF ((K.unlinkCell h).eraseCell h))
    (hcB : Closed ((K.unlinkCell h).eraseCell h)) (hi : RotInv K) : RotInv ((K.unlinkCell h).eraseCell h) := by
  -- ghost: the cell flagged after the unlink stage
  have hwG : WF ((K.unlinkCell h).flagCell h) :=
    wf_congr_counters (k := ({ K.unlinkCell h with cDel := K.cDel.set h true } : Kernel)) (by simp) (by simp) (by simp)
      (by simp) (by simp) (by simp) (by simp) (by simp) (by simp) (by simp) (by simp) (by simp) (by simp) (by simp)
      (by simp) (wf_unlinkMarkCell h hw h1)
  have hrG := rotInv_unlinkFlagCell h hw h1 hc hwG hi
  have hE : ((K.unlinkCell h).flagCell h).eraseCell h =
      { (K.unlinkCell h).eraseCell h with nDelC := K.nDelC + 1 } := by
    unfold eraseCell flagCell
    simp [k4_eraseIdx_set_same]
  by_cases hlt : h < K.nC
  · have hdead : ((K.unlinkCell h).flagCell h).cDeleted h = true := by
      unfold cDeleted
      rw [flagCell_cDel, ScanDel.getD_set, if_pos ⟨rfl, by rw [unlinkCell_cDel, hw.len.cDel]; exact hlt⟩]
    have hr := rotInv_eraseCell_dead (G := (K.unlinkCell h).flagCell h) hdead
      (fun hf => by
        have : K.fast = true := by simpa using hf
        unfold nC; simp only [flagCell_cells, unlinkCell_cells]; exact hmode this)
      hwG
      (by rw [hE]; exact wf_congr_counters (k := (K.unlinkCell h).eraseCell h) rfl rfl rfl rfl rfl rfl rfl rfl rfl rfl rfl rfl rfl rfl rfl hwB)
      (by rw [hE]; exact closed_of_eq (k := (K.unlinkCell h).eraseCell h) rfl rfl rfl rfl rfl rfl rfl rfl hcB) hrG
    rw [hE] at hr
    exact rotInv_of_same (A := { (K.unlinkCell h).eraseCell h with nDelC := K.nDelC + 1 }) (B := (K.unlinkCell h).eraseCell h) (fun h1 h2 => ⟨h1, h2⟩) ⟨rfl, rfl, rfl, rfl⟩ (fun _ => rfl) hr
  · -- out of range: nothing is erased (not reachable through `OpOK`)
    have hge : K.nC ≤ h := by omega
    have hcell : K.cellAt h = [] := by unfold cellAt; exact getD_of_ge _ _ _ hge
    have hr := rotInv_of_same (A := (K.unlinkCell h).flagCell h) (B := (K.unlinkCell h).eraseCell h)
      (fun h1 h2 => ⟨by simpa using h1, by simpa using h2⟩) ?_ (fun _ => by unfold hfsOf; simp) hrG
    · exact hr
    · have hnC : (K.unlinkCell h).cells.length ≤ h := by simpa [nC] using hge
      have hcd : (K.unlinkCell h).cDel.length ≤ h := by simp only [unlinkCell_cDel]; rw [hw.len.cDel]; exact hge
      refine ⟨?_, by simp, ?_, ?_⟩
      · simp only [eraseCell_cells, flagCell_cells]; exact List.eraseIdx_of_length_le hnC
      · simp only [eraseCell_cDel, flagCell_cDel]
        rw [List.eraseIdx_of_length_le hcd, List.set_eq_of_length_le hcd]
      · unfold eraseCell
        simp only [flagCell_incCell]
        split
        · rename_i hcond
          simp only [Bool.and_eq_true, Bool.not_eq_true', unlinkCell_fast, unlinkCell_fBU] at hcond
          -- every entry is a live cell `< nC ≤ h`: `corr1 h` is the identity on it
          have hwU : WF ({ K.unlinkCell h with cDel := K.cDel.set h true } : Kernel) := wf_unlinkMarkCell h hw h1
          apply List.ext_getElem?
          intro x
          simp only [List.getElem?_map]
          cases hx : (K.unlinkCell h).incCell[x]? with
          | none => rfl
          | some o =>
            cases o with
            | none => rfl
            | some c =>
              have hco : ({ K.unlinkCell h with cDel := K.cDel.set h true } : Kernel).cellOf x = some c := by
                unfold cellOf; rw [List.getD_eq_getElem?_getD]; show ((K.unlinkCell h).incCell[x]?).getD none = _; rw [hx]; rfl
              have hl := (cellOf_some_live hwU.cache.f (by simpa using hcond.2) hco).2.1
              have hclt := liveC_lt hl
              have : c < K.nC := by simpa [nC] using hclt
              simp only [Option.map_some]
              unfold corr1; rw [if_neg (by omega)]
        · rfl

/-! ### faces -/
theorem rotInv_unlinkEraseFace {K : Kernel} {h : Nat} (hh : h < K.nF) (hmode : K.fast = true → h = K.nF - 1) (hw : WF K)
    (h1 : K.oneCell = true) (hcl : ∀ c, c < K.nC → K.cDeleted c = false) (hun : ∀ c ∈ K.cells, ∀ a ∈ c, eOf a ≠ h)
    (hwB : WF ((K.unlinkFace h).eraseFace h)) (hcB : Closed ((K.unlinkFace h).eraseFace h)) (hi : RotInv K) :
    RotInv ((K.unlinkFace h).eraseFace h) := by
  have hwG : WF ((K.unlinkFace h).flagFace h) :=
    wf_congr_counters (k := ({ K.unlinkFace h with fDel := K.fDel.set h true } : Kernel)) (by simp) (by simp) (by simp)
      (by simp) (by simp) (by simp) (by simp) (by simp) (by simp) (by simp) (by simp) (by simp) (by simp) (by simp)
      (by simp) (wf_unlinkMarkFace h hw)
  have hrG := rotInv_unlinkFlagFace h hwG hi
  have hE : ((K.unlinkFace h).flagFace h).eraseFace h =
      { (K.unlinkFace h).eraseFace h with nDelF := K.nDelF + 1 } := by
    unfold eraseFace flagFace liveCells cDeleted nC
    simp [k4_eraseIdx_set_same]
  have hdead : ((K.unlinkFace h).flagFace h).fDeleted h = true := by
    unfold fDeleted
    rw [flagFace_fDel, ScanDel.getD_set, if_pos ⟨rfl, by rw [unlinkFace_fDel, hw.len.fDel]; exact hh⟩]
  have hr := rotInv_eraseFace_dead (G := (K.unlinkFace h).flagFace h)
    (by unfold nF; simp only [flagFace_faces, unlinkFace_faces]; exact hh) hdead
    (fun hf => by
      have : K.fast = true := by simpa using hf
      unfold nF; simp only [flagFace_faces, unlinkFace_faces]; exact hmode this)
    hwG ((oneCell_congr K _ (by simp) (by simp) (by simp)).trans h1)
    (by intro c hc; unfold cDeleted nC at *; simp only [flagFace_cDel, unlinkFace_cDel, flagFace_cells, unlinkFace_cells] at *
        exact hcl c hc)
    (by simp only [flagFace_cells, unlinkFace_cells]; exact hun)
    (by rw [hE]; exact wf_congr_counters (k := (K.unlinkFace h).eraseFace h) rfl rfl rfl rfl rfl rfl rfl rfl rfl rfl rfl rfl rfl rfl rfl hwB)
    (by rw [hE]; exact closed_of_eq (k := (K.unlinkFace h).eraseFace h) rfl rfl rfl rfl rfl rfl rfl rfl hcB) hrG
  rw [hE] at hr
  exact rotInv_of_same (A := { (K.unlinkFace h).eraseFace h with nDelF := K.nDelF + 1 }) (B := (K.unlinkFace h).eraseFace h)
    (fun h1 h2 => ⟨h1, h2⟩) ⟨rfl, rfl, rfl, rfl⟩ (fun _ => rfl) hr

/-! ### edges -/
theorem rotInv_unlinkEraseEdge {K : Kernel} {h : Nat} (hh : h < K.nE) (hmode : K.fast = true → h = K.nE - 1) (hw : WF K)
    (hfl : ∀ f, f < K.nF → K.fDeleted f = false) (hun : ∀ f ∈ K.faces, ∀ a ∈ f, eOf a ≠ h)
    (hwB : WF ((K.unlinkEdge h).eraseEdge h)) (hcB : Closed ((K.unlinkEdge h).eraseEdge h)) (hi : RotInv K) :
    RotInv ((K.unlinkEdge h).eraseEdge h) := by
  have hwG : WF ((K.unlinkEdge h).flagEdge h) :=
    wf_congr_counters (k := ({ K.unlinkEdge h with eDel := K.eDel.set h true } : Kernel)) (by simp) (by simp) (by simp)
      (by simp) (by simp) (by simp) (by simp) (by simp) (by simp) (by simp) (by simp) (by simp) (by simp) (by simp)
      (by simp) (wf_unlinkMarkEdge h hw)
  have hrG : RotInv ((K.unlinkEdge h).flagEdge h) := by
    apply rotInv_of_same (A := K) _ _ _ hi
    · unfold flagEdge unlinkEdge; intro h1 h2; split at h1 <;> split at h2 <;> exact ⟨h1, h2⟩
    · unfold flagEdge unlinkEdge; split <;> exact ⟨rfl, rfl, rfl, rfl⟩
    · intro y; unfold flagEdge unlinkEdge; split <;> rfl
  have hE : ((K.unlinkEdge h).flagEdge h).eraseEdge h =
      { (K.unlinkEdge h).eraseEdge h with nDelE := K.nDelE + 1 } := by
    unfold eraseEdge flagEdge liveFaces fDeleted nF
    simp [k4_eraseIdx_set_same]
  have hdead : ((K.unlinkEdge h).flagEdge h).eDeleted h = true := by
    unfold eDeleted
    rw [flagEdge_eDel, ScanDel.getD_set, if_pos ⟨rfl, by rw [unlinkEdge_eDel, hw.len.eDel]; exact hh⟩]
  have hr := rotInv_eraseEdge_dead (G := (K.unlinkEdge h).flagEdge h)
    (by unfold nE; simp only [flagEdge_edges, unlinkEdge_edges]; exact hh) hdead
    (fun hf => by
      have : K.fast = true := by simpa using hf
      unfold nE; simp only [flagEdge_edges, unlinkEdge_edges]; exact hmode this)
    hwG
    (by intro f hf; unfold fDeleted nF at *; simp only [flagEdge_fDel, unlinkEdge_fDel, flagEdge_faces, unlinkEdge_faces] at *
        exact hfl f hf)
    (by simp only [flagEdge_faces, unlinkEdge_faces]; exact hun)
    (by rw [hE]; exact wf_congr_counters (k := (K.unlinkEdge h).eraseEdge h) rfl rfl rfl rfl rfl rfl rfl rfl rfl rfl rfl rfl rfl rfl rfl hwB)
    (by rw [hE]; exact closed_of_eq (k := (K.unlinkEdge h).eraseEdge h) rfl rfl rfl rfl rfl rfl rfl rfl hcB) hrG
  rw [hE] at hr
  exact rotInv_of_same (A := { (K.unlinkEdge h).eraseEdge h with nDelE := K.nDelE + 1 }) (B := (K.unlinkEdge h).eraseEdge h)
    (fun h1 h2 => ⟨h1, h2⟩) ⟨rfl, rfl, rfl, rfl⟩ (fun _ => rfl) hr

end Rot
end Kernel
end OVM

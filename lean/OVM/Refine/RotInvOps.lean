import OVM.Refine.RotInvEmb
import OVM.Refine.GlobalStep
/-
  RotInv, part 2 (builder R1): the invariant, what `WF` gives about the slots, frames.
-/
namespace OVM
namespace Kernel
namespace Rot
open Fan CellCheck ScanDel

/-- **the rotational-order invariant** (core form): with edge and face bottom-up incidences on, every edge that is
    a single fan (permutation-invariant form `SingleFanU`, implied by E1's `Fan.SingleFan`) and has at least two
    cached halffaces is in rotational order (`Fan.FanOrdered`: successor = opposite of the in-cell neighbour,
    last = boundary or back to the first, slot of `2e+1` = mirrored reverse).
    Edges with fewer than two cached halffaces are covered by `fanOrdered_small` (no history needed). -/
def RotInv (k : Kernel) : Prop :=
  k.eBU = true → k.fBU = true → ∀ e, SingleFanU k e → 2 ≤ (k.hfsOf (heOf e 0)).length → FanOrdered k e

/-! ### what `WF` says about the slots -/

theorem hfsOf_nil_of_ge {k : Kernel} (hw : WF k) (hb : k.eBU = true) {h : Nat} (hh : k.nHE ≤ h) : k.hfsOf h = [] := by
  unfold hfsOf; exact getD_of_ge _ _ _ (by rw [(hw.cache.e hb).1]; exact hh)

theorem mem_slot {k : Kernel} (hw : WF k) (hb : k.eBU = true) {h x : Nat} (hx : x ∈ k.hfsOf h) :
    k.liveF (eOf x) = true ∧ h ∈ k.hfHes x := by
  rcases Nat.lt_or_ge h k.nHE with hh | hh
  · exact (mem_sHfsOfHe k h x).mp (((hw.cache.e hb).2 h hh).mem_iff.mp hx)
  · rw [hfsOf_nil_of_ge hw hb hh] at hx; cases hx

theorem slot_lt {k : Kernel} (hw : WF k) (hb : k.eBU = true) {h : Nat} (hne : k.hfsOf h ≠ []) : h < k.nHE := by
  rcases Nat.lt_or_ge h k.nHE with hh | hh
  · exact hh
  · exact absurd (hfsOf_nil_of_ge hw hb hh) hne

theorem cf_of_wf {k : Kernel} (hw : WF k) (hb : k.fBU = true) (x : Nat) : k.cellOf x = k.sCellOf x := by
  rcases Nat.lt_or_ge x k.nHF with hh | hh
  · exact (hw.cache.f hb).2 x hh
  · rw [sCellOf_none_of_ge k hw.range x hh]
    unfold cellOf; exact getD_of_ge _ _ _ (by rw [(hw.cache.f hb).1]; exact hh)

theorem liveF_opp (k : Kernel) (x : Nat) : k.liveF (eOf (opp x)) = k.liveF (eOf x) := by rw [eOf_opp]

/-- the halffaces of a live cell belong to live faces -/
theorem mates_live {k : Kernel} (hw : WF k) (hc : Closed k) {x c : Nat} (h : k.sCellOf x = some c) :
    ∀ y ∈ k.cellAt c, k.liveF (eOf y) = true := by
  intro y hy
  obtain ⟨hl, _⟩ := Kernel.sCellOf_some h
  have hd := hc.f c hl y hy
  have hlt : c < k.nC := by unfold liveC at hl; simp at hl; exact hl.1
  have hmem : k.cellAt c ∈ k.cells := by
    unfold cellAt nC at *
    rw [List.getD_eq_getElem?_getD, List.getElem?_eq_getElem hlt]; exact List.getElem_mem hlt
  have hr := hw.range.cells _ hmem y hy
  unfold liveF nF nHF eOf at *
  simp only [Bool.and_eq_true, decide_eq_true_eq, Bool.not_eq_true']
  exact ⟨by omega, hd⟩

theorem slotsOK_of_wf {k : Kernel} (hw : WF k) (hb : k.eBU = true) (e : Nat)
    (h2 : 2 ≤ (k.hfsOf (heOf e 0)).length) : SlotsOK k e := by
  have hne : k.hfsOf (heOf e 0) ≠ [] := by intro h; rw [h] at h2; simp at h2
  have hlt := slot_lt hw hb hne
  have hm := slotMirror_of_cacheInvE hw.cache.e hb (heOf e 0)
  rw [← heOf_one] at hm
  refine ⟨?_, by rw [hm.length_eq, List.length_map], h2⟩
  rw [(hw.cache.e hb).1]; unfold nHE heOf at *; omega

/-! ### the identity renaming -/

theorem embAt_id {A B : Kernel} {S : Nat → Prop} (e : Nat)
    (mates : ∀ x c, S x → A.sCellOf x = some c → ∀ y ∈ A.cellAt c, S y)
    (hes : ∀ x, S x → B.hfHes x = A.hfHes x)
    (cells : ∀ x c, S x → A.sCellOf x = some c → B.cellAt c = A.cellAt c)
    (cellOf : ∀ x, S x → B.cellOf x = A.cellOf x) (sCellOf : ∀ x, S x → B.sCellOf x = A.sCellOf x)
    (slot0 : B.hfsOf (heOf e 0) = A.hfsOf (heOf e 0)) (slot1 : B.hfsOf (heOf e 1) = A.hfsOf (heOf e 1))
    (memS : ∀ x ∈ A.hfsOf (heOf e 0), S x ∧ S (opp x)) : EmbAt A B id id id S e e where
  injE := fun _ _ h => h
  injF := fun _ _ h => h
  injC := fun _ _ h => h
  oppE := fun _ => rfl
  oppF := fun _ => rfl
  mates := mates
  hes := fun x hx => by rw [List.map_id]; exact hes x hx
  cells := fun x c hx hc => by rw [List.map_id]; exact cells x c hx hc
  cellOf := fun x hx => by simpa using cellOf x hx
  sCellOf := fun x hx => by simpa using sCellOf x hx
  he0 := rfl
  slot0 := by rw [List.map_id]; exact slot0
  slot1 := by rw [List.map_id]; exact slot1
  memS := memS

/-- transfer of the invariant along a family of per-edge correspondences: every edge `eB` of the new state
    that could be a single fan with two halffaces corresponds to an edge `eA` of the old state -/
theorem rotInv_transfer {A B : Kernel} (hbu : B.eBU = true → B.fBU = true → A.eBU = true ∧ A.fBU = true)
    (h : B.eBU = true → B.fBU = true → ∀ eB, 2 ≤ (B.hfsOf (heOf eB 0)).length →
      ∃ ιE ιF ιC S eA, EmbAt A B ιE ιF ιC S eA eB) (hi : RotInv A) : RotInv B := by
  intro hbe hbf eB hs h2
  obtain ⟨ιE, ιF, ιC, S, eA, hemb⟩ := h hbe hbf eB h2
  obtain ⟨hae, haf⟩ := hbu hbe hbf
  have hlen : (B.hfsOf (heOf eB 0)).length = (A.hfsOf (heOf eA 0)).length := by rw [hemb.slot0, List.length_map]
  rw [hlen] at h2
  exact (hemb.fanOrdered (by omega)).mpr (hi hae haf eA (hemb.singleFanU.mp hs) h2)

/-- frame: same definitions, cell flags, face cache and slots -/
theorem rotInv_of_same {A B : Kernel} (hbu : B.eBU = true → B.fBU = true → A.eBU = true ∧ A.fBU = true)
    (hd : SameDefs A B) (hs : ∀ y, B.hfsOf y = A.hfsOf y) (hi : RotInv A) : RotInv B := by
  intro hbe hbf e hsf h2
  obtain ⟨hae, haf⟩ := hbu hbe hbf
  rw [hs] at h2
  exact (hd.fanOrdered e (hs _) (hs _)).mpr
    (hi hae haf e ((SingleFanU.congr hd e (by rw [hs])).mp hsf) h2)

/-- with one of the two incidence kinds off there is nothing to state -/
theorem rotInv_off {k : Kernel} (h : k.eBU = false ∨ k.fBU = false) : RotInv k := by
  intro h1 h2; rcases h with h | h
  · rw [h] at h1; cases h1
  · rw [h] at h2; cases h2

/-! ### a dangling halfface breaks the single fan -/

/-- what the rotation returns is the opposite of a halfface of a live cell -/
theorem sFanNext_some_cell {k : Kernel} {he z x : Nat} (h : k.sFanNext he z = some x) :
    ∃ c, k.liveC c = true ∧ opp x ∈ k.cellAt c := by
  unfold Kernel.sFanNext at h
  cases hc : k.sCellOf z with
  | none => rw [hc] at h; cases h
  | some c =>
    rw [hc] at h
    simp only at h
    cases ha : k.sAdj c z he with
    | none => rw [ha] at h; cases h
    | some a =>
      rw [ha] at h
      simp only [Option.map_some, Option.some.injEq] at h
      refine ⟨c, (Kernel.sCellOf_some hc).1, ?_⟩
      rw [← h, opp_opp]
      unfold Kernel.sAdj at ha
      split at ha
      · rename_i y hy
        injection ha with ha; subst ha
        have : y ∈ List.filter (fun x => x != z && x != opp z && (k.hfHes x).contains (opp he)) (k.cellAt c) := by
          rw [hy]; exact List.mem_singleton.mpr rfl
        exact (List.mem_filter.mp this).1
      · cases ha

/-- **a member of the slot that the rotation neither leaves nor reaches** (a face hanging at the edge without a
    cell on either side, e.g. right after `add_face`) rules out the single fan as soon as there is a second
    member -/
theorem not_singleFanU_of_isolated {k : Kernel} {e x : Nat} (hx : x ∈ k.hfsOf (heOf e 0))
    (hout : k.sFanNext (heOf e 0) x = none) (hin : ∀ z, k.sFanNext (heOf e 0) z ≠ some x)
    (h2 : 2 ≤ (k.hfsOf (heOf e 0)).length) : ¬ SingleFanU k e := by
  intro hs
  obtain ⟨⟨hnd, _⟩, _, _, hconn⟩ := hs
  -- a second member
  have : ∃ b ∈ k.hfsOf (heOf e 0), b ≠ x := by
    cases hl : k.hfsOf (heOf e 0) with
    | nil => rw [hl] at h2; simp at h2
    | cons a t =>
      cases t with
      | nil => rw [hl] at h2; simp at h2
      | cons b u =>
        rw [hl] at hnd
        by_cases hax : a = x
        · refine ⟨b, by simp, fun hb => ?_⟩
          rw [hax, hb] at hnd; simp at hnd
        · exact ⟨a, by simp, hax⟩
  obtain ⟨b, hb, hbx⟩ := this
  rcases hconn x hx b hb with ⟨i, hi⟩ | ⟨i, hi⟩
  · cases i with
    | zero => simp only [Fan.iterNext, Option.some.injEq] at hi; exact hbx hi.symm
    | succ j => rw [iterNext_succ_left, hout] at hi; cases hi
  · cases i with
    | zero => simp only [Fan.iterNext, Option.some.injEq] at hi; exact hbx hi
    | succ j =>
      simp only [Fan.iterNext] at hi
      cases hz : Fan.iterNext k (heOf e 0) j b with
      | none => rw [hz] at hi; cases hi
      | some z => rw [hz] at hi; exact hin z hi

/-! ### `add_face` -/

theorem addFaceCore_hfsOf (k : Kernel) (hes : List Nat) (hb : k.eBU = true) (v : Nat) :
    (k.addFaceCore hes).hfsOf v = k.hfsOf v ++
      (if v < k.incHfs.length then
        hes.flatMap (fun h => (if h == v then [2 * k.nF] else []) ++ (if opp h == v then [2 * k.nF + 1] else []))
       else []) := by
  unfold hfsOf
  rw [addFaceCore_incHfs, if_pos hb]
  split
  · rename_i hv; exact faceLoop_getD _ _ _ _ hv
  · rename_i hv
    rw [getD_of_ge _ _ _ (by rw [faceLoop_length]; omega), getD_of_ge _ _ _ (by omega)]; rfl

theorem addFaceCore_hfHes (k : Kernel) (hes : List Nat) (x : Nat) (hx : eOf x < k.nF) :
    (k.addFaceCore hes).hfHes x = k.hfHes x := by
  unfold hfHes faceAt
  rw [addFaceCore_faces]
  unfold nF at hx
  simp [List.getD_eq_getElem?_getD, List.getElem?_append, hx]

theorem liveF_lt {k : Kernel} {f : Nat} (h : k.liveF f = true) : f < k.nF := by
  unfold liveF at h; simp at h; exact h.1

/-- **`add_face` keeps the invariant.**  Around an edge the new face does not use nothing changes.  Around an
    edge it uses, the new halfface is appended to the slot (cc:213-218) and has no cell on either side: if the slot
    now holds two or more halffaces the edge is NOT a single fan (`not_singleFanU_of_isolated`; the
    specification `sFanOrder` agrees: two boundary halffaces, or a boundary halfface beside a closed ring) until
    cells are attached — and `add_cell` re-orders the edges of the new cell. -/
theorem rotInv_addFaceCore {k : Kernel} (hes : List Nat) (hw : WF k) (hc : Closed k) (hi : RotInv k) :
    RotInv (k.addFaceCore hes) := by
  intro hbe hbf e hs h2
  obtain ⟨_, fe, ff⟩ := addFaceCore_flags k hes
  rw [fe] at hbe; rw [ff] at hbf
  have hcellsEq : (k.addFaceCore hes).cells = k.cells := addFaceCore_cells k hes
  -- no live cell of the new state uses a halfface of the new face
  have hnew : ∀ x, eOf x = k.nF → ∀ c, (k.addFaceCore hes).liveC c = true → x ∉ (k.addFaceCore hes).cellAt c := by
    intro x hx c hl hm
    have hlt : c < k.nC := by unfold liveC nC at *; rw [hcellsEq] at hl; simp at hl; exact hl.1
    have hmem : k.cellAt c ∈ k.cells := by
      unfold cellAt nC at *
      rw [List.getD_eq_getElem?_getD, List.getElem?_eq_getElem hlt]; exact List.getElem_mem hlt
    have hm' : x ∈ k.cellAt c := by unfold cellAt at *; rwa [hcellsEq] at hm
    have := hw.range.cells _ hmem x hm'
    unfold nHF nF eOf at *; omega
  by_cases htouch : ∃ h ∈ hes, eOf h = e
  · -- the edge is used by the new face: a dangling halfface
    exfalso
    obtain ⟨h, hh, he⟩ := htouch
    have hne : (k.addFaceCore hes).hfsOf (heOf e 0) ≠ [] := by intro h0; rw [h0] at h2; simp at h2
    have hwB : (k.addFaceCore hes).incHfs.length = k.incHfs.length := addFaceCore_incHfs_length k hes
    have hlt : heOf e 0 < k.incHfs.length := by
      rcases Nat.lt_or_ge (heOf e 0) k.incHfs.length with h1 | h1
      · exact h1
      · exfalso; apply hne; unfold hfsOf; exact getD_of_ge _ _ _ (by rw [hwB]; exact h1)
    have hxm : ∃ x, eOf x = k.nF ∧ x ∈ (k.addFaceCore hes).hfsOf (heOf e 0) := by
      rw [addFaceCore_hfsOf k hes hbe, if_pos hlt]
      have hcase : h = heOf e 0 ∨ opp h = heOf e 0 := by
        unfold eOf at he; unfold heOf opp; rw [xor_one_eq]; split <;> omega
      rcases hcase with h0 | h0
      · refine ⟨2 * k.nF, eOf_even _, List.mem_append_right _ (List.mem_flatMap.mpr ⟨h, hh, ?_⟩)⟩
        simp [h0]
      · refine ⟨2 * k.nF + 1, eOf_odd _, List.mem_append_right _ (List.mem_flatMap.mpr ⟨h, hh, ?_⟩)⟩
        simp [h0]
    obtain ⟨x, hxf, hxm⟩ := hxm
    refine not_singleFanU_of_isolated hxm ?_ ?_ h2 hs
    · unfold Kernel.sFanNext
      have : (k.addFaceCore hes).sCellOf x = none := (sCellOf_none_iff _ x).mpr (hnew x hxf)
      rw [this]
    · intro z hz
      obtain ⟨c, hl, hm⟩ := sFanNext_some_cell hz
      exact hnew (opp x) (by rw [eOf_opp]; exact hxf) c hl hm
  · -- untouched edge
    have hnt : ∀ h ∈ hes, eOf h ≠ e := fun h hh he => htouch ⟨h, hh, he⟩
    have hslot : ∀ s, s < 2 → (k.addFaceCore hes).hfsOf (heOf e s) = k.hfsOf (heOf e s) := by
      intro s hs2
      rw [addFaceCore_hfsOf k hes hbe]
      split
      · have : hes.flatMap (fun h => (if h == heOf e s then [2 * k.nF] else []) ++
            (if opp h == heOf e s then [2 * k.nF + 1] else [])) = [] := by
          rw [List.flatMap_eq_nil_iff]
          intro h hh
          have := hnt h hh
          have n1 : (h == heOf e s) = false := by
            rw [beq_eq_false_iff_ne]; intro e1; apply this; rw [e1]; unfold eOf heOf; omega
          have n2 : (opp h == heOf e s) = false := by
            rw [beq_eq_false_iff_ne]; intro e1; apply this; rw [← eOf_opp, e1]; unfold eOf heOf; omega
          simp [n1, n2]
        rw [this, List.append_nil]
      · rw [List.append_nil]
    have hemb : EmbAt k (k.addFaceCore hes) id id id (fun x => k.liveF (eOf x) = true) e e := by
      apply embAt_id e
      · intro x c _ hcx y hy; exact mates_live hw hc hcx y hy
      · intro x hx; exact addFaceCore_hfHes k hes x (liveF_lt hx)
      · intro x c _ _; unfold cellAt; rw [hcellsEq]
      · intro x _
        unfold cellOf
        rw [addFaceCore_incCell, if_pos hbf, getD_resizeL_grow _ _ _ _ (by rw [hw.len.incCell hbf]; unfold nHF nF; omega)]
      · intro x _; exact sCellOf_of_eq hcellsEq (addFaceCore_cDel k hes) x
      · exact hslot 0 (by omega)
      · exact hslot 1 (by omega)
      · intro x hx
        have := (mem_slot hw hbe hx).1
        exact ⟨this, by rw [liveF_opp]; exact this⟩
    have hlen : ((k.addFaceCore hes).hfsOf (heOf e 0)).length = (k.hfsOf (heOf e 0)).length := by rw [hslot 0 (by omega)]
    rw [hlen] at h2
    exact (hemb.fanOrdered (by omega)).mpr (hi hbe hbf e (hemb.singleFanU.mp hs) h2)

/-! ### `add_cell` -/

/-- a sweep of `reorder` over other edges changes nothing the predicates at `e` read -/
theorem foldl_reorder_elsewhere (e : Nat) : ∀ (t : List Nat) (k1 : Kernel), e ∉ t →
    (FanOrdered (t.foldl reorder k1) e ↔ FanOrdered k1 e) ∧
    (SingleFanU (t.foldl reorder k1) e ↔ SingleFanU k1 e) ∧ (SlotsOK (t.foldl reorder k1) e ↔ SlotsOK k1 e) ∧
    (t.foldl reorder k1).hfsOf (heOf e 0) = k1.hfsOf (heOf e 0) := by
  intro t
  induction t with
  | nil => intro k1 _; exact ⟨Iff.rfl, Iff.rfl, Iff.rfl, rfl⟩
  | cons a t iht =>
    intro k1 hn
    simp only [List.foldl_cons]
    have hne : e ≠ a := fun h' => hn (h' ▸ List.mem_cons_self ..)
    obtain ⟨a1, a2, a3⟩ := reorder_elsewhere k1 e a hne
    obtain ⟨b1, b2, b3, b4⟩ := iht (k1.reorder a) (fun hm => hn (List.mem_cons_of_mem _ hm))
    refine ⟨b1.trans a1, b2.trans a2, b3.trans a3, b4.trans ?_⟩
    exact reorder_other_slots k1 a _ (heOf_ne_of_ne hne 0 0 (by omega) (by omega))
      (heOf_ne_of_ne hne 0 1 (by omega) (by omega))

/-- the halfedges of a halfface are, up to orientation, those of its face -/
theorem he_in_face {k : Kernel} {x he : Nat} (h : he ∈ k.hfHes x) : ∃ h' ∈ k.faceAt (eOf x), eOf h' = eOf he := by
  unfold hfHes at h
  split at h
  · exact ⟨he, h, rfl⟩
  · exact ⟨opp he, (mem_oppFace _ _).mp h, eOf_opp he⟩

theorem mem_cellEdges (k : Kernel) (hfs : List Nat) (e : Nat) :
    e ∈ k.cellEdges hfs ↔ ∃ hf ∈ hfs, ∃ h ∈ k.faceAt (eOf hf), eOf h = e := by
  unfold cellEdges
  rw [k4_mem_toSet, List.mem_map]
  constructor
  · rintro ⟨h, hm, rfl⟩
    obtain ⟨hf, hhf, hh⟩ := List.mem_flatMap.mp hm
    exact ⟨hf, hhf, h, hh, rfl⟩
  · rintro ⟨hf, hhf, h, hh, rfl⟩
    exact ⟨h, List.mem_flatMap.mpr ⟨hf, hhf, hh⟩, rfl⟩

theorem foldSet_length {α} (x : α) (hfs : List Nat) (ic : List α) :
    (hfs.foldl (fun ic hf => ic.set hf x) ic).length = ic.length := by
  induction hfs generalizing ic with
  | nil => rfl
  | cons a t ih => simp only [List.foldl_cons]; rw [ih]; simp

theorem addCellPre_cellOf (k : Kernel) (hfs : List Nat) (hb : k.fBU = true) (x : Nat) (hx : x ∉ hfs) :
    (k.addCellPre hfs).cellOf x = k.cellOf x := by
  unfold cellOf
  have : (k.addCellPre hfs).incCell = hfs.foldl (fun ic hf => ic.set hf (some k.nC)) k.incCell := by
    simp [Kernel.addCellPre, hb]
  rw [this]
  rcases Nat.lt_or_ge x k.incCell.length with h | h
  · rw [foldSet_getD _ _ _ _ _ h, if_neg hx]
  · rw [getD_of_ge _ _ _ (by rw [foldSet_length]; exact h), getD_of_ge _ _ _ h]

/-- **`add_cell` keeps the invariant**: the edges of the new cell are re-ordered (E1's sweep lemma, post-state
    form); around every other edge neither the slot nor anything the fan reads changes. -/
theorem rotInv_addCellCore {k : Kernel} (hfs : List Nat) (hw : WF k) (hc : Closed k)
    (hh : ∀ hf ∈ hfs, hf < k.nHF) (hfree : HfsFree k hfs) (hi : RotInv k) : RotInv (k.addCellCore hfs) := by
  intro hbe hbf e hs h2
  have hwB := wf_addCellCore k hfs hh hfree hw
  have hok := slotsOK_of_wf hwB hbe e h2
  obtain ⟨_, fe, ff⟩ := addCellCore_flags k hfs
  rw [fe] at hbe; rw [ff] at hbf
  rw [addCellCore_eq] at hs h2 hok ⊢
  simp only [hbe, hbf, Bool.and_self, if_true] at hs h2 hok ⊢
  by_cases hm : e ∈ (k.addCellPre hfs).cellEdges hfs
  · exact foldl_reorder_ordered_post _ _ e hm hs hok
  · obtain ⟨b1, b2, _, b4⟩ := foldl_reorder_elsewhere e _ (k.addCellPre hfs) hm
    rw [b1]; rw [b2] at hs; rw [b4] at h2
    have hslot : ∀ y, (k.addCellPre hfs).hfsOf y = k.hfsOf y := fun _ => rfl
    have hnot : ∀ x, heOf e 0 ∈ k.hfHes x → x ∉ hfs := by
      intro x hx hxm
      apply hm
      obtain ⟨h', hh', he'⟩ := he_in_face hx
      exact (mem_cellEdges _ hfs e).mpr ⟨x, hxm, h', hh', by rw [he']; unfold eOf heOf; omega⟩
    have hemb : EmbAt k (k.addCellPre hfs) id id id (fun x => k.liveF (eOf x) = true ∧ x ∉ hfs) e e := by
      apply embAt_id e
      · intro x c _ hcx y hy
        refine ⟨mates_live hw hc hcx y hy, fun hym => ?_⟩
        have := (sCellOf_none_iff k y).mp (hfree y hym) c (Kernel.sCellOf_some hcx).1
        exact this hy
      · intro x _; rfl
      · intro x c _ hcx
        have hlt : c < k.nC := by have := (Kernel.sCellOf_some hcx).1; unfold liveC at this; simp at this; exact this.1
        unfold cellAt Kernel.addCellPre nC at *
        simp [List.getD_eq_getElem?_getD, List.getElem?_append, hlt]
      · intro x hx; exact addCellPre_cellOf k hfs hbf x hx.2
      · intro x hx
        rw [sCellOf_snoc k _ hfs rfl rfl hw.len.cDel, if_neg hx.2]
        cases k.sCellOf x <;> rfl
      · exact hslot _
      · exact hslot _
      · intro x hx
        obtain ⟨hl, hhe⟩ := mem_slot hw hbe hx
        refine ⟨⟨hl, hnot x hhe⟩, by rw [liveF_opp]; exact hl, fun hom => ?_⟩
        apply hm
        obtain ⟨h', hh', he'⟩ := he_in_face hhe
        exact (mem_cellEdges _ hfs e).mpr ⟨opp x, hom, h', by rw [eOf_opp]; exact hh', by rw [he']; unfold eOf heOf; omega⟩
    rw [hslot] at h2
    exact (hemb.fanOrdered (by omega)).mpr (hi hbe hbf e (hemb.singleFanU.mp hs) h2)

end Rot
end Kernel
end OVM

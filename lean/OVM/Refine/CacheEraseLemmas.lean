import OVM.Refine.CacheSwap
/-
  Generic material for the index-shifting (non-fast) erase stages of `delete_*_core`
  (OVM/Refine/CacheErase.lean) and for `collect_garbage` (OVM/Refine/CacheGC.lean):
  the re-insertion maps `up h` / `up2 h` (inverse of the handle corrections `corr1 h` / `corr2 (2h+1)` on
  the survivors), erased slots read through `getD`, the range without one index, `toSet`, and the fact
  that `WF` reads neither the counters, nor the modes, nor the order inside a fan.
-/
namespace OVM
namespace Kernel
open ScanDel

/-- inverse of `corr1 h` on the survivors: re-insert slot `h` -/
def up (h x : Nat) : Nat := if x < h then x else x + 1
/-- inverse of `corr2 (2h+1)` on the surviving half-entities -/
def up2 (h x : Nat) : Nat := if x < 2 * h then x else x + 2

theorem up_ne (h x : Nat) : up h x ≠ h := by unfold up; split <;> omega
theorem corr1_up (h x : Nat) : corr1 h (up h x) = x := by unfold corr1 up; split <;> split <;> omega
theorem up_corr1 (h y : Nat) (hy : y ≠ h) : up h (corr1 h y) = y := by unfold corr1 up; split <;> split <;> omega
theorem up_lt (h x n : Nat) (hh : h < n) : up h x < n ↔ x < n - 1 := by unfold up; split <;> omega
theorem up_inj (h x y : Nat) (e : up h x = up h y) : x = y := by
  have := congrArg (corr1 h) e; rwa [corr1_up, corr1_up] at this
theorem corr1_lt (h y n : Nat) (hh : h < n) (hy : y ≠ h) (hn : y < n) : corr1 h y < n - 1 := by
  unfold corr1; split <;> omega

theorem up2_eOf (h x : Nat) : eOf (up2 h x) = up h (eOf x) := by unfold up2 up eOf; split <;> split <;> omega
theorem corr2_up2 (h x : Nat) : corr2 (2 * h + 1) (up2 h x) = x := by unfold corr2 up2; split <;> split <;> omega
theorem up2_corr2 (h y : Nat) (hy : eOf y ≠ h) : up2 h (corr2 (2 * h + 1) y) = y := by
  unfold corr2 up2 eOf at *; split <;> split <;> omega
theorem up2_even (h f : Nat) : up2 h (2 * f) = 2 * up h f := by unfold up2 up; split <;> split <;> omega
theorem up2_odd (h f : Nat) : up2 h (2 * f + 1) = 2 * up h f + 1 := by unfold up2 up; split <;> split <;> omega
theorem corr2_even (h f : Nat) (_hf : f ≠ h) : corr2 (2 * h + 1) (2 * f) = 2 * corr1 h f := by
  unfold corr2 corr1; split <;> split <;> omega
theorem corr2_odd (h f : Nat) (_hf : f ≠ h) : corr2 (2 * h + 1) (2 * f + 1) = 2 * corr1 h f + 1 := by
  unfold corr2 corr1; split <;> split <;> omega
theorem up2_opp (h x : Nat) : up2 h (opp x) = opp (up2 h x) := by
  unfold opp; rw [xor_one_eq, xor_one_eq]; unfold up2
  rcases Nat.mod_two_eq_zero_or_one x with hx | hx
  · have h2 : (x + 2) % 2 = 0 := by omega
    simp only [hx, if_true]; split <;> split <;> omega
  · have h2 : ¬ (x + 2) % 2 = 0 := by omega
    have h3 : ¬ x % 2 = 0 := by omega
    simp only [h3, if_false]; split <;> split <;> omega
theorem up2_lt (h x n : Nat) (hh : h < n) : up2 h x < 2 * n ↔ x < 2 * (n - 1) := by unfold up2; split <;> omega
theorem up2_inj (h x y : Nat) (e : up2 h x = up2 h y) : x = y := by
  have := congrArg (corr2 (2 * h + 1)) e; rwa [corr2_up2, corr2_up2] at this
theorem eOf_up2_ne (h x : Nat) : eOf (up2 h x) ≠ h := by rw [up2_eOf]; exact up_ne h _
theorem corr2_lt (h y n : Nat) (hh : h < n) (hy : eOf y ≠ h) (hn : y < 2 * n) : corr2 (2 * h + 1) y < 2 * (n - 1) := by
  unfold corr2 eOf at *; split <;> omega
theorem eOf_corr2 (h y : Nat) (_hy : eOf y ≠ h) : eOf (corr2 (2 * h + 1) y) = corr1 h (eOf y) := by
  unfold corr2 corr1 eOf at *; split <;> split <;> omega

/-! ### erased slots read through `getD` -/
theorem getD_eraseIdx {α} (l : List α) (h i : Nat) (d : α) : (l.eraseIdx h).getD i d = l.getD (up h i) d := by
  simp only [List.getD_eq_getElem?_getD, List.getElem?_eraseIdx, up]
  split <;> rfl

theorem getD_eraseIdx2 {α} (l : List α) (h i : Nat) (d : α) :
    ((l.eraseIdx (2 * h + 1)).eraseIdx (2 * h)).getD i d = l.getD (up2 h i) d := by
  rw [getD_eraseIdx, getD_eraseIdx]
  congr 1
  unfold up up2; split <;> split <;> omega

theorem mem_eraseIdx_getD {α} (l : List α) (h : Nat) (x : α) (hx : x ∈ l.eraseIdx h) : x ∈ l :=
  List.mem_of_mem_eraseIdx hx

/-! ### the range without one index -/
theorem range_succ_filter_ne (n h : Nat) (hh : h ≤ n) :
    (List.range (n + 1)).filter (· != h) = (List.range n).map (up h) := by
  induction n with
  | zero =>
    have : h = 0 := by omega
    subst this; decide
  | succ m ih =>
    rw [List.range_succ, List.filter_append]
    by_cases hm : h ≤ m
    · rw [ih hm]
      rw [List.range_succ (n := m), List.map_append]
      congr 1
      have : up h m = m + 1 := by unfold up; split <;> omega
      have hne : (m + 1 != h) = true := by simp; omega
      simp [this, hne]
    · have he : h = m + 1 := by omega
      subst he
      have h1 : (List.range (m + 1)).filter (· != m + 1) = List.range (m + 1) := by
        apply List.filter_eq_self.mpr
        intro a ha; have := List.mem_range.mp ha; simp; omega
      have h2 : (List.range (m + 1)).map (up (m + 1)) = List.range (m + 1) := by
        conv => rhs; rw [← List.map_id (List.range (m + 1))]
        apply List.map_congr_left
        intro a ha; have := List.mem_range.mp ha; unfold up; simp; omega
      rw [h1, h2]; simp

/-- the survivors of a filtered range, renumbered -/
theorem filter_range_up (n h : Nat) (hh : h < n) (p : Nat → Bool) :
    ((List.range (n - 1)).filter (fun i => p (up h i))).map (up h) =
      ((List.range n).filter p).filter (· != h) := by
  obtain ⟨m, rfl⟩ : ∃ m, n = m + 1 := ⟨n - 1, by omega⟩
  simp only [Nat.add_sub_cancel]
  rw [List.filter_filter]
  have : (fun a => (a != h && p a)) = (fun a => (p a && (a != h))) := by funext a; rw [Bool.and_comm]
  rw [this, ← List.filter_filter, range_succ_filter_ne m h (by omega), List.filter_map]
  rfl

theorem filter_ne_of_not_mem (l : List Nat) (h : Nat) (hn : h ∉ l) : l.filter (· != h) = l := by
  apply List.filter_eq_self.mpr
  intro a ha; simp; intro e; subst e; exact hn ha

/-! ### small list facts -/
theorem k4_eraseIdx_set_same {α} (l : List α) (i : Nat) (v : α) : (l.set i v).eraseIdx i = l.eraseIdx i := by
  apply List.ext_getElem?
  intro j
  simp only [List.getElem?_eraseIdx, List.getElem?_set]
  split
  · rename_i hj; have : i ≠ j := by omega
    simp [this]
  · rename_i hj; have : i ≠ j + 1 := by omega
    simp [this]

theorem k4_getD_map_option (l : List (Option Nat)) (g : Nat → Nat) (x : Nat) :
    (l.map (·.map g)).getD x none = (l.getD x none).map g := by
  simp only [List.getD_eq_getElem?_getD, List.getElem?_map]
  cases l[x]? <;> rfl

theorem k4_getD_map_list (l : List (List Nat)) (g : Nat → Nat) (x : Nat) :
    (l.map (·.map g)).getD x [] = (l.getD x []).map g := by
  simp only [List.getD_eq_getElem?_getD, List.getElem?_map]
  cases l[x]? <;> rfl

/-- counting in the image of a map that is injective on the list -/
theorem k4_count_map_of_inj (l : List Nat) (g : Nat → Nat) (y : Nat)
    (hinj : ∀ a ∈ l, g a = g y → a = y) : (l.map g).count (g y) = l.count y := by
  induction l with
  | nil => rfl
  | cons a t ih =>
    simp only [List.map_cons, List.count_cons]
    rw [ih (fun b hb => hinj b (by simp [hb]))]
    congr 1
    by_cases e : a = y
    · subst e; simp
    · have : g a ≠ g y := fun e2 => e (hinj a (by simp) e2)
      simp [e, this]

theorem k4_count_map_of_not_mem (l : List Nat) (g : Nat → Nat) (x : Nat) (h : ∀ a ∈ l, g a ≠ x) :
    (l.map g).count x = 0 := by
  rw [List.count_eq_zero]; intro hm
  obtain ⟨a, ha, e⟩ := List.mem_map.mp hm
  exact h a ha e

/-! ### `toSet` (std::set built by insertion) -/
theorem k4_mem_insertSorted (x y : Nat) (l : List Nat) : y ∈ insertSorted x l ↔ y = x ∨ y ∈ l := by
  induction l with
  | nil => simp [insertSorted]
  | cons a t ih =>
    unfold insertSorted
    split
    · simp
    · split
      · rename_i h1 h2; subst h2; simp
      · simp only [List.mem_cons, ih]
        constructor
        · rintro (h | h | h)
          · exact Or.inr (Or.inl h)
          · exact Or.inl h
          · exact Or.inr (Or.inr h)
        · rintro (h | h | h)
          · exact Or.inr (Or.inl h)
          · exact Or.inl h
          · exact Or.inr (Or.inr h)

theorem k4_mem_toSet (y : Nat) (l : List Nat) : y ∈ toSet l ↔ y ∈ l := by
  unfold toSet
  have : ∀ (l s : List Nat), y ∈ l.foldl (fun s x => insertSorted x s) s ↔ y ∈ l ∨ y ∈ s := by
    intro l
    induction l with
    | nil => intro s; simp
    | cons a t ih =>
      intro s; simp only [List.foldl_cons]; rw [ih, k4_mem_insertSorted]
      simp only [List.mem_cons]
      constructor
      · rintro (h | h | h)
        · exact Or.inl (Or.inr h)
        · exact Or.inl (Or.inl h)
        · exact Or.inr h
      · rintro ((h | h) | h)
        · exact Or.inr (Or.inl h)
        · exact Or.inl h
        · exact Or.inr (Or.inr h)
  simpa using this l []

theorem k4_sortedLT_insertSorted (x : Nat) (l : List Nat) (h : SortedLT l) : SortedLT (insertSorted x l) := by
  induction l with
  | nil => simp [insertSorted, SortedLT]
  | cons a t ih =>
    unfold insertSorted
    split
    · rename_i hxa; exact ⟨hxa, h⟩
    · split
      · exact h
      · rename_i h1 h2
        have hax : a < x := by omega
        cases t with
        | nil => simp [insertSorted, SortedLT, hax]
        | cons b t' =>
          have hab : a < b := h.1
          have ht : SortedLT (b :: t') := h.2
          have ih' := ih ht
          unfold insertSorted at ih' ⊢
          split
          · rename_i hxb; exact ⟨hax, ⟨hxb, ht⟩⟩
          · split
            · exact ⟨hab, ht⟩
            · rename_i h3 h4
              simp only [h3, h4, if_false] at ih'
              exact ⟨hab, ih'⟩

theorem k4_toSet_nodup (l : List Nat) : (toSet l).Nodup := by
  apply sortedLT_nodup
  unfold toSet
  have : ∀ (l s : List Nat), SortedLT s → SortedLT (l.foldl (fun s x => insertSorted x s) s) := by
    intro l
    induction l with
    | nil => intro s hs; exact hs
    | cons a t ih => intro s hs; exact ih _ (k4_sortedLT_insertSorted a s hs)
  exact this l [] (by simp [SortedLT])

/-- folding `modify i g` over a duplicate-free index list that covers every slot where `g` is not the
    identity is `map g` -/
theorem k4_foldl_modify_eq_map {α} (g : α → α) (L : List Nat) (hn : L.Nodup) (l : List α)
    (hcov : ∀ i (hi : i < l.length), i ∉ L → g l[i] = l[i]) :
    L.foldl (fun m i => m.modify i g) l = l.map g := by
  apply List.ext_getElem?
  intro i
  rw [ScanDel.foldl_modify_getElem? g L hn, List.getElem?_map]
  split
  · rfl
  · rename_i hni
    cases hl : l[i]? with
    | none => rfl
    | some a =>
      have hi : i < l.length := by
        rcases Nat.lt_or_ge i l.length with h | h
        · exact h
        · rw [List.getElem?_eq_none h] at hl; cases hl
      have : l[i] = a := by rw [List.getElem?_eq_getElem hi] at hl; exact Option.some.inj hl
      simp only [Option.map_some]; rw [← this, hcov i hi hni]

/-! ### `WF` does not depend on the counters, the mode flags, or the order inside a fan -/
theorem wf_of_fans_perm {k k' : Kernel} (hnV : k'.nV = k.nV) (he : k'.edges = k.edges) (hf : k'.faces = k.faces)
    (hc : k'.cells = k.cells) (hvd : k'.vDel = k.vDel) (hed : k'.eDel = k.eDel) (hfd : k'.fDel = k.fDel)
    (hcd : k'.cDel = k.cDel) (hvb : k'.vBU = k.vBU) (heb : k'.eBU = k.eBU) (hfb : k'.fBU = k.fBU)
    (ho : k'.outHes = k.outHes) (hic : k'.incCell = k.incCell) (hp : k'.props = k.props)
    (hlen : k'.incHfs.length = k.incHfs.length) (hperm : ∀ y, (k'.hfsOf y).Perm (k.hfsOf y))
    (hw : WF k) : WF k' := by
  refine ⟨lenInv_of_shape k k' hw.len hnV (by rw [he]) (by rw [hf]) (by rw [hc]) (by rw [hvd]) (by rw [hed])
    (by rw [hfd]) (by rw [hcd]) hvb heb hfb (by rw [ho]) hlen (by rw [hic]) hp,
    rangeInv_of_eq hnV he hf hc hw.range,
    ⟨cacheInvV_of_eq hvb ho hnV he hed hw.cache.v, ?_, cacheInvF_of_eq hfb hic (by rw [hf]) hc hcd hw.cache.f⟩⟩
  intro hb
  rw [heb] at hb
  obtain ⟨hl, hs⟩ := hw.cache.e hb
  have hn : k'.nHE = k.nHE := by unfold nHE; rw [he]
  refine ⟨by rw [hlen, hn]; exact hl, fun y hy => ?_⟩
  rw [sHfsOfHe_of_eq hf hfd]
  exact (hperm y).trans (hs y (hn ▸ hy))

end Kernel
end OVM

import OVM.Refine.RotInvErase
/-
  RotInv, part 8 (builder R1): the erase stages `eraseCell / eraseFace / eraseEdge / eraseVertex`
  (Kernel/Delete.lean; TopologyKernel.cc:1407-1427, 1258-1337, 1090-1180, 961-1015) applied to an entity that is
  flagged deleted, that the caches do not mention and that nothing stored one level up uses, keep the invariant —
  in index-shifting mode (`fast = false`, any index) and in fast mode (`fast = true`, the last index).
  `WF` and `Closed` of the resulting state are hypotheses (K3 / K4 prove them where these lemmas are used).
-/
namespace OVM
namespace Kernel
namespace Rot
open Fan CellCheck ScanDel

theorem liveC_lt {k : Kernel} {c : Nat} (h : k.liveC c = true) : c < k.nC := by
  unfold liveC at h; simp at h; exact h.1

/-! ### cells -/
theorem rotInv_eraseCell_dead {G : Kernel} {h : Nat} (hdead : G.cDeleted h = true)
    (hmode : G.fast = true → h = G.nC - 1) (hwG : WF G) (hwA : WF (G.eraseCell h)) (hcA : Closed (G.eraseCell h))
    (hi : RotInv G) : RotInv (G.eraseCell h) := by
  apply rotInv_eraseC_abs h hwA hcA hwG (by simp) (by simp) (by simp) (eraseCell_cellAt G h) ?_ (by simp) hi
  intro hbf x
  have hbf' : G.fBU = true := by simpa using hbf
  -- what the cache of `G` can say
  have hG : ∀ c, G.cellOf x = some c → c ≠ h ∧ c < G.nC := by
    intro c hc
    obtain ⟨_, hl, _⟩ := cellOf_some_live hwG.cache.f hbf' hc
    refine ⟨fun e => ?_, liveC_lt hl⟩
    subst e; unfold liveC at hl; simp [hdead] at hl
  unfold cellOf at *
  unfold eraseCell
  simp only [hbf', Bool.and_true]
  cases hf : G.fast with
  | false =>
    simp only [Bool.not_false, if_true]
    rw [k4_getD_map_option]
    cases hc : G.incCell.getD x none with
    | none => rfl
    | some c =>
      simp only [Option.map_some]
      rw [up_corr1 h c (hG c hc).1]
  | true =>
    simp only [Bool.not_true, Bool.false_eq_true, if_false]
    cases hc : G.incCell.getD x none with
    | none => rfl
    | some c =>
      simp only [Option.map_some]
      have := hG c hc
      have hh := hmode hf
      have : up h c = c := by unfold up; rw [if_pos (by omega)]
      rw [this]

/-! ### faces -/
theorem oppFace_map {g : Nat → Nat} (hg : ∀ x, g (opp x) = opp (g x)) (l : List Nat) :
    oppFace (l.map g) = (oppFace l).map g := by
  unfold oppFace
  rw [← List.map_reverse, List.map_map, List.map_map]
  congr 1; funext x; simp [Function.comp, hg]

theorem map_up2_low (h : Nat) (l : List Nat) (hl : ∀ a ∈ l, a < 2 * h) : l.map (up2 h) = l := by
  conv => rhs; rw [← List.map_id l]
  apply List.map_congr_left
  intro a ha; unfold up2; rw [if_pos (hl a ha)]; rfl

theorem map_up2_corr2 (h : Nat) (l : List Nat) (hl : ∀ a ∈ l, eOf a ≠ h) :
    (l.map (corr2 (2 * h + 1))).map (up2 h) = l := by
  rw [List.map_map]
  conv => rhs; rw [← List.map_id l]
  apply List.map_congr_left
  intro a ha; simp only [Function.comp, id]; exact up2_corr2 h a (hl a ha)

theorem low_of_ne_last {n h a : Nat} (hh : h = n - 1) (ha : a < 2 * n) (hne : eOf a ≠ h) : a < 2 * h := by
  unfold eOf at hne; omega

/-- a face slot: flagged, in no fan, used by no stored cell -/
theorem rotInv_eraseFace_dead {G : Kernel} {h : Nat} (hh : h < G.nF) (hdead : G.fDeleted h = true)
    (hmode : G.fast = true → h = G.nF - 1) (hwG : WF G) (h1 : G.oneCell = true)
    (hcl : ∀ c, c < G.nC → G.cDeleted c = false) (hun : ∀ c ∈ G.cells, ∀ a ∈ c, eOf a ≠ h)
    (hwA : WF (G.eraseFace h)) (hcA : Closed (G.eraseFace h)) (hi : RotInv G) : RotInv (G.eraseFace h) := by
  apply rotInv_eraseF_abs h hwA hcA hwG (by simp) (by simp) (eraseFace_hfHes G h) ?_ ?_ ?_ hi
  · -- cells
    intro c _
    have hunc := cellAt_unref hun c
    cases hf : G.fast with
    | false =>
      rw [eraseFace_cellAt hwG ⟨hf, hh, hdead, h1, hcl, hun⟩ c, map_up2_corr2 h _ hunc]
    | true =>
      have : (G.eraseFace h).cellAt c = G.cellAt c := by unfold cellAt; rw [eraseFace_cells_fast G h hf]
      rw [this, map_up2_low]
      intro a ha
      rcases Nat.lt_or_ge c G.nC with hc | hc
      · exact low_of_ne_last (hmode hf) (hwG.range.cells _ (cellAt_mem_cells hc) a ha) (hunc a ha)
      · unfold cellAt at ha; rw [getD_of_ge _ _ _ hc] at ha; cases ha
  · -- face cache
    intro hbf x
    have hbf' : G.fBU = true := by simpa using hbf
    unfold cellOf
    rw [eraseFace_incCell_on G h hbf']
    exact getD_eraseIdx2 _ _ _ _
  · -- slots
    intro hbe y
    have hbe' : G.eBU = true := by simpa using hbe
    have hmem : ∀ a ∈ G.hfsOf y, eOf a ≠ h := by
      intro a ha e
      have := (mem_slot hwG hbe' ha).1
      rw [e] at this; unfold liveF at this; simp [hdead] at this
    cases hf : G.fast with
    | false =>
      have : (G.eraseFace h).hfsOf y = (G.hfsOf y).map (corr2 (2 * h + 1)) := by
        unfold hfsOf eraseFace
        simp only [hf, hbe', Bool.not_false, Bool.and_self, if_true]
        exact k4_getD_map_list _ _ _
      rw [this, map_up2_corr2 h _ hmem]
    | true =>
      have : (G.eraseFace h).hfsOf y = G.hfsOf y := by unfold hfsOf; rw [eraseFace_incHfs_fast G h hf]
      rw [this, map_up2_low]
      intro a ha
      have hl := liveF_lt (mem_slot hwG hbe' ha).1
      exact low_of_ne_last (hmode hf) (by unfold nF eOf at *; omega) (hmem a ha)

/-! ### edges -/
/-- an edge slot: flagged, used by no stored face -/
theorem rotInv_eraseEdge_dead {G : Kernel} {h : Nat} (hh : h < G.nE) (hdead : G.eDeleted h = true)
    (hmode : G.fast = true → h = G.nE - 1) (hwG : WF G)
    (hfl : ∀ f, f < G.nF → G.fDeleted f = false) (hun : ∀ f ∈ G.faces, ∀ a ∈ f, eOf a ≠ h)
    (hwA : WF (G.eraseEdge h)) (hcA : Closed (G.eraseEdge h)) (hi : RotInv G) : RotInv (G.eraseEdge h) := by
  apply rotInv_eraseE_abs h hwA hcA (by simp) (by simp) ?_ (by simp) (by simp) (by simp) ?_ hi
  · intro x _
    have hunf := faceAt_unref hun (eOf x)
    have hface : G.faceAt (eOf x) = ((G.eraseEdge h).faceAt (eOf x)).map (up2 h) := by
      cases hf : G.fast with
      | false => rw [eraseEdge_faceAt hwG ⟨hf, hh, hdead, hfl, hun⟩, map_up2_corr2 h _ hunf]
      | true =>
        have : (G.eraseEdge h).faceAt (eOf x) = G.faceAt (eOf x) := by
          unfold faceAt; rw [eraseEdge_faces_fast G h hf]
        rw [this, map_up2_low]
        intro a ha
        rcases Nat.lt_or_ge (eOf x) G.nF with hc | hc
        · exact low_of_ne_last (hmode hf) (hwG.range.faces _ (faceAt_mem_faces hc) a ha) (hunf a ha)
        · unfold faceAt at ha; rw [getD_of_ge _ _ _ hc] at ha; cases ha
    unfold hfHes
    rw [hface]
    split
    · rfl
    · exact oppFace_map (up2_opp h) _
  · intro hbe y
    have hbe' : G.eBU = true := by simpa using hbe
    unfold hfsOf
    rw [eraseEdge_incHfs_on G h hbe']
    exact getD_eraseIdx2 _ _ _ _

/-! ### vertices -/
theorem rotInv_eraseVertex {G : Kernel} (h : Nat) (hi : RotInv G) : RotInv (G.eraseVertex h) :=
  rotInv_of_same (A := G) (fun h1 h2 => ⟨h1, h2⟩) ⟨rfl, rfl, rfl, rfl⟩ (fun _ => rfl) hi

end Rot
end Kernel
end OVM

import OVM.Refine.GlobalSet
import OVM.Refine.GlobalDelete
/-
  **One step of the driver vocabulary keeps `GInv`** (`ginv_step`), for every operation of `Op`, every
  deletion mode and every bottom-up configuration, under the argument conditions `Global.OpOK` alone;
  hence every history of valid calls (`ginv_run`), in particular from the empty mesh (`ginv_reachable`).
  Per-operation lemmas: GlobalAdd.lean, GlobalSet.lean, GlobalSwap.lean, GlobalDelete.lean; here the mode
  switches that do not delete (`enable_fast_deletion`, `enable_*_bottom_up_incidences`) and `clear`.
-/
namespace OVM
namespace Kernel
namespace Global
open ScanDel

/-- a state that differs only in caches / modes other than `deferred` -/
theorem ginv_of_same {k k' : Kernel} (hw : WF k') (h1 : k'.oneCell = true)
    (hnV : k'.nV = k.nV) (he : k'.edges = k.edges) (hf : k'.faces = k.faces) (hc : k'.cells = k.cells)
    (hvd : k'.vDel = k.vDel) (hed : k'.eDel = k.eDel) (hfd : k'.fDel = k.fDel) (hcd : k'.cDel = k.cDel)
    (hd : k'.deferred = k.deferred) (nc : k'.nDelC = k.nDelC) (nf : k'.nDelF = k.nDelF) (ne : k'.nDelE = k.nDelE)
    (nv : k'.nDelV = k.nDelV) (hi : GInv k) : GInv k' :=
  ⟨hw, h1, closed_of_eq hnV he hf hc hvd hed hfd hcd hi.closed, flagInv_of_eq hd nc nf ne nv hcd hfd hed hvd hi.flags⟩

theorem ginv_enableFast {k : Kernel} (b : Bool) (hi : GInv k) : GInv (k.enableFast b) :=
  ginv_of_same (k := k) (wf_enableFast k b hi.wf) hi.one rfl rfl rfl rfl rfl rfl rfl rfl rfl rfl rfl rfl rfl hi

theorem reorderAll_modes (k : Kernel) :
    k.reorderAll.deferred = k.deferred ∧ k.reorderAll.nDelC = k.nDelC ∧ k.reorderAll.nDelF = k.nDelF ∧
    k.reorderAll.nDelE = k.nDelE ∧ k.reorderAll.nDelV = k.nDelV := by
  unfold reorderAll; simp

theorem ginv_enableVBU {k : Kernel} (b : Bool) (hi : GInv k) : GInv (k.enableVBU b) := by
  have hw := wf_enableVBU k b hi.wf
  have h1 := (oneCell_enableVBU k b).trans hi.one
  revert hw h1
  unfold enableVBU
  split
  · split
    · intro _ _; exact hi
    · intro hw h1; exact ginv_of_same (k := k) hw h1 rfl rfl rfl rfl rfl rfl rfl rfl rfl rfl rfl rfl rfl hi
  · intro hw h1; exact ginv_of_same (k := k) hw h1 rfl rfl rfl rfl rfl rfl rfl rfl rfl rfl rfl rfl rfl hi

theorem ginv_enableEBU {k : Kernel} (b : Bool) (hi : GInv k) : GInv (k.enableEBU b) := by
  have hw := wf_enableEBU k b hi.wf
  have h1 := (oneCell_enableEBU k b).trans hi.one
  revert hw h1
  unfold enableEBU
  split
  · split
    · intro _ _; exact hi
    · split
      · intro hw h1
        have f := reorderAll_frame ({ k with incHfs := k.computeEBU })
        have m := reorderAll_modes ({ k with incHfs := k.computeEBU })
        exact ginv_of_same (k := k) hw h1 f.2.1 f.2.2.1 f.2.2.2.1 f.2.2.2.2.1 f.2.2.2.2.2.1 f.2.2.2.2.2.2.1
          f.2.2.2.2.2.2.2.1 f.2.2.2.2.2.2.2.2.1 m.1 m.2.1 m.2.2.1 m.2.2.2.1 m.2.2.2.2 hi
      · intro hw h1; exact ginv_of_same (k := k) hw h1 rfl rfl rfl rfl rfl rfl rfl rfl rfl rfl rfl rfl rfl hi
  · intro hw h1; exact ginv_of_same (k := k) hw h1 rfl rfl rfl rfl rfl rfl rfl rfl rfl rfl rfl rfl rfl hi

theorem ginv_enableFBU {k : Kernel} (b : Bool) (hi : GInv k) : GInv (k.enableFBU b) := by
  have hw := wf_enableFBU k b hi.wf
  have h1 := (oneCell_enableFBU k b).trans hi.one
  revert hw h1
  unfold enableFBU
  split
  · split
    · intro _ _; exact hi
    · split
      · intro hw h1
        have f := reorderAll_frame ({ k with incCell := k.computeFBU, fBU := true })
        have m := reorderAll_modes ({ k with incCell := k.computeFBU, fBU := true })
        exact ginv_of_same (k := k) hw h1 f.2.1 f.2.2.1 f.2.2.2.1 f.2.2.2.2.1 f.2.2.2.2.2.1 f.2.2.2.2.2.2.1
          f.2.2.2.2.2.2.2.1 f.2.2.2.2.2.2.2.2.1 m.1 m.2.1 m.2.2.1 m.2.2.2.1 m.2.2.2.2 hi
      · intro hw h1; exact ginv_of_same (k := k) hw h1 rfl rfl rfl rfl rfl rfl rfl rfl rfl rfl rfl rfl rfl hi
  · intro hw h1; exact ginv_of_same (k := k) hw h1 rfl rfl rfl rfl rfl rfl rfl rfl rfl rfl rfl rfl rfl hi

theorem ginv_clear {k : Kernel} (p : Bool) (hi : GInv k) : GInv (k.clear p) :=
  ginv_of_noFlag (wf_clear k p hi.wf) (oneCell_clear k p) noFlag_nil noFlag_nil noFlag_nil noFlag_nil

/-- **one operation with valid arguments keeps the global invariant** — whole vocabulary, all four
    deletion modes, all eight bottom-up configurations -/
theorem ginv_step (k : Kernel) (op : Op) (hi : GInv k) (hok : OpOK k op) : GInv (k.step op).1 := by
  cases op with
  | addVertex => exact ginv_addVertex hi
  | addNVertices n => exact ginv_addNVertices n hi
  | addEdge a b d => exact ginv_addEdge d hok.1 hok.2 hi
  | addFaceHe c hes => exact ginv_addFace c hok hi
  | addFaceV vs => exact ginv_addFaceV hok hi
  | addCell c hfs => exact ginv_addCell c hok.1 hok.2 hi
  | setEdge e a b => exact ginv_setEdge hok.1.1 hok.1.2 hok.2.1 hok.2.2 hi
  | setFace f hes => exact ginv_setFace hok.1.1 hok.1.2 hok.2 hi
  | setCell c hfs => exact ginv_setCell hok.1.1 hok.1.2 hok.2.1 hok.2.2 hi
  | deleteVertex v => exact ginv_deleteVertex hok hi
  | deleteEdge e => exact ginv_deleteEdge hok hi
  | deleteFace f => exact ginv_deleteFace hok hi
  | deleteCell c => exact ginv_deleteCell hok hi
  | swapVertex a b => exact ginv_swapVertex hok.1 hok.2 hi
  | swapEdge a b => exact ginv_swapEdge hok.1 hok.2 hi
  | swapFace a b => exact ginv_swapFace hok.1 hok.2 hi
  | swapCell a b => exact ginv_swapCell hok.1 hok.2 hi
  | collectGarbage => exact ginv_collectGarbage hi
  | enableDeferred b => exact ginv_enableDeferred b hi
  | enableFast b => exact ginv_enableFast b hi
  | enableBU kind b =>
    simp only [step]
    split
    · exact ginv_enableVBU b hi
    · split
      · exact ginv_enableEBU b hi
      · exact ginv_enableFBU b hi
  | clear p => exact ginv_clear p hi

/-- **every history of valid calls keeps the global invariant** -/
theorem ginv_run (k : Kernel) (ops : List Op) (hi : GInv k) (hr : HistoryOK k ops) : GInv (k.run ops) := by
  induction ops generalizing k with
  | nil => exact hi
  | cons op t ih =>
    simp only [run, List.foldl_cons]
    exact ih _ (ginv_step k op hi hr.1) hr.2

/-- **every state reachable from the empty mesh by valid calls satisfies the global invariant** -/
theorem ginv_reachable (ops : List Op) (hr : HistoryOK {} ops) : GInv (run {} ops) :=
  ginv_run {} ops ginv_empty hr

end Global
end Kernel
end OVM

import OVM.Refine.ScanLemmas
import OVM.Refine.Len
/-
  `WF = LenInv ∧ RangeInv ∧ CacheInv` is preserved by the construction operations
  `add_vertex`, `add_n_vertices`, `add_edge`, `add_face` (both forms) of the mechanism model
  (OVM/Kernel/Add.lean).  `add_cell` is in OVM/Refine/CacheAddCell.lean, the mode switches and
  `clear` in OVM/Refine/CacheMode.lean.  Every argument hypothesis is the precondition the C++
  asserts (cited at the lemma that needs it).
-/
namespace OVM
namespace Kernel

/-! ### 1. add_vertex / add_n_vertices -/

/-- growing the vertex count: the new slots of the vertex cache are empty, and (RangeInv) no
    stored edge mentions a vertex that did not exist -/
theorem cacheInvV_growV (k k' : Kernel) (hr : RangeInv k) (hn : k.nV ≤ k'.nV) (hb : k'.vBU = k.vBU)
    (ho : k'.outHes = if k.vBU then resizeL k.outHes k'.nV [] else k.outHes)
    (he : k'.edges = k.edges) (hd : k'.eDel = k.eDel) (h : CacheInvV k) : CacheInvV k' := by
  intro hb'
  rw [hb] at hb'
  obtain ⟨h1, h2⟩ := h hb'
  rw [if_pos hb'] at ho
  refine ⟨by rw [ho]; simp, fun v hv => ?_⟩
  unfold outOf
  rw [ho, getD_resizeL_grow _ _ _ _ (by rw [h1]; exact hn), sOut_congr k k' he hd]
  by_cases hlt : v < k.nV
  · exact h2 v hlt
  · rw [sOut_nil_of_ge k hr v (by omega), List.getD_eq_getElem?_getD,
      List.getElem?_eq_none (by rw [h1]; omega)]
    exact List.Perm.refl _

theorem cacheInv_addVertex (k : Kernel) (hr : RangeInv k) (h : CacheInv k) : CacheInv (k.addVertex).1 :=
  { v := cacheInvV_growV k _ hr (by simp [addVertex]) rfl rfl rfl rfl h.v
    e := cacheInvE_congr k _ rfl rfl rfl rfl rfl h.e
    f := cacheInvF_congr k _ rfl rfl rfl rfl rfl h.f }

theorem rangeInv_addVertex (k : Kernel) (hr : RangeInv k) : RangeInv (k.addVertex).1 :=
  rangeInv_congr k _ (by simp [addVertex]) rfl rfl rfl hr

/-- `add_vertex` preserves the whole invariant, no precondition -/
theorem wf_addVertex (k : Kernel) (h : WF k) : WF (k.addVertex).1 :=
  ⟨lenInv_addVertex k h.len, rangeInv_addVertex k h.range, cacheInv_addVertex k h.range h.cache⟩

theorem cacheInv_addNVertices (k : Kernel) (n : Nat) (hr : RangeInv k) (h : CacheInv k) :
    CacheInv (k.addNVertices n) :=
  { v := cacheInvV_growV k _ hr (by simp [addNVertices]) rfl rfl rfl rfl h.v
    e := cacheInvE_congr k _ rfl rfl rfl rfl rfl h.e
    f := cacheInvF_congr k _ rfl rfl rfl rfl rfl h.f }

theorem rangeInv_addNVertices (k : Kernel) (n : Nat) (hr : RangeInv k) : RangeInv (k.addNVertices n) :=
  rangeInv_congr k _ (by simp [addNVertices]) rfl rfl rfl hr

/-- `add_n_vertices(n)` preserves the whole invariant, every `n` -/
theorem wf_addNVertices (k : Kernel) (n : Nat) (h : WF k) : WF (k.addNVertices n) :=
  ⟨lenInv_addNVertices k n h.len, rangeInv_addNVertices k n h.range, cacheInv_addNVertices k n h.range h.cache⟩


/-! ### 2. add_edge -/
theorem addEdgeCore_outHes (k : Kernel) (a b : Nat) :
    (k.addEdgeCore a b).outHes =
      if k.vBU then (k.outHes.modify a (· ++ [2 * k.nE])).modify b (· ++ [2 * k.nE + 1]) else k.outHes := by
  unfold addEdgeCore; simp only []; split <;> split <;> simp_all [heOf]

theorem addEdgeCore_incHfs (k : Kernel) (a b : Nat) :
    (k.addEdgeCore a b).incHfs = if k.eBU then resizeL k.incHfs (2 * (k.nE + 1)) [] else k.incHfs := by
  unfold addEdgeCore; simp only []; split <;> split <;> simp_all [nHE, nE]

/-- the scan after appending a live edge `(a, b)` -/
theorem sOut_snoc (k k' : Kernel) (a b : Nat) (he : k'.edges = k.edges ++ [(a, b)]) (hd : k'.eDel = k.eDel ++ [false])
    (hl : k.eDel.length = k.nE) (v : Nat) :
    k'.sOut v = k.sOut v ++ ((if a == v then [2 * k.nE] else []) ++ (if b == v then [2 * k.nE + 1] else [])) := by
  have hn : k'.nE = k.nE + 1 := by unfold nE; rw [he]; simp
  rw [sOut_flat, sOut_flat, liveEdges_eq, liveEdges_eq, hn, hd, liveIdx_snoc _ _ hl, List.flatMap_append]
  congr 1
  · apply flatMap_congr'
    intro e hm
    have : e < k.edges.length := mem_liveIdx_lt hm
    simp [outC, edgeAt, he, List.getD_eq_getElem?_getD, List.getElem?_append, this]
  · simp [outC, edgeAt, he, nE, List.getD_eq_getElem?_getD]

theorem perm_snoc2 {α} (old s : List α) (x y : α) (a b v : Nat) (hp : old.Perm s) :
    (if b = v then (if a = v then old ++ [x] else old) ++ [y] else (if a = v then old ++ [x] else old)).Perm
      (s ++ ((if a == v then [x] else []) ++ (if b == v then [y] else []))) := by
  by_cases ha : a = v <;> by_cases hb : b = v <;>
    simp only [ha, hb, if_true, if_false, beq_self_eq_true, beq_iff_eq, List.append_nil, List.nil_append]
  · rw [← List.append_assoc]; exact (hp.append_right _).append_right _
  · exact hp.append_right _
  · exact hp.append_right _
  · exact hp

theorem cacheInvV_addEdgeCore (k : Kernel) (a b : Nat) (hl : LenInv k) (h : CacheInvV k) :
    CacheInvV (k.addEdgeCore a b) := by
  intro hb
  rw [(addEdgeCore_flags k a b).1] at hb
  obtain ⟨h1, h2⟩ := h hb
  refine ⟨by rw [addEdgeCore_outHes_length, addEdgeCore_nV]; exact h1, fun v hv => ?_⟩
  rw [addEdgeCore_nV] at hv
  rw [sOut_snoc k _ a b (addEdgeCore_edges k a b) (addEdgeCore_eDel k a b) hl.eDel]
  unfold outOf
  rw [addEdgeCore_outHes, if_pos hb, getD_modify _ _ _ _ _ (by simpa [h1] using hv),
    getD_modify _ _ _ _ _ (by simpa [h1] using hv)]
  exact perm_snoc2 _ _ _ _ a b v (h2 v hv)

/-- growing the edge count: the new slots of the halfedge cache are empty, and (RangeInv) no
    stored face mentions a halfedge that did not exist -/
theorem cacheInvE_growE (k k' : Kernel) (hr : RangeInv k) (hn : k.nHE ≤ k'.nHE) (hb : k'.eBU = k.eBU)
    (ho : k'.incHfs = if k.eBU then resizeL k.incHfs k'.nHE [] else k.incHfs)
    (hf : k'.faces = k.faces) (hd : k'.fDel = k.fDel) (h : CacheInvE k) : CacheInvE k' := by
  intro hb'
  rw [hb] at hb'
  obtain ⟨h1, h2⟩ := h hb'
  rw [if_pos hb'] at ho
  refine ⟨by rw [ho]; simp, fun v hv => ?_⟩
  unfold hfsOf
  rw [ho, getD_resizeL_grow _ _ _ _ (by rw [h1]; exact hn), sHfsOfHe_congr k k' hf hd]
  by_cases hlt : v < k.nHE
  · exact h2 v hlt
  · rw [sHfsOfHe_nil_of_ge k hr v (by omega), List.getD_eq_getElem?_getD,
      List.getElem?_eq_none (by rw [h1]; omega)]
    exact List.Perm.refl _

theorem cacheInv_addEdgeCore (k : Kernel) (a b : Nat) (hl : LenInv k) (hr : RangeInv k) (h : CacheInv k) :
    CacheInv (k.addEdgeCore a b) :=
  have fl := addEdgeCore_flags k a b
  { v := cacheInvV_addEdgeCore k a b hl h.v
    e := cacheInvE_growE k _ hr (by simp [nHE]; omega) fl.2.1
      (by rw [addEdgeCore_incHfs]; simp [nHE, nE]) (by simp) (by simp) h.e
    f := cacheInvF_congr k _ fl.2.2 (addEdgeCore_incCell k a b) (by simp) (by simp) (by simp) h.f }

/-- the new edge's endpoints must exist: this is `add_edge`'s asserted precondition
    (TopologyKernel.cc:119-120); with NDEBUG the C++ indexes `outgoing_hes_per_vertex_` out of
    bounds at cc:155-156 for such an argument. -/
theorem rangeInv_addEdgeCore (k : Kernel) (a b : Nat) (ha : a < k.nV) (hb : b < k.nV) (hr : RangeInv k) :
    RangeInv (k.addEdgeCore a b) :=
  { edges := by
      intro e hm
      rw [addEdgeCore_edges, List.mem_append, List.mem_singleton] at hm
      rw [addEdgeCore_nV]
      rcases hm with hm | rfl
      · exact hr.edges e hm
      · exact ⟨ha, hb⟩
    faces := by
      intro f hm h hh
      rw [addEdgeCore_faces] at hm
      have := hr.faces f hm h hh
      simp only [nHE, addEdgeCore_edges, List.length_append, List.length_singleton] at this ⊢; omega
    cells := by
      intro c hm
      rw [addEdgeCore_cells] at hm
      simpa [nHF] using hr.cells c hm }

theorem wf_addEdgeCore (k : Kernel) (a b : Nat) (ha : a < k.nV) (hb : b < k.nV) (h : WF k) :
    WF (k.addEdgeCore a b) :=
  ⟨lenInv_addEdgeCore k a b h.len, rangeInv_addEdgeCore k a b ha hb h.range,
   cacheInv_addEdgeCore k a b h.len h.range h.cache⟩

/-- `add_edge(a, b, allowDuplicates)` for existing vertices `a`, `b` — both outcomes: an existing
    edge is returned and nothing changes, or the edge is appended.  Holds for either value of the
    flag and whichever duplicate search (cache-guided / linear) runs. -/
theorem wf_addEdge (k : Kernel) (a b : Nat) (d : Bool) (ha : a < k.nV) (hb : b < k.nV) (h : WF k) :
    WF (k.addEdge a b d).1 := by
  unfold addEdge; split
  · exact h
  · exact wf_addEdgeCore k a b ha hb h

/-- the cache clauses alone do not need the range condition on the arguments -/
theorem cacheInv_addEdge (k : Kernel) (a b : Nat) (d : Bool) (hl : LenInv k) (hr : RangeInv k) (h : CacheInv k) :
    CacheInv (k.addEdge a b d).1 := by
  unfold addEdge; split
  · exact h
  · exact cacheInv_addEdgeCore k a b hl hr h

/-! ### 3. add_face -/
theorem addFaceCore_incHfs (k : Kernel) (hes : List Nat) :
    (k.addFaceCore hes).incHfs = if k.eBU then faceLoop k.nF hes k.incHfs else k.incHfs := by
  unfold addFaceCore faceLoop; simp only []; split <;> split <;> simp_all [nF]

theorem addFaceCore_incCell (k : Kernel) (hes : List Nat) :
    (k.addFaceCore hes).incCell = if k.fBU then resizeL k.incCell (2 * (k.nF + 1)) none else k.incCell := by
  unfold addFaceCore; simp only []; split <;> split <;> simp_all [nHF, nF]

/-- the scan after appending a live face with halfedges `hes` -/
theorem sHfsOfHe_snoc (k k' : Kernel) (hes : List Nat) (hf : k'.faces = k.faces ++ [hes]) (hd : k'.fDel = k.fDel ++ [false])
    (hl : k.fDel.length = k.nF) (h : Nat) :
    k'.sHfsOfHe h = k.sHfsOfHe h ++ hfC hes k.nF h := by
  have hn : k'.nF = k.nF + 1 := by unfold nF; rw [hf]; simp
  rw [sHfsOfHe_flat, sHfsOfHe_flat, liveFaces_eq, liveFaces_eq, hn, hd, liveIdx_snoc _ _ hl, List.flatMap_append]
  congr 1
  · apply flatMap_congr'
    intro f hm
    have : f < k.faces.length := mem_liveIdx_lt hm
    simp [faceAt, hf, List.getD_eq_getElem?_getD, List.getElem?_append, this]
  · simp [faceAt, hf, nF, List.getD_eq_getElem?_getD]

theorem cacheInvE_addFaceCore (k : Kernel) (hes : List Nat) (hl : LenInv k) (h : CacheInvE k) :
    CacheInvE (k.addFaceCore hes) := by
  intro hb
  rw [(addFaceCore_flags k hes).2.1] at hb
  obtain ⟨h1, h2⟩ := h hb
  have hN : (k.addFaceCore hes).nHE = k.nHE := by simp [nHE]
  refine ⟨by rw [addFaceCore_incHfs_length, hN]; exact h1, fun v hv => ?_⟩
  rw [hN] at hv
  rw [sHfsOfHe_snoc k _ hes (addFaceCore_faces k hes) (addFaceCore_fDel k hes) hl.fDel]
  unfold hfsOf
  rw [addFaceCore_incHfs, if_pos hb, faceLoop_getD _ _ _ _ (by rw [h1]; exact hv)]
  exact (h2 v hv).append (faceLoop_perm _ _ _)

/-- growing the face count: the new slots of the halfface cache are `none`, and (RangeInv) no
    stored cell mentions a halfface that did not exist -/
theorem cacheInvF_growF (k k' : Kernel) (hr : RangeInv k) (hn : k.nHF ≤ k'.nHF) (hb : k'.fBU = k.fBU)
    (ho : k'.incCell = if k.fBU then resizeL k.incCell k'.nHF none else k.incCell)
    (hc : k'.cells = k.cells) (hd : k'.cDel = k.cDel) (h : CacheInvF k) : CacheInvF k' := by
  intro hb'
  rw [hb] at hb'
  obtain ⟨h1, h2⟩ := h hb'
  rw [if_pos hb'] at ho
  refine ⟨by rw [ho]; simp, fun v hv => ?_⟩
  unfold cellOf
  rw [ho, getD_resizeL_grow _ _ _ _ (by rw [h1]; exact hn), sCellOf_congr k k' hc hd]
  by_cases hlt : v < k.nHF
  · exact h2 v hlt
  · rw [sCellOf_none_of_ge k hr v (by omega), List.getD_eq_getElem?_getD,
      List.getElem?_eq_none (by rw [h1]; omega)]
    rfl

theorem cacheInv_addFaceCore (k : Kernel) (hes : List Nat) (hl : LenInv k) (hr : RangeInv k) (h : CacheInv k) :
    CacheInv (k.addFaceCore hes) :=
  have fl := addFaceCore_flags k hes
  { v := cacheInvV_congr k _ fl.1 (addFaceCore_outHes k hes) (by simp) (by simp) (by simp) h.v
    e := cacheInvE_addFaceCore k hes hl h.e
    f := cacheInvF_growF k _ hr (by simp [nHF]; omega) fl.2.2
      (by rw [addFaceCore_incCell]; simp [nHF, nF]) (by simp) (by simp) h.f }

/-- the halfedges of the new face must exist: `add_face`'s asserted precondition
    (TopologyKernel.cc:176-181); with NDEBUG the C++ indexes `incident_hfs_per_he_` out of bounds
    at cc:217-218 for such an argument. -/
theorem rangeInv_addFaceCore (k : Kernel) (hes : List Nat) (hh : ∀ h ∈ hes, h < k.nHE) (hr : RangeInv k) :
    RangeInv (k.addFaceCore hes) :=
  { edges := by
      intro e hm
      rw [addFaceCore_edges] at hm
      rw [addFaceCore_nV]; exact hr.edges e hm
    faces := by
      intro f hm h hx
      rw [addFaceCore_faces, List.mem_append, List.mem_singleton] at hm
      have hN : (k.addFaceCore hes).nHE = k.nHE := by simp [nHE]
      rw [hN]
      rcases hm with hm | rfl
      · exact hr.faces f hm h hx
      · exact hh h hx
    cells := by
      intro c hm h hx
      rw [addFaceCore_cells] at hm
      have := hr.cells c hm h hx
      simp only [nHF, addFaceCore_faces, List.length_append, List.length_singleton] at this ⊢; omega }

theorem wf_addFaceCore (k : Kernel) (hes : List Nat) (hh : ∀ h ∈ hes, h < k.nHE) (h : WF k) :
    WF (k.addFaceCore hes) :=
  ⟨lenInv_addFaceCore k hes h.len, rangeInv_addFaceCore k hes hh h.range,
   cacheInv_addFaceCore k hes h.len h.range h.cache⟩

/-- `add_face(halfedges, topologyCheck)` for existing halfedges — accepted (with or without the
    check) or rejected (state unchanged) -/
theorem wf_addFace (k : Kernel) (hes : List Nat) (chk : Bool) (hh : ∀ h ∈ hes, h < k.nHE) (h : WF k) :
    WF (k.addFace hes chk).1 := by
  unfold addFace; split
  · exact wf_addFaceCore k hes hh h
  · exact h

/-! ### add_face(vertices) -/

/-- what the cache-guided duplicate search returns (cc:124-140, since 8c92632 the smallest matching edge) is the
    edge of a halfedge in the vertex's list that ends at the requested vertex -/
theorem findEdgeBU_some {k : Kernel} {a b e : Nat} (h : k.findEdgeBU a b = some e) :
    ∃ x, x ∈ k.outOf a ∧ k.toV x = b ∧ eOf x = e := by
  unfold findEdgeBU at h
  have hm := List.min?_mem h
  rw [List.mem_map] at hm
  obtain ⟨x, hx, rfl⟩ := hm
  rw [List.mem_filter] at hx
  exact ⟨x, hx.1, by simpa using hx.2, rfl⟩

/-- the edge `add_edge` returns exists afterwards (found through the vertex cache, found by the
    linear scan, or just created) -/
theorem addEdge_result_lt (k : Kernel) (a b : Nat) (d : Bool) (h : WF k) (ha : a < k.nV) :
    (k.addEdge a b d).2 < (k.addEdge a b d).1.nE := by
  unfold addEdge
  split
  · rename_i e he
    show e < k.nE
    unfold findEdge at he
    split at he
    · cases he
    · split at he
      · rename_i hv
        obtain ⟨x, hm, _, rfl⟩ := findEdgeBU_some he
        have := ((h.cache.v hv).2 a ha).mem_iff.mp hm
        unfold sOut liveHes at this
        simp only [List.mem_filter, List.mem_range] at this
        unfold nHE at this; unfold eOf nE; omega
      · unfold findEdgeScan at he
        have := List.mem_of_find?_eq_some he
        simpa using this
  · show k.nE < (k.addEdgeCore a b).nE
    simp [nE]

theorem addEdge_nV (k : Kernel) (a b : Nat) (d : Bool) : (k.addEdge a b d).1.nV = k.nV := by
  unfold addEdge; split <;> simp

theorem addEdge_nHE_le (k : Kernel) (a b : Nat) (d : Bool) : k.nHE ≤ (k.addEdge a b d).1.nHE := by
  unfold addEdge; split <;> simp [nHE]; omega

/-- `add_face(vertices)` for existing vertices: find-or-create every edge, then unchecked
    `add_face`.  (An empty vertex list only raises the ghost `fault` flag.) -/
theorem wf_addFaceV (k : Kernel) (vs : List Nat) (hv : ∀ v ∈ vs, v < k.nV) (h : WF k) : WF (k.addFaceV vs).1 := by
  unfold addFaceV
  cases vs with
  | nil =>
    exact { len := { h.len with }
            range := rangeInv_congr k _ (Nat.le_refl _) rfl rfl rfl h.range
            cache := { v := cacheInvV_congr k _ rfl rfl rfl rfl rfl h.cache.v
                       e := cacheInvE_congr k _ rfl rfl rfl rfl rfl h.cache.e
                       f := cacheInvF_congr k _ rfl rfl rfl rfl rfl h.cache.f } }
  | cons v0 t =>
    simp only
    have key : ∀ (ps : List (Nat × Nat)) (st : Kernel × List Nat), (∀ p ∈ ps, p.1 < k.nV ∧ p.2 < k.nV) →
        WF st.1 → st.1.nV = k.nV → (∀ x ∈ st.2, x < st.1.nHE) →
        let r := ps.foldl (fun (st : Kernel × List Nat) (ab : Nat × Nat) =>
          ((st.1.addEdge ab.1 ab.2 false).1,
           st.2 ++ [heOf (st.1.addEdge ab.1 ab.2 false).2
             (if (((st.1.addEdge ab.1 ab.2 false).1).edgeAt (st.1.addEdge ab.1 ab.2 false).2).2 == ab.1 then 1 else 0)])) st
        WF r.1 ∧ (∀ x ∈ r.2, x < r.1.nHE) := by
      intro ps
      induction ps with
      | nil => intro st _ hw _ hx; exact ⟨hw, hx⟩
      | cons p ps ih =>
        intro st hps hw hn hx
        simp only [List.foldl_cons]
        have hp := hps p (by simp)
        apply ih
        · intro q hq; exact hps q (by simp [hq])
        · exact wf_addEdge _ _ _ _ (by rw [hn]; exact hp.1) (by rw [hn]; exact hp.2) hw
        · rw [addEdge_nV]; exact hn
        · intro x hm
          simp only [List.mem_append, List.mem_singleton] at hm
          rcases hm with hm | rfl
          · exact Nat.lt_of_lt_of_le (hx x hm) (addEdge_nHE_le _ _ _ _)
          · have := addEdge_result_lt st.1 p.1 p.2 false hw (by rw [hn]; exact hp.1)
            show heOf _ _ < 2 * (st.1.addEdge p.1 p.2 false).1.edges.length
            unfold heOf; unfold nE at this
            split <;> omega
    have hpairs : ∀ p ∈ (v0 :: t).zip ((v0 :: t).tail ++ [v0]), p.1 < k.nV ∧ p.2 < k.nV := by
      intro p hp
      have h1 := (List.of_mem_zip hp).1
      have h2 := (List.of_mem_zip hp).2
      refine ⟨hv _ h1, ?_⟩
      simp only [List.tail_cons, List.mem_append, List.mem_singleton] at h2
      rcases h2 with h2 | h2
      · exact hv _ (by simp [h2])
      · rw [h2]; exact hv _ (by simp)
    obtain ⟨hw, hx⟩ := key _ (k, []) hpairs h rfl (by intro x hx; cases hx)
    exact wf_addFace _ _ _ hx hw

end Kernel
end OVM

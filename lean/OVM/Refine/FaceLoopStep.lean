import OVM.Hex.Stable
import OVM.Hex.FaceSpec
import OVM.Refine.LookupLemmas
/-
  `FaceLoop` — "every live face is a closed loop: each halfedge ends where the NEXT one begins, cyclically" — is carried
  through histories.  This is the ORDERED statement (`Loop`, literally `Props.C08.ClosedLoop`; the definition is repeated
  here so that Props/C08.lean and Props/C10.lean can import this file: OVM/Refine/GlobalLoops.lean imports Props/C08 and
  OVM/Tet/TetBuild.lean imports Props/C10); `Global.FaceCyc` (OVM/Refine/FaceCycStep.lean) is its unordered shadow
  (`cyc_of_loop` in OVM/Refine/ReachMirror.lean).  Same proof shape as FaceCycStep.lean:

  * `stable_faceLoop : HexAll.Stable FaceLoop` — the ten atomic definition changes of OVM/Hex/Stable.lean, by the renaming
    transport `loop_map`; hence every delete_*, swap_*, collect_garbage, mode switch in every deletion mode keeps it.
  * creating / overwriting calls: `add_face(vertices)` creates a closed loop running v0→v1→…→v0 (`addFaceV_spec`);
    `add_face(halfedges)` with topology check only accepts one (`faceLoopOk_iff_loop`); the UNCHECKED
    `add_face(halfedges)`, `set_face` and `set_edge` can break it and get the side condition `LoopOK`.
  * `faceLoop_step`, `faceLoop_run`, `faceLoop_reachable`; Boolean forms for `decide`.
  * `addFaceV_loop`: the kernel-level form of `HexAll.addFaceV_spec` — the new face is a closed loop v0→v1→…→v0.
  * consequences on `FaceLoop` states: both halffaces of a live face are closed loops (`loop_oppFace`,
    `hfLoop_of_faceLoop`), i.e. closed halfedge cycles in the sense of the lookup lemmas (`hfCyclic_of_faceLoop`).
  The few halfedge lemmas of OVM/Tet/TetStable.lean that are needed are repeated (namespace `LoopSt`) for the import
  reason above.  Proof-only file.
-/
namespace OVM
namespace Kernel
namespace Global
open ScanDel HexAll

/-- "each halfedge ends where the next begins", cyclically (= `Props.C08.ClosedLoop`) -/
def Loop (k : Kernel) (hes : List Nat) : Prop :=
  hes ≠ [] ∧ ∀ i, i < hes.length → k.toV (hes.getD i 0) = k.fromV (hes.getD ((i + 1) % hes.length) 0)

/-- every live face is a closed loop -/
def FaceLoop (k : Kernel) : Prop := ∀ f, k.liveF f = true → Loop k (k.faceAt f)

namespace LoopSt

theorem getD_mem0 {l : List Nat} {i : Nat} (h : i < l.length) : l.getD i 0 ∈ l := by
  rw [List.getD_eq_getElem?_getD, List.getElem?_eq_getElem h]; exact List.getElem_mem h

theorem getD_map0 {l : List Nat} (σ : Nat → Nat) {i : Nat} (h : i < l.length) : (l.map σ).getD i 0 = σ (l.getD i 0) := by
  simp [List.getD_eq_getElem?_getD, h]

theorem halfedge_of_edges {k k' : Kernel} (he : k'.edges = k.edges) (a : Nat) : k'.halfedge a = k.halfedge a := by
  unfold halfedge edgeAt; rw [he]

theorem liveF_of_faces {k k' : Kernel} (hl : k'.faces.length = k.faces.length) (hd : k'.fDel = k.fDel) (f : Nat) :
    k'.liveF f = k.liveF f := by unfold liveF nF fDeleted; rw [hl, hd]

theorem halfedge_of_edgeAt {k k' : Kernel} {a b : Nat} (he : k'.edgeAt (eOf b) = k.edgeAt (eOf a)) (hs : side b = side a) :
    k'.halfedge b = k.halfedge a := by unfold halfedge; rw [he, hs]

theorem liveF_mono {k k' : Kernel} (hf : k'.faces = k.faces) (hd : ∀ x, k.fDeleted x = true → k'.fDeleted x = true)
    {f : Nat} (hl : k'.liveF f = true) : k.liveF f = true := by
  unfold liveF nF at *
  rw [hf] at hl
  simp only [Bool.and_eq_true, decide_eq_true_eq, Bool.not_eq_true'] at hl ⊢
  refine ⟨hl.1, ?_⟩
  cases hx : k.fDeleted f with
  | false => rfl
  | true => rw [hd f hx] at hl; exact absurd hl.2 (by simp)

theorem side_corr2 (h x : Nat) : side (corr2 (2 * h + 1) x) = side x := by unfold side corr2; split <;> omega

theorem halfedge_eraseE {k k' : Kernel} (h : Nat) (he : k'.edges = k.edges.eraseIdx h) (a : Nat) (hne : eOf a ≠ h) :
    k'.halfedge (corr2 (2 * h + 1) a) = k.halfedge a := by
  apply halfedge_of_edgeAt _ (side_corr2 h a)
  unfold edgeAt
  rw [he, getD_eraseIdx, eOf_corr2 h a hne, up_corr1 h _ hne]

theorem halfedge_eraseV {k k' : Kernel} (h : Nat) (he : k'.edges = k.edges.map (fun p => (corr1 h p.1, corr1 h p.2)))
    (a : Nat) : k'.halfedge a = (corr1 h (k.halfedge a).1, corr1 h (k.halfedge a).2) := by
  have hea : k'.edgeAt (eOf a) = (corr1 h (k.edgeAt (eOf a)).1, corr1 h (k.edgeAt (eOf a)).2) := by
    unfold edgeAt
    rw [he]
    simp only [List.getD_eq_getElem?_getD, List.getElem?_map]
    cases k.edges[eOf a]? with
    | none => simp [corr1]
    | some p => rfl
  unfold halfedge
  rw [hea]
  split <;> rfl

theorem swapEdge_halfedge {k : Kernel} {a b : Nat} (hab : a ≠ b) (ha : a < k.nE) (hb : b < k.nE) (h : Nat) :
    (k.swapEdge a b).halfedge h = k.halfedge (relabelHalf a b h) := by
  unfold halfedge eOf side
  rw [swapEdge_edgeAt hab ha hb, k3_relabelHalf_div, k3_relabelHalf_mod]

theorem swapVertex_halfedge_live {k : Kernel} {a b : Nat} (hab : a ≠ b) (ha : a < k.nV) (hb : b < k.nV) (hw : WF k)
    {y : Nat} (hy : k.liveE (eOf y) = true) :
    (k.swapVertex a b).halfedge y = (relabelId a b (k.halfedge y).1, relabelId a b (k.halfedge y).2) := by
  have hlt : eOf y < k.edges.length := by unfold liveE nE at hy; simp at hy; exact hy.1
  have hea := swapVertex_edgeAt_live hab ha hb hw.cache.v (e := eOf y) hlt (fun _ => hy)
  unfold halfedge
  rw [hea]
  unfold relabelEdgeV
  split <;> rfl

theorem liveE_of_face {k : Kernel} (hw : WF k) (hc : Closed k) {f x : Nat} (hl : k.liveF f = true)
    (hx : x ∈ k.faceAt f) : k.liveE (eOf x) = true := by
  have hd := hc.e f hl x hx
  have := hw.range.faces _ (faceAt_mem_faces (liveF_lt hl)) x hx
  unfold Kernel.liveE; rw [hd]
  have : eOf x < k.nE := by unfold Kernel.nHE Kernel.nE eOf at *; omega
  simp [this]

end LoopSt
open LoopSt

/-- `Loop` is invariant under a consistent renaming of halfedges (`σ`) and vertices (`τ`) -/
theorem loop_map {k k' : Kernel} {l : List Nat} (σ τ : Nat → Nat)
    (hf : ∀ a ∈ l, k'.fromV (σ a) = τ (k.fromV a)) (ht : ∀ a ∈ l, k'.toV (σ a) = τ (k.toV a))
    (h : Loop k l) : Loop k' (l.map σ) := by
  obtain ⟨hne, hcl⟩ := h
  refine ⟨by simpa using hne, ?_⟩
  intro i hi
  rw [List.length_map] at hi ⊢
  have hpos : 0 < l.length := by omega
  have hi1 : (i + 1) % l.length < l.length := Nat.mod_lt _ hpos
  rw [getD_map0 σ hi, getD_map0 σ hi1, ht _ (getD_mem0 hi), hf _ (getD_mem0 hi1), hcl i hi]

theorem loop_congr {k k' : Kernel} {l : List Nat} (hh : ∀ a ∈ l, k'.halfedge a = k.halfedge a) (h : Loop k l) : Loop k' l := by
  have := loop_map (k' := k') id id (fun a ha => by show (k'.halfedge a).1 = _; rw [hh a ha]; rfl)
    (fun a ha => by show (k'.halfedge a).2 = _; rw [hh a ha]; rfl) h
  rwa [List.map_id] at this

/-- the connectivity test computed by `add_face` with topology check (cc:184-197) is closedness of the loop
    (the proof of `Props.C11.faceLoopOk_iff`, for `Loop`) -/
theorem faceLoopOk_iff_loop (k : Kernel) (hes : List Nat) : k.faceLoopOk hes = some true ↔ Loop k hes := by
  unfold faceLoopOk Loop
  cases hes with
  | nil => simp
  | cons a t =>
    have hne : (a :: t) ≠ [] := by simp
    have hl : (a :: t).getLast? = some ((a :: t).getLast hne) := List.getLast?_eq_some_getLast hne
    rw [hl]
    simp only [List.head?_cons, Option.some.injEq, Bool.and_eq_true, List.all_eq_true, List.mem_range,
      beq_iff_eq, ne_eq, reduceCtorEq, not_false_eq_true, true_and]
    have hlast : (a :: t).getLast hne = (a :: t).getD ((a :: t).length - 1) 0 := by
      rw [List.getLast_eq_getElem]
      simp [List.getD_eq_getElem?_getD]
    constructor
    · rintro ⟨h1, h2⟩ i hi
      by_cases hlt : i + 1 < (a :: t).length
      · rw [Nat.mod_eq_of_lt hlt]; exact h1 i (by omega)
      · have : i + 1 = (a :: t).length := by omega
        rw [this, Nat.mod_self]
        have hi' : i = (a :: t).length - 1 := by omega
        rw [hi', ← hlast]; simpa using h2
    · intro h
      constructor
      · intro i hi
        have := h i (by omega)
        rwa [Nat.mod_eq_of_lt (by omega)] at this
      · have := h ((a :: t).length - 1) (by simp)
        have e : ((a :: t).length - 1 + 1) % (a :: t).length = 0 := by
          have : (a :: t).length - 1 + 1 = (a :: t).length := by simp
          rw [this, Nat.mod_self]
        rw [e, ← hlast] at this
        simpa using this

namespace LoopSt

theorem mono {k k' : Kernel} (he : k'.edges = k.edges) (hf : k'.faces = k.faces)
    (hfd : ∀ x, k.fDeleted x = true → k'.fDeleted x = true) (hq : FaceLoop k) : FaceLoop k' := by
  intro f hl
  have := hq f (liveF_mono hf hfd hl)
  have e : k'.faceAt f = k.faceAt f := by unfold faceAt; rw [hf]
  rw [e]; exact loop_congr (fun a _ => halfedge_of_edges he a) this

theorem eraseC {k k' : Kernel} (he : k'.edges = k.edges) (hf : k'.faces = k.faces) (hfd : k'.fDel = k.fDel)
    (hq : FaceLoop k) : FaceLoop k' := by
  intro f hl
  have hl0 : k.liveF f = true := by rw [← liveF_of_faces (by rw [hf]) hfd]; exact hl
  have e : k'.faceAt f = k.faceAt f := by unfold faceAt; rw [hf]
  rw [e]; exact loop_congr (fun a _ => halfedge_of_edges he a) (hq f hl0)

theorem eraseF {k k' : Kernel} (h : Nat) (hh : h < k.nF) (he : k'.edges = k.edges)
    (hf : k'.faces = k.faces.eraseIdx h) (hfd : k'.fDel = k.fDel.eraseIdx h) (hq : FaceLoop k) : FaceLoop k' := by
  intro f hl
  have hl0 : k.liveF (up h f) = true := by
    unfold liveF nF fDeleted at *
    rw [hf, hfd, getD_eraseIdx, List.length_eraseIdx, if_pos hh] at hl
    simp only [Bool.and_eq_true, decide_eq_true_eq] at hl ⊢
    exact ⟨(up_lt h f _ hh).mpr hl.1, hl.2⟩
  have e : k'.faceAt f = k.faceAt (up h f) := by unfold faceAt; rw [hf, getD_eraseIdx]
  rw [e]; exact loop_congr (fun a _ => halfedge_of_edges he a) (hq _ hl0)

theorem eraseE {k k' : Kernel} (h : Nat) (hun : UnrefE k h) (he : k'.edges = k.edges.eraseIdx h)
    (hf : k'.faces = k.faces.map (·.map (corr2 (2 * h + 1)))) (hfd : k'.fDel = k.fDel) (hq : FaceLoop k) : FaceLoop k' := by
  have hfa : ∀ f, k'.faceAt f = (k.faceAt f).map (corr2 (2 * h + 1)) := by
    intro f; unfold faceAt; rw [hf]; exact k4_getD_map_list _ _ _
  intro f hl
  have hl0 : k.liveF f = true := by rw [← liveF_of_faces (by rw [hf, List.length_map]) hfd]; exact hl
  rw [hfa]
  have hne : ∀ a ∈ k.faceAt f, eOf a ≠ h := fun a ha => hun _ (faceAt_mem_faces (liveF_lt hl0)) a ha
  exact loop_map _ id (fun a ha => by unfold fromV; rw [halfedge_eraseE h he a (hne a ha)]; rfl)
    (fun a ha => by unfold toV; rw [halfedge_eraseE h he a (hne a ha)]; rfl) (hq f hl0)

theorem eraseV {k k' : Kernel} (h : Nat) (he : k'.edges = k.edges.map (fun p => (corr1 h p.1, corr1 h p.2)))
    (hf : k'.faces = k.faces) (hfd : k'.fDel = k.fDel) (hq : FaceLoop k) : FaceLoop k' := by
  have hfv : ∀ a, k'.fromV a = corr1 h (k.fromV a) := by intro a; unfold fromV; rw [halfedge_eraseV h he]
  have htv : ∀ a, k'.toV a = corr1 h (k.toV a) := by intro a; unfold toV; rw [halfedge_eraseV h he]
  intro f hl
  have hl0 : k.liveF f = true := by rw [← liveF_of_faces (by rw [hf]) hfd]; exact hl
  have e : k'.faceAt f = (k.faceAt f).map id := by unfold faceAt; rw [hf, List.map_id]
  rw [e]
  exact loop_map id (corr1 h) (fun a _ => hfv a) (fun a _ => htv a) (hq f hl0)

theorem swapC {k : Kernel} (a b : Nat) (hq : FaceLoop k) : FaceLoop (k.swapCell a b) := by
  have hff : (k.swapCell a b).faces = k.faces := by unfold swapCell; split <;> rfl
  have hee : (k.swapCell a b).edges = k.edges := by unfold swapCell; split <;> rfl
  have hfd : (k.swapCell a b).fDel = k.fDel := by unfold swapCell; split <;> rfl
  exact eraseC hee hff hfd hq

theorem swapF {k : Kernel} (a b : Nat) (hw : WF k) (ha : a < k.nF) (hb : b < k.nF) (hq : FaceLoop k) :
    FaceLoop (k.swapFace a b) := by
  by_cases hab : a = b
  · subst hab; rw [Global.swapFace_self]; exact hq
  intro f hl
  rw [swapFace_liveF hab ha hb hw.len.fDel] at hl
  rw [swapFace_faceAt hab ha hb]
  exact loop_congr (fun a _ => halfedge_of_edges (swapFace_edges k _ _) a) (hq _ hl)

theorem swapE {k : Kernel} (a b : Nat) (hw : WF k) (ha : a < k.nE) (hb : b < k.nE) (hq : FaceLoop k) :
    FaceLoop (k.swapEdge a b) := by
  by_cases hab : a = b
  · subst hab; rw [Global.swapEdge_self]; exact hq
  have hhe : ∀ y, (k.swapEdge a b).halfedge (relabelHalf a b y) = k.halfedge y := by
    intro y; rw [swapEdge_halfedge hab ha hb, k3_relabelHalf_invol]
  intro f hl
  have hl0 : k.liveF f = true := by
    rw [← liveF_of_faces (swapEdge_faces_length k a b) (swapEdge_fDel k a b)]; exact hl
  rw [swapEdge_faceAt_live hab ha hb hw.cache.e (fun _ => hl0)]
  exact loop_map _ id (fun y _ => by unfold fromV; rw [hhe]; rfl) (fun y _ => by unfold toV; rw [hhe]; rfl) (hq f hl0)

theorem swapV {k : Kernel} (a b : Nat) (hw : WF k) (hcl : Closed k) (ha : a < k.nV) (hb : b < k.nV) (hq : FaceLoop k) :
    FaceLoop (k.swapVertex a b) := by
  by_cases hab : a = b
  · subst hab; rw [Global.swapVertex_self]; exact hq
  have hfaces : (k.swapVertex a b).faces = k.faces := swapVertex_faces k a b
  intro f hl
  have hl0 : k.liveF f = true := by
    rw [← liveF_of_faces (by rw [hfaces]) (swapVertex_fDel (k := k) (a := a) (b := b))]; exact hl
  have e : (k.swapVertex a b).faceAt f = (k.faceAt f).map id := by unfold faceAt; rw [hfaces, List.map_id]
  rw [e]
  exact loop_map id (relabelId a b)
    (fun y hy => by show ((k.swapVertex a b).halfedge y).1 = _
                    rw [swapVertex_halfedge_live hab ha hb hw (liveE_of_face hw hcl hl0 hy)]; rfl)
    (fun y hy => by show ((k.swapVertex a b).halfedge y).2 = _
                    rw [swapVertex_halfedge_live hab ha hb hw (liveE_of_face hw hcl hl0 hy)]; rfl)
    (hq f hl0)

end LoopSt

/-- **`FaceLoop` survives every atomic definition change** of the skeleton of OVM/Hex/Stable.lean, hence every deleting,
    swapping, collecting and mode-switching operation in every deletion mode (`HexAll.stable_step`) -/
theorem stable_faceLoop : HexAll.Stable FaceLoop where
  mono := fun _ he hf _ _ _ hfd _ hq => LoopSt.mono he hf hfd hq
  eraseC := fun _ _ _ _ he hf _ _ _ hfd _ hq => LoopSt.eraseC he hf hfd hq
  eraseF := fun h _ hh _ _ he hf _ _ _ hfd _ hq => LoopSt.eraseF h hh he hf hfd hq
  eraseE := fun h _ _ hun _ he hf _ _ _ hfd _ hq => LoopSt.eraseE h hun he hf hfd hq
  eraseV := fun h _ _ _ _ he hf _ _ _ hfd _ hq => LoopSt.eraseV h he hf hfd hq
  swapC := fun a b _ _ _ _ _ hq => LoopSt.swapC a b hq
  swapF := fun a b hw _ _ ha hb hq => LoopSt.swapF a b hw ha hb hq
  swapE := fun a b hw _ _ ha hb hq => LoopSt.swapE a b hw ha hb hq
  swapV := fun a b hw _ hcl ha hb hq => LoopSt.swapV a b hw hcl ha hb hq

/-- a closed loop stays a closed loop when mirrored (the proof of `Props.C08.closedLoop_oppFace`) -/
theorem loop_oppFace (k : Kernel) (hes : List Nat) (hc : Loop k hes) : Loop k (oppFace hes) := by
  obtain ⟨hne, hcl⟩ := hc
  have hlen : (oppFace hes).length = hes.length := by simp [oppFace]
  refine ⟨by intro h; apply hne; have := congrArg List.length h; simp [oppFace] at this; exact this, ?_⟩
  intro i hi
  rw [hlen] at hi ⊢
  have hn : 0 < hes.length := by omega
  have getM : ∀ j, j < hes.length → (oppFace hes).getD j 0 = Kernel.opp (hes.getD (hes.length - 1 - j) 0) := by
    intro j hj
    simp [oppFace, List.getD_eq_getElem?_getD, hj]
    have : hes.length - 1 - j < hes.length := by omega
    simp [List.getElem?_eq_getElem this]
  have hi1 : (i + 1) % hes.length < hes.length := Nat.mod_lt _ hn
  rw [getM i hi, getM _ hi1, Lookup.toV_opp, Lookup.fromV_opp]
  have key := hcl (hes.length - 1 - (i + 1) % hes.length) (by omega)
  have idx : (hes.length - 1 - (i + 1) % hes.length + 1) % hes.length = hes.length - 1 - i := by
    by_cases hlast : i + 1 = hes.length
    · have : (i + 1) % hes.length = 0 := by rw [hlast]; exact Nat.mod_self _
      rw [this]
      have : hes.length - 1 - 0 + 1 = hes.length := by omega
      rw [this, Nat.mod_self]; omega
    · have hlt : i + 1 < hes.length := by omega
      rw [Nat.mod_eq_of_lt hlt]
      have : hes.length - 1 - (i + 1) + 1 = hes.length - 1 - i := by omega
      rw [this]; exact Nat.mod_eq_of_lt (by omega)
  rw [idx] at key
  exact key.symm

/-- on a `FaceLoop` state both halffaces of a live face are closed loops -/
theorem hfLoop_of_faceLoop {k : Kernel} (hq : FaceLoop k) {hf : Nat} (hl : k.liveF (eOf hf) = true) : Loop k (k.hfHes hf) := by
  unfold hfHes
  simp only
  split
  · exact hq _ hl
  · exact loop_oppFace k _ (hq _ hl)

/-- … hence closed halfedge cycles in the sense of the lookup lemmas (`Lookup.HfCyclic`) -/
theorem hfCyclic_of_loop {k : Kernel} {hf : Nat} (h : Loop k (k.hfHes hf)) : Lookup.HfCyclic k hf := by
  intro i hi
  have hlt : (i + 1) % (k.hfHes hf).length < (k.hfHes hf).length := Nat.mod_lt _ (by omega)
  have := h.2 i hi
  rw [List.getD_eq_getElem?_getD, List.getD_eq_getElem?_getD, List.getElem?_eq_getElem hi,
    List.getElem?_eq_getElem hlt] at this
  exact this

theorem loop_of_hfCyclic {k : Kernel} {hf : Nat} (hne : k.hfHes hf ≠ []) (h : Lookup.HfCyclic k hf) : Loop k (k.hfHes hf) := by
  refine ⟨hne, fun i hi => ?_⟩
  have hlt : (i + 1) % (k.hfHes hf).length < (k.hfHes hf).length := Nat.mod_lt _ (by omega)
  rw [List.getD_eq_getElem?_getD, List.getD_eq_getElem?_getD, List.getElem?_eq_getElem hi,
    List.getElem?_eq_getElem hlt]
  exact h i hi

theorem hfCyclic_of_faceLoop {k : Kernel} (hq : FaceLoop k) {hf : Nat} (hl : k.liveF (eOf hf) = true) :
    Lookup.HfCyclic k hf := hfCyclic_of_loop (hfLoop_of_faceLoop hq hl)

/-! ### the creating / overwriting operations -/

theorem faceLoop_of_same {k k' : Kernel} (he : k'.edges = k.edges) (hf : k'.faces = k.faces) (hfd : k'.fDel = k.fDel)
    (hq : FaceLoop k) : FaceLoop k' := LoopSt.eraseC he hf hfd hq

/-- edges and faces appended (`HexAll.Ext`): the old faces stay closed loops, the new ones have to be -/
theorem faceLoop_of_ext {k k' : Kernel} (hw : WF k) (x : HexAll.Ext k k') (hq : FaceLoop k)
    (hnew : ∀ f, k.nF ≤ f → k'.liveF f = true → Loop k' (k'.faceAt f)) : FaceLoop k' := by
  intro f hl
  by_cases hlt : f < k.nF
  · have hl0 : k.liveF f = true := by
      unfold liveF at hl ⊢
      rw [x.fDel f hlt] at hl
      simp only [Bool.and_eq_true, decide_eq_true_eq] at hl ⊢
      exact ⟨hlt, hl.2⟩
    rw [x.faceAt hlt]
    refine loop_congr (fun a ha => x.halfedge ?_) (hq f hl0)
    exact hw.range.faces _ (faceAt_mem_faces hlt) a ha
  · exact hnew f (by omega) hl

/-- what the caller has to respect, beyond `OpOK`, for the faces to stay closed loops: an UNCHECKED
    `add_face(halfedges)` and `set_face` are given a closed loop, and `set_edge` is not applied to an edge of a live
    face.  (`add_face` with topology check and `add_face(vertices)` need nothing.)  Decidable: `loopOKB`. -/
def LoopOK (k : Kernel) : Op → Prop
  | .addFaceHe chk hes => chk = true ∨ Loop k hes
  | .setFace _ hes => Loop k hes
  | .setEdge e _ _ => ∀ f, k.liveF f = true → ∀ x ∈ k.faceAt f, eOf x ≠ e
  | _ => True

theorem faceLoop_addFace {k : Kernel} (hw : WF k) {hes : List Nat} {chk : Bool} (hh : ∀ h ∈ hes, HeOk k h)
    (hc : chk = true ∨ Loop k hes) (hq : FaceLoop k) : FaceLoop (k.addFace hes chk).1 := by
  unfold addFace
  split
  · rename_i hacc
    have hcyc : Loop k hes := by
      rcases hc with rfl | hc
      · unfold addFaceAccepts at hacc
        simp only [Bool.not_true, Bool.false_or, beq_iff_eq] at hacc
        exact (faceLoopOk_iff_loop k hes).mp hacc
      · exact hc
    have e0 : (k.addFace hes false).1 = k.addFaceCore hes := by
      unfold addFace addFaceAccepts; simp
    have x : HexAll.Ext k (k.addFaceCore hes) := e0 ▸ HexAll.ext_addFace (k := k) hes
    apply faceLoop_of_ext hw x hq
    intro f hge hl
    have hf : f = k.nF := by
      have := liveF_lt hl
      unfold Kernel.nF at *; rw [addFaceCore_faces] at this; simp at this; omega
    have hfa : (k.addFaceCore hes).faceAt f = hes := by
      unfold faceAt; rw [addFaceCore_faces, hf]; unfold Kernel.nF
      simp [List.getD_eq_getElem?_getD]
    rw [hfa]
    exact loop_congr (fun a ha => x.halfedge (hh a ha).1) hcyc
  · exact hq

/-- **`add_face(v0 … v_{n-1})` on valid vertices** (kernel level, from `HexAll.addFaceV_spec`): one live face `nF` is
    appended; it is a closed loop of `n` halfedges, the `j`-th running from `v_j` to `v_{(j+1) mod n}` on a live edge;
    every older edge, face, flag is untouched -/
theorem addFaceV_loop {k : Kernel} (hw : WF k) (v0 : Nat) (t : List Nat) (hv : ∀ v ∈ v0 :: t, v < k.nV) :
    let k' := (k.addFaceV (v0 :: t)).1
    (k.addFaceV (v0 :: t)).2 = some k.nF ∧ HexAll.Ext k k' ∧ k'.nF = k.nF + 1 ∧ k'.liveF k.nF = true ∧
    Loop k' (k'.faceAt k.nF) ∧ (k'.faceAt k.nF).length = (v0 :: t).length ∧
    (k'.faceAt k.nF).map k'.fromV = v0 :: t ∧
    (∀ j, j < (v0 :: t).length → k'.toV ((k'.faceAt k.nF).getD j 0) = (v0 :: t).getD ((j + 1) % (v0 :: t).length) 0) ∧
    (∀ h ∈ k'.faceAt k.nF, h < k'.nHE ∧ k'.liveE (eOf h) = true) := by
  intro k'
  obtain ⟨r, x, _, _, hnF, hfd, hlen, hruns⟩ := HexAll.addFaceV_spec hw v0 t hv []
    (fun _ _ _ _ ha => by cases ha)
  have hpos : 0 < (v0 :: t).length := by simp
  have hloop : Loop k' (k'.faceAt k.nF) := by
    refine ⟨fun e => by rw [e] at hlen; simp at hlen, ?_⟩
    intro i hi
    rw [hlen] at hi ⊢
    have r1 := hruns i hi
    have r2 := hruns ((i + 1) % (v0 :: t).length) (Nat.mod_lt _ hpos)
    rw [r1.2.2.2, r2.2.2.1]
  refine ⟨r, x, hnF, ?_, hloop, hlen, ?_, fun j hj => (hruns j hj).2.2.2, ?_⟩
  · unfold liveF; rw [hfd, hnF]; simp
  · apply List.ext_getElem?
    intro j
    by_cases hj : j < (v0 :: t).length
    · have hj' : j < (k'.faceAt k.nF).length := by rw [hlen]; exact hj
      rw [List.getElem?_map, List.getElem?_eq_getElem hj', List.getElem?_eq_getElem hj]
      have := (hruns j hj).2.2.1
      rw [List.getD_eq_getElem?_getD, List.getElem?_eq_getElem hj', List.getD_eq_getElem?_getD,
        List.getElem?_eq_getElem hj] at this
      simpa using this
    · rw [List.getElem?_eq_none (by rw [List.length_map, hlen]; omega), List.getElem?_eq_none (by omega)]
  · intro h hm
    obtain ⟨j, hj, rfl⟩ := List.getElem_of_mem hm
    have := hruns j (by rw [← hlen]; exact hj)
    rw [List.getD_eq_getElem?_getD, List.getElem?_eq_getElem hj] at this
    exact ⟨this.1, this.2.1⟩

theorem faceLoop_addFaceV {k : Kernel} (hw : WF k) {vs : List Nat} (hv : ∀ v ∈ vs, VOk k v) (hq : FaceLoop k) :
    FaceLoop (k.addFaceV vs).1 := by
  cases vs with
  | nil => exact faceLoop_of_same (k := k) rfl rfl rfl hq
  | cons v0 t =>
    obtain ⟨_, x, hnF, _, hloop, _⟩ := addFaceV_loop hw v0 t (fun v hm => (hv v hm).1)
    apply faceLoop_of_ext hw x hq
    intro f hge hl
    have hf : f = k.nF := by have := liveF_lt hl; omega
    subst hf
    exact hloop

theorem faceLoop_setEdge {k : Kernel} {e a b : Nat} (hun : ∀ f, k.liveF f = true → ∀ x ∈ k.faceAt f, eOf x ≠ e)
    (hq : FaceLoop k) : FaceLoop (k.setEdge e a b) := by
  intro f hl
  have hl0 : k.liveF f = true := hl
  show Loop (k.setEdge e a b) (k.faceAt f)
  refine loop_congr (fun x hx => ?_) (hq f hl0)
  have hne := hun f hl0 x hx
  have : ¬ (e = eOf x ∧ e < k.edges.length) := fun h => hne h.1.symm
  have hea : (k.setEdge e a b).edgeAt (eOf x) = k.edgeAt (eOf x) := by
    unfold edgeAt; show (k.edges.set e (a, b)).getD (eOf x) (0, 0) = _
    rw [ScanDel.getD_set]; simp only [this, if_false]
  unfold halfedge; rw [hea]

theorem faceLoop_setFace {k : Kernel} {f : Nat} {hes : List Nat} (hc : Loop k hes) (hq : FaceLoop k) :
    FaceLoop (k.setFace f hes) := by
  intro f' hl
  have hl0 : k.liveF f' = true := by
    unfold liveF nF fDeleted at hl ⊢
    simpa [setFace] using hl
  have hat : (k.setFace f hes).faceAt f' = if f = f' ∧ f < k.faces.length then hes else k.faceAt f' := by
    unfold faceAt; show (k.faces.set f hes).getD f' [] = _
    rw [ScanDel.getD_set]
  rw [hat]
  have hh : ∀ a, (k.setFace f hes).halfedge a = k.halfedge a := fun a => rfl
  split
  · exact loop_congr (fun a _ => hh a) hc
  · exact loop_congr (fun a _ => hh a) (hq f' hl0)

/-- **one valid call keeps every live face a closed loop** — whole vocabulary, every deletion mode, every bottom-up
    configuration -/
theorem faceLoop_step (k : Kernel) (op : Op) (hi : GInv k) (hok : OpOK k op) (hc : LoopOK k op) (hq : FaceLoop k) :
    FaceLoop (k.step op).1 := by
  cases op with
  | addVertex => exact faceLoop_of_same (k := k) rfl rfl rfl hq
  | addNVertices n => exact faceLoop_of_same (k := k) rfl rfl rfl hq
  | addEdge a b d =>
    apply faceLoop_of_ext hi.wf (HexAll.ext_addEdge k a b d) hq
    intro f hge hl
    have := liveF_lt hl
    unfold Kernel.nF at *
    rw [Kernel.addEdge_faces k a b d] at this
    omega
  | addFaceHe chk hes => exact faceLoop_addFace hi.wf hok hc hq
  | addFaceV vs => exact faceLoop_addFaceV hi.wf hok hq
  | addCell chk hfs =>
    show FaceLoop (k.addCell hfs chk).1
    unfold addCell
    split
    · exact faceLoop_of_same (addCellCore_edges k hfs) (addCellCore_faces k hfs) (addCellCore_fDel k hfs) hq
    · exact hq
  | setEdge e a b => exact faceLoop_setEdge hc hq
  | setFace f hes => exact faceLoop_setFace hc hq
  | setCell c hfs => exact faceLoop_of_same (k := k) rfl rfl rfl hq
  | clear p =>
    intro f hl
    have := liveF_lt hl
    simp [Kernel.step, clear, Kernel.nF] at this
  | deleteVertex v => exact stable_step stable_faceLoop k _ trivial hi hok hq
  | deleteEdge v => exact stable_step stable_faceLoop k _ trivial hi hok hq
  | deleteFace v => exact stable_step stable_faceLoop k _ trivial hi hok hq
  | deleteCell v => exact stable_step stable_faceLoop k _ trivial hi hok hq
  | swapVertex a b => exact stable_step stable_faceLoop k _ trivial hi hok hq
  | swapEdge a b => exact stable_step stable_faceLoop k _ trivial hi hok hq
  | swapFace a b => exact stable_step stable_faceLoop k _ trivial hi hok hq
  | swapCell a b => exact stable_step stable_faceLoop k _ trivial hi hok hq
  | collectGarbage => exact stable_step stable_faceLoop k _ trivial hi hok hq
  | enableDeferred b => exact stable_step stable_faceLoop k _ trivial hi hok hq
  | enableFast b => exact stable_step stable_faceLoop k _ trivial hi hok hq
  | enableBU kind b => exact stable_step stable_faceLoop k _ trivial hi hok hq

/-- a history along which `LoopOK` holds at every call -/
def LoopHistory : Kernel → List Op → Prop
  | _, [] => True
  | k, op :: t => LoopOK k op ∧ LoopHistory (k.step op).1 t

theorem faceLoop_run (k : Kernel) (ops : List Op) (hi : GInv k) (hq : FaceLoop k) (hr : HistoryOK k ops)
    (hc : LoopHistory k ops) : FaceLoop (k.run ops) := by
  induction ops generalizing k with
  | nil => exact hq
  | cons op t ih =>
    simp only [Kernel.run, List.foldl_cons]
    exact ih _ (ginv_step k op hi hr.1) (faceLoop_step k op hi hr.1 hc.1 hq) hr.2 hc.2

theorem faceLoop_empty : FaceLoop ({} : Kernel) := by
  intro f hl; have := liveF_lt hl; simp [Kernel.nF] at this

/-- **every state reached from the empty mesh by valid calls that build faces through `add_face` with topology check
    or `add_face(vertices)` (or hand closed loops to the unchecked calls) and do not `set_edge` an edge of a live face
    has only closed loops as live faces** -/
theorem faceLoop_reachable (ops : List Op) (hr : HistoryOK {} ops) (hc : LoopHistory {} ops) : FaceLoop (run {} ops) :=
  faceLoop_run {} ops ginv_empty faceLoop_empty hr hc

/-! ### Boolean forms -/

def loopB (k : Kernel) (l : List Nat) : Bool := k.faceLoopOk l == some true

theorem loop_of_B {k : Kernel} {l : List Nat} (h : loopB k l = true) : Loop k l :=
  (faceLoopOk_iff_loop k l).mp (by simpa [loopB] using h)

def loopOKB (k : Kernel) : Op → Bool
  | .addFaceHe chk hes => chk || loopB k hes
  | .setFace _ hes => loopB k hes
  | .setEdge e _ _ => k.liveFaces.all (fun f => (k.faceAt f).all (fun x => eOf x != e))
  | _ => true

theorem loopOK_of_B (k : Kernel) (op : Op) (h : loopOKB k op = true) : LoopOK k op := by
  cases op <;> simp only [loopOKB, LoopOK] at h ⊢ <;> try trivial
  case addFaceHe chk hes =>
    simp only [Bool.or_eq_true] at h
    rcases h with h | h
    · exact Or.inl h
    · exact Or.inr (loop_of_B h)
  case setFace f hes => exact loop_of_B h
  case setEdge e a b =>
    intro f hl x hx
    rw [List.all_eq_true] at h
    have := h f ((mem_liveFaces k f).mpr hl)
    rw [List.all_eq_true] at this
    simpa using this x hx

def loopHistoryB : Kernel → List Op → Bool
  | _, [] => true
  | k, op :: t => loopOKB k op && loopHistoryB (k.step op).1 t

theorem loopHistory_of_B (k : Kernel) (ops : List Op) (h : loopHistoryB k ops = true) : LoopHistory k ops := by
  induction ops generalizing k with
  | nil => trivial
  | cons op t ih =>
    simp only [loopHistoryB, Bool.and_eq_true] at h
    exact ⟨loopOK_of_B k op h.1, ih _ h.2⟩

/-- executable form of `FaceLoop` (for examples) -/
def faceLoopB (k : Kernel) : Bool := k.liveFaces.all (fun f => loopB k (k.faceAt f))

theorem faceLoop_of_B {k : Kernel} (h : faceLoopB k = true) : FaceLoop k := by
  intro f hl
  unfold faceLoopB at h
  rw [List.all_eq_true] at h
  exact loop_of_B (h f ((mem_liveFaces k f).mpr hl))

end Global
end Kernel
end OVM

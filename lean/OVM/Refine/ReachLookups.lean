import OVM.Refine.FaceLoopStep
/-
  C10 on reachable states: the STATE hypotheses of the lookup theorems (OVM/Props/C10.lean, OVM/Refine/LookupLemmas.lean)
  derived from what holds after every history of valid calls.

    hypothesis of a lookup theorem          derived from
    ------------------------------------    -------------------------------------------------------------------------
    `CacheInv k`                            `GInv k` (`GInv.wf.cache`)
    `k.oneCell`, `CellExclusive k c`        `GInv k` (`GInv.one`), for every LIVE cell `c` (`cellExclusive_of_ginv`)
    halfface handles of a cell in range     `GInv k` (`cell_hf_live`)
    `HfCyclic k hf` (closed halfedge cycle) `FaceLoop k` (OVM/Refine/FaceLoopStep.lean: kept along `LoopOK` histories), for
                                            both halffaces of every live face, hence for the halffaces of every live cell
    halfedges of a live halfface valid/live `GInv k` (`hf_he_live`)
    `(k.hfHes hf).Nodup`                    NOT a state fact (a closed loop may run through a halfedge twice, e.g.
                                            `add_face(vertices 0 1 0 1)`); follows from distinct vertices
                                            (`nodup_hes_of_nodup_verts`) or from the closed-surface check of the cell
                                            (`nodup_hes_of_closedSurface`)
    `ClosedSurface k (cellAt c)`            `CellsClosed k`: kept along `SurfOK` histories (every live cell was accepted by a
                                            CHECKED `add_cell`, or the caller handed a closed surface; `set_face` not on a
                                            face of a live cell) — `stable_cellsClosed`, `cellsClosed_step/run/reachable`
    `uniqHe k a b`                          NOT derivable: parallel duplicate edges are reachable (`add_edge(a,b,true)`),
                                            finding F11; stays an argument-level hypothesis
  Proof-only file.
-/
namespace OVM
namespace Kernel
namespace Global
open ScanDel HexAll Lookup

/-! ### from `GInv` -/

theorem cacheInv_of_ginv {k : Kernel} (hi : GInv k) : CacheInv k := hi.wf.cache

theorem liveC_iff_lt {k : Kernel} {c : Nat} : k.liveC c = true ↔ c < k.nC ∧ k.cDeleted c = false := by
  unfold liveC; simp

/-- the halffaces of a live cell are in range and belong to live faces -/
theorem cell_hf_live {k : Kernel} (hi : GInv k) {c : Nat} (hl : k.liveC c = true) {x : Nat} (hx : x ∈ k.cellAt c) :
    x < k.nHF ∧ k.liveF (eOf x) = true := by
  have hr := hi.wf.range.cells _ (cellAt_mem_cells (liveC_lt hl)) x hx
  have hd := hi.closed.f c hl x hx
  refine ⟨hr, ?_⟩
  unfold liveF; rw [hd]
  have : eOf x < k.nF := by unfold nHF nF eOf at *; omega
  simp [this]

theorem hfHes_face' (k : Kernel) (x a : Nat) (ha : a ∈ k.hfHes x) : a ∈ k.faceAt (eOf x) ∨ opp a ∈ k.faceAt (eOf x) := by
  unfold hfHes at ha
  simp only at ha
  split at ha
  · exact Or.inl ha
  · exact Or.inr ((Fan.mem_oppFace _ _).mp ha)

/-- the halfedges of a halfface of a live face are in range and belong to live edges -/
theorem hf_he_live {k : Kernel} (hi : GInv k) {hf : Nat} (hl : k.liveF (eOf hf) = true) {h : Nat} (hm : h ∈ k.hfHes hf) :
    h < k.nHE ∧ k.liveE (eOf h) = true := by
  have key : ∀ y, y ∈ k.faceAt (eOf hf) → y < k.nHE ∧ k.liveE (eOf y) = true := fun y hy =>
    ⟨hi.wf.range.faces _ (faceAt_mem_faces (liveF_lt hl)) y hy, LoopSt.liveE_of_face hi.wf hi.closed hl hy⟩
  rcases hfHes_face' k hf h hm with h1 | h1
  · exact key h h1
  · obtain ⟨a, b⟩ := key _ h1
    rw [ScanDel.eOf_opp] at b
    refine ⟨?_, b⟩
    unfold liveE at b; simp at b
    unfold nHE nE eOf at *; omega

/-- C01's precondition seen from a live cell: no other not-deleted cell lists one of its halffaces -/
theorem cellExclusive_of_ginv {k : Kernel} (hi : GInv k) {c : Nat} (hl : k.liveC c = true) : CellExclusive k c :=
  cellExclusive_of_oneCell k c hi.one (liveC_iff_lt.mp hl).1 (liveC_iff_lt.mp hl).2 (fun _ hx => (cell_hf_live hi hl hx).1)

/-- on a `FaceLoop` state every halfface of a live cell is a closed halfedge cycle -/
theorem cellCyclic_of_ginv {k : Kernel} (hi : GInv k) (hq : FaceLoop k) {c : Nat} (hl : k.liveC c = true) :
    ∀ x ∈ k.cellAt c, HfCyclic k x := fun _ hx => hfCyclic_of_faceLoop hq (cell_hf_live hi hl hx).2

/-! ### duplicate-free halfedge lists -/

theorem nodup_of_map' {α β} (f : α → β) (l : List α) (h : (l.map f).Nodup) : l.Nodup := by
  induction l with
  | nil => exact List.nodup_nil
  | cons a t ih =>
    rw [List.map_cons, List.nodup_cons] at h
    rw [List.nodup_cons]
    exact ⟨fun hm => h.1 (List.mem_map_of_mem hm), ih h.2⟩

/-- a halfface whose vertices are pairwise distinct has no repeated halfedge -/
theorem nodup_hes_of_nodup_verts {k : Kernel} {hf : Nat} (h : (k.hfVerts hf).Nodup) : (k.hfHes hf).Nodup := by
  unfold hfVerts at h; exact nodup_of_map' _ _ h

/-- a vertex cycle that is a rotation of a duplicate-free list is duplicate-free -/
theorem nodup_verts_of_rotation {k : Kernel} {hf i : Nat} {vs : List Nat} (hr : (k.hfVerts hf).rotateLeft i = vs)
    (hn : vs.Nodup) : (k.hfVerts hf).Nodup :=
  ((rotateLeft_perm (k.hfVerts hf) i).nodup_iff).mp (hr ▸ hn)

theorem nodup_of_flatMap {α β} (l : List α) (f : α → List β) (h : (l.flatMap f).Nodup) : ∀ x ∈ l, (f x).Nodup := by
  intro x hx
  obtain ⟨s, t, rfl⟩ := List.append_of_mem hx
  rw [List.flatMap_append, List.flatMap_cons] at h
  exact (List.nodup_append.mp (List.nodup_append.mp h).2.1).1

/-- in a cell accepted by the closed-surface check no halfface repeats a halfedge -/
theorem nodup_hes_of_closedSurface {k : Kernel} {hfs : List Nat} (h : ClosedSurface k hfs) : ∀ hf ∈ hfs, (k.hfHes hf).Nodup :=
  nodup_of_flatMap hfs k.hfHes h.1

/-! ### `ClosedSurface` of the live cells along histories -/

/-- every live cell is a closed surface (what the topology check of `add_cell` accepts, `cellCheck_iff`) -/
def CellsClosed (k : Kernel) : Prop := ∀ c, k.liveC c = true → ClosedSurface k (k.cellAt c)

theorem flatMap_congr' {α β} {l : List α} {f g : α → List β} (h : ∀ x ∈ l, f x = g x) : l.flatMap f = l.flatMap g := by
  induction l with
  | nil => rfl
  | cons a t ih =>
    rw [List.flatMap_cons, List.flatMap_cons, h a (List.mem_cons_self ..), ih (fun x hx => h x (List.mem_cons_of_mem _ hx))]

/-- `ClosedSurface` is invariant under a consistent renaming of halffaces (`ρ`) and halfedges (`σ`, injective and
    commuting with `opposite` on the halfedges concerned) -/
theorem surf_transport {k k' : Kernel} {hfs : List Nat} (ρ σ : Nat → Nat) (S : Nat → Prop)
    (hh : ∀ x ∈ hfs, k'.hfHes (ρ x) = (k.hfHes x).map σ)
    (hS : ∀ x ∈ hfs, ∀ a ∈ k.hfHes x, S a ∧ S (opp a))
    (hopp : ∀ a, S a → σ (opp a) = opp (σ a))
    (hinj : ∀ a b, S a → S b → σ a = σ b → a = b)
    (h : ClosedSurface k hfs) : ClosedSurface k' (hfs.map ρ) := by
  have e : k'.cellHalfedges (hfs.map ρ) = (k.cellHalfedges hfs).map σ := by
    unfold cellHalfedges
    rw [List.flatMap_map, List.map_flatMap]
    exact flatMap_congr' hh
  have hSm : ∀ a ∈ k.cellHalfedges hfs, S a ∧ S (opp a) := by
    intro a ha
    obtain ⟨x, hx, hax⟩ := List.mem_flatMap.mp ha
    exact hS x hx a hax
  unfold ClosedSurface
  rw [e]
  constructor
  · have hn := h.1
    unfold List.Nodup at hn ⊢
    rw [List.pairwise_map]
    exact hn.imp_of_mem (fun {a b} ha hb hab e1 => hab (hinj a b (hSm a ha).1 (hSm b hb).1 e1))
  · intro h' hm
    obtain ⟨a, ha, rfl⟩ := List.mem_map.mp hm
    rw [← hopp a (hSm a ha).1]
    exact List.mem_map_of_mem (h.2 a ha)

theorem surf_congr {k k' : Kernel} {hfs : List Nat} (hh : ∀ x ∈ hfs, k'.hfHes x = k.hfHes x)
    (h : ClosedSurface k hfs) : ClosedSurface k' hfs := by
  have := surf_transport (k := k) (k' := k') (hfs := hfs) id id (fun _ => True) (fun x hx => by rw [List.map_id]; exact hh x hx)
    (fun _ _ _ _ => ⟨trivial, trivial⟩) (fun _ _ => rfl) (fun _ _ _ _ e => e) h
  rwa [List.map_id] at this

namespace SurfSt

theorem liveC_mono {k k' : Kernel} (hc : k'.cells = k.cells) (hd : ∀ x, k.cDeleted x = true → k'.cDeleted x = true)
    {c : Nat} (hl : k'.liveC c = true) : k.liveC c = true := by
  unfold liveC nC at *
  rw [hc] at hl
  simp only [Bool.and_eq_true, decide_eq_true_eq, Bool.not_eq_true'] at hl ⊢
  refine ⟨hl.1, ?_⟩
  cases hx : k.cDeleted c with
  | false => rfl
  | true => rw [hd c hx] at hl; exact absurd hl.2 (by simp)

/-- same faces, same cells up to more deletion flags -/
theorem mono {k k' : Kernel} (hf : k'.faces = k.faces) (hc : k'.cells = k.cells)
    (hd : ∀ x, k.cDeleted x = true → k'.cDeleted x = true) (hq : CellsClosed k) : CellsClosed k' := by
  intro c hl
  have e : k'.cellAt c = k.cellAt c := by unfold cellAt; rw [hc]
  rw [e]
  exact surf_congr (fun x _ => hfHes_congr k k' hf x) (hq c (liveC_mono hc hd hl))

end SurfSt

theorem stable_cellsClosed : HexAll.Stable CellsClosed where
  mono := fun _ _ hf hc _ _ _ hd hq => SurfSt.mono hf hc hd hq
  eraseC := by
    intro k k' h hw hh _ he hf hc _ _ _ hcd hq c hl
    have hl0 : k.liveC (up h c) = true := by
      unfold liveC nC cDeleted at *
      rw [hc, hcd, getD_eraseIdx, List.length_eraseIdx, if_pos hh] at hl
      simp only [Bool.and_eq_true, decide_eq_true_eq] at hl ⊢
      exact ⟨(up_lt h c _ hh).mpr hl.1, hl.2⟩
    have hca : k'.cellAt c = k.cellAt (up h c) := by unfold cellAt; rw [hc, getD_eraseIdx]
    rw [hca]
    exact surf_congr (fun x _ => hfHes_congr k k' hf x) (hq _ hl0)
  eraseF := by
    intro k k' h hw hh hun _ he hf hc _ _ _ hcd hq c hl
    have hl0 : k.liveC c = true := by rw [← liveC_of_cells (by rw [hc, List.length_map]) hcd]; exact hl
    have hca : k'.cellAt c = (k.cellAt c).map (corr2 (2 * h + 1)) := by unfold cellAt; rw [hc]; exact k4_getD_map_list _ _ _
    have hunc : ∀ x ∈ k.cellAt c, eOf x ≠ h := fun x hx => hun _ (cellAt_mem_cells (liveC_lt hl0)) x hx
    rw [hca]
    refine surf_transport _ id (fun _ => True) ?_ (fun _ _ _ _ => ⟨trivial, trivial⟩) (fun _ _ => rfl) (fun _ _ _ _ e => e)
      (hq c hl0)
    intro x hx
    have hne := hunc x hx
    rw [List.map_id]
    unfold hfHes faceAt
    rw [hf, getD_eraseIdx, eOf_corr2 h x hne, up_corr1 h _ hne, side_corr2]
  eraseE := by
    intro k k' h hw hh hun _ he hf hc _ _ _ hcd hq c hl
    have hl0 : k.liveC c = true := by rw [← liveC_of_cells (by rw [hc]) hcd]; exact hl
    have hca : k'.cellAt c = (k.cellAt c).map id := by unfold cellAt; rw [hc, List.map_id]
    rw [hca]
    refine surf_transport id (corr2 (2 * h + 1)) (fun a => eOf a ≠ h) ?_ ?_ (fun a _ => corr2_opp h a) ?_ (hq c hl0)
    · intro x _
      have hfa : k'.faceAt (eOf x) = (k.faceAt (eOf x)).map (corr2 (2 * h + 1)) := by
        unfold faceAt; rw [hf]; exact k4_getD_map_list _ _ _
      show k'.hfHes x = _
      unfold hfHes
      rw [hfa]
      split
      · rfl
      · exact oppFace_map _ (corr2_opp h) _
    · intro x _ a ha
      have := hfHes_unrefE hun x a ha
      exact ⟨this, by rw [eOf_opp]; exact this⟩
    · intro a b ha hb e
      have := congrArg (up2 h) e
      rwa [up2_corr2 h a ha, up2_corr2 h b hb] at this
  eraseV := by
    intro k k' h hw hh hun _ he hf hc _ _ _ hcd hq
    exact SurfSt.mono hf hc (fun x hx => by unfold cDeleted at *; rw [hcd]; exact hx) hq
  swapC := by
    intro k a b hw _ _ ha hb hq c hl
    by_cases hab : a = b
    · subst hab; rw [Global.swapCell_self] at hl ⊢; exact hq c hl
    · rw [swapCell_liveC hab ha hb hw.len.cDel] at hl
      rw [swapCell_cellAt hab ha hb]
      exact surf_congr (fun x _ => hfHes_congr k _ (swapCell_faces (k := k) (a := a) (b := b)) x) (hq _ hl)
  swapF := by
    intro k a b hw h1 _ ha hb hq c hl
    by_cases hab : a = b
    · subst hab; rw [Global.swapFace_self] at hl ⊢; exact hq c hl
    · have hl0 : k.liveC c = true := by
        rw [← liveC_of_cells (swapFace_cells_length k a b) (swapFace_cDel k a b)]; exact hl
      have hca := swapFace_cellAt_live hab ha hb hw.cache.f (fun _ => h1) (c := c) (fun _ => hl0)
      rw [hca]
      refine surf_transport _ id (fun _ => True) ?_ (fun _ _ _ _ => ⟨trivial, trivial⟩) (fun _ _ => rfl)
        (fun _ _ _ _ e => e) (hq c hl0)
      intro x _
      rw [swapFace_hfHes hab ha hb, k3_relabelHalf_invol, List.map_id]
  swapE := by
    intro k a b hw _ hcl ha hb hq c hl
    by_cases hab : a = b
    · subst hab; rw [Global.swapEdge_self] at hl ⊢; exact hq c hl
    · have hl0 : k.liveC c = true := by
        rw [← liveC_of_cells (by rw [swapEdge_cells]) (swapEdge_cDel k a b)]; exact hl
      have hca : (k.swapEdge a b).cellAt c = (k.cellAt c).map id := by unfold cellAt; rw [swapEdge_cells, List.map_id]
      rw [hca]
      refine surf_transport id (relabelHalf a b) (fun _ => True) ?_ (fun _ _ _ _ => ⟨trivial, trivial⟩)
        (fun x _ => k3_relabelHalf_opp a b x) ?_ (hq c hl0)
      · intro x hx
        show (k.swapEdge a b).hfHes x = _
        apply swapEdge_hfHes_live hab ha hb hw.cache.e
        intro _
        have hxl : x < k.nHF := hw.range.cells _ (cellAt_mem_cells (liveC_lt hl0)) x hx
        have := hcl.f c hl0 x hx
        unfold liveF; rw [this]
        simp; unfold eOf nHF nF at *; omega
      · intro x y _ _ e
        have := congrArg (relabelHalf a b) e
        rwa [k3_relabelHalf_invol, k3_relabelHalf_invol] at this
  swapV := by
    intro k a b hw _ hcl ha hb hq
    exact SurfSt.mono (swapVertex_faces k a b) (swapVertex_cells k a b)
      (fun x hx => by unfold cDeleted at *; rw [swapVertex_cDel]; exact hx) hq

/-- edges and faces appended (`HexAll.Ext`): cells and the faces they use are untouched -/
theorem cellsClosed_of_ext {k k' : Kernel} (hw : WF k) (x : HexAll.Ext k k') (hq : CellsClosed k) : CellsClosed k' := by
  intro c hl
  have hl0 : k.liveC c = true := by rw [← liveC_of_cells (by rw [x.grow.cells]) x.grow.cDel]; exact hl
  have e : k'.cellAt c = k.cellAt c := by unfold cellAt; rw [x.grow.cells]
  rw [e]
  exact surf_congr (fun y hy => x.hfHes (hw.range.cells _ (cellAt_mem_cells (liveC_lt hl0)) y hy)) (hq c hl0)

/-- what the caller has to respect, beyond `OpOK`, for the live cells to stay closed surfaces: an UNCHECKED `add_cell`
    and `set_cell` are given a closed surface, `set_face` is not applied to a face of a live cell.  (`add_cell` with
    topology check needs nothing.)  Decidable (`ClosedSurface` is). -/
def SurfOK (k : Kernel) : Op → Prop
  | .addCell chk hfs => chk = true ∨ ClosedSurface k hfs
  | .setCell _ hfs => ClosedSurface k hfs
  | .setFace f _ => ∀ c, k.liveC c = true → ∀ x ∈ k.cellAt c, eOf x ≠ f
  | _ => True

theorem cellsClosed_addCell {k : Kernel} (hw : WF k) {hfs : List Nat} {chk : Bool} (hc : chk = true ∨ ClosedSurface k hfs)
    (hq : CellsClosed k) : CellsClosed (k.addCell hfs chk).1 := by
  unfold addCell
  split
  · rename_i hacc
    have hcl : ClosedSurface k hfs := by
      rcases hc with rfl | hc
      · unfold addCellAccepts at hacc
        simp only [Bool.not_true, Bool.false_or, Bool.and_eq_true] at hacc
        exact (cellCheck_iff k hfs).mp hacc.2
      · exact hc
    have hfa : (k.addCellCore hfs).faces = k.faces := addCellCore_faces k hfs
    intro c hl
    have hcs : (k.addCellCore hfs).cells = k.cells ++ [hfs] := addCellCore_cells k hfs
    have hcd : (k.addCellCore hfs).cDel = k.cDel ++ [false] := addCellCore_cDel k hfs
    have hlt := liveC_lt hl
    unfold nC at hlt; rw [hcs] at hlt; simp at hlt
    by_cases hc0 : c < k.nC
    · have e : (k.addCellCore hfs).cellAt c = k.cellAt c := by
        unfold cellAt; rw [hcs]; exact getD_append_lt _ _ _ _ hc0
      have hl0 : k.liveC c = true := by
        unfold liveC cDeleted at hl ⊢
        rw [hcd] at hl
        simp only [Bool.and_eq_true, decide_eq_true_eq] at hl ⊢
        refine ⟨hc0, ?_⟩
        have := hl.2
        rwa [getD_append_lt _ _ _ _ (by rw [hw.len.cDel]; exact hc0)] at this
      rw [e]
      exact surf_congr (fun x _ => hfHes_congr k _ hfa x) (hq c hl0)
    · have hc1 : c = k.nC := by unfold nC at *; omega
      have e : (k.addCellCore hfs).cellAt c = hfs := by
        unfold cellAt; rw [hcs, hc1]; unfold nC
        simp [List.getD_eq_getElem?_getD]
      rw [e]
      exact surf_congr (fun x _ => hfHes_congr k _ hfa x) hcl
  · exact hq

theorem cellsClosed_setCell {k : Kernel} {c : Nat} {hfs : List Nat} (hc : ClosedSurface k hfs) (hq : CellsClosed k) :
    CellsClosed (k.setCell c hfs) := by
  intro c' hl
  have hl0 : k.liveC c' = true := by
    unfold liveC nC cDeleted at hl ⊢
    simpa [setCell] using hl
  have hat : (k.setCell c hfs).cellAt c' = if c = c' ∧ c < k.cells.length then hfs else k.cellAt c' := by
    unfold cellAt; show (k.cells.set c hfs).getD c' [] = _
    rw [ScanDel.getD_set]
  rw [hat]
  have hh : ∀ x, (k.setCell c hfs).hfHes x = k.hfHes x := fun x => rfl
  split
  · exact surf_congr (fun x _ => hh x) hc
  · exact surf_congr (fun x _ => hh x) (hq c' hl0)

theorem cellsClosed_setFace {k : Kernel} {f : Nat} {hes : List Nat}
    (hun : ∀ c, k.liveC c = true → ∀ x ∈ k.cellAt c, eOf x ≠ f) (hq : CellsClosed k) : CellsClosed (k.setFace f hes) := by
  intro c hl
  have hl0 : k.liveC c = true := hl
  show ClosedSurface (k.setFace f hes) (k.cellAt c)
  refine surf_congr (fun x hx => ?_) (hq c hl0)
  have hne := hun c hl0 x hx
  have : ¬ (f = eOf x ∧ f < k.faces.length) := fun h => hne h.1.symm
  have hfa : (k.setFace f hes).faceAt (eOf x) = k.faceAt (eOf x) := by
    unfold faceAt; show (k.faces.set f hes).getD (eOf x) [] = _
    rw [ScanDel.getD_set]; simp only [this, if_false]
  unfold hfHes; rw [hfa]

theorem cellsClosed_of_same {k k' : Kernel} (hf : k'.faces = k.faces) (hc : k'.cells = k.cells) (hcd : k'.cDel = k.cDel)
    (hq : CellsClosed k) : CellsClosed k' :=
  SurfSt.mono hf hc (fun x hx => by unfold cDeleted at *; rw [hcd]; exact hx) hq

/-- **one valid call keeps every live cell a closed surface** — whole vocabulary, every deletion mode, every bottom-up
    configuration -/
theorem cellsClosed_step (k : Kernel) (op : Op) (hi : GInv k) (hok : OpOK k op) (hc : SurfOK k op) (hq : CellsClosed k) :
    CellsClosed (k.step op).1 := by
  cases op with
  | addVertex => exact cellsClosed_of_same (k := k) rfl rfl rfl hq
  | addNVertices n => exact cellsClosed_of_same (k := k) rfl rfl rfl hq
  | addEdge a b d => exact cellsClosed_of_ext hi.wf (HexAll.ext_addEdge k a b d) hq
  | addFaceHe chk hes =>
    show CellsClosed (k.addFace hes chk).1
    unfold addFace
    split
    · have e0 : (k.addFace hes false).1 = k.addFaceCore hes := by unfold addFace addFaceAccepts; simp
      exact cellsClosed_of_ext hi.wf (e0 ▸ HexAll.ext_addFace (k := k) hes) hq
    · exact hq
  | addFaceV vs =>
    show CellsClosed (k.addFaceV vs).1
    cases vs with
    | nil => exact cellsClosed_of_same (k := k) rfl rfl rfl hq
    | cons v0 t =>
      obtain ⟨_, x, _⟩ := HexAll.addFaceV_spec hi.wf v0 t (fun v hm => (hok v hm).1) [] (fun _ _ _ _ ha => by cases ha)
      exact cellsClosed_of_ext hi.wf x hq
  | addCell chk hfs => exact cellsClosed_addCell hi.wf hc hq
  | setEdge e a b => exact cellsClosed_of_same (k := k) rfl rfl rfl hq
  | setFace f hes => exact cellsClosed_setFace hc hq
  | setCell c hfs => exact cellsClosed_setCell hc hq
  | clear p =>
    intro c hl
    have := liveC_lt hl
    simp [Kernel.step, clear, Kernel.nC] at this
  | deleteVertex v => exact stable_step stable_cellsClosed k _ trivial hi hok hq
  | deleteEdge v => exact stable_step stable_cellsClosed k _ trivial hi hok hq
  | deleteFace v => exact stable_step stable_cellsClosed k _ trivial hi hok hq
  | deleteCell v => exact stable_step stable_cellsClosed k _ trivial hi hok hq
  | swapVertex a b => exact stable_step stable_cellsClosed k _ trivial hi hok hq
  | swapEdge a b => exact stable_step stable_cellsClosed k _ trivial hi hok hq
  | swapFace a b => exact stable_step stable_cellsClosed k _ trivial hi hok hq
  | swapCell a b => exact stable_step stable_cellsClosed k _ trivial hi hok hq
  | collectGarbage => exact stable_step stable_cellsClosed k _ trivial hi hok hq
  | enableDeferred b => exact stable_step stable_cellsClosed k _ trivial hi hok hq
  | enableFast b => exact stable_step stable_cellsClosed k _ trivial hi hok hq
  | enableBU kind b => exact stable_step stable_cellsClosed k _ trivial hi hok hq

/-- a history along which `SurfOK` holds at every call -/
def SurfHistory : Kernel → List Op → Prop
  | _, [] => True
  | k, op :: t => SurfOK k op ∧ SurfHistory (k.step op).1 t

theorem cellsClosed_run (k : Kernel) (ops : List Op) (hi : GInv k) (hq : CellsClosed k) (hr : HistoryOK k ops)
    (hc : SurfHistory k ops) : CellsClosed (k.run ops) := by
  induction ops generalizing k with
  | nil => exact hq
  | cons op t ih =>
    simp only [Kernel.run, List.foldl_cons]
    exact ih _ (ginv_step k op hi hr.1) (cellsClosed_step k op hi hr.1 hc.1 hq) hr.2 hc.2

theorem cellsClosed_empty : CellsClosed ({} : Kernel) := by
  intro c hl; have := liveC_lt hl; simp [Kernel.nC] at this

/-- **every state reached from the empty mesh by valid calls that build cells through `add_cell` with topology check (or
    hand closed surfaces to the unchecked `add_cell` / `set_cell`) and do not `set_face` a face of a live cell has only
    closed surfaces as live cells** -/
theorem cellsClosed_reachable (ops : List Op) (hr : HistoryOK {} ops) (hc : SurfHistory {} ops) :
    CellsClosed (run {} ops) := cellsClosed_run {} ops ginv_empty cellsClosed_empty hr hc

/-! Boolean forms -/

def surfOKB (k : Kernel) : Op → Bool
  | .addCell chk hfs => chk || decide (ClosedSurface k hfs)
  | .setCell _ hfs => decide (ClosedSurface k hfs)
  | .setFace f _ => k.liveCells.all (fun c => (k.cellAt c).all (fun x => eOf x != f))
  | _ => true

theorem surfOK_of_B (k : Kernel) (op : Op) (h : surfOKB k op = true) : SurfOK k op := by
  cases op <;> simp only [surfOKB, SurfOK] at h ⊢ <;> try trivial
  case addCell chk hfs =>
    simp only [Bool.or_eq_true, decide_eq_true_eq] at h
    exact h
  case setCell c hfs => simpa using h
  case setFace f hes =>
    intro c hl x hx
    rw [List.all_eq_true] at h
    have := h c ((mem_liveCells k c).mpr hl)
    rw [List.all_eq_true] at this
    simpa using this x hx

def surfHistoryB : Kernel → List Op → Bool
  | _, [] => true
  | k, op :: t => surfOKB k op && surfHistoryB (k.step op).1 t

theorem surfHistory_of_B (k : Kernel) (ops : List Op) (h : surfHistoryB k ops = true) : SurfHistory k ops := by
  induction ops generalizing k with
  | nil => trivial
  | cons op t ih =>
    simp only [surfHistoryB, Bool.and_eq_true] at h
    exact ⟨surfOK_of_B k op h.1, ih _ h.2⟩

end Global
end Kernel
end OVM

import OVM.Refine.CacheCompute
/-
  `reorder_incident_halffaces` (TopologyKernel.cc:271-375) and the cache invariant.  The list the
  walk produces is stored only if it is a rearrangement of the list it replaces (`reorderList_perm`,
  OVM/Kernel/Add.lean; C++ since bf387da — before that fix the walk could store a list with a
  duplicate, /verif/findings/C01-reorder-drops-halfface.md).  Shown here: then both slots `2e`,
  `2e+1` keep their multisets (the mirrored slot via `sHfsOfHe (opp h) ~ (sHfsOfHe h).map opp`),
  hence `CacheInvE` is preserved; everything else is untouched.
-/
namespace OVM
namespace Kernel

/-- the halffaces around the opposite halfedge are the opposite halffaces -/
theorem sHfsOfHe_opp (k : Kernel) (h : Nat) : (k.sHfsOfHe (opp h)).Perm ((k.sHfsOfHe h).map opp) := by
  rw [sHfsOfHe_flat, sHfsOfHe_flat, List.map_flatMap]
  apply perm_flatMap_congr
  intro f _
  simp only [hfC, opp_opp, List.map_append, List.map_replicate, opp_even, opp_odd]
  exact List.perm_append_comm

/-- `reorder_incident_halffaces` only acts on an edge with at least two incident halffaces -/
theorem reorderList_some_length (k : Kernel) (e : Nat) (l : List Nat) (h : k.reorderList e = some l) :
    2 ≤ (k.hfsOf (heOf e 0)).length := by
  unfold reorderList at h
  simp only [] at h
  split at h
  · cases h
  · omega

theorem overwritePrefix_full (dst src : List Nat) (h : dst.length = src.length) :
    overwritePrefix dst (src.take dst.length) = src := by
  unfold overwritePrefix
  rw [h, List.take_length, List.drop_of_length_le (by omega)]; simp

theorem slotsE_reorderWrite (k : Kernel) (e : Nat) (l : List Nat) (hs : SlotsE k) (he : e < k.nE)
    (hp : l.Perm (k.hfsOf (heOf e 0))) : SlotsE (k.reorderWrite e l) := by
  obtain ⟨h1, h2⟩ := hs
  have hlen : (k.reorderWrite e l).incHfs.length = k.incHfs.length := by simp [reorderWrite]
  have hN : (k.reorderWrite e l).nHE = k.nHE := rfl
  refine ⟨by rw [hlen, hN]; exact h1, fun h hh => ?_⟩
  rw [hN] at hh
  rw [sHfsOfHe_congr k (k.reorderWrite e l) rfl rfl h]
  have h0 : 2 * e < k.incHfs.length := by rw [h1]; unfold nHE; unfold nE at he; omega
  have h1' : 2 * e + 1 < k.incHfs.length := by rw [h1]; unfold nHE; unfold nE at he; omega
  have hh' : h < k.incHfs.length := by rw [h1]; exact hh
  -- the mirrored slot held as many entries as the primary one
  have hold1 : (k.incHfs.getD (2 * e + 1) []).Perm (l.map opp) := by
    have a := h2 (2 * e + 1) (by rw [← h1]; exact h1')
    have b := sHfsOfHe_opp k (2 * e)
    rw [opp_even] at b
    have c := (h2 (2 * e) (by rw [← h1]; exact h0))
    unfold hfsOf at a c
    rw [heOf_zero_eq] at hp
    unfold hfsOf at hp
    exact a.trans (b.trans ((c.symm.trans hp.symm).map opp))
  have hsl : ((k.incHfs.set (2 * e) l).getD (2 * e + 1) []) = k.incHfs.getD (2 * e + 1) [] := by
    rw [getD_set _ _ _ _ _ h1', if_neg (by omega)]
  unfold hfsOf reorderWrite
  simp only [heOf_zero_eq, heOf_one_eq]
  rw [hsl, getD_set _ _ _ _ _ (by simpa using hh'), getD_set _ _ _ _ _ hh']
  by_cases c1 : 2 * e + 1 = h
  · rw [if_pos c1]
    have hl : (k.incHfs.getD (2 * e + 1) []).length = (l.reverse.map opp).length := by
      rw [hold1.length_eq]; simp
    rw [overwritePrefix_full _ _ hl]
    subst c1
    have a := h2 (2 * e + 1) hh
    unfold hfsOf at a
    exact ((l.reverse_perm.map opp).trans hold1.symm).trans a
  · rw [if_neg c1]
    by_cases c0 : 2 * e = h
    · rw [if_pos c0]; subst c0
      rw [heOf_zero_eq] at hp
      exact hp.trans (h2 _ hh)
    · rw [if_neg c0]; exact h2 h hh

theorem slotsE_reorder (k : Kernel) (e : Nat) (hs : SlotsE k) : SlotsE (k.reorder e) := by
  unfold reorder
  split
  · exact hs
  · rename_i l hl
    have h2 := reorderList_some_length k e l hl
    have he : e < k.nE := by
      apply Classical.byContradiction
      intro hne
      have : k.hfsOf (heOf e 0) = [] := by
        unfold hfsOf
        rw [List.getD_eq_getElem?_getD, List.getElem?_eq_none (by rw [hs.1, heOf_zero_eq]; unfold nHE; unfold nE at hne; omega)]
        rfl
      rw [this] at h2; simp at h2
    exact slotsE_reorderWrite k e l hs he (reorderList_perm k e l hl)


theorem slotsE_foldl_reorder (es : List Nat) (k : Kernel) (hs : SlotsE k) : SlotsE (es.foldl reorder k) := by
  induction es generalizing k with
  | nil => exact hs
  | cons e t ih => simp only [List.foldl_cons]; exact ih _ (slotsE_reorder k e hs)

theorem cacheInvE_reorder_step (k : Kernel) (e : Nat) (h : CacheInvE k) : CacheInvE (k.reorder e) := by
  intro hb; rw [reorder_eBU] at hb; exact slotsE_reorder k e (h hb)

theorem cacheInvE_reorder_loop (es : List Nat) (k : Kernel) (h : CacheInvE k) : CacheInvE (es.foldl reorder k) := by
  intro hb; rw [foldl_reorder_eBU] at hb; exact slotsE_foldl_reorder es k (h hb)

theorem rangeInv_foldl_reorder (es : List Nat) (k : Kernel) (h : RangeInv k) : RangeInv (es.foldl reorder k) :=
  rangeInv_congr k _ (by simp) (by simp) (by simp) (by simp) h

theorem cacheInv_foldl_reorder (es : List Nat) (k : Kernel) (h : CacheInv k) : CacheInv (es.foldl reorder k) :=
  { v := cacheInvV_congr k _ (by simp) (by simp) (by simp) (by simp) (by simp) h.v
    e := cacheInvE_reorder_loop es k h.e
    f := cacheInvF_congr k _ (by simp) (by simp) (by simp) (by simp) (by simp) h.f }

/-- a loop of `reorder` calls preserves the whole invariant -/
theorem wf_foldl_reorder (es : List Nat) (k : Kernel) (h : WF k) : WF (es.foldl reorder k) :=
  { len := lenInv_of_shape k _ h.len (by simp) (by simp) (by simp) (by simp) (by simp) (by simp) (by simp)
      (by simp) (by simp) (by simp) (by simp) (by simp) (by simp) (by simp) (by simp)
    range := rangeInv_foldl_reorder es k h.range
    cache := cacheInv_foldl_reorder es k h.cache }

end Kernel
end OVM

import OVM.Refine.Range
import OVM.Refine.DeleteFrames
import OVM.Base.Bits
/-
  Helpers for the deletion / swap side of the `CacheInv` preservation proofs
  (OVM/Refine/CacheDelete.lean, OVM/Refine/CacheSwap.lean).
  * generic list facts (sub-namespace `ScanDel`, so that they cannot clash with the construction side);
  * how the brute-force scans of `Spec/Incidence` depend on the record fields (congruence lemmas);
  * `reorder_incident_halffaces` only permutes the two slots of its edge (`reorder_slots_perm`), and
    keeps the slot pairs mirrored (`SlotMirror`); this rests on `reorderList_perm`, i.e. on the
    `is_permutation` guard added by bf387da (before it the C++ could write a non-permutation:
    /verif/findings/C01-reorder-drops-halfface.md; the proof that the unguarded walk is a
    permutation for edge-manifold cells is archived outside the tree).
-/
namespace OVM
namespace Kernel
namespace ScanDel

/-! ### handle arithmetic -/
theorem opp_opp (h : Nat) : opp (opp h) = h := xor_one_xor_one h
theorem opp_inj {a b : Nat} (h : opp a = opp b) : a = b := by
  have := congrArg opp h; rwa [opp_opp, opp_opp] at this
theorem eOf_opp (h : Nat) : eOf (opp h) = eOf h := xor_one_div h
theorem side_opp (h : Nat) : side (opp h) = 1 - side h := xor_one_mod h
theorem opp_ne (h : Nat) : opp h ≠ h := xor_one_ne h

/-! ### `getD` through `set` / `modify` -/
theorem getD_set {α} (l : List α) (i j : Nat) (v d : α) :
    (l.set i v).getD j d = if i = j ∧ i < l.length then v else l.getD j d := by
  simp only [List.getD_eq_getElem?_getD, List.getElem?_set]
  by_cases h : i = j
  · subst h
    by_cases h2 : i < l.length
    · simp [h2]
    · simp [h2, List.getElem?_eq_none (Nat.le_of_not_lt h2)]
  · simp [h]

theorem getD_modify {α} (l : List α) (i j : Nat) (f : α → α) (d : α) :
    (l.modify i f).getD j d = if i = j ∧ i < l.length then f (l.getD j d) else l.getD j d := by
  simp only [List.getD_eq_getElem?_getD, List.getElem?_modify]
  by_cases h : i = j
  · subst h
    by_cases h2 : i < l.length
    · simp [h2]
    · simp [h2, List.getElem?_eq_none (Nat.le_of_not_lt h2)]
  · simp [h]

theorem getD_of_ge {α} (l : List α) (i : Nat) (d : α) (h : l.length ≤ i) : l.getD i d = d := by
  simp [List.getD_eq_getElem?_getD, List.getElem?_eq_none h]

/-- a duplicate-free list inside a list of the same length is a permutation of it -/
theorem perm_of_nodup_subset_length {l m : List Nat} (hn : l.Nodup) (hs : ∀ x ∈ l, x ∈ m)
    (hl : m.length ≤ l.length) : l.Perm m := by
  induction l generalizing m with
  | nil =>
    have : m = [] := List.eq_nil_of_length_eq_zero (by simpa using hl)
    subst this; exact List.Perm.refl _
  | cons a t ih =>
    have ha : a ∈ m := hs a (by simp)
    have hnd := List.nodup_cons.mp hn
    have hp : m.Perm (a :: m.erase a) := List.perm_cons_erase ha
    have hlen : (m.erase a).length = m.length - 1 := List.length_erase_of_mem ha
    have hpos : 0 < m.length := List.length_pos_of_mem ha
    have ht : t.Perm (m.erase a) := by
      apply ih hnd.2
      · intro x hx
        have hxm := hs x (by simp [hx])
        have hxa : x ≠ a := by intro h; subst h; exact hnd.1 hx
        exact (List.mem_erase_of_ne hxa).mpr hxm
      · simp only [List.length_cons] at hl; omega
    exact (List.Perm.cons a ht).trans hp.symm

end ScanDel
open ScanDel

theorem reorderWrite_slots' (k : Kernel) (e : Nat) (l : List Nat)
    (h1 : heOf e 1 < k.incHfs.length) (hl : (k.hfsOf (heOf e 1)).length = l.length) (y : Nat) :
    (k.reorderWrite e l).hfsOf y =
      if y = heOf e 0 then l else if y = heOf e 1 then l.reverse.map opp else k.hfsOf y := by
  have h0 : heOf e 0 < k.incHfs.length := by unfold heOf at *; omega
  have hne : heOf e 0 ≠ heOf e 1 := by unfold heOf; omega
  have hget : (k.incHfs.set (heOf e 0) l).getD (heOf e 1) [] = k.hfsOf (heOf e 1) := by
    unfold hfsOf; rw [getD_set]; simp [hne]
  unfold reorderWrite
  simp only [hget, hl]
  have hmir : (List.map opp l.reverse).length = l.length := by simp
  have hov : overwritePrefix (k.hfsOf (heOf e 1)) (List.take l.length (List.map opp l.reverse)) = List.map opp l.reverse := by
    unfold overwritePrefix
    rw [List.take_of_length_le (by simp), hmir]
    have : (k.hfsOf (heOf e 1)).drop l.length = [] := List.drop_eq_nil_of_le (by omega)
    rw [this]; simp
  rw [hov]
  unfold hfsOf
  simp only [getD_set, List.length_set]
  by_cases a0 : y = heOf e 0
  · subst a0; simp [Ne.symm hne, h0]
  · by_cases a1 : y = heOf e 1
    · subst a1; simp [h1, Ne.symm hne, List.map_reverse]
    · simp [a0, a1, Ne.symm a0, Ne.symm a1]

/-- `reorder` only permutes slots (the list it writes is a permutation of the list it read:
    `reorderList_perm`, bf387da), provided the two slots of the edge mirror each other -/
theorem reorder_slots_perm (k : Kernel) (e : Nat)
    (hmir : (k.hfsOf (heOf e 1)).Perm ((k.hfsOf (heOf e 0)).map opp)) (y : Nat) :
    ((k.reorder e).hfsOf y).Perm (k.hfsOf y) := by
  have hperm := reorderList_perm k e
  unfold reorder
  cases hr : k.reorderList e with
  | none => exact List.Perm.refl _
  | some l =>
    simp only
    have hp := hperm l hr
    have hl1 : (k.hfsOf (heOf e 1)).length = l.length := by
      rw [hmir.length_eq, List.length_map, hp.length_eq]
    have hn : 2 ≤ (k.hfsOf (heOf e 0)).length := by
      unfold reorderList at hr
      simp only at hr
      split at hr
      · cases hr
      · omega
    have h1 : heOf e 1 < k.incHfs.length := by
      rcases Nat.lt_or_ge (heOf e 1) k.incHfs.length with h | h
      · exact h
      · have : k.hfsOf (heOf e 1) = [] := getD_of_ge _ _ _ h
        rw [this, hp.length_eq] at hl1; simp at hl1; omega
    rw [reorderWrite_slots' k e l h1 hl1 y]
    split
    · rename_i h; subst h; exact hp
    · split
      · rename_i h; subst h
        exact ((List.reverse_perm l).map opp).trans ((hp.map opp).trans hmir.symm)
      · exact List.Perm.refl _


/-! ### normal forms of the scans -/
namespace ScanDel
/-- the half-entities of the selected parents, parent by parent -/
theorem range_two_mul_filter (n : Nat) (q : Nat → Bool) :
    (List.range (2 * n)).filter (fun h => q (h / 2)) = ((List.range n).filter q).flatMap (fun f => [2 * f, 2 * f + 1]) := by
  induction n with
  | zero => simp
  | succ m ih =>
    have : 2 * (m + 1) = (2 * m + 1) + 1 := by omega
    rw [this, List.range_succ, List.range_succ, List.range_succ]
    simp only [List.filter_append, List.flatMap_append, ih]
    have e1 : (2 * m) / 2 = m := by omega
    have e2 : (2 * m + 1) / 2 = m := by omega
    cases hq : q m <;> simp [List.filter_cons, e1, e2, hq]

/-- filtering a block-wise `flatMap` by a predicate on the block key selects whole blocks -/
theorem filter_flatMap_key {α} (l : List Nat) (f : Nat → List α) (key : α → Nat) (P : Nat → Bool)
    (hk : ∀ a, ∀ y ∈ f a, key y = a) :
    (l.flatMap f).filter (fun y => P (key y)) = (l.filter P).flatMap f := by
  induction l with
  | nil => rfl
  | cons a t ih =>
    simp only [List.flatMap_cons, List.filter_append, ih, List.filter_cons]
    have : (f a).filter (fun y => P (key y)) = if P a then f a else [] := by
      split
      · rename_i hp; apply List.filter_eq_self.mpr; intro y hy; rw [hk a y hy]; exact hp
      · rename_i hp; apply List.filter_eq_nil_iff.mpr; intro y hy; rw [hk a y hy]; exact hp
    rw [this]
    split <;> simp
end ScanDel

theorem liveHfs_eq (k : Kernel) : k.liveHfs = k.liveFaces.flatMap (fun f => [2 * f, 2 * f + 1]) := by
  unfold liveHfs liveFaces nHF eOf
  show List.filter (fun h => k.liveF (h / 2)) (List.range (2 * k.nF)) = _
  rw [range_two_mul_filter k.nF k.liveF]
  congr 1
  apply List.filter_congr
  intro f hf
  simp [liveF, List.mem_range.mp hf]

theorem liveHes_eq (k : Kernel) : k.liveHes = k.liveEdges.flatMap (fun e => [2 * e, 2 * e + 1]) := by
  unfold liveHes liveEdges nHE eOf
  show List.filter (fun h => k.liveE (h / 2)) (List.range (2 * k.nE)) = _
  rw [range_two_mul_filter k.nE k.liveE]
  congr 1
  apply List.filter_congr
  intro f hf
  simp [liveE, List.mem_range.mp hf]

/-- contribution of one face to the halffaces around halfedge `h` -/
def hfBlock (k : Kernel) (h f : Nat) : List Nat :=
  List.replicate ((k.hfHes (2 * f)).count h) (2 * f) ++ List.replicate ((k.hfHes (2 * f + 1)).count h) (2 * f + 1)

theorem sHfsOfHe_eq (k : Kernel) (h : Nat) : k.sHfsOfHe h = k.liveFaces.flatMap (k.hfBlock h) := by
  unfold sHfsOfHe
  rw [liveHfs_eq, List.flatMap_assoc]
  congr 1
  funext f
  simp [hfBlock]

/-- contribution of one edge to the outgoing halfedges of `v` -/
def outBlock (k : Kernel) (v e : Nat) : List Nat := [2 * e, 2 * e + 1].filter (fun h => k.fromV h == v)

theorem sOut_eq (k : Kernel) (v : Nat) : k.sOut v = k.liveEdges.flatMap (k.outBlock v) := by
  unfold sOut
  rw [liveHes_eq, List.filter_flatMap]
  rfl

theorem mem_liveFaces (k : Kernel) (f : Nat) : f ∈ k.liveFaces ↔ k.liveF f = true := by
  unfold liveFaces liveF; simp
theorem mem_liveEdges (k : Kernel) (e : Nat) : e ∈ k.liveEdges ↔ k.liveE e = true := by
  unfold liveEdges liveE; simp
theorem mem_liveCells (k : Kernel) (c : Nat) : c ∈ k.liveCells ↔ k.liveC c = true := by
  unfold liveCells liveC; simp

theorem mem_sHfsOfHe (k : Kernel) (h x : Nat) :
    x ∈ k.sHfsOfHe h ↔ k.liveF (eOf x) = true ∧ h ∈ k.hfHes x := by
  rw [sHfsOfHe_eq]
  simp only [List.mem_flatMap, mem_liveFaces, hfBlock, List.mem_append, List.mem_replicate]
  constructor
  · rintro ⟨f, hf, h1 | h1⟩
    · obtain ⟨hc, rfl⟩ := h1
      have : eOf (2 * f) = f := by unfold eOf; omega
      exact ⟨by rw [this]; exact hf, List.count_pos_iff.mp (Nat.pos_of_ne_zero hc)⟩
    · obtain ⟨hc, rfl⟩ := h1
      have : eOf (2 * f + 1) = f := by unfold eOf; omega
      exact ⟨by rw [this]; exact hf, List.count_pos_iff.mp (Nat.pos_of_ne_zero hc)⟩
  · rintro ⟨hl, hm⟩
    refine ⟨eOf x, hl, ?_⟩
    have hx : x = 2 * eOf x ∨ x = 2 * eOf x + 1 := by unfold eOf; omega
    rcases hx with hx | hx
    · left; rw [← hx]; exact ⟨Nat.ne_of_gt (List.count_pos_iff.mpr hm), rfl⟩
    · right; rw [← hx]; exact ⟨Nat.ne_of_gt (List.count_pos_iff.mpr hm), rfl⟩


namespace ScanDel
theorem perm_flatMap_pointwise {α β} (l : List α) (f g : α → List β) (h : ∀ a ∈ l, (f a).Perm (g a)) :
    (l.flatMap f).Perm (l.flatMap g) := by
  induction l with
  | nil => exact List.Perm.refl _
  | cons a t ih =>
    simp only [List.flatMap_cons]
    exact (h a (by simp)).append (ih (fun b hb => h b (by simp [hb])))

theorem count_map_opp (h : Nat) (l : List Nat) : (l.map opp).count h = l.count (opp h) := by
  induction l with
  | nil => rfl
  | cons a t ih =>
    simp only [List.map_cons, List.count_cons, ih]
    congr 1
    by_cases e : a = opp h
    · subst e; simp [opp_opp]
    · have : opp a ≠ h := fun e2 => e (by rw [← e2, opp_opp])
      simp [e, this]

theorem count_oppFace (h : Nat) (l : List Nat) : (oppFace l).count h = l.count (opp h) := by
  unfold oppFace; rw [count_map_opp, List.count_reverse]

theorem le_sum_map {l : List Nat} {g : Nat → Nat} {x : Nat} (hx : x ∈ l) : g x ≤ (l.map g).sum := by
  induction l with
  | nil => cases hx
  | cons b u ih =>
    simp only [List.map_cons, List.sum_cons]
    rcases List.mem_cons.mp hx with rfl | hx
    · omega
    · have := ih hx; omega

theorem two_mul_sum_le {l : List Nat} {g : Nat → Nat} (hn : l.Nodup) {c c' : Nat} (hc : c ∈ l) (hc' : c' ∈ l)
    (hne : c ≠ c') : g c + g c' ≤ (l.map g).sum := by
  induction l with
  | nil => cases hc
  | cons a t ih =>
    have hnd := List.nodup_cons.mp hn
    simp only [List.map_cons, List.sum_cons]
    rcases List.mem_cons.mp hc with e1 | hc2
    · rcases List.mem_cons.mp hc' with e2 | hc2'
      · exact absurd (e1.trans e2.symm) hne
      · have := le_sum_map (l := t) (g := g) hc2'; rw [e1]; omega
    · rcases List.mem_cons.mp hc' with e2 | hc2'
      · have := le_sum_map (l := t) (g := g) hc2; rw [e2]; omega
      · have := ih hnd.2 hc2 hc2'; omega
end ScanDel

/-! ### mirrored slots: the halffaces around the opposite halfedge are the opposite halffaces -/
theorem hfHes_two_mul (k : Kernel) (f : Nat) : k.hfHes (2 * f) = k.faceAt f := by
  unfold hfHes eOf side
  have e1 : 2 * f / 2 = f := by omega
  have e2 : 2 * f % 2 = 0 := by omega
  simp [e1, e2]
theorem hfHes_two_mul_succ (k : Kernel) (f : Nat) : k.hfHes (2 * f + 1) = oppFace (k.faceAt f) := by
  unfold hfHes eOf side
  have e1 : (2 * f + 1) / 2 = f := by omega
  have e2 : (2 * f + 1) % 2 = 1 := by omega
  simp [e1, e2]

theorem sHfsOfHe_opp_perm (k : Kernel) (h : Nat) : (k.sHfsOfHe (opp h)).Perm ((k.sHfsOfHe h).map opp) := by
  rw [sHfsOfHe_eq, sHfsOfHe_eq, List.map_flatMap]
  apply perm_flatMap_pointwise
  intro f _
  unfold hfBlock
  simp only [List.map_append, List.map_replicate, hfHes_two_mul, hfHes_two_mul_succ, count_oppFace, opp_opp]
  have e1 : opp (2 * f) = 2 * f + 1 := by unfold opp; rw [xor_one_eq]; simp
  have e2 : opp (2 * f + 1) = 2 * f := by unfold opp; rw [xor_one_eq]; simp
  rw [e1, e2]
  exact List.perm_append_comm

/-! ### cells of a halfface -/
theorem liveCells_nodup (k : Kernel) : k.liveCells.Nodup := by
  unfold liveCells; exact List.Pairwise.sublist List.filter_sublist List.nodup_range

theorem sCellOf_some {k : Kernel} {hf c : Nat} (h : k.sCellOf hf = some c) :
    k.liveC c = true ∧ hf ∈ k.cellAt c := by
  unfold sCellOf sCellsOfHf at h
  have := List.mem_of_mem_head? h
  simp only [List.mem_filter, mem_liveCells] at this
  exact ⟨this.1, by simpa using this.2⟩

/-- C01's precondition in the form used here: a halfface lies in at most one live cell -/
theorem oneCell_unique {k : Kernel} (h1 : k.oneCell = true) {hf c c' : Nat} (hhf : hf < k.nHF)
    (hc : k.liveC c = true) (hc' : k.liveC c' = true) (hm : hf ∈ k.cellAt c) (hm' : hf ∈ k.cellAt c') : c = c' := by
  unfold oneCell at h1
  simp only [List.all_eq_true, List.mem_range, decide_eq_true_eq] at h1
  have hs := h1 hf hhf
  rcases Nat.lt_or_ge 0 0 with _ | _
  · omega
  · by_cases hne : c = c'
    · exact hne
    · have := two_mul_sum_le (g := fun c => (k.cellAt c).count hf) (liveCells_nodup k)
        ((mem_liveCells k c).mpr hc) ((mem_liveCells k c').mpr hc') hne
      have p1 := List.count_pos_iff.mpr hm
      have p2 := List.count_pos_iff.mpr hm'
      omega

theorem sCellOf_of_mem {k : Kernel} (h1 : k.oneCell = true) {hf c : Nat} (hhf : hf < k.nHF)
    (hc : k.liveC c = true) (hm : hf ∈ k.cellAt c) : k.sCellOf hf = some c := by
  have hmem : c ∈ k.sCellsOfHf hf := by
    unfold sCellsOfHf
    simp only [List.mem_filter, mem_liveCells]; exact ⟨hc, by simpa using hm⟩
  unfold sCellOf
  cases hh : (k.sCellsOfHf hf).head? with
  | none =>
    rw [List.head?_eq_none_iff] at hh
    rw [hh] at hmem; cases hmem
  | some c' =>
    have hc' := sCellOf_some (k := k) (hf := hf) (c := c') (by unfold sCellOf; exact hh)
    rw [oneCell_unique h1 hhf hc hc'.1 hm hc'.2]


/-! ### range facts -/
namespace ScanDel
theorem opp_lt_two_mul (h n : Nat) : opp h < 2 * n ↔ h < 2 * n := by
  unfold opp; rw [xor_one_eq]; split <;> omega

theorem cellAt_mem_cells {k : Kernel} {c : Nat} (hc : c < k.nC) : k.cellAt c ∈ k.cells := by
  unfold cellAt nC at *
  rw [List.getD_eq_getElem?_getD, List.getElem?_eq_getElem hc]; simp
theorem faceAt_mem_faces {k : Kernel} {f : Nat} (hf : f < k.nF) : k.faceAt f ∈ k.faces := by
  unfold faceAt nF at *
  rw [List.getD_eq_getElem?_getD, List.getElem?_eq_getElem hf]; simp

theorem hfHes_lt {k : Kernel} (hr : RangeInv k) {a h : Nat} (ha : eOf a < k.nF) (hm : h ∈ k.hfHes a) : h < k.nHE := by
  unfold hfHes at hm
  have hf := hr.faces _ (faceAt_mem_faces ha)
  split at hm
  · exact hf h hm
  · unfold oppFace at hm
    simp only [List.mem_map, List.mem_reverse] at hm
    obtain ⟨h0, hh0, rfl⟩ := hm
    unfold nHE; rw [opp_lt_two_mul]; exact hf h0 hh0

theorem liveC_lt {k : Kernel} {c : Nat} (h : k.liveC c = true) : c < k.nC := by
  unfold liveC at h; simp at h; exact h.1
theorem liveC_notDel {k : Kernel} {c : Nat} (h : k.liveC c = true) : k.cDeleted c = false := by
  unfold liveC at h; simp at h; exact h.2
theorem liveF_lt {k : Kernel} {c : Nat} (h : k.liveF c = true) : c < k.nF := by
  unfold liveF at h; simp at h; exact h.1
end ScanDel

theorem cellOf_some_lt {k : Kernel} {x c : Nat} (h : k.cellOf x = some c) : x < k.incCell.length := by
  rcases Nat.lt_or_ge x k.incCell.length with h1 | h1
  · exact h1
  · unfold cellOf at h; rw [getD_of_ge _ _ _ h1] at h; cases h

/-- what the face cache says about a linked cell, under the cache invariant -/
theorem cellOf_some_live {k : Kernel} (hF : CacheInvF k) (hb : k.fBU = true) {x c : Nat} (h : k.cellOf x = some c) :
    x < k.nHF ∧ k.liveC c = true ∧ x ∈ k.cellAt c := by
  have hl := (hF hb).1
  have hx : x < k.nHF := by rw [← hl]; exact cellOf_some_lt h
  rw [(hF hb).2 x hx] at h
  exact ⟨hx, sCellOf_some h⟩


/-! ### mirrored slot pairs are an invariant of `reorder` -/
namespace ScanDel
theorem heOf_one (e : Nat) : heOf e 1 = opp (heOf e 0) := by
  unfold heOf opp; rw [xor_one_eq]; simp
end ScanDel

/-- the slot of the opposite halfedge holds the opposite halffaces (as a multiset) -/
def SlotMirror (k : Kernel) : Prop := ∀ h, (k.hfsOf (opp h)).Perm ((k.hfsOf h).map opp)

theorem slotMirror_of_perm {k k' : Kernel} (hp : ∀ y, (k'.hfsOf y).Perm (k.hfsOf y)) (hm : SlotMirror k) :
    SlotMirror k' := fun h => (hp (opp h)).trans ((hm h).trans ((hp h).symm.map opp))

theorem slotMirror_reorder {k : Kernel} (hm : SlotMirror k) (e : Nat) :
    SlotMirror (k.reorder e) ∧ ∀ y, ((k.reorder e).hfsOf y).Perm (k.hfsOf y) := by
  have hp : ∀ y, ((k.reorder e).hfsOf y).Perm (k.hfsOf y) :=
    reorder_slots_perm k e (by rw [heOf_one]; exact hm _)
  exact ⟨slotMirror_of_perm hp hm, hp⟩

theorem slotMirror_foldl_reorder {k : Kernel} (hm : SlotMirror k) (es : List Nat) :
    SlotMirror (es.foldl reorder k) ∧ ∀ y, ((es.foldl reorder k).hfsOf y).Perm (k.hfsOf y) := by
  induction es generalizing k with
  | nil => exact ⟨hm, fun y => List.Perm.refl _⟩
  | cons e t ih =>
    simp only [List.foldl_cons]
    have h1 := slotMirror_reorder hm e
    have h2 := ih h1.1
    exact ⟨h2.1, fun y => (h2.2 y).trans (h1.2 y)⟩

theorem slotMirror_of_cacheInvE {k : Kernel} (hE : CacheInvE k) (hb : k.eBU = true) : SlotMirror k := by
  have hE := hE hb
  have hout : ∀ h, k.nHE ≤ h → k.hfsOf h = [] := by
    intro h hh; unfold hfsOf; exact getD_of_ge _ _ _ (by rw [hE.1]; exact hh)
  intro h
  rcases Nat.lt_or_ge h k.nHE with hh | hh
  · have hh' : opp h < k.nHE := by unfold nHE at *; rw [opp_lt_two_mul]; exact hh
    exact (hE.2 _ hh').trans ((sHfsOfHe_opp_perm k h).trans ((hE.2 h hh).symm.map opp))
  · have hh' : k.nHE ≤ opp h := by
      unfold nHE at *
      rcases Nat.lt_or_ge (opp h) (2 * k.edges.length) with h2 | h2
      · rw [opp_lt_two_mul] at h2; omega
      · exact h2
    rw [hout h hh, hout _ hh']; exact List.Perm.refl _

end Kernel
end OVM

import Judge.Parse
import Judge.Check
import Judge.Oracles
import OVM.Hex.Spec
import Std.Data.HashMap
import Std.Data.HashSet
/-
  hexjudge: reads hex_drv trace files (format of kernel_drv, DESIGN.md Appendix A) and prints one
  line per finding, in the format of ovmjudge:
    XFAIL  trace=<t> step=<k> op=<op> field=<f> model=<..> impl=<..>     model and code disagree
    ORACLE trace=<t> step=<k> op=<op> prop=<C16|C16J|CRASH|..> witness=<..>   the property fails on the implementation's own output
    DRIFT  trace=<t> step=<k> op=<op> field=<f>                          informational
    TRACE  <t> steps=<n>      STAT <key> <value>     HIST <what> <key> <value>
  Per step: (X) the model transition (`stepHex` / `hexAddCellV`) applied to the implementation's
  previous state against its next state, field by field (`Judge.cmpKernel`), and every hex query
  line against the model's function; (O) the oracles of `OVM/Hex/Spec.lean` on the implementation's
  state and answers alone.
-/
open OVM OVM.Kernel Judge

namespace OVM.Hex.Judge

def traceNo (h : String) : String :=
  match (toks h).find? (·.startsWith "trace=") with
  | some s => (s.drop 6).toString
  | none => "?"

def optI (o : Option Nat) : Int := match o with | some x => x | none => -1

/-- the model transition for one step; `none` = not a kernel operation -/
def modelStep (pre : Kernel) (s : Step) : Option (Kernel × Int) :=
  let a := s.args.map Int.toNat
  match s.op, a with
  | "hex_add_cell_v", c :: vs => let r := pre.hexAddCellV vs (c != 0); some (r.1, optI r.2)
  | _, _ => (opOfStep s).map pre.stepHex

structure Acc where
  out : List Finding := []
  stats : Std.HashMap String Nat := {}

def Acc.add (a : Acc) (f : Finding) : Acc := { a with out := a.out ++ [f] }
def Acc.cnt (a : Acc) (k : String) (n : Nat := 1) : Acc := { a with stats := a.stats.insert k (a.stats.getD k 0 + n) }

def listArg (q : QLine) (skip : Nat) : List Nat :=
  match q.args.drop skip with
  | _n :: r => r.map Int.toNat
  | [] => []

/-- one hex query line: model comparison (XFAIL) and oracle (ORACLE C16) -/
def checkHexQuery (k : Kernel) (q : QLine) (acc0 : Acc) (oracles : Bool := true) : Acc := Id.run do
  let mut acc := acc0
  let a := q.args
  let n := fun (i : Nat) => (a.getD i 0).toNat
  let xf := fun (acc : Acc) (model impl : String) =>
    if model == impl then acc else acc.add (Finding.xfail s!"query:{q.name}" model s!"{impl} args={q.args}")
  match q.name with
  | "hori" =>
    let c := n 0; let hf := n 1; let r := a.getD 2 0
    acc := acc.cnt "q.orientation"
    acc := xf acc (toString (k.hexOrientation hf c)) (toString r)
    -- oracle: the position of the halfface in the stored list, INVALID (6) when absent
    let exp : Int := match idxOf? (k.cellAt c) hf with | some i => i | none => 6
    if r != exp then acc := acc.add (Finding.oracle "C16" s!"orientation({hf},{c}) = {r}, stored position {exp}; cell {k.cellAt c}")
  | "hopp" =>
    let c := n 0; let hf := n 1; let r := a.getD 2 0
    acc := acc.cnt "q.opposite_in_cell"
    acc := xf acc (toString (optI (k.oppositeHalffaceInCell hf c))) (toString r)
    let exp : Int := match idxOf? (k.cellAt c) hf with
      | some i => optI ((k.cellAt c)[if i % 2 == 0 then i + 1 else i - 1]?)
      | none => -1
    if r != exp then acc := acc.add (Finding.oracle "C16" s!"opposite_halfface_handle_in_cell({hf},{c}) = {r}, the other halfface of that axis is {exp}; cell {k.cellAt c}")
    -- involution
    if r ≥ 0 && optI (k.oppositeHalffaceInCell r.toNat c) != (hf : Int) && nodupB (k.cellAt c) then
      acc := acc.add (Finding.oracle "C16" s!"opposite_halfface_handle_in_cell not involutive at ({hf},{c})")
  | "hacc" =>
    let c := n 0
    acc := acc.cnt "q.accessors"
    let impl := a.drop 1
    let model := [k.xfrontHalfface c, k.xbackHalfface c, k.yfrontHalfface c, k.ybackHalfface c, k.zfrontHalfface c, k.zbackHalfface c].map optI
    acc := xf acc (toString model) (toString impl)
    let exp : List Int := (k.cellAt c).map Int.ofNat
    if impl != exp then acc := acc.add (Finding.oracle "C16" s!"x/y/z front/back accessors of cell {c} = {impl}, stored order {exp}")
  | "hgoh" =>
    let c := n 0; let o := n 1; let r := a.getD 2 0
    acc := acc.cnt "q.get_oriented"
    acc := xf acc (toString (optI (k.getOrientedHalfface o c))) (toString r)
    let exp : Int := if o < 6 then optI ((k.cellAt c)[o]?) else -1
    if r != exp then acc := acc.add (Finding.oracle "C16" s!"get_oriented_halfface({o},{c}) = {r}, stored position holds {exp}")
  | "hhv" =>
    let c := n 0
    let r := listArg q 1
    acc := acc.cnt "q.hex_vertices"
    match k.hexVertices c with
    | some mv => if mv != r then acc := acc.add (Finding.xfail "query:hhv" (showL mv) s!"{showL r} cell={c}")
    | none => acc := acc.add (Finding.xfail "query:hhv" "walk leaves the cell" s!"{showL r} cell={c}")
    if !k.hexVertsPatternB c r then
      acc := acc.add (Finding.oracle "C16" s!"hex_vertices({c}) = {showL r} is not the documented pattern; cell {k.cellAt c}, first halfface vertices {showL (k.hfVerts ((k.cellAt c).getD 0 0))}, second {showL (k.hfVerts ((k.cellAt c).getD 1 0))}")
  | "hcsc" =>
    let c := n 0; let d := n 1
    let r := listArg q 2
    acc := acc.cnt "q.cell_sheet_cells"
    let mv := k.cellSheetCells c d
    if mv != r then acc := acc.add (Finding.xfail "query:hcsc" (showL mv) s!"{showL r} cell={c} dir={d}")
    if sortUniq r != k.sSheetCells c d || !nodupB r then
      acc := acc.add (Finding.oracle "C16" s!"cell_sheet_cells({c},{d}) = {showL r}, neighbours across the four orthogonal halffaces = {showL (k.sSheetCells c d)}")
  | "hhfs" =>
    let hf := n 0
    let r := listArg q 1
    acc := acc.cnt "q.halfface_sheet_halffaces"
    let mv := (k.halffaceSheetHalffaces hf).map (·.1)
    if mv != r then acc := acc.add (Finding.xfail "query:hhfs" (showL mv) s!"{showL r} hf={hf}")
    if sortUniq r != k.sSheetHalffaces hf || !nodupB r then
      acc := acc.add (Finding.oracle "C16" s!"halfface_sheet_halffaces({hf}) = {showL r}, matching halffaces of the sheet neighbours = {showL (k.sSheetHalffaces hf)}")
  | "hhfe" =>
    let hf := n 0
    let r := listArg q 1
    let mv := (k.halffaceSheetHalffaces hf).map (·.2)
    if mv != r then acc := acc.add (Finding.xfail "query:hhfe" (showL mv) s!"{showL r} hf={hf}")
    -- each common edge is an edge of the reference halfface and of the reported halfface
    let hs := (k.halffaceSheetHalffaces hf).map (·.1)
    if hs.length == r.length then
      for (x, e) in hs.zip r do
        if !((k.hfHes hf).any (fun h => eOf h == e) && (k.hfHes x).any (fun h => eOf h == e)) then
          acc := acc.add (Finding.oracle "C16" s!"common_edge {e} of sheet halfface {x} of {hf} is not an edge of both")
  | "haos" =>
    let hf := n 0; let he := n 1; let r := a.getD 2 0
    acc := acc.cnt "q.adjacent_on_sheet"
    acc := xf acc (toString (optI (k.adjacentHalffaceOnSheet hf he))) (toString r)
    -- specification by brute force over the live cells (SheetAdjSpec, lean/OVM/Hex/SheetAdj.lean): inside the cell of
    -- `hf` across `he` to the side face `a`, through `a` into the neighbouring cell, there across the same edge; if the
    -- cell of `hf` offers no such way, the same walk from the opposite halfface, result flipped
    let way := fun (h e : Nat) =>
      (k.liveCells.filter (fun c => (k.cellAt c).contains h)).flatMap (fun c =>
        ((k.cellAt c).filter (fun x => x != h && (k.hfHes x).contains (opp e))).flatMap (fun x =>
          (k.liveCells.filter (fun m => (k.cellAt m).contains (opp x))).flatMap (fun m =>
            (k.cellAt m).filter (fun y => y != opp x && (k.hfHes y).contains (opp e)))))
    if (k.hfHes hf).contains he then
      let s1 := way hf he
      let s2 := (way (opp hf) (opp he)).map opp
      -- soundness only: a reported halfface is such a continuation (when the function must answer at all depends on
      -- the enabled incidences and on degenerate gluings, and is left to the model comparison above)
      if r ≥ 0 && !((s1 ++ s2).contains r.toNat) then
        acc := acc.add (Finding.oracle "C16" s!"adjacent_halfface_on_sheet({hf},{he}) = {r}, continuations of the sheet across that edge = {showL (s1 ++ s2)}")
  | "hasf" =>
    let hf := n 0; let he := n 1; let r := a.getD 2 0
    acc := acc.cnt "q.adjacent_on_surface"
    acc := xf acc (toString (optI (k.adjacentHalffaceOnSurface hf he))) (toString r)
    if r ≥ 0 && !(k.sBoundaryHF r.toNat && r.toNat != hf) then
      acc := acc.add (Finding.oracle "C16" s!"adjacent_halfface_on_surface({hf},{he}) = {r} is not a boundary halfface other than the argument")
  | "hnoh" =>
    let hf := n 0; let he := n 1; let r := a.getD 2 0
    acc := acc.cnt "q.neighboring_outside"
    acc := xf acc (toString (optI (k.neighboringOutsideHalfface hf he))) (toString r)
  | _ => pure ()
  -- `oracles = false`: only the model comparison counts (cell outside the property's scope)
  if !oracles then
    return { acc with out := acc0.out ++ (acc.out.drop acc0.out.length).filter (fun f => match f with | .oracle _ _ => false | _ => true) }
  return acc

/-- live cells made of six quads that have fewer than eight distinct vertices (a hexahedron with
    identified vertices): judged under the separate tag C16J -/
def pinchedCells (k : Kernel) : List Nat :=
  k.liveCells.filter (fun c => (k.cellAt c).length == 6 && (k.cellVerts c).length < 8 &&
    (k.cellAt c).all (fun hf => (k.hfVerts hf).length == 4 && nodupB (k.hfVerts hf)))

/-- oracles on the state after a step -/
def checkState (k : Kernel) (pinched : List Nat) (acc : Acc) : Acc := Id.run do
  let mut acc := acc
  for f in k.liveFaces do
    if (k.faceAt f).length != 4 then acc := acc.add (Finding.oracle "C16" s!"face {f} has {(k.faceAt f).length} halfedges")
  for c in k.liveCells do
    if pinched.contains c then
      acc := acc.cnt "cells_pinched"
      acc := acc.add (Finding.oracle "C16J" s!"live cell {c} = {showL (k.cellAt c)} consists of six proper quads but has only {(k.cellVerts c).length} distinct vertices {showL (k.cellVerts c)}")
      continue
    acc := acc.cnt "cells_checked"
    let hfs := k.cellAt c
    if hfs.length != 6 then
      acc := acc.add (Finding.oracle "C16" s!"cell {c} has {hfs.length} halffaces")
    else if (k.cellVerts c).length != 8 then
      acc := acc.add (Finding.oracle "C16" s!"cell {c} = {showL hfs} has {(k.cellVerts c).length} distinct vertices {showL (k.cellVerts c)}")
    else
      if !k.hexOppDisjointB hfs then
        acc := acc.add (Finding.oracle "C16" s!"cell {c} = {showL hfs}: halffaces 2k and 2k+1 share a vertex: {showLL (hfs.map k.hfVerts)}")
      if !k.hexWalkB hfs then
        acc := acc.add (Finding.oracle "C16" s!"cell {c} = {showL hfs}: walking the first halfface {showL (k.hfHes (hfs.getD 0 0))} does not meet positions 2,4,3,5 cyclically")
      if !k.hexWalkAtB hfs 1 specOrderBot then
        acc := acc.add (Finding.oracle "C16" s!"cell {c} = {showL hfs}: walking the second halfface does not meet positions 3,4,2,5 cyclically")
      if !k.hexOrthLayoutB c then
        acc := acc.add (Finding.oracle "C16" s!"cell {c} = {showL hfs}: the layout disagrees with orthogonal_orientation")
  return acc

def judgeStep (pre : Obs) (s : Step) (acc : Acc) : Acc := Id.run do
  let mut acc := acc
  match s.crashed with
  | some why => return acc.add (Finding.oracle "CRASH" s!"{s.op} {s.args}: {why}")
  | none => pure ()
  let post := s.post.k
  let a := s.args.map Int.toNat
  let r := s.res.toInt?.getD 0
  -- X
  match modelStep pre.k s with
  | some (m', mr) =>
    for f in cmpKernel m' post (isSwapOp s.op) do acc := acc.add f
    match s.res.toInt? with
    | some ri => if ri != mr then acc := acc.add (Finding.xfail "return" (toString mr) (toString ri))
    | none => pure ()
  | none =>
    if s.op == "retoken" then
      let strip := fun (k : Kernel) => { k with props := {} }
      if strip post != strip pre.k then acc := acc.add (Finding.xfail "retoken" "topology unchanged" "topology changed")
    else acc := acc.add (Finding.xfail "unknown-op" s.op "")
  -- O: add_cell(halffaces)
  let pinched := pinchedCells post
  if s.op == "add_cell" then
    match a with
    | c :: _n :: hfs =>
      let stream := if s.malformed then "invalid" else "valid"
      if c != 0 then
        acc := acc.cnt s!"addcell.{stream}.tried"
        if r == -1 then
          acc := acc.cnt s!"addcell.{stream}.rejected"
          if post != pre.k then acc := acc.add (Finding.oracle "C16" s!"add_cell(check) {showL hfs} returned -1 but the mesh changed")
        else
          let stored := post.cellAt r.toNat
          if stored == hfs then acc := acc.cnt s!"addcell.{stream}.accepted_as_given" else acc := acc.cnt s!"addcell.{stream}.reordered"
          if !(r.toNat == pre.k.nC && post.nC == pre.k.nC + 1 && sortL stored == sortL hfs) then
            acc := acc.add (Finding.oracle "C16" s!"add_cell(check) {showL hfs} accepted, but the stored cell {showL stored} is not a re-ordering of it appended as one new cell")
      else
        acc := acc.cnt "addcell.unchecked"
        if r == -1 && post != pre.k then acc := acc.add (Finding.oracle "C16" s!"add_cell {showL hfs} returned -1 but the mesh changed")
    | _ => pure ()
  if s.op == "hex_add_cell_v" then
    acc := acc.cnt (if r == -1 then "addcellv.rejected" else "addcellv.accepted")
    if r == -1 && post != pre.k then acc := acc.cnt "addcellv.rejected_with_faces_left_behind"
    if r != -1 && !(r.toNat == pre.k.nC && post.nC == pre.k.nC + 1) then
      acc := acc.add (Finding.oracle "C16" s!"add_cell(vertices) returned {r} without appending exactly one cell")
  if s.op == "add_face_he" || s.op == "add_face_v" then
    if r == -1 && post != pre.k then acc := acc.add (Finding.oracle "C16" s!"{s.op} {s.args} returned -1 but the mesh changed")
  -- O: state and queries
  for f in checkBookkeeping s.post do acc := acc.add f
  for f in checkPropSizes post do acc := acc.add f
  acc := checkState post pinched acc
  for q in s.post.q do
    let cellQuery := q.name == "hori" || q.name == "hopp" || q.name == "hacc" || q.name == "hgoh" || q.name == "hhv" || q.name == "hcsc"
    let about := cellQuery && pinched.contains (q.args.getD 0 0).toNat
    acc := checkHexQuery post q acc (!about)
  return acc

def fmt (t : String) (k : Nat) (op : String) : Finding → String
  | .xfail f m i => s!"XFAIL trace={t} step={k} op={op} field={f} model={m} impl={i}"
  | .oracle p w => s!"ORACLE trace={t} step={k} op={op} prop={p} witness={w}"
  | .drift f => s!"DRIFT trace={t} step={k} op={op} field={f}"

def stateKey (k : Kernel) : UInt64 :=
  hash (k.nV, k.edges, k.faces, k.cells, k.vDel, k.eDel, k.fDel, k.cDel, k.deferred, k.fast, k.vBU, k.eBU, k.fBU)

def run (args : List String) : IO UInt32 := do
  let mut nSteps := 0
  let mut nTraces := 0
  let mut nFind := 0
  let mut nQueries := 0
  let mut states : Std.HashSet UInt64 := {}
  let mut nontriv : Std.HashSet UInt64 := {}
  let mut ops : Std.HashMap String Nat := {}
  let mut modes : Std.HashMap String Nat := {}
  let mut stats : Std.HashMap String Nat := {}
  for path in args do
    let lines ← IO.FS.lines path
    let traces := parseFile lines
    for tr in traces do
      nTraces := nTraces + 1
      let t := traceNo tr.header
      let mut pre := tr.init
      let mut idx := 0
      for s in tr.steps do
        let acc := judgeStep pre s {}
        for f in acc.out do
          IO.println (fmt t idx s.op f)
          match f with | .drift _ => pure () | _ => nFind := nFind + 1
        for (k, v) in acc.stats.toList do stats := stats.insert k (stats.getD k 0 + v)
        nSteps := nSteps + 1
        nQueries := nQueries + s.post.q.size
        let opk := (if s.malformed then "!" else "") ++ s.op
        ops := ops.insert opk (ops.getD opk 0 + 1)
        let k := s.post.k
        let mk := s!"{k.deferred},{k.fast},{k.vBU},{k.eBU},{k.fBU}"
        modes := modes.insert mk (modes.getD mk 0 + 1)
        let h := stateKey k
        states := states.insert h
        if k.nC ≥ 1 || k.needsGC then nontriv := nontriv.insert h
        pre := s.post
        idx := idx + 1
      IO.println s!"TRACE {t} steps={tr.steps.size} crash={tr.crash.isSome}"
  IO.println s!"STAT traces {nTraces}"
  IO.println s!"STAT steps {nSteps}"
  IO.println s!"STAT findings {nFind}"
  IO.println s!"STAT queries {nQueries}"
  IO.println s!"STAT distinct_states {states.size}"
  IO.println s!"STAT distinct_nontrivial_states {nontriv.size}"
  for (k, v) in stats.toList do IO.println s!"STAT {k} {v}"
  for (k, v) in ops.toList do IO.println s!"HIST op {k} {v}"
  for (k, v) in modes.toList do IO.println s!"HIST mode {k} {v}"
  return 0

end OVM.Hex.Judge

def main (args : List String) : IO UInt32 := OVM.Hex.Judge.run args

import OVM.Hex.CubeIso
import OVM.Refine.LookupLemmas
/-
  C16 after 7b999c9: the hex `add_cell(halffaces)` override rejects six quads that do not span exactly
  eight distinct vertices (`Kernel.spanVertCount`, checked and unchecked path).  Consequences for an ACCEPTED
  call: the stored list spans eight distinct vertices (`hexAddCell_stored_span`), and on the checked path —
  where the base class has verified the closed surface — the cell has eight distinct vertices in the sense of
  `HexShape` (`hexAddCell_checked_shape`: every target of a halfedge is the source of its opposite).
  Proof-only file.
-/
namespace OVM
namespace Kernel
namespace HexAll
open OVM.Gen.HexTables

theorem toSet_length_congr {A B : List Nat} (h : ∀ a, a ∈ A ↔ a ∈ B) : (toSet A).length = (toSet B).length := by
  have : (toSet A).Perm (toSet B) := by
    rw [List.perm_ext_iff_of_nodup (k4_toSet_nodup _) (k4_toSet_nodup _)]
    intro a; rw [k4_mem_toSet, k4_mem_toSet]; exact h a
  exact this.length_eq

/-- pigeonhole: a duplicate-free list inside a list that is not longer covers it -/
theorem subset_of_nodup_subset : ∀ (l m : List Nat), l.Nodup → (∀ x ∈ l, x ∈ m) → m.length ≤ l.length → ∀ x ∈ m, x ∈ l := by
  intro l
  induction l with
  | nil =>
    intro m _ _ hlen x hx
    have : m = [] := List.eq_nil_of_length_eq_zero (by simpa using hlen)
    rw [this] at hx; cases hx
  | cons a t ih =>
    intro m hnd hsub hlen x hx
    have ham : a ∈ m := hsub a (List.mem_cons_self ..)
    have hnd' := List.nodup_cons.mp hnd
    have hsub' : ∀ y ∈ t, y ∈ m.erase a := by
      intro y hy
      have hne : y ≠ a := fun e => hnd'.1 (e ▸ hy)
      exact (List.mem_erase_of_ne hne).mpr (hsub y (List.mem_cons_of_mem _ hy))
    have hlen' : (m.erase a).length ≤ t.length := by
      rw [List.length_erase_of_mem ham]; simp at hlen; omega
    by_cases e : x = a
    · rw [e]; exact List.mem_cons_self ..
    · exact List.mem_cons_of_mem _ (ih (m.erase a) hnd'.2 hsub' hlen' x ((List.mem_erase_of_ne e).mpr hx))

theorem spanVertCount_congr {k k' : Kernel} (he : k'.edges = k.edges) (hf : k'.faces = k.faces) (l : List Nat) :
    k'.spanVertCount l = k.spanVertCount l := by
  unfold spanVertCount
  have hh : k'.hfHes = k.hfHes := funext (hfHes_congr k k' hf)
  have h1 : k'.fromV = k.fromV := by funext a; unfold fromV halfedge edgeAt; rw [he]
  have h2 : k'.toV = k.toV := by funext a; unfold toV halfedge edgeAt; rw [he]
  rw [hh, h1, h2]

theorem spanVertCount_same_members (k : Kernel) {l m : List Nat} (h : ∀ x, x ∈ l ↔ x ∈ m) :
    k.spanVertCount l = k.spanVertCount m := by
  unfold spanVertCount
  apply toSet_length_congr
  intro a
  simp only [List.mem_flatMap]
  constructor
  · rintro ⟨e, ⟨x, hx, he⟩, ha⟩; exact ⟨e, ⟨x, (h x).mp hx, he⟩, ha⟩
  · rintro ⟨e, ⟨x, hx, he⟩, ha⟩; exact ⟨e, ⟨x, (h x).mpr hx, he⟩, ha⟩

theorem hexAddCell_edges (k : Kernel) (hfs : List Nat) (chk : Bool) : (k.hexAddCell hfs chk).1.edges = k.edges := by
  rcases hexAddCell_cases k hfs chk with e | ⟨l, b, e⟩
  · rw [e]
  · rw [e]; unfold addCell; split <;> simp

/-- what an accepted call stores is a duplicate-free re-ordering of the given list, and the base class has
    accepted it under the same topology-check flag -/
theorem hexAddCell_stored (k : Kernel) (hfs : List Nat) (chk : Bool) (c : Nat) (h : (k.hexAddCell hfs chk).2 = some c) :
    ∃ l, (k.hexAddCell hfs chk).1.cellAt c = l ∧ k.hexAddCell hfs chk = k.addCell l chk ∧ (∀ x, x ∈ l ↔ x ∈ hfs) ∧
      (chk = true → l.Nodup ∧ ClosedSurface k l ∧ k.oppPairsDisjoint l = true) := by
  obtain ⟨hc, _, _, _, _, hv, _⟩ := hexAddCell_accept k hfs chk c h
  obtain ⟨l, heq, hpath, hop⟩ := hexAddCell_eq_addCell k hfs chk c h
  have hlen : hfs.length = 6 := by
    unfold hexAddCell at h; split at h
    · simp at h
    · rename_i h6; simpa using h6
  have hne : hfs ≠ [] := by intro e; rw [e] at hlen; simp at hlen
  have hacc : k.addCellAccepts l chk = true := by
    rw [heq] at h; unfold addCell at h; split at h
    · assumption
    · simp at h
  have hcell : (k.hexAddCell hfs chk).1.cellAt c = l := by
    rw [heq]; unfold addCell; rw [if_pos hacc]
    unfold Kernel.cellAt; rw [addCellCore_cells, hc]; simp [nC]
  have hclosed : chk = true → ClosedSurface k l := by
    intro hct; subst hct
    unfold addCellAccepts at hacc; simp at hacc
    exact (cellCheck_iff k l).mp hacc.2
  have hsub : ∀ x ∈ l, x ∈ hfs := by
    rcases hpath with ⟨e, _⟩ | ⟨_, _, e⟩
    · rw [e]; exact fun x hx => hx
    · have h4 : (k.hfHes (hfs.getD 0 0)).length = 4 := by
        rw [hfHes_length]; exact hv _ (getD_mem_lt hfs 0 (by omega))
      exact hexReorder_subset k hfs l h4 hne e
  have hl6 : l.length = 6 := by
    rcases hpath with ⟨e, _⟩ | ⟨_, _, e⟩
    · rw [e]; exact hlen
    · exact hexReorder_length k hfs l e
  have hnd : chk = true → l.Nodup := fun hct =>
    nodup_of_flatMap_nodup l k.hfHes (fun x hx => by
      have : (k.hfHes x).length = 4 := by rw [hfHes_length]; exact hv _ (hsub x hx)
      intro e; rw [e] at this; simp at this) (hclosed hct).1
  refine ⟨l, hcell, heq, ?_, fun hct => ⟨hnd hct, hclosed hct, hop hct⟩⟩
  rcases hpath with ⟨e, _⟩ | ⟨hct, _, _⟩
  · rw [e]; exact fun x => Iff.rfl
  · exact fun x => ⟨hsub x, subset_of_nodup_subset l hfs (hnd hct) hsub (by omega) x⟩

/-- **an accepted hex `add_cell(halffaces)` — checked or not — stores six quads that span exactly eight distinct
    vertices** (in the new state) -/
theorem hexAddCell_stored_span (k : Kernel) (hfs : List Nat) (chk : Bool) (c : Nat) (h : (k.hexAddCell hfs chk).2 = some c) :
    (k.hexAddCell hfs chk).1.spanVertCount ((k.hexAddCell hfs chk).1.cellAt c) = 8 := by
  obtain ⟨l, hcell, _, hmem, _⟩ := hexAddCell_stored k hfs chk c h
  obtain ⟨_, hf, _⟩ := hexAddCell_accept k hfs chk c h
  rw [hcell, spanVertCount_congr (hexAddCell_edges k hfs chk) hf, spanVertCount_same_members k hmem]
  exact hexAddCell_accept_span k hfs chk c h

/-- on a closed surface the targets of the halfedges are sources of halfedges: the distinct vertices of the
    cell are the vertices the six quads span -/
theorem cellVerts_eq_span {k : Kernel} {l : List Nat} (hc : ClosedSurface k l) :
    (toSet (l.flatMap k.hfVerts)).length = k.spanVertCount l := by
  unfold spanVertCount
  apply toSet_length_congr
  intro v
  simp only [List.mem_flatMap, hfVerts, List.mem_map]
  constructor
  · rintro ⟨x, hx, e, he, rfl⟩
    exact ⟨e, ⟨x, hx, he⟩, by simp⟩
  · rintro ⟨e, ⟨x, hx, he⟩, hv⟩
    simp only [List.mem_cons, List.not_mem_nil, or_false] at hv
    rcases hv with rfl | rfl
    · exact ⟨x, hx, e, he, rfl⟩
    · have hm : e ∈ k.cellHalfedges l := List.mem_flatMap.mpr ⟨x, hx, he⟩
      obtain ⟨y, hy, hey⟩ := List.mem_flatMap.mp (hc.2 e hm)
      exact ⟨y, hy, opp e, hey, Lookup.fromV_opp k e⟩

/-- **an accepted topology-checked call creates a cell of six halffaces and eight distinct vertices**
    (`hexCellShapeB`, the cell clause of `HexShape`) -/
theorem hexAddCell_checked_shape (k : Kernel) (hfs : List Nat) (c : Nat) (h : (k.hexAddCell hfs true).2 = some c) :
    (k.hexAddCell hfs true).1.hexCellShapeB c = true := by
  obtain ⟨l, hcell, _, hmem, hcl⟩ := hexAddCell_stored k hfs true c h
  obtain ⟨_, hf, l', hcells, hl6, _⟩ := hexAddCell_accept k hfs true c h
  have hl : l.length = 6 := by
    have : (k.hexAddCell hfs true).1.cellAt c = l' := by unfold cellAt; rw [hcells]; simp_all [nC]
    rw [← hcell, this]; exact hl6
  have he := hexAddCell_edges k hfs true
  have hcs : ClosedSurface (k.hexAddCell hfs true).1 l := by
    have h0 := (hcl rfl).2.1
    unfold ClosedSurface cellHalfedges at *
    rw [show (k.hexAddCell hfs true).1.hfHes = k.hfHes from funext (hfHes_congr k _ hf)]
    exact h0
  unfold hexCellShapeB cellVerts
  rw [hcell, hl, cellVerts_eq_span hcs, spanVertCount_congr he hf, spanVertCount_same_members k hmem,
    hexAddCell_accept_span k hfs true c h]
  rfl

end HexAll
end Kernel
end OVM

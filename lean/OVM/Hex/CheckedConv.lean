import OVM.Hex.VerticesGeneral
/-
  C16 after 7800c85: the topology-checked hex `add_cell(halffaces)` rejects the list it is about to store unless
  the two halffaces of each axis are vertex-disjoint (`Kernel.oppPairsDisjoint` = the first clause of `HexConv`,
  `oppPairs_eq`).  Hence an ACCEPTED checked call stores a `HexConv` cell:
  * through the re-ordering path with no hypothesis at all (the walk clause holds by construction,
    `hexReorder_walk`);
  * as given when the first two halffaces are proper loop quads (`ProperQuad`: four chained halfedges through
    four distinct vertices): then, the surface being closed, the neighbour across the first halfedge of either
    one exists, is not that halfface itself, and is not the other one (they would share a vertex) — the
    side-neighbour hypothesis of `checkOrdering_walk`.
  Proof-only file.
-/
namespace OVM
namespace Kernel
namespace HexAll
open Global ScanDel OVM.Gen.HexTables

/-- a closed loop of four halfedges through four distinct vertices -/
def ProperQuad (k : Kernel) (x : Nat) : Prop := HfLoop k x ∧ (k.hfVerts x).Nodup

/-- a proper quad does not contain the opposite of its first halfedge -/
theorem properQuad_no_opp {k : Kernel} {x e0 e1 e2 e3 : Nat} (hh : k.hfHes x = [e0, e1, e2, e3]) (hp : ProperQuad k x) :
    opp e0 ∉ k.hfHes x := by
  obtain ⟨hl, hn⟩ := hp
  have t0 := hl 0 (by omega)
  have t1 := hl 1 (by omega)
  rw [hh] at t0 t1
  simp only [List.getD_cons_zero, List.getD_cons_succ, Nat.reduceAdd, Nat.reduceMod] at t0 t1
  unfold hfVerts at hn
  rw [hh] at hn ⊢
  simp only [List.map_cons, List.map_nil, List.nodup_cons, List.mem_cons, List.not_mem_nil, or_false, not_or,
    List.nodup_nil, and_true] at hn
  obtain ⟨⟨n01, n02, n03⟩, ⟨n12, n13⟩, n23⟩ := hn
  have hf : k.fromV (opp e0) = k.fromV e1 := (Lookup.fromV_opp k e0).trans t0
  have ht : k.toV (opp e0) = k.fromV e0 := Lookup.toV_opp k e0
  intro hm
  simp only [List.mem_cons, List.not_mem_nil, or_false] at hm
  rcases hm with e | e | e | e
  · exact CellCheck.opp_ne e0 e
  · rw [e] at ht; exact n02 (ht.symm.trans t1)
  · rw [e] at hf; exact n12 hf.symm
  · rw [e] at hf; exact n13 hf.symm

/-- in a closed surface, the neighbour across the first halfedge of a proper quad `a` exists and is not `b`
    when `a` and `b` share no vertex -/
theorem getAdj_side {k : Kernel} {hfs : List Nat} (hcl : ClosedSurface k hfs) {a b e0 e1 e2 e3 : Nat} (ha : a ∈ hfs)
    (hh : k.hfHes a = [e0, e1, e2, e3]) (hp : ProperQuad k a)
    (hd : ∀ v, v ∈ k.hfVerts a → v ∈ k.hfVerts b → False) :
    ∃ x, k.hexGetAdj a e0 hfs = some x ∧ x ≠ b := by
  have hmem : e0 ∈ k.cellHalfedges hfs := List.mem_flatMap.mpr ⟨a, ha, by rw [hh]; simp⟩
  obtain ⟨y, hy, hey⟩ := List.mem_flatMap.mp (hcl.2 e0 hmem)
  have hya : y ≠ a := by
    intro e; rw [e] at hey; exact properQuad_no_opp hh hp hey
  have hex : (hfs.find? (fun x => x != a && (k.hfHes x).contains (opp e0))).isSome = true := by
    rw [List.find?_isSome]
    exact ⟨y, hy, by simp [hya, hey]⟩
  obtain ⟨x, hx⟩ := Option.isSome_iff_exists.mp hex
  refine ⟨x, hx, ?_⟩
  intro e
  have hs := hexGetAdj_sound k a e0 hfs x hx
  rw [e] at hs
  have hc : opp e0 ∈ k.hfHes b := by simpa using hs.2.2
  have t0 := hp.1 0 (by omega)
  rw [hh] at t0
  simp only [List.getD_cons_zero, List.getD_cons_succ, Nat.reduceAdd, Nat.reduceMod] at t0
  apply hd (k.toV e0)
  · unfold hfVerts; rw [hh, t0]; simp
  · unfold hfVerts; exact List.mem_map.mpr ⟨opp e0, hc, Lookup.fromV_opp k e0⟩

/-- **an accepted topology-checked `add_cell(halffaces)` stores a cell in convention** (since 7800c85) -/
theorem hexAddCell_checked_conv (k : Kernel) (hfs : List Nat) (c : Nat) (h : (k.hexAddCell hfs true).2 = some c)
    (hq : k.hexCheckOrdering hfs = true → ProperQuad k (hfs.getD 0 0) ∧ ProperQuad k (hfs.getD 1 0)) :
    (k.hexAddCell hfs true).1.hexConvB c = true := by
  obtain ⟨l, hcell, heq, _, hprop⟩ := hexAddCell_stored k hfs true c h
  obtain ⟨hnd, hcl, hop⟩ := hprop rfl
  obtain ⟨_, hf, l', hcells, hl6, hv, hcase⟩ := hexAddCell_accept k hfs true c h
  have hll : l' = l := by
    have : (k.hexAddCell hfs true).1.cellAt c = l' := by unfold Kernel.cellAt; rw [hcells]; simp_all [nC]
    rw [← this, hcell]
  subst hll
  have hlen : hfs.length = 6 := by
    unfold hexAddCell at h; split at h
    · simp at h
    · rename_i h6; simpa using h6
  have hopp : k.hexOppDisjointB l' = true := by rw [← oppPairs_eq]; exact hop
  have hwalk : k.hexWalkAtB l' 0 specOrderTop = true := by
    rcases hcase with ⟨e, _⟩ | ⟨_, e1, e2⟩ | ⟨_, e1, e2⟩
    · cases e
    · -- accepted as given
      subst e1
      obtain ⟨p0, p1⟩ := hq e2
      match l', hlen, hv, hcl, hopp, e2, p0, p1 with
      | [h0, h1, h2, h3, h4, h5], _, hv, hcl, hopp, e2, p0, p1 =>
        have hq0 : (k.hfHes h0).length = 4 := by rw [hfHes_length]; exact hv h0 (by simp)
        have hq1 : (k.hfHes h1).length = 4 := by rw [hfHes_length]; exact hv h1 (by simp)
        obtain ⟨e0, e1', e2', e3, hh0⟩ := length4_cases _ hq0
        obtain ⟨f0, f1, f2, f3, hh1⟩ := length4_cases _ hq1
        have hd01 : disjointL (k.hfVerts h0) (k.hfVerts h1) = true := oppDisjoint_first hopp
        have hdis : ∀ v, v ∈ k.hfVerts h0 → v ∈ k.hfVerts h1 → False := by
          intro v h1' h2'
          unfold disjointL at hd01
          rw [List.all_eq_true] at hd01
          have := hd01 v h1'
          simp [h2'] at this
        obtain ⟨x, hx, hxb⟩ := getAdj_side hcl (a := h0) (b := h1) (by simp) hh0 p0 hdis
        obtain ⟨y, hy, hyt⟩ := getAdj_side hcl (a := h1) (b := h0) (by simp) hh1 p1 (fun v a b => hdis v b a)
        exact (Kernel.checkOrdering_walk k h0 h1 h2 h3 h4 h5 e0 e1' e2' e3 f0 f1 f2 f3 x y hh0 hh1 e2 hx hxb hy hyt).1
    · -- re-ordered
      have hne : hfs ≠ [] := by intro e; rw [e] at hlen; simp at hlen
      have h4 : (k.hfHes (hfs.getD 0 0)).length = 4 := by
        rw [hfHes_length]; exact hv _ (getD_mem_lt hfs 0 (by omega))
      exact (hexReorder_walk k hfs l' h4 e2).1
  unfold hexConvB
  rw [hcell, conv_congr (hexAddCell_edges k hfs true) hf]
  unfold hexConvListB hexWalkB
  rw [hl6, hopp, hwalk]; rfl

/-! ### histories through the public API: the vertex-based path needs no "created in convention" assumption -/

/-- what is asked of a call besides `HexOpOK`: for `add_cell(8 vertices)` the primitive conditions of
    `hexAddCellV_conv` (distinct vertices, unique edges among them, found faces are loops); for the topology-checked
    `add_cell(halffaces)` only that the first two halffaces are proper loop quads when the list is accepted as given
    (`hexAddCell_checked_conv`, since 7800c85); the UNCHECKED `add_cell(halffaces, false)` stores what it is given,
    there "in convention" stays the caller's obligation (`ConvOpOK`); `set_*` not covered -/
def ApiOpOK (k : Kernel) : HexOp → Prop
  | .addCellV _ vs => vs.Nodup ∧ UniqEdges k vs ∧
      ∀ I ∈ cellVFind, ∀ x, k.findHalffaceExtensive (hexPick vs I) = some x → HfLoop k x
  | .base (.addCell true hfs) => k.hexCheckOrdering hfs = true → ProperQuad k (hfs.getD 0 0) ∧ ProperQuad k (hfs.getD 1 0)
  | op => ConvOpOK k op

theorem convOpOK_of_api (k : Kernel) (op : HexOp) (hi : GInv k) (hok : HexOpOK k op) (h : ApiOpOK k op) : ConvOpOK k op := by
  cases op with
  | addCellV chk vs =>
    intro c hc
    exact hexAddCellV_conv k vs chk hi hok.1 h.1 h.2.1 h.2.2 c hc
  | base op =>
    cases op with
    | addCell chk hfs =>
      cases chk with
      | true => intro c hc; exact hexAddCell_checked_conv k hfs c hc h
      | false => exact h
    | _ => exact h

def ApiHistoryOK : Kernel → List HexOp → Prop
  | _, [] => True
  | k, op :: t => (HexOpOK k op ∧ ApiOpOK k op) ∧ ApiHistoryOK (hexStep k op) t

/-- **every live cell is in convention along every history of valid calls in which the cells come from
    `add_cell(8 vertices)`** (or from halfface lists that are in convention) — all deletion modes -/
theorem conv_run_api (ops : List HexOp) (k : Kernel) (hi : GInv k) (hq : ConvAll k) (hr : ApiHistoryOK k ops) :
    GInv (hexRun k ops) ∧ ConvAll (hexRun k ops) := by
  induction ops generalizing k with
  | nil => exact ⟨hi, hq⟩
  | cons op t ih =>
    simp only [hexRun, List.foldl_cons]
    exact ih _ (ginv_hexStep k op hi hr.1.1)
      (convAll_hexStep k op hi hr.1.1 (convOpOK_of_api k op hi hr.1.1 hr.1.2) hq) hr.2

/-! Boolean forms -/

def joinsB (k : Kernel) (a b i : Nat) : Bool := k.liveE i && (k.edgeAt i == (a, b) || k.edgeAt i == (b, a))

def uniqEdgesB (k : Kernel) (U : List Nat) : Bool :=
  U.all (fun a => U.all (fun b => (List.range k.nE).all (fun i => (List.range k.nE).all (fun j =>
    !(joinsB k a b i && joinsB k a b j) || i == j))))

theorem joinsB_of {k : Kernel} {a b i : Nat} (h : Joins k a b i) : joinsB k a b i = true := by
  unfold joinsB; rw [h.1]
  rcases h.2 with e | e <;> simp [e]

theorem uniqEdges_of_B {k : Kernel} {U : List Nat} (h : uniqEdgesB k U = true) : UniqEdges k U := by
  intro i j a b ha hb hi hj
  unfold uniqEdgesB at h
  simp only [List.all_eq_true, List.mem_range] at h
  have := h a ha b hb i (joins_lt hi) j (joins_lt hj)
  rw [joinsB_of hi, joinsB_of hj] at this
  simpa using this

def hfLoopB (k : Kernel) (x : Nat) : Bool :=
  (List.range 4).all (fun j => k.toV ((k.hfHes x).getD j 0) == k.fromV ((k.hfHes x).getD ((j + 1) % 4) 0))

theorem hfLoop_of_B {k : Kernel} {x : Nat} (h : hfLoopB k x = true) : HfLoop k x := by
  intro j hj
  unfold hfLoopB at h
  simp only [List.all_eq_true, List.mem_range, beq_iff_eq] at h
  exact h j hj

def properQuadB (k : Kernel) (x : Nat) : Bool := hfLoopB k x && decide (k.hfVerts x).Nodup

theorem properQuad_of_B {k : Kernel} {x : Nat} (h : properQuadB k x = true) : ProperQuad k x := by
  unfold properQuadB at h
  simp only [Bool.and_eq_true, decide_eq_true_eq] at h
  exact ⟨hfLoop_of_B h.1, h.2⟩

def apiOpOKB (k : Kernel) : HexOp → Bool
  | .addCellV _ vs => decide vs.Nodup && uniqEdgesB k vs &&
      cellVFind.all (fun I => match k.findHalffaceExtensive (hexPick vs I) with | some x => hfLoopB k x | none => true)
  | .base (.addCell true hfs) => !k.hexCheckOrdering hfs || (properQuadB k (hfs.getD 0 0) && properQuadB k (hfs.getD 1 0))
  | op => convOpOKB k op

theorem apiOpOK_of_B (k : Kernel) (op : HexOp) (h : apiOpOKB k op = true) : ApiOpOK k op := by
  cases op with
  | addCellV chk vs =>
    simp only [apiOpOKB, Bool.and_eq_true, decide_eq_true_eq, List.all_eq_true] at h
    refine ⟨h.1.1, uniqEdges_of_B h.1.2, fun I hI x hx => ?_⟩
    have := h.2 I hI
    rw [hx] at this
    exact hfLoop_of_B this
  | base op =>
    cases op with
    | addCell chk hfs =>
      cases chk with
      | true =>
        intro hc
        simp only [apiOpOKB, hc, Bool.not_true, Bool.false_or, Bool.and_eq_true] at h
        exact ⟨properQuad_of_B h.1, properQuad_of_B h.2⟩
      | false => exact convOpOK_of_B k _ (by simpa [apiOpOKB] using h)
    | _ => exact convOpOK_of_B k _ (by simpa [apiOpOKB] using h)

def apiHistoryOKB : Kernel → List HexOp → Bool
  | _, [] => true
  | k, op :: t => hexOpOKB k op && apiOpOKB k op && apiHistoryOKB (hexStep k op) t

theorem apiHistoryOK_of_B (k : Kernel) (ops : List HexOp) (h : apiHistoryOKB k ops = true) : ApiHistoryOK k ops := by
  induction ops generalizing k with
  | nil => trivial
  | cons op t ih =>
    simp only [apiHistoryOKB, Bool.and_eq_true] at h
    exact ⟨⟨hexOpOK_of_B k op h.1.1, apiOpOK_of_B k op h.1.2⟩, ih _ h.2⟩

end HexAll
end Kernel
end OVM

import OVM.Hex.Spec
import OVM.Kernel.Frames
import OVM.Refine.DeleteFrames
import OVM.Base.Bits
/-
  Lemmas about the hex model used by `OVM/Props/C16.lean` (proof-only file, core only).
-/
namespace OVM
namespace Kernel
open OVM.Gen.HexTables

/-! ### positions: `idxOf?` on duplicate-free lists -/

theorem idxOf?_eq (l : List Nat) (x : Nat) :
    idxOf? l x = if l.idxOf x < l.length then some (l.idxOf x) else none := by
  simp [idxOf?, List.idxOf]

theorem idxOf?_getElem_nodup (l : List Nat) (hn : l.Nodup) (i : Nat) (h : i < l.length) :
    idxOf? l l[i] = some i := by
  rw [idxOf?_eq, hn.idxOf_getElem i h]; simp [h]

theorem idxOf?_not_mem (l : List Nat) (x : Nat) (h : x ∉ l) : idxOf? l x = none := by
  rw [idxOf?_eq]; simp [List.idxOf_lt_length_iff, h]

/-! ### orientation, accessors, opposite halfface in a cell (hh:180-284) -/

theorem orientation_pos (k : Kernel) (c i : Nat) (hn : (k.cellAt c).Nodup) (hi : i < (k.cellAt c).length) :
    k.hexOrientation ((k.cellAt c)[i]) c = i := by
  unfold hexOrientation; rw [idxOf?_getElem_nodup _ hn i hi]

theorem orientation_invalid (k : Kernel) (c hf : Nat) (h : hf ∉ k.cellAt c) : k.hexOrientation hf c = INVALID := by
  unfold hexOrientation; rw [idxOf?_not_mem _ _ h]

theorem getOriented_pos (k : Kernel) (c o : Nat) (ho : o < 6) : k.getOrientedHalfface o c = (k.cellAt c)[o]? := by
  have : o = 0 ∨ o = 1 ∨ o = 2 ∨ o = 3 ∨ o = 4 ∨ o = 5 := by omega
  rcases this with rfl | rfl | rfl | rfl | rfl | rfl <;> rfl

theorem oppositeInCell_pos (k : Kernel) (c i : Nat) (hn : (k.cellAt c).Nodup) (hl : (k.cellAt c).length = 6)
    (hi : i < 6) : k.oppositeHalffaceInCell ((k.cellAt c)[i]'(by omega)) c = (k.cellAt c)[i ^^^ 1]? := by
  unfold oppositeHalffaceInCell
  rw [orientation_pos k c i hn (by omega)]
  have : i = 0 ∨ i = 1 ∨ i = 2 ∨ i = 3 ∨ i = 4 ∨ i = 5 := by omega
  rcases this with rfl | rfl | rfl | rfl | rfl | rfl <;> rfl

/-- `opposite_halfface_handle_in_cell` is an involution on the six halffaces of a cell -/
theorem oppositeInCell_involutive (k : Kernel) (c hf : Nat) (hn : (k.cellAt c).Nodup) (hl : (k.cellAt c).length = 6)
    (hm : hf ∈ k.cellAt c) :
    ∃ r, k.oppositeHalffaceInCell hf c = some r ∧ r ∈ k.cellAt c ∧ r ≠ hf ∧ k.oppositeHalffaceInCell r c = some hf := by
  obtain ⟨i, hi, rfl⟩ := List.getElem_of_mem hm
  have hi6 : i < 6 := by omega
  have hx : i ^^^ 1 < 6 := by
    have : i = 0 ∨ i = 1 ∨ i = 2 ∨ i = 3 ∨ i = 4 ∨ i = 5 := by omega
    rcases this with rfl | rfl | rfl | rfl | rfl | rfl <;> decide
  have hxx : (i ^^^ 1) ^^^ 1 = i := Nat.xor_assoc .. ▸ (by simp)
  refine ⟨(k.cellAt c)[i ^^^ 1]'(by omega), ?_, List.getElem_mem _, ?_, ?_⟩
  · rw [oppositeInCell_pos k c i hn hl hi6, List.getElem?_eq_getElem]
  · intro he
    have h1 := hn.idxOf_getElem (i ^^^ 1) (by omega)
    have h2 := hn.idxOf_getElem i hi
    rw [he, h2] at h1
    exact xor_one_ne i h1.symm
  · rw [oppositeInCell_pos k c (i ^^^ 1) hn hl hx]
    simp only [hxx]
    rw [List.getElem?_eq_getElem]

/-! ### frames of the base adds used below -/

@[simp] theorem addEdge_faces (k : Kernel) (a b : Nat) (d : Bool) : (k.addEdge a b d).1.faces = k.faces := by
  unfold addEdge; split <;> simp
@[simp] theorem addEdge_cells (k : Kernel) (a b : Nat) (d : Bool) : (k.addEdge a b d).1.cells = k.cells := by
  unfold addEdge; split <;> simp

theorem addFace_faces (k : Kernel) (hes : List Nat) (chk : Bool) :
    (k.addFace hes chk).1.cells = k.cells ∧
    (((k.addFace hes chk).2 = none ∧ (k.addFace hes chk).1 = k) ∨
     ((k.addFace hes chk).2 = some k.nF ∧ (k.addFace hes chk).1.faces = k.faces ++ [hes])) := by
  unfold addFace; split <;> simp

theorem addCell_cells (k : Kernel) (hfs : List Nat) (chk : Bool) :
    (k.addCell hfs chk).1.faces = k.faces ∧
    (((k.addCell hfs chk).2 = none ∧ (k.addCell hfs chk).1 = k) ∨
     ((k.addCell hfs chk).2 = some k.nC ∧ (k.addCell hfs chk).1.cells = k.cells ++ [hfs])) := by
  unfold addCell; split <;> simp

/-- the find-or-create loop of `add_face(vertices)` keeps faces and cells and yields one halfedge per pair -/
theorem foldl_pair_inv {β} (step : Kernel × List Nat → β → Kernel × List Nat)
    (h : ∀ st x, (step st x).1.faces = st.1.faces ∧ (step st x).1.cells = st.1.cells ∧ (step st x).2.length = st.2.length + 1)
    (xs : List β) (st : Kernel × List Nat) :
    (xs.foldl step st).1.faces = st.1.faces ∧ (xs.foldl step st).1.cells = st.1.cells ∧
    (xs.foldl step st).2.length = st.2.length + xs.length := by
  induction xs generalizing st with
  | nil => simp
  | cons x t ih =>
    simp only [List.foldl_cons, List.length_cons]
    obtain ⟨a, b, c⟩ := ih (step st x)
    obtain ⟨a', b', c'⟩ := h st x
    exact ⟨a.trans a', b.trans b', by omega⟩

theorem addFaceV_shape (k : Kernel) (vs : List Nat) :
    (k.addFaceV vs).1.cells = k.cells ∧
    ((k.addFaceV vs).1.faces = k.faces ∨ ∃ hes, hes.length = vs.length ∧ (k.addFaceV vs).1.faces = k.faces ++ [hes]) := by
  unfold addFaceV
  cases vs with
  | nil => simp
  | cons v0 t =>
    simp only []
    generalize hp : (v0 :: t).zip ((v0 :: t).tail ++ [v0]) = pairs
    have hlen : pairs.length = (v0 :: t).length := by rw [← hp]; simp
    have inv := foldl_pair_inv (fun (st : Kernel × List Nat) (ab : Nat × Nat) =>
        ((st.1.addEdge ab.1 ab.2 false).1,
         st.2 ++ [heOf (st.1.addEdge ab.1 ab.2 false).2 (if ((st.1.addEdge ab.1 ab.2 false).1.edgeAt (st.1.addEdge ab.1 ab.2 false).2).2 == ab.1 then 1 else 0)]))
      (by intro st x; simp) pairs (k, [])
    simp only [List.length_nil, Nat.zero_add] at inv
    obtain ⟨hf, hc, hl⟩ := inv
    obtain ⟨h1, h2⟩ := addFace_faces (List.foldl (fun (st : Kernel × List Nat) (ab : Nat × Nat) =>
        ((st.1.addEdge ab.1 ab.2 false).1,
         st.2 ++ [heOf (st.1.addEdge ab.1 ab.2 false).2 (if ((st.1.addEdge ab.1 ab.2 false).1.edgeAt (st.1.addEdge ab.1 ab.2 false).2).2 == ab.1 then 1 else 0)])) (k, []) pairs).1
      (List.foldl (fun (st : Kernel × List Nat) (ab : Nat × Nat) =>
        ((st.1.addEdge ab.1 ab.2 false).1,
         st.2 ++ [heOf (st.1.addEdge ab.1 ab.2 false).2 (if ((st.1.addEdge ab.1 ab.2 false).1.edgeAt (st.1.addEdge ab.1 ab.2 false).2).2 == ab.1 then 1 else 0)])) (k, []) pairs).2 false
    refine ⟨by rw [h1, hc], ?_⟩
    rcases h2 with ⟨_, h2⟩ | ⟨_, h2⟩
    · left; rw [h2, hf]
    · right; exact ⟨_, by rw [hl, hlen], by rw [h2, hf]⟩

/-! ### HexLen under the guarded adds -/

theorem HexLen.of_eq {k k' : Kernel} (h : HexLen k) (hf : k'.faces = k.faces) (hc : k'.cells = k.cells) : HexLen k' := by
  unfold HexLen at *; rw [hf, hc]; exact h

theorem HexLen.add_face {k k' : Kernel} (h : HexLen k) (hes : List Nat) (hl : hes.length = 4)
    (hf : k'.faces = k.faces ++ [hes]) (hc : k'.cells = k.cells) : HexLen k' := by
  unfold HexLen at *; rw [hf, hc]
  refine ⟨fun f hm => ?_, h.2⟩
  rcases List.mem_append.mp hm with hm | hm
  · exact h.1 f hm
  · simp at hm; rw [hm]; exact hl

theorem HexLen.add_cell {k k' : Kernel} (h : HexLen k) (hfs : List Nat) (hl : hfs.length = 6)
    (hf : k'.faces = k.faces) (hc : k'.cells = k.cells ++ [hfs]) : HexLen k' := by
  unfold HexLen at *; rw [hf, hc]
  refine ⟨h.1, fun c hm => ?_⟩
  rcases List.mem_append.mp hm with hm | hm
  · exact h.2 c hm
  · simp at hm; rw [hm]; exact hl

theorem hexAddFace_reject_unchanged (k : Kernel) (hes : List Nat) (chk : Bool)
    (h : (k.hexAddFace hes chk).2 = none) : (k.hexAddFace hes chk).1 = k := by
  unfold hexAddFace at h ⊢
  split
  · rfl
  · rename_i hl; simp only [hl] at h
    rcases (addFace_faces k hes chk).2 with ⟨_, e⟩ | ⟨e, _⟩
    · exact e
    · simp [e] at h

theorem hexAddFace_len (k : Kernel) (hes : List Nat) (chk : Bool) (h : HexLen k) : HexLen (k.hexAddFace hes chk).1 := by
  unfold hexAddFace
  split
  · exact h
  · rename_i hl
    have hl4 : hes.length = 4 := by simpa using hl
    obtain ⟨hc, hf⟩ := addFace_faces k hes chk
    rcases hf with ⟨_, e⟩ | ⟨_, e⟩
    · rw [e]; exact h
    · exact h.add_face hes hl4 e hc

theorem hexAddFaceV_len (k : Kernel) (vs : List Nat) (h : HexLen k) : HexLen (k.hexAddFaceV vs).1 := by
  unfold hexAddFaceV
  split
  · exact h
  · rename_i hl
    have hl4 : vs.length = 4 := by simpa using hl
    obtain ⟨hc, hf⟩ := addFaceV_shape k vs
    rcases hf with e | ⟨hes, hl', e⟩
    · exact h.of_eq e hc
    · exact h.add_face hes (hl'.trans hl4) e hc

/-- a four-vertex `add_face(vertices)` through the *base* function (as `add_cell(vertices)` calls it) -/
theorem addFaceV_len4 (k : Kernel) (vs : List Nat) (hl : vs.length = 4) (h : HexLen k) : HexLen (k.addFaceV vs).1 := by
  obtain ⟨hc, hf⟩ := addFaceV_shape k vs
  rcases hf with e | ⟨hes, hl', e⟩
  · exact h.of_eq e hc
  · exact h.add_face hes (hl'.trans hl) e hc

theorem hexFill_length (k : Kernel) (h0 : Nat) (hfs hes : List Nat) (st : Option (List (Option Nat) × Nat))
    (hst : ∀ p, st = some p → p.1.length = 6) :
    ∀ p, hes.foldl (k.hexFillStep h0 hfs) st = some p → p.1.length = 6 := by
  induction hes generalizing st with
  | nil => simpa using hst
  | cons he t ih =>
    simp only [List.foldl_cons]
    apply ih
    intro p hp
    unfold hexFillStep at hp
    split at hp
    · simp at hp
    · rename_i ord idx
      split at hp
      · simp at hp
      · simp only [Option.some.injEq] at hp
        rw [← hp]; simp [hst (ord, idx) rfl]

theorem filterMap_id_length_of_all_some (l : List (Option Nat)) (h : l.all (·.isSome) = true) :
    (l.filterMap id).length = l.length := by
  induction l with
  | nil => rfl
  | cons a t ih =>
    simp only [List.all_cons, Bool.and_eq_true] at h
    cases a with
    | none => simp at h
    | some x => simp [ih h.2]

theorem hexReorder_length (k : Kernel) (hfs ord : List Nat) (h : k.hexReorder hfs = some ord) : ord.length = 6 := by
  unfold hexReorder at h
  simp only [] at h
  split at h
  · simp at h
  · rename_i o idx heq
    have hl := hexFill_length k _ hfs _ _ (by intro p hp; simp only [Option.some.injEq] at hp; rw [← hp]; simp) _ heq
    split at h
    · simp at h
    · split at h
      · rename_i hall
        simp only [Option.some.injEq] at h
        rw [← h, filterMap_id_length_of_all_some _ hall]; simpa using hl
      · simp at h

theorem hexAddCell_reject_unchanged (k : Kernel) (hfs : List Nat) (chk : Bool)
    (h : (k.hexAddCell hfs chk).2 = none) : (k.hexAddCell hfs chk).1 = k := by
  have key : ∀ l c, (k.addCell l c).2 = none → (k.addCell l c).1 = k := by
    intro l c hn
    rcases (addCell_cells k l c).2 with ⟨_, e⟩ | ⟨e, _⟩
    · exact e
    · simp [e] at hn
  unfold hexAddCell at h ⊢
  repeat' split
  all_goals first | rfl | (apply key; simp_all)

/-- what an accepted hex `add_cell(halffaces)` stores -/
theorem hexAddCell_accept (k : Kernel) (hfs : List Nat) (chk : Bool) (c : Nat)
    (h : (k.hexAddCell hfs chk).2 = some c) :
    c = k.nC ∧ (k.hexAddCell hfs chk).1.faces = k.faces ∧
    ∃ l, (k.hexAddCell hfs chk).1.cells = k.cells ++ [l] ∧ l.length = 6 ∧
      (∀ hf ∈ hfs, (k.faceAt (eOf hf)).length = 4) ∧
      (chk = false ∧ l = hfs ∨ chk = true ∧ l = hfs ∧ k.hexCheckOrdering hfs = true ∨
       chk = true ∧ k.hexCheckOrdering hfs = false ∧ k.hexReorder hfs = some l) := by
  have key : ∀ l b, (k.addCell l b).2 = some c → c = k.nC ∧ (k.addCell l b).1.faces = k.faces ∧ (k.addCell l b).1.cells = k.cells ++ [l] := by
    intro l b hs
    obtain ⟨hf, hc⟩ := addCell_cells k l b
    rcases hc with ⟨e, _⟩ | ⟨e, e2⟩
    · simp [e] at hs
    · rw [e] at hs; exact ⟨by simpa using hs.symm, hf, e2⟩
  unfold hexAddCell at h ⊢
  split at h
  · simp at h
  · rename_i hl6
    have hl : hfs.length = 6 := by simpa using hl6
    split at h
    · simp at h
    · rename_i hval
      have hv : ∀ hf ∈ hfs, (k.faceAt (eOf hf)).length = 4 := by
        intro hf hm
        have := hval
        simp only [List.any_eq_true, not_exists, not_and, Bool.not_eq_true] at this
        simpa using this hf hm
      simp only [hl6, hval, if_false, Bool.false_eq_true]
      split at h
      · rename_i hc
        simp only [hc, if_true]
        obtain ⟨a, b, d⟩ := key _ _ h
        have hcf : chk = false := by simpa using hc
        exact ⟨a, b, hfs, d, hl, hv, Or.inl ⟨hcf, rfl⟩⟩
      · rename_i hc
        have hct : chk = true := by simpa using hc
        simp only [hc, if_false, Bool.false_eq_true]
        split at h
        · rename_i hco
          simp only [hco, if_true]
          obtain ⟨a, b, d⟩ := key _ _ h
          exact ⟨a, b, hfs, d, hl, hv, Or.inr (Or.inl ⟨hct, rfl, hco⟩)⟩
        · rename_i hco
          simp only [hco, if_false, Bool.false_eq_true]
          split at h
          · simp at h
          · rename_i ord hre
            simp only [hre]
            obtain ⟨a, b, d⟩ := key _ _ h
            exact ⟨a, b, ord, d, hexReorder_length k hfs ord hre, hv, Or.inr (Or.inr ⟨hct, by simpa using hco, hre⟩)⟩

theorem hexAddCell_len (k : Kernel) (hfs : List Nat) (chk : Bool) (h : HexLen k) : HexLen (k.hexAddCell hfs chk).1 := by
  cases hr : (k.hexAddCell hfs chk).2 with
  | none => rw [hexAddCell_reject_unchanged k hfs chk hr]; exact h
  | some c =>
    obtain ⟨_, hf, l, hc, hl, _⟩ := hexAddCell_accept k hfs chk c hr
    exact h.add_cell l hl hf hc

end Kernel
end OVM

import OVM.Hex.Spec
import OVM.Kernel.Frames
import OVM.Refine.DeleteFrames
import OVM.Base.Bits
/-
  Lemmas about the hex model used by `OVM/Props/C16.lean` (proof-only file, core only).
-/
namespace OVM
namespace Kernel
open OVM.Gen.HexTables

/-! ### positions: `idxOf?` on duplicate-free lists -/

theorem idxOf?_eq (l : List Nat) (x : Nat) :
    idxOf? l x = if l.idxOf x < l.length then some (l.idxOf x) else none := by
  simp [idxOf?, List.idxOf]

theorem idxOf?_getElem_nodup (l : List Nat) (hn : l.Nodup) (i : Nat) (h : i < l.length) :
    idxOf? l l[i] = some i := by
  rw [idxOf?_eq, hn.idxOf_getElem i h]; simp [h]

theorem idxOf?_not_mem (l : List Nat) (x : Nat) (h : x ∉ l) : idxOf? l x = none := by
  rw [idxOf?_eq]; simp [List.idxOf_lt_length_iff, h]

/-! ### orientation, accessors, opposite halfface in a cell (hh:180-284) -/

theorem orientation_pos (k : Kernel) (c i : Nat) (hn : (k.cellAt c).Nodup) (hi : i < (k.cellAt c).length) :
    k.hexOrientation ((k.cellAt c)[i]) c = i := by
  unfold hexOrientation; rw [idxOf?_getElem_nodup _ hn i hi]

theorem orientation_invalid (k : Kernel) (c hf : Nat) (h : hf ∉ k.cellAt c) : k.hexOrientation hf c = INVALID := by
  unfold hexOrientation; rw [idxOf?_not_mem _ _ h]

theorem getOriented_pos (k : Kernel) (c o : Nat) (ho : o < 6) : k.getOrientedHalfface o c = (k.cellAt c)[o]? := by
  have : o = 0 ∨ o = 1 ∨ o = 2 ∨ o = 3 ∨ o = 4 ∨ o = 5 := by omega
  rcases this with rfl | rfl | rfl | rfl | rfl | rfl <;> rfl

theorem oppositeInCell_pos (k : Kernel) (c i : Nat) (hn : (k.cellAt c).Nodup) (hl : (k.cellAt c).length = 6)
    (hi : i < 6) : k.oppositeHalffaceInCell ((k.cellAt c)[i]'(by omega)) c = (k.cellAt c)[i ^^^ 1]? := by
  unfold oppositeHalffaceInCell
  rw [orientation_pos k c i hn (by omega)]
  have : i = 0 ∨ i = 1 ∨ i = 2 ∨ i = 3 ∨ i = 4 ∨ i = 5 := by omega
  rcases this with rfl | rfl | rfl | rfl | rfl | rfl <;> rfl

/-- `opposite_halfface_handle_in_cell` is an involution on the six halffaces of a cell -/
theorem oppositeInCell_involutive (k : Kernel) (c hf : Nat) (hn : (k.cellAt c).Nodup) (hl : (k.cellAt c).length = 6)
    (hm : hf ∈ k.cellAt c) :
    ∃ r, k.oppositeHalffaceInCell hf c = some r ∧ r ∈ k.cellAt c ∧ r ≠ hf ∧ k.oppositeHalffaceInCell r c = some hf := by
  obtain ⟨i, hi, rfl⟩ := List.getElem_of_mem hm
  have hi6 : i < 6 := by omega
  have hx : i ^^^ 1 < 6 := by
    have : i = 0 ∨ i = 1 ∨ i = 2 ∨ i = 3 ∨ i = 4 ∨ i = 5 := by omega
    rcases this with rfl | rfl | rfl | rfl | rfl | rfl <;> decide
  have hxx : (i ^^^ 1) ^^^ 1 = i := Nat.xor_assoc .. ▸ (by simp)
  refine ⟨(k.cellAt c)[i ^^^ 1]'(by omega), ?_, List.getElem_mem _, ?_, ?_⟩
  · rw [oppositeInCell_pos k c i hn hl hi6, List.getElem?_eq_getElem]
  · intro he
    have h1 := hn.idxOf_getElem (i ^^^ 1) (by omega)
    have h2 := hn.idxOf_getElem i hi
    rw [he, h2] at h1
    exact xor_one_ne i h1.symm
  · rw [oppositeInCell_pos k c (i ^^^ 1) hn hl hx]
    simp only [hxx]
    rw [List.getElem?_eq_getElem]

/-! ### frames of the base adds used below -/

@[simp] theorem addEdge_faces (k : Kernel) (a b : Nat) (d : Bool) : (k.addEdge a b d).1.faces = k.faces := by
  unfold addEdge; split <;> simp
@[simp] theorem addEdge_cells (k : Kernel) (a b : Nat) (d : Bool) : (k.addEdge a b d).1.cells = k.cells := by
  unfold addEdge; split <;> simp

theorem addFace_faces (k : Kernel) (hes : List Nat) (chk : Bool) :
    (k.addFace hes chk).1.cells = k.cells ∧
    (((k.addFace hes chk).2 = none ∧ (k.addFace hes chk).1 = k) ∨
     ((k.addFace hes chk).2 = some k.nF ∧ (k.addFace hes chk).1.faces = k.faces ++ [hes])) := by
  unfold addFace; split <;> simp

theorem addCell_cells (k : Kernel) (hfs : List Nat) (chk : Bool) :
    (k.addCell hfs chk).1.faces = k.faces ∧
    (((k.addCell hfs chk).2 = none ∧ (k.addCell hfs chk).1 = k) ∨
     ((k.addCell hfs chk).2 = some k.nC ∧ (k.addCell hfs chk).1.cells = k.cells ++ [hfs])) := by
  unfold addCell; split <;> simp

/-- the find-or-create loop of `add_face(vertices)` keeps faces and cells and yields one halfedge per pair -/
private theorem foldl_pair_inv {β} (step : Kernel × List Nat → β → Kernel × List Nat)
    (h : ∀ st x, (step st x).1.faces = st.1.faces ∧ (step st x).1.cells = st.1.cells ∧ (step st x).2.length = st.2.length + 1)
    (xs : List β) (st : Kernel × List Nat) :
    (xs.foldl step st).1.faces = st.1.faces ∧ (xs.foldl step st).1.cells = st.1.cells ∧
    (xs.foldl step st).2.length = st.2.length + xs.length := by
  induction xs generalizing st with
  | nil => simp
  | cons x t ih =>
    simp only [List.foldl_cons, List.length_cons]
    obtain ⟨a, b, c⟩ := ih (step st x)
    obtain ⟨a', b', c'⟩ := h st x
    exact ⟨a.trans a', b.trans b', by omega⟩

theorem addFaceV_shape (k : Kernel) (vs : List Nat) :
    (k.addFaceV vs).1.cells = k.cells ∧
    ((k.addFaceV vs).1.faces = k.faces ∨ ∃ hes, hes.length = vs.length ∧ (k.addFaceV vs).1.faces = k.faces ++ [hes]) := by
  unfold addFaceV
  cases vs with
  | nil => simp
  | cons v0 t =>
    simp only []
    generalize hp : (v0 :: t).zip ((v0 :: t).tail ++ [v0]) = pairs
    have hlen : pairs.length = (v0 :: t).length := by rw [← hp]; simp
    have inv := foldl_pair_inv (fun (st : Kernel × List Nat) (ab : Nat × Nat) =>
        ((st.1.addEdge ab.1 ab.2 false).1,
         st.2 ++ [heOf (st.1.addEdge ab.1 ab.2 false).2 (if ((st.1.addEdge ab.1 ab.2 false).1.edgeAt (st.1.addEdge ab.1 ab.2 false).2).2 == ab.1 then 1 else 0)]))
      (by intro st x; simp) pairs (k, [])
    simp only [List.length_nil, Nat.zero_add] at inv
    obtain ⟨hf, hc, hl⟩ := inv
    obtain ⟨h1, h2⟩ := addFace_faces (List.foldl (fun (st : Kernel × List Nat) (ab : Nat × Nat) =>
        ((st.1.addEdge ab.1 ab.2 false).1,
         st.2 ++ [heOf (st.1.addEdge ab.1 ab.2 false).2 (if ((st.1.addEdge ab.1 ab.2 false).1.edgeAt (st.1.addEdge ab.1 ab.2 false).2).2 == ab.1 then 1 else 0)])) (k, []) pairs).1
      (List.foldl (fun (st : Kernel × List Nat) (ab : Nat × Nat) =>
        ((st.1.addEdge ab.1 ab.2 false).1,
         st.2 ++ [heOf (st.1.addEdge ab.1 ab.2 false).2 (if ((st.1.addEdge ab.1 ab.2 false).1.edgeAt (st.1.addEdge ab.1 ab.2 false).2).2 == ab.1 then 1 else 0)])) (k, []) pairs).2 false
    refine ⟨by rw [h1, hc], ?_⟩
    rcases h2 with ⟨_, h2⟩ | ⟨_, h2⟩
    · left; rw [h2, hf]
    · right; exact ⟨_, by rw [hl, hlen], by rw [h2, hf]⟩

/-! ### HexLen under the guarded adds -/

theorem HexLen.of_eq {k k' : Kernel} (h : HexLen k) (hf : k'.faces = k.faces) (hc : k'.cells = k.cells) : HexLen k' := by
  unfold HexLen at *; rw [hf, hc]; exact h

theorem HexLen.add_face {k k' : Kernel} (h : HexLen k) (hes : List Nat) (hl : hes.length = 4)
    (hf : k'.faces = k.faces ++ [hes]) (hc : k'.cells = k.cells) : HexLen k' := by
  unfold HexLen at *; rw [hf, hc]
  refine ⟨fun f hm => ?_, h.2⟩
  rcases List.mem_append.mp hm with hm | hm
  · exact h.1 f hm
  · simp at hm; rw [hm]; exact hl

theorem HexLen.add_cell {k k' : Kernel} (h : HexLen k) (hfs : List Nat) (hl : hfs.length = 6)
    (hf : k'.faces = k.faces) (hc : k'.cells = k.cells ++ [hfs]) : HexLen k' := by
  unfold HexLen at *; rw [hf, hc]
  refine ⟨h.1, fun c hm => ?_⟩
  rcases List.mem_append.mp hm with hm | hm
  · exact h.2 c hm
  · simp at hm; rw [hm]; exact hl

theorem hexAddFace_reject_unchanged (k : Kernel) (hes : List Nat) (chk : Bool)
    (h : (k.hexAddFace hes chk).2 = none) : (k.hexAddFace hes chk).1 = k := by
  unfold hexAddFace at h ⊢
  split
  · rfl
  · rename_i hl; simp only [hl] at h
    rcases (addFace_faces k hes chk).2 with ⟨_, e⟩ | ⟨e, _⟩
    · exact e
    · simp [e] at h

theorem hexAddFace_len (k : Kernel) (hes : List Nat) (chk : Bool) (h : HexLen k) : HexLen (k.hexAddFace hes chk).1 := by
  unfold hexAddFace
  split
  · exact h
  · rename_i hl
    have hl4 : hes.length = 4 := by simpa using hl
    obtain ⟨hc, hf⟩ := addFace_faces k hes chk
    rcases hf with ⟨_, e⟩ | ⟨_, e⟩
    · rw [e]; exact h
    · exact h.add_face hes hl4 e hc

theorem hexAddFaceV_len (k : Kernel) (vs : List Nat) (h : HexLen k) : HexLen (k.hexAddFaceV vs).1 := by
  unfold hexAddFaceV
  split
  · exact h
  · rename_i hl
    have hl4 : vs.length = 4 := by simpa using hl
    obtain ⟨hc, hf⟩ := addFaceV_shape k vs
    rcases hf with e | ⟨hes, hl', e⟩
    · exact h.of_eq e hc
    · exact h.add_face hes (hl'.trans hl4) e hc

/-- a four-vertex `add_face(vertices)` through the *base* function (as `add_cell(vertices)` calls it) -/
theorem addFaceV_len4 (k : Kernel) (vs : List Nat) (hl : vs.length = 4) (h : HexLen k) : HexLen (k.addFaceV vs).1 := by
  obtain ⟨hc, hf⟩ := addFaceV_shape k vs
  rcases hf with e | ⟨hes, hl', e⟩
  · exact h.of_eq e hc
  · exact h.add_face hes (hl'.trans hl) e hc

theorem hexFill_length (k : Kernel) (h0 : Nat) (hfs hes : List Nat) (st : Option (List (Option Nat) × Nat))
    (hst : ∀ p, st = some p → p.1.length = 6) :
    ∀ p, hes.foldl (k.hexFillStep h0 hfs) st = some p → p.1.length = 6 := by
  induction hes generalizing st with
  | nil => simpa using hst
  | cons he t ih =>
    simp only [List.foldl_cons]
    apply ih
    intro p hp
    unfold hexFillStep at hp
    split at hp
    · simp at hp
    · rename_i ord idx
      split at hp
      · simp at hp
      · simp only [Option.some.injEq] at hp
        rw [← hp]; simp [hst (ord, idx) rfl]

theorem filterMap_id_length_of_all_some (l : List (Option Nat)) (h : l.all (·.isSome) = true) :
    (l.filterMap id).length = l.length := by
  induction l with
  | nil => rfl
  | cons a t ih =>
    simp only [List.all_cons, Bool.and_eq_true] at h
    cases a with
    | none => simp at h
    | some x => simp [ih h.2]

theorem hexReorder_length (k : Kernel) (hfs ord : List Nat) (h : k.hexReorder hfs = some ord) : ord.length = 6 := by
  unfold hexReorder at h
  simp only [] at h
  split at h
  · simp at h
  · rename_i o idx heq
    have hl := hexFill_length k _ hfs _ _ (by intro p hp; simp only [Option.some.injEq] at hp; rw [← hp]; simp) _ heq
    split at h
    · simp at h
    · split at h
      · rename_i hall
        simp only [Option.some.injEq] at h
        rw [← h, filterMap_id_length_of_all_some _ hall]; simpa using hl
      · simp at h

theorem hexAddCell_reject_unchanged (k : Kernel) (hfs : List Nat) (chk : Bool)
    (h : (k.hexAddCell hfs chk).2 = none) : (k.hexAddCell hfs chk).1 = k := by
  have key : ∀ l c, (k.addCell l c).2 = none → (k.addCell l c).1 = k := by
    intro l c hn
    rcases (addCell_cells k l c).2 with ⟨_, e⟩ | ⟨e, _⟩
    · exact e
    · simp [e] at hn
  unfold hexAddCell at h ⊢
  repeat' split
  all_goals first | rfl | (apply key; simp_all)

/-- what an accepted hex `add_cell(halffaces)` stores -/
theorem hexAddCell_accept (k : Kernel) (hfs : List Nat) (chk : Bool) (c : Nat)
    (h : (k.hexAddCell hfs chk).2 = some c) :
    c = k.nC ∧ (k.hexAddCell hfs chk).1.faces = k.faces ∧
    ∃ l, (k.hexAddCell hfs chk).1.cells = k.cells ++ [l] ∧ l.length = 6 ∧
      (∀ hf ∈ hfs, (k.faceAt (eOf hf)).length = 4) ∧
      (chk = false ∧ l = hfs ∨ chk = true ∧ l = hfs ∧ k.hexCheckOrdering hfs = true ∨
       chk = true ∧ k.hexCheckOrdering hfs = false ∧ k.hexReorder hfs = some l) := by
  have key : ∀ l b, (k.addCell l b).2 = some c → c = k.nC ∧ (k.addCell l b).1.faces = k.faces ∧ (k.addCell l b).1.cells = k.cells ++ [l] := by
    intro l b hs
    obtain ⟨hf, hc⟩ := addCell_cells k l b
    rcases hc with ⟨e, _⟩ | ⟨e, e2⟩
    · simp [e] at hs
    · rw [e] at hs; exact ⟨by simpa using hs.symm, hf, e2⟩
  unfold hexAddCell at h ⊢
  split at h
  · simp at h
  · rename_i hl6
    have hl : hfs.length = 6 := by simpa using hl6
    split at h
    · simp at h
    · rename_i hval
      have hv : ∀ hf ∈ hfs, (k.faceAt (eOf hf)).length = 4 := by
        intro hf hm
        have := hval
        simp only [List.any_eq_true, not_exists, not_and, Bool.not_eq_true] at this
        simpa using this hf hm
      split at h
      · simp at h
      · rename_i hspan
        simp only [hl6, hval, hspan, if_false, Bool.false_eq_true]
        split at h
        · rename_i hc
          simp only [hc, if_true]
          obtain ⟨a, b, d⟩ := key _ _ h
          have hcf : chk = false := by simpa using hc
          exact ⟨a, b, hfs, d, hl, hv, Or.inl ⟨hcf, rfl⟩⟩
        · rename_i hc
          have hct : chk = true := by simpa using hc
          simp only [hc, if_false, Bool.false_eq_true]
          split at h
          · rename_i hco
            simp only [hco, if_true]
            split at h
            · rename_i hop
              simp only [hop, if_true]
              obtain ⟨a, b, d⟩ := key _ _ h
              exact ⟨a, b, hfs, d, hl, hv, Or.inr (Or.inl ⟨hct, rfl, by first | rfl | trivial | exact hco⟩)⟩
            · simp at h
          · rename_i hco
            simp only [hco, if_false, Bool.false_eq_true]
            split at h
            · simp at h
            · rename_i ord hre
              simp only [hre]
              split at h
              · rename_i hop
                simp only [hop, if_true]
                obtain ⟨a, b, d⟩ := key _ _ h
                exact ⟨a, b, ord, d, hexReorder_length k hfs ord hre, hv, Or.inr (Or.inr ⟨hct, by first | (simp at hco; simp [hco]; done) | simp | trivial, by first | rfl | exact hre⟩)⟩
              · simp at h

/-- 7b999c9: an accepted call was given six quads that span exactly eight distinct vertices -/
theorem hexAddCell_accept_span (k : Kernel) (hfs : List Nat) (chk : Bool) (c : Nat)
    (h : (k.hexAddCell hfs chk).2 = some c) : k.spanVertCount hfs = 8 := by
  unfold hexAddCell at h
  split at h
  · simp at h
  · split at h
    · simp at h
    · split at h
      · simp at h
      · rename_i hspan; simpa using hspan

/-- 7800c85: on the checked path the list handed to the base class has vertex-disjoint opposite pairs -/
theorem hexAddCell_accept_opp (k : Kernel) (hfs : List Nat) (c : Nat)
    (h : (k.hexAddCell hfs true).2 = some c) :
    (k.hexCheckOrdering hfs = true ∧ k.oppPairsDisjoint hfs = true) ∨
    (k.hexCheckOrdering hfs = false ∧ ∃ ord, k.hexReorder hfs = some ord ∧ k.oppPairsDisjoint ord = true) := by
  unfold hexAddCell at h
  split at h
  · simp at h
  · split at h
    · simp at h
    · split at h
      · simp at h
      · simp only [Bool.not_true, Bool.false_eq_true, if_false] at h
        split at h
        · rename_i hco
          split at h
          · rename_i hop; exact Or.inl ⟨hco, hop⟩
          · simp at h
        · rename_i hco
          split at h
          · simp at h
          · rename_i ord hre
            split at h
            · rename_i hop; exact Or.inr ⟨by simpa using hco, ord, hre, hop⟩
            · simp at h

/-- an accepted call IS a base-class call on the stored list `l`: the given list (unchecked, or accepted by
    `check_halfface_ordering`) or its re-ordering; on the checked path `l` passed the guard of 7800c85 -/
theorem hexAddCell_eq_addCell (k : Kernel) (hfs : List Nat) (chk : Bool) (c : Nat)
    (h : (k.hexAddCell hfs chk).2 = some c) :
    ∃ l, k.hexAddCell hfs chk = k.addCell l chk ∧
      ((l = hfs ∧ (chk = true → k.hexCheckOrdering hfs = true)) ∨
       (chk = true ∧ k.hexCheckOrdering hfs = false ∧ k.hexReorder hfs = some l)) ∧
      (chk = true → k.oppPairsDisjoint l = true) := by
  obtain ⟨_, _, _, _, _, hv, _⟩ := hexAddCell_accept k hfs chk c h
  have hsp : (k.spanVertCount hfs != 8) = false := by rw [hexAddCell_accept_span k hfs chk c h]; rfl
  have hlen : (hfs.length != 6) = false := by
    unfold hexAddCell at h; split at h
    · simp at h
    · rename_i h6; simpa using h6
  have hval : hfs.any (fun hf => (k.faceAt (eOf hf)).length != 4) = false := by
    rw [List.any_eq_false]; intro x hx; simp [hv x hx]
  cases chk with
  | false =>
    refine ⟨hfs, ?_, Or.inl ⟨rfl, fun e => by cases e⟩, fun e => by cases e⟩
    unfold hexAddCell
    simp only [hlen, hval, hsp, Bool.false_eq_true, if_false, Bool.not_false, if_true]
  | true =>
    rcases hexAddCell_accept_opp k hfs c h with ⟨hco, hop⟩ | ⟨hco, ord, hre, hop⟩
    · refine ⟨hfs, ?_, Or.inl ⟨rfl, fun _ => hco⟩, fun _ => hop⟩
      unfold hexAddCell
      simp only [hlen, hval, hsp, Bool.false_eq_true, if_false, Bool.not_true, hco, hop, if_true]
    · refine ⟨ord, ?_, Or.inr ⟨rfl, hco, hre⟩, fun _ => hop⟩
      unfold hexAddCell
      simp only [hlen, hval, hsp, Bool.false_eq_true, if_false, Bool.not_true, hco, hre, hop, if_true]

theorem hexAddCell_len (k : Kernel) (hfs : List Nat) (chk : Bool) (h : HexLen k) : HexLen (k.hexAddCell hfs chk).1 := by
  cases hr : (k.hexAddCell hfs chk).2 with
  | none => rw [hexAddCell_reject_unchanged k hfs chk hr]; exact h
  | some c =>
    obtain ⟨_, hf, l, hc, hl, _⟩ := hexAddCell_accept k hfs chk c hr
    exact h.add_cell l hl hf hc

/-! ### add_cell(vertices) -/

theorem hexCellVStep_len (vs : List Nat) (st : Kernel × List (Option Nat)) (a : Nat × List Nat × Nat)
    (hl : a.2.1.length = 4) (h : HexLen st.1) : HexLen (hexCellVStep vs st a).1 := by
  unfold hexCellVStep
  split
  · exact h
  · exact addFaceV_len4 _ _ (by simp [hexPick, hl]) h

theorem hexCellV_fold_len (vs : List Nat) (adds : List (Nat × List Nat × Nat)) (hl : ∀ a ∈ adds, a.2.1.length = 4)
    (st : Kernel × List (Option Nat)) (h : HexLen st.1) : HexLen (adds.foldl (hexCellVStep vs) st).1 := by
  induction adds generalizing st with
  | nil => exact h
  | cons a t ih =>
    simp only [List.foldl_cons]
    exact ih (fun b hb => hl b (List.mem_cons_of_mem _ hb)) _ (hexCellVStep_len vs st a (hl a (List.mem_cons_self ..)) h)

theorem cellVAdd_quads : ∀ a ∈ cellVAdd, a.2.1.length = 4 := by decide
theorem cellVOrder_six : cellVOrder.length = 6 := by decide

theorem hexAddCellV_len (k : Kernel) (vs : List Nat) (chk : Bool) (h : HexLen k) : HexLen (k.hexAddCellV vs chk).1 := by
  unfold hexAddCellV
  split
  · exact h
  · split
    · exact h
    · simp only []
      have h1 := hexCellV_fold_len vs cellVAdd cellVAdd_quads (k, cellVFind.map (fun idxs => k.findHalffaceExtensive (hexPick vs idxs))) h
      generalize (cellVAdd.foldl (hexCellVStep vs) (k, cellVFind.map (fun idxs => k.findHalffaceExtensive (hexPick vs idxs)))) = st at h1 ⊢
      split
      · exact h1.of_eq rfl rfl
      · rename_i hsome
        have hall : (cellVOrder.map (fun i => st.2.getD i none)).all (·.isSome) = true := by
          simp only [List.any_eq_true, not_exists, not_and, Bool.not_eq_true] at hsome
          rw [List.all_eq_true]
          intro x hx
          have := hsome x hx
          cases x <;> simp_all
        have hl6 : ((cellVOrder.map (fun i => st.2.getD i none)).filterMap id).length = 6 := by
          rw [filterMap_id_length_of_all_some _ hall]; simp [cellVOrder_six]
        have key : HexLen (st.1.addCell ((cellVOrder.map (fun i => st.2.getD i none)).filterMap id) false).1 := by
          obtain ⟨hf, hc⟩ := addCell_cells st.1 ((cellVOrder.map (fun i => st.2.getD i none)).filterMap id) false
          rcases hc with ⟨_, e⟩ | ⟨_, e⟩
          · rw [e]; exact h1
          · exact h1.add_cell _ hl6 hf e
        repeat' split
        all_goals first | exact key | exact h1

/-! ### HexLen under index swaps, `delete_cell`, and deferred deletion -/

def AllLen (n : Nat) (l : List (List Nat)) : Prop := ∀ x ∈ l, x.length = n

theorem hexLen_iff (k : Kernel) : HexLen k ↔ AllLen 4 k.faces ∧ AllLen 6 k.cells := Iff.rfl

theorem allLen_swapAt {n : Nat} {l : List (List Nat)} (h : AllLen n l) (i j : Nat) : AllLen n (swapAt l i j) := by
  unfold swapAt
  split
  · rename_i a b ha hb
    intro x hx
    rcases List.mem_or_eq_of_mem_set hx with hx | rfl
    · rcases List.mem_or_eq_of_mem_set hx with hx | rfl
      · exact h x hx
      · exact h _ (List.mem_of_getElem? hb)
    · exact h _ (List.mem_of_getElem? ha)
  · exact h

theorem allLen_modify {n : Nat} {l : List (List Nat)} (h : AllLen n l) (c : Nat) (g : List Nat → List Nat)
    (hg : ∀ x, (g x).length = x.length) : AllLen n (l.modify c g) := by
  induction l generalizing c with
  | nil => simpa using h
  | cons a t ih =>
    cases c with
    | zero =>
      intro x hx
      simp only [List.modify_zero_cons, List.mem_cons] at hx
      rcases hx with rfl | hx
      · rw [hg]; exact h a (List.mem_cons_self ..)
      · exact h x (List.mem_cons_of_mem _ hx)
    | succ c =>
      intro x hx
      simp only [List.modify_succ_cons, List.mem_cons] at hx
      rcases hx with rfl | hx
      · exact h _ (List.mem_cons_self ..)
      · exact ih (fun y hy => h y (List.mem_cons_of_mem _ hy)) c x hx

theorem allLen_foldl_modify {n : Nat} (g : List Nat → List Nat) (hg : ∀ x, (g x).length = x.length)
    (cs : List Nat) (l : List (List Nat)) (h : AllLen n l) : AllLen n (cs.foldl (fun acc c => acc.modify c g) l) := by
  induction cs generalizing l with
  | nil => exact h
  | cons c t ih => simp only [List.foldl_cons]; exact ih _ (allLen_modify h c g hg)

theorem allLen_eraseIdx {n : Nat} {l : List (List Nat)} (h : AllLen n l) (i : Nat) : AllLen n (l.eraseIdx i) :=
  fun x hx => h x (List.mem_of_mem_eraseIdx hx)

theorem swapVertex_len (k : Kernel) (a b : Nat) (h : HexLen k) : HexLen (k.swapVertex a b) :=
  h.of_eq (by simp) (by simp)

theorem swapCell_len (k : Kernel) (a b : Nat) (h : HexLen k) : HexLen (k.swapCell a b) := by
  unfold swapCell; split
  · exact h
  · exact ⟨h.1, allLen_swapAt h.2 a b⟩

theorem swapFace_len (k : Kernel) (a b : Nat) (h : HexLen k) : HexLen (k.swapFace a b) := by
  unfold swapFace; split
  · exact h
  · exact ⟨allLen_swapAt h.1 a b, allLen_foldl_modify _ (fun x => by simp) _ _ h.2⟩

theorem swapEdge_len (k : Kernel) (a b : Nat) (h : HexLen k) : HexLen (k.swapEdge a b) := by
  unfold swapEdge; split
  · exact h
  · exact ⟨allLen_foldl_modify _ (fun x => by simp) _ _ h.1, h.2⟩

/-- `delete_cell` in every deletion mode -/
theorem deleteCellCore_len (k : Kernel) (c : Nat) (h : HexLen k) : HexLen (k.deleteCellCore c) := by
  unfold deleteCellCore
  simp only []
  have h1 : HexLen (if (k.fast && !k.deferred) = true then k.swapCell c (k.nC - 1) else k) := by
    split
    · exact swapCell_len k _ _ h
    · exact h
  generalize (if (k.fast && !k.deferred) = true then k.swapCell c (k.nC - 1) else k) = k1 at h1 ⊢
  generalize (if (k.fast && !k.deferred) = true then k.nC - 1 else c) = c1
  have h2 : HexLen (k1.unlinkCell c1) := h1.of_eq (by simp) (by simp)
  split
  · exact h2.of_eq (by simp) (by simp)
  · have e := allLen_eraseIdx h2.2 c1
    exact ⟨by simpa using h2.1, by simpa [AllLen] using e⟩

/-- in deferred mode a `delete_*_core` only flags: no definition changes -/
def SameDefs (k k' : Kernel) : Prop := k'.faces = k.faces ∧ k'.cells = k.cells ∧ k'.deferred = true

theorem deleteCellCore_sameDefs (k0 k : Kernel) (c : Nat) (h : SameDefs k0 k) : SameDefs k0 (k.deleteCellCore c) := by
  obtain ⟨hf, hc, hd⟩ := h
  unfold deleteCellCore
  simp only [hd, Bool.not_true, Bool.and_false, Bool.false_eq_true, if_false, unlinkCell_deferred, if_true]
  exact ⟨by simp [hf], by simp [hc], by simp [hd]⟩

theorem deleteFaceCore_sameDefs (k0 k : Kernel) (c : Nat) (h : SameDefs k0 k) : SameDefs k0 (k.deleteFaceCore c) := by
  obtain ⟨hf, hc, hd⟩ := h
  unfold deleteFaceCore
  simp only [hd, Bool.not_true, Bool.and_false, Bool.false_eq_true, if_false, unlinkFace_deferred, if_true]
  exact ⟨by simp [hf], by simp [hc], by simp [hd]⟩

theorem deleteEdgeCore_sameDefs (k0 k : Kernel) (c : Nat) (h : SameDefs k0 k) : SameDefs k0 (k.deleteEdgeCore c) := by
  obtain ⟨hf, hc, hd⟩ := h
  unfold deleteEdgeCore
  simp only [hd, Bool.not_true, Bool.and_false, Bool.false_eq_true, if_false, unlinkEdge_deferred, if_true]
  exact ⟨by simp [hf], by simp [hc], by simp [hd]⟩

theorem deleteVertexCore_sameDefs (k0 k : Kernel) (c : Nat) (h : SameDefs k0 k) : SameDefs k0 (k.deleteVertexCore c) := by
  obtain ⟨hf, hc, hd⟩ := h
  unfold deleteVertexCore
  simp only [hd, Bool.not_true, Bool.and_false, Bool.false_eq_true, if_false, if_true]
  exact ⟨by simp [hf], by simp [hc], by simp [hd]⟩

theorem foldl_sameDefs (k0 : Kernel) (core : Kernel → Nat → Kernel) (hcore : ∀ k c, SameDefs k0 k → SameDefs k0 (core k c))
    (xs : List Nat) (k : Kernel) (h : SameDefs k0 k) : SameDefs k0 (xs.foldl core k) := by
  induction xs generalizing k with
  | nil => exact h
  | cons x t ih => simp only [List.foldl_cons]; exact ih _ (hcore k x h)

/-- deferred deletion of any entity leaves every face and cell definition as it is -/
theorem delete_deferred_sameDefs (k : Kernel) (x : Nat) (hd : k.deferred = true) :
    SameDefs k (k.deleteCell x) ∧ SameDefs k (k.deleteFace x) ∧ SameDefs k (k.deleteEdge x) ∧ SameDefs k (k.deleteVertex x) := by
  have h0 : SameDefs k k := ⟨rfl, rfl, hd⟩
  refine ⟨deleteCellCore_sameDefs k k x h0, ?_, ?_, ?_⟩
  · unfold deleteFace
    exact deleteFaceCore_sameDefs k _ x (foldl_sameDefs k _ (deleteCellCore_sameDefs k) _ k h0)
  · unfold deleteEdge
    exact deleteEdgeCore_sameDefs k _ x (foldl_sameDefs k _ (deleteFaceCore_sameDefs k) _ _
      (foldl_sameDefs k _ (deleteCellCore_sameDefs k) _ k h0))
  · unfold deleteVertex
    exact deleteVertexCore_sameDefs k _ x (foldl_sameDefs k _ (deleteEdgeCore_sameDefs k) _ _
      (foldl_sameDefs k _ (deleteFaceCore_sameDefs k) _ _ (foldl_sameDefs k _ (deleteCellCore_sameDefs k) _ k h0)))

/-! ### check_halfface_ordering accepts ⇒ the walk clauses of HexConv -/

theorem hexGetAdj_sound (k : Kernel) (hf he : Nat) (hfs : List Nat) (x : Nat) (h : k.hexGetAdj hf he hfs = some x) :
    x ∈ hfs ∧ x ≠ hf ∧ (k.hfHes x).contains (opp he) = true := by
  unfold hexGetAdj at h
  have hm := List.mem_of_find?_eq_some h
  have hp := List.find?_some h
  simp only [Bool.and_eq_true, bne_iff_ne, ne_eq] at hp
  exact ⟨hm, hp.1, hp.2⟩

/-- what a successful step of the walk with a known offset says -/
theorem hexWalkStep_some (k : Kernel) (hfs : List Nat) (self : Nat) (chain : List (Nat × Nat)) (order : List Nat)
    (o : Nat) (he : Nat) (r : Option Nat) (h : k.hexWalkStep hfs self chain order (some (some o)) he = some r) :
    r = some ((o + 1) % 4) ∧ ∃ x, k.hexGetAdj self he hfs = some x ∧ hfs[order.getD ((o + 1) % 4) 0]? = some x := by
  unfold hexWalkStep at h
  simp only [] at h
  split at h
  · rename_i hc
    simp only [Bool.and_eq_true, beq_iff_eq] at hc
    obtain ⟨h1, h2⟩ := hc
    obtain ⟨x, hx⟩ := Option.isSome_iff_exists.mp h2
    refine ⟨by simpa using h.symm, x, hx, ?_⟩
    rw [← h1, hx]
  · simp at h

theorem hexWalkStep_none (k : Kernel) (hfs : List Nat) (self : Nat) (chain : List (Nat × Nat)) (order : List Nat) (he : Nat) :
    k.hexWalkStep hfs self chain order none he = none := rfl

theorem hexWalkStep_first (k : Kernel) (hfs : List Nat) (self : Nat) (chain : List (Nat × Nat)) (order : List Nat) (he : Nat) :
    k.hexWalkStep hfs self chain order (some none) he = some (hexOffsetOf chain hfs (k.hexGetAdj self he hfs)) := rfl

theorem walkOk_spec (k : Kernel) (hfs : List Nat) (self p0 p1 p2 p3 e0 e1 e2 e3 : Nat)
    (hh : k.hfHes self = [e0, e1, e2, e3])
    (hok : k.hexWalkOk hfs self [(p0, 0), (p1, 1), (p2, 2), (p3, 3)] [p0, p1, p2, p3] = true)
    (H0 : hexOffsetOf [(p0, 0), (p1, 1), (p2, 2), (p3, 3)] hfs (k.hexGetAdj self e0 hfs) ≠ none) :
    ∃ off, off < 4 ∧ ∀ i, i < 4 → ∃ x, hfs[[p0, p1, p2, p3].getD ((i + off) % 4) 0]? = some x ∧
      (k.hfHes x).contains (opp ([e0, e1, e2, e3].getD i 0)) = true := by
  unfold hexWalkOk at hok
  rw [hh] at hok
  simp only [List.foldl_cons, List.foldl_nil, hexWalkStep_first] at hok
  obtain ⟨o0, ho0⟩ := Option.ne_none_iff_exists'.mp H0
  rw [ho0] at hok
  -- the first neighbour
  have hfirst : o0 < 4 ∧ ∃ x, k.hexGetAdj self e0 hfs = some x ∧ hfs[[p0, p1, p2, p3].getD o0 0]? = some x := by
    unfold hexOffsetOf at ho0
    split at ho0
    · simp at ho0
    · rename_i x hx
      simp only [Option.map_eq_some_iff] at ho0
      obtain ⟨p, hp, rfl⟩ := ho0
      have hm := List.mem_of_find?_eq_some hp
      have hq := List.find?_some hp
      simp only [beq_iff_eq] at hq
      simp only [List.mem_cons, List.not_mem_nil, or_false] at hm
      rcases hm with rfl | rfl | rfl | rfl <;> exact ⟨by simp, x, hx, by simpa using hq⟩
  obtain ⟨ho4, x0, hx0, hy0⟩ := hfirst
  generalize hch : [(p0, 0), (p1, 1), (p2, 2), (p3, 3)] = chain at hok
  cases h1 : k.hexWalkStep hfs self chain [p0, p1, p2, p3] (some (some o0)) e1 with
  | none => rw [h1] at hok; simp [hexWalkStep_none] at hok
  | some r1 =>
    obtain ⟨rfl, x1, hx1, hy1⟩ := hexWalkStep_some _ _ _ _ _ _ _ _ h1
    rw [h1] at hok
    cases h2 : k.hexWalkStep hfs self chain [p0, p1, p2, p3] (some (some ((o0 + 1) % 4))) e2 with
    | none => rw [h2] at hok; simp [hexWalkStep_none] at hok
    | some r2 =>
      obtain ⟨rfl, x2, hx2, hy2⟩ := hexWalkStep_some _ _ _ _ _ _ _ _ h2
      rw [h2] at hok
      cases h3 : k.hexWalkStep hfs self chain [p0, p1, p2, p3] (some (some (((o0 + 1) % 4 + 1) % 4))) e3 with
      | none => rw [h3] at hok; simp at hok
      | some r3 =>
        obtain ⟨rfl, x3, hx3, hy3⟩ := hexWalkStep_some _ _ _ _ _ _ _ _ h3
        refine ⟨o0, ho4, ?_⟩
        intro i hi
        have hi' : i = 0 ∨ i = 1 ∨ i = 2 ∨ i = 3 := by omega
        rcases hi' with rfl | rfl | rfl | rfl
        · exact ⟨x0, by rw [Nat.zero_add, Nat.mod_eq_of_lt ho4]; exact hy0, (hexGetAdj_sound _ _ _ _ _ hx0).2.2⟩
        · exact ⟨x1, by rw [Nat.add_comm]; exact hy1, (hexGetAdj_sound _ _ _ _ _ hx1).2.2⟩
        · refine ⟨x2, ?_, (hexGetAdj_sound _ _ _ _ _ hx2).2.2⟩
          have : (2 + o0) % 4 = ((o0 + 1) % 4 + 1) % 4 := by omega
          rw [this]; exact hy2
        · refine ⟨x3, ?_, (hexGetAdj_sound _ _ _ _ _ hx3).2.2⟩
          have : (3 + o0) % 4 = (((o0 + 1) % 4 + 1) % 4 + 1) % 4 := by omega
          rw [this]; exact hy3


/-- the Bool form of the walk clause from its pointwise form -/
theorem hexWalkAtB_of_spec (k : Kernel) (hfs : List Nat) (pos : Nat) (order : List Nat) (e0 e1 e2 e3 : Nat)
    (hh : k.hfHes (hfs.getD pos 0) = [e0, e1, e2, e3])
    (h : ∃ off, off < 4 ∧ ∀ i, i < 4 → ∃ x, hfs[order.getD ((i + off) % 4) 0]? = some x ∧
      (k.hfHes x).contains (opp ([e0, e1, e2, e3].getD i 0)) = true) :
    k.hexWalkAtB hfs pos order = true := by
  obtain ⟨off, ho, hall⟩ := h
  unfold hexWalkAtB
  simp only [hh, List.length_cons, List.length_nil, Bool.and_eq_true, List.any_eq_true, List.all_eq_true, List.mem_range]
  refine ⟨by rfl, off, ho, ?_⟩
  intro i hi
  obtain ⟨x, hx, hc⟩ := hall i hi
  have : hfs.getD (order.getD ((i + off) % 4) 0) 0 = x := by
    rw [List.getD_eq_getElem?_getD, hx]; rfl
  rw [this]; exact hc

/-- a neighbour that is neither of the two first halffaces is found by the offset chain -/
theorem offsetOf_ne_none (h0 h1 h2 h3 h4 h5 x q0 q1 q2 q3 : Nat)
    (hq : [q0, q1, q2, q3].Perm [2, 3, 4, 5])
    (hm : x ∈ [h0, h1, h2, h3, h4, h5]) (hx0 : x ≠ h0) (hx1 : x ≠ h1) :
    hexOffsetOf [(q0, 0), (q1, 1), (q2, 2), (q3, 3)] [h0, h1, h2, h3, h4, h5] (some x) ≠ none := by
  unfold hexOffsetOf
  simp only [ne_eq, Option.map_eq_none_iff, List.find?_eq_none]
  have hj : ∃ j, j ∈ [2, 3, 4, 5] ∧ [h0, h1, h2, h3, h4, h5][j]? = some x := by
    simp only [List.mem_cons, List.not_mem_nil, or_false] at hm
    rcases hm with rfl | rfl | rfl | rfl | rfl | rfl
    · exact absurd rfl hx0
    · exact absurd rfl hx1
    · exact ⟨2, by simp, rfl⟩
    · exact ⟨3, by simp, rfl⟩
    · exact ⟨4, by simp, rfl⟩
    · exact ⟨5, by simp, rfl⟩
  obtain ⟨j, hj, hjx⟩ := hj
  have hjq : j ∈ [q0, q1, q2, q3] := hq.mem_iff.mpr hj
  simp only [List.mem_cons, List.not_mem_nil, or_false] at hjq
  rcases hjq with rfl | rfl | rfl | rfl
  · intro hall; exact hall (j, 0) (by simp) (by simpa using hjx)
  · intro hall; exact hall (j, 1) (by simp) (by simpa using hjx)
  · intro hall; exact hall (j, 2) (by simp) (by simpa using hjx)
  · intro hall; exact hall (j, 3) (by simp) (by simpa using hjx)

/-- `check_halfface_ordering` accepts ⇒ walking the first (second) halfface meets positions 2,4,3,5
    (3,4,2,5) cyclically — provided the neighbour across the *first* halfedge of each of the two is a
    side halfface (exists and is not the other one of the two) -/
theorem checkOrdering_walk (k : Kernel) (h0 h1 h2 h3 h4 h5 e0 e1 e2 e3 f0 f1 f2 f3 x y : Nat)
    (htop : k.hfHes h0 = [e0, e1, e2, e3]) (hbot : k.hfHes h1 = [f0, f1, f2, f3])
    (hchk : k.hexCheckOrdering [h0, h1, h2, h3, h4, h5] = true)
    (hx : k.hexGetAdj h0 e0 [h0, h1, h2, h3, h4, h5] = some x) (hxb : x ≠ h1)
    (hy : k.hexGetAdj h1 f0 [h0, h1, h2, h3, h4, h5] = some y) (hyt : y ≠ h0) :
    k.hexWalkAtB [h0, h1, h2, h3, h4, h5] 0 specOrderTop = true ∧
    k.hexWalkAtB [h0, h1, h2, h3, h4, h5] 1 specOrderBot = true := by
  unfold hexCheckOrdering at hchk
  simp only [topPos, botPos, offsetTopChain, offsetBotChain, orderTopCheck, orderBotCheck, Bool.and_eq_true] at hchk
  have ht : [h0, h1, h2, h3, h4, h5].getD 0 0 = h0 := rfl
  have hb : [h0, h1, h2, h3, h4, h5].getD 1 0 = h1 := rfl
  rw [ht, hb] at hchk
  obtain ⟨hx1, hx2, hx3⟩ := hexGetAdj_sound _ _ _ _ _ hx
  obtain ⟨hy1, hy2, hy3⟩ := hexGetAdj_sound _ _ _ _ _ hy
  constructor
  · apply hexWalkAtB_of_spec k _ 0 specOrderTop e0 e1 e2 e3 (by rw [ht]; exact htop)
    exact walkOk_spec k _ h0 2 4 3 5 e0 e1 e2 e3 htop hchk.1
      (by rw [hx]; exact offsetOf_ne_none h0 h1 h2 h3 h4 h5 x 2 4 3 5 (by decide) hx1 hx2 hxb)
  · apply hexWalkAtB_of_spec k _ 1 specOrderBot f0 f1 f2 f3 (by rw [hb]; exact hbot)
    exact walkOk_spec k _ h1 3 4 2 5 f0 f1 f2 f3 hbot hchk.2
      (by rw [hy]; exact offsetOf_ne_none h0 h1 h2 h3 h4 h5 y 3 4 2 5 (by decide) hy1 hyt hy2)

/-! ### the automatic re-ordering stores a list that satisfies the walk clause -/

@[simp] theorem hexFillStep_none' (k : Kernel) (h0 : Nat) (hfs : List Nat) (he : Nat) : k.hexFillStep h0 hfs none he = none := rfl

theorem hexFillStep_some_eq (k : Kernel) (h0 : Nat) (hfs : List Nat) (ord : List (Option Nat)) (idx he : Nat) :
    k.hexFillStep h0 hfs (some (ord, idx)) he =
      (k.hexGetAdj h0 he hfs).map (fun a => (ord.set (orderTopAdd.getD idx 0) (some a), idx + 1)) := by
  unfold hexFillStep; cases k.hexGetAdj h0 he hfs <;> rfl

theorem fill4 (k : Kernel) (h0 : Nat) (hfs : List Nat) (ord0 : List (Option Nat)) (e0 e1 e2 e3 : Nat)
    (p : List (Option Nat) × Nat)
    (h : [e0, e1, e2, e3].foldl (k.hexFillStep h0 hfs) (some (ord0, 0)) = some p) :
    ∃ a0 a1 a2 a3, k.hexGetAdj h0 e0 hfs = some a0 ∧ k.hexGetAdj h0 e1 hfs = some a1 ∧
      k.hexGetAdj h0 e2 hfs = some a2 ∧ k.hexGetAdj h0 e3 hfs = some a3 ∧
      p.1 = (((ord0.set 2 (some a0)).set 4 (some a1)).set 3 (some a2)).set 5 (some a3) := by
  simp only [List.foldl_cons, List.foldl_nil] at h
  rw [hexFillStep_some_eq] at h
  cases ha0 : k.hexGetAdj h0 e0 hfs with
  | none => simp [ha0] at h
  | some a0 =>
    rw [ha0, Option.map_some, hexFillStep_some_eq] at h
    cases ha1 : k.hexGetAdj h0 e1 hfs with
    | none => simp [ha1] at h
    | some a1 =>
      rw [ha1, Option.map_some, hexFillStep_some_eq] at h
      cases ha2 : k.hexGetAdj h0 e2 hfs with
      | none => simp [ha2] at h
      | some a2 =>
        rw [ha2, Option.map_some, hexFillStep_some_eq] at h
        cases ha3 : k.hexGetAdj h0 e3 hfs with
        | none => simp [ha3] at h
        | some a3 =>
          rw [ha3, Option.map_some] at h
          refine ⟨a0, a1, a2, a3, rfl, rfl, rfl, rfl, ?_⟩
          simp only [Option.some.injEq] at h
          rw [← h]; rfl

theorem hexReorder_spec (k : Kernel) (hfs ord : List Nat) (e0 e1 e2 e3 : Nat)
    (hh : k.hfHes (hfs.getD 0 0) = [e0, e1, e2, e3]) (h : k.hexReorder hfs = some ord) :
    ∃ a0 a1 a2 a3 bot, k.hexGetAdj (hfs.getD 0 0) e0 hfs = some a0 ∧ k.hexGetAdj (hfs.getD 0 0) e1 hfs = some a1 ∧
      k.hexGetAdj (hfs.getD 0 0) e2 hfs = some a2 ∧ k.hexGetAdj (hfs.getD 0 0) e3 hfs = some a3 ∧
      k.hexFindBottom (hfs.getD 0 0) hfs = some bot ∧ ord = [hfs.getD 0 0, bot, a0, a2, a1, a3] := by
  unfold hexReorder at h
  simp only [] at h
  rw [hh] at h
  generalize hfs.getD 0 0 = h0 at h ⊢
  split at h
  · simp at h
  · rename_i o idx heq
    obtain ⟨a0, a1, a2, a3, h0', h1', h2', h3', ho⟩ := fill4 k h0 hfs _ e0 e1 e2 e3 _ heq
    simp only [] at ho
    split at h
    · simp at h
    · rename_i bot hb
      refine ⟨a0, a1, a2, a3, bot, h0', h1', h2', h3', hb, ?_⟩
      rw [ho] at h
      simp [List.replicate] at h
      exact h.symm


theorem length4_cases {α} (l : List α) (h : l.length = 4) : ∃ a b c d, l = [a, b, c, d] := by
  match l, h with
  | [a, b, c, d], _ => exact ⟨a, b, c, d, rfl⟩

theorem hfHes_length (k : Kernel) (hf : Nat) : (k.hfHes hf).length = (k.faceAt (eOf hf)).length := by
  unfold hfHes; split <;> simp [oppFace]

theorem hfHes_congr (k k' : Kernel) (h : k'.faces = k.faces) (hf : Nat) : k'.hfHes hf = k.hfHes hf := by
  unfold hfHes faceAt; rw [h]

theorem hexWalkAtB_congr (k k' : Kernel) (h : k'.faces = k.faces) (hfs : List Nat) (pos : Nat) (order : List Nat) :
    k'.hexWalkAtB hfs pos order = k.hexWalkAtB hfs pos order := by
  unfold hexWalkAtB; simp only [hfHes_congr k k' h]

/-- the list stored by the re-ordering path: walking its first halfface meets positions 2,4,3,5
    (starting with position 2 at the first halfedge) -/
theorem hexReorder_walk (k : Kernel) (hfs ord : List Nat) (h4 : (k.hfHes (hfs.getD 0 0)).length = 4)
    (h : k.hexReorder hfs = some ord) : k.hexWalkAtB ord 0 specOrderTop = true ∧ ord.getD 0 0 = hfs.getD 0 0 := by
  obtain ⟨e0, e1, e2, e3, hh⟩ := length4_cases _ h4
  obtain ⟨a0, a1, a2, a3, bot, h0, h1, h2, h3, _, rfl⟩ := hexReorder_spec k hfs ord e0 e1 e2 e3 hh h
  refine ⟨?_, rfl⟩
  apply hexWalkAtB_of_spec k _ 0 specOrderTop e0 e1 e2 e3 (by exact hh)
  refine ⟨0, by decide, ?_⟩
  intro i hi
  have hi' : i = 0 ∨ i = 1 ∨ i = 2 ∨ i = 3 := by omega
  rcases hi' with rfl | rfl | rfl | rfl
  · exact ⟨a0, rfl, (hexGetAdj_sound _ _ _ _ _ h0).2.2⟩
  · exact ⟨a1, rfl, (hexGetAdj_sound _ _ _ _ _ h1).2.2⟩
  · exact ⟨a2, rfl, (hexGetAdj_sound _ _ _ _ _ h2).2.2⟩
  · exact ⟨a3, rfl, (hexGetAdj_sound _ _ _ _ _ h3).2.2⟩

/-- the re-ordered list consists of halffaces of the given list -/
theorem hexReorder_subset (k : Kernel) (hfs ord : List Nat) (h4 : (k.hfHes (hfs.getD 0 0)).length = 4)
    (hne : hfs ≠ []) (h : k.hexReorder hfs = some ord) : ∀ x ∈ ord, x ∈ hfs := by
  obtain ⟨e0, e1, e2, e3, hh⟩ := length4_cases _ h4
  obtain ⟨a0, a1, a2, a3, bot, h0, h1, h2, h3, hb, rfl⟩ := hexReorder_spec k hfs ord e0 e1 e2 e3 hh h
  have hbot : bot ∈ hfs := by
    unfold hexFindBottom at hb
    repeat' split at hb
    all_goals first | (simp at hb; done) | exact (hexGetAdj_sound _ _ _ _ _ hb).1
  have hfirst : hfs.getD 0 0 ∈ hfs := by
    cases hfs with
    | nil => exact absurd rfl hne
    | cons a t => simp
  intro x hx
  simp only [List.mem_cons, List.not_mem_nil, or_false] at hx
  rcases hx with rfl | rfl | rfl | rfl | rfl | rfl
  · exact hfirst
  · exact hbot
  · exact (hexGetAdj_sound _ _ _ _ _ h0).1
  · exact (hexGetAdj_sound _ _ _ _ _ h2).1
  · exact (hexGetAdj_sound _ _ _ _ _ h1).1
  · exact (hexGetAdj_sound _ _ _ _ _ h3).1

end Kernel
end OVM

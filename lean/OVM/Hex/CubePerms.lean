import OVM.Hex.Spec
/-
  The standard cube (vertices 0..7 in the documented order) as a concrete model state, and the
  exhaustive run of all 720 permutations of its halfface list through the model of the checked
  `add_cell` (kernel evaluation, in six chunks of 120).  Proof-only file.
-/
namespace OVM.Hex.Cube
open OVM OVM.Kernel OVM.Gen.HexTables

/-- eight isolated vertices, all incidences enabled (a fresh mesh after `add_vertex` × 8) -/
def k0 : Kernel := ({} : Kernel).addNVertices 8

/-- the six faces of the standard cube created in the order and rotation `add_cell(vertices)` uses, no cell -/
def kF : Kernel := cellVAdd.foldl (fun k a => (k.hexAddFaceV (hexPick [0, 1, 2, 3, 4, 5, 6, 7] a.2.1)).1) k0

/-- the same with the bottom-up incidences disabled (`add_cell(halffaces)` does not need them) -/
def kG : Kernel := { kF with vBU := false, eBU := false, fBU := false, outHes := [], incHfs := [], incCell := [] }

def insertAll (x : Nat) : List Nat → List (List Nat)
  | [] => [[x]]
  | y :: ys => (x :: y :: ys) :: (insertAll x ys).map (y :: ·)

/-- all permutations of a list -/
def perms : List Nat → List (List Nat)
  | [] => [[]]
  | x :: xs => (perms xs).flatMap (insertAll x)

/-- the convention-ordered halfface list of the standard cube -/
def L : List Nat := [0, 2, 4, 6, 8, 10]

/-- what is required of one permutation: accepted as cell 0, the stored list is a re-ordering of the
    given one and satisfies HexConv -/
def good (p : List Nat) : Bool :=
  let r := kG.hexAddCell p true
  r.2 == some 0 && r.1.hexConvB 0 && sortL (r.1.cellAt 0) == L

def chunk (i : Nat) : List (List Nat) := ((perms L).drop (120 * i)).take 120

theorem perms_split : perms L = chunk 0 ++ chunk 1 ++ chunk 2 ++ chunk 3 ++ chunk 4 ++ chunk 5 := by decide +kernel
theorem perms_count : (perms L).length = 720 := by decide +kernel

theorem chunk0 : (chunk 0).all good = true := by decide +kernel
theorem chunk1 : (chunk 1).all good = true := by decide +kernel
theorem chunk2 : (chunk 2).all good = true := by decide +kernel
theorem chunk3 : (chunk 3).all good = true := by decide +kernel
theorem chunk4 : (chunk 4).all good = true := by decide +kernel
theorem chunk5 : (chunk 5).all good = true := by decide +kernel

theorem all_perms_good : (perms L).all good = true := by
  rw [perms_split]
  simp only [List.all_append, chunk0, chunk1, chunk2, chunk3, chunk4, chunk5, Bool.and_self]

/-- `perms` enumerates every permutation: a list with the same elements (as a sorted list) occurs -/
theorem mem_insertAll (x : Nat) (l : List Nat) (a b : List Nat) (h : l = a ++ b) : (a ++ x :: b) ∈ insertAll x l := by
  induction l generalizing a with
  | nil =>
    have : a = [] ∧ b = [] := by simpa using h.symm
    simp [this.1, this.2, insertAll]
  | cons y ys ih =>
    cases a with
    | nil => simp only [List.nil_append] at h; subst h; simp [insertAll]
    | cons a0 at' =>
      simp only [List.cons_append, List.cons.injEq] at h
      obtain ⟨rfl, h⟩ := h
      simp only [insertAll, List.cons_append, List.mem_cons, List.cons.injEq, List.mem_map]
      right; exact ⟨_, ih at' h, by simp⟩

theorem mem_perms_of_perm (l p : List Nat) (h : p.Perm l) : p ∈ perms l := by
  induction l generalizing p with
  | nil => simp [perms, List.Perm.eq_nil h]
  | cons x xs ih =>
    have hx : x ∈ p := h.mem_iff.mpr (List.mem_cons_self ..)
    obtain ⟨a, b, rfl⟩ := List.append_of_mem hx
    have hp : (a ++ b).Perm xs := (List.perm_middle.symm.trans h).cons_inv
    simp only [perms, List.mem_flatMap]
    exact ⟨a ++ b, ih _ hp, mem_insertAll x (a ++ b) a b rfl⟩

end OVM.Hex.Cube

import OVM.Hex.Kernel
import OVM.Spec.Incidence
/-
  S for C16: the hexahedral shape / convention predicates and the documented behaviour of the hex
  navigation, written directly from the property text (nothing here reads a generated table or a
  cache, except `hexOrthLayoutB`, whose subject *is* the generated `orthogonal_orientation` table).
  Bool-valued so that the judge can evaluate them on the implementation's own dumps; the `Prop`
  forms used by the theorems are `… = true`.
-/
namespace OVM
namespace Kernel

def disjointL (a b : List Nat) : Bool := a.all (fun x => !b.contains x)

def nodupB : List Nat → Bool
  | [] => true
  | a :: t => !t.contains a && nodupB t

/-- the distinct vertices of a cell (ascending) -/
def cellVerts (k : Kernel) (c : Nat) : List Nat := toSet ((k.cellAt c).flatMap k.hfVerts)

/-- is `{a,b}` an edge of one of the cell's halffaces? -/
def cellHasEdge (k : Kernel) (c a b : Nat) : Bool :=
  ((k.cellAt c).flatMap k.hfHes).any (fun h => (k.fromV h == a && k.toV h == b) || (k.fromV h == b && k.toV h == a))

/-! ### HexShape -/

/-- every face (slot) has four halfedges, every cell (slot) six halffaces -/
def hexLenB (k : Kernel) : Bool :=
  k.faces.all (fun f => f.length == 4) && k.cells.all (fun c => c.length == 6)

def HexLen (k : Kernel) : Prop := (∀ f ∈ k.faces, f.length = 4) ∧ (∀ c ∈ k.cells, c.length = 6)

/-- a live cell has six halffaces and eight distinct vertices -/
def hexCellShapeB (k : Kernel) (c : Nat) : Bool := (k.cellAt c).length == 6 && (k.cellVerts c).length == 8

/-- `HexShape`: four halfedges per live face; six halffaces and eight distinct vertices per live cell -/
def hexShapeB (k : Kernel) : Bool :=
  k.liveFaces.all (fun f => (k.faceAt f).length == 4) && k.liveCells.all k.hexCellShapeB

def HexShape (k : Kernel) : Prop := k.hexShapeB = true

/-! ### HexConv: the x-front, x-back, y-front, y-back, z-front, z-back convention -/

/-- halffaces 2i and 2i+1 share no vertex -/
def hexOppDisjointB (k : Kernel) (hfs : List Nat) : Bool :=
  [0, 1, 2].all (fun i => disjointL (k.hfVerts (hfs.getD (2 * i) 0)) (k.hfVerts (hfs.getD (2 * i + 1) 0)))

/-- the order in which the property text says the side halffaces are met: 2, 4, 3, 5 -/
def specOrderTop : List Nat := [2, 4, 3, 5]
/-- seen from the opposite halfface the same four are met in the opposite sense -/
def specOrderBot : List Nat := [3, 4, 2, 5]

/-- walking the halfedges of `hfs[self]` in their stored order, the opposite halfedges lie in the
    halffaces at positions `order[off]`, `order[off+1]`, … (cyclically) for some start `off` -/
def hexWalkAtB (k : Kernel) (hfs : List Nat) (self : Nat) (order : List Nat) : Bool :=
  let hes := k.hfHes (hfs.getD self 0)
  hes.length == 4 && (List.range 4).any (fun off => (List.range 4).all (fun i =>
    (k.hfHes (hfs.getD (order.getD ((i + off) % 4) 0) 0)).contains (opp (hes.getD i 0))))

/-- walking around the first halfface meets positions 2, 4, 3, 5 in that cyclic order -/
def hexWalkB (k : Kernel) (hfs : List Nat) : Bool := k.hexWalkAtB hfs 0 specOrderTop

def hexConvListB (k : Kernel) (hfs : List Nat) : Bool :=
  hfs.length == 6 && k.hexOppDisjointB hfs && k.hexWalkB hfs

def hexConvB (k : Kernel) (c : Nat) : Bool := k.hexConvListB (k.cellAt c)

def HexConv (k : Kernel) (c : Nat) : Prop := k.hexConvB c = true

/-! ### the layout as `orthogonal_orientation` describes it -/

/-- for every ordered pair of different axes (o1, o2): in the halfface at position o1, the halfedge
    after the one shared with position o2 is shared with position `orthogonal_orientation(o1,o2)` -/
def hexOrthLayoutB (k : Kernel) (c : Nat) : Bool :=
  let hfs := k.cellAt c
  (List.range 6).all (fun o1 => (List.range 6).all (fun o2 =>
    o1 / 2 == o2 / 2 ||
    (let f1 := hfs.getD o1 0
     let shared := (k.hfHes f1).filter (fun h => (k.hfHes (hfs.getD o2 0)).contains (opp h))
     match shared with
     | [h] =>
       match k.nextHe h f1 with
       | some h' => (k.hfHes (hfs.getD (orthogonalOrientation o1 o2) 0)).contains (opp h')
       | none => false
     | _ => false)))

/-! ### hex_vertices: the documented cube pattern -/

def isRotationL (a b : List Nat) : Bool :=
  a.length == b.length && (a.isEmpty || (List.range a.length).any (fun r => a.rotateLeft r == b))

/-- first four: the first halfface's vertices against its cyclic order, starting at the source of its
    first halfedge (up to a rotation about the first axis); last four: the opposite halfface's;
    positions 0-4, 1-7, 2-6, 3-5 joined by edges of the cell; eight distinct vertices -/
def hexVertsPatternB (k : Kernel) (c : Nat) (r : List Nat) : Bool :=
  let hfs := k.cellAt c
  let top := k.hfVerts (hfs.getD 0 0)
  let expTop := match top with | a :: rest => a :: rest.reverse | [] => []
  r.length == 8 && nodupB r &&
  isRotationL expTop (r.take 4) &&
  sortL (r.drop 4) == sortL (k.hfVerts (hfs.getD 1 0)) &&
  [(0, 4), (1, 7), (2, 6), (3, 5)].all (fun p => k.cellHasEdge c (r.getD p.1 0) (r.getD p.2 0))

/-! ### sheet neighbours -/

/-- the cells across the four halffaces orthogonal to direction `dir` (ascending, duplicate-free);
    brute force over the cell definitions -/
def sSheetCells (k : Kernel) (c dir : Nat) : List Nat :=
  sortUniq ((k.cellAt c).zipIdx.filterMap (fun p => if p.2 / 2 != dir / 2 then k.sCellOf (opp p.1) else none))

/-- the matching halffaces of the sheet neighbours of halfface `hf`: for every side halfface `S` of
    its cell and every halfedge `h` that `hf` shares with `S`, the halffaces of the cell behind `S`
    (other than `opp S`) that contain `opp h` -/
def sSheetHalffaces (k : Kernel) (hf : Nat) : List Nat :=
  match k.sCellOf hf with
  | none => []
  | some c =>
    match idxOf? (k.cellAt c) hf with
    | none => []
    | some p =>
      sortUniq ((k.cellAt c).zipIdx.flatMap (fun s =>
        if s.2 / 2 == p / 2 then [] else
        match k.sCellOf (opp s.1) with
        | none => []
        | some n =>
          ((k.hfHes hf).filter (fun h => (k.hfHes s.1).contains (opp h))).flatMap (fun h =>
            (k.cellAt n).filter (fun x => x != opp s.1 && (k.hfHes x).contains (opp h)))))

end Kernel
end OVM

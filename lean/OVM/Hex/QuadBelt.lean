/-
  C16, classification step, combinatorial core (no kernel, no imports): six quadrilateral faces given by their arcs
  (`A x u w`: face `x` has a halfedge from vertex `u` to vertex `w`) that form a closed surface, with a top face
  `t = a0→a1→a2→a3`, side faces `s0 … s3` across its four arcs in that cyclic order (`s_j` contains `a_{j+1}→a_j`),
  a face `b` vertex-disjoint from `t`, and `s0 / s2`, `s1 / s3` vertex-disjoint (`Belt`) ARE a combinatorial cube:
  there are four further vertices `c0 … c3`, all eight distinct, with `s_j = a_{j+1}→a_j→c_j→c_{j+1}` and
  `b = c1→c0→c3→c2` (`Belt.classify`).  The argument: the arc `a0→p` of `s0` has its reverse in one of the six faces;
  disjointness and the quadrilateral shape exclude every face but `s3` (`Belt.below`); the reverse of the arc `c0→c1`
  of `s0` can only lie in `b` (`Belt.bottomArc`); the belt is symmetric under rotation (`Belt.rot`).
  Proof-only file.
-/
namespace OVM
namespace QB

/-- face `x` has exactly the four arcs p0→p1→p2→p3→p0 through four distinct vertices -/
def IsQ (A : Nat → Nat → Nat → Prop) (x p0 p1 p2 p3 : Nat) : Prop :=
  (p0 ≠ p1 ∧ p0 ≠ p2 ∧ p0 ≠ p3 ∧ p1 ≠ p2 ∧ p1 ≠ p3 ∧ p2 ≠ p3) ∧
  ∀ u w, A x u w ↔ ((u = p0 ∧ w = p1) ∨ (u = p1 ∧ w = p2) ∨ (u = p2 ∧ w = p3) ∨ (u = p3 ∧ w = p0))

variable {A : Nat → Nat → Nat → Prop}

theorem IsQ.rot {x p0 p1 p2 p3 : Nat} (h : IsQ A x p0 p1 p2 p3) : IsQ A x p1 p2 p3 p0 := by
  obtain ⟨hd, ha⟩ := h
  refine ⟨by grind, fun u w => ?_⟩
  rw [ha]; grind

theorem IsQ.start {x p0 p1 p2 p3 u w : Nat} (h : IsQ A x p0 p1 p2 p3) (ha : A x u w) : ∃ r s, IsQ A x u w r s := by
  have h1 := h.rot
  have h2 := h1.rot
  have h3 := h2.rot
  have := (h.2 u w).mp ha
  rcases this with ⟨rfl, rfl⟩ | ⟨rfl, rfl⟩ | ⟨rfl, rfl⟩ | ⟨rfl, rfl⟩
  · exact ⟨_, _, h⟩
  · exact ⟨_, _, h1⟩
  · exact ⟨_, _, h2⟩
  · exact ⟨_, _, h3⟩


/-- vertex `v` lies on face `x` -/
def On (A : Nat → Nat → Nat → Prop) (x v : Nat) : Prop := ∃ w, A x v w

theorem IsQ.on {x p0 p1 p2 p3 v : Nat} (h : IsQ A x p0 p1 p2 p3) : On A x v ↔ (v = p0 ∨ v = p1 ∨ v = p2 ∨ v = p3) := by
  unfold On
  constructor
  · rintro ⟨w, hw⟩; have := (h.2 v w).mp hw; grind
  · intro hv
    rcases hv with rfl | rfl | rfl | rfl
    · exact ⟨p1, (h.2 _ _).mpr (by simp)⟩
    · exact ⟨p2, (h.2 _ _).mpr (by simp)⟩
    · exact ⟨p3, (h.2 _ _).mpr (by simp)⟩
    · exact ⟨p0, (h.2 _ _).mpr (by simp)⟩

structure Belt (A : Nat → Nat → Nat → Prop) (t b s0 s1 s2 s3 a0 a1 a2 a3 : Nat) : Prop where
  quad : ∀ x, (x = t ∨ x = b ∨ x = s0 ∨ x = s1 ∨ x = s2 ∨ x = s3) → ∃ p0 p1 p2 p3, IsQ A x p0 p1 p2 p3
  closed : ∀ x u w, (x = t ∨ x = b ∨ x = s0 ∨ x = s1 ∨ x = s2 ∨ x = s3) → A x u w →
    ∃ y, (y = t ∨ y = b ∨ y = s0 ∨ y = s1 ∨ y = s2 ∨ y = s3) ∧ A y w u
  dtb : ∀ v, On A t v → On A b v → False
  d02 : ∀ v, On A s0 v → On A s2 v → False
  d13 : ∀ v, On A s1 v → On A s3 v → False
  top : IsQ A t a0 a1 a2 a3
  e0 : A s0 a1 a0
  e1 : A s1 a2 a1
  e2 : A s2 a3 a2
  e3 : A s3 a0 a3

theorem Belt.rot {t b s0 s1 s2 s3 a0 a1 a2 a3 : Nat} (B : Belt A t b s0 s1 s2 s3 a0 a1 a2 a3) :
    Belt A t b s1 s2 s3 s0 a1 a2 a3 a0 :=
  ⟨fun x hx => B.quad x (by grind), fun x u w hx ha => by
      obtain ⟨y, hy, h⟩ := B.closed x u w (by grind) ha
      exact ⟨y, by grind, h⟩,
    B.dtb, B.d13, fun v h1 h2 => B.d02 v h2 h1, B.top.rot, B.e1, B.e2, B.e3, B.e0⟩

theorem IsQ.on_to {x p0 p1 p2 p3 u w : Nat} (h : IsQ A x p0 p1 p2 p3) (ha : A x u w) : On A x w := by
  have := (h.2 u w).mp ha
  rw [h.on]; grind

/-- the vertex below `a0`: the side faces `s0` and `s3` meet in an arc p→a0 / a0→p with `p` off the top face -/
theorem Belt.below {t b s0 s1 s2 s3 a0 a1 a2 a3 : Nat} (B : Belt A t b s0 s1 s2 s3 a0 a1 a2 a3) :
    ∃ p q r, IsQ A s0 a1 a0 p q ∧ IsQ A s3 a0 a3 r p := by
  obtain ⟨q0a, q0b, q0c, q0d, hq0⟩ := B.quad s0 (by simp)
  obtain ⟨p, q, Q0⟩ := hq0.start B.e0
  obtain ⟨q3a, q3b, q3c, q3d, hq3⟩ := B.quad s3 (by simp)
  obtain ⟨r, p', Q3⟩ := hq3.start B.e3
  obtain ⟨q1a, q1b, q1c, q1d, Q1⟩ := B.quad s1 (by simp)
  obtain ⟨q2a, q2b, q2c, q2d, hq2⟩ := B.quad s2 (by simp)
  obtain ⟨r2, p2, Q2⟩ := hq2.start B.e2
  obtain ⟨qba, qbb, qbc, qbd, Qb⟩ := B.quad b (by simp)
  have T := B.top
  refine ⟨p, q, r, Q0, ?_⟩
  suffices p' = p by rw [← this]; exact Q3
  have harc : A s0 a0 p := (Q0.2 _ _).mpr (by simp)
  obtain ⟨y, hy, hay⟩ := B.closed s0 a0 p (by simp) harc
  have ta0 : On A t a0 := T.on.mpr (by simp)
  have s0a0 : On A s0 a0 := Q0.on.mpr (by simp)
  have s3a0 : On A s3 a0 := Q3.on.mpr (by simp)
  have s0p : On A s0 p := Q0.on.mpr (by simp)
  have s2a2 : On A s2 a2 := Q2.on.mpr (by simp)
  have s2a3 : On A s2 a3 := Q2.on.mpr (by simp)
  have d0 := Q0.1
  have d3 := Q3.1
  have dT := T.1
  rcases hy with rfl | rfl | rfl | rfl | rfl | rfl
  · have h1 := (T.2 _ _).mp hay
    have := fun h => B.d02 a2 h s2a2
    have := fun h => B.d02 a3 h s2a3
    grind
  · exact absurd (Qb.on_to hay) (B.dtb a0 ta0)
  · have h1 := (Q0.2 _ _).mp hay
    grind
  · exact (B.d13 a0 (Q1.on_to hay) s3a0).elim
  · exact (B.d02 a0 s0a0 (Q2.on_to hay)).elim
  · have h1 := (Q3.2 _ _).mp hay
    grind

theorem IsQ.uniq {x p0 p1 p2 p3 r s : Nat} (h : IsQ A x p0 p1 p2 p3) (h' : IsQ A x p0 p1 r s) : r = p2 ∧ s = p3 := by
  have a1 : A x p1 p2 := (h.2 _ _).mpr (by simp)
  have a2 : A x p2 p3 := (h.2 _ _).mpr (by simp)
  have b1 := (h'.2 _ _).mp a1
  have b2 := (h'.2 _ _).mp a2
  have := h.1
  have := h'.1
  grind

theorem IsQ.eq_rot {x p0 p1 p2 p3 q0 q1 q2 q3 : Nat} (h : IsQ A x p0 p1 p2 p3) (h' : IsQ A x q0 q1 q2 q3) :
    (q0 = p0 ∧ q1 = p1 ∧ q2 = p2 ∧ q3 = p3) ∨ (q0 = p1 ∧ q1 = p2 ∧ q2 = p3 ∧ q3 = p0) ∨
    (q0 = p2 ∧ q1 = p3 ∧ q2 = p0 ∧ q3 = p1) ∨ (q0 = p3 ∧ q1 = p0 ∧ q2 = p1 ∧ q3 = p2) := by
  have a : A x q0 q1 := (h'.2 _ _).mpr (by simp)
  have h1 := h.rot
  have h2 := h1.rot
  have h3 := h2.rot
  rcases (h.2 _ _).mp a with ⟨rfl, rfl⟩ | ⟨rfl, rfl⟩ | ⟨rfl, rfl⟩ | ⟨rfl, rfl⟩
  · have := h.uniq h'; grind
  · have := h1.uniq h'; grind
  · have := h2.uniq h'; grind
  · have := h3.uniq h'; grind

/-- the arc of the bottom face under the side face `s0` -/
theorem Belt.bottomArc {t b s0 s1 s2 s3 a0 a1 a2 a3 c0 c1 c2 c3 : Nat} (B : Belt A t b s0 s1 s2 s3 a0 a1 a2 a3)
    (Q0 : IsQ A s0 a1 a0 c0 c1) (Q1 : IsQ A s1 a2 a1 c1 c2) (Q2 : IsQ A s2 a3 a2 c2 c3) (Q3 : IsQ A s3 a0 a3 c3 c0) :
    A b c1 c0 := by
  have harc : A s0 c0 c1 := (Q0.2 _ _).mpr (by simp)
  obtain ⟨y, hy, hay⟩ := B.closed s0 c0 c1 (by simp) harc
  have T := B.top
  have s0c1 : On A s0 c1 := Q0.on.mpr (by simp)
  have s1c1 : On A s1 c1 := Q1.on.mpr (by simp)
  have s0c0 : On A s0 c0 := Q0.on.mpr (by simp)
  have s2c2 : On A s2 c2 := Q2.on.mpr (by simp)
  have s3a0 : On A s3 a0 := Q3.on.mpr (by simp)
  have s3a3 : On A s3 a3 := Q3.on.mpr (by simp)
  have d0 := Q0.1
  have d1 := Q1.1
  rcases hy with rfl | rfl | rfl | rfl | rfl | rfl
  · have h1 := (T.2 _ _).mp hay
    have := fun h => B.d13 a0 h s3a0
    have := fun h => B.d13 a3 h s3a3
    grind
  · exact hay
  · have h1 := (Q0.2 _ _).mp hay
    grind
  · have h1 := (Q1.2 _ _).mp hay
    have := B.d02 c0 s0c0
    grind
  · exact (B.d02 c1 s0c1 ⟨_, hay⟩).elim
  · exact (B.d13 c1 s1c1 ⟨_, hay⟩).elim

/-- **classification**: a belt is a combinatorial cube -/
theorem Belt.classify {t b s0 s1 s2 s3 a0 a1 a2 a3 : Nat} (B : Belt A t b s0 s1 s2 s3 a0 a1 a2 a3) :
    ∃ c0 c1 c2 c3, [a3, a2, a1, a0, c3, c0, c1, c2].Nodup ∧
      IsQ A s0 a1 a0 c0 c1 ∧ IsQ A s1 a2 a1 c1 c2 ∧ IsQ A s2 a3 a2 c2 c3 ∧ IsQ A s3 a0 a3 c3 c0 ∧ IsQ A b c1 c0 c3 c2 := by
  obtain ⟨c0, q0, r3, Q0, R3⟩ := B.below
  obtain ⟨c1, q1, r0, Q1, R0⟩ := B.rot.below
  obtain ⟨c2, q2, r1, Q2, R1⟩ := B.rot.rot.below
  obtain ⟨c3, q3, r2, Q3, R2⟩ := B.rot.rot.rot.below
  have P0 : IsQ A s0 a1 a0 c0 c1 := by have := Q0.uniq R0; rw [this.1] at R0; exact R0
  have P1 : IsQ A s1 a2 a1 c1 c2 := by have := Q1.uniq R1; rw [this.1] at R1; exact R1
  have P2 : IsQ A s2 a3 a2 c2 c3 := by have := Q2.uniq R2; rw [this.1] at R2; exact R2
  have P3 : IsQ A s3 a0 a3 c3 c0 := by have := Q3.uniq R3; rw [this.1] at R3; exact R3
  clear Q0 Q1 Q2 Q3 R0 R1 R2 R3
  have b0 := B.bottomArc P0 P1 P2 P3
  have b1 := B.rot.bottomArc P1 P2 P3 P0
  have b2 := B.rot.rot.bottomArc P2 P3 P0 P1
  have b3 := B.rot.rot.rot.bottomArc P3 P0 P1 P2
  have T := B.top
  have dT := T.1
  have d0 := P0.1
  have d1 := P1.1
  have d2 := P2.1
  have d3 := P3.1
  have n02 : ∀ v, (v = a1 ∨ v = a0 ∨ v = c0 ∨ v = c1) → (v = a3 ∨ v = a2 ∨ v = c2 ∨ v = c3) → False :=
    fun v h1 h2 => B.d02 v (P0.on.mpr h1) (P2.on.mpr h2)
  have n13 : ∀ v, (v = a2 ∨ v = a1 ∨ v = c1 ∨ v = c2) → (v = a0 ∨ v = a3 ∨ v = c3 ∨ v = c0) → False :=
    fun v h1 h2 => B.d13 v (P1.on.mpr h1) (P3.on.mpr h2)
  have hnd : [a3, a2, a1, a0, c3, c0, c1, c2].Nodup := by
    have := n02 c0; have := n02 c1; have := n13 c1; have := n13 c2
    simp only [List.nodup_cons, List.mem_cons, List.not_mem_nil, or_false, not_or, List.nodup_nil, and_true, not_false_eq_true]
    grind
  obtain ⟨ba, bb, bc, bd, Qb⟩ := B.quad b (by simp)
  obtain ⟨r, s, Qb'⟩ := Qb.start b0
  have hb1 := (Qb'.2 _ _).mp b1
  have hb2 := (Qb'.2 _ _).mp b2
  have hb3 := (Qb'.2 _ _).mp b3
  have db := Qb'.1
  refine ⟨c0, c1, c2, c3, hnd, P0, P1, P2, P3, ?_⟩
  simp only [List.nodup_cons, List.mem_cons, List.not_mem_nil, or_false, not_or, List.nodup_nil, and_true, not_false_eq_true] at hnd
  have hr : r = c3 := by grind
  have hs : s = c2 := by grind
  rw [hr, hs] at Qb'; exact Qb'

end QB
end OVM

import OVM.Hex.VerticesPattern
import OVM.Hex.CubePerms
/-
  Index-level versions of `check_halfface_ordering` and of the automatic re-ordering of the hex `add_cell(halffaces)`
  on the source tables (used by OVM/Hex/FramePerms.lean, where they are tied to the model on a `Frame`), and the
  convention predicate on arrangements of the six face indices.  Definitions only.
-/
namespace OVM
namespace Kernel
namespace HexAll
open OVM.Gen.HexTables

/-- the face across table position `m` of face `i` (the first components of `rev`, as a literal table so that the
    exhaustive runs evaluate quickly; tied to `rev` by `adjI_rev`) -/
def adjI (i m : Nat) : Nat :=
  ([[5, 2, 4, 3], [2, 5, 3, 4], [0, 5, 1, 4], [1, 5, 0, 4], [2, 1, 3, 0], [0, 3, 1, 2]].getD i []).getD (m % 4) 0

theorem adjI_tbl : ∀ i, i < 6 → ∀ m, m < 4 → adjI i m = (rev i m).1 := by decide

theorem rev_mod (i m : Nat) : rev i (m % 4) = rev i m := by
  unfold rev
  simp only [II_mod, II_congr i (show (m % 4 + 1) % 4 = (m + 1) % 4 by omega)]

theorem adjI_rev {i : Nat} (hi : i < 6) (m : Nat) : adjI i m = (rev i m).1 := by
  have : adjI i m = adjI i (m % 4) := by unfold adjI; rw [Nat.mod_mod]
  rw [this, adjI_tbl i hi _ (Nat.mod_lt _ (by omega)), rev_mod]


def walkStepI (q : List Nat) (self r : Nat) (chain : List (Nat × Nat)) (order : List Nat)
    (st : Option (Option Nat)) (j : Nat) : Option (Option Nat) :=
  match st with
  | none => none
  | some off =>
    let a : Option Nat := some (adjI self (j + r))
    match off with
    | none => some (hexOffsetOf chain q a)
    | some o =>
      let o' := (o + 1) % 4
      if a == q[order.getD o' 0]? && a.isSome then some (some o') else none

def walkOkI (q : List Nat) (self r : Nat) (chain : List (Nat × Nat)) (order : List Nat) : Bool :=
  match [0, 1, 2, 3].foldl (walkStepI q self r chain order) (some none) with
  | some (some _) => true
  | _ => false

def checkI (q : List Nat) (r0 r1 : Nat) : Bool :=
  walkOkI q (q.getD 0 0) r0 offsetTopChain orderTopCheck && walkOkI q (q.getD 1 0) r1 offsetBotChain orderBotCheck


def fillStepI (h0 r : Nat) (st : Option (List (Option Nat) × Nat)) (j : Nat) : Option (List (Option Nat) × Nat) :=
  match st with
  | none => none
  | some (ord, idx) => some (ord.set (orderTopAdd.getD idx 0) (some (adjI h0 (j + r))), idx + 1)

/-- the face found by the bottom search (cc:138-144): across the first halfedge of the first face, two steps round the
    side face, across again -/
def findBottomI (h0 _r : Nat) : Nat := [1, 0, 3, 2, 5, 4].getD h0 0

theorem findBottomI_rev : ∀ i, i < 6 → ∀ r, r < 4 → findBottomI i r = (rev (rev i r).1 ((rev i r).2 + 2)).1 := by decide

def reorderI (q : List Nat) (r : Nat) : Option (List Nat) :=
  let h0 := q.getD 0 0
  match [0, 1, 2, 3].foldl (fillStepI h0 r) (some ((List.replicate 6 (none : Option Nat)).set 0 (some h0), 0)) with
  | none => none
  | some (ord, _) =>
    let ord := ord.set 1 (some (findBottomI h0 r))
    if ord.all (·.isSome) then some (ord.filterMap id) else none


def faceIdx (i : Nat) : List Nat := cellVFind.getD i []
def oppI (a b : Nat) : Bool := (faceIdx a).all (fun p => !(faceIdx b).contains p)

/-- arrangement `q` of the six faces is in convention: opposite pairs use disjoint vertex quadruples, and round the
    first face the faces at positions 2,4,3,5 follow each other -/
def convI (q : List Nat) : Bool :=
  q.length == 6 && oppI (q.getD 0 0) (q.getD 1 0) && oppI (q.getD 2 0) (q.getD 3 0) && oppI (q.getD 4 0) (q.getD 5 0) &&
  (List.range 4).any (fun s => (List.range 4).all (fun m =>
    q.getD (specOrderTop.getD ((m + s) % 4) 0) 0 == adjI (q.getD 0 0) m))

def perms6 : List (List Nat) := Hex.Cube.perms [0, 1, 2, 3, 4, 5]


end HexAll
end Kernel
end OVM

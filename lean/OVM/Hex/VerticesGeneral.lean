import OVM.Hex.FaceSpec
import OVM.Props.C10
/-
  C16, item 3, part 2: `add_cell(8 vertices)` stores a cell in convention — symbolically, for eight arbitrary
  pairwise distinct vertices of any reachable state.
  * `Cyc k x c`: halfface `x` is a closed loop of four halfedges on live edges through the vertices `c`
    (from some rotation on).  A face created by `add_face(vertices)` is one (`FaceSpec.addFaceV_spec`); a
    face found by `find_halfface_extensive` is one when it is a loop (`cyc_of_found`) — in any rotation, either side.
  * `conv_of_cycles`: six such halffaces through the vertex quadruples of the source tables (`cellVFind`), over
    eight distinct vertices between any two of which at most one live edge runs, satisfy `HexConv`: the
    opposite pairs use disjoint index sets, and the halfedge opposite to a top halfedge u→w is THE halfedge w→u,
    which the table puts into the side face at position 2,4,3,5.
  Proof-only file.
-/
namespace OVM
namespace Kernel
namespace HexAll
open Global ScanDel OVM.Gen.HexTables

/-- halfface `x` is a closed loop of four halfedges, on live edges, through the vertices `c` (from rotation `r` on) -/
def Cyc (k : Kernel) (x : Nat) (c : List Nat) : Prop :=
  x < k.nHF ∧ (k.hfHes x).length = 4 ∧ ∃ r, r < 4 ∧ ∀ j, j < 4 →
    Runs k ((k.hfHes x).getD j 0) (c.getD ((j + r) % 4) 0) (c.getD ((j + r + 1) % 4) 0)

theorem Ext.cyc {k k' : Kernel} (e : Ext k k') {x : Nat} {c : List Nat} (h : Cyc k x c) : Cyc k' x c := by
  obtain ⟨h1, h2, r, hr, h3⟩ := h
  refine ⟨by have := e.nF_le; unfold nHF nF at *; omega, by rw [e.hfHes h1]; exact h2, r, hr, fun j hj => ?_⟩
  rw [e.hfHes h1]; exact e.runs (h3 j hj)

/-- the halfedge of the loop that leaves the `m`-th vertex -/
theorem cyc_has_edge {k : Kernel} {x : Nat} {c : List Nat} (h : Cyc k x c) (m : Nat) (hm : m < 4) :
    ∃ e, e ∈ k.hfHes x ∧ Runs k e (c.getD m 0) (c.getD ((m + 1) % 4) 0) := by
  obtain ⟨_, h2, r, hr, h3⟩ := h
  refine ⟨(k.hfHes x).getD ((m + 4 - r) % 4) 0, getD_mem_lt _ _ (by rw [h2]; exact Nat.mod_lt _ (by omega)), ?_⟩
  have := h3 ((m + 4 - r) % 4) (Nat.mod_lt _ (by omega))
  have e1 : ((m + 4 - r) % 4 + r) % 4 = m := by omega
  have e2 : ((m + 4 - r) % 4 + r + 1) % 4 = (m + 1) % 4 := by omega
  rw [e1, e2] at this; exact this

theorem cyc_verts_mem {k : Kernel} {x : Nat} {c : List Nat} (h : Cyc k x c) (hc : c.length = 4) :
    ∀ u ∈ k.hfVerts x, u ∈ c := by
  obtain ⟨_, h2, r, _, h3⟩ := h
  intro u hu
  unfold hfVerts at hu
  obtain ⟨e, he, rfl⟩ := List.mem_map.mp hu
  obtain ⟨j, hj, rfl⟩ := List.getElem_of_mem he
  have := (h3 j (by omega)).2.2.1
  rw [List.getD_eq_getElem?_getD, List.getElem?_eq_getElem hj] at this
  simp only [Option.getD_some] at this
  rw [this]
  exact getD_mem_lt c _ (by rw [hc]; exact Nat.mod_lt _ (by omega))

/-- a halfedge that runs from `u` to `w` lies on a live edge joining them -/
theorem joins_of_runs {k : Kernel} {e u w : Nat} (h : Runs k e u w) : Joins k u w (eOf e) := by
  obtain ⟨_, hl, hf, ht⟩ := h
  refine ⟨hl, ?_⟩
  have hcase : e = 2 * eOf e ∨ e = 2 * eOf e + 1 := by unfold eOf; omega
  rcases hcase with hc | hc
  · left
    rw [hc, fromV_even] at hf; rw [hc, toV_even] at ht
    exact Prod.ext hf ht
  · right
    rw [hc, fromV_odd'] at hf; rw [hc, toV_odd] at ht
    exact Prod.ext ht hf

/-- with unique edges, the halfedge `w → u` IS the opposite of the halfedge `u → w` -/
theorem opp_of_runs {k : Kernel} {U : List Nat} (hu : UniqEdges k U) {a b u w : Nat} (ha : Runs k a u w)
    (hb : Runs k b w u) (hU : u ∈ U) (hW : w ∈ U) (hne : u ≠ w) : b = opp a := by
  have j1 := joins_of_runs ha
  have j2 := joins_of_runs hb
  have j2' : Joins k u w (eOf b) := ⟨j2.1, j2.2.symm⟩
  have he := hu _ _ u w hU hW j1 j2'
  have hab : a ≠ b := by
    intro e; subst e
    exact hne (ha.2.2.1.symm.trans hb.2.2.1)
  exact CellCheck.eq_opp_of_div_eq he hab

theorem disjointL_of_forall {a b : List Nat} (h : ∀ u ∈ a, u ∉ b) : disjointL a b = true := by
  unfold disjointL
  rw [List.all_eq_true]
  intro u hu
  simpa using h u hu

theorem specTop_idx : ∀ r, r < 4 → ∀ i, i < 4 → specOrderTop.getD ((i + (r + 3) % 4) % 4) 0 = [5, 2, 4, 3].getD ((i + r) % 4) 0 := by
  decide

/-- **six loops through the vertex quadruples of the source tables form a cell in convention** -/
theorem conv_of_cycles (k : Kernel) (v0 v1 v2 v3 v4 v5 v6 v7 x0 x1 x2 x3 x4 x5 : Nat)
    (hd : [v0, v1, v2, v3, v4, v5, v6, v7].Nodup) (hu : UniqEdges k [v0, v1, v2, v3, v4, v5, v6, v7])
    (c0 : Cyc k x0 [v3, v2, v1, v0]) (c1 : Cyc k x1 [v7, v6, v5, v4]) (c2 : Cyc k x2 [v1, v2, v6, v7])
    (c3 : Cyc k x3 [v4, v5, v3, v0]) (c4 : Cyc k x4 [v1, v7, v4, v0]) (c5 : Cyc k x5 [v2, v3, v5, v6]) :
    k.hexConvListB [x0, x1, x2, x3, x4, x5] = true := by
  simp only [List.nodup_cons, List.mem_cons, List.not_mem_nil, or_false, not_or, List.nodup_nil, and_true] at hd
  obtain ⟨⟨n01, n02, n03, n04, n05, n06, n07⟩, ⟨n12, n13, n14, n15, n16, n17⟩, ⟨n23, n24, n25, n26, n27⟩,
    ⟨n34, n35, n36, n37⟩, ⟨n45, n46, n47⟩, ⟨n56, n57⟩, n67⟩ := hd
  have mem : ∀ v, v ∈ [v0, v1, v2, v3, v4, v5, v6, v7] ↔ v = v0 ∨ v = v1 ∨ v = v2 ∨ v = v3 ∨ v = v4 ∨ v = v5 ∨ v = v6 ∨ v = v7 := by
    intro v; simp
  -- opposite pairs are vertex-disjoint
  have d01 : disjointL (k.hfVerts x0) (k.hfVerts x1) = true := by
    apply disjointL_of_forall
    intro u hu1 hu2
    have a := cyc_verts_mem c0 rfl u hu1
    have b := cyc_verts_mem c1 rfl u hu2
    simp only [List.mem_cons, List.not_mem_nil, or_false] at a b
    rcases a with rfl | rfl | rfl | rfl <;> rcases b with h | h | h | h <;> simp_all
  have d23 : disjointL (k.hfVerts x2) (k.hfVerts x3) = true := by
    apply disjointL_of_forall
    intro u hu1 hu2
    have a := cyc_verts_mem c2 rfl u hu1
    have b := cyc_verts_mem c3 rfl u hu2
    simp only [List.mem_cons, List.not_mem_nil, or_false] at a b
    rcases a with rfl | rfl | rfl | rfl <;> rcases b with h | h | h | h <;> simp_all
  have d45 : disjointL (k.hfVerts x4) (k.hfVerts x5) = true := by
    apply disjointL_of_forall
    intro u hu1 hu2
    have a := cyc_verts_mem c4 rfl u hu1
    have b := cyc_verts_mem c5 rfl u hu2
    simp only [List.mem_cons, List.not_mem_nil, or_false] at a b
    rcases a with rfl | rfl | rfl | rfl <;> rcases b with h | h | h | h <;> simp_all
  -- the walk around the first halfface
  obtain ⟨e0, e1, e2, e3, hh⟩ := length4_cases _ c0.2.1
  obtain ⟨_, _, r, hr, hrun⟩ := c0
  -- the side face across the `m`-th edge of the top loop
  have side : ∀ m, m < 4 → ∃ x, [x0, x1, x2, x3, x4, x5][[5, 2, 4, 3].getD m 0]? = some x ∧
      ∀ e, Runs k e ([v3, v2, v1, v0].getD m 0) ([v3, v2, v1, v0].getD ((m + 1) % 4) 0) → (k.hfHes x).contains (opp e) = true := by
    intro m hm
    have hm' : m = 0 ∨ m = 1 ∨ m = 2 ∨ m = 3 := by omega
    rcases hm' with rfl | rfl | rfl | rfl
    · refine ⟨x5, rfl, fun e he => ?_⟩
      obtain ⟨e', hm', hr'⟩ := cyc_has_edge c5 0 (by omega)
      have := opp_of_runs hu he hr' ((mem _).mpr (by simp)) ((mem _).mpr (by simp)) (Ne.symm n23)
      rw [← this]; simpa using hm'
    · refine ⟨x2, rfl, fun e he => ?_⟩
      obtain ⟨e', hm', hr'⟩ := cyc_has_edge c2 0 (by omega)
      have := opp_of_runs hu he hr' ((mem _).mpr (by simp)) ((mem _).mpr (by simp)) (Ne.symm n12)
      rw [← this]; simpa using hm'
    · refine ⟨x4, rfl, fun e he => ?_⟩
      obtain ⟨e', hm', hr'⟩ := cyc_has_edge c4 3 (by omega)
      have := opp_of_runs hu he hr' ((mem _).mpr (by simp)) ((mem _).mpr (by simp)) (Ne.symm n01)
      rw [← this]; simpa using hm'
    · refine ⟨x3, rfl, fun e he => ?_⟩
      obtain ⟨e', hm', hr'⟩ := cyc_has_edge c3 2 (by omega)
      have := opp_of_runs hu he hr' ((mem _).mpr (by simp)) ((mem _).mpr (by simp)) n03
      rw [← this]; simpa using hm'
  have hwalk : k.hexWalkAtB [x0, x1, x2, x3, x4, x5] 0 specOrderTop = true := by
    apply hexWalkAtB_of_spec k [x0, x1, x2, x3, x4, x5] 0 specOrderTop e0 e1 e2 e3 (by exact hh)
    refine ⟨(r + 3) % 4, Nat.mod_lt _ (by omega), fun i hi => ?_⟩
    rw [specTop_idx r hr i hi]
    obtain ⟨x, hx, hc⟩ := side ((i + r) % 4) (Nat.mod_lt _ (by omega))
    refine ⟨x, hx, hc _ ?_⟩
    have := hrun i hi
    rw [hh] at this
    have e2' : (i + r + 1) % 4 = ((i + r) % 4 + 1) % 4 := by omega
    rw [e2'] at this
    exact this
  unfold hexConvListB hexWalkB
  have e1' : k.hexOppDisjointB [x0, x1, x2, x3, x4, x5] =
      (disjointL (k.hfVerts x0) (k.hfVerts x1) && (disjointL (k.hfVerts x2) (k.hfVerts x3) &&
        (disjointL (k.hfVerts x4) (k.hfVerts x5) && true))) := rfl
  rw [e1', d01, d23, d45, hwalk]; rfl

/-! ### faces that pre-exist: found by `find_halfface_extensive`, in any rotation, on either side -/

/-- the four halfedges of halfface `x` are chained: each ends where the next one starts -/
def HfLoop (k : Kernel) (x : Nat) : Prop :=
  ∀ j, j < 4 → k.toV ((k.hfHes x).getD j 0) = k.fromV ((k.hfHes x).getD ((j + 1) % 4) 0)

theorem length_rotateLeft' {α} (l : List α) (n : Nat) : (l.rotateLeft n).length = l.length := by
  unfold List.rotateLeft
  simp only []
  split
  · rfl
  · simp only [List.length_append, List.length_drop, List.length_take]
    have : n % l.length < l.length := Nat.mod_lt _ (by omega)
    omega

theorem hfHes_liveE {k : Kernel} (hw : WF k) (hcl : Closed k) {x : Nat} (hl : k.liveF (eOf x) = true) {a : Nat}
    (ha : a ∈ k.hfHes x) : a < k.nHE ∧ k.liveE (eOf a) = true := by
  have hlt := hfHes_lt hw x a ha
  refine ⟨hlt, ?_⟩
  have hd : k.eDeleted (eOf a) = false := by
    rcases hfHes_face k x a ha with h1 | h1
    · exact hcl.e _ hl a h1
    · have := hcl.e _ hl _ h1; rwa [eOf_opp] at this
  unfold Kernel.liveE; rw [hd]; simp; unfold eOf nHE nE at *; omega

theorem cyc_of_found {k : Kernel} (hi : GInv k) (hv : k.vBU = true) (he : k.eBU = true) (a b c d x : Nat) (ha : a < k.nV)
    (hf : k.findHalffaceExtensive [a, b, c, d] = some x) (hloop : HfLoop k x) : Cyc k x [a, b, c, d] := by
  obtain ⟨hx, hl, i, hil, hrot⟩ := Props.C10.findHalffaceExtensive_sound k hi.wf.cache hv he a b [c, d] x ha hf
  have hlen : (k.hfHes x).length = 4 := by
    have := congrArg List.length hrot
    rw [length_rotateLeft'] at this
    simpa [hfVerts] using this
  obtain ⟨h0, h1, h2, h3, hh⟩ := length4_cases _ hlen
  have hlive : ∀ e ∈ k.hfHes x, e < k.nHE ∧ k.liveE (eOf e) = true := fun e hm => hfHes_liveE hi.wf hi.closed hl hm
  rw [hh] at hlive
  have l0 := hlive h0 (by simp)
  have l1 := hlive h1 (by simp)
  have l2 := hlive h2 (by simp)
  have l3 := hlive h3 (by simp)
  have t0 := hloop 0 (by omega)
  have t1 := hloop 1 (by omega)
  have t2 := hloop 2 (by omega)
  have t3 := hloop 3 (by omega)
  rw [hh] at t0 t1 t2 t3
  simp only [List.getD_cons_zero, List.getD_cons_succ, Nat.reduceAdd, Nat.reduceMod] at t0 t1 t2 t3
  unfold hfVerts at hrot
  rw [hh] at hrot hil
  refine ⟨hx, hlen, ?_⟩
  rw [hh]
  have hi4 : i = 0 ∨ i = 1 ∨ i = 2 ∨ i = 3 := by simp at hil; omega
  rcases hi4 with rfl | rfl | rfl | rfl
  · simp [List.rotateLeft] at hrot
    obtain ⟨f0, f1, f2, f3⟩ := hrot
    refine ⟨0, by omega, fun j hj => ?_⟩
    have hj4 : j = 0 ∨ j = 1 ∨ j = 2 ∨ j = 3 := by omega
    rcases hj4 with rfl | rfl | rfl | rfl
    · exact ⟨l0.1, l0.2, f0, t0.trans f1⟩
    · exact ⟨l1.1, l1.2, f1, t1.trans f2⟩
    · exact ⟨l2.1, l2.2, f2, t2.trans f3⟩
    · exact ⟨l3.1, l3.2, f3, t3.trans f0⟩
  · simp [List.rotateLeft] at hrot
    obtain ⟨f1, f2, f3, f0⟩ := hrot
    refine ⟨3, by omega, fun j hj => ?_⟩
    have hj4 : j = 0 ∨ j = 1 ∨ j = 2 ∨ j = 3 := by omega
    rcases hj4 with rfl | rfl | rfl | rfl
    · exact ⟨l0.1, l0.2, f0, t0.trans f1⟩
    · exact ⟨l1.1, l1.2, f1, t1.trans f2⟩
    · exact ⟨l2.1, l2.2, f2, t2.trans f3⟩
    · exact ⟨l3.1, l3.2, f3, t3.trans f0⟩
  · simp [List.rotateLeft] at hrot
    obtain ⟨f2, f3, f0, f1⟩ := hrot
    refine ⟨2, by omega, fun j hj => ?_⟩
    have hj4 : j = 0 ∨ j = 1 ∨ j = 2 ∨ j = 3 := by omega
    rcases hj4 with rfl | rfl | rfl | rfl
    · exact ⟨l0.1, l0.2, f0, t0.trans f1⟩
    · exact ⟨l1.1, l1.2, f1, t1.trans f2⟩
    · exact ⟨l2.1, l2.2, f2, t2.trans f3⟩
    · exact ⟨l3.1, l3.2, f3, t3.trans f0⟩
  · simp [List.rotateLeft] at hrot
    obtain ⟨f3, f0, f1, f2⟩ := hrot
    refine ⟨1, by omega, fun j hj => ?_⟩
    have hj4 : j = 0 ∨ j = 1 ∨ j = 2 ∨ j = 3 := by omega
    rcases hj4 with rfl | rfl | rfl | rfl
    · exact ⟨l0.1, l0.2, f0, t0.trans f1⟩
    · exact ⟨l1.1, l1.2, f1, t1.trans f2⟩
    · exact ⟨l2.1, l2.2, f2, t2.trans f3⟩
    · exact ⟨l3.1, l3.2, f3, t3.trans f0⟩

/-! ### the find-or-create loop of `add_cell(8 vertices)` (cc:300-378) -/

/-- every halfface variable that is set holds a loop through the vertex quadruple of its table row -/
def SlotsOK (k' : Kernel) (vs : List Nat) (sl : List (Option Nat)) : Prop :=
  sl.length = 6 ∧ ∀ i, i < 6 → ∀ x, sl.getD i none = some x → Cyc k' x (hexPick vs (cellVFind.getD i []))

structure FoldInv (vs : List Nat) (st : Kernel × List (Option Nat)) : Prop where
  ginv : GInv st.1
  vok : ∀ v ∈ vs, VOk st.1 v
  uniq : UniqEdges st.1 vs
  slots : SlotsOK st.1 vs st.2

theorem cellVAdd_valid : ∀ a ∈ cellVAdd, a.1 < 6 ∧ a.2.1 = cellVFind.getD a.1 [] ∧ a.2.2 = 0 ∧ a.2.1.length = 4 ∧
    ∀ i ∈ a.2.1, i < 8 := by decide

theorem getD_set_opt (l : List (Option Nat)) (i j : Nat) (v : Option Nat) (hi : i < l.length) :
    (l.set i v).getD j none = if i = j then v else l.getD j none := by
  simp only [List.getD_eq_getElem?_getD, List.getElem?_set]
  by_cases e : i = j
  · subst e; simp [hi]
  · simp [e]

theorem foldInv_step (vs : List Nat) (hl : vs.length = 8) (st : Kernel × List (Option Nat)) (a : Nat × List Nat × Nat)
    (ha : a.1 < 6 ∧ a.2.1 = cellVFind.getD a.1 [] ∧ a.2.2 = 0 ∧ a.2.1.length = 4 ∧ ∀ i ∈ a.2.1, i < 8)
    (hI : FoldInv vs st) : FoldInv vs (hexCellVStep vs st a) := by
  obtain ⟨ha1, ha2, ha3, ha4, ha5⟩ := ha
  unfold hexCellVStep
  split
  · exact hI
  · obtain ⟨p0, p1, p2, p3, hp⟩ := length4_cases _ ha4
    have hpick : hexPick vs a.2.1 = [vs.getD p0 0, vs.getD p1 0, vs.getD p2 0, vs.getD p3 0] := by rw [hp]; rfl
    have hmemvs : ∀ v ∈ hexPick vs a.2.1, v ∈ vs := hexPick_mem vs _ (fun i hi => by rw [hl]; exact ha5 i hi)
    have hv : ∀ v ∈ vs.getD p0 0 :: [vs.getD p1 0, vs.getD p2 0, vs.getD p3 0], v < st.1.nV := by
      intro v hm; rw [← hpick] at hm; exact (hI.vok v (hmemvs v hm)).1
    obtain ⟨s1, s2, s3, s4, s5, s6, s7, s8⟩ :=
      addFaceV_spec hI.ginv.wf (vs.getD p0 0) [vs.getD p1 0, vs.getD p2 0, vs.getD p3 0] hv vs hI.uniq
    rw [hpick]
    refine ⟨ginv_addFaceV (fun v hm => by rw [← hpick] at hm; exact hI.vok v (hmemvs v hm)) hI.ginv,
      fun v hm => vOk_ext s2 (hI.vok v hm), s4, ?_, ?_⟩
    · simp only [List.length_set]; exact hI.slots.1
    · intro i hi x hx
      simp only [] at hx
      rw [getD_set_opt _ _ _ _ (by rw [hI.slots.1]; exact ha1)] at hx
      split at hx
      · rename_i e
        subst e
        rw [s1] at hx
        simp only [Option.map_some, Option.some.injEq] at hx
        subst hx
        rw [ha3, ← ha2, hpick]
        have hxe : eOf (heOf st.1.nF 0) = st.1.nF := by unfold eOf heOf; omega
        have hxs : side (heOf st.1.nF 0) = 0 := by unfold side heOf; omega
        have hhes : (st.1.addFaceV [vs.getD p0 0, vs.getD p1 0, vs.getD p2 0, vs.getD p3 0]).1.hfHes (heOf st.1.nF 0) =
            (st.1.addFaceV [vs.getD p0 0, vs.getD p1 0, vs.getD p2 0, vs.getD p3 0]).1.faceAt st.1.nF := by
          unfold Kernel.hfHes; rw [hxe, hxs]; rfl
        refine ⟨by unfold nHF heOf; unfold nF at s5; rw [s5]; unfold nF; omega, by rw [hhes]; exact s7, 0, by omega, fun j hj => ?_⟩
        rw [hhes]
        have e1 : (j + 0) % 4 = j := by omega
        have e2 : (j + 0 + 1) % 4 = (j + 1) % 4 := by omega
        rw [e1, e2]
        exact s8 j (by simpa using hj)
      · exact s2.cyc (hI.slots.2 i hi x hx)

theorem foldInv_fold (vs : List Nat) (hl : vs.length = 8) (adds : List (Nat × List Nat × Nat))
    (hadds : ∀ a ∈ adds, a.1 < 6 ∧ a.2.1 = cellVFind.getD a.1 [] ∧ a.2.2 = 0 ∧ a.2.1.length = 4 ∧ ∀ i ∈ a.2.1, i < 8)
    (st : Kernel × List (Option Nat)) (hI : FoldInv vs st) : FoldInv vs (adds.foldl (hexCellVStep vs) st) := by
  induction adds generalizing st with
  | nil => exact hI
  | cons a t ih =>
    simp only [List.foldl_cons]
    exact ih (fun b hb => hadds b (List.mem_cons_of_mem _ hb)) _
      (foldInv_step vs hl st a (hadds a (List.mem_cons_self ..)) hI)

/-- an accepting `add_cell(8 vertices)`: all six halfface variables were found or created, and the call is the
    unchecked base-class `add_cell` on them, in the order of `cellVOrder` -/
theorem hexAddCellV_some (k : Kernel) (vs : List Nat) (chk : Bool) (c : Nat) (h : (k.hexAddCellV vs chk).2 = some c) :
    k.fullBU = true ∧ vs.length = 8 ∧
    (cellVOrder.map (fun i => (cellVAdd.foldl (hexCellVStep vs) (k, cellVFind.map (fun idxs => k.findHalffaceExtensive (hexPick vs idxs)))).2.getD i none)).all (·.isSome) = true ∧
    k.hexAddCellV vs chk = (cellVAdd.foldl (hexCellVStep vs) (k, cellVFind.map (fun idxs => k.findHalffaceExtensive (hexPick vs idxs)))).1.addCell
      ((cellVOrder.map (fun i => (cellVAdd.foldl (hexCellVStep vs) (k, cellVFind.map (fun idxs => k.findHalffaceExtensive (hexPick vs idxs)))).2.getD i none)).filterMap id) false := by
  unfold hexAddCellV at h ⊢
  split at h
  · simp at h
  · rename_i hfull
    split at h
    · simp at h
    · rename_i hl8
      simp only [hfull, hl8, if_false, Bool.false_eq_true] at h ⊢
      generalize (cellVAdd.foldl (hexCellVStep vs) (k, cellVFind.map (fun idxs => k.findHalffaceExtensive (hexPick vs idxs)))) = st at h ⊢
      split at h
      · simp at h
      · rename_i hsome
        have hall : (cellVOrder.map (fun i => st.2.getD i none)).all (·.isSome) = true := by
          simp only [List.any_eq_true, not_exists, not_and, Bool.not_eq_true] at hsome
          rw [List.all_eq_true]
          intro x hx
          have := hsome x hx
          cases x <;> simp_all
        refine ⟨by simpa using hfull, by simpa using hl8, hall, ?_⟩
        simp only [hsome, if_false, Bool.false_eq_true]
        repeat' split at h
        all_goals first | (simp at h; done) | simp_all

theorem length8_cases {α} (l : List α) (h : l.length = 8) : ∃ a b c d e f g i, l = [a, b, c, d, e, f, g, i] := by
  match l, h with
  | [a, b, c, d, e, f, g, i], _ => exact ⟨a, b, c, d, e, f, g, i, rfl⟩

/-- **`add_cell(8 vertices)` creates a cell in convention.**  `k` satisfies the reachability invariant; the eight
    vertices are valid and pairwise distinct; between any two of them at most one live edge runs; every halfface
    that one of the six look-ups `find_halfface_extensive` returns is a closed loop (`HfLoop`: faces made by
    `add_face(vertices)` or accepted by the checked `add_face(halfedges)` are).  Then an accepting call — all six
    faces fresh, or any of them pre-existing in any rotation and on either side — stores a `HexConv` cell. -/
theorem hexAddCellV_conv (k : Kernel) (vs : List Nat) (chk : Bool) (hi : GInv k) (hvs : ∀ v ∈ vs, VOk k v) (hd : vs.Nodup)
    (hu : UniqEdges k vs)
    (hloop : ∀ I ∈ cellVFind, ∀ x, k.findHalffaceExtensive (hexPick vs I) = some x → HfLoop k x)
    (c : Nat) (h : (k.hexAddCellV vs chk).2 = some c) : (k.hexAddCellV vs chk).1.hexConvB c = true := by
  obtain ⟨hfull, hl, hall, heq⟩ := hexAddCellV_some k vs chk c h
  have hbu : k.vBU = true ∧ k.eBU = true := by
    unfold fullBU at hfull; simp only [Bool.and_eq_true] at hfull; exact ⟨hfull.1.1, hfull.1.2⟩
  obtain ⟨v0, v1, v2, v3, v4, v5, v6, v7, rfl⟩ := length8_cases vs hl
  -- the invariant of the find-or-create loop at its start: what was found
  have hI0 : FoldInv [v0, v1, v2, v3, v4, v5, v6, v7]
      (k, cellVFind.map (fun idxs => k.findHalffaceExtensive (hexPick [v0, v1, v2, v3, v4, v5, v6, v7] idxs))) := by
    refine ⟨hi, hvs, hu, by simp [cellVFind], ?_⟩
    intro i hi6 x hx
    have hi' : i = 0 ∨ i = 1 ∨ i = 2 ∨ i = 3 ∨ i = 4 ∨ i = 5 := by omega
    have hlt : ∀ v ∈ [v0, v1, v2, v3, v4, v5, v6, v7], v < k.nV := fun v hv => (hvs v hv).1
    rcases hi' with rfl | rfl | rfl | rfl | rfl | rfl
    · exact cyc_of_found hi hbu.1 hbu.2 v3 v2 v1 v0 x (hlt _ (by simp)) hx (hloop [3, 2, 1, 0] (by simp [cellVFind]) x hx)
    · exact cyc_of_found hi hbu.1 hbu.2 v7 v6 v5 v4 x (hlt _ (by simp)) hx (hloop [7, 6, 5, 4] (by simp [cellVFind]) x hx)
    · exact cyc_of_found hi hbu.1 hbu.2 v1 v2 v6 v7 x (hlt _ (by simp)) hx (hloop [1, 2, 6, 7] (by simp [cellVFind]) x hx)
    · exact cyc_of_found hi hbu.1 hbu.2 v4 v5 v3 v0 x (hlt _ (by simp)) hx (hloop [4, 5, 3, 0] (by simp [cellVFind]) x hx)
    · exact cyc_of_found hi hbu.1 hbu.2 v1 v7 v4 v0 x (hlt _ (by simp)) hx (hloop [1, 7, 4, 0] (by simp [cellVFind]) x hx)
    · exact cyc_of_found hi hbu.1 hbu.2 v2 v3 v5 v6 x (hlt _ (by simp)) hx (hloop [2, 3, 5, 6] (by simp [cellVFind]) x hx)
  have hI := foldInv_fold _ rfl cellVAdd cellVAdd_valid _ hI0
  generalize (cellVAdd.foldl (hexCellVStep [v0, v1, v2, v3, v4, v5, v6, v7])
    (k, cellVFind.map (fun idxs => k.findHalffaceExtensive (hexPick [v0, v1, v2, v3, v4, v5, v6, v7] idxs)))) = st
    at hI hall heq
  -- the six halffaces
  have hsome : ∀ i, i < 6 → ∃ x, st.2.getD i none = some x := by
    intro i hi6
    rw [List.all_eq_true] at hall
    have := hall (st.2.getD i none) (List.mem_map.mpr ⟨i, by simp [cellVOrder]; omega, rfl⟩)
    exact Option.isSome_iff_exists.mp this
  obtain ⟨x0, h0⟩ := hsome 0 (by omega)
  obtain ⟨x1, h1⟩ := hsome 1 (by omega)
  obtain ⟨x2, h2⟩ := hsome 2 (by omega)
  obtain ⟨x3, h3⟩ := hsome 3 (by omega)
  obtain ⟨x4, h4⟩ := hsome 4 (by omega)
  obtain ⟨x5, h5⟩ := hsome 5 (by omega)
  have hhfs : (cellVOrder.map (fun i => st.2.getD i none)).filterMap id = [x0, x1, x2, x3, x4, x5] := by
    have e : cellVOrder.map (fun i => st.2.getD i none) = [some x0, some x1, some x2, some x3, some x4, some x5] := by
      show [st.2.getD 0 none, st.2.getD 1 none, st.2.getD 2 none, st.2.getD 3 none, st.2.getD 4 none, st.2.getD 5 none] = _
      rw [h0, h1, h2, h3, h4, h5]
    rw [e]; rfl
  rw [hhfs] at heq
  have hconv : st.1.hexConvListB [x0, x1, x2, x3, x4, x5] = true :=
    conv_of_cycles st.1 v0 v1 v2 v3 v4 v5 v6 v7 x0 x1 x2 x3 x4 x5 hd hI.uniq
      (hI.slots.2 0 (by omega) x0 h0) (hI.slots.2 1 (by omega) x1 h1) (hI.slots.2 2 (by omega) x2 h2)
      (hI.slots.2 3 (by omega) x3 h3) (hI.slots.2 4 (by omega) x4 h4) (hI.slots.2 5 (by omega) x5 h5)
  -- the base class appends them as given
  rw [heq] at h ⊢
  have hacc : st.1.addCellAccepts [x0, x1, x2, x3, x4, x5] false = true := by unfold addCellAccepts; simp
  unfold addCell at h ⊢
  rw [if_pos hacc] at h ⊢
  have hc : c = st.1.nC := by simpa using h.symm
  subst hc
  unfold hexConvB Kernel.cellAt
  rw [addCellCore_cells, conv_congr (addCellCore_edges st.1 _) (addCellCore_faces st.1 _)]
  have : (st.1.cells ++ [[x0, x1, x2, x3, x4, x5]]).getD st.1.nC [] = [x0, x1, x2, x3, x4, x5] := getD_snoc_eq _ _ _
  rw [this]; exact hconv

end HexAll
end Kernel
end OVM

import OVM.Hex.FrameClassify
import OVM.Hex.ApiAll
import OVM.Hex.SheetAdj
/-
  C16: the cube structure of EVERY live cell is an invariant of histories through the public hex API.
  * `CubeProp k l`: the list `l` of six halffaces is in convention (`hexConvListB`), a closed surface, and made of
    proper loop quads (`QuadP`: four halfedges, four distinct source vertices, each halfedge ends where the next one
    starts — written with `fromV (opp e)` so that only sources of the cell's own halfedges are read).  `cubeP` is its
    Boolean form.  By the classification (`cycles_of_conv`, `frame_of_conv`) a live cell of a reachable state with
    `CubeProp` has cube cycles and is a `Frame`.
  * `cubePred : CellPred cubeP`: the predicate is invariant under every consistent renaming of halffaces / halfedges /
    vertices (`CellMap`), so the generic machinery of OVM/Hex/Stable.lean / ConvAll.lean (`pred_run`) carries it through
    deletions in every mode, the four index swaps, the shifting erase stages and garbage collection.
  * creating calls: the checked `add_cell(halffaces)` on proper loop quads and `add_cell(8 vertices)` under the conditions
    of `add_cell_vertices_conv` establish it for the new cell (`CubeOpOK`, `predOpOK_of_cube`).
  Proof-only file.
-/
namespace OVM
namespace Kernel
namespace HexAll
open Global ScanDel OVM.Gen.HexTables

/-- a proper loop quad, reading only sources of halfedges of the cell (`fromV (opp e) = toV e`) -/
def QuadP (k : Kernel) (x : Nat) : Prop :=
  (k.hfHes x).length = 4 ∧ (k.hfVerts x).Nodup ∧
    ∀ j, j < 4 → k.fromV (opp ((k.hfHes x).getD j 0)) = k.fromV ((k.hfHes x).getD ((j + 1) % 4) 0)

instance (k : Kernel) (x : Nat) : Decidable (QuadP k x) := by unfold QuadP; exact inferInstance

theorem quadP_iff {k : Kernel} {x : Nat} : QuadP k x ↔ (k.hfHes x).length = 4 ∧ ProperQuad k x := by
  unfold QuadP ProperQuad HfLoop
  simp only [Lookup.fromV_opp]
  exact ⟨fun ⟨a, b, c⟩ => ⟨a, c, b⟩, fun ⟨a, c, b⟩ => ⟨a, b, c⟩⟩

def CubeProp (k : Kernel) (l : List Nat) : Prop :=
  k.hexConvListB l = true ∧ ClosedSurface k l ∧ ∀ x ∈ l, QuadP k x

instance (k : Kernel) (l : List Nat) : Decidable (CubeProp k l) := by unfold CubeProp; exact inferInstance

def cubeP (k : Kernel) (l : List Nat) : Bool := decide (CubeProp k l)

theorem cubeP_iff {k : Kernel} {l : List Nat} : cubeP k l = true ↔ CubeProp k l := by unfold cubeP; simp

/-! ### invariance under renaming -/

theorem flatMap_congr' {α β} (f g : α → List β) : ∀ (l : List α), (∀ x ∈ l, f x = g x) → l.flatMap f = l.flatMap g := by
  intro l
  induction l with
  | nil => intro _; rfl
  | cons a t ih =>
    intro h
    rw [List.flatMap_cons, List.flatMap_cons, h a (List.mem_cons_self ..), ih (fun x hx => h x (List.mem_cons_of_mem _ hx))]

theorem nodup_of_map (f : Nat → Nat) : ∀ (l : List Nat), (l.map f).Nodup → l.Nodup := by
  intro l
  induction l with
  | nil => intro _; exact List.nodup_nil
  | cons a t ih =>
    intro h
    rw [List.map_cons, List.nodup_cons] at h
    exact List.nodup_cons.mpr ⟨fun hm => h.1 (List.mem_map.mpr ⟨a, hm, rfl⟩), ih h.2⟩

section transport
variable {k k' : Kernel} {hfs : List Nat} {ρ σ τ : Nat → Nat} {R S : Nat → Prop}

theorem CellMap.halfedges (m : CellMap k k' hfs ρ σ τ R S) : k'.cellHalfedges (hfs.map ρ) = (k.cellHalfedges hfs).map σ := by
  unfold cellHalfedges
  rw [List.flatMap_map, List.map_flatMap]
  exact flatMap_congr' _ _ hfs (fun x hx => m.hes x hx)

theorem CellMap.relH (m : CellMap k k' hfs ρ σ τ R S) {a : Nat} (ha : a ∈ k.cellHalfedges hfs) : R a ∧ R (opp a) := by
  obtain ⟨x, hx, hax⟩ := List.mem_flatMap.mp ha
  exact m.srel x hx a hax

theorem CellMap.closed_iff (m : CellMap k k' hfs ρ σ τ R S) : ClosedSurface k' (hfs.map ρ) ↔ ClosedSurface k hfs := by
  unfold ClosedSurface
  rw [m.halfedges]
  have hinj : ∀ a ∈ k.cellHalfedges hfs, ∀ b ∈ k.cellHalfedges hfs, σ a = σ b → a = b :=
    fun a ha b hb e => m.sinj a b (m.relH ha).1 (m.relH hb).1 e
  have hnd : ((k.cellHalfedges hfs).map σ).Nodup ↔ (k.cellHalfedges hfs).Nodup :=
    ⟨nodup_of_map σ _, fun h => nodup_map_on σ _ h hinj⟩
  have hopp : (∀ h ∈ (k.cellHalfedges hfs).map σ, opp h ∈ (k.cellHalfedges hfs).map σ) ↔
      ∀ a ∈ k.cellHalfedges hfs, opp a ∈ k.cellHalfedges hfs := by
    constructor
    · intro h a ha
      obtain ⟨b, hb, e⟩ := List.mem_map.mp (h (σ a) (List.mem_map.mpr ⟨a, ha, rfl⟩))
      rw [← m.sopp a (m.relH ha).1] at e
      rw [← m.sinj b (opp a) (m.relH hb).1 (m.relH ha).2 e]; exact hb
    · intro h x hx
      obtain ⟨a, ha, rfl⟩ := List.mem_map.mp hx
      rw [← m.sopp a (m.relH ha).1]
      exact List.mem_map.mpr ⟨opp a, h a ha, rfl⟩
  rw [hnd, hopp]

theorem CellMap.quad_iff (m : CellMap k k' hfs ρ σ τ R S) (hcl : ClosedSurface k hfs) {x : Nat} (hx : x ∈ hfs) :
    QuadP k' (ρ x) ↔ QuadP k x := by
  unfold QuadP
  rw [m.verts hx, m.hes x hx, List.length_map]
  have hvn : ((k.hfVerts x).map τ).Nodup ↔ (k.hfVerts x).Nodup := by
    refine ⟨nodup_of_map τ _, fun h => nodup_map_on τ _ h ?_⟩
    intro u hu v hv e
    unfold hfVerts at hu hv
    obtain ⟨a, ha, rfl⟩ := List.mem_map.mp hu
    obtain ⟨b, hb, rfl⟩ := List.mem_map.mp hv
    exact m.tinj _ _ (m.trel x hx a ha) (m.trel x hx b hb) e
  rw [hvn]
  by_cases h4 : (k.hfHes x).length = 4
  · have key : ∀ j, j < 4 → (k'.fromV (opp (((k.hfHes x).map σ).getD j 0)) = k'.fromV (((k.hfHes x).map σ).getD ((j + 1) % 4) 0) ↔
        k.fromV (opp ((k.hfHes x).getD j 0)) = k.fromV ((k.hfHes x).getD ((j + 1) % 4) 0)) := by
      intro j hj
      have hj' : (j + 1) % 4 < 4 := Nat.mod_lt _ (by omega)
      rw [getD_map_lt _ σ j (by omega), getD_map_lt _ σ _ (by omega)]
      have ha : (k.hfHes x).getD j 0 ∈ k.hfHes x := getD_mem_lt _ j (by omega)
      have hb : (k.hfHes x).getD ((j + 1) % 4) 0 ∈ k.hfHes x := getD_mem_lt _ _ (by omega)
      have hao : opp ((k.hfHes x).getD j 0) ∈ k.cellHalfedges hfs := hcl.2 _ (List.mem_flatMap.mpr ⟨x, hx, ha⟩)
      obtain ⟨y, hy, hay⟩ := List.mem_flatMap.mp hao
      rw [← m.sopp _ (m.srel x hx _ ha).1, m.vts y hy _ hay, m.vts x hx _ hb]
      exact ⟨fun e => m.tinj _ _ (m.trel y hy _ hay) (m.trel x hx _ hb) e, fun e => by rw [e]⟩
    constructor
    · rintro ⟨a, b, c⟩; exact ⟨a, b, fun j hj => (key j hj).mp (c j hj)⟩
    · rintro ⟨a, b, c⟩; exact ⟨a, b, fun j hj => (key j hj).mpr (c j hj)⟩
  · constructor <;> (rintro ⟨a, _, _⟩; exact absurd a h4)

theorem CellMap.cube_iff (m : CellMap k k' hfs ρ σ τ R S) : CubeProp k' (hfs.map ρ) ↔ CubeProp k hfs := by
  unfold CubeProp
  rw [conv_transport m, m.closed_iff]
  constructor
  · rintro ⟨a, b, c⟩
    exact ⟨a, b, fun x hx => (m.quad_iff b hx).mp (c (ρ x) (List.mem_map.mpr ⟨x, hx, rfl⟩))⟩
  · rintro ⟨a, b, c⟩
    refine ⟨a, b, fun y hy => ?_⟩
    obtain ⟨x, hx, rfl⟩ := List.mem_map.mp hy
    exact (m.quad_iff b hx).mpr (c x hx)

end transport

theorem cubePred : CellPred cubeP :=
  ⟨fun m => by rw [Bool.eq_iff_iff, cubeP_iff, cubeP_iff]; exact m.cube_iff⟩

/-- every live cell has the cube structure -/
def CubeAll (k : Kernel) : Prop := AllCells cubeP k


/-! ### from the predicate to cube cycles / frames, on reachable states -/

theorem cubeProp_parts {k : Kernel} (hg : GInv k) {c : Nat} (hl : k.liveC c = true) (hp : CubeProp k (k.cellAt c)) :
    ∃ h0 h1 h2 h3 h4 h5, k.cellAt c = [h0, h1, h2, h3, h4, h5] ∧
      (∀ x ∈ [h0, h1, h2, h3, h4, h5], (k.hfHes x).length = 4) ∧ (∀ x ∈ [h0, h1, h2, h3, h4, h5], ProperQuad k x) ∧
      (∀ x ∈ [h0, h1, h2, h3, h4, h5], x < k.nHF ∧ ∀ e ∈ k.hfHes x, e < k.nHE ∧ k.liveE (eOf e) = true) ∧
      ClosedSurface k [h0, h1, h2, h3, h4, h5] ∧ k.hexConvListB [h0, h1, h2, h3, h4, h5] = true := by
  obtain ⟨hconv, hcl, hq⟩ := hp
  have hl6 : (k.cellAt c).length = 6 := by
    unfold hexConvListB at hconv; simp only [Bool.and_eq_true, beq_iff_eq] at hconv; exact hconv.1.1
  have hval : ∀ x ∈ k.cellAt c, x < k.nHF ∧ ∀ e ∈ k.hfHes x, e < k.nHE ∧ k.liveE (eOf e) = true := by
    intro x hx
    have hlt : x < k.nHF := hg.wf.range.cells _ (cellAt_mem_cells (liveC_lt hl)) _ hx
    have hd := hg.closed.f c hl x hx
    have hlf : k.liveF (eOf x) = true := by
      unfold liveF; rw [hd]; simp; unfold eOf nHF nF at *; omega
    exact ⟨hlt, fun e he => hfHes_liveE hg.wf hg.closed hlf he⟩
  obtain ⟨h0, h1, h2, h3, h4, h5, e⟩ := length6_cases _ hl6
  rw [e] at hconv hcl hq hval
  exact ⟨h0, h1, h2, h3, h4, h5, e, fun x hx => (hq x hx).1, fun x hx => (quadP_iff.mp (hq x hx)).2, hval, hcl, hconv⟩

/-- **a live cell with `CubeProp` on a reachable state has cube cycles** -/
theorem cube_cycles_of_prop {k : Kernel} (hg : GInv k) {c : Nat} (hl : k.liveC c = true) (hp : CubeProp k (k.cellAt c)) :
    ∃ x0 x1 x2 x3 x4 x5 v0 v1 v2 v3 v4 v5 v6 v7, k.cellAt c = [x0, x1, x2, x3, x4, x5] ∧
      [v0, v1, v2, v3, v4, v5, v6, v7].Nodup ∧
      Cyc k x0 [v3, v2, v1, v0] ∧ Cyc k x1 [v7, v6, v5, v4] ∧ Cyc k x2 [v1, v2, v6, v7] ∧
      Cyc k x3 [v4, v5, v3, v0] ∧ Cyc k x4 [v1, v7, v4, v0] ∧ Cyc k x5 [v2, v3, v5, v6] := by
  obtain ⟨h0, h1, h2, h3, h4, h5, e, hlen, hpq, hval, hcl, hconv⟩ := cubeProp_parts hg hl hp
  obtain ⟨v0, v1, v2, v3, v4, v5, v6, v7, hnd, _, c0, c1, c2, c3, c4, c5⟩ := cycles_of_conv hlen hpq hval hcl hconv
  exact ⟨h0, h1, h2, h3, h4, h5, v0, v1, v2, v3, v4, v5, v6, v7, e, hnd, c0, c1, c2, c3, c4, c5⟩

/-- … and is a `Frame` -/
theorem frame_of_prop {k : Kernel} (hg : GInv k) {c : Nat} (hl : k.liveC c = true) (hp : CubeProp k (k.cellAt c)) :
    ∃ vs rot, Frame k vs (k.cellAt c) rot := by
  obtain ⟨h0, h1, h2, h3, h4, h5, e, hlen, hpq, hval, hcl, hconv⟩ := cubeProp_parts hg hl hp
  rw [e]
  exact frame_of_conv hlen hpq hval hcl hconv

/-! ### a frame has the predicate -/

theorem tbl_quad_nodup : ∀ i, i < 6 → ∀ r, r < 4 → [II i r, II i (r + 1), II i (r + 2), II i (r + 3)].Nodup ∧
    ∀ p ∈ [II i r, II i (r + 1), II i (r + 2), II i (r + 3)], p < 8 := by decide

theorem Frame.quadP {k : Kernel} {vs xs : List Nat} {rot : Nat → Nat} (F : Frame k vs xs rot) {i : Nat} (hi : i < 6) :
    QuadP k (xs.getD i 0) := by
  refine ⟨F.len i hi, ?_, fun j hj => ?_⟩
  · rw [F.hfVerts_eq hi]
    obtain ⟨hn, hlt⟩ := tbl_quad_nodup i hi (rot i) (F.rlt i hi)
    have := nodup_map_on (fun p => vs.getD p 0) _ hn (fun a ha b hb e => F.vinj (hlt a ha) (hlt b hb) e)
    simpa using this
  · have r1 := F.run i hi j hj
    have r2 := F.run i hi ((j + 1) % 4) (Nat.mod_lt _ (by omega))
    rw [Lookup.fromV_opp, r1.2.2.2, r2.2.2.1]
    congr 1
    exact II_congr i (by omega)

theorem Frame.cubeProp {k : Kernel} {vs xs : List Nat} {rot : Nat → Nat} (F : Frame k vs xs rot)
    (hconv : k.hexConvListB xs = true) : CubeProp k xs :=
  ⟨hconv, F.closed, fun x hx => by obtain ⟨i, hi, rfl⟩ := F.idx_of_mem hx; exact F.quadP hi⟩

/-! ### the creating calls -/

/-- the checked `add_cell(halffaces)` on proper loop quads stores a cell with the predicate -/
theorem cubeP_checked (k : Kernel) (hfs : List Nat) (c : Nat) (hpq : ∀ hf ∈ hfs, ProperQuad k hf)
    (h : (k.hexAddCell hfs true).2 = some c) :
    cubeP (k.hexAddCell hfs true).1 ((k.hexAddCell hfs true).1.cellAt c) = true := by
  obtain ⟨l, hcell, heq, hmem, hprop⟩ := hexAddCell_stored k hfs true c h
  obtain ⟨hnd, hcl, hop⟩ := hprop rfl
  obtain ⟨_, hf, _, _, _, hv, _⟩ := hexAddCell_accept k hfs true c h
  have hlen6 : hfs.length = 6 := by
    unfold hexAddCell at h; split at h
    · simp at h
    · rename_i h6; simpa using h6
  have hconv' := hexAddCell_checked_conv k hfs c h
    (fun _ => ⟨hpq _ (getD_mem_lt hfs 0 (by omega)), hpq _ (getD_mem_lt hfs 1 (by omega))⟩)
  unfold hexConvB at hconv'
  rw [hcell] at hconv' ⊢
  rw [cubePred.congr (hexAddCell_edges k hfs true) hf, cubeP_iff]
  rw [conv_congr (hexAddCell_edges k hfs true) hf] at hconv'
  refine ⟨hconv', hcl, fun x hx => quadP_iff.mpr ⟨?_, hpq x ((hmem x).mp hx)⟩⟩
  rw [hfHes_length]; exact hv x ((hmem x).mp hx)

/-- `add_cell(8 vertices)` under the conditions of `hexAddCellV_conv` stores a cell with the predicate -/
theorem cubeP_addCellV (k : Kernel) (vs : List Nat) (chk : Bool) (hi : GInv k) (hok : HexOpOK k (.addCellV chk vs))
    (hd : vs.Nodup) (hu : UniqEdges k vs)
    (hloop : ∀ I ∈ cellVFind, ∀ x, k.findHalffaceExtensive (hexPick vs I) = some x → HfLoop k x)
    (c : Nat) (h : (k.hexAddCellV vs chk).2 = some c) :
    cubeP (k.hexAddCellV vs chk).1 ((k.hexAddCellV vs chk).1.cellAt c) = true := by
  obtain ⟨xs, rot, F, hcell, _, _⟩ := hexAddCellV_frame k vs chk hi hok hd hu hloop c h
  have hconv := hexAddCellV_conv k vs chk hi hok.1 hd hu hloop c h
  unfold hexConvB at hconv
  rw [hcell] at hconv ⊢
  exact cubeP_iff.mpr (F.cubeProp hconv)

/-- what the cube invariant asks of a call besides `HexOpOK`: `add_cell(8 vertices)`: the conditions of
    `add_cell_vertices_conv`; the topology-checked `add_cell(halffaces)`: the given halffaces are proper loop quads;
    the UNCHECKED `add_cell(halffaces, false)` stores what it is given — there the predicate is the caller's
    obligation; `set_*` not covered -/
def CubeOpOK (k : Kernel) : HexOp → Prop
  | .addCellV _ vs => vs.Nodup ∧ UniqEdges k vs ∧
      ∀ I ∈ cellVFind, ∀ x, k.findHalffaceExtensive (hexPick vs I) = some x → HfLoop k x
  | .base (.addCell true hfs) => ∀ hf ∈ hfs, ProperQuad k hf
  | op => PredOpOK cubeP k op

theorem predOpOK_of_cube (k : Kernel) (op : HexOp) (hi : GInv k) (hok : HexOpOK k op) (h : CubeOpOK k op) :
    PredOpOK cubeP k op := by
  cases op with
  | addCellV chk vs =>
    intro c hc
    exact cubeP_addCellV k vs chk hi hok h.1 h.2.1 h.2.2 c hc
  | base op =>
    cases op with
    | addCell chk hfs =>
      cases chk with
      | true => intro c hc; exact cubeP_checked k hfs c h hc
      | false => exact h
    | _ => exact h

def CubeHistoryOK : Kernel → List HexOp → Prop
  | _, [] => True
  | k, op :: t => (HexOpOK k op ∧ CubeOpOK k op) ∧ CubeHistoryOK (hexStep k op) t

/-- **every live cell keeps its cube structure along every history through the public hex API** — all deletion
    modes, swaps, garbage collection -/
theorem cube_run (ops : List HexOp) (k : Kernel) (hi : GInv k) (hq : CubeAll k) (hr : CubeHistoryOK k ops) :
    GInv (hexRun k ops) ∧ CubeAll (hexRun k ops) := by
  induction ops generalizing k with
  | nil => exact ⟨hi, hq⟩
  | cons op t ih =>
    simp only [hexRun, List.foldl_cons]
    exact ih _ (ginv_hexStep k op hi hr.1.1)
      (allCells_hexStep cubePred k op hi hr.1.1 (predOpOK_of_cube k op hi hr.1.1 hr.1.2) hq) hr.2

theorem cubeAll_empty : CubeAll ({} : Kernel) := fun c hl => by unfold liveC nC at hl; simp at hl

/-! ### consequences on every live cell of a state with the invariant -/

theorem cubeAll_cycles {k : Kernel} (hg : GInv k) (hq : CubeAll k) {c : Nat} (hl : k.liveC c = true) :
    ∃ x0 x1 x2 x3 x4 x5 v0 v1 v2 v3 v4 v5 v6 v7, k.cellAt c = [x0, x1, x2, x3, x4, x5] ∧
      [v0, v1, v2, v3, v4, v5, v6, v7].Nodup ∧
      Cyc k x0 [v3, v2, v1, v0] ∧ Cyc k x1 [v7, v6, v5, v4] ∧ Cyc k x2 [v1, v2, v6, v7] ∧
      Cyc k x3 [v4, v5, v3, v0] ∧ Cyc k x4 [v1, v7, v4, v0] ∧ Cyc k x5 [v2, v3, v5, v6] :=
  cube_cycles_of_prop hg hl (cubeP_iff.mp (hq c hl))

theorem cubeAll_frame {k : Kernel} (hg : GInv k) (hq : CubeAll k) {c : Nat} (hl : k.liveC c = true) : ∃ vs rot, Frame k vs (k.cellAt c) rot :=
  frame_of_prop hg hl (cubeP_iff.mp (hq c hl))

theorem cubeAll_layout {k : Kernel} (hg : GInv k) (hq : CubeAll k) {c : Nat} (hl : k.liveC c = true) : k.hexOrthLayoutB c = true := by
  obtain ⟨vs, rot, F⟩ := cubeAll_frame hg hq hl
  exact F.orthLayout rfl

theorem cubeAll_pattern {k : Kernel} (hg : GInv k) (hq : CubeAll k) (hb : k.fBU = true) {c : Nat} (hl : k.liveC c = true) :
    ∃ r, k.hexVertices c = some r ∧ k.hexVertsPatternB c r = true := by
  obtain ⟨vs, rot, F⟩ := cubeAll_frame hg hq hl
  exact F.pattern rfl (fun i hi => cellOf_of_ginv hg hb hl (getD_mem_lt _ i (by rw [F.xlen]; exact hi)))

/-! ### Boolean forms (for `decide` on concrete histories) -/

def cubeOpOKB (k : Kernel) : HexOp → Bool
  | .addCellV chk vs => apiOpOKB k (.addCellV chk vs)
  | .base (.addCell true hfs) => hfs.all (properQuadB k)
  | .base (.addCell false hfs) =>
    match (k.hexAddCell hfs false).2 with
    | some c => cubeP (k.hexAddCell hfs false).1 ((k.hexAddCell hfs false).1.cellAt c)
    | none => true
  | .base (.setEdge _ _ _) => false
  | .base (.setFace _ _) => false
  | .base (.setCell _ _) => false
  | _ => true

theorem cubeOpOK_of_B (k : Kernel) (op : HexOp) (h : cubeOpOKB k op = true) : CubeOpOK k op := by
  cases op with
  | addCellV chk vs => exact apiOpOK_of_B k (.addCellV chk vs) h
  | base op =>
    cases op with
    | addCell chk hfs =>
      cases chk with
      | true =>
        intro hf hm
        simp only [cubeOpOKB, List.all_eq_true] at h
        exact properQuad_of_B (h hf hm)
      | false =>
        intro c hc
        simp only [cubeOpOKB, hc] at h; exact h
    | setEdge e a b => simp [cubeOpOKB] at h
    | setFace f hes => simp [cubeOpOKB] at h
    | setCell c hfs => simp [cubeOpOKB] at h
    | _ => trivial

def cubeHistoryOKB : Kernel → List HexOp → Bool
  | _, [] => true
  | k, op :: t => hexOpOKB k op && cubeOpOKB k op && cubeHistoryOKB (hexStep k op) t

theorem cubeHistoryOK_of_B (k : Kernel) (ops : List HexOp) (h : cubeHistoryOKB k ops = true) : CubeHistoryOK k ops := by
  induction ops generalizing k with
  | nil => trivial
  | cons op t ih =>
    simp only [cubeHistoryOKB, Bool.and_eq_true] at h
    exact ⟨⟨hexOpOK_of_B k op h.1.1, cubeOpOK_of_B k op h.1.2⟩, ih _ h.2⟩

end HexAll
end Kernel
end OVM

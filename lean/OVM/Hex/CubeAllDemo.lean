import OVM.Hex.CubeAll
/-
  C16: evaluated facts for the non-vacuity examples of `cube_structure_run_api` (OVM/Props/C16.lean, Part 8); kept
  here so that the property file stays quick to build.  Two histories through all deletion modes:
  * `cubeDemoOps` (= `demoOps` of the property file): two glued cubes by `add_cell(8 vertices)` — the second one finds
    the shared face pre-existing in another rotation —, immediate index-shifting `delete_face` (erases the SECOND cube,
    a face, renumbers), `swap_face_indices`, `swap_edge_indices`, deferred `delete_vertex`, `collect_garbage`; the cell
    that survives is the OLD first cube, stored under other handles;
  * `cubeDemoOps2` (= `demoOps2`): six quads, checked `add_cell(halffaces)` of a mirrored list (re-ordered), deferred
    `delete_cell`, the convention order (accepted as given), `collect_garbage`, `swap_face_indices`.
  Proof-only file (tests by kernel evaluation, labelled as such).
-/
namespace OVM
namespace Kernel
namespace HexAll
open Global ScanDel OVM.Gen.HexTables

def cubeDemoOps : List HexOp :=
  [.base (.addNVertices 8), .addCellV true [0, 1, 2, 3, 4, 5, 6, 7], .base (.addNVertices 4),
   .addCellV true [7, 11, 10, 6, 4, 5, 9, 8],
   .base (.enableFast false), .base (.enableDeferred false), .base (.deleteFace 10),
   .base (.swapFace 0 4), .base (.swapEdge 1 7), .base (.enableDeferred true), .base (.deleteVertex 9),
   .base .collectGarbage]

def cubeDemoOps2 : List HexOp :=
  [.base (.addNVertices 8), .base (.addFaceV [3, 2, 1, 0]), .base (.addFaceV [7, 6, 5, 4]), .base (.addFaceV [1, 2, 6, 7]),
   .base (.addFaceV [4, 5, 3, 0]), .base (.addFaceV [1, 7, 4, 0]), .base (.addFaceV [2, 3, 5, 6]),
   .base (.addCell true [0, 2, 4, 6, 10, 8]), .base (.deleteCell 0), .base (.addCell true [0, 2, 4, 6, 8, 10]),
   .base .collectGarbage, .base (.swapFace 0 3)]

/-- evaluated: both histories satisfy `CubeHistoryOK` -/
theorem cubeDemo_history : CubeHistoryOK {} cubeDemoOps := cubeHistoryOK_of_B _ _ (by decide +kernel)
theorem cubeDemo2_history : CubeHistoryOK {} cubeDemoOps2 := cubeHistoryOK_of_B _ _ (by decide +kernel)

/-- evaluated: the final states — one live cell each, face incidences on -/
theorem cubeDemo_final : (hexRun {} cubeDemoOps).cells = [[8, 2, 4, 6, 0, 10]] ∧ (hexRun {} cubeDemoOps).liveC 0 = true ∧
    (hexRun {} cubeDemoOps).fBU = true := by decide +kernel
theorem cubeDemo2_final : (hexRun {} cubeDemoOps2).cells = [[6, 2, 4, 0, 8, 10]] ∧ (hexRun {} cubeDemoOps2).liveC 0 = true ∧
    (hexRun {} cubeDemoOps2).fBU = true := by decide +kernel

/-- evaluated cross-check (a test): the executable layout / pattern predicates on the surviving OLD cell -/
theorem cubeDemo_crosscheck : (hexRun {} cubeDemoOps).hexOrthLayoutB 0 = true ∧
    (match (hexRun {} cubeDemoOps).hexVertices 0 with | some v => (hexRun {} cubeDemoOps).hexVertsPatternB 0 v | none => false) = true := by
  decide +kernel

end HexAll
end Kernel
end OVM

import OVM.Hex.FrameLayout
import OVM.Hex.QuadBelt
/-
  C16: the classification theorem — a cell accepted by the topology-checked `add_cell(halffaces)` IS a `Frame`.
  * `Arc k x u w`: halfface `x` has a halfedge from `u` to `w`; a proper loop quad is an `IsQ` of `Arc k`
    (`isQ_of_properQuad`), and `IsQ` gives back `Cyc` (`cyc_of_isQ`);
  * `belt_of_conv`: a list of six proper loop quads that is a closed surface and in convention (`hexConvListB`:
    opposite pairs vertex-disjoint, walk clause) is a `QB.Belt` — the offset found by the walk only rotates the names
    of the top vertices;
  * `frame_of_conv`: hence (`QB.Belt.classify`, `frameCore_of_cycles`, `FrameCore.opp_of_closed`) it is a `Frame`;
  * `hexAddCell_checked_frame`: the accepted checked call.
  Proof-only file.
-/
namespace OVM
namespace Kernel
namespace HexAll
open Global ScanDel OVM.Gen.HexTables QB

/-- halfface `x` has a halfedge from `u` to `w` -/
def Arc (k : Kernel) (x u w : Nat) : Prop := ∃ e ∈ k.hfHes x, k.fromV e = u ∧ k.toV e = w

theorem on_arc_mem {k : Kernel} {x v : Nat} (h : On (Arc k) x v) : v ∈ k.hfVerts x := by
  obtain ⟨w, e, he, hf, _⟩ := h
  unfold hfVerts; exact List.mem_map.mpr ⟨e, he, hf⟩

theorem arc_of_opp_mem {k : Kernel} {x e : Nat} (h : opp e ∈ k.hfHes x) : Arc k x (k.toV e) (k.fromV e) :=
  ⟨opp e, h, Lookup.fromV_opp k e, Lookup.toV_opp k e⟩

/-- a proper loop quad has exactly the four arcs between the sources of its consecutive halfedges -/
theorem isQ_of_properQuad {k : Kernel} {x f0 f1 f2 f3 : Nat} (hh : k.hfHes x = [f0, f1, f2, f3]) (hp : ProperQuad k x) :
    IsQ (Arc k) x (k.fromV f0) (k.fromV f1) (k.fromV f2) (k.fromV f3) := by
  obtain ⟨hl, hn⟩ := hp
  have t0 := hl 0 (by omega)
  have t1 := hl 1 (by omega)
  have t2 := hl 2 (by omega)
  have t3 := hl 3 (by omega)
  rw [hh] at t0 t1 t2 t3
  simp only [List.getD_cons_zero, List.getD_cons_succ, Nat.reduceAdd, Nat.reduceMod] at t0 t1 t2 t3
  unfold hfVerts at hn
  rw [hh] at hn
  simp only [List.map_cons, List.map_nil, List.nodup_cons, List.mem_cons, List.not_mem_nil, or_false, not_or,
    List.nodup_nil, and_true, not_false_eq_true] at hn
  refine ⟨by grind, fun u w => ?_⟩
  unfold Arc
  rw [hh]
  simp only [List.mem_cons, List.not_mem_nil, or_false]
  constructor
  · rintro ⟨e, he, rfl, rfl⟩
    rcases he with rfl | rfl | rfl | rfl
    · exact Or.inl ⟨rfl, t0⟩
    · exact Or.inr (Or.inl ⟨rfl, t1⟩)
    · exact Or.inr (Or.inr (Or.inl ⟨rfl, t2⟩))
    · exact Or.inr (Or.inr (Or.inr ⟨rfl, t3⟩))
  · rintro (⟨rfl, rfl⟩ | ⟨rfl, rfl⟩ | ⟨rfl, rfl⟩ | ⟨rfl, rfl⟩)
    · exact ⟨f0, by simp, rfl, t0⟩
    · exact ⟨f1, by simp, rfl, t1⟩
    · exact ⟨f2, by simp, rfl, t2⟩
    · exact ⟨f3, by simp, rfl, t3⟩

/-- a valid loop quad is a `Cyc` through the sources of its halfedges, rotation 0 -/
theorem cyc_of_loop {k : Kernel} {x f0 f1 f2 f3 : Nat} (hx : x < k.nHF) (hh : k.hfHes x = [f0, f1, f2, f3]) (hl : HfLoop k x)
    (hv : ∀ e ∈ k.hfHes x, e < k.nHE ∧ k.liveE (eOf e) = true) :
    Cyc k x [k.fromV f0, k.fromV f1, k.fromV f2, k.fromV f3] := by
  have t0 := hl 0 (by omega)
  have t1 := hl 1 (by omega)
  have t2 := hl 2 (by omega)
  have t3 := hl 3 (by omega)
  rw [hh] at t0 t1 t2 t3 hv
  simp only [List.getD_cons_zero, List.getD_cons_succ, Nat.reduceAdd, Nat.reduceMod] at t0 t1 t2 t3
  have l0 := hv f0 (by simp)
  have l1 := hv f1 (by simp)
  have l2 := hv f2 (by simp)
  have l3 := hv f3 (by simp)
  refine ⟨hx, by rw [hh]; rfl, 0, by omega, fun j hj => ?_⟩
  rw [hh]
  have hj4 : j = 0 ∨ j = 1 ∨ j = 2 ∨ j = 3 := by omega
  rcases hj4 with rfl | rfl | rfl | rfl
  · exact ⟨l0.1, l0.2, rfl, t0⟩
  · exact ⟨l1.1, l1.2, rfl, t1⟩
  · exact ⟨l2.1, l2.2, rfl, t2⟩
  · exact ⟨l3.1, l3.2, rfl, t3⟩

theorem Cyc.rot1 {k : Kernel} {x p0 p1 p2 p3 : Nat} (h : Cyc k x [p0, p1, p2, p3]) : Cyc k x [p1, p2, p3, p0] := by
  obtain ⟨hx, hl, r, hr, hrun⟩ := h
  refine ⟨hx, hl, (r + 3) % 4, Nat.mod_lt _ (by omega), fun j hj => ?_⟩
  have := hrun j hj
  have hj4 : j = 0 ∨ j = 1 ∨ j = 2 ∨ j = 3 := by omega
  have hr4 : r = 0 ∨ r = 1 ∨ r = 2 ∨ r = 3 := by omega
  rcases hr4 with rfl | rfl | rfl | rfl <;> rcases hj4 with rfl | rfl | rfl | rfl <;> exact this

/-- the cycle a proper loop quad runs through, read off from its arcs -/
theorem cyc_of_isQ {k : Kernel} {x q0 q1 q2 q3 : Nat} (hx : x < k.nHF) (hlen : (k.hfHes x).length = 4) (hp : ProperQuad k x)
    (hv : ∀ e ∈ k.hfHes x, e < k.nHE ∧ k.liveE (eOf e) = true) (hq : IsQ (Arc k) x q0 q1 q2 q3) :
    Cyc k x [q0, q1, q2, q3] := by
  obtain ⟨f0, f1, f2, f3, hh⟩ := length4_cases _ hlen
  have c0 := cyc_of_loop hx hh hp.1 hv
  have Q := isQ_of_properQuad hh hp
  rcases Q.eq_rot hq with ⟨rfl, rfl, rfl, rfl⟩ | ⟨rfl, rfl, rfl, rfl⟩ | ⟨rfl, rfl, rfl, rfl⟩ | ⟨rfl, rfl, rfl, rfl⟩
  · exact c0
  · exact c0.rot1
  · exact c0.rot1.rot1
  · exact c0.rot1.rot1.rot1

theorem walk_off {k : Kernel} {h0 h1 h2 h3 h4 h5 e0 e1 e2 e3 : Nat} (hh : k.hfHes h0 = [e0, e1, e2, e3])
    (hw : k.hexWalkB [h0, h1, h2, h3, h4, h5] = true) :
    (opp e0 ∈ k.hfHes h2 ∧ opp e1 ∈ k.hfHes h4 ∧ opp e2 ∈ k.hfHes h3 ∧ opp e3 ∈ k.hfHes h5) ∨
    (opp e0 ∈ k.hfHes h4 ∧ opp e1 ∈ k.hfHes h3 ∧ opp e2 ∈ k.hfHes h5 ∧ opp e3 ∈ k.hfHes h2) ∨
    (opp e0 ∈ k.hfHes h3 ∧ opp e1 ∈ k.hfHes h5 ∧ opp e2 ∈ k.hfHes h2 ∧ opp e3 ∈ k.hfHes h4) ∨
    (opp e0 ∈ k.hfHes h5 ∧ opp e1 ∈ k.hfHes h2 ∧ opp e2 ∈ k.hfHes h4 ∧ opp e3 ∈ k.hfHes h3) := by
  unfold hexWalkB hexWalkAtB at hw
  have hr : List.range 4 = [0, 1, 2, 3] := by decide
  simp only [hr, specOrderTop, List.getD_cons_zero, hh] at hw
  simp at hw
  exact hw

theorem arc_closed {k : Kernel} {l : List Nat} (hcl : ClosedSurface k l) {x u w : Nat} (hx : x ∈ l) (h : Arc k x u w) :
    ∃ y ∈ l, Arc k y w u := by
  obtain ⟨e, he, rfl, rfl⟩ := h
  have hm : e ∈ k.cellHalfedges l := List.mem_flatMap.mpr ⟨x, hx, he⟩
  obtain ⟨y, hy, hey⟩ := List.mem_flatMap.mp (hcl.2 e hm)
  exact ⟨y, hy, arc_of_opp_mem hey⟩

theorem disjointL_elim {a b : List Nat} (h : disjointL a b = true) {v : Nat} (ha : v ∈ a) (hb : v ∈ b) : False := by
  unfold disjointL at h
  rw [List.all_eq_true] at h
  have := h v ha
  simp [hb] at this

/-- **six proper loop quads that form a closed surface and are stored in convention are a belt**: top `h0`, bottom
    `h1`, and the side faces `h5, h2, h4, h3` in the cyclic order of the top face's arcs (the offset at which the walk
    clause holds only rotates the names of the top vertices) -/
theorem belt_of_conv {k : Kernel} {h0 h1 h2 h3 h4 h5 : Nat} (hlen : ∀ x ∈ [h0, h1, h2, h3, h4, h5], (k.hfHes x).length = 4)
    (hpq : ∀ x ∈ [h0, h1, h2, h3, h4, h5], ProperQuad k x) (hcl : ClosedSurface k [h0, h1, h2, h3, h4, h5])
    (hconv : k.hexConvListB [h0, h1, h2, h3, h4, h5] = true) :
    ∃ a0 a1 a2 a3, Belt (Arc k) h0 h1 h5 h2 h4 h3 a0 a1 a2 a3 := by
  unfold hexConvListB at hconv
  simp only [Bool.and_eq_true] at hconv
  obtain ⟨⟨_, hopp⟩, hwalk⟩ := hconv
  unfold hexOppDisjointB at hopp
  rw [List.all_eq_true] at hopp
  have d01 := hopp 0 (by simp)
  have d23 := hopp 1 (by simp)
  have d45 := hopp 2 (by simp)
  simp only [Nat.mul_zero, Nat.zero_add, Nat.mul_one, Nat.reduceMul, Nat.reduceAdd, List.getD_cons_zero, List.getD_cons_succ] at d01 d23 d45
  have hquad : ∀ x, (x = h0 ∨ x = h1 ∨ x = h5 ∨ x = h2 ∨ x = h4 ∨ x = h3) → ∃ p0 p1 p2 p3, IsQ (Arc k) x p0 p1 p2 p3 := by
    intro x hx
    have hm : x ∈ [h0, h1, h2, h3, h4, h5] := by simp; grind
    obtain ⟨f0, f1, f2, f3, hh⟩ := length4_cases _ (hlen x hm)
    exact ⟨_, _, _, _, isQ_of_properQuad hh (hpq x hm)⟩
  have hclosed : ∀ x u w, (x = h0 ∨ x = h1 ∨ x = h5 ∨ x = h2 ∨ x = h4 ∨ x = h3) → Arc k x u w →
      ∃ y, (y = h0 ∨ y = h1 ∨ y = h5 ∨ y = h2 ∨ y = h4 ∨ y = h3) ∧ Arc k y w u := by
    intro x u w hx ha
    have hm : x ∈ [h0, h1, h2, h3, h4, h5] := by simp; grind
    obtain ⟨y, hy, h⟩ := arc_closed hcl hm ha
    exact ⟨y, by simp at hy; grind, h⟩
  have dtb : ∀ v, On (Arc k) h0 v → On (Arc k) h1 v → False := fun v a b => disjointL_elim d01 (on_arc_mem a) (on_arc_mem b)
  have d02 : ∀ v, On (Arc k) h5 v → On (Arc k) h4 v → False := fun v a b => disjointL_elim d45 (on_arc_mem b) (on_arc_mem a)
  have d13 : ∀ v, On (Arc k) h2 v → On (Arc k) h3 v → False := fun v a b => disjointL_elim d23 (on_arc_mem a) (on_arc_mem b)
  obtain ⟨e0, e1, e2, e3, hh⟩ := length4_cases _ (hlen h0 (by simp))
  have T := isQ_of_properQuad hh (hpq h0 (by simp))
  have hl := (hpq h0 (by simp)).1
  have t0 := hl 0 (by omega)
  have t1 := hl 1 (by omega)
  have t2 := hl 2 (by omega)
  have t3 := hl 3 (by omega)
  rw [hh] at t0 t1 t2 t3
  simp only [List.getD_cons_zero, List.getD_cons_succ, Nat.reduceAdd, Nat.reduceMod] at t0 t1 t2 t3
  have key : ∀ x, (opp e0 ∈ k.hfHes x → Arc k x (k.fromV e1) (k.fromV e0)) ∧ (opp e1 ∈ k.hfHes x → Arc k x (k.fromV e2) (k.fromV e1)) ∧
      (opp e2 ∈ k.hfHes x → Arc k x (k.fromV e3) (k.fromV e2)) ∧ (opp e3 ∈ k.hfHes x → Arc k x (k.fromV e0) (k.fromV e3)) :=
    fun x => ⟨fun h => t0 ▸ arc_of_opp_mem h, fun h => t1 ▸ arc_of_opp_mem h, fun h => t2 ▸ arc_of_opp_mem h,
      fun h => t3 ▸ arc_of_opp_mem h⟩
  rcases walk_off hh hwalk with ⟨w0, w1, w2, w3⟩ | ⟨w0, w1, w2, w3⟩ | ⟨w0, w1, w2, w3⟩ | ⟨w0, w1, w2, w3⟩
  · exact ⟨_, _, _, _, ⟨hquad, hclosed, dtb, d02, d13, T.rot.rot.rot, (key h5).2.2.2 w3, (key h2).1 w0, (key h4).2.1 w1, (key h3).2.2.1 w2⟩⟩
  · exact ⟨_, _, _, _, ⟨hquad, hclosed, dtb, d02, d13, T.rot.rot, (key h5).2.2.1 w2, (key h2).2.2.2 w3, (key h4).1 w0, (key h3).2.1 w1⟩⟩
  · exact ⟨_, _, _, _, ⟨hquad, hclosed, dtb, d02, d13, T.rot, (key h5).2.1 w1, (key h2).2.2.1 w2, (key h4).2.2.2 w3, (key h3).1 w0⟩⟩
  · exact ⟨_, _, _, _, ⟨hquad, hclosed, dtb, d02, d13, T, (key h5).1 w0, (key h2).2.1 w1, (key h4).2.2.1 w2, (key h3).2.2.2 w3⟩⟩


theorem uniqEdges_mono {k : Kernel} {U V : List Nat} (h : UniqEdges k U) (hs : ∀ v ∈ V, v ∈ U) : UniqEdges k V :=
  fun i j a b ha hb hi hj => h i j a b (hs a ha) (hs b hb) hi hj

/-- **six valid proper loop quads, closed surface, in convention ⇒ loops through the cube quadruples of the source
    tables over eight distinct vertices** — no hypothesis on other edges of the mesh -/
theorem cycles_of_conv {k : Kernel} {h0 h1 h2 h3 h4 h5 : Nat} (hlen : ∀ x ∈ [h0, h1, h2, h3, h4, h5], (k.hfHes x).length = 4)
    (hpq : ∀ x ∈ [h0, h1, h2, h3, h4, h5], ProperQuad k x)
    (hval : ∀ x ∈ [h0, h1, h2, h3, h4, h5], x < k.nHF ∧ ∀ e ∈ k.hfHes x, e < k.nHE ∧ k.liveE (eOf e) = true)
    (hcl : ClosedSurface k [h0, h1, h2, h3, h4, h5]) (hconv : k.hexConvListB [h0, h1, h2, h3, h4, h5] = true) :
    ∃ v0 v1 v2 v3 v4 v5 v6 v7, [v0, v1, v2, v3, v4, v5, v6, v7].Nodup ∧
      (∀ v ∈ [v0, v1, v2, v3, v4, v5, v6, v7], v ∈ [h0, h1, h2, h3, h4, h5].flatMap k.hfVerts) ∧
      Cyc k h0 [v3, v2, v1, v0] ∧ Cyc k h1 [v7, v6, v5, v4] ∧ Cyc k h2 [v1, v2, v6, v7] ∧
      Cyc k h3 [v4, v5, v3, v0] ∧ Cyc k h4 [v1, v7, v4, v0] ∧ Cyc k h5 [v2, v3, v5, v6] := by
  obtain ⟨a0, a1, a2, a3, B⟩ := belt_of_conv hlen hpq hcl hconv
  obtain ⟨c0, c1, c2, c3, hnd, Q0, Q1, Q2, Q3, Qb⟩ := B.classify
  have C : ∀ x, x ∈ [h0, h1, h2, h3, h4, h5] → ∀ q0 q1 q2 q3, IsQ (Arc k) x q0 q1 q2 q3 → Cyc k x [q0, q1, q2, q3] :=
    fun x hm q0 q1 q2 q3 hq => cyc_of_isQ (hval x hm).1 (hlen x hm) (hpq x hm) (hval x hm).2 hq
  have cT := C h0 (by simp) _ _ _ _ B.top
  have cB := C h1 (by simp) _ _ _ _ Qb
  have k5 := C h5 (by simp) _ _ _ _ Q0
  have k2 := C h2 (by simp) _ _ _ _ Q1
  have k4 := C h4 (by simp) _ _ _ _ Q2
  have k3 := C h3 (by simp) _ _ _ _ Q3
  refine ⟨a3, a2, a1, a0, c3, c0, c1, c2, hnd, ?_, cT, cB.rot1.rot1.rot1, k2, k3.rot1.rot1, k4.rot1, k5⟩
  intro v hv
  simp only [List.mem_cons, List.not_mem_nil, or_false] at hv
  rw [List.mem_flatMap]
  rcases hv with rfl | rfl | rfl | rfl | rfl | rfl | rfl | rfl
  · exact ⟨h0, by simp, on_arc_mem (B.top.on.mpr (by simp))⟩
  · exact ⟨h0, by simp, on_arc_mem (B.top.on.mpr (by simp))⟩
  · exact ⟨h0, by simp, on_arc_mem (B.top.on.mpr (by simp))⟩
  · exact ⟨h0, by simp, on_arc_mem (B.top.on.mpr (by simp))⟩
  · exact ⟨h1, by simp, on_arc_mem (Qb.on.mpr (by simp))⟩
  · exact ⟨h1, by simp, on_arc_mem (Qb.on.mpr (by simp))⟩
  · exact ⟨h1, by simp, on_arc_mem (Qb.on.mpr (by simp))⟩
  · exact ⟨h1, by simp, on_arc_mem (Qb.on.mpr (by simp))⟩

/-- **six valid proper loop quads, closed surface, in convention ⇒ a `Frame`** (no hypothesis on other edges of the
    mesh: the surface being closed, the opposite of every halfedge is the one the tables give, `FrameCore.opp_of_closed`) -/
theorem frame_of_conv {k : Kernel} {h0 h1 h2 h3 h4 h5 : Nat} (hlen : ∀ x ∈ [h0, h1, h2, h3, h4, h5], (k.hfHes x).length = 4)
    (hpq : ∀ x ∈ [h0, h1, h2, h3, h4, h5], ProperQuad k x)
    (hval : ∀ x ∈ [h0, h1, h2, h3, h4, h5], x < k.nHF ∧ ∀ e ∈ k.hfHes x, e < k.nHE ∧ k.liveE (eOf e) = true)
    (hcl : ClosedSurface k [h0, h1, h2, h3, h4, h5]) (hconv : k.hexConvListB [h0, h1, h2, h3, h4, h5] = true) :
    ∃ vs rot, Frame k vs [h0, h1, h2, h3, h4, h5] rot := by
  obtain ⟨v0, v1, v2, v3, v4, v5, v6, v7, hnd, hsub, c0, c1, c2, c3, c4, c5⟩ := cycles_of_conv hlen hpq hval hcl hconv
  obtain ⟨rot, C⟩ := frameCore_of_cycles k v0 v1 v2 v3 v4 v5 v6 v7 h0 h1 h2 h3 h4 h5 hnd c0 c1 c2 c3 c4 c5
  exact ⟨_, rot, C, fun i hi j hj => C.opp_of_closed hcl hi hj⟩

theorem length6_cases {α} (l : List α) (h : l.length = 6) : ∃ a b c d e f, l = [a, b, c, d, e, f] := by
  match l, h with
  | [a, b, c, d, e, f], _ => exact ⟨a, b, c, d, e, f, rfl⟩

theorem hexAddCell_eDel (k : Kernel) (hfs : List Nat) (chk : Bool) : (k.hexAddCell hfs chk).1.eDel = k.eDel := by
  rcases hexAddCell_cases k hfs chk with e | ⟨l, b, e⟩
  · rw [e]
  · rw [e]; unfold addCell; split <;> simp

/-- a duplicate-free list inside a list that is not longer is a permutation of it -/
theorem perm_of_nodup_subset : ∀ (l m : List Nat), l.Nodup → (∀ x ∈ l, x ∈ m) → m.length ≤ l.length → l.Perm m := by
  intro l
  induction l with
  | nil =>
    intro m _ _ hlen
    have : m = [] := List.eq_nil_of_length_eq_zero (by simpa using hlen)
    rw [this]
  | cons a t ih =>
    intro m hnd hsub hlen
    have ham : a ∈ m := hsub a (List.mem_cons_self ..)
    have hnd' := List.nodup_cons.mp hnd
    have hsub' : ∀ y ∈ t, y ∈ m.erase a := by
      intro y hy
      have hne : y ≠ a := fun e => hnd'.1 (e ▸ hy)
      exact (List.mem_erase_of_ne hne).mpr (hsub y (List.mem_cons_of_mem _ hy))
    have hlen' : (m.erase a).length ≤ t.length := by
      rw [List.length_erase_of_mem ham]; simp at hlen; omega
    exact ((ih (m.erase a) hnd'.2 hsub' hlen').cons a).trans (List.perm_cons_erase ham).symm

/-- **the classification theorem: a cell accepted by the topology-checked `add_cell(halffaces)` is a `Frame`** — in the
    state before the call and in the new state; the stored list is a permutation of the given one.
    Hypotheses: the reachability invariant; the given halffaces valid and not deleted (`HfOk`, part of `OpOK`) and
    proper loop quads.  No hypothesis on other edges of the mesh. -/
theorem hexAddCell_checked_frame (k : Kernel) (hfs : List Nat) (c : Nat) (hi : GInv k) (hok : ∀ hf ∈ hfs, HfOk k hf)
    (hpq : ∀ hf ∈ hfs, ProperQuad k hf)
    (h : (k.hexAddCell hfs true).2 = some c) :
    ∃ vs rot, Frame k vs ((k.hexAddCell hfs true).1.cellAt c) rot ∧
      Frame (k.hexAddCell hfs true).1 vs ((k.hexAddCell hfs true).1.cellAt c) rot ∧
      ((k.hexAddCell hfs true).1.cellAt c).Perm hfs := by
  obtain ⟨l, hcell, heq, hmem, hprop⟩ := hexAddCell_stored k hfs true c h
  obtain ⟨hnd, hcl, hop⟩ := hprop rfl
  obtain ⟨_, hf, l', hcells, hl6, hv, _⟩ := hexAddCell_accept k hfs true c h
  have hll : l' = l := by
    have : (k.hexAddCell hfs true).1.cellAt c = l' := by unfold Kernel.cellAt; rw [hcells]; simp_all [nC]
    rw [← this, hcell]
  subst hll
  have hlen6 : hfs.length = 6 := by
    unfold hexAddCell at h; split at h
    · simp at h
    · rename_i h6; simpa using h6
  have hperm : l'.Perm hfs := perm_of_nodup_subset l' hfs hnd (fun x hx => (hmem x).mp hx) (by omega)
  have hconv' := hexAddCell_checked_conv k hfs c h
    (fun _ => ⟨hpq _ (getD_mem_lt hfs 0 (by omega)), hpq _ (getD_mem_lt hfs 1 (by omega))⟩)
  unfold hexConvB at hconv'
  rw [hcell, conv_congr (hexAddCell_edges k hfs true) hf] at hconv'
  obtain ⟨h0, h1, h2, h3, h4, h5, rfl⟩ := length6_cases l' hl6
  have hlen : ∀ x ∈ [h0, h1, h2, h3, h4, h5], (k.hfHes x).length = 4 := fun x hx => by
    rw [hfHes_length]; exact hv x ((hmem x).mp hx)
  have hval : ∀ x ∈ [h0, h1, h2, h3, h4, h5], x < k.nHF ∧ ∀ e ∈ k.hfHes x, e < k.nHE ∧ k.liveE (eOf e) = true := by
    intro x hx
    obtain ⟨hlt, hd⟩ := hok x ((hmem x).mp hx)
    have hl : k.liveF (eOf x) = true := by
      unfold liveF; rw [hd]; simp; unfold eOf nHF nF at *; omega
    exact ⟨hlt, fun e he => hfHes_liveE hi.wf hi.closed hl he⟩
  obtain ⟨vs, rot, F⟩ := frame_of_conv hlen (fun x hx => hpq x ((hmem x).mp hx)) hval hcl hconv'
  rw [hcell]
  exact ⟨vs, rot, F, F.congr (hexAddCell_edges k hfs true) hf (hexAddCell_eDel k hfs true), hperm⟩

/-- the classification without any hypothesis on other edges of the mesh: the six stored halffaces are loops through
    the cube quadruples of the source tables over eight distinct vertices (all of `Frame` but `UniqEdges`; faces and
    edges are not changed by `add_cell`, the loops are read in the state before the call) -/
theorem hexAddCell_checked_cycles (k : Kernel) (hfs : List Nat) (c : Nat) (hi : GInv k) (hok : ∀ hf ∈ hfs, HfOk k hf)
    (hpq : ∀ hf ∈ hfs, ProperQuad k hf) (h : (k.hexAddCell hfs true).2 = some c) :
    ∃ x0 x1 x2 x3 x4 x5 v0 v1 v2 v3 v4 v5 v6 v7, (k.hexAddCell hfs true).1.cellAt c = [x0, x1, x2, x3, x4, x5] ∧
      [v0, v1, v2, v3, v4, v5, v6, v7].Nodup ∧
      Cyc k x0 [v3, v2, v1, v0] ∧ Cyc k x1 [v7, v6, v5, v4] ∧ Cyc k x2 [v1, v2, v6, v7] ∧
      Cyc k x3 [v4, v5, v3, v0] ∧ Cyc k x4 [v1, v7, v4, v0] ∧ Cyc k x5 [v2, v3, v5, v6] := by
  obtain ⟨l, hcell, heq, hmem, hprop⟩ := hexAddCell_stored k hfs true c h
  obtain ⟨hnd, hcl, hop⟩ := hprop rfl
  obtain ⟨_, hf, l', hcells, hl6, hv, _⟩ := hexAddCell_accept k hfs true c h
  have hll : l' = l := by
    have : (k.hexAddCell hfs true).1.cellAt c = l' := by unfold Kernel.cellAt; rw [hcells]; simp_all [nC]
    rw [← this, hcell]
  subst hll
  have hlen6 : hfs.length = 6 := by
    unfold hexAddCell at h; split at h
    · simp at h
    · rename_i h6; simpa using h6
  have hconv' := hexAddCell_checked_conv k hfs c h
    (fun _ => ⟨hpq _ (getD_mem_lt hfs 0 (by omega)), hpq _ (getD_mem_lt hfs 1 (by omega))⟩)
  unfold hexConvB at hconv'
  rw [hcell, conv_congr (hexAddCell_edges k hfs true) hf] at hconv'
  obtain ⟨h0, h1, h2, h3, h4, h5, rfl⟩ := length6_cases l' hl6
  have hlen : ∀ x ∈ [h0, h1, h2, h3, h4, h5], (k.hfHes x).length = 4 := fun x hx => by
    rw [hfHes_length]; exact hv x ((hmem x).mp hx)
  have hval : ∀ x ∈ [h0, h1, h2, h3, h4, h5], x < k.nHF ∧ ∀ e ∈ k.hfHes x, e < k.nHE ∧ k.liveE (eOf e) = true := by
    intro x hx
    obtain ⟨hlt, hd⟩ := hok x ((hmem x).mp hx)
    have hl : k.liveF (eOf x) = true := by
      unfold liveF; rw [hd]; simp; unfold eOf nHF nF at *; omega
    exact ⟨hlt, fun e he => hfHes_liveE hi.wf hi.closed hl he⟩
  obtain ⟨v0, v1, v2, v3, v4, v5, v6, v7, hnd', _, c0, c1, c2, c3, c4, c5⟩ :=
    cycles_of_conv hlen (fun x hx => hpq x ((hmem x).mp hx)) hval hcl hconv'
  exact ⟨h0, h1, h2, h3, h4, h5, v0, v1, v2, v3, v4, v5, v6, v7, hcell, hnd', c0, c1, c2, c3, c4, c5⟩

/-- consequence 1: the cell has the layout `orthogonal_orientation` describes -/
theorem hexAddCell_checked_orthLayout (k : Kernel) (hfs : List Nat) (c : Nat) (hi : GInv k) (hok : ∀ hf ∈ hfs, HfOk k hf)
    (hpq : ∀ hf ∈ hfs, ProperQuad k hf)
    (h : (k.hexAddCell hfs true).2 = some c) : (k.hexAddCell hfs true).1.hexOrthLayoutB c = true := by
  obtain ⟨vs, rot, _, F, _⟩ := hexAddCell_checked_frame k hfs c hi hok hpq h
  exact F.orthLayout rfl

/-- consequence 2: if ONE arrangement of six halffaces is accepted, then EVERY permutation of it is accepted, stored as
    a re-arrangement in convention, and stored as given when `check_halfface_ordering` accepts it -/
theorem hexAddCell_checked_all_permutations (k : Kernel) (hfs : List Nat) (c : Nat) (hi : GInv k)
    (hok : ∀ hf ∈ hfs, HfOk k hf) (hpq : ∀ hf ∈ hfs, ProperQuad k hf)
    (h : (k.hexAddCell hfs true).2 = some c) (p : List Nat) (hp : p.Perm hfs) :
    (k.hexAddCell p true).2 = some k.nC ∧ (k.hexAddCell p true).1.hexConvB k.nC = true ∧
    ((k.hexAddCell p true).1.cellAt k.nC).Perm p ∧
    (k.hexCheckOrdering p = true → (k.hexAddCell p true).1.cellAt k.nC = p ∧
      disjointL (k.hfVerts (p.getD 0 0)) (k.hfVerts (p.getD 1 0)) = true) := by
  obtain ⟨vs, rot, F, _, hperm⟩ := hexAddCell_checked_frame k hfs c hi hok hpq h
  exact F.all_permutations p (hp.trans hperm.symm)

/-- consequence 3: `hex_vertices` of the new cell reports the documented cube pattern (valid arguments `HexOpOK`: the
    halffaces free and distinct; face incidences enabled — the walk uses `adjacent_halfface_in_cell`) -/
theorem hexAddCell_checked_pattern (k : Kernel) (hfs : List Nat) (c : Nat) (hi : GInv k)
    (hok : HexOpOK k (.base (.addCell true hfs))) (hfb : k.fBU = true)
    (hpq : ∀ hf ∈ hfs, ProperQuad k hf)
    (h : (k.hexAddCell hfs true).2 = some c) :
    ∃ r, (k.hexAddCell hfs true).1.hexVertices c = some r ∧ (k.hexAddCell hfs true).1.hexVertsPatternB c r = true := by
  have hg2 : GInv (k.hexAddCell hfs true).1 := ginv_hexStep k (.base (.addCell true hfs)) hi hok
  have hok' : ∀ hf ∈ hfs, HfOk k hf := fun hf hm => (hok.1 hf hm).1
  obtain ⟨vs, rot, _, F, _⟩ := hexAddCell_checked_frame k hfs c hi hok' hpq h
  obtain ⟨l, hcell, heq, hmem, _⟩ := hexAddCell_stored k hfs true c h
  obtain ⟨hc, _, l', hcells, hl6, _, _⟩ := hexAddCell_accept k hfs true c h
  have hacc : k.addCellAccepts l true = true := by
    rw [heq] at h; unfold addCell at h; split at h
    · assumption
    · simp at h
  have hfb2 : (k.hexAddCell hfs true).1.fBU = true := by
    rw [heq]; unfold addCell; rw [if_pos hacc]; simp only []; rw [addCellCore_fBU]; exact hfb
  have hlive : (k.hexAddCell hfs true).1.liveC c = true := by
    rw [heq]; unfold addCell; rw [if_pos hacc]; simp only []
    unfold Kernel.liveC Kernel.cDeleted nC
    rw [addCellCore_cells, addCellCore_cDel, getD_snoc_false, hc, getD_of_ge _ _ _ (by rw [hi.wf.len.cDel]; exact Nat.le_refl _)]
    simp [nC]
  have hlen : ((k.hexAddCell hfs true).1.cellAt c).length = 6 := F.xlen
  have hof : ∀ i, i < 6 → (k.hexAddCell hfs true).1.cellOf (((k.hexAddCell hfs true).1.cellAt c).getD i 0) = some c := by
    intro i hi6
    have hm : ((k.hexAddCell hfs true).1.cellAt c).getD i 0 ∈ (k.hexAddCell hfs true).1.cellAt c :=
      getD_mem_lt _ i (by rw [hlen]; exact hi6)
    have hmc := cellAt_mem_cells (liveC_lt hlive)
    have hlt : ((k.hexAddCell hfs true).1.cellAt c).getD i 0 < (k.hexAddCell hfs true).1.nHF :=
      hg2.wf.range.cells _ hmc _ hm
    rw [(hg2.wf.cache.f hfb2).2 _ hlt]
    exact sCellOf_of_mem hg2.one hlt hlive hm
  exact F.pattern rfl hof

/-- the vertices of the faces of a frame are among its eight vertices -/
theorem Frame.verts_mem {k : Kernel} {vs xs : List Nat} {rot : Nat → Nat} (F : Frame k vs xs rot) {i v : Nat} (hi : i < 6)
    (h : v ∈ k.hfVerts (xs.getD i 0)) : v ∈ vs := by
  have b : ∀ n, II i n < 8 := fun n => by
    have := (tbl_lt i hi (n % 4) (Nat.mod_lt _ (by omega))).1; rwa [II_mod] at this
  rw [F.hfVerts_eq hi] at h
  simp only [List.mem_cons, List.not_mem_nil, or_false] at h
  rcases h with rfl | rfl | rfl | rfl <;> exact F.vmem (b _)

theorem joins_of_B {k : Kernel} {a b i : Nat} (h : joinsB k a b i = true) : Joins k a b i := by
  unfold joinsB at h
  simp only [Bool.and_eq_true, Bool.or_eq_true, beq_iff_eq] at h
  exact ⟨h.1, h.2⟩

end HexAll
end Kernel
end OVM

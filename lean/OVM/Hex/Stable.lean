import OVM.Hex.Lemmas
import OVM.Refine.GlobalStep
/-
  C16, skeleton shared by `ShapeAll.lean` (lengths) and `ConvAll.lean` (stored convention):
  a predicate `Q` on kernel states that is kept by a handful of ATOMIC definition changes
  (`Stable Q`: more deletion flags; erasing a cell slot; erasing a face / edge / vertex slot that the
  level above does not use, with the renumbering `corr2` / `corr1` of the level above; the four index
  swaps) is kept by EVERY deleting / swapping / collecting / mode-switching operation of the driver
  vocabulary in EVERY deletion mode (deferred, immediate index-shifting, immediate fast) and every
  bottom-up configuration, on states satisfying the global invariant `Global.GInv`
  (OVM/Refine/Global.lean: WF ∧ oneCell ∧ Closed ∧ FlagInv) and for valid arguments (`Global.OpOK`).

  The atomic facts are stated on the DEFINITION FIELDS of the states only
  (`nV, edges, faces, cells, vDel, eDel, fDel, cDel`), so that they do not depend on how the model
  writes the caches.  The decomposition of the operations into these atoms uses the stage lemmas of
  builders K2–K4: `delete*Core_{deferred,shift,fast}_eq`, `eraseFace_cells`, `eraseEdge_faces`,
  `eraseVertex_edges`, `Shift.imm_*Core`, `Shift.imm_cellsGone/facesGone`, `gc*Step`, `incident*_spec`.
  Proof-only file.
-/
namespace OVM
namespace Kernel
namespace HexAll
open Global ScanDel

/-- no stored cell uses face `h` / no stored face uses edge `h` / no stored edge touches vertex `h` -/
def UnrefF (k : Kernel) (h : Nat) : Prop := ∀ c ∈ k.cells, ∀ a ∈ c, eOf a ≠ h
def UnrefE (k : Kernel) (h : Nat) : Prop := ∀ f ∈ k.faces, ∀ a ∈ f, eOf a ≠ h
def UnrefV (k : Kernel) (h : Nat) : Prop := ∀ e ∈ k.edges, e.1 ≠ h ∧ e.2 ≠ h

/-- the atomic definition changes a predicate has to survive -/
structure Stable (Q : Kernel → Prop) : Prop where
  /-- same definitions; deletion flags may be added -/
  mono : ∀ {k k' : Kernel}, k'.nV = k.nV → k'.edges = k.edges → k'.faces = k.faces → k'.cells = k.cells →
    (∀ x, k.vDeleted x = true → k'.vDeleted x = true) → (∀ x, k.eDeleted x = true → k'.eDeleted x = true) →
    (∀ x, k.fDeleted x = true → k'.fDeleted x = true) → (∀ x, k.cDeleted x = true → k'.cDeleted x = true) →
    Q k → Q k'
  /-- a cell slot is erased -/
  eraseC : ∀ {k k' : Kernel} (h : Nat), WF k → h < k.nC → k'.nV = k.nV → k'.edges = k.edges → k'.faces = k.faces →
    k'.cells = k.cells.eraseIdx h → k'.vDel = k.vDel → k'.eDel = k.eDel → k'.fDel = k.fDel →
    k'.cDel = k.cDel.eraseIdx h → Q k → Q k'
  /-- a face slot that no stored cell uses is erased, the halfface handles above it shift down -/
  eraseF : ∀ {k k' : Kernel} (h : Nat), WF k → h < k.nF → UnrefF k h → k'.nV = k.nV → k'.edges = k.edges →
    k'.faces = k.faces.eraseIdx h → k'.cells = k.cells.map (·.map (corr2 (2 * h + 1))) → k'.vDel = k.vDel →
    k'.eDel = k.eDel → k'.fDel = k.fDel.eraseIdx h → k'.cDel = k.cDel → Q k → Q k'
  /-- an edge slot that no stored face uses is erased, the halfedge handles above it shift down -/
  eraseE : ∀ {k k' : Kernel} (h : Nat), WF k → h < k.nE → UnrefE k h → k'.nV = k.nV →
    k'.edges = k.edges.eraseIdx h → k'.faces = k.faces.map (·.map (corr2 (2 * h + 1))) → k'.cells = k.cells →
    k'.vDel = k.vDel → k'.eDel = k.eDel.eraseIdx h → k'.fDel = k.fDel → k'.cDel = k.cDel → Q k → Q k'
  /-- a vertex slot that no stored edge touches is erased, the vertex handles above it shift down -/
  eraseV : ∀ {k k' : Kernel} (h : Nat), WF k → h < k.nV → UnrefV k h → k'.nV = k.nV - 1 →
    k'.edges = k.edges.map (fun p => (corr1 h p.1, corr1 h p.2)) → k'.faces = k.faces → k'.cells = k.cells →
    k'.vDel = k.vDel.eraseIdx h → k'.eDel = k.eDel → k'.fDel = k.fDel → k'.cDel = k.cDel → Q k → Q k'
  swapC : ∀ {k : Kernel} (a b : Nat), WF k → k.oneCell = true → Closed k → a < k.nC → b < k.nC → Q k → Q (k.swapCell a b)
  swapF : ∀ {k : Kernel} (a b : Nat), WF k → k.oneCell = true → Closed k → a < k.nF → b < k.nF → Q k → Q (k.swapFace a b)
  swapE : ∀ {k : Kernel} (a b : Nat), WF k → k.oneCell = true → Closed k → a < k.nE → b < k.nE → Q k → Q (k.swapEdge a b)
  swapV : ∀ {k : Kernel} (a b : Nat), WF k → k.oneCell = true → Closed k → a < k.nV → b < k.nV → Q k → Q (k.swapVertex a b)

variable {Q : Kernel → Prop}

/-- same definition fields -/
theorem Stable.same (hs : Stable Q) {k k' : Kernel} (hnV : k'.nV = k.nV) (he : k'.edges = k.edges)
    (hf : k'.faces = k.faces) (hc : k'.cells = k.cells) (hvd : k'.vDel = k.vDel) (hed : k'.eDel = k.eDel)
    (hfd : k'.fDel = k.fDel) (hcd : k'.cDel = k.cDel) (hq : Q k) : Q k' :=
  hs.mono hnV he hf hc (fun x h => by unfold vDeleted at *; rw [hvd]; exact h)
    (fun x h => by unfold eDeleted at *; rw [hed]; exact h) (fun x h => by unfold fDeleted at *; rw [hfd]; exact h)
    (fun x h => by unfold cDeleted at *; rw [hcd]; exact h) hq

theorem flagsFold_mono (L : List Nat) (l : List Bool) (c : Nat) (h : l.getD c false = true) :
    (L.foldl (fun l h => l.set h true) l).getD c false = true := by
  rw [flagsFold_getD, h]; rfl

/-! ## deferred mode: every `delete_*` only sets flags -/

theorem deferred_deleteCell (hs : Stable Q) {k : Kernel} (hd : k.deferred = true) (c : Nat) (hq : Q k) :
    Q (k.deleteCell c) := by
  unfold deleteCell
  obtain ⟨_, a1, a2, a3, a4, a5, a6, a7, a8, _⟩ := foldl_deleteCellCore_deferred [c] k hd
  simp only [List.foldl_cons, List.foldl_nil] at a1 a2 a3 a4 a5 a6 a7 a8
  exact hs.mono a1 a2 a3 a4 (fun x h => by unfold vDeleted at *; rw [a5]; exact h)
    (fun x h => by unfold eDeleted at *; rw [a6]; exact h) (fun x h => by unfold fDeleted at *; rw [a7]; exact h)
    (fun x h => by unfold cDeleted at *; rw [a8]; exact flagsFold_mono [c] _ _ h) hq

theorem deferred_deleteFace (hs : Stable Q) {k : Kernel} (hd : k.deferred = true) (f : Nat) (hq : Q k) :
    Q (k.deleteFace f) := by
  unfold deleteFace
  simp only
  obtain ⟨d1, a1, a2, a3, a4, a5, a6, a7, a8, _⟩ := foldl_deleteCellCore_deferred (k.incidentCells [f]).reverse k hd
  generalize (k.incidentCells [f]).reverse.foldl deleteCellCore k = k1 at d1 a1 a2 a3 a4 a5 a6 a7 a8
  obtain ⟨_, b1, b2, b3, b4, b5, b6, b7, b8, _⟩ := foldl_deleteFaceCore_deferred [f] k1 d1
  simp only [List.foldl_cons, List.foldl_nil] at b1 b2 b3 b4 b5 b6 b7 b8
  exact hs.mono (b1.trans a1) (b2.trans a2) (b3.trans a3) (b4.trans a4)
    (fun x h => by unfold vDeleted at *; rw [b5, a5]; exact h)
    (fun x h => by unfold eDeleted at *; rw [b6, a6]; exact h)
    (fun x h => by unfold fDeleted at *; rw [b8]; exact flagsFold_mono [f] _ _ (by rw [a7]; exact h))
    (fun x h => by unfold cDeleted at *; rw [b7, a8]; exact flagsFold_mono _ _ _ h) hq

theorem deferred_deleteEdge (hs : Stable Q) {k : Kernel} (hd : k.deferred = true) (e : Nat) (hq : Q k) :
    Q (k.deleteEdge e) := by
  unfold deleteEdge
  simp only
  obtain ⟨d1, a1, a2, a3, a4, a5, a6, a7, a8, _⟩ :=
    foldl_deleteCellCore_deferred (k.incidentCells (k.incidentFaces [e])).reverse k hd
  generalize (k.incidentCells (k.incidentFaces [e])).reverse.foldl deleteCellCore k = k1 at d1 a1 a2 a3 a4 a5 a6 a7 a8
  obtain ⟨d2, b1, b2, b3, b4, b5, b6, b7, b8, _⟩ := foldl_deleteFaceCore_deferred (k.incidentFaces [e]).reverse k1 d1
  generalize (k.incidentFaces [e]).reverse.foldl deleteFaceCore k1 = k2 at d2 b1 b2 b3 b4 b5 b6 b7 b8
  obtain ⟨_, c1, c2, c3, c4, c5, c6, c7, c8, _⟩ := foldl_deleteEdgeCore_deferred [e] k2 d2
  simp only [List.foldl_cons, List.foldl_nil] at c1 c2 c3 c4 c5 c6 c7 c8
  exact hs.mono (c1.trans (b1.trans a1)) (c2.trans (b2.trans a2)) (c3.trans (b3.trans a3)) (c4.trans (b4.trans a4))
    (fun x h => by unfold vDeleted at *; rw [c5, b5, a5]; exact h)
    (fun x h => by unfold eDeleted at *; rw [c8]; exact flagsFold_mono [e] _ _ (by rw [b6, a6]; exact h))
    (fun x h => by unfold fDeleted at *; rw [c6, b8]; exact flagsFold_mono _ _ _ (by rw [a7]; exact h))
    (fun x h => by unfold cDeleted at *; rw [c7, b7, a8]; exact flagsFold_mono _ _ _ h) hq

theorem deferred_deleteVertex (hs : Stable Q) {k : Kernel} (hd : k.deferred = true) (v : Nat) (hq : Q k) :
    Q (k.deleteVertex v) := by
  unfold deleteVertex
  simp only
  obtain ⟨d1, a1, a2, a3, a4, a5, a6, a7, a8, _⟩ :=
    foldl_deleteCellCore_deferred (k.incidentCells (k.incidentFaces (k.incidentEdges [v]))).reverse k hd
  generalize (k.incidentCells (k.incidentFaces (k.incidentEdges [v]))).reverse.foldl deleteCellCore k = k1
    at d1 a1 a2 a3 a4 a5 a6 a7 a8
  obtain ⟨d2, b1, b2, b3, b4, b5, b6, b7, b8, _⟩ :=
    foldl_deleteFaceCore_deferred (k.incidentFaces (k.incidentEdges [v])).reverse k1 d1
  generalize (k.incidentFaces (k.incidentEdges [v])).reverse.foldl deleteFaceCore k1 = k2 at d2 b1 b2 b3 b4 b5 b6 b7 b8
  obtain ⟨d3, c1, c2, c3, c4, c5, c6, c7, c8, _⟩ := foldl_deleteEdgeCore_deferred (k.incidentEdges [v]).reverse k2 d2
  generalize (k.incidentEdges [v]).reverse.foldl deleteEdgeCore k2 = k3 at d3 c1 c2 c3 c4 c5 c6 c7 c8
  rw [deleteVertexCore_deferred_eq v d3]
  refine hs.mono (k := k) (k' := k3.flagVertex v) (by simp [c1, b1, a1]) (by simp [c2, b2, a2]) (by simp [c3, b3, a3])
    (by simp [c4, b4, a4]) ?_ ?_ ?_ ?_ hq
  · intro x h
    unfold vDeleted at *
    rw [show (k3.flagVertex v).vDel = k3.vDel.set v true from rfl, ScanDel.getD_set, c5, b5, a5, h]
    split <;> rfl
  · intro x h
    unfold eDeleted at *
    rw [show (k3.flagVertex v).eDel = k3.eDel from rfl, c8]
    exact flagsFold_mono _ _ _ (by rw [b6, a6]; exact h)
  · intro x h
    unfold fDeleted at *
    rw [show (k3.flagVertex v).fDel = k3.fDel from rfl, c6, b8]
    exact flagsFold_mono _ _ _ (by rw [a7]; exact h)
  · intro x h
    unfold cDeleted at *
    rw [show (k3.flagVertex v).cDel = k3.cDel from rfl, c7, b7, a8]
    exact flagsFold_mono _ _ _ h

/-! ## immediate index-shifting mode (`Shift.ImmInv`, builder K4) -/

theorem shift_cellCore (hs : Stable Q) {k : Kernel} (hi : Shift.ImmInv k) {h : Nat} (hh : h < k.nC) (hq : Q k) :
    Q (k.deleteCellCore h) := by
  rw [deleteCellCore_shift_eq h hi.deferred hi.fast]
  exact hs.eraseC h hi.wf hh (by simp) (by simp) (by simp) (by simp) (by simp) (by simp) (by simp) (by simp) hq

theorem shift_faceCore (hs : Stable Q) {k : Kernel} (hi : Shift.ImmInv k) {h : Nat} (hh : h < k.nF) (hun : UnrefF k h)
    (hq : Q k) : Q (k.deleteFaceCore h) := by
  obtain ⟨_, hcells, hfaces, hedges, hnV⟩ := Shift.imm_faceCore hi hh hun
  have heq := deleteFaceCore_shift_eq (k := k) h hi.deferred hi.fast
  exact hs.eraseF h hi.wf hh hun hnV hedges hfaces hcells (by rw [heq]; simp) (by rw [heq]; simp) (by rw [heq]; simp)
    (by rw [heq]; simp) hq

theorem shift_edgeCore (hs : Stable Q) {k : Kernel} (hi : Shift.ImmInv k) {h : Nat} (hh : h < k.nE) (hun : UnrefE k h)
    (hq : Q k) : Q (k.deleteEdgeCore h) := by
  obtain ⟨_, hfaces, hedges, hnV⟩ := Shift.imm_edgeCore hi hh hun
  have heq := deleteEdgeCore_shift_eq (k := k) h hi.deferred hi.fast
  exact hs.eraseE h hi.wf hh hun hnV hedges hfaces (by rw [heq]; simp) (by rw [heq]; simp) (by rw [heq]; simp)
    (by rw [heq]; simp) (by rw [heq]; simp) hq

theorem shift_vertexCore (hs : Stable Q) {k : Kernel} (hi : Shift.ImmInv k) {h : Nat} (hh : h < k.nV) (hun : UnrefV k h)
    (hq : Q k) : Q (k.deleteVertexCore h) := by
  have heq := deleteVertexCore_shift_eq (k := k) h hi.deferred hi.fast
  have hedges := eraseVertex_edges hi.wf ⟨hh, hi.edges, hun⟩
  rw [heq]
  exact hs.eraseV h hi.wf hh hun (by simp) hedges (by simp) (by simp) (by simp) (by simp) (by simp) (by simp) hq

theorem shift_foldCells (hs : Stable Q) (L : List Nat) (hd : Shift.Desc L) : ∀ k : Kernel, Shift.ImmInv k →
    (∀ x ∈ L, x < k.nC) → Q k → Q (L.foldl deleteCellCore k) := by
  induction L with
  | nil => intro k _ _ hq; exact hq
  | cons x t ih =>
    intro k hi hlt hq
    have hx : x < k.nC := hlt x (by simp)
    have htx : ∀ y ∈ t, y < x := fun y hy => List.rel_of_pairwise_cons hd hy
    have hn1 := Shift.imm_cellCore_nC hi hx
    simp only [List.foldl_cons]
    exact ih (List.Pairwise.of_cons hd) _ (Shift.immInv_deleteCellCore hi hx)
      (fun y hy => by rw [hn1]; have := htx y hy; omega) (shift_cellCore hs hi hx hq)

theorem shift_foldFaces (hs : Stable Q) (L : List Nat) (hd : Shift.Desc L) : ∀ k : Kernel, Shift.ImmInv k →
    (∀ x ∈ L, x < k.nF) → (∀ c ∈ k.cells, ∀ a ∈ c, eOf a ∉ L) → Q k → Q (L.foldl deleteFaceCore k) := by
  induction L with
  | nil => intro k _ _ _ hq; exact hq
  | cons x t ih =>
    intro k hi hlt hun hq
    have hx : x < k.nF := hlt x (by simp)
    have htx : ∀ y ∈ t, y < x := fun y hy => List.rel_of_pairwise_cons hd hy
    have hunx : UnrefF k x := fun c hc a ha e => hun c hc a ha (by rw [e]; simp)
    obtain ⟨hi1, hcells, hfaces, _, _⟩ := Shift.imm_faceCore hi hx hunx
    have hn1 : (k.deleteFaceCore x).nF = k.nF - 1 := by unfold nF at *; rw [hfaces, List.length_eraseIdx, if_pos hx]
    simp only [List.foldl_cons]
    refine ih (List.Pairwise.of_cons hd) _ hi1 (fun y hy => by rw [hn1]; have := htx y hy; omega) ?_
      (shift_faceCore hs hi hx hunx hq)
    intro c1 hc1 a1 ha1
    rw [hcells] at hc1
    obtain ⟨c0, hc0, rfl⟩ := List.mem_map.mp hc1
    obtain ⟨a0, ha0, rfl⟩ := List.mem_map.mp ha1
    rw [eOf_corr2 x a0 (hunx c0 hc0 a0 ha0)]
    exact Shift.k4c_corr1_not_mem htx (fun hm => hun c0 hc0 a0 ha0 (List.mem_cons_of_mem _ hm))

theorem shift_foldEdges (hs : Stable Q) (L : List Nat) (hd : Shift.Desc L) : ∀ k : Kernel, Shift.ImmInv k →
    (∀ x ∈ L, x < k.nE) → (∀ c ∈ k.faces, ∀ a ∈ c, eOf a ∉ L) → Q k → Q (L.foldl deleteEdgeCore k) := by
  induction L with
  | nil => intro k _ _ _ hq; exact hq
  | cons x t ih =>
    intro k hi hlt hun hq
    have hx : x < k.nE := hlt x (by simp)
    have htx : ∀ y ∈ t, y < x := fun y hy => List.rel_of_pairwise_cons hd hy
    have hunx : UnrefE k x := fun c hc a ha e => hun c hc a ha (by rw [e]; simp)
    obtain ⟨hi1, hfaces, hedges, _⟩ := Shift.imm_edgeCore hi hx hunx
    have hn1 : (k.deleteEdgeCore x).nE = k.nE - 1 := by unfold nE at *; rw [hedges, List.length_eraseIdx, if_pos hx]
    simp only [List.foldl_cons]
    refine ih (List.Pairwise.of_cons hd) _ hi1 (fun y hy => by rw [hn1]; have := htx y hy; omega) ?_
      (shift_edgeCore hs hi hx hunx hq)
    intro c1 hc1 a1 ha1
    rw [hfaces] at hc1
    obtain ⟨c0, hc0, rfl⟩ := List.mem_map.mp hc1
    obtain ⟨a0, ha0, rfl⟩ := List.mem_map.mp ha1
    rw [eOf_corr2 x a0 (hunx c0 hc0 a0 ha0)]
    exact Shift.k4c_corr1_not_mem htx (fun hm => hun c0 hc0 a0 ha0 (List.mem_cons_of_mem _ hm))

theorem shift_cellsStage (hs : Stable Q) {k : Kernel} (hi : Shift.ImmInv k) (fs : List Nat) (hq : Q k) :
    Q ((k.incidentCells fs).reverse.foldl deleteCellCore k) :=
  shift_foldCells hs _ (Shift.desc_incidentCells k fs) k hi
    (fun _ hx => Shift.incidentCells_lt hi.wf (List.mem_reverse.mp hx)) hq

theorem shift_facesStage (hs : Stable Q) {k : Kernel} (hi : Shift.ImmInv k) (es : List Nat) (hq : Q k) :
    Q ((k.incidentFaces es).reverse.foldl deleteFaceCore
      ((k.incidentCells (k.incidentFaces es)).reverse.foldl deleteCellCore k)) := by
  obtain ⟨a1, a2, _, _, a5⟩ := Shift.imm_cellsGone hi (k.incidentFaces es)
  have q1 := shift_cellsStage hs hi (k.incidentFaces es) hq
  generalize (k.incidentCells (k.incidentFaces es)).reverse.foldl deleteCellCore k = k1 at a1 a2 a5 q1
  exact shift_foldFaces hs _ (Shift.desc_incidentFaces k es) k1 a1
    (fun x hx => by unfold nF; rw [a2]; exact Shift.incidentFaces_lt hi.wf (List.mem_reverse.mp hx))
    (fun c hc a ha hm => a5 c hc a ha (List.mem_reverse.mp hm)) q1

theorem shift_deleteFace (hs : Stable Q) {k : Kernel} (hi : Shift.ImmInv k) {f : Nat} (hf : f < k.nF) (hq : Q k) :
    Q (k.deleteFace f) := by
  unfold deleteFace
  obtain ⟨a1, a2, _, _, a5⟩ := Shift.imm_cellsGone hi [f]
  exact shift_faceCore hs a1 (by unfold nF at *; rw [a2]; exact hf)
    (fun c hc a ha e => a5 c hc a ha (by rw [e]; simp)) (shift_cellsStage hs hi [f] hq)

theorem shift_deleteEdge (hs : Stable Q) {k : Kernel} (hi : Shift.ImmInv k) {e : Nat} (he : e < k.nE) (hq : Q k) :
    Q (k.deleteEdge e) := by
  unfold deleteEdge
  obtain ⟨a1, a2, _, a5⟩ := Shift.imm_facesGone hi [e]
  exact shift_edgeCore hs a1 (by unfold nE at *; rw [a2]; exact he)
    (fun c hc a ha e1 => a5 c hc a ha (by rw [e1]; simp)) (shift_facesStage hs hi [e] hq)

theorem shift_deleteVertex (hs : Stable Q) {k : Kernel} (hi : Shift.ImmInv k) {v : Nat} (hv : v < k.nV) (hq : Q k) :
    Q (k.deleteVertex v) := by
  unfold deleteVertex
  obtain ⟨a1, a2, a4, a5⟩ := Shift.imm_facesGone hi (k.incidentEdges [v])
  have q2 := shift_facesStage hs hi (k.incidentEdges [v]) hq
  simp only []
  generalize (k.incidentFaces (k.incidentEdges [v])).reverse.foldl deleteFaceCore
      ((k.incidentCells (k.incidentFaces (k.incidentEdges [v]))).reverse.foldl deleteCellCore k) = k2 at a1 a2 a4 a5 q2
  have hlt : ∀ x ∈ (k.incidentEdges [v]).reverse, x < k2.nE :=
    fun x hx => by unfold nE; rw [a2]; exact Shift.incidentEdges_lt hi.wf (List.mem_reverse.mp hx)
  have hun : ∀ c ∈ k2.faces, ∀ a ∈ c, eOf a ∉ (k.incidentEdges [v]).reverse :=
    fun c hc a ha hm => a5 c hc a ha (List.mem_reverse.mp hm)
  obtain ⟨b1, b4, b5⟩ := Shift.immInv_foldEdges _ (Shift.desc_incidentEdges k [v]) k2 a1 hlt hun
  have q3 := shift_foldEdges hs _ (Shift.desc_incidentEdges k [v]) k2 a1 hlt hun q2
  refine shift_vertexCore hs b1 (by rw [b4, a4]; exact hv) ?_ q3
  intro p hp
  obtain ⟨j', hj', rfl⟩ := Shift.k4c_edges_index hp
  obtain ⟨j, hj, hjL, e⟩ := b5 j' hj'
  rw [e]
  have hea : k2.edgeAt j = k.edgeAt j := by unfold edgeAt; rw [a2]
  have hj0 : j < k.nE := by unfold nE at *; rw [← a2]; exact hj
  rw [hea]
  constructor
  · intro e1
    exact hjL (List.mem_reverse.mpr (Shift.incidentEdges_complete hi.wf hi.edges hj0 (by simp) (Or.inl e1)))
  · intro e1
    exact hjL (List.mem_reverse.mpr (Shift.incidentEdges_complete hi.wf hi.edges hj0 (by simp) (Or.inr e1)))

/-! ## `collect_garbage` in index-shifting mode (`GCInv`, builder K4): the four sweeps -/

theorem shift_sweepCells (hs : Stable Q) {k : Kernel} (hi : GCInv k) (hq : Q k) :
    Q (gcSweep k k.nC cDeleted (fun k i => { k with cDel := k.cDel.set i false }) deleteCellCore) := by
  have := gcSweep_induct (fun k m => (GCInv k ∧ m ≤ k.nC ∧ ∀ c, m ≤ c → c < k.nC → k.cDeleted c = false) ∧ Q k)
    cDeleted (fun k i => { k with cDel := k.cDel.set i false }) deleteCellCore ?_ k.nC k
    ⟨⟨hi, Nat.le_refl _, fun c h1 h2 => by omega⟩, hq⟩
  · exact this.2
  · intro k m ⟨⟨hi, hm, hl⟩, hq⟩
    by_cases hd : k.cDeleted m = true
    · simp only [hd, if_true]
      obtain ⟨k3, e3, heq⟩ := gcCellStep (h := m) hi.deferred hi.fast hi.wf hd
      rw [heq]
      have hi3 := GCInv.of_fanEq e3 hi
      have hm3 : m < k3.nC := by rw [fanEq_nC e3]; omega
      refine ⟨⟨gcInv_eraseCell hi3 hm3 (by rw [fanEq_cDeleted e3]; exact hd), ?_, ?_⟩, ?_⟩
      · rw [eraseCell_nC k3 m hm3, fanEq_nC e3]; omega
      · intro c h1 h2
        rw [eraseCell_nC k3 m hm3, fanEq_nC e3] at h2
        rw [eraseCell_cDeleted, fanEq_cDeleted e3]
        have : up m c = c + 1 := by unfold up; split <;> omega
        rw [this]; exact hl (c + 1) (by omega) (by omega)
      · have q3 : Q k3 := hs.same e3.nV e3.edges e3.faces e3.cells e3.vDel e3.eDel e3.fDel e3.cDel hq
        exact hs.eraseC m hi3.wf hm3 (by simp) (by simp) (by simp) (by simp) (by simp) (by simp) (by simp) (by simp) q3
    · simp only [hd, Bool.false_eq_true, if_false]
      refine ⟨⟨hi, by omega, fun c h1 h2 => ?_⟩, hq⟩
      rcases Nat.eq_or_lt_of_le h1 with e | e
      · subst e; simpa using hd
      · exact hl c e h2

theorem shift_sweepFaces (hs : Stable Q) {k : Kernel} (hi : GCInv k) (hc : CellsLive k) (hq : Q k) :
    Q (gcSweep k k.nF fDeleted (fun k i => { k with fDel := k.fDel.set i false }) deleteFaceCore) := by
  have := gcSweep_induct (fun k m => (GCInv k ∧ CellsLive k ∧ m ≤ k.nF ∧ ∀ c, m ≤ c → c < k.nF → k.fDeleted c = false) ∧ Q k)
    fDeleted (fun k i => { k with fDel := k.fDel.set i false }) deleteFaceCore ?_ k.nF k
    ⟨⟨hi, hc, Nat.le_refl _, fun c h1 h2 => by omega⟩, hq⟩
  · exact this.2
  · intro k m ⟨⟨hi, hc, hm, hl⟩, hq⟩
    by_cases hd : k.fDeleted m = true
    · simp only [hd, if_true]
      obtain ⟨k3, e3, heq⟩ := gcFaceStep (h := m) hi.deferred hi.fast hi.wf hd
      rw [heq]
      have hi3 := GCInv.of_fanEq e3 hi
      have hm3 : m < k3.nF := by rw [fanEq_nF e3]; omega
      have hc3 : CellsLive k3 := cellsLive_of_eq (by rw [e3.cells]) e3.cDel hc
      have ok := eraseFaceOK_of_gc hi3 hm3 (by rw [fanEq_fDeleted e3]; exact hd) hc3
      refine ⟨⟨gcInv_eraseFace hi3 ok, ?_, ?_, ?_⟩, ?_⟩
      · exact cellsLive_of_eq (by rw [eraseFace_cells ok.fast hi3.wf ok.one ok.cellsLive ok.unref, List.length_map])
          (by simp) hc3
      · rw [eraseFace_nF k3 m hm3, fanEq_nF e3]; omega
      · intro c h1 h2
        rw [eraseFace_nF k3 m hm3, fanEq_nF e3] at h2
        rw [eraseFace_fDeleted, fanEq_fDeleted e3]
        have : up m c = c + 1 := by unfold up; split <;> omega
        rw [this]; exact hl (c + 1) (by omega) (by omega)
      · have q3 : Q k3 := hs.same e3.nV e3.edges e3.faces e3.cells e3.vDel e3.eDel e3.fDel e3.cDel hq
        exact hs.eraseF m hi3.wf hm3 ok.unref (by simp) (by simp) (by simp)
          (eraseFace_cells ok.fast hi3.wf ok.one ok.cellsLive ok.unref) (by simp) (by simp) (by simp) (by simp) q3
    · simp only [hd, Bool.false_eq_true, if_false]
      refine ⟨⟨hi, hc, by omega, fun c h1 h2 => ?_⟩, hq⟩
      rcases Nat.eq_or_lt_of_le h1 with e | e
      · subst e; simpa using hd
      · exact hl c e h2

theorem shift_sweepEdges (hs : Stable Q) {k : Kernel} (hi : GCInv k) (hc : CellsLive k) (hfl : FacesLive k) (hq : Q k) :
    Q (gcSweep k k.nE eDeleted (fun k i => { k with eDel := k.eDel.set i false }) deleteEdgeCore) := by
  have := gcSweep_induct (fun k m => (GCInv k ∧ CellsLive k ∧ FacesLive k ∧ m ≤ k.nE ∧
      ∀ c, m ≤ c → c < k.nE → k.eDeleted c = false) ∧ Q k)
    eDeleted (fun k i => { k with eDel := k.eDel.set i false }) deleteEdgeCore ?_ k.nE k
    ⟨⟨hi, hc, hfl, Nat.le_refl _, fun c h1 h2 => by omega⟩, hq⟩
  · exact this.2
  · intro k m ⟨⟨hi, hc, hfl, hm, hl⟩, hq⟩
    by_cases hd : k.eDeleted m = true
    · simp only [hd, if_true]
      rw [gcEdgeStep (h := m) hi.deferred hi.fast hi.wf hd]
      have hm3 : m < k.nE := by omega
      have ok := eraseEdgeOK_of_gc hi hm3 hd hfl
      refine ⟨⟨gcInv_eraseEdge hi ok, ?_, ?_, ?_, ?_⟩, ?_⟩
      · exact cellsLive_of_eq (by simp) (by simp) hc
      · exact facesLive_of_eq (by rw [eraseEdge_faces hi.wf ok, List.length_map]) (by simp) hfl
      · rw [eraseEdge_nE k m hm3]; omega
      · intro c h1 h2
        rw [eraseEdge_nE k m hm3] at h2
        rw [eraseEdge_eDeleted]
        have : up m c = c + 1 := by unfold up; split <;> omega
        rw [this]; exact hl (c + 1) (by omega) (by omega)
      · exact hs.eraseE m hi.wf hm3 ok.unref (by simp) (by simp) (eraseEdge_faces hi.wf ok) (by simp) (by simp)
          (by simp) (by simp) (by simp) hq
    · simp only [hd, Bool.false_eq_true, if_false]
      refine ⟨⟨hi, hc, hfl, by omega, fun c h1 h2 => ?_⟩, hq⟩
      rcases Nat.eq_or_lt_of_le h1 with e | e
      · subst e; simpa using hd
      · exact hl c e h2

theorem shift_sweepVerts (hs : Stable Q) {k : Kernel} (hi : GCInv k) (hc : CellsLive k) (hfl : FacesLive k)
    (hel : EdgesLive k) (hq : Q k) :
    Q (gcSweep k k.nV vDeleted (fun k i => { k with vDel := k.vDel.set i false }) deleteVertexCore) := by
  have := gcSweep_induct (fun k m => (GCInv k ∧ CellsLive k ∧ FacesLive k ∧ EdgesLive k ∧ m ≤ k.nV ∧
      ∀ c, m ≤ c → c < k.nV → k.vDeleted c = false) ∧ Q k)
    vDeleted (fun k i => { k with vDel := k.vDel.set i false }) deleteVertexCore ?_ k.nV k
    ⟨⟨hi, hc, hfl, hel, Nat.le_refl _, fun c h1 h2 => by omega⟩, hq⟩
  · exact this.2
  · intro k m ⟨⟨hi, hc, hfl, hel, hm, hl⟩, hq⟩
    by_cases hd : k.vDeleted m = true
    · simp only [hd, if_true]
      rw [gcVertexStep (h := m) hi.deferred hi.fast]
      have hm3 : m < k.nV := by omega
      have ok := eraseVertexOK_of_gc hi hm3 hd hel
      refine ⟨⟨gcInv_eraseVertex hi ok, ?_, ?_, ?_, ?_, ?_⟩, ?_⟩
      · exact cellsLive_of_eq (by simp) (by simp) hc
      · exact facesLive_of_eq (by simp) (by simp) hfl
      · exact edgesLive_of_eq (by rw [eraseVertex_edges hi.wf ok, List.length_map]) (by simp) hel
      · rw [eraseVertex_nV]; omega
      · intro c h1 h2
        rw [eraseVertex_nV] at h2
        rw [eraseVertex_vDeleted]
        have : up m c = c + 1 := by unfold up; split <;> omega
        rw [this]; exact hl (c + 1) (by omega) (by omega)
      · exact hs.eraseV m hi.wf hm3 ok.unref (by simp) (eraseVertex_edges hi.wf ok) (by simp) (by simp) (by simp)
          (by simp) (by simp) (by simp) hq
    · simp only [hd, Bool.false_eq_true, if_false]
      refine ⟨⟨hi, hc, hfl, hel, by omega, fun c h1 h2 => ?_⟩, hq⟩
      rcases Nat.eq_or_lt_of_le h1 with e | e
      · subst e; simpa using hd
      · exact hl c e h2

/-- `collect_garbage` when it runs, index-shifting mode -/
theorem shift_collectGarbage (hs : Stable Q) {k : Kernel} (hd : k.deferred = true) (hg : k.needsGC = true)
    (hf : k.fast = false) (hw : WF k) (h1 : k.oneCell = true) (hc : Closed k) (hq : Q k) : Q k.collectGarbage := by
  have hcg : k.collectGarbage =
      { gcVerts (gcEdges (gcFaces (gcCells { k with deferred := false }))) with deferred := true } := by
    unfold collectGarbage; simp [hd, hg]
  rw [hcg]
  have hk0 : GCInv ({ k with deferred := false } : Kernel) :=
    ⟨rfl, hf, wf_of_fans_perm (k := k) (k' := { k with deferred := false }) rfl rfl rfl rfl rfl rfl rfl rfl rfl rfl rfl
        rfl rfl rfl rfl (fun _ => List.Perm.refl _) hw,
     oneCell_of_same (k := k) (k' := { k with deferred := false }) rfl rfl rfl h1,
     closed_of_eq (k := k) (k' := { k with deferred := false }) rfl rfl rfl rfl rfl rfl rfl rfl hc⟩
  have q0 : Q ({ k with deferred := false } : Kernel) := hs.same (k := k) rfl rfl rfl rfl rfl rfl rfl rfl hq
  generalize ({ k with deferred := false } : Kernel) = k0 at hk0 q0
  have s1 := gcInv_sweepCells hk0
  have i1 : GCInv (gcCells k0) := gcInv_congr (k := gcSweep k0 k0.nC cDeleted _ deleteCellCore) (k' := gcCells k0)
    rfl rfl rfl rfl rfl rfl rfl rfl rfl rfl rfl rfl rfl rfl rfl rfl rfl s1.1
  have c1 : CellsLive (gcCells k0) :=
    cellsLive_of_eq (k := gcSweep k0 k0.nC cDeleted _ deleteCellCore) (k' := gcCells k0) rfl rfl s1.2
  have q1 : Q (gcCells k0) :=
    hs.same (k := gcSweep k0 k0.nC cDeleted _ deleteCellCore) (k' := gcCells k0) rfl rfl rfl rfl rfl rfl rfl rfl
      (shift_sweepCells hs hk0 q0)
  generalize gcCells k0 = k1 at i1 c1 q1
  have s2 := gcInv_sweepFaces i1 c1
  have i2 : GCInv (gcFaces k1) := gcInv_congr (k := gcSweep k1 k1.nF fDeleted _ deleteFaceCore) (k' := gcFaces k1)
    rfl rfl rfl rfl rfl rfl rfl rfl rfl rfl rfl rfl rfl rfl rfl rfl rfl s2.1
  have c2 : CellsLive (gcFaces k1) :=
    cellsLive_of_eq (k := gcSweep k1 k1.nF fDeleted _ deleteFaceCore) (k' := gcFaces k1) rfl rfl s2.2.1
  have f2 : FacesLive (gcFaces k1) :=
    facesLive_of_eq (k := gcSweep k1 k1.nF fDeleted _ deleteFaceCore) (k' := gcFaces k1) rfl rfl s2.2.2
  have q2 : Q (gcFaces k1) :=
    hs.same (k := gcSweep k1 k1.nF fDeleted _ deleteFaceCore) (k' := gcFaces k1) rfl rfl rfl rfl rfl rfl rfl rfl
      (shift_sweepFaces hs i1 c1 q1)
  generalize gcFaces k1 = k2 at i2 c2 f2 q2
  have s3 := gcInv_sweepEdges i2 c2 f2
  have i3 : GCInv (gcEdges k2) := gcInv_congr (k := gcSweep k2 k2.nE eDeleted _ deleteEdgeCore) (k' := gcEdges k2)
    rfl rfl rfl rfl rfl rfl rfl rfl rfl rfl rfl rfl rfl rfl rfl rfl rfl s3.1
  have c3 : CellsLive (gcEdges k2) :=
    cellsLive_of_eq (k := gcSweep k2 k2.nE eDeleted _ deleteEdgeCore) (k' := gcEdges k2) rfl rfl s3.2.1
  have f3 : FacesLive (gcEdges k2) :=
    facesLive_of_eq (k := gcSweep k2 k2.nE eDeleted _ deleteEdgeCore) (k' := gcEdges k2) rfl rfl s3.2.2.1
  have e3 : EdgesLive (gcEdges k2) :=
    edgesLive_of_eq (k := gcSweep k2 k2.nE eDeleted _ deleteEdgeCore) (k' := gcEdges k2) rfl rfl s3.2.2.2
  have q3 : Q (gcEdges k2) :=
    hs.same (k := gcSweep k2 k2.nE eDeleted _ deleteEdgeCore) (k' := gcEdges k2) rfl rfl rfl rfl rfl rfl rfl rfl
      (shift_sweepEdges hs i2 c2 f2 q2)
  generalize gcEdges k2 = k3 at i3 c3 f3 e3 q3
  have q4 := shift_sweepVerts hs i3 c3 f3 e3 q3
  generalize hk4 : gcSweep k3 k3.nV vDeleted (fun k i => { k with vDel := k.vDel.set i false }) deleteVertexCore = k4 at q4
  have hgv : gcVerts k3 = { k4 with nDelV := 0 } := by unfold gcVerts; rw [hk4]
  rw [hgv]
  exact hs.same (k := k4) rfl rfl rfl rfl rfl rfl rfl rfl q4

/-! ## immediate fast mode (`ImmInv`, builder K3): swap with the last slot, unlink, pop -/

theorem map_corr2_low (h : Nat) (l : List (List Nat)) (hl : ∀ c ∈ l, ∀ a ∈ c, a < 2 * h) :
    l.map (·.map (corr2 (2 * h + 1))) = l := by
  have : ∀ c ∈ l, c.map (corr2 (2 * h + 1)) = c := by
    intro c hc
    have : ∀ a ∈ c, corr2 (2 * h + 1) a = a := by
      intro a ha; have := hl c hc a ha; unfold corr2; split <;> omega
    rw [List.map_congr_left this, List.map_id']
  rw [List.map_congr_left this, List.map_id']

theorem closed_of_imm {k : Kernel} (hi : ImmInv k) (hv : NoFlag k.vDel) : Closed k :=
  closed_of_noFlag hi.wf.range hi.nfF hi.nfE hv

theorem fast_cellCore (hs : Stable Q) {k : Kernel} (hi : ImmInv k) (hv : NoFlag k.vDel) {h : Nat} (hh : h < k.nC)
    (hq : Q k) : Q (k.deleteCellCore h) := by
  rw [deleteCellCore_fast_eq h hi.imm hi.fast]
  have hlast : k.nC - 1 < k.nC := by omega
  have q1 := hs.swapC h (k.nC - 1) hi.wf hi.one (closed_of_imm hi hv) hh hlast hq
  have hw1 := wf_swapCell hh hlast hi.wf hi.one
  have hn1 : (k.swapCell h (k.nC - 1)).nC = k.nC := by unfold nC; rw [swapCell_cells_eq]; simp
  exact hs.eraseC (k := k.swapCell h (k.nC - 1)) (k.nC - 1) hw1 (by rw [hn1]; exact hlast) (by simp) (by simp) (by simp)
    (by simp) (by simp) (by simp) (by simp) (by simp) q1

theorem fast_faceCore (hs : Stable Q) {k : Kernel} (hi : ImmInv k) (hv : NoFlag k.vDel) {h : Nat} (hh : h < k.nF)
    (hno : ∀ c ∈ k.cells, ∀ x ∈ c, x / 2 ≠ h) (hq : Q k) : Q (k.deleteFaceCore h) := by
  rw [deleteFaceCore_fast_eq h hi.imm hi.fast]
  have hlast : k.nF - 1 < k.nF := by omega
  have q1 := hs.swapF h (k.nF - 1) hi.wf hi.one (closed_of_imm hi hv) hh hlast hq
  have hw1 := wf_swapFace hh hlast hi.wf hi.one
  have hn1 : (k.swapFace h (k.nF - 1)).nF = k.nF := by unfold nF; rw [swapFace_faces_length]
  have hno1 := swapFace_unused hh hlast hi.wf.cache.f (fun _ => hi.one) (fun _ => hi.nfC) hno
  have hfast1 : ((k.swapFace h (k.nF - 1)).unlinkFace (k.nF - 1)).fast = true := by simpa using hi.fast
  refine hs.eraseF (k := k.swapFace h (k.nF - 1)) (k.nF - 1) hw1 (by rw [hn1]; exact hlast) hno1 (by simp) (by simp)
    (by simp) ?_ (by simp) (by simp) (by simp) (by simp) q1
  rw [eraseFace_cells_fast _ _ hfast1, unlinkFace_cells]
  refine (map_corr2_low _ _ ?_).symm
  intro c hc a ha
  have h1 := hw1.range.cells c hc a ha
  have h2 := hno1 c hc a ha
  unfold nHF at h1; rw [swapFace_faces_length] at h1; unfold nF at *; omega

theorem fast_edgeCore (hs : Stable Q) {k : Kernel} (hi : ImmInv k) (hv : NoFlag k.vDel) {h : Nat} (hh : h < k.nE)
    (hno : ∀ f ∈ k.faces, ∀ x ∈ f, x / 2 ≠ h) (hq : Q k) : Q (k.deleteEdgeCore h) := by
  rw [deleteEdgeCore_fast_eq h hi.imm hi.fast]
  have hlast : k.nE - 1 < k.nE := by omega
  have q1 := hs.swapE h (k.nE - 1) hi.wf hi.one (closed_of_imm hi hv) hh hlast hq
  have hw1 := wf_swapEdge hh hlast hi.wf
  have hn1 : (k.swapEdge h (k.nE - 1)).nE = k.nE := by unfold nE; rw [swapEdge_edges_length]
  have hno1 := swapEdge_unused hh hlast hi.wf.cache.e (fun _ => hi.nfF) hno
  have hfast1 : ((k.swapEdge h (k.nE - 1)).unlinkEdge (k.nE - 1)).fast = true := by simpa using hi.fast
  refine hs.eraseE (k := k.swapEdge h (k.nE - 1)) (k.nE - 1) hw1 (by rw [hn1]; exact hlast) hno1 (by simp) (by simp)
    ?_ (by simp) (by simp) (by simp) (by simp) (by simp) q1
  rw [eraseEdge_faces_fast _ _ hfast1, unlinkEdge_faces]
  refine (map_corr2_low _ _ ?_).symm
  intro c hc a ha
  have h1 := hw1.range.faces c hc a ha
  have h2 := hno1 c hc a ha
  unfold nHE at h1; rw [swapEdge_edges_length] at h1; unfold nE at *; omega

theorem fast_vertexCore (hs : Stable Q) {k : Kernel} (hi : ImmInv k) (hv : NoFlag k.vDel) {h : Nat} (hh : h < k.nV)
    (hno : ∀ e ∈ k.edges, e.1 ≠ h ∧ e.2 ≠ h) (hq : Q k) : Q (k.deleteVertexCore h) := by
  rw [deleteVertexCore_fast_eq h hi.imm hi.fast]
  have hlast : k.nV - 1 < k.nV := by omega
  have q1 := hs.swapV h (k.nV - 1) hi.wf hi.one (closed_of_imm hi hv) hh hlast hq
  have hw1 := wf_swapVertex hh hlast hi.wf
  have hno1 := swapVertex_unused hh hlast hi.wf.cache.v (fun _ => hi.nfE) hno
  have hel : ∀ e, e < (k.swapVertex h (k.nV - 1)).nE → (k.swapVertex h (k.nV - 1)).eDeleted e = false := by
    intro e _; unfold eDeleted; rw [swapVertex_eDel]; exact hi.nfE.getD e
  have ok : EraseVertexOK (k.swapVertex h (k.nV - 1)) (k.nV - 1) := ⟨by simpa using hlast, hel, hno1⟩
  exact hs.eraseV (k := k.swapVertex h (k.nV - 1)) (k.nV - 1) hw1 (by simpa using hlast) hno1 (by simp)
    (eraseVertex_edges hw1 ok) (by simp) (by simp) (by simp) (by simp) (by simp) (by simp) q1

theorem fast_cellStage (hs : Stable Q) : ∀ (L : List Nat) (k : Kernel), ImmInv k → NoFlag k.vDel → L.Pairwise (· > ·) →
    (∀ c ∈ L, c < k.nC) → Q k → Q (L.foldl deleteCellCore k) := by
  intro L
  induction L with
  | nil => intro k _ _ _ _ hq; exact hq
  | cons h t ih =>
    intro k hi hv hp hlt hq
    simp only [List.foldl_cons]
    have hh : h < k.nC := hlt h (by simp)
    obtain ⟨s1, s2, _⟩ := immInv_deleteCellCore hi hh
    exact ih (k.deleteCellCore h) s1 (by rw [Global.deleteCellCore_vDel]; exact hv) (List.pairwise_cons.mp hp).2
      (by rw [s2]; exact k3_lt_of_desc hp hh) (fast_cellCore hs hi hv hh hq)

theorem fast_faceStage (hs : Stable Q) : ∀ (L : List Nat) (k : Kernel), ImmInv k → NoFlag k.vDel → L.Pairwise (· > ·) →
    (∀ f ∈ L, f < k.nF) → (∀ c ∈ k.cells, ∀ x ∈ c, x / 2 ∉ L) → Q k → Q (L.foldl deleteFaceCore k) := by
  intro L
  induction L with
  | nil => intro k _ _ _ _ _ hq; exact hq
  | cons h t ih =>
    intro k hi hv hp hlt hno hq
    simp only [List.foldl_cons]
    have hh : h < k.nF := hlt h (by simp)
    have hc := List.pairwise_cons.mp hp
    have hnoh : ∀ c ∈ k.cells, ∀ x ∈ c, x / 2 ≠ h := fun c hc x hx e => hno c hc x hx (by rw [e]; simp)
    obtain ⟨s1, s2, _, s4, _, _⟩ := immInv_deleteFaceCore hi hh hnoh
    refine ih (k.deleteFaceCore h) s1 (by rw [Global.deleteFaceCore_vDel]; exact hv) hc.2
      (by rw [s2]; exact k3_lt_of_desc hp hh) ?_ (fast_faceCore hs hi hv hh hnoh hq)
    intro c hcm x hx hxt
    obtain ⟨c0, hc0, rfl⟩ := s4 c hcm
    rw [k3_mem_map_relabelHalf] at hx
    have h1 := hno c0 hc0 _ hx
    rw [k3_relabelHalf_div] at h1
    have hg := hc.1 _ hxt
    rw [k3_relabelId_off (by omega) (by omega)] at h1
    exact h1 (List.mem_cons_of_mem _ hxt)

theorem fast_edgeStage (hs : Stable Q) : ∀ (L : List Nat) (k : Kernel), ImmInv k → NoFlag k.vDel → L.Pairwise (· > ·) →
    (∀ e ∈ L, e < k.nE) → (∀ f ∈ k.faces, ∀ x ∈ f, x / 2 ∉ L) → Q k → Q (L.foldl deleteEdgeCore k) := by
  intro L
  induction L with
  | nil => intro k _ _ _ _ _ hq; exact hq
  | cons h t ih =>
    intro k hi hv hp hlt hno hq
    simp only [List.foldl_cons]
    have hh : h < k.nE := hlt h (by simp)
    have hc := List.pairwise_cons.mp hp
    have hnoh : ∀ c ∈ k.faces, ∀ x ∈ c, x / 2 ≠ h := fun c hc x hx e => hno c hc x hx (by rw [e]; simp)
    obtain ⟨s1, s2, _, s4, _⟩ := immInv_deleteEdgeCore hi hh hnoh
    refine ih (k.deleteEdgeCore h) s1 (by rw [Global.deleteEdgeCore_vDel]; exact hv) hc.2
      (by rw [s2]; exact k3_lt_of_desc hp hh) ?_ (fast_edgeCore hs hi hv hh hnoh hq)
    intro c hcm x hx hxt
    obtain ⟨c0, hc0, rfl⟩ := s4 c hcm
    rw [k3_mem_map_relabelHalf] at hx
    have h1 := hno c0 hc0 _ hx
    rw [k3_relabelHalf_div] at h1
    have hg := hc.1 _ hxt
    rw [k3_relabelId_off (by omega) (by omega)] at h1
    exact h1 (List.mem_cons_of_mem _ hxt)

theorem foldl_vDel {core : Kernel → Nat → Kernel} (hc : ∀ k h, (core k h).vDel = k.vDel) (L : List Nat) (k : Kernel) :
    (L.foldl core k).vDel = k.vDel := by
  induction L generalizing k with
  | nil => rfl
  | cons a t ih => simp only [List.foldl_cons]; rw [ih, hc]

theorem fast_deleteFace (hs : Stable Q) {k : Kernel} (hi : ImmInv k) (hv : NoFlag k.vDel) {f : Nat} (hf : f < k.nF)
    (hq : Q k) : Q (k.deleteFace f) := by
  unfold deleteFace
  obtain ⟨c1, c2⟩ := incidentCells_spec hi [f]
  have hlt : ∀ c ∈ (k.incidentCells [f]).reverse, c < k.nC := by simpa using c1
  obtain ⟨r1, r2, r3, _, _⟩ := cellStage (fun c => ∃ x ∈ c, x / 2 ∈ [f]) (k.incidentCells [f]).reverse k hi
    (incidentCells_desc k _) hlt (by intro i hil hq; simpa using c2 i hil hq)
  have q1 := fast_cellStage hs _ k hi hv (incidentCells_desc k _) hlt hq
  refine fast_faceCore hs r1 (by rw [foldl_vDel Global.deleteCellCore_vDel]; exact hv)
    (by unfold nF at *; rw [r3]; exact hf) ?_ q1
  intro c hc x hx e
  exact r2 c hc ⟨x, hx, by simp [e]⟩

theorem fast_deleteEdge (hs : Stable Q) {k : Kernel} (hi : ImmInv k) (hv : NoFlag k.vDel) {e : Nat} (he : e < k.nE)
    (hq : Q k) : Q (k.deleteEdge e) := by
  unfold deleteEdge
  obtain ⟨f1, f2⟩ := incidentFaces_spec hi [e] (by simpa using he)
  obtain ⟨c1, c2⟩ := incidentCells_spec hi (k.incidentFaces [e])
  have hltc : ∀ c ∈ (k.incidentCells (k.incidentFaces [e])).reverse, c < k.nC := by simpa using c1
  obtain ⟨r1, r2, r3, r4, _⟩ := cellStage (fun c => ∃ x ∈ c, x / 2 ∈ k.incidentFaces [e])
    (k.incidentCells (k.incidentFaces [e])).reverse k hi
    (incidentCells_desc k _) hltc (by intro i hil hq; simpa using c2 i hil hq)
  have q1 := fast_cellStage hs _ k hi hv (incidentCells_desc k _) hltc hq
  have v1 : NoFlag ((k.incidentCells (k.incidentFaces [e])).reverse.foldl deleteCellCore k).vDel := by
    rw [foldl_vDel Global.deleteCellCore_vDel]; exact hv
  simp only
  generalize (k.incidentCells (k.incidentFaces [e])).reverse.foldl deleteCellCore k = k1 at r1 r2 r3 r4 q1 v1
  have hltf : ∀ f ∈ (k.incidentFaces [e]).reverse, f < k1.nF := by unfold nF at *; rw [r3]; simpa using f1
  have hnof : ∀ c ∈ k1.cells, ∀ x ∈ c, x / 2 ∉ (k.incidentFaces [e]).reverse := by
    intro c hc x hx hm; exact r2 c hc ⟨x, hx, by simpa using hm⟩
  obtain ⟨s1, s2, s3, _⟩ := faceStage (fun f => ∃ x ∈ f, x / 2 ∈ [e]) (k.incidentFaces [e]).reverse _ r1
    (incidentFaces_desc k _) hltf hnof
    (by
      intro i hil hq
      unfold nF faceAt at *
      rw [r3] at hil hq
      simpa using f2 i hil hq)
  have q2 := fast_faceStage hs _ k1 r1 v1 (incidentFaces_desc k _) hltf hnof q1
  refine fast_edgeCore hs s1 (by rw [foldl_vDel Global.deleteFaceCore_vDel]; exact v1)
    (by unfold nE at *; rw [s3, r4]; exact he) ?_ q2
  intro f hf x hx e'
  exact s2 f hf ⟨x, hx, by simp [e']⟩

theorem fast_deleteVertex (hs : Stable Q) {k : Kernel} (hi : ImmInv k) (hv : NoFlag k.vDel) {v : Nat} (hvv : v < k.nV)
    (hq : Q k) : Q (k.deleteVertex v) := by
  unfold deleteVertex
  obtain ⟨e1, e2⟩ := incidentEdges_spec hi hvv
  obtain ⟨f1, f2⟩ := incidentFaces_spec hi (k.incidentEdges [v]) e1
  obtain ⟨c1, c2⟩ := incidentCells_spec hi (k.incidentFaces (k.incidentEdges [v]))
  have hltc : ∀ c ∈ (k.incidentCells (k.incidentFaces (k.incidentEdges [v]))).reverse, c < k.nC := by simpa using c1
  obtain ⟨r1, r2, r3, r4, r5⟩ := cellStage (fun c => ∃ x ∈ c, x / 2 ∈ k.incidentFaces (k.incidentEdges [v]))
    (k.incidentCells (k.incidentFaces (k.incidentEdges [v]))).reverse k hi
    (incidentCells_desc k _) hltc (by intro i hil hq; simpa using c2 i hil hq)
  have q1 := fast_cellStage hs _ k hi hv (incidentCells_desc k _) hltc hq
  have v1 : NoFlag ((k.incidentCells (k.incidentFaces (k.incidentEdges [v]))).reverse.foldl deleteCellCore k).vDel := by
    rw [foldl_vDel Global.deleteCellCore_vDel]; exact hv
  simp only
  generalize (k.incidentCells (k.incidentFaces (k.incidentEdges [v]))).reverse.foldl deleteCellCore k = k1
    at r1 r2 r3 r4 r5 q1 v1
  have hltf : ∀ f ∈ (k.incidentFaces (k.incidentEdges [v])).reverse, f < k1.nF := by
    unfold nF at *; rw [r3]; simpa using f1
  have hnof : ∀ c ∈ k1.cells, ∀ x ∈ c, x / 2 ∉ (k.incidentFaces (k.incidentEdges [v])).reverse := by
    intro c hc x hx hm; exact r2 c hc ⟨x, hx, by simpa using hm⟩
  obtain ⟨s1, s2, s3, s4⟩ := faceStage (fun f => ∃ x ∈ f, x / 2 ∈ k.incidentEdges [v])
    (k.incidentFaces (k.incidentEdges [v])).reverse _ r1
    (incidentFaces_desc k _) hltf hnof
    (by
      intro i hil hq
      unfold nF faceAt at *
      rw [r3] at hil hq
      simpa using f2 i hil hq)
  have q2 := fast_faceStage hs _ k1 r1 v1 (incidentFaces_desc k _) hltf hnof q1
  have v2 : NoFlag ((k.incidentFaces (k.incidentEdges [v])).reverse.foldl deleteFaceCore k1).vDel := by
    rw [foldl_vDel Global.deleteFaceCore_vDel]; exact v1
  generalize (k.incidentFaces (k.incidentEdges [v])).reverse.foldl deleteFaceCore k1 = k2 at s1 s2 s3 s4 q2 v2
  have hlte : ∀ e ∈ (k.incidentEdges [v]).reverse, e < k2.nE := by unfold nE at *; rw [s3, r4]; simpa using e1
  have hnoe : ∀ f ∈ k2.faces, ∀ x ∈ f, x / 2 ∉ (k.incidentEdges [v]).reverse := by
    intro f hf x hx hm; exact s2 f hf ⟨x, hx, by simpa using hm⟩
  obtain ⟨t1, t2, t3⟩ := edgeStage (fun e => e.1 = v ∨ e.2 = v) (k.incidentEdges [v]).reverse _ s1
    (incidentEdges_desc k _) hlte hnoe
    (by
      intro i hil hq
      unfold nE edgeAt at *
      rw [s3, r4] at hil hq
      simpa using e2 i hil hq)
  have q3 := fast_edgeStage hs _ k2 s1 v2 (incidentEdges_desc k _) hlte hnoe q2
  refine fast_vertexCore hs t1 (by rw [foldl_vDel Global.deleteEdgeCore_vDel]; exact v2)
    (by rw [t3, s4, r5]; exact hvv) ?_ q3
  intro e he
  have := t2 e he
  exact ⟨fun h => this (Or.inl h), fun h => this (Or.inr h)⟩

/-! ## `collect_garbage` in fast mode (`FastGCInv`, builder K3) -/

theorem closed_of_nf {k : Kernel} (hf : NoFlag k.fDel) (he : NoFlag k.eDel) (hR : VRef k) : Closed k := by
  refine ⟨fun c _ a _ => by unfold fDeleted; exact hf.getD _, fun f _ a _ => by unfold eDeleted; exact he.getD _, ?_⟩
  intro e hl
  have hlt : e < k.nE := by unfold liveE at hl; simp at hl; exact hl.1
  exact hR _ (k4_edgeAt_mem hlt)

theorem fastgc_cellStep (hs : Stable Q) {k : Kernel} (hi : FastGCInv k) {m : Nat} (hm : m < k.nC) (hcl : Closed k)
    (hq : Q k) : Q (deleteCellCore (unflagC k m) m) := by
  have hlC := hi.wf.len.cDel
  have hlast : k.nC - 1 < k.nC := by omega
  have e0 : deleteCellCore (unflagC k m) m =
      ((unflagC (k.swapCell m (k.nC - 1)) (k.nC - 1)).unlinkCell (k.nC - 1)).eraseCell (k.nC - 1) := by
    rw [deleteCellCore_fast_eq m (by simpa [unflagC] using hi.imm) (by simpa [unflagC] using hi.fast)]
    have : (unflagC k m).nC = k.nC := rfl
    rw [this, unflagC_swapCell k (by rw [hlC]; exact hm) (by rw [hlC]; exact hlast)]
  rw [e0]
  have q1 := hs.swapC m (k.nC - 1) hi.wf hi.one hcl hm hlast hq
  have hw1 := wf_swapCell hm hlast hi.wf hi.one
  have hn1 : (k.swapCell m (k.nC - 1)).nC = k.nC := by unfold nC; rw [swapCell_cells_eq]; simp
  exact hs.eraseC (k := k.swapCell m (k.nC - 1)) (k.nC - 1) hw1 (by rw [hn1]; exact hlast) (by simp [unflagC])
    (by simp [unflagC]) (by simp [unflagC]) (by simp [unflagC]) (by simp [unflagC]) (by simp [unflagC])
    (by simp [unflagC]) (by simp [unflagC, List.eraseIdx_set_eq]) q1

theorem fastgc_faceStep (hs : Stable Q) {k : Kernel} (hi : FastGCInv k) {m : Nat} (hm : m < k.nF)
    (hdel : k.fDeleted m = true) (hnfC : NoFlag k.cDel) (hcl : Closed k) (hq : Q k) :
    Q (deleteFaceCore (unflagF k m) m) := by
  have hlF := hi.wf.len.fDel
  have hlast : k.nF - 1 < k.nF := by omega
  have e0 : deleteFaceCore (unflagF k m) m =
      ((unflagF (k.swapFace m (k.nF - 1)) (k.nF - 1)).unlinkFace (k.nF - 1)).eraseFace (k.nF - 1) := by
    rw [deleteFaceCore_fast_eq m (by simpa [unflagF] using hi.imm) (by simpa [unflagF] using hi.fast)]
    have : (unflagF k m).nF = k.nF := rfl
    rw [this, unflagF_swapFace k (by rw [hlF]; exact hm) (by rw [hlF]; exact hlast)]
  rw [e0]
  have q1 := hs.swapF m (k.nF - 1) hi.wf hi.one hcl hm hlast hq
  have hw1 := wf_swapFace hm hlast hi.wf hi.one
  have hn1 : (k.swapFace m (k.nF - 1)).nF = k.nF := by unfold nF; rw [swapFace_faces_length]
  have hno : ∀ c ∈ k.cells, ∀ x ∈ c, x / 2 ≠ m := by
    intro c hc x hx e
    obtain ⟨i, hil, rfl⟩ := k3_mem_getD [] hc
    have hl : k.liveC i = true := by unfold liveC cDeleted; rw [hnfC.getD i]; simp [show i < k.nC from hil]
    have := hcl.f i hl x hx
    unfold eOf at this; rw [e, hdel] at this; cases this
  have hno1 := swapFace_unused hm hlast hi.wf.cache.f (fun _ => hi.one) (fun _ => hnfC) hno
  have hfast1 : ((unflagF (k.swapFace m (k.nF - 1)) (k.nF - 1)).unlinkFace (k.nF - 1)).fast = true := by
    simpa [unflagF] using hi.fast
  refine hs.eraseF (k := k.swapFace m (k.nF - 1)) (k.nF - 1) hw1 (by rw [hn1]; exact hlast) hno1 (by simp [unflagF])
    (by simp [unflagF]) (by simp [unflagF]) ?_ (by simp [unflagF]) (by simp [unflagF])
    (by simp [unflagF, List.eraseIdx_set_eq]) (by simp [unflagF]) q1
  rw [eraseFace_cells_fast _ _ hfast1, unlinkFace_cells]
  show (k.swapFace m (k.nF - 1)).cells = _
  refine (map_corr2_low _ _ ?_).symm
  intro c hc a ha
  have h1 := hw1.range.cells c hc a ha
  have h2 := hno1 c hc a ha
  unfold nHF at h1; rw [swapFace_faces_length] at h1; unfold nF at *; omega

theorem fastgc_edgeStep (hs : Stable Q) {k : Kernel} (hi : FastGCInv k) {m : Nat} (hm : m < k.nE)
    (hdel : k.eDeleted m = true) (hnfF : NoFlag k.fDel) (hcl : Closed k) (hq : Q k) :
    Q (deleteEdgeCore (unflagE k m) m) := by
  have hlE := hi.wf.len.eDel
  have hlast : k.nE - 1 < k.nE := by omega
  have e0 : deleteEdgeCore (unflagE k m) m =
      ((unflagE (k.swapEdge m (k.nE - 1)) (k.nE - 1)).unlinkEdge (k.nE - 1)).eraseEdge (k.nE - 1) := by
    rw [deleteEdgeCore_fast_eq m (by simpa [unflagE] using hi.imm) (by simpa [unflagE] using hi.fast)]
    have : (unflagE k m).nE = k.nE := rfl
    rw [this, unflagE_swapEdge k (by rw [hlE]; exact hm) (by rw [hlE]; exact hlast)]
  rw [e0]
  have q1 := hs.swapE m (k.nE - 1) hi.wf hi.one hcl hm hlast hq
  have hw1 := wf_swapEdge hm hlast hi.wf
  have hn1 : (k.swapEdge m (k.nE - 1)).nE = k.nE := by unfold nE; rw [swapEdge_edges_length]
  have hno : ∀ c ∈ k.faces, ∀ x ∈ c, x / 2 ≠ m := by
    intro c hc x hx e
    obtain ⟨i, hil, rfl⟩ := k3_mem_getD [] hc
    have hl : k.liveF i = true := by unfold liveF fDeleted; rw [hnfF.getD i]; simp [show i < k.nF from hil]
    have := hcl.e i hl x hx
    unfold eOf at this; rw [e, hdel] at this; cases this
  have hno1 := swapEdge_unused hm hlast hi.wf.cache.e (fun _ => hnfF) hno
  have hfast1 : ((unflagE (k.swapEdge m (k.nE - 1)) (k.nE - 1)).unlinkEdge (k.nE - 1)).fast = true := by
    simpa [unflagE] using hi.fast
  refine hs.eraseE (k := k.swapEdge m (k.nE - 1)) (k.nE - 1) hw1 (by rw [hn1]; exact hlast) hno1 (by simp [unflagE])
    (by simp [unflagE]) ?_ (by simp [unflagE]) (by simp [unflagE]) (by simp [unflagE, List.eraseIdx_set_eq])
    (by simp [unflagE]) (by simp [unflagE]) q1
  rw [eraseEdge_faces_fast _ _ hfast1, unlinkEdge_faces]
  show (k.swapEdge m (k.nE - 1)).faces = _
  refine (map_corr2_low _ _ ?_).symm
  intro c hc a ha
  have h1 := hw1.range.faces c hc a ha
  have h2 := hno1 c hc a ha
  unfold nHE at h1; rw [swapEdge_edges_length] at h1; unfold nE at *; omega

theorem fastgc_vertexStep (hs : Stable Q) {k : Kernel} (hi : FastGCInv k) {m : Nat} (hm : m < k.nV)
    (hdel : k.vDeleted m = true) (hnfE : NoFlag k.eDel) (hR : VRef k) (hcl : Closed k) (hq : Q k) :
    Q (deleteVertexCore (unflagV k m) m) := by
  have hlV := hi.wf.len.vDel
  have hlast : k.nV - 1 < k.nV := by omega
  have e0 : deleteVertexCore (unflagV k m) m = (unflagV (k.swapVertex m (k.nV - 1)) (k.nV - 1)).eraseVertex (k.nV - 1) := by
    rw [deleteVertexCore_fast_eq m (by simpa [unflagV] using hi.imm) (by simpa [unflagV] using hi.fast)]
    have : (unflagV k m).nV = k.nV := rfl
    rw [this, unflagV_swapVertex k (by rw [hlV]; exact hm) (by rw [hlV]; exact hlast)]
  rw [e0]
  have q1 := hs.swapV m (k.nV - 1) hi.wf hi.one hcl hm hlast hq
  have hw0 := wf_swapVertex hm hlast hi.wf
  have hw1 := wf_unflagV (k.nV - 1) hw0
  have hno0 : ∀ e ∈ k.edges, e.1 ≠ m ∧ e.2 ≠ m := by
    intro e he
    have := hR e he
    constructor
    · intro h; rw [h, hdel] at this; cases this.1
    · intro h; rw [h, hdel] at this; cases this.2
  have hno1 := swapVertex_unused hm hlast hi.wf.cache.v (fun _ => hnfE) hno0
  have hel : ∀ e, e < (unflagV (k.swapVertex m (k.nV - 1)) (k.nV - 1)).nE →
      (unflagV (k.swapVertex m (k.nV - 1)) (k.nV - 1)).eDeleted e = false := by
    intro e _; unfold eDeleted; simp only [unflagV]; rw [swapVertex_eDel]; exact hnfE.getD e
  have ok : EraseVertexOK (unflagV (k.swapVertex m (k.nV - 1)) (k.nV - 1)) (k.nV - 1) :=
    ⟨by simpa [unflagV] using hlast, hel, by simpa [unflagV] using hno1⟩
  have hedges := eraseVertex_edges hw1 ok
  exact hs.eraseV (k := k.swapVertex m (k.nV - 1)) (k.nV - 1) hw0 (by simpa using hlast) hno1 (by simp [unflagV])
    (by rw [hedges]; simp [unflagV]) (by simp [unflagV]) (by simp [unflagV]) (by simp [unflagV, List.eraseIdx_set_eq])
    (by simp [unflagV]) (by simp [unflagV]) (by simp [unflagV]) q1

theorem fastgc_cells (hs : Stable Q) {k : Kernel} (hi : FastGCInv k) (hC : UpC k) (hF : UpF k) (hE : UpE k) (hq : Q k) :
    Q (gcCells k) := by
  have key := k3_gcSweep_induct
    (fun m k => (FastGCInv k ∧ m ≤ k.nC ∧ (∀ j, m ≤ j → k.cDeleted j = false) ∧ UpC k ∧ UpF k ∧ UpE k) ∧ Q k)
    cDeleted (fun k i => { k with cDel := k.cDel.set i false }) deleteCellCore
    (by
      intro m k ⟨⟨h1, h2, h3, h4, h5, h6⟩, hq⟩
      by_cases hd : k.cDeleted m = true
      · rw [if_pos hd]
        exact ⟨gcStepC h1 (by omega) hd (fun j hj => h3 j (by omega)) h4 h5 h6,
          fastgc_cellStep hs h1 (by omega) ((closed_iff_up k).mpr ⟨h4, h5, h6⟩) hq⟩
      · rw [if_neg hd]
        refine ⟨⟨h1, by omega, ?_, h4, h5, h6⟩, hq⟩
        intro j hj
        by_cases e : j = m
        · subst e; simpa using hd
        · exact h3 j (by omega))
    k.nC k
    ⟨⟨hi, Nat.le_refl _, fun j hj => by
        unfold cDeleted; exact getD_of_ge _ _ _ (by rw [hi.wf.len.cDel]; exact hj), hC, hF, hE⟩, hq⟩
  unfold gcCells
  exact hs.same (k := gcSweep k k.nC cDeleted _ deleteCellCore) rfl rfl rfl rfl rfl rfl rfl rfl key.2

theorem fastgc_faces (hs : Stable Q) {k : Kernel} (hi : FastGCInv k) (hnfC : NoFlag k.cDel) (hC : UpC k) (hF : UpF k)
    (hE : UpE k) (hq : Q k) : Q (gcFaces k) := by
  have key := k3_gcSweep_induct
    (fun m k => (FastGCInv k ∧ m ≤ k.nF ∧ (∀ j, m ≤ j → k.fDeleted j = false) ∧ NoFlag k.cDel ∧ UpC k ∧ UpF k ∧ UpE k) ∧ Q k)
    fDeleted (fun k i => { k with fDel := k.fDel.set i false }) deleteFaceCore
    (by
      intro m k ⟨⟨h1, h2, h3, h4, h5, h6, h7⟩, hq⟩
      by_cases hd : k.fDeleted m = true
      · rw [if_pos hd]
        exact ⟨gcStepF h1 (by omega) hd (fun j hj => h3 j (by omega)) h4 h5 h6 h7,
          fastgc_faceStep hs h1 (by omega) hd h4 ((closed_iff_up k).mpr ⟨h5, h6, h7⟩) hq⟩
      · rw [if_neg hd]
        refine ⟨⟨h1, by omega, ?_, h4, h5, h6, h7⟩, hq⟩
        intro j hj
        by_cases e : j = m
        · subst e; simpa using hd
        · exact h3 j (by omega))
    k.nF k
    ⟨⟨hi, Nat.le_refl _, fun j hj => by
        unfold fDeleted; exact getD_of_ge _ _ _ (by rw [hi.wf.len.fDel]; exact hj), hnfC, hC, hF, hE⟩, hq⟩
  unfold gcFaces
  exact hs.same (k := gcSweep k k.nF fDeleted _ deleteFaceCore) rfl rfl rfl rfl rfl rfl rfl rfl key.2

theorem upC_of_nf {k : Kernel} (hf : NoFlag k.fDel) : UpC k := fun _ _ _ x _ => by unfold fDeleted; exact hf.getD _

theorem fastgc_edges (hs : Stable Q) {k : Kernel} (hi : FastGCInv k) (hnfC : NoFlag k.cDel) (hnfF : NoFlag k.fDel)
    (hF : UpF k) (hE : UpE k) (hq : Q k) : Q (gcEdges k) := by
  have key := k3_gcSweep_induct
    (fun m k => (FastGCInv k ∧ m ≤ k.nE ∧ (∀ j, m ≤ j → k.eDeleted j = false) ∧ NoFlag k.cDel ∧ NoFlag k.fDel ∧ UpF k ∧ UpE k) ∧ Q k)
    eDeleted (fun k i => { k with eDel := k.eDel.set i false }) deleteEdgeCore
    (by
      intro m k ⟨⟨h1, h2, h3, h4, h5, h6, h7⟩, hq⟩
      by_cases hd : k.eDeleted m = true
      · rw [if_pos hd]
        exact ⟨gcStepE h1 (by omega) hd (fun j hj => h3 j (by omega)) h4 h5 h6 h7,
          fastgc_edgeStep hs h1 (by omega) hd h5 ((closed_iff_up k).mpr ⟨upC_of_nf h5, h6, h7⟩) hq⟩
      · rw [if_neg hd]
        refine ⟨⟨h1, by omega, ?_, h4, h5, h6, h7⟩, hq⟩
        intro j hj
        by_cases e : j = m
        · subst e; simpa using hd
        · exact h3 j (by omega))
    k.nE k
    ⟨⟨hi, Nat.le_refl _, fun j hj => by
        unfold eDeleted; exact getD_of_ge _ _ _ (by rw [hi.wf.len.eDel]; exact hj), hnfC, hnfF, hF, hE⟩, hq⟩
  unfold gcEdges
  exact hs.same (k := gcSweep k k.nE eDeleted _ deleteEdgeCore) rfl rfl rfl rfl rfl rfl rfl rfl key.2

theorem fastgc_verts (hs : Stable Q) {k : Kernel} (hi : FastGCInv k) (hnfC : NoFlag k.cDel) (hnfF : NoFlag k.fDel)
    (hnfE : NoFlag k.eDel) (hE : UpE k) (hq : Q k) : Q (gcVerts k) := by
  have hR : VRef k := by
    intro e he
    obtain ⟨i, hil, rfl⟩ := k3_mem_getD (0, 0) he
    exact hE i hil (by unfold eDeleted; exact hnfE.getD i)
  have key := k3_gcSweep_induct
    (fun m k => (FastGCInv k ∧ m ≤ k.nV ∧ (∀ j, m ≤ j → k.vDeleted j = false) ∧ NoFlag k.cDel ∧ NoFlag k.fDel ∧
      NoFlag k.eDel ∧ VRef k) ∧ Q k)
    vDeleted (fun k i => { k with vDel := k.vDel.set i false }) deleteVertexCore
    (by
      intro m k ⟨⟨h1, h2, h3, h4, h5, h6, h7⟩, hq⟩
      by_cases hd : k.vDeleted m = true
      · rw [if_pos hd]
        exact ⟨gcStepV h1 (by omega) hd (fun j hj => h3 j (by omega)) h4 h5 h6 h7,
          fastgc_vertexStep hs h1 (by omega) hd h6 h7 (closed_of_nf h5 h6 h7) hq⟩
      · rw [if_neg hd]
        refine ⟨⟨h1, by omega, ?_, h4, h5, h6, h7⟩, hq⟩
        intro j hj
        by_cases e : j = m
        · subst e; simpa using hd
        · exact h3 j (by omega))
    k.nV k
    ⟨⟨hi, Nat.le_refl _, fun j hj => by
        unfold vDeleted; exact getD_of_ge _ _ _ (by rw [hi.wf.len.vDel]; exact hj), hnfC, hnfF, hnfE, hR⟩, hq⟩
  unfold gcVerts
  exact hs.same (k := gcSweep k k.nV vDeleted _ deleteVertexCore) rfl rfl rfl rfl rfl rfl rfl rfl key.2

/-- `collect_garbage` in fast mode -/
theorem fast_collectGarbage (hs : Stable Q) {k : Kernel} (hf : k.fast = true) (hw : WF k) (h1 : k.oneCell = true)
    (hcl : Closed k) (hq : Q k) : Q k.collectGarbage := by
  obtain ⟨hC, hF, hE⟩ := (closed_iff_up k).mp hcl
  unfold collectGarbage
  by_cases hrun : (!k.deferred || !k.needsGC) = true
  · rw [if_pos hrun]; exact hq
  · rw [if_neg hrun]
    have hi0 : FastGCInv { k with deferred := false } :=
      ⟨rfl, hf, wf_withDeferred false hw, (oneCell_withDeferred k false).trans h1⟩
    have q0 : Q ({ k with deferred := false } : Kernel) := hs.same (k := k) rfl rfl rfl rfl rfl rfl rfl rfl hq
    obtain ⟨c1, c2, c3, c4, c5⟩ := gcCells_fast hi0 hC hF hE
    have q1 := fastgc_cells hs hi0 hC hF hE q0
    obtain ⟨f1, f2, f3, f4, f5⟩ := gcFaces_fast c1 c2 c3 c4 c5
    have q2 := fastgc_faces hs c1 c2 c3 c4 c5 q1
    obtain ⟨e1, e2, e3, e4, e5⟩ := gcEdges_fast f1 f2 f3 f4 f5
    have q3 := fastgc_edges hs f1 f2 f3 f4 f5 q2
    have q4 := fastgc_verts hs e1 e2 e3 e4 e5 q3
    generalize gcVerts (gcEdges (gcFaces (gcCells { k with deferred := false }))) = kk at q4 ⊢
    exact hs.same (k := kk) rfl rfl rfl rfl rfl rfl rfl rfl q4

/-! ## assembly: every deleting / swapping / collecting / mode-switching operation, every mode -/

theorem stable_deleteCell (hs : Stable Q) {k : Kernel} (hi : GInv k) {c : Nat} (hc : c < k.nC) (hq : Q k) :
    Q (k.deleteCell c) := by
  by_cases hd : k.deferred = true
  · exact deferred_deleteCell hs hd c hq
  · have hd' : k.deferred = false := by simpa using hd
    by_cases hf : k.fast = true
    · exact fast_cellCore hs (immInv_of_ginv hi hd' hf) (hi.noFlag_of_immediate hd').2.2.2 hc hq
    · exact shift_cellCore hs (shiftImmInv_of_ginv hi hd' (by simpa using hf)) hc hq

theorem stable_deleteFace (hs : Stable Q) {k : Kernel} (hi : GInv k) {f : Nat} (hc : f < k.nF) (hq : Q k) :
    Q (k.deleteFace f) := by
  by_cases hd : k.deferred = true
  · exact deferred_deleteFace hs hd f hq
  · have hd' : k.deferred = false := by simpa using hd
    by_cases hf : k.fast = true
    · exact fast_deleteFace hs (immInv_of_ginv hi hd' hf) (hi.noFlag_of_immediate hd').2.2.2 hc hq
    · exact shift_deleteFace hs (shiftImmInv_of_ginv hi hd' (by simpa using hf)) hc hq

theorem stable_deleteEdge (hs : Stable Q) {k : Kernel} (hi : GInv k) {e : Nat} (hc : e < k.nE) (hq : Q k) :
    Q (k.deleteEdge e) := by
  by_cases hd : k.deferred = true
  · exact deferred_deleteEdge hs hd e hq
  · have hd' : k.deferred = false := by simpa using hd
    by_cases hf : k.fast = true
    · exact fast_deleteEdge hs (immInv_of_ginv hi hd' hf) (hi.noFlag_of_immediate hd').2.2.2 hc hq
    · exact shift_deleteEdge hs (shiftImmInv_of_ginv hi hd' (by simpa using hf)) hc hq

theorem stable_deleteVertex (hs : Stable Q) {k : Kernel} (hi : GInv k) {v : Nat} (hc : v < k.nV) (hq : Q k) :
    Q (k.deleteVertex v) := by
  by_cases hd : k.deferred = true
  · exact deferred_deleteVertex hs hd v hq
  · have hd' : k.deferred = false := by simpa using hd
    by_cases hf : k.fast = true
    · exact fast_deleteVertex hs (immInv_of_ginv hi hd' hf) (hi.noFlag_of_immediate hd').2.2.2 hc hq
    · exact shift_deleteVertex hs (shiftImmInv_of_ginv hi hd' (by simpa using hf)) hc hq

theorem stable_collectGarbage (hs : Stable Q) {k : Kernel} (hi : GInv k) (hq : Q k) : Q k.collectGarbage := by
  by_cases h : k.deferred = true ∧ k.needsGC = true
  · by_cases hf : k.fast = true
    · exact fast_collectGarbage hs hf hi.wf hi.one hi.closed hq
    · exact shift_collectGarbage hs h.1 h.2 (by simpa using hf) hi.wf hi.one hi.closed hq
  · rw [collectGarbage_id h]; exact hq

theorem stable_enableDeferred (hs : Stable Q) {k : Kernel} (hi : GInv k) (b : Bool) (hq : Q k) : Q (k.enableDeferred b) := by
  unfold enableDeferred
  simp only
  split
  · have := stable_collectGarbage hs hi hq
    generalize k.collectGarbage = kk at this
    exact hs.same (k := kk) rfl rfl rfl rfl rfl rfl rfl rfl this
  · exact hs.same (k := k) rfl rfl rfl rfl rfl rfl rfl rfl hq

theorem stable_enableBU (hs : Stable Q) (k : Kernel) (kind : Nat) (b : Bool) (hq : Q k) :
    Q (if kind == 0 then k.enableVBU b else if kind == 1 then k.enableEBU b else k.enableFBU b) := by
  split
  · unfold enableVBU; split
    · split
      · exact hq
      · exact hs.same (k := k) rfl rfl rfl rfl rfl rfl rfl rfl hq
    · exact hs.same (k := k) rfl rfl rfl rfl rfl rfl rfl rfl hq
  · split
    · unfold enableEBU; split
      · split
        · exact hq
        · split
          · have f := reorderAll_frame ({ k with incHfs := k.computeEBU })
            exact hs.same (k := k) (by show (Kernel.reorderAll _).nV = _; rw [f.2.1])
              (by show (Kernel.reorderAll _).edges = _; rw [f.2.2.1]) (by show (Kernel.reorderAll _).faces = _; rw [f.2.2.2.1])
              (by show (Kernel.reorderAll _).cells = _; rw [f.2.2.2.2.1]) (by show (Kernel.reorderAll _).vDel = _; rw [f.2.2.2.2.2.1])
              (by show (Kernel.reorderAll _).eDel = _; rw [f.2.2.2.2.2.2.1])
              (by show (Kernel.reorderAll _).fDel = _; rw [f.2.2.2.2.2.2.2.1])
              (by show (Kernel.reorderAll _).cDel = _; rw [f.2.2.2.2.2.2.2.2.1]) hq
          · exact hs.same (k := k) rfl rfl rfl rfl rfl rfl rfl rfl hq
      · exact hs.same (k := k) rfl rfl rfl rfl rfl rfl rfl rfl hq
    · unfold enableFBU; split
      · split
        · exact hq
        · split
          · have f := reorderAll_frame ({ k with incCell := k.computeFBU, fBU := true })
            exact hs.same (k := k) (by rw [f.2.1]) (by rw [f.2.2.1]) (by rw [f.2.2.2.1]) (by rw [f.2.2.2.2.1])
              (by rw [f.2.2.2.2.2.1]) (by rw [f.2.2.2.2.2.2.1]) (by rw [f.2.2.2.2.2.2.2.1]) (by rw [f.2.2.2.2.2.2.2.2.1]) hq
          · exact hs.same (k := k) rfl rfl rfl rfl rfl rfl rfl rfl hq
      · exact hs.same (k := k) rfl rfl rfl rfl rfl rfl rfl rfl hq

/-- the operations of the driver vocabulary that create or overwrite nothing -/
def NonCreating : Op → Prop
  | .deleteVertex _ | .deleteEdge _ | .deleteFace _ | .deleteCell _ => True
  | .swapVertex _ _ | .swapEdge _ _ | .swapFace _ _ | .swapCell _ _ => True
  | .collectGarbage | .enableDeferred _ | .enableFast _ | .enableBU _ _ => True
  | _ => False

/-- **a stable predicate is kept by every non-creating operation, in every deletion mode and every
    bottom-up configuration**, on `GInv` states, for valid arguments -/
theorem stable_step (hs : Stable Q) (k : Kernel) (op : Op) (hn : NonCreating op) (hi : GInv k) (hok : Global.OpOK k op)
    (hq : Q k) : Q (k.step op).1 := by
  cases op with
  | deleteVertex v => exact stable_deleteVertex hs hi hok hq
  | deleteEdge e => exact stable_deleteEdge hs hi hok hq
  | deleteFace f => exact stable_deleteFace hs hi hok hq
  | deleteCell c => exact stable_deleteCell hs hi hok hq
  | swapVertex a b => exact hs.swapV a b hi.wf hi.one hi.closed hok.1 hok.2 hq
  | swapEdge a b => exact hs.swapE a b hi.wf hi.one hi.closed hok.1 hok.2 hq
  | swapFace a b => exact hs.swapF a b hi.wf hi.one hi.closed hok.1 hok.2 hq
  | swapCell a b => exact hs.swapC a b hi.wf hi.one hi.closed hok.1 hok.2 hq
  | collectGarbage => exact stable_collectGarbage hs hi hq
  | enableDeferred b => exact stable_enableDeferred hs hi b hq
  | enableFast b => exact hs.same (k := k) rfl rfl rfl rfl rfl rfl rfl rfl hq
  | enableBU kind b => exact stable_enableBU hs k kind b hq
  | _ => exact absurd hn (by simp [NonCreating])

end HexAll
end Kernel
end OVM

import OVM.Refine.CircTetHex
import OVM.Hex.ConvAll
/-
  C16, sheet circulators in general.
  * `CellSheetCellIter`: `Global.sheet_cells_exact` (builder I1, OVM/Refine/CircTetHex.lean) — on a `GInv` state the
    list is exactly the set of live cells across the halffaces whose axis differs from the given direction.
  * `HalfFaceSheetHalfFaceIter` (`Kernel.halffaceSheetHalffaces`, Iterators.cc:123-186), this file: for a halfface
    `hf` stored at position `p` of a live six-halfface cell `c`, the halffaces reported are EXACTLY the halffaces `x`
    of the sheet neighbours of `c` (the cells across the four halffaces of the other two axes) that contain the opposite
    of a halfedge of `hf`; the edge reported with `x` is the edge of the first such halfedge of `x`
    (`sheet_halffaces_exact`).  The brute-force list `sSheetHalffaces` of OVM/Hex/Spec.lean (the judge's oracle) is
    contained in it (`sSheetHalffaces_sub`); they coincide on meshes in which a sheet neighbour touches the halfedges
    of `hf` only through the side halfface it lies behind.
  Proof-only file.
-/
namespace OVM
namespace Kernel
namespace HexAll
open Global ScanDel OVM.Gen.HexTables

theorem find?_isSome_iff_mem {l : List Nat} {p : Nat → Bool} : (∃ h, l.find? p = some h) ↔ ∃ h ∈ l, p h = true := by
  constructor
  · rintro ⟨h, e⟩; exact ⟨h, List.mem_of_find?_eq_some e, List.find?_some e⟩
  · rintro ⟨h, hm, hp⟩
    have : (l.find? p).isSome = true := by rw [List.find?_isSome]; exact ⟨h, hm, hp⟩
    exact Option.isSome_iff_exists.mp this

/-- **HalfFaceSheetHalfFaceIter reports exactly the matching halffaces of the sheet neighbours** -/
theorem sheet_halffaces_exact {k : Kernel} (hi : GInv k) (hb : k.fBU = true) {hf c : Nat} (hl : k.liveC c = true)
    (hm : hf ∈ k.cellAt c) (h6 : (k.cellAt c).length = 6) (x : Nat) :
    x ∈ (k.halffaceSheetHalffaces hf).map (·.1) ↔
      ∃ n ∈ k.sSheetCells c (k.hexOrientation hf c), x ∈ k.cellAt n ∧ ∃ h ∈ k.hfHes hf, opp h ∈ k.hfHes x := by
  have hx : hf < k.nHF := hi.wf.range.cells _ (cellAt_mem_cells (liveC_lt hl)) hf hm
  have hco : k.cellOf hf = some c := (cellOf_eq_some_iff hi.wf hi.one hb hx c).mpr ⟨hl, hm⟩
  have hn := cellAt_nodup hi.wf hi.one hl
  obtain ⟨i, hi', rfl⟩ := List.getElem_of_mem hm
  have ho : k.hexOrientation (k.cellAt c)[i] c = i := orientation_pos k c i hn hi'
  have hsc := (sheet_cells_exact hi hb hl (dir := i) (by omega)).1
  unfold halffaceSheetHalffaces
  simp only [hb, Bool.not_true, Bool.false_eq_true, if_false, hco, ho, hsc]
  simp only [List.mem_map, List.mem_flatMap, List.mem_filterMap, Option.map_eq_some_iff, Prod.exists, exists_and_right,
    exists_eq_right]
  constructor
  · rintro ⟨e, n, hn', y, hy, h, hfind, hxe⟩
    have e1 : y = x := (Prod.mk.inj hxe).1
    subst e1
    refine ⟨n, hn', hy, ?_⟩
    have hp := List.find?_some hfind
    have hmem := List.mem_of_find?_eq_some hfind
    have : h ∈ oppFace (k.hfHes (k.cellAt c)[i]) := by simpa using hp
    rw [k3_mem_oppFace] at this
    exact ⟨opp h, this, by rw [CellCheck.opp_opp]; exact hmem⟩
  · rintro ⟨n, hn', hxn, h, hh, hopp⟩
    have : ∃ h', (k.hfHes x).find? (fun h => (oppFace (k.hfHes (k.cellAt c)[i])).contains h) = some h' :=
      find?_isSome_iff_mem.mpr ⟨opp h, hopp, by simp [k3_mem_oppFace, CellCheck.opp_opp, hh]⟩
    obtain ⟨h', hfind⟩ := this
    exact ⟨eOf h', n, hn', x, hxn, h', hfind, rfl⟩

/-- the brute-force list of OVM/Hex/Spec.lean (the judge's oracle) is contained in what the iterator reports -/
theorem sSheetHalffaces_sub {k : Kernel} (hi : GInv k) (hb : k.fBU = true) {hf c : Nat} (hl : k.liveC c = true)
    (hm : hf ∈ k.cellAt c) (h6 : (k.cellAt c).length = 6) (x : Nat) (hx : x ∈ k.sSheetHalffaces hf) :
    x ∈ (k.halffaceSheetHalffaces hf).map (·.1) := by
  rw [sheet_halffaces_exact hi hb hl hm h6]
  have hxf : hf < k.nHF := hi.wf.range.cells _ (cellAt_mem_cells (liveC_lt hl)) hf hm
  have hsc : k.sCellOf hf = some c := sCellOf_of_mem hi.one hxf hl hm
  have hn := cellAt_nodup hi.wf hi.one hl
  obtain ⟨i, hi', rfl⟩ := List.getElem_of_mem hm
  have hidx : idxOf? (k.cellAt c) (k.cellAt c)[i] = some i := idxOf?_getElem_nodup _ hn i hi'
  have ho : k.hexOrientation (k.cellAt c)[i] c = i := orientation_pos k c i hn hi'
  unfold sSheetHalffaces at hx
  simp only [hsc, hidx] at hx
  rw [mem_sortUniq, List.mem_flatMap] at hx
  obtain ⟨s, hs, hxs⟩ := hx
  split at hxs
  · cases hxs
  · rename_i hax
    cases hsn : k.sCellOf (opp s.1) with
    | none => rw [hsn] at hxs; cases hxs
    | some n =>
      rw [hsn] at hxs
      simp only [List.mem_flatMap, List.mem_filter, Bool.and_eq_true, bne_iff_ne, ne_eq] at hxs
      obtain ⟨h, ⟨hh, _⟩, hxn, _, hc⟩ := hxs
      rw [ho]
      refine ⟨n, ?_, hxn, h, hh, by simpa using hc⟩
      unfold sSheetCells
      rw [mem_sortUniq, List.mem_filterMap]
      refine ⟨s, hs, ?_⟩
      have : (s.2 / 2 != i / 2) = true := by simpa using hax
      rw [this]; exact hsn

end HexAll
end Kernel
end OVM

import OVM.Kernel.Lookup
import OVM.Kernel.Step
import OVM.Gen.HexTables
/-
  M: the overrides and helpers of `HexahedralMeshTopologyKernel`
  (src/OpenVolumeMesh/Mesh/HexahedralMeshTopologyKernel.{hh,cc}).  Line references are to the .cc
  unless the .hh is named.  The private tables (`orderTop`, `orderBot`, the offset if-chains, the
  vertex tables of `add_cell(vertices)`) and the orientation constants are the *generated*
  `OVM.Gen.HexTables` (T2), so an edit of the source changes this model on the next run.
  Core only (this file is linked into the compiled judge).
-/
namespace OVM
namespace Kernel
open OVM.Gen.HexTables

/-! ### orientation constants and the static helpers (hh:80-91, hh:242-273) -/

/-- `opposite_orientation` on 0 … INVALID, from the generated table (7 beyond it, as the C++
    `d % 2 == 0 ? d + 1 : d - 1` gives for INVALID) -/
def oppositeOrientation (d : Nat) : Nat := oppositeTable.getD d (if d % 2 = 0 then d + 1 else d - 1)

/-- `orthogonal_orientation` on 0 … INVALID from the generated table; INVALID outside -/
def orthogonalOrientation (o1 o2 : Nat) : Nat := (orthogonalTable.getD o1 []).getD o2 INVALID

/-! ### add_face overrides (cc:41-69) -/

/-- cc:41-52 -/
def hexAddFace (k : Kernel) (hes : List Nat) (chk : Bool) : Kernel × Option Nat :=
  if hes.length != 4 then (k, none) else k.addFace hes chk

/-- cc:57-69 -/
def hexAddFaceV (k : Kernel) (vs : List Nat) : Kernel × Option Nat :=
  if vs.length != 4 then (k, none) else k.addFaceV vs

/-! ### add_cell(halffaces) (cc:74-156) and check_halfface_ordering (cc:160-256) -/

/-- `get_adjacent_halfface` (cc:436-455): the first halfface of the list, other than `hf`, that
    contains the opposite of `he` -/
def hexGetAdj (k : Kernel) (hf he : Nat) (hfs : List Nat) : Option Nat :=
  hfs.find? (fun x => x != hf && (k.hfHes x).contains (opp he))

/-- the if-chain `if(ahfh == _hfs[k]) offset = v; else if …` (cc:204-207, 233-236) -/
def hexOffsetOf (chain : List (Nat × Nat)) (hfs : List Nat) (a : Option Nat) : Option Nat :=
  match a with
  | none => none
  | some x => (chain.find? (fun p => hfs[p.1]? == some x)).map (·.2)

/-- one iteration of the loops cc:198-217 / cc:227-246.  State: `none` = `return false` happened;
    `some off` = still running with `offset == off` (`none` = -1). -/
def hexWalkStep (k : Kernel) (hfs : List Nat) (self : Nat) (chain : List (Nat × Nat)) (order : List Nat)
    (st : Option (Option Nat)) (he : Nat) : Option (Option Nat) :=
  match st with
  | none => none
  | some off =>
    let a := k.hexGetAdj self he hfs
    match off with
    | none => some (hexOffsetOf chain hfs a)
    | some o =>
      let o' := (o + 1) % 4
      if a == hfs[order.getD o' 0]? && a.isSome then some (some o') else none

/-- one of the two traversals of `check_halfface_ordering`: all halfedges visited without a
    mismatch and the offset was found -/
def hexWalkOk (k : Kernel) (hfs : List Nat) (self : Nat) (chain : List (Nat × Nat)) (order : List Nat) : Bool :=
  match (k.hfHes self).foldl (k.hexWalkStep hfs self chain order) (some none) with
  | some (some _) => true
  | _ => false

/-- `check_halfface_ordering` (cc:160-256) -/
def hexCheckOrdering (k : Kernel) (hfs : List Nat) : Bool :=
  k.hexWalkOk hfs (hfs.getD topPos 0) offsetTopChain orderTopCheck &&
  k.hexWalkOk hfs (hfs.getD botPos 0) offsetBotChain orderBotCheck

/-- one iteration of cc:123-135: the neighbour across `he` goes to slot `orderTop[idx]`; a missing
    neighbour ends the call (as patched) -/
def hexFillStep (k : Kernel) (h0 : Nat) (hfs : List Nat) (st : Option (List (Option Nat) × Nat)) (he : Nat) :
    Option (List (Option Nat) × Nat) :=
  match st with
  | none => none
  | some (ord, idx) =>
    match k.hexGetAdj h0 he hfs with
    | none => none
    | some a => some (ord.set (orderTopAdd.getD idx 0) (some a), idx + 1)

/-- cc:138-144: from the first halfface across its first halfedge, across the side halfface to the
    halfedge opposite in it, and across that one -/
def hexFindBottom (k : Kernel) (h0 : Nat) (hfs : List Nat) : Option Nat :=
  match (k.hfHes h0).head? with
  | none => none
  | some he0 =>
    match k.hexGetAdj h0 he0 hfs with
    | none => none
    | some side =>
      match k.nextHe (opp he0) side with
      | none => none
      | some h1 =>
        match k.nextHe h1 side with
        | none => none
        | some h2 => k.hexGetAdj side h2 hfs

/-- the automatic re-ordering (cc:111-153, as patched: a missing side neighbour rejects).
    `none` = `InvalidCellHandle` is returned. -/
def hexReorder (k : Kernel) (hfs : List Nat) : Option (List Nat) :=
  let h0 := hfs.getD 0 0
  match (k.hfHes h0).foldl (k.hexFillStep h0 hfs) (some ((List.replicate 6 (none : Option Nat)).set 0 (some h0), 0)) with
  | none => none
  | some (ord, _) =>
    match k.hexFindBottom h0 hfs with
    | none => none
    | some bot =>
      let ord := ord.set 1 (some bot)
      if ord.all (·.isSome) then some (ord.filterMap id) else none

/-- `add_cell(halffaces, topologyCheck)` (cc:74-156) -/
def hexAddCell (k : Kernel) (hfs : List Nat) (chk : Bool) : Kernel × Option Nat :=
  if hfs.length != 6 then (k, none)
  else if hfs.any (fun hf => (k.faceAt (eOf hf)).length != 4) then (k, none)
  else if k.spanVertCount hfs != 8 then (k, none)        -- 7b999c9: eight distinct vertices
  else if !chk then k.addCell hfs false
  else if k.hexCheckOrdering hfs then (if k.oppPairsDisjoint hfs then k.addCell hfs true else (k, none))   -- 7800c85
  else match k.hexReorder hfs with
    | none => (k, none)
    | some ord => if k.oppPairsDisjoint ord then k.addCell ord true else (k, none)

/-! ### add_cell(vertices) (cc:260-432) -/

/-- the `_vertices[i]` pushed into `vs` -/
def hexPick (vs idxs : List Nat) : List Nat := idxs.map (fun i => vs.getD i 0)

/-- one guarded `if(!hfK.is_valid()) { … add_face(vs); hfK = halfface_handle(fh, side); }` block (cc:322-374) -/
def hexCellVStep (vs : List Nat) (st : Kernel × List (Option Nat)) (a : Nat × List Nat × Nat) : Kernel × List (Option Nat) :=
  match st.2.getD a.1 none with
  | some _ => st
  | none =>
    let r := st.1.addFaceV (hexPick vs a.2.1)
    (r.1, st.2.set a.1 (r.2.map (fun f => heOf f a.2.2)))

/-- `add_cell(vertices, topologyCheck)`: look the six halffaces up, create the missing faces in
    source order, optionally run the two-manifold / free-halfface test, then the unchecked base
    `add_cell`.  A rejection by the test comes *after* the faces were created (cc:384-429). -/
def hexAddCellV (k : Kernel) (vs : List Nat) (chk : Bool) : Kernel × Option Nat :=
  if !k.fullBU then (k, none)
  else if vs.length != 8 then (k, none)
  else
    let found : List (Option Nat) := cellVFind.map (fun idxs => k.findHalffaceExtensive (hexPick vs idxs))
    let st := cellVAdd.foldl (hexCellVStep vs) (k, found)
    let k1 := st.1
    let hfo := cellVOrder.map (fun i => st.2.getD i none)
    if hfo.any (·.isNone) then ({ k1 with fault := true }, none)
    else
      let hfs := hfo.filterMap id
      if chk then
        let hes := hfs.flatMap k1.hfHes
        if (toSet hes).length != 2 * (toSet (hes.map eOf)).length then (k1, none)
        else if k1.fBU && hfs.any (fun hf => (k1.cellOf hf).isSome) then (k1, none)
        else k1.addCell hfs false
      else k1.addCell hfs false

/-! ### orientation helpers (hh:180-284) -/

/-- hh:231-240 -/
def hexOrientation (k : Kernel) (hf c : Nat) : Nat :=
  match idxOf? (k.cellAt c) hf with
  | some i => i
  | none => INVALID

def xfrontHalfface (k : Kernel) (c : Nat) : Option Nat := (k.cellAt c)[XF]?
def xbackHalfface (k : Kernel) (c : Nat) : Option Nat := (k.cellAt c)[XB]?
def yfrontHalfface (k : Kernel) (c : Nat) : Option Nat := (k.cellAt c)[YF]?
def ybackHalfface (k : Kernel) (c : Nat) : Option Nat := (k.cellAt c)[YB]?
def zfrontHalfface (k : Kernel) (c : Nat) : Option Nat := (k.cellAt c)[ZF]?
def zbackHalfface (k : Kernel) (c : Nat) : Option Nat := (k.cellAt c)[ZB]?

/-- hh:180-193 -/
def oppositeHalffaceInCell (k : Kernel) (hf c : Nat) : Option Nat :=
  let o := k.hexOrientation hf c
  if o == XF then k.xbackHalfface c
  else if o == XB then k.xfrontHalfface c
  else if o == YF then k.ybackHalfface c
  else if o == YB then k.yfrontHalfface c
  else if o == ZF then k.zbackHalfface c
  else if o == ZB then k.zfrontHalfface c
  else none

/-- hh:275-284 -/
def getOrientedHalfface (k : Kernel) (o c : Nat) : Option Nat :=
  if o == XF then k.xfrontHalfface c
  else if o == XB then k.xbackHalfface c
  else if o == YF then k.yfrontHalfface c
  else if o == YB then k.ybackHalfface c
  else if o == ZF then k.zfrontHalfface c
  else if o == ZB then k.zbackHalfface c
  else none

/-! ### sheet / surface navigation (hh:286-359) -/

/-- hh:286-324.  Each `while(true)` body runs at most once (every path breaks or returns). -/
def adjacentHalffaceOnSheet (k : Kernel) (hf he : Nat) : Option Nat :=
  if !k.fBU then none else
  let way1 : Option Nat :=
    match k.adjHalffaceInCell hf he with
    | none => none
    | some a => k.adjHalffaceInCell (opp a) he
  match way1 with
  | some r => some r
  | none =>
    match k.adjHalffaceInCell (opp hf) (opp he) with
    | none => none
    | some a =>
      match k.adjHalffaceInCell (opp a) (opp he) with
      | none => none
      | some r => some (opp r)

/-- hh:326-339 / hh:341-359 (the loop bodies are identical) -/
def surfaceNeighbour (k : Kernel) (hf he : Nat) : Option Nat :=
  (k.qHEHF he).findSome? (fun x =>
    if x == hf then none
    else if k.qBoundaryHF x then some x
    else if k.qBoundaryHF (opp x) then some (opp x) else none)

def adjacentHalffaceOnSurface (k : Kernel) (hf he : Nat) : Option Nat := k.surfaceNeighbour hf he
def neighboringOutsideHalfface (k : Kernel) (hf he : Nat) : Option Nat :=
  if !k.fBU then none else k.surfaceNeighbour hf he

/-! ### the specialised circulators (Mesh/HexahedralMeshIterators.cc) -/

/-- `CellSheetCellIter` (Iterators.cc:48-82): the cells across the halffaces whose orientation is
    neither `dir` nor its opposite; sorted, duplicates removed.  Empty without face incidences. -/
def cellSheetCells (k : Kernel) (c dir : Nat) : List Nat :=
  if !k.fBU then [] else
  sortUniq ((k.cellAt c).filterMap (fun hf =>
    let o := k.hexOrientation hf c
    if o != dir && o != oppositeOrientation dir then k.cellOf (opp hf) else none))

/-- `HalfFaceSheetHalfFaceIter` (Iterators.cc:123-186): for every sheet neighbour (in the order of
    `CellSheetCellIter`) every halfface of it that contains one of the opposite halfedges of the
    reference halfface, with the edge of the first such halfedge (`common_edge`). -/
def halffaceSheetHalffaces (k : Kernel) (hf : Nat) : List (Nat × Nat) :=
  if !k.fBU then [] else
  match k.cellOf hf with
  | none => []
  | some ch =>
    let o := k.hexOrientation hf ch
    let hes := oppFace (k.hfHes hf)
    (k.cellSheetCells ch o).flatMap (fun n =>
      (k.cellAt n).filterMap (fun x =>
        ((k.hfHes x).find? (fun h => hes.contains h)).map (fun h => (x, eOf h))))

/-- `HexVertexIter` (Iterators.cc:231-284): the eight-step walk.  `none` when a navigation step
    comes back invalid (the C++ would go on with an invalid handle). -/
def hexVertices (k : Kernel) (c : Nat) : Option (List Nat) := do
  let hf0 ← (k.cellAt c).head?
  let he0 ← (k.hfHes hf0).head?
  let v0 := k.fromV he0
  let he1 ← k.prevHe he0 hf0
  let v1 := k.fromV he1
  let he2 ← k.prevHe he1 hf0
  let v2 := k.fromV he2
  let he3 ← k.prevHe he2 hf0
  let v3 := k.fromV he3
  let he4 ← k.prevHe he3 hf0
  let side ← k.adjHalffaceInCell hf0 he4
  let h5 ← k.nextHe (opp he4) side
  let h6 ← k.nextHe h5 side
  let bot ← k.adjHalffaceInCell side h6
  let b0 := opp h6
  let v4 := k.toV b0
  let b1 ← k.prevHe b0 bot
  let v5 := k.toV b1
  let b2 ← k.prevHe b1 bot
  let v6 := k.toV b2
  let v7 := k.fromV b2
  pure [v0, v1, v2, v3, v4, v5, v6, v7]

/-! ### one driver operation on a hexahedral mesh -/

/-- the operations of `harness/hex_drv.cc` that differ from the base kernel; everything else is
    `Kernel.step` -/
def stepHex (k : Kernel) : Op → Kernel × Int
  | .addFaceHe chk hes => let r := k.hexAddFace hes chk; (r.1, optH r.2)
  | .addFaceV vs => let r := k.hexAddFaceV vs; (r.1, optH r.2)
  | .addCell chk hfs => let r := k.hexAddCell hfs chk; (r.1, optH r.2)
  | op => k.step op

end Kernel
end OVM

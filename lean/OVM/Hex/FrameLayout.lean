import OVM.Hex.FramePerms
/-
  C16, layout in general: on a `Frame` (six loop quads through the quadruples of the source tables, arbitrary stored
  rotations) the stored cell has the layout that `orthogonal_orientation` describes (`hexOrthLayoutB`, OVM/Hex/Spec.lean):
  for two orientations of different axes, the halfface at `o1` shares exactly one halfedge with the halfface at `o2`, and
  the next halfedge of `o1` is shared with the halfface at `orthogonal_orientation(o1, o2)`.  The generated table
  `orthogonal_orientation` is compared with the adjacency of the vertex tables by `decide` (`tbl_orth`).
  Proof-only file.
-/
namespace OVM
namespace Kernel
namespace HexAll
open Global ScanDel OVM.Gen.HexTables

variable {k : Kernel} {vs xs : List Nat} {rot : Nat → Nat}

/-- two faces of different axes share exactly one table position, and the position after it leads to the face that
    `orthogonal_orientation` names (generated table vs. vertex tables of `add_cell(vertices)`) -/
def orthB : Bool :=
  (List.range 6).all fun o1 => (List.range 6).all fun o2 => o1 / 2 == o2 / 2 ||
    (List.range 4).any fun m => adjI o1 m == o2 && ((List.range 4).all fun m' => adjI o1 m' != o2 || m' == m) &&
      adjI o1 (m + 1) == orthogonalOrientation o1 o2 && decide (orthogonalOrientation o1 o2 < 6)
theorem orthB_true : orthB = true := by decide
theorem tbl_orth : ∀ o1, o1 < 6 → ∀ o2, o2 < 6 → o1 / 2 ≠ o2 / 2 → ∃ m, m < 4 ∧ adjI o1 m = o2 ∧
    (∀ m', m' < 4 → adjI o1 m' = o2 → m' = m) ∧ adjI o1 (m + 1) = orthogonalOrientation o1 o2 ∧
    orthogonalOrientation o1 o2 < 6 := by
  intro o1 h1 o2 h2 hax
  have := orthB_true
  unfold orthB at this
  simp only [List.all_eq_true, List.mem_range, Bool.or_eq_true, beq_iff_eq, List.any_eq_true, Bool.and_eq_true,
    bne_iff_ne, ne_eq, decide_eq_true_eq] at this
  rcases this o1 h1 o2 h2 with e | ⟨m, hm, ⟨⟨a, b⟩, c⟩, d⟩
  · exact absurd e hax
  · refine ⟨m, hm, a, fun m' hm' e => ?_, c, d⟩
    rcases b m' hm' with h | h
    · exact absurd e h
    · exact h

theorem filter4_single (a0 a1 a2 a3 : Nat) (P : Nat → Bool) (js : Nat) (hjs : js < 4)
    (h : ∀ j, j < 4 → (P ([a0, a1, a2, a3].getD j 0) = true ↔ j = js)) :
    [a0, a1, a2, a3].filter P = [[a0, a1, a2, a3].getD js 0] := by
  have b0 := h 0 (by omega); have b1 := h 1 (by omega); have b2 := h 2 (by omega); have b3 := h 3 (by omega)
  simp only [List.getD_cons_zero, List.getD_cons_succ] at b0 b1 b2 b3
  have hj : js = 0 ∨ js = 1 ∨ js = 2 ∨ js = 3 := by omega
  have f : ∀ x, ¬ (P x = true) → P x = false := fun x hx => by simpa using hx
  rcases hj with rfl | rfl | rfl | rfl
  · simp [List.filter, b0.mpr rfl, f _ (fun e => by have := b1.mp e; omega), f _ (fun e => by have := b2.mp e; omega),
      f _ (fun e => by have := b3.mp e; omega)]
  · simp [List.filter, b1.mpr rfl, f _ (fun e => by have := b0.mp e; omega), f _ (fun e => by have := b2.mp e; omega),
      f _ (fun e => by have := b3.mp e; omega)]
  · simp [List.filter, b2.mpr rfl, f _ (fun e => by have := b0.mp e; omega), f _ (fun e => by have := b1.mp e; omega),
      f _ (fun e => by have := b3.mp e; omega)]
  · simp [List.filter, b3.mpr rfl, f _ (fun e => by have := b0.mp e; omega), f _ (fun e => by have := b1.mp e; omega),
      f _ (fun e => by have := b2.mp e; omega)]

/-- the halfedge at position `j` of face `i` has its opposite in face `o` exactly when the table says so -/
theorem Frame.shared_iff (F : Frame k vs xs rot) {i o j : Nat} (hi : i < 6) (ho : o < 6) (hj : j < 4) :
    (k.hfHes (xs.getD o 0)).contains (opp ((k.hfHes (xs.getD i 0)).getD j 0)) = true ↔ adjI i (j + rot i) = o := by
  have ht := tbl_rev i hi _ (Nat.mod_lt (j + rot i) (by omega : 0 < 4))
  rw [rev_mod] at ht
  have h1 := F.opp_mem hi hj
  rw [rev_mod] at h1
  rw [adjI_rev hi]
  constructor
  · intro h
    exact (F.face_of_mem ho ht.1 (by simpa using h) h1).symm
  · intro e; rw [← e]; simpa using h1

/-- **the stored cell has the layout `orthogonal_orientation` describes** -/
theorem Frame.orthLayout (F : Frame k vs xs rot) {c : Nat} (hcell : k.cellAt c = xs) : k.hexOrthLayoutB c = true := by
  unfold hexOrthLayoutB
  simp only [hcell, List.all_eq_true, List.mem_range, Bool.or_eq_true, beq_iff_eq]
  intro o1 ho1 o2 ho2
  by_cases hax : o1 / 2 = o2 / 2
  · exact Or.inl hax
  · right
    obtain ⟨m, hm, hadj, huniq, hnext, horth⟩ := tbl_orth o1 ho1 o2 ho2 hax
    have hr := F.rlt o1 ho1
    have hjs : (m + 4 - rot o1) % 4 < 4 := Nat.mod_lt _ (by omega)
    have hmod : ∀ n, adjI o1 n = adjI o1 (n % 4) := fun n => by unfold adjI; rw [Nat.mod_mod]
    have hh := list4_eq _ (F.len o1 ho1)
    have hfil : (k.hfHes (xs.getD o1 0)).filter (fun h => (k.hfHes (xs.getD o2 0)).contains (opp h)) =
        [(k.hfHes (xs.getD o1 0)).getD ((m + 4 - rot o1) % 4) 0] := by
      rw [hh]
      have := filter4_single _ _ _ _ (fun h => (k.hfHes (xs.getD o2 0)).contains (opp h)) ((m + 4 - rot o1) % 4) hjs (by
        intro j hj
        rw [← hh, F.shared_iff ho1 ho2 hj]
        constructor
        · intro e
          rw [hmod] at e
          have := huniq _ (Nat.mod_lt _ (by omega)) e
          omega
        · intro e
          rw [e, hmod, show ((m + 4 - rot o1) % 4 + rot o1) % 4 = m by omega]; exact hadj)
      rw [this, ← hh]
    rw [hfil]
    simp only []
    rw [F.next_at ho1 hjs]
    simp only []
    apply (F.shared_iff ho1 horth (Nat.mod_lt _ (by omega))).mpr
    rw [hmod, show (((m + 4 - rot o1) % 4 + 1) % 4 + rot o1) % 4 = (m + 1) % 4 by omega, ← hmod]
    exact hnext

end HexAll
end Kernel
end OVM

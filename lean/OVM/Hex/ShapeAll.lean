import OVM.Hex.Stable
import OVM.Refine.CellCheck
/-
  C16, item 1: the length part of `HexShape` (four halfedges per stored face, six halffaces per stored
  cell, over ALL slots) is an invariant of EVERY operation of the hexahedral kernel in EVERY deletion
  mode — including immediate index-shifting deletion of faces / edges / vertices and `collect_garbage`,
  which erase slots and filter the erased handles out of the remaining definitions (`fixHalfList`):
  on `Global.GInv` states nothing that survives mentions an erased entity (upward closure, builders
  K3/K4), so the filters remove nothing.

  * `stable_hexLen`: `HexLen` survives the atomic definition changes of `OVM/Hex/Stable.lean`.
  * `HexOp`, `hexStep`, `hexRun`: the hex op vocabulary = the base vocabulary `Op` (with the three
    overridden adds, `Kernel.stepHex`) + `add_cell(8 vertices)`.
  * `HexOpOK`: valid arguments — `Global.OpOK` (in-range / not-deleted handles, free pairwise distinct
    halffaces for `add_cell`), four halfedges for `set_face`, six halffaces for `set_cell`, and for
    `add_cell(8 vertices)` valid vertices and "the six halffaces found or created are free and distinct".
    No clause mentions the deletion mode or the bottom-up configuration.
  * `ginv_hexStep`, `hexLen_hexStep`, `shape_run`, `shape_reachable`.
  Proof-only file.
-/
namespace OVM
namespace Kernel
namespace HexAll
open Global ScanDel OVM.Gen.HexTables

/-! ### `HexLen` is stable -/

theorem allLen_map_map {n : Nat} {l : List (List Nat)} (h : AllLen n l) (g : Nat → Nat) : AllLen n (l.map (·.map g)) := by
  intro x hx
  obtain ⟨y, hy, rfl⟩ := List.mem_map.mp hx
  rw [List.length_map]; exact h y hy

theorem stable_hexLen : Stable HexLen where
  mono := fun _ _ hf hc _ _ _ _ h => h.of_eq hf hc
  eraseC := fun h _ _ _ _ hf hc _ _ _ _ hq => by
    refine ⟨by rw [hf]; exact hq.1, ?_⟩
    rw [hc]; exact allLen_eraseIdx hq.2 h
  eraseF := fun h _ _ _ _ _ hf hc _ _ _ _ hq => by
    refine ⟨?_, ?_⟩
    · rw [hf]; exact allLen_eraseIdx hq.1 h
    · rw [hc]; exact allLen_map_map hq.2 _
  eraseE := fun h _ _ _ _ _ hf hc _ _ _ _ hq => by
    refine ⟨?_, by rw [hc]; exact hq.2⟩
    rw [hf]; exact allLen_map_map hq.1 _
  eraseV := fun _ _ _ _ _ _ hf hc _ _ _ _ hq => hq.of_eq hf hc
  swapC := fun a b _ _ _ _ _ hq => swapCell_len _ a b hq
  swapF := fun a b _ _ _ _ _ hq => swapFace_len _ a b hq
  swapE := fun a b _ _ _ _ _ hq => swapEdge_len _ a b hq
  swapV := fun a b _ _ _ _ _ hq => swapVertex_len _ a b hq

/-! ### the hex op vocabulary -/

inductive HexOp where
  | base (op : Op)
  | addCellV (chk : Bool) (vs : List Nat)
deriving Repr, DecidableEq

def hexStep (k : Kernel) : HexOp → Kernel
  | .base op => (k.stepHex op).1
  | .addCellV chk vs => (k.hexAddCellV vs chk).1

def hexRun (k : Kernel) (ops : List HexOp) : Kernel := ops.foldl hexStep k

/-- the state and the six halffaces (x-front … z-back) `add_cell(8 vertices)` hands to the base `add_cell`
    (cc:300-378): faces looked up, missing ones created -/
def cellVPrep (k : Kernel) (vs : List Nat) : Kernel × List (Option Nat) :=
  let st := cellVAdd.foldl (hexCellVStep vs) (k, cellVFind.map (fun idxs => k.findHalffaceExtensive (hexPick vs idxs)))
  (st.1, cellVOrder.map (fun i => st.2.getD i none))

/-- valid arguments of one call -/
def HexOpOK (k : Kernel) : HexOp → Prop
  | .base (.setFace f hes) => Global.OpOK k (.setFace f hes) ∧ hes.length = 4
  | .base (.setCell c hfs) => Global.OpOK k (.setCell c hfs) ∧ hfs.length = 6
  | .base op => Global.OpOK k op
  | .addCellV _ vs => (∀ v ∈ vs, VOk k v) ∧
      (k.fullBU = true → vs.length = 8 → ((cellVPrep k vs).2.all (·.isSome)) = true →
        Global.OpOK (cellVPrep k vs).1 (.addCell false ((cellVPrep k vs).2.filterMap id)))

def HexHistoryOK : Kernel → List HexOp → Prop
  | _, [] => True
  | k, op :: t => HexOpOK k op ∧ HexHistoryOK (hexStep k op) t

theorem hexOpOK_base {k : Kernel} {op : Op} (h : HexOpOK k (.base op)) : Global.OpOK k op := by
  cases op <;> first | exact h | exact h.1

/-! ### `GInv` under the hex-specific operations -/

theorem nodup_of_flatMap_nodup (l : List Nat) (f : Nat → List Nat) (hne : ∀ x ∈ l, f x ≠ [])
    (h : (l.flatMap f).Nodup) : l.Nodup := by
  induction l with
  | nil => exact List.nodup_nil
  | cons a t ih =>
    rw [List.flatMap_cons, List.nodup_append] at h
    obtain ⟨_, h2, h3⟩ := h
    refine List.nodup_cons.mpr ⟨?_, ih (fun x hx => hne x (List.mem_cons_of_mem _ hx)) h2⟩
    intro ha
    obtain ⟨y, hy⟩ := List.exists_mem_of_ne_nil _ (hne a (List.mem_cons_self ..))
    exact h3 y hy y (List.mem_flatMap.mpr ⟨a, ha, hy⟩) rfl

theorem ginv_hexAddFace {k : Kernel} {hes : List Nat} (chk : Bool) (hok : Global.OpOK k (.addFaceHe chk hes)) (hi : GInv k) :
    GInv (k.hexAddFace hes chk).1 := by
  unfold hexAddFace; split
  · exact hi
  · exact ginv_addFace chk hok hi

theorem ginv_hexAddFaceV {k : Kernel} {vs : List Nat} (hok : Global.OpOK k (.addFaceV vs)) (hi : GInv k) :
    GInv (k.hexAddFaceV vs).1 := by
  unfold hexAddFaceV; split
  · exact hi
  · exact ginv_addFaceV hok hi

/-- the checked hex `add_cell`: the list handed to the base class is the given one or its re-ordering; the
    re-ordering consists of halffaces of the given list, and it is duplicate-free whenever the base class
    accepts it (its closed-surface test sees a halfedge twice otherwise) -/
theorem ginv_hexAddCell {k : Kernel} {hfs : List Nat} (chk : Bool) (hok : Global.OpOK k (.addCell chk hfs)) (hi : GInv k) :
    GInv (k.hexAddCell hfs chk).1 := by
  cases hr : (k.hexAddCell hfs chk).2 with
  | none => rw [hexAddCell_reject_unchanged k hfs chk hr]; exact hi
  | some c =>
    obtain ⟨_, _, _, _, _, hv, _⟩ := hexAddCell_accept k hfs chk c hr
    obtain ⟨l, heq, hcase, _⟩ := hexAddCell_eq_addCell k hfs chk c hr
    have hne : hfs ≠ [] := by intro e; subst e; unfold hexAddCell at hr; simp at hr
    rcases hcase with ⟨e, _⟩ | ⟨hct, _, hre⟩
    · subst e; rw [heq]; exact ginv_addCell chk hok.1 hok.2 hi
    · subst hct
      have hfirst : hfs.getD 0 0 ∈ hfs := by
        cases hfs with
        | nil => exact absurd rfl hne
        | cons a t => simp
      have h4 : (k.hfHes (hfs.getD 0 0)).length = 4 := by rw [hfHes_length]; exact hv _ hfirst
      have hsub := hexReorder_subset k hfs l h4 hne hre
      rw [heq] at hr ⊢
      have hacc : k.addCellAccepts l true = true := by
        unfold addCell at hr; split at hr
        · assumption
        · simp at hr
      have hcc : k.cellCheck l = true := by
        unfold addCellAccepts at hacc; simp at hacc; exact hacc.2
      have hcs := (cellCheck_iff k l).mp hcc
      have hnd : l.Nodup := nodup_of_flatMap_nodup l k.hfHes (fun x hx => by
        have : (k.hfHes x).length = 4 := by rw [hfHes_length]; exact hv _ (hsub x hx)
        intro e; rw [e] at this; simp at this) hcs.1
      exact ginv_addCell true (fun hf hm => hok.1 hf (hsub hf hm)) hnd hi

theorem addFaceV_nV_vDel (k : Kernel) (vs : List Nat) : (k.addFaceV vs).1.nV = k.nV ∧ (k.addFaceV vs).1.vDel = k.vDel := by
  unfold addFaceV
  cases vs with
  | nil => exact ⟨rfl, rfl⟩
  | cons v0 t =>
    simp only []
    have key : ∀ (pairs : List (Nat × Nat)) (st : Kernel × List Nat),
        (pairs.foldl (fun (st : Kernel × List Nat) (ab : Nat × Nat) =>
          ((st.1.addEdge ab.1 ab.2 false).1,
           st.2 ++ [heOf (st.1.addEdge ab.1 ab.2 false).2 (if ((st.1.addEdge ab.1 ab.2 false).1.edgeAt (st.1.addEdge ab.1 ab.2 false).2).2 == ab.1 then 1 else 0)])) st).1.nV = st.1.nV ∧
        (pairs.foldl (fun (st : Kernel × List Nat) (ab : Nat × Nat) =>
          ((st.1.addEdge ab.1 ab.2 false).1,
           st.2 ++ [heOf (st.1.addEdge ab.1 ab.2 false).2 (if ((st.1.addEdge ab.1 ab.2 false).1.edgeAt (st.1.addEdge ab.1 ab.2 false).2).2 == ab.1 then 1 else 0)])) st).1.vDel = st.1.vDel := by
      intro pairs
      induction pairs with
      | nil => intro st; exact ⟨rfl, rfl⟩
      | cons p t ih =>
        intro st
        simp only [List.foldl_cons]
        obtain ⟨a, b⟩ := ih ((st.1.addEdge p.1 p.2 false).1,
           st.2 ++ [heOf (st.1.addEdge p.1 p.2 false).2 (if ((st.1.addEdge p.1 p.2 false).1.edgeAt (st.1.addEdge p.1 p.2 false).2).2 == p.1 then 1 else 0)])
        exact ⟨a.trans (addEdge_nV _ _ _ _), b.trans (addEdge_vDel _ _ _ _)⟩
    obtain ⟨a, b⟩ := key ((v0 :: t).zip ((v0 :: t).tail ++ [v0])) (k, [])
    constructor
    · unfold addFace; split
      · rw [addFaceCore_nV]; exact a
      · exact a
    · unfold addFace; split
      · rw [addFaceCore_vDel]; exact b
      · exact b

theorem vOk_of_frames {k k' : Kernel} (hn : k'.nV = k.nV) (hd : k'.vDel = k.vDel) {v : Nat} (h : VOk k v) : VOk k' v := by
  unfold VOk vDeleted at *; rw [hn, hd]; exact h

theorem hexPick_mem (vs idxs : List Nat) (hl : ∀ i ∈ idxs, i < vs.length) : ∀ v ∈ hexPick vs idxs, v ∈ vs := by
  intro v hv
  unfold hexPick at hv
  obtain ⟨i, hi, rfl⟩ := List.mem_map.mp hv
  have := hl i hi
  rw [List.getD_eq_getElem?_getD, List.getElem?_eq_getElem this]
  exact List.getElem_mem _

theorem cellVAdd_idx : ∀ a ∈ cellVAdd, ∀ i ∈ a.2.1, i < 8 := by decide

theorem cellV_fold_ginv (vs : List Nat) (hl : vs.length = 8) (adds : List (Nat × List Nat × Nat))
    (hadds : ∀ a ∈ adds, ∀ i ∈ a.2.1, i < 8) (st : Kernel × List (Option Nat)) (hv : ∀ v ∈ vs, VOk st.1 v)
    (hi : GInv st.1) : GInv (adds.foldl (hexCellVStep vs) st).1 ∧ ∀ v ∈ vs, VOk (adds.foldl (hexCellVStep vs) st).1 v := by
  induction adds generalizing st with
  | nil => exact ⟨hi, hv⟩
  | cons a t ih =>
    simp only [List.foldl_cons]
    apply ih (fun b hb => hadds b (List.mem_cons_of_mem _ hb))
    · unfold hexCellVStep; split
      · exact hv
      · intro v hm
        obtain ⟨f1, f2⟩ := addFaceV_nV_vDel st.1 (hexPick vs a.2.1)
        exact vOk_of_frames f1 f2 (hv v hm)
    · unfold hexCellVStep; split
      · exact hi
      · exact ginv_addFaceV (fun v hm => hv v (hexPick_mem vs _ (fun i hi => by
          rw [hl]; exact hadds a (List.mem_cons_self ..) i hi) v hm)) hi

theorem ginv_withFault {k : Kernel} (hi : GInv k) : GInv { k with fault := true } := by
  refine ginv_of_same (k := k) ?_ ?_ rfl rfl rfl rfl rfl rfl rfl rfl rfl rfl rfl rfl rfl hi
  · exact wf_of_fans_perm (k := k) (k' := { k with fault := true }) rfl rfl rfl rfl rfl rfl rfl rfl rfl rfl rfl rfl rfl
      rfl rfl (fun _ => List.Perm.refl _) hi.wf
  · exact oneCell_of_same (k := k) (k' := { k with fault := true }) rfl rfl rfl hi.one

theorem ginv_hexAddCellV {k : Kernel} {vs : List Nat} (chk : Bool) (hok : HexOpOK k (.addCellV chk vs)) (hi : GInv k) :
    GInv (k.hexAddCellV vs chk).1 := by
  unfold hexAddCellV
  split
  · exact hi
  · rename_i hfull
    split
    · exact hi
    · rename_i hl8
      have hl : vs.length = 8 := by simpa using hl8
      have hfu : k.fullBU = true := by simpa using hfull
      simp only []
      have hg := cellV_fold_ginv vs hl cellVAdd cellVAdd_idx
        (k, cellVFind.map (fun idxs => k.findHalffaceExtensive (hexPick vs idxs))) hok.1 hi
      have hfin := hok.2 hfu hl
      unfold cellVPrep at hfin
      simp only [] at hfin
      generalize (cellVAdd.foldl (hexCellVStep vs) (k, cellVFind.map (fun idxs => k.findHalffaceExtensive (hexPick vs idxs)))) = st
        at hg hfin ⊢
      split
      · exact ginv_withFault hg.1
      · rename_i hsome
        have hall : (cellVOrder.map (fun i => st.2.getD i none)).all (·.isSome) = true := by
          simp only [List.any_eq_true, not_exists, not_and, Bool.not_eq_true] at hsome
          rw [List.all_eq_true]
          intro x hx
          have := hsome x hx
          cases x <;> simp_all
        have ho := hfin hall
        have key : GInv (st.1.addCell ((cellVOrder.map (fun i => st.2.getD i none)).filterMap id) false).1 :=
          ginv_addCell false ho.1 ho.2 hg.1
        repeat' split
        all_goals first | exact key | exact hg.1

theorem ginv_hexStep (k : Kernel) (op : HexOp) (hi : GInv k) (hok : HexOpOK k op) : GInv (hexStep k op) := by
  cases op with
  | addCellV chk vs => exact ginv_hexAddCellV chk hok hi
  | base op =>
    have hb := hexOpOK_base hok
    cases op with
    | addFaceHe chk hes => exact ginv_hexAddFace chk hb hi
    | addFaceV vs => exact ginv_hexAddFaceV hb hi
    | addCell chk hfs => exact ginv_hexAddCell chk hb hi
    | _ => exact ginv_step k _ hi hb

/-! ### `HexLen` under one operation of the hex vocabulary -/

theorem allLen_set {n : Nat} {l : List (List Nat)} (h : AllLen n l) (i : Nat) (x : List Nat) (hx : x.length = n) :
    AllLen n (l.set i x) := by
  intro y hy
  rcases List.mem_or_eq_of_mem_set hy with hy | rfl
  · exact h y hy
  · exact hx

/-- **one operation of the hexahedral kernel keeps four halfedges per face and six halffaces per cell** —
    every operation, every deletion mode, every bottom-up configuration -/
theorem hexLen_hexStep (k : Kernel) (op : HexOp) (hi : GInv k) (hok : HexOpOK k op) (h : HexLen k) :
    HexLen (hexStep k op) := by
  cases op with
  | addCellV chk vs => exact hexAddCellV_len k vs chk h
  | base op =>
    cases op with
    | addVertex => exact h.of_eq rfl rfl
    | addNVertices n => exact h.of_eq rfl rfl
    | addEdge a b d => exact h.of_eq (addEdge_faces k a b d) (addEdge_cells k a b d)
    | addFaceHe chk hes => exact hexAddFace_len k hes chk h
    | addFaceV vs => exact hexAddFaceV_len k vs h
    | addCell chk hfs => exact hexAddCell_len k hfs chk h
    | setEdge e a b => exact h.of_eq rfl rfl
    | setFace f hes => exact ⟨allLen_set h.1 f hes hok.2, h.2⟩
    | setCell c hfs => exact ⟨h.1, allLen_set h.2 c hfs hok.2⟩
    | clear p =>
      show HexLen (k.clear p)
      constructor <;> intro x hx <;> simp [clear] at hx
    | deleteVertex v => exact stable_step stable_hexLen k _ trivial hi hok h
    | deleteEdge v => exact stable_step stable_hexLen k _ trivial hi hok h
    | deleteFace v => exact stable_step stable_hexLen k _ trivial hi hok h
    | deleteCell v => exact stable_step stable_hexLen k _ trivial hi hok h
    | swapVertex a b => exact stable_step stable_hexLen k _ trivial hi hok h
    | swapEdge a b => exact stable_step stable_hexLen k _ trivial hi hok h
    | swapFace a b => exact stable_step stable_hexLen k _ trivial hi hok h
    | swapCell a b => exact stable_step stable_hexLen k _ trivial hi hok h
    | collectGarbage => exact stable_step stable_hexLen k _ trivial hi hok h
    | enableDeferred b => exact stable_step stable_hexLen k _ trivial hi hok h
    | enableFast b => exact stable_step stable_hexLen k _ trivial hi hok h
    | enableBU kind b => exact stable_step stable_hexLen k _ trivial hi hok h

/-- **history version, no mode restriction**: along every history of valid calls of the hexahedral kernel
    the global invariant and the length part of `HexShape` hold -/
theorem shape_run (ops : List HexOp) (k : Kernel) (hi : GInv k) (h : HexLen k) (hr : HexHistoryOK k ops) :
    GInv (hexRun k ops) ∧ HexLen (hexRun k ops) := by
  induction ops generalizing k with
  | nil => exact ⟨hi, h⟩
  | cons op t ih =>
    simp only [hexRun, List.foldl_cons]
    exact ih _ (ginv_hexStep k op hi hr.1) (hexLen_hexStep k op hi hr.1 h) hr.2

/-- from the empty mesh -/
theorem shape_reachable (ops : List HexOp) (hr : HexHistoryOK {} ops) :
    GInv (hexRun {} ops) ∧ HexLen (hexRun {} ops) :=
  shape_run ops {} ginv_empty (by constructor <;> simp) hr

/-! ### Boolean forms (for `decide` on concrete histories) -/

def hexOpOKB (k : Kernel) : HexOp → Bool
  | .base (.setFace f hes) => opOKB k (.setFace f hes) && hes.length == 4
  | .base (.setCell c hfs) => opOKB k (.setCell c hfs) && hfs.length == 6
  | .base op => opOKB k op
  | .addCellV _ vs => vs.all (vOkB k) &&
      (!(k.fullBU && vs.length == 8 && (cellVPrep k vs).2.all (·.isSome)) ||
        opOKB (cellVPrep k vs).1 (.addCell false ((cellVPrep k vs).2.filterMap id)))

theorem hexOpOK_of_B (k : Kernel) (op : HexOp) (h : hexOpOKB k op = true) : HexOpOK k op := by
  cases op with
  | addCellV chk vs =>
    simp only [hexOpOKB, Bool.and_eq_true, Bool.or_eq_true, Bool.not_eq_true', List.all_eq_true] at h
    refine ⟨fun v hv => vOk_of_B (h.1 v hv), fun h1 h2 h3 => ?_⟩
    rcases h.2 with h4 | h4
    · rw [h1, h2] at h4
      have h3' : (cellVPrep k vs).2.all (·.isSome) = true := h3
      rw [h3'] at h4
      simp at h4
    · exact opOK_of_B _ _ h4
  | base op =>
    cases op with
    | setFace f hes =>
      simp only [hexOpOKB, Bool.and_eq_true, beq_iff_eq] at h
      exact ⟨opOK_of_B _ _ h.1, h.2⟩
    | setCell c hfs =>
      simp only [hexOpOKB, Bool.and_eq_true, beq_iff_eq] at h
      exact ⟨opOK_of_B _ _ h.1, h.2⟩
    | _ => exact opOK_of_B k _ (by simpa [hexOpOKB] using h)

def hexHistoryOKB : Kernel → List HexOp → Bool
  | _, [] => true
  | k, op :: t => hexOpOKB k op && hexHistoryOKB (hexStep k op) t

theorem hexHistoryOK_of_B (k : Kernel) (ops : List HexOp) (h : hexHistoryOKB k ops = true) : HexHistoryOK k ops := by
  induction ops generalizing k with
  | nil => trivial
  | cons op t ih =>
    simp only [hexHistoryOKB, Bool.and_eq_true] at h
    exact ⟨hexOpOK_of_B k op h.1, ih _ h.2⟩

end HexAll
end Kernel
end OVM

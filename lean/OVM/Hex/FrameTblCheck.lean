import OVM.Hex.FrameIdx
/- Exhaustive run of the index-level check over the 720 arrangements and the stored rotations of the first two faces.  (kernel evaluation; split off because of its running time) -/
namespace OVM
namespace Kernel
namespace HexAll
open OVM.Gen.HexTables

/-- all 720 arrangements × all stored rotations of the first two faces: what the check accepts is in convention -/
theorem tbl_check : (perms6.all fun q => [0, 1, 2, 3].all fun r0 => [0, 1, 2, 3].all fun r1 =>
    !checkI q r0 r1 || convI q) = true := by decide +kernel


end HexAll
end Kernel
end OVM
